import DiscretModel.Model.Fts
/-
Lemmas about the full-text index model (`Model/Fts.lean`), core Lean only: the agreement between rows
and index (`SInv`), that it gives `search = matching`, and that the maintenance rule, the intended
deletion, the intended model toggle and the intended ingestion preserve it.
-/
namespace Discret.Fts

/-- the index and the rows of a site agree: row numbers and slots are unique, every index entry belongs
    to a row of an indexed entity whose text has the word, and every word of such a row is indexed, and such a row has a document record -/
def SInv (s : Site) : Prop :=
  (s.rows.map (·.n)).Nodup ∧
  (∀ r1, r1 ∈ s.rows → ∀ r2, r2 ∈ s.rows → r1.slot = r2.slot → r1 = r2) ∧
  (∀ p, p ∈ s.idx → ∃ r, r ∈ s.rows ∧ r.slot = p.1 ∧ s.indexOn r.ent = true ∧ p.2 ∈ r.text) ∧
  (∀ r, r ∈ s.rows → s.indexOn r.ent = true → ∀ w, w ∈ r.text → (r.slot, w) ∈ s.idx) ∧
  (∀ r, r ∈ s.rows → s.indexOn r.ent = true → r.slot ∈ s.docs)

/-- the agreement only reads the rows, the index, the document records and the flags -/
theorem sinv_of_eq {s s' : Site} (h : SInv s) (hr : s'.rows = s.rows) (hi : s'.idx = s.idx)
    (hd : s'.docs = s.docs) (hf : s'.indexOn = s.indexOn) : SInv s' := by
  unfold SInv
  rw [hr, hi, hd, hf]
  exact h

theorem foldl_max_ge (l : List Row) : ∀ (m : Nat), m ≤ l.foldl (fun m r => max m r.slot) m ∧
    ∀ r, r ∈ l → r.slot ≤ l.foldl (fun m r => max m r.slot) m := by
  induction l with
  | nil => intro m; exact ⟨Nat.le_refl _, fun r h => by cases h⟩
  | cons x xs ih =>
    intro m
    obtain ⟨h1, h2⟩ := ih (max m x.slot)
    refine ⟨Nat.le_trans (Nat.le_max_left _ _) h1, ?_⟩
    intro r hr
    rcases List.mem_cons.mp hr with h | h
    · subst h; exact Nat.le_trans (Nat.le_max_right _ _) h1
    · exact h2 r h

theorem slot_lt_nextSlot {rows : List Row} {r : Row} (h : r ∈ rows) : r.slot < nextSlot rows := by
  unfold nextSlot
  exact Nat.lt_succ_of_le ((foldl_max_ge rows 0).2 r h)

theorem findRow_some {n : Nat} {l : List Row} {r : Row} (h : findRow n l = some r) : r ∈ l ∧ r.n = n := by
  induction l with
  | nil => cases h
  | cons x xs ih =>
    simp only [findRow] at h
    split at h
    · rename_i hx
      cases h
      exact ⟨List.mem_cons_self, hx⟩
    · exact ⟨List.mem_cons_of_mem _ (ih h).1, (ih h).2⟩

theorem findRow_none {n : Nat} {l : List Row} (h : findRow n l = none) : ∀ r, r ∈ l → r.n ≠ n := by
  induction l with
  | nil => intro r hr; cases hr
  | cons x xs ih =>
    simp only [findRow] at h
    split at h
    · cases h
    · rename_i hx
      intro r hr
      rcases List.mem_cons.mp hr with h' | h'
      · subst h'; exact hx
      · exact ih h r h'

theorem mem_eraseRow {n : Nat} {l : List Row} {r : Row} : r ∈ eraseRow n l ↔ r ∈ l ∧ r.n ≠ n := by
  simp [eraseRow, List.mem_filter]

theorem mem_idxDel {slot : Slot} {text : List Word} {idx : List (Slot × Word)} {p : Slot × Word} :
    p ∈ idxDel slot text idx ↔ p ∈ idx ∧ ¬(p.1 = slot ∧ p.2 ∈ text) := by
  unfold idxDel
  rw [List.mem_filter]
  constructor
  · rintro ⟨h1, h2⟩
    refine ⟨h1, fun ⟨hs, hm⟩ => ?_⟩
    simp [hs, hm] at h2
  · rintro ⟨h1, h2⟩
    refine ⟨h1, ?_⟩
    by_cases hs : p.1 = slot
    · by_cases hm : p.2 ∈ text
      · exact absurd ⟨hs, hm⟩ h2
      · simp [hs, hm]
    · simp [hs]

theorem mem_idxAdd {slot : Slot} {text : List Word} {idx : List (Slot × Word)} {p : Slot × Word} :
    p ∈ idxAdd slot text idx ↔ p ∈ idx ∨ (p.1 = slot ∧ p.2 ∈ text) := by
  simp only [idxAdd, List.mem_append, List.mem_map]
  constructor
  · rintro (h | ⟨w, hw, rfl⟩)
    · exact Or.inl h
    · exact Or.inr ⟨rfl, hw⟩
  · rintro (h | ⟨h1, h2⟩)
    · exact Or.inl h
    · exact Or.inr ⟨p.2, h2, by rw [← h1]⟩

theorem mem_docDel {slot x : Slot} {docs : List Slot} : x ∈ docDel slot docs ↔ x ∈ docs ∧ x ≠ slot := by
  simp [docDel, List.mem_filter]

/-- **search = the rows whose text matches**, for an entity the engine indexes -/
theorem search_eq_matching {s : Site} (h : SInv s) (e : Ent) (he : s.indexOn e = true) (t : Word) :
    search s e t = matching s e t := by
  unfold search matching
  congr 1
  apply List.filter_congr
  intro r hr
  by_cases hre : r.ent = e
  · simp only [hre, decide_true, Bool.true_and]
    obtain ⟨_, h1, h2, h3, _⟩ := h
    apply Bool.eq_iff_iff.mpr
    simp only [List.contains_iff_mem]
    constructor
    · intro hm
      obtain ⟨r', hr', hs, _, hw⟩ := h2 _ hm
      have : r' = r := h1 r' hr' r hr hs
      subst this
      exact hw
    · intro hm
      exact h3 r hr (by rw [hre]; exact he) t hm
  · simp [hre]


/-- **no search fails**: every entry of the index belongs to a slot that has its document record -/
theorem not_poisoned {s : Site} (h : SInv s) (t : Word) : poisoned s t = false := by
  obtain ⟨_, _, h2, _, h4⟩ := h
  unfold poisoned
  apply List.any_eq_false.mpr
  intro p hp
  obtain ⟨r, hr, a, b, _⟩ := h2 p hp
  have : p.1 ∈ s.docs := by rw [← a]; exact h4 r hr b
  simp [this]

/-- **a search on a nested field returns exactly the children whose text matches** (the child is joined on
    its own slot), when the engine indexes `Doc` -/
theorem nsearch_eq_nmatching {s : Site} (h : SInv s) (he : s.indexOn 0 = true) (t : Word) :
    nsearch s t = nmatching s t := by
  have key : ∀ c, c ∈ s.rows → c.ent = 0 → s.idx.contains (c.slot, t) = c.text.contains t := by
    intro c hc hce
    obtain ⟨_, h1, h2, h3, _⟩ := h
    apply Bool.eq_iff_iff.mpr
    simp only [List.contains_iff_mem]
    constructor
    · intro hm
      obtain ⟨r', hr', hs, _, hw⟩ := h2 _ hm
      have : r' = c := h1 r' hr' c hc hs
      subst this
      exact hw
    · intro hm
      exact h3 c hc (by rw [hce]; exact he) t hm
  unfold nsearch nmatching nestedBy
  congr 2
  apply List.map_congr_left
  intro p _
  unfold kidsOf
  congr 3
  apply List.filter_congr
  intro c hc
  by_cases hce : c.ent = 0
  · simp only [hce, decide_true, Bool.true_and]
    rw [key c hc hce]
  · simp [hce]

/-! ### the maintenance rule preserves the agreement -/

theorem nodup_map_inj {l : List Row} (h : (l.map (·.n)).Nodup) {a b : Row} (ha : a ∈ l) (hb : b ∈ l)
    (hab : a.n = b.n) : a = b := by
  induction l with
  | nil => cases ha
  | cons x xs ih =>
    simp only [List.map_cons, List.nodup_cons] at h
    rcases List.mem_cons.mp ha with ha1 | ha1
    · rcases List.mem_cons.mp hb with hb1 | hb1
      · rw [ha1, hb1]
      · exfalso
        apply h.1
        rw [← ha1, hab]
        exact List.mem_map.mpr ⟨b, hb1, rfl⟩
    · rcases List.mem_cons.mp hb with hb1 | hb1
      · exfalso
        apply h.1
        rw [← hb1, ← hab]
        exact List.mem_map.mpr ⟨a, ha1, rfl⟩
      · exact ih h.2 ha1 hb1

theorem writeInsert_inv {s : Site} (h : SInv s) (new : Row) (hn : ∀ r, r ∈ s.rows → r.n ≠ new.n) :
    SInv (writeInsert (s.indexOn new.ent) new s) := by
  obtain ⟨h0, h1, h2, h3, h4⟩ := h
  have hslot : ∀ r, r ∈ s.rows → r.slot ≠ nextSlot s.rows := fun r hr => Nat.ne_of_lt (slot_lt_nextSlot hr)
  unfold writeInsert
  refine ⟨?_, ?_, ?_, ?_, ?_⟩
  · show ((s.rows ++ [{ new with slot := nextSlot s.rows }]).map Row.n).Nodup
    rw [List.map_append, List.nodup_append]
    refine ⟨h0, by simp, ?_⟩
    intro a ha b hb
    obtain ⟨r, hr, rfl⟩ := List.mem_map.mp ha
    simp only [List.map_cons, List.map_nil, List.mem_singleton] at hb
    subst hb
    exact hn r hr
  · intro r1 hr1 r2 hr2 hs
    rcases List.mem_append.mp hr1 with a | a <;> rcases List.mem_append.mp hr2 with b | b
    · exact h1 r1 a r2 b hs
    · rcases List.mem_singleton.mp b with rfl
      exact absurd hs (hslot r1 a)
    · rcases List.mem_singleton.mp a with rfl
      exact absurd hs.symm (hslot r2 b)
    · rcases List.mem_singleton.mp a with rfl
      rcases List.mem_singleton.mp b with rfl
      rfl
  · intro p hp
    by_cases hi : s.indexOn new.ent = true
    · simp only [hi, ↓reduceIte] at hp
      rcases mem_idxAdd.mp hp with hp | ⟨hp1, hp2⟩
      · obtain ⟨r, hr, a, b, c⟩ := h2 p hp
        exact ⟨r, List.mem_append.mpr (Or.inl hr), a, b, c⟩
      · exact ⟨_, List.mem_append.mpr (Or.inr List.mem_cons_self), hp1.symm, hi, hp2⟩
    · simp only [hi] at hp
      obtain ⟨r, hr, a, b, c⟩ := h2 p hp
      exact ⟨r, List.mem_append.mpr (Or.inl hr), a, b, c⟩
  · intro r hr hon w hw
    rcases List.mem_append.mp hr with a | a
    · have := h3 r a hon w hw
      split
      · exact mem_idxAdd.mpr (Or.inl this)
      · exact this
    · rcases List.mem_singleton.mp a with rfl
      simp only at hon hw ⊢
      simp only [hon, ↓reduceIte]
      exact mem_idxAdd.mpr (Or.inr ⟨rfl, hw⟩)
  · intro r hr hon
    rcases List.mem_append.mp hr with a | a
    · have := h4 r a hon
      show r.slot ∈ (if s.indexOn new.ent = true then s.docs ++ [nextSlot s.rows] else s.docs)
      split
      · exact List.mem_append.mpr (Or.inl this)
      · exact this
    · rcases List.mem_singleton.mp a with rfl
      simp only at hon ⊢
      simp only [hon, ↓reduceIte]
      exact List.mem_append.mpr (Or.inr List.mem_cons_self)

theorem writeUpdate_inv {s : Site} (h : SInv s) (ung : Bool) (old new : Row) (ho : old ∈ s.rows)
    (hn : new.n = old.n) (he : new.ent = old.ent) (prev : Option (List Word))
    (hp : prev = some old.text ∨ (prev = none ∧ old.text = [])) :
    SInv (writeUpdate ung (s.indexOn old.ent) old new prev s) := by
  obtain ⟨h0, h1, h2, h3, h4⟩ := h
  -- rows other than `old` have another number and another slot
  have hother : ∀ r, r ∈ s.rows → r.n ≠ old.n → r.slot ≠ old.slot := by
    intro r hr hne hs
    exact hne (by rw [h1 r hr old ho hs])
  have hnum : ∀ r, r ∈ s.rows → r.n = old.n → r = old := by
    intro r hr hrn
    exact nodup_map_inj h0 hr ho hrn
  -- what the optional 'delete' of the previous text leaves
  have hdel : s.indexOn old.ent = true → deletesPrev ung (s.indexOn old.ent) old.slot s.docs = true := by
    intro hi
    unfold deletesPrev
    cases ung with
    | true => simpa using hi
    | false => simpa using h4 old ho hi
  have F1 : ∀ p, p ∈ (match prev with
      | some q => if deletesPrev ung (s.indexOn old.ent) old.slot s.docs = true then idxDel old.slot q s.idx else s.idx
      | none => s.idx) → p ∈ s.idx := by
    intro p hp'
    cases prev with
    | none => exact hp'
    | some q =>
      simp only at hp'
      split at hp'
      · exact (mem_idxDel.mp hp').1
      · exact hp'
  have F2 : ∀ p, p ∈ s.idx → p.1 ≠ old.slot → p ∈ (match prev with
      | some q => if deletesPrev ung (s.indexOn old.ent) old.slot s.docs = true then idxDel old.slot q s.idx else s.idx
      | none => s.idx) := by
    intro p hp' hne
    cases prev with
    | none => exact hp'
    | some q =>
      simp only
      split
      · exact mem_idxDel.mpr ⟨hp', fun ⟨hs, _⟩ => hne hs⟩
      · exact hp'
  have F3 : s.indexOn old.ent = true → ∀ p, p ∈ (match prev with
      | some q => if deletesPrev ung (s.indexOn old.ent) old.slot s.docs = true then idxDel old.slot q s.idx else s.idx
      | none => s.idx) → p.1 = old.slot → p.2 ∉ old.text := by
    intro hi p hp' hs
    rcases hp with hp | ⟨_, hp⟩
    · subst hp
      simp only [hdel hi, ↓reduceIte] at hp'
      exact fun hm => (mem_idxDel.mp hp').2 ⟨hs, hm⟩
    · rw [hp]; simp
  have G1 : ∀ x, x ∈ s.docs → x ≠ old.slot → x ∈ (match prev with
      | some _ => if deletesPrev ung (s.indexOn old.ent) old.slot s.docs = true then docDel old.slot s.docs else s.docs
      | none => s.docs) := by
    intro x hx hne
    cases prev with
    | none => exact hx
    | some q =>
      simp only
      split
      · exact mem_docDel.mpr ⟨hx, hne⟩
      · exact hx
  unfold writeUpdate
  refine ⟨?_, ?_, ?_, ?_, ?_⟩
  · show ((eraseRow old.n s.rows ++ [{ new with slot := old.slot }]).map Row.n).Nodup
    rw [List.map_append, List.nodup_append]
    refine ⟨?_, by simp, ?_⟩
    · exact (List.Sublist.map _ (List.filter_sublist)).nodup h0
    · intro a ha b hb
      obtain ⟨r, hr, rfl⟩ := List.mem_map.mp ha
      simp only [List.map_cons, List.map_nil, List.mem_singleton] at hb
      subst hb
      rw [hn]
      exact (mem_eraseRow.mp hr).2
  · intro r1 hr1 r2 hr2 hs
    rcases List.mem_append.mp hr1 with a | a <;> rcases List.mem_append.mp hr2 with b | b
    · exact h1 r1 (mem_eraseRow.mp a).1 r2 (mem_eraseRow.mp b).1 hs
    · rcases List.mem_singleton.mp b with rfl
      exact absurd hs (hother r1 (mem_eraseRow.mp a).1 (mem_eraseRow.mp a).2)
    · rcases List.mem_singleton.mp a with rfl
      exact absurd hs.symm (hother r2 (mem_eraseRow.mp b).1 (mem_eraseRow.mp b).2)
    · rcases List.mem_singleton.mp a with rfl
      rcases List.mem_singleton.mp b with rfl
      rfl
  · intro p hp'
    dsimp only at hp'
    by_cases hi : s.indexOn old.ent = true
    · rw [if_pos hi] at hp'
      rcases mem_idxAdd.mp hp' with hp' | ⟨hp1, hp2⟩
      · -- an entry that survived the deletion of the previous text
        obtain ⟨r, hr, a, b, c⟩ := h2 p (F1 p hp')
        have hne : r.n ≠ old.n := by
          intro hrn
          have := hnum r hr hrn
          subst this
          exact F3 hi p hp' a.symm c
        exact ⟨r, List.mem_append.mpr (Or.inl (mem_eraseRow.mpr ⟨hr, hne⟩)), a, b, c⟩
      · refine ⟨_, List.mem_append.mpr (Or.inr List.mem_cons_self), hp1.symm, ?_, hp2⟩
        simp only [he]; exact hi
    · rw [if_neg hi] at hp'
      obtain ⟨r, hr, a, b, c⟩ := h2 p (F1 p hp')
      have hne : r.n ≠ old.n := by
        intro hrn
        have := hnum r hr hrn
        subst this
        exact hi b
      exact ⟨r, List.mem_append.mpr (Or.inl (mem_eraseRow.mpr ⟨hr, hne⟩)), a, b, c⟩
  · intro r hr hon w hw
    dsimp only
    rcases List.mem_append.mp hr with a | a
    · obtain ⟨hr', hne⟩ := mem_eraseRow.mp a
      have hin := F2 _ (h3 r hr' hon w hw) (hother r hr' hne)
      split
      · exact mem_idxAdd.mpr (Or.inl hin)
      · exact hin
    · rcases List.mem_singleton.mp a with rfl
      simp only at hon hw ⊢
      rw [he] at hon
      simp only [hon, ↓reduceIte]
      exact mem_idxAdd.mpr (Or.inr ⟨rfl, hw⟩)
  · intro r hr hon
    dsimp only
    rcases List.mem_append.mp hr with a | a
    · obtain ⟨hr', hne⟩ := mem_eraseRow.mp a
      have hin := G1 _ (h4 r hr' hon) (hother r hr' hne)
      split
      · exact List.mem_append.mpr (Or.inl hin)
      · exact hin
    · rcases List.mem_singleton.mp a with rfl
      simp only at hon ⊢
      rw [he] at hon
      simp only [hon, ↓reduceIte]
      exact List.mem_append.mpr (Or.inr List.mem_cons_self)


/-- removing rows together with the index entries of their texts and their document records (the repaired
    deletion: a 'delete' for each row that has a document record) -/
theorem removeRows_inv {s : Site} (h : SInv s) (gone : List Row) (hg : ∀ r, r ∈ gone → r ∈ s.rows)
    (keep : Row → Bool) (hk : ∀ r, r ∈ s.rows → (keep r = false ↔ r ∈ gone)) :
    SInv { s with rows := s.rows.filter keep,
                  idx := gone.foldl (fun i r => dropEntries s.docs r i) s.idx,
                  docs := s.docs.filter fun x => !(gone.any fun r => r.slot = x) } := by
  obtain ⟨h0, h1, h2, h3, h4⟩ := h
  have hfold : ∀ (g : List Row) (i : List (Slot × Word)) (p : Slot × Word),
      p ∈ g.foldl (fun i r => dropEntries s.docs r i) i ↔
        p ∈ i ∧ ∀ r, r ∈ g → s.docs.contains r.slot = true → ¬(p.1 = r.slot ∧ p.2 ∈ r.text) := by
    intro g
    induction g with
    | nil => intro i p; simp
    | cons x xs ih =>
      intro i p
      simp only [List.foldl_cons]
      rw [ih]
      unfold dropEntries
      by_cases hx : s.docs.contains x.slot = true
      · simp only [hx, ↓reduceIte]
        rw [mem_idxDel]
        constructor
        · rintro ⟨⟨a, b⟩, c⟩
          refine ⟨a, ?_⟩
          intro r hr hd
          rcases List.mem_cons.mp hr with h' | h'
          · subst h'; exact b
          · exact c r h' hd
        · rintro ⟨a, b⟩
          exact ⟨⟨a, b x List.mem_cons_self hx⟩, fun r hr hd => b r (List.mem_cons_of_mem _ hr) hd⟩
      · simp only [hx]
        constructor
        · rintro ⟨a, c⟩
          refine ⟨a, ?_⟩
          intro r hr hd
          rcases List.mem_cons.mp hr with h' | h'
          · subst h'; exact absurd hd hx
          · exact c r h' hd
        · rintro ⟨a, b⟩
          exact ⟨a, fun r hr hd => b r (List.mem_cons_of_mem _ hr) hd⟩
  refine ⟨?_, ?_, ?_, ?_, ?_⟩
  · exact (List.Sublist.map _ List.filter_sublist).nodup h0
  · intro r1 hr1 r2 hr2 hs
    exact h1 r1 (List.mem_filter.mp hr1).1 r2 (List.mem_filter.mp hr2).1 hs
  · intro p hp
    obtain ⟨hin, hno⟩ := (hfold gone s.idx p).mp hp
    obtain ⟨r, hr, a, b, c⟩ := h2 p hin
    refine ⟨r, List.mem_filter.mpr ⟨hr, ?_⟩, a, b, c⟩
    cases hkr : keep r with
    | true => rfl
    | false =>
      have := (hk r hr).mp hkr
      exact absurd ⟨a.symm, c⟩ (hno r this (List.contains_iff_mem.mpr (h4 r hr b)))
  · intro r hr hon w hw
    obtain ⟨hr', hkeep⟩ := List.mem_filter.mp hr
    refine (hfold gone s.idx (r.slot, w)).mpr ⟨h3 r hr' hon w hw, ?_⟩
    intro g hgm _ ⟨hs, _⟩
    have : r = g := h1 r hr' g (hg g hgm) hs
    subst this
    have := (hk r hr').mpr hgm
    rw [this] at hkeep
    cases hkeep
  · intro r hr hon
    obtain ⟨hr', hkeep⟩ := List.mem_filter.mp hr
    apply List.mem_filter.mpr
    refine ⟨h4 r hr' hon, ?_⟩
    simp only [Bool.not_eq_true', List.any_eq_false, decide_eq_true_eq]
    intro g hgm hs
    have : g = r := h1 g (hg g hgm) r hr' hs
    subst this
    have := (hk g hr').mpr hgm
    rw [this] at hkeep
    cases hkeep

theorem del_inv {s : Site} (h : SInv s) (old : Row) (ho : old ∈ s.rows) :
    SInv { s with rows := eraseRow old.n s.rows, idx := dropEntries s.docs old s.idx,
                  docs := docDel old.slot s.docs } := by
  have := removeRows_inv h [old] (by intro r hr; rcases List.mem_singleton.mp hr with rfl; exact ho)
    (fun r => decide (r.n ≠ old.n)) (by
      intro r hr
      simp only [ne_eq, decide_not, Bool.not_eq_false', decide_eq_true_eq, List.mem_singleton]
      constructor
      · intro hrn; exact nodup_map_inj h.1 hr ho hrn
      · intro e; rw [e])
  refine sinv_of_eq this rfl rfl ?_ rfl
  show docDel old.slot s.docs = s.docs.filter fun x => !([old].any fun r => r.slot = x)
  unfold docDel
  apply List.filter_congr
  intro x _
  by_cases hx : x = old.slot
  · simp [hx]
  · have : ¬ old.slot = x := fun e => hx e.symm
    simp [hx, this]

/-- the intended effect of a model version that changes index flags -/
theorem toggle_inv {s : Site} (h : SInv s) (on : Ent → Bool) :
    SInv { s with indexOn := on, idx := toggleIdx s on, docs := toggleDocs s on } := by
  unfold toggleIdx toggleDocs
  obtain ⟨h0, h1, h2, h3, h4⟩ := h
  refine ⟨h0, h1, ?_, ?_, ?_⟩
  · intro p hp
    rcases List.mem_append.mp hp with hp | hp
    · obtain ⟨hin, hclean⟩ := List.mem_filter.mp hp
      obtain ⟨r, hr, a, b, c⟩ := h2 p hin
      refine ⟨r, hr, a, ?_, c⟩
      show on r.ent = true
      cases hon : on r.ent with
      | true => rfl
      | false =>
        exfalso
        simp only [Bool.not_eq_true', List.any_eq_false, Bool.and_eq_true, decide_eq_true_eq, bne_iff_ne,
          ne_eq, not_and, Decidable.not_not] at hclean
        have := hclean r hr a
        rw [b, hon] at this
        cases this
    · obtain ⟨r, hr, hw⟩ := List.mem_flatMap.mp hp
      obtain ⟨hr', hf⟩ := List.mem_filter.mp hr
      obtain ⟨w, hw', rfl⟩ := List.mem_map.mp hw
      simp only [Bool.and_eq_true, Bool.not_eq_true'] at hf
      exact ⟨r, hr', rfl, hf.1, hw'⟩
  · intro r hr hon w hw
    show (r.slot, w) ∈ _ ++ _
    change on r.ent = true at hon
    cases hold : s.indexOn r.ent with
    | true =>
      apply List.mem_append.mpr; left
      apply List.mem_filter.mpr
      refine ⟨h3 r hr hold w hw, ?_⟩
      simp only [Bool.not_eq_true', List.any_eq_false, Bool.and_eq_true, decide_eq_true_eq, bne_iff_ne,
        ne_eq, not_and, Decidable.not_not]
      intro r' hr' hs
      have : r' = r := h1 r' hr' r hr hs
      subst this
      rw [hold, hon]
    | false =>
      apply List.mem_append.mpr; right
      apply List.mem_flatMap.mpr
      refine ⟨r, List.mem_filter.mpr ⟨hr, by simp [hon, hold]⟩, ?_⟩
      exact List.mem_map.mpr ⟨w, hw, rfl⟩
  · intro r hr hon
    show r.slot ∈ _ ++ _
    change on r.ent = true at hon
    cases hold : s.indexOn r.ent with
    | true =>
      apply List.mem_append.mpr; left
      apply List.mem_filter.mpr
      refine ⟨h4 r hr hold, ?_⟩
      simp only [Bool.not_eq_true', List.any_eq_false, Bool.and_eq_true, decide_eq_true_eq, bne_iff_ne,
        ne_eq, not_and, Decidable.not_not]
      intro r' hr' hs
      have : r' = r := h1 r' hr' r hr hs
      subst this
      rw [hold, hon]
    | false =>
      apply List.mem_append.mpr; right
      exact List.mem_map.mpr ⟨r, List.mem_filter.mpr ⟨hr, by simp [hon, hold]⟩, rfl⟩

/-- a model version that changes the flags only (no re-indexing) keeps the agreement when every row's entity
    keeps its flag — i.e. when the entities whose flag changes have no row at the site -/
theorem flagOnly_inv {s : Site} (h : SInv s) (on : Ent → Bool)
    (hsafe : ∀ r, r ∈ s.rows → on r.ent = s.indexOn r.ent) : SInv { s with indexOn := on } := by
  obtain ⟨h0, h1, h2, h3, h4⟩ := h
  refine ⟨h0, h1, ?_, ?_, ?_⟩
  · intro p hp
    obtain ⟨r, hr, a, b, c⟩ := h2 p hp
    exact ⟨r, hr, a, (hsafe r hr).trans b, c⟩
  · intro r hr hon w hw
    exact h3 r hr ((hsafe r hr).symm.trans hon) w hw
  · intro r hr hon
    exact h4 r hr ((hsafe r hr).symm.trans hon)


/-! ### ingestion (intended behaviour: indexed like a local write) -/

/-- the (number, entity) of every row of `A` is that of some row of `B` -/
def Keys (A B : List Row) : Prop := ∀ x, x ∈ A → ∃ y, y ∈ B ∧ y.n = x.n ∧ y.ent = x.ent

/-- rows with the same number have the same entity -/
def Compat (A B : List Row) : Prop := ∀ a, a ∈ A → ∀ b, b ∈ B → a.n = b.n → a.ent = b.ent

theorem Keys.refl (A : List Row) : Keys A A := fun x hx => ⟨x, hx, rfl, rfl⟩

theorem Keys.trans {A B C : List Row} (h1 : Keys A B) (h2 : Keys B C) : Keys A C := by
  intro x hx
  obtain ⟨y, hy, a, b⟩ := h1 x hx
  obtain ⟨z, hz, c, d⟩ := h2 y hy
  exact ⟨z, hz, c.trans a, d.trans b⟩

theorem Keys.of_subset {A B : List Row} (h : ∀ x, x ∈ A → x ∈ B) : Keys A B :=
  fun x hx => ⟨x, h x hx, rfl, rfl⟩

theorem Compat.of_keys {A B C : List Row} (hk : Keys A B) (hc : Compat B C) : Compat A C := by
  intro a ha c hc' hn
  obtain ⟨y, hy, h1, h2⟩ := hk a ha
  rw [← h2]
  exact hc y hy c hc' (h1.trans hn)

theorem compat_self {s : Site} (h : SInv s) : Compat s.rows s.rows := by
  intro a ha b hb hn
  rw [nodup_map_inj h.1 ha hb hn]

/-- without tombstones at the source nothing goes -/
theorem pullTombs_noTombs (d : Defects) (src : Site) (e : Ent) (dst : Site) (hn : src.tombs = []) :
    (pullTombs d src e dst).rows = dst.rows ∧ (pullTombs d src e dst).idx = dst.idx ∧
      (pullTombs d src e dst).docs = dst.docs ∧ (pullTombs d src e dst).indexOn = dst.indexOn ∧
      (pullTombs d src e dst).tombs = dst.tombs := by
  unfold pullTombs
  have hf : dst.rows.filter (fun _ => false) = [] := List.filter_eq_nil_iff.mpr (by simp)
  simp [hn, hf]

theorem pullTombs_inv (d : Defects) (src : Site) (hd : d.deleteLeavesIndex = false ∨ src.tombs = []) (e : Ent)
    {dst : Site} (h : SInv dst) :
    SInv (pullTombs d src e dst) ∧ (pullTombs d src e dst).indexOn = dst.indexOn ∧
      (∀ x, x ∈ (pullTombs d src e dst).rows → x ∈ dst.rows) := by
  rcases hd with hd | hn
  · unfold pullTombs
    refine ⟨?_, rfl, fun x hx => (List.mem_filter.mp hx).1⟩
    simp only [hd, Bool.false_eq_true, ↓reduceIte]
    have := removeRows_inv h
      (dst.rows.filter fun r => (src.tombs.filter fun t => t.ent = e).any fun t => t.n = r.n)
      (fun r hr => (List.mem_filter.mp hr).1)
      (fun r => !((src.tombs.filter fun t => t.ent = e).any fun t => t.n = r.n))
      (by
        intro r hr
        simp only [Bool.not_eq_false', List.mem_filter, hr, true_and])
    exact this
  · obtain ⟨a, b, c, f, _⟩ := pullTombs_noTombs d src e dst hn
    exact ⟨sinv_of_eq h a b c f, f, fun x hx => by rw [a] at hx; exact hx⟩

theorem ingestRow_inv (d : Defects) (hd : d.ingestUnindexed = false) {dst : Site} (h : SInv dst) (r : Row)
    (hk : ∀ a, a ∈ dst.rows → a.n = r.n → a.ent = r.ent) :
    SInv (ingestRow d dst r) ∧ (ingestRow d dst r).indexOn = dst.indexOn ∧
      (∀ x, x ∈ (ingestRow d dst r).rows → x ∈ dst.rows ∨ (x.n = r.n ∧ x.ent = r.ent)) := by
  unfold ingestRow
  simp only [hd, Bool.not_false, Bool.true_and]
  split
  · rename_i old hf
    obtain ⟨ho, hon⟩ := findRow_some hf
    have he : r.ent = old.ent := (hk old ho hon).symm
    have := writeUpdate_inv h d.deleteUnguarded old r ho hon.symm he (some old.text) (Or.inl rfl)
    rw [he]
    refine ⟨this, rfl, ?_⟩
    intro x hx
    unfold writeUpdate at hx
    rcases List.mem_append.mp hx with h' | h'
    · exact Or.inl (mem_eraseRow.mp h').1
    · rcases List.mem_singleton.mp h' with rfl
      exact Or.inr ⟨rfl, he⟩
  · rename_i hf
    refine ⟨writeInsert_inv h r (findRow_none hf), rfl, ?_⟩
    intro x hx
    unfold writeInsert at hx
    rcases List.mem_append.mp hx with h' | h'
    · exact Or.inl h'
    · rcases List.mem_singleton.mp h' with rfl
      exact Or.inr ⟨rfl, rfl⟩

theorem foldl_ingest_inv (d : Defects) (hd : d.ingestUnindexed = false) (l : List Row) :
    ∀ (dst : Site), SInv dst → Compat dst.rows l → Compat l l →
      SInv (l.foldl (ingestRow d) dst) ∧ (l.foldl (ingestRow d) dst).indexOn = dst.indexOn ∧
        Keys (l.foldl (ingestRow d) dst).rows (dst.rows ++ l) := by
  induction l with
  | nil =>
    intro dst h _ _
    exact ⟨h, rfl, Keys.of_subset fun x hx => List.mem_append.mpr (Or.inl hx)⟩
  | cons r rest ih =>
    intro dst h hc hl
    simp only [List.foldl_cons]
    obtain ⟨a1, a2, a3⟩ := ingestRow_inv d hd h r (fun a ha hn => hc a ha r List.mem_cons_self hn)
    have hc' : Compat (ingestRow d dst r).rows rest := by
      intro x hx y hy hn
      rcases a3 x hx with h' | ⟨h1, h2⟩
      · exact hc x h' y (List.mem_cons_of_mem _ hy) hn
      · rw [h2]; exact hl r List.mem_cons_self y (List.mem_cons_of_mem _ hy) (h1.symm.trans hn)
    have hl' : Compat rest rest := fun a ha b hb => hl a (List.mem_cons_of_mem _ ha) b (List.mem_cons_of_mem _ hb)
    obtain ⟨b1, b2, b3⟩ := ih (ingestRow d dst r) a1 hc' hl'
    refine ⟨b1, b2.trans a2, ?_⟩
    intro x hx
    obtain ⟨y, hy, e1, e2⟩ := b3 x hx
    rcases List.mem_append.mp hy with h' | h'
    · rcases a3 y h' with h'' | ⟨h1, h2⟩
      · exact ⟨y, List.mem_append.mpr (Or.inl h''), e1, e2⟩
      · exact ⟨r, List.mem_append.mpr (Or.inr List.mem_cons_self), h1.symm.trans e1, h2.symm.trans e2⟩
    · exact ⟨y, List.mem_append.mpr (Or.inr (List.mem_cons_of_mem _ h')), e1, e2⟩

theorem mem_insertByCtick {r x : Row} {l : List Row} : x ∈ insertByCtick r l ↔ x = r ∨ x ∈ l := by
  induction l with
  | nil => simp [insertByCtick]
  | cons h t ih =>
    simp only [insertByCtick]
    split
    · simp
    · simp only [List.mem_cons, ih]
      constructor
      · rintro (a | a | a)
        · exact Or.inr (Or.inl a)
        · exact Or.inl a
        · exact Or.inr (Or.inr a)
      · rintro (a | a | a)
        · exact Or.inr (Or.inl a)
        · exact Or.inl a
        · exact Or.inr (Or.inr a)

theorem mem_sortByCtick (l : List Row) : ∀ (acc : List Row) (x : Row),
    x ∈ l.foldl (fun acc r => insertByCtick r acc) acc ↔ x ∈ l ∨ x ∈ acc := by
  induction l with
  | nil => intro acc x; simp
  | cons h t ih =>
    intro acc x
    simp only [List.foldl_cons, ih, mem_insertByCtick, List.mem_cons]
    constructor
    · rintro (a | a | a)
      · exact Or.inl (Or.inr a)
      · exact Or.inl (Or.inl a)
      · exact Or.inr a
    · rintro ((a | a) | a)
      · exact Or.inr (Or.inl a)
      · exact Or.inl a
      · exact Or.inr (Or.inr a)

theorem pullRows_inv (d : Defects) (hd : d.ingestUnindexed = false) (src : Site) (hs : SInv src) (e : Ent)
    {dst : Site} (h : SInv dst) (hc : Compat dst.rows src.rows) :
    SInv (pullRows d src e dst) ∧ (pullRows d src e dst).indexOn = dst.indexOn ∧
      Keys (pullRows d src e dst).rows (dst.rows ++ src.rows) := by
  unfold pullRows
  dsimp only
  have hsub : ∀ x, x ∈ ((src.rows.filter fun r => r.ent = e && !(dst.tombs.any fun t => t.n = r.n)).filter fun r =>
        match findRow r.n dst.rows with
        | none => true
        | some old => old.ver < r.ver).foldl (fun acc r => insertByCtick r acc) [] → x ∈ src.rows := by
    intro x hx
    rcases (mem_sortByCtick _ _ _).mp hx with h' | h'
    · exact (List.mem_filter.mp (List.mem_filter.mp h').1).1
    · cases h'
  obtain ⟨a1, a2, a3⟩ := foldl_ingest_inv d hd _ dst h
    (fun a ha b hb hn => hc a ha b (hsub b hb) hn)
    (fun a ha b hb hn => compat_self hs a (hsub a ha) b (hsub b hb) hn)
  refine ⟨a1, a2, ?_⟩
  intro x hx
  obtain ⟨y, hy, e1, e2⟩ := a3 x hx
  rcases List.mem_append.mp hy with h' | h'
  · exact ⟨y, List.mem_append.mpr (Or.inl h'), e1, e2⟩
  · exact ⟨y, List.mem_append.mpr (Or.inr (hsub y h')), e1, e2⟩

theorem pullOp_inv (d : Defects) (src : Site) (hd1 : d.deleteLeavesIndex = false ∨ src.tombs = [])
    (hd2 : d.ingestUnindexed = false)
    (hs : SInv src) {dst : Site} (h : SInv dst) (hc : Compat dst.rows src.rows) :
    SInv (pullOp d src dst) ∧ (pullOp d src dst).indexOn = dst.indexOn ∧
      Keys (pullOp d src dst).rows (dst.rows ++ src.rows) := by
  unfold pullOp
  have key : ∀ (l : List Ent) (acc : Site), SInv acc → acc.indexOn = dst.indexOn →
      Keys acc.rows (dst.rows ++ src.rows) →
      SInv (l.foldl (fun acc e => pullRows d src e (pullTombs d src e acc)) acc) ∧
      (l.foldl (fun acc e => pullRows d src e (pullTombs d src e acc)) acc).indexOn = dst.indexOn ∧
      Keys (l.foldl (fun acc e => pullRows d src e (pullTombs d src e acc)) acc).rows (dst.rows ++ src.rows) := by
    intro l
    induction l with
    | nil => intro acc a b c; exact ⟨a, b, c⟩
    | cons e rest ih =>
      intro acc a b c
      simp only [List.foldl_cons]
      obtain ⟨t1, t2, t3⟩ := pullTombs_inv d src hd1 e a
      have hcomp : Compat (dst.rows ++ src.rows) src.rows := by
        intro x hx y hy hn
        rcases List.mem_append.mp hx with h' | h'
        · exact hc x h' y hy hn
        · exact compat_self hs x h' y hy hn
      have kt : Keys (pullTombs d src e acc).rows (dst.rows ++ src.rows) :=
        (Keys.of_subset t3).trans c
      obtain ⟨r1, r2, r3⟩ := pullRows_inv d hd2 src hs e t1 (Compat.of_keys kt hcomp)
      apply ih _ r1 (r2.trans (t2.trans b))
      intro x hx
      obtain ⟨y, hy, e1, e2⟩ := r3 x hx
      rcases List.mem_append.mp hy with h' | h'
      · obtain ⟨z, hz, f1, f2⟩ := kt y h'
        exact ⟨z, hz, f1.trans e1, f2.trans e2⟩
      · exact ⟨y, List.mem_append.mpr (Or.inr h'), e1, e2⟩
  exact key _ dst h rfl (Keys.of_subset fun x hx => List.mem_append.mpr (Or.inl hx))

end Discret.Fts
