import DiscretModel.Lemmas.Lock
/-
Fairness of the lock queue (code as fixed by `fix: a waiting peer keeps its place in the lock queue`):
the position of a waiting peer never moves away from the back of the queue, and it moves strictly
closer every time a room it is waiting for (with a live receiver) is granted to somebody else.
-/
namespace Discret.Lock

/-- number of peers that are visited before `p` -/
def rank : List Peer → Peer → Nat
  | [], _ => 0
  | x :: t, p => if x = p then 0 else rank t p + 1

theorem rank_append_mem {a b : List Peer} {p : Peer} (h : p ∈ a) : rank (a ++ b) p = rank a p := by
  induction a with
  | nil => cases h
  | cons x t ih =>
    simp only [List.cons_append, rank]
    split
    · rfl
    · rename_i hne
      rcases List.mem_cons.mp h with e | e
      · exact absurd e.symm hne
      · rw [ih e]

theorem rank_append_not_mem {a b : List Peer} {p : Peer} (h : p ∉ a) :
    rank (a ++ b) p = a.length + rank b p := by
  induction a with
  | nil => simp
  | cons x t ih =>
    simp only [List.mem_cons, not_or] at h
    simp only [List.cons_append, rank, List.length_cons]
    split
    · rename_i e; exact absurd e.symm h.1
    · rw [ih h.2]; omega

theorem rank_le_of_sublist {l' l : List Peer} (hs : List.Sublist l' l) (hn : l.Nodup) {p : Peer}
    (hp : p ∈ l') : rank l' p ≤ rank l p := by
  induction hs with
  | slnil => cases hp
  | cons a hs' ih =>
    simp only [rank]
    split
    · rename_i e
      subst e
      exact absurd (hs'.subset hp) (List.nodup_cons.mp hn).1
    · exact Nat.le_succ_of_le (ih (List.nodup_cons.mp hn).2 hp)
  | cons_cons a _ ih =>
    simp only [rank]
    split
    · exact Nat.le_refl _
    · rename_i hne
      rcases List.mem_cons.mp hp with e | e
      · exact absurd e.symm hne
      · exact Nat.succ_le_succ (ih (List.nodup_cons.mp hn).2 e)

/-- nothing can be granted to this request now -/
def Blocked (s : State) (req : Req) : Prop := req.ch ∈ s.dead ∨ ∀ x ∈ req.rooms, x ∈ s.locked

theorem turnReqs_keeps_other {s : State} {p p' : Peer} {req req' : Req} {rooms' : List Room}
    (hne : p' ≠ p) (hm : (p', req') ∈ s.reqs) : (p', req') ∈ turnReqs s p req rooms' := by
  unfold turnReqs
  split
  · exact mem_erase.mpr ⟨hm, hne⟩
  · exact List.mem_cons_of_mem _ (mem_erase.mpr ⟨hm, hne⟩)

/-- a turn without grant means the request was blocked -/
theorem turn_none_blocked {s : State} {req : Req}
    (hres : (roomLoop s.locked (!s.dead.contains req.ch) req.rooms.length req.rooms).2 = none) :
    Blocked s req := by
  by_cases hd : req.ch ∈ s.dead
  · exact Or.inl hd
  · right
    have hlv : (!s.dead.contains req.ch) = true := by simpa using hd
    rw [hlv] at hres
    have hrl : roomLoop s.locked true req.rooms.length req.rooms
        = ((roomLoop s.locked true req.rooms.length req.rooms).1, none) := by rw [← hres]
    have hk := roomLoop_none_live_keeps hrl
    have hrl2 : roomLoop s.locked true req.rooms.length (req.rooms ++ [])
        = ((roomLoop s.locked true req.rooms.length req.rooms).1, none) := by
      rw [List.append_nil]; exact hrl
    have hl := roomLoop_none_locked hrl2 (Nat.le_refl _) (by intro x hx; cases hx)
    intro x hx
    exact hl x (hk x hx)

section
variable {max : Nat}

/-- a scan without grant keeps the peers in their order -/
theorem scan_queue_none {s s' : State} {todo sk : List Peer}
    (h : scan s todo sk = (s', none)) :
    ∃ kept, List.Sublist kept todo ∧ s'.queue = sk ++ kept := by
  induction todo generalizing s sk with
  | nil =>
    simp only [scan, Prod.mk.injEq, and_true] at h; subst h
    exact ⟨[], List.Sublist.slnil, by simp⟩
  | cons p q ih =>
    simp only [scan] at h
    split at h
    · obtain ⟨kept, hk, hq⟩ := ih h
      exact ⟨kept, List.Sublist.cons _ hk, hq⟩
    · split at h
      · simp at h
      · obtain ⟨kept, hk, hq⟩ := ih h
        split at hq
        · exact ⟨kept, List.Sublist.cons _ hk, hq⟩
        · exact ⟨p :: kept, List.Sublist.cons_cons _ hk, by rw [hq]; simp⟩

/-- a scan with a grant: the peers visited before the served one were blocked and keep their order;
    the served peer goes to the end of the queue (or leaves it); the others are untouched -/
theorem scan_queue_some {s s' : State} {todo sk : List Peer} {ch : Ch} {r : Room}
    (hi : Inv max (vstate s sk todo)) (h : scan s todo sk = (s', some (ch, r))) :
    ∃ pre gp post kept reqg,
      todo = pre ++ gp :: post ∧ List.Sublist kept pre ∧
      (s'.queue = sk ++ kept ++ post ∨ s'.queue = sk ++ kept ++ post ++ [gp]) ∧
      (gp, reqg) ∈ s.reqs ∧ reqg.ch = ch ∧
      ∀ p' ∈ pre, ∀ req', (p', req') ∈ s.reqs → Blocked s req' := by
  induction todo generalizing s sk with
  | nil => simp [scan] at h
  | cons p q ih =>
    simp only [scan] at h
    split at h
    · rename_i hl
      have : p ∈ keys s.reqs := (hi.queueKeys p).mp (by simp [vstate])
      exact absurd this (lookup_none_iff.mp hl)
    · rename_i req hl
      split at h
      · rename_i r' hres
        simp only [Prod.mk.injEq, Option.some.injEq] at h
        obtain ⟨h1, h2, _⟩ := h; subst h1 h2
        refine ⟨[], p, q, [], req, rfl, List.Sublist.slnil, ?_, lookup_some_mem hl, rfl, ?_⟩
        · simp only [List.append_nil]
          split
          · exact Or.inl rfl
          · exact Or.inr (by simp)
        · intro p' hp'; cases hp'
      · rename_i hres
        have hqn : (sk ++ p :: q).Nodup := hi.queueNodup
        have hnq : p ∉ q := (List.nodup_cons.mp (List.nodup_append.mp hqn).2.1).1
        have hsubr := roomLoop_sub (g := (roomLoop s.locked (!s.dead.contains req.ch) req.rooms.length req.rooms).2) rfl
        obtain ⟨pre1, gp, post, kept1, reqg, e1, hk, hq, hmg, hcg, hbl⟩ := ih (turn_none_inv hi) h
        have hgpq : gp ∈ q := by rw [e1]; simp
        have hgp : gp ≠ p := fun e => hnq (e ▸ hgpq)
        have hmg0 : (gp, reqg) ∈ s.reqs := by
          rcases turnReqs_mem hsubr hmg with ⟨_, h2⟩ | ⟨h1, _⟩
          · exact h2
          · exact absurd h1 hgp
        have hblocked : ∀ p' ∈ p :: pre1, ∀ req', (p', req') ∈ s.reqs → Blocked s req' := by
          intro p' hp' req' hm'
          rcases List.mem_cons.mp hp' with e | e
          · subst e
            have : req = req' := mem_uniq hi.keysNodup (lookup_some_mem hl) hm'
            subst this
            exact turn_none_blocked hres
          · have hne : p' ≠ p := fun e2 => hnq (by rw [e1]; rw [← e2]; simp [e])
            have := hbl p' e req' (turnReqs_keeps_other hne hm')
            exact this
        split at hq
        · exact ⟨p :: pre1, gp, post, kept1, reqg, by rw [e1]; rfl, List.Sublist.cons _ hk, hq, hmg0, hcg, hblocked⟩
        · refine ⟨p :: pre1, gp, post, p :: kept1, reqg, by rw [e1]; rfl, List.Sublist.cons_cons _ hk, ?_, hmg0, hcg, hblocked⟩
          rcases hq with hq | hq
          · left; rw [hq]; simp
          · right; rw [hq]; simp

end

section
variable {max : Nat}

theorem mem_queue_of_mem_reqs {s : State} (hi : Inv max s) {p : Peer} {req : Req}
    (hm : (p, req) ∈ s.reqs) : p ∈ s.queue :=
  (hi.queueKeys p).mpr (List.mem_map_of_mem (f := Prod.fst) hm)

theorem exists_req_of_mem_queue {s : State} (hi : Inv max s) {p : Peer} (hq : p ∈ s.queue) :
    ∃ req, (p, req) ∈ s.reqs := by
  have := (hi.queueKeys p).mp hq
  simp only [keys, List.mem_map, Prod.exists, exists_and_right, exists_eq_right] at this
  exact this

/-- a peer that is not served by an acquisition round never moves away from the back of the queue -/
theorem acquire_rank_le {s s' : State} {g : Option (Ch × Room)} (hi : Inv max s)
    (h : acquire s = (s', g)) {p : Peer} {req : Req} (hm : (p, req) ∈ s.reqs) (hq' : p ∈ s'.queue)
    (hnot : ∀ ch r, g = some (ch, r) → req.ch ≠ ch) : rank s'.queue p ≤ rank s.queue p := by
  cases g with
  | none =>
    obtain ⟨kept, hk, hq⟩ := scan_queue_none h
    simp only [List.nil_append] at hq
    rw [hq] at hq' ⊢
    exact rank_le_of_sublist hk hi.queueNodup hq'
  | some cr =>
    obtain ⟨ch, r⟩ := cr
    obtain ⟨pre, gp, post, kept, reqg, e1, hk, hq, hmg, hcg, _⟩ := scan_queue_some (vstate_acquire hi) h
    simp only [List.nil_append] at hq
    have hne : p ≠ gp := by
      intro e; subst e
      have := mem_uniq hi.keysNodup hm hmg
      subst this
      exact hnot ch r rfl hcg
    have hqn : (pre ++ gp :: post).Nodup := e1 ▸ hi.queueNodup
    have hpre : pre.Nodup := (List.nodup_append.mp hqn).1
    by_cases hpk : p ∈ kept
    · have hpp : p ∈ pre := hk.subset hpk
      have e2 : rank s'.queue p = rank kept p := by
        rcases hq with hq | hq
        · rw [hq]; exact rank_append_mem hpk
        · rw [hq, List.append_assoc]; exact rank_append_mem hpk
      rw [e2, e1, rank_append_mem hpp]
      exact rank_le_of_sublist hk hpre hpk
    · have hppost : p ∈ post := by
        rcases hq with hq | hq
        · rw [hq] at hq'
          rcases List.mem_append.mp hq' with h | h
          · exact absurd h hpk
          · exact h
        · rw [hq] at hq'
          rcases List.mem_append.mp hq' with h | h
          · rcases List.mem_append.mp h with h | h
            · exact absurd h hpk
            · exact h
          · simp only [List.mem_singleton] at h; exact absurd h hne
      have hnpre : p ∉ pre := by
        intro hp
        exact (List.nodup_append.mp hqn).2.2 p hp p (List.mem_cons_of_mem _ hppost) rfl
      have e2 : rank s'.queue p = kept.length + rank post p := by
        rcases hq with hq | hq
        · rw [hq]; exact rank_append_not_mem hpk
        · rw [hq, List.append_assoc, rank_append_not_mem hpk, rank_append_mem hppost]
      rw [e2, e1, rank_append_not_mem hnpre]
      simp only [rank]
      split
      · rename_i e; exact absurd e.symm hne
      · have := hk.length_le; omega

/-- … and it moves strictly closer whenever a free room it is waiting for, with a live receiver,
    goes to somebody else -/
theorem acquire_rank_lt {s s' : State} {ch : Ch} {r : Room} (hi : Inv max s) (ha : 0 < s.avail)
    (h : acquire s = (s', some (ch, r))) {p : Peer} {req : Req} (hm : (p, req) ∈ s.reqs)
    (_hq' : p ∈ s'.queue) (hch : req.ch ≠ ch) (hlive : req.ch ∉ s.dead) (hw : r ∈ req.rooms) :
    rank s'.queue p < rank s.queue p := by
  obtain ⟨hfree, _⟩ := acquire_some hi ha h
  obtain ⟨pre, gp, post, kept, reqg, e1, hk, hq, hmg, hcg, hbl⟩ := scan_queue_some (vstate_acquire hi) h
  simp only [List.nil_append] at hq
  have hne : p ≠ gp := by
    intro e; subst e
    have := mem_uniq hi.keysNodup hm hmg
    subst this
    exact hch hcg
  have hqn : (pre ++ gp :: post).Nodup := e1 ▸ hi.queueNodup
  have hnpre : p ∉ pre := by
    intro hp
    rcases hbl p hp req hm with hd | hl
    · exact hlive hd
    · exact hfree (hl r hw)
  have hpk : p ∉ kept := fun h => hnpre (hk.subset h)
  have hppost : p ∈ post := by
    have : p ∈ pre ++ gp :: post := e1 ▸ mem_queue_of_mem_reqs hi hm
    rcases List.mem_append.mp this with h | h
    · exact absurd h hnpre
    · rcases List.mem_cons.mp h with h | h
      · exact absurd h hne
      · exact h
  have e2 : rank s'.queue p = kept.length + rank post p := by
    rcases hq with hq | hq
    · rw [hq]; exact rank_append_not_mem hpk
    · rw [hq, List.append_assoc, rank_append_not_mem hpk, rank_append_mem hppost]
  rw [e2, e1, rank_append_not_mem hnpre]
  simp only [rank]
  split
  · rename_i e; exact absurd e.symm hne
  · have := hk.length_le; omega

/-- the request of a queued peer keeps its channel through an acquisition round -/
theorem acquire_keeps_channel {s s' : State} {g : Option (Ch × Room)} (hi : Inv max s)
    (ha : 0 < s.avail) (h : acquire s = (s', g)) {p : Peer} {req : Req} (hm : (p, req) ∈ s.reqs)
    (hq' : p ∈ s'.queue) : ∃ req', (p, req') ∈ s'.reqs ∧ req'.ch = req.ch := by
  obtain ⟨req', hm'⟩ := exists_req_of_mem_queue (acquire_inv hi ha h) hq'
  obtain ⟨req0, hm0, hc0, _⟩ := (acquire_sub hi ha h).2 p req' hm'
  have := mem_uniq hi.keysNodup hm hm0
  subst this
  exact ⟨req', hm', hc0⟩

theorem acquireN_rank_le {n : Nat} {s s2 : State} {gs : List (Ch × Room)} (hi : Inv max s)
    (hn : n ≤ s.avail) (h : acquireN n s = (s2, gs)) {p : Peer} {req : Req} (hm : (p, req) ∈ s.reqs)
    (hq' : p ∈ s2.queue) (hnot : ∀ g ∈ gs, g.1 ≠ req.ch) : rank s2.queue p ≤ rank s.queue p := by
  induction n generalizing s gs req with
  | zero =>
    simp only [acquireN, Prod.mk.injEq] at h
    obtain ⟨h1, _⟩ := h; subst h1; exact Nat.le_refl _
  | succ n ih =>
    simp only [acquireN] at h
    generalize ha1 : acquire s = r1 at h
    obtain ⟨s1, g⟩ := r1
    generalize ha2 : acquireN n s1 = r2 at h
    obtain ⟨s2', gs'⟩ := r2
    simp only [Prod.mk.injEq] at h
    obtain ⟨h1, h2⟩ := h; subst h1 h2
    have hpos : 0 < s.avail := by omega
    have hi1 := acquire_inv hi hpos ha1
    have hav : n ≤ s1.avail := by
      cases g with
      | none => rw [(acquire_none ha1).2]; omega
      | some cr =>
        obtain ⟨ch, r⟩ := cr
        obtain ⟨_, _, p3, _⟩ := acquire_some hi hpos ha1
        omega
    obtain ⟨_, hsub12, _⟩ := acquireN_spec hi1 hav ha2
    -- `p` is still queued after the first round (requests only disappear)
    have hq1 : p ∈ s1.queue := by
      obtain ⟨req2, hm2⟩ := exists_req_of_mem_queue (acquireN_spec hi1 hav ha2).1 hq'
      obtain ⟨req1, hm1, _⟩ := hsub12.2 p req2 hm2
      exact mem_queue_of_mem_reqs hi1 hm1
    obtain ⟨req1, hm1, hc1⟩ := acquire_keeps_channel hi hpos ha1 hm hq1
    have hle1 : rank s1.queue p ≤ rank s.queue p := by
      refine acquire_rank_le hi ha1 hm hq1 ?_
      intro ch r e
      have : (ch, r) ∈ g.toList ++ gs' := by rw [e]; simp
      exact fun e2 => hnot (ch, r) this e2.symm
    have hle2 : rank s2'.queue p ≤ rank s1.queue p := by
      refine ih hi1 hav ha2 hm1 ?_
      intro g' hg'
      rw [hc1]; exact hnot g' (List.mem_append_right _ hg')
    exact Nat.le_trans hle2 hle1

/-- **queue fairness, one service step.** A waiting peer that is neither served nor re-requesting
    in this step does not lose its place. -/
theorem step_rank_le {s : State} (hi : Inv max s) (op : Op) {p : Peer} {req : Req}
    (hm : (p, req) ∈ s.reqs) (hq' : p ∈ (step s op).1.queue)
    (hnot : ∀ g ∈ (step s op).2, g.1 ≠ req.ch) (hop : ∀ rooms ch, op ≠ .request p rooms ch) :
    rank (step s op).1.queue p ≤ rank s.queue p := by
  cases op with
  | request p0 rooms ch =>
    simp only [step] at hq' hnot ⊢
    have hne : p ≠ p0 := fun e => hop rooms ch (e ▸ rfl)
    have hpre := requestPre_inv hi p0 rooms ch
    -- the request of `p` and its place are untouched by the bookkeeping of `p0`'s request
    have hm1 : (p, req) ∈ (requestPre s p0 rooms ch).reqs := by
      unfold requestPre; split
      · exact List.mem_cons_of_mem _ (mem_erase.mpr ⟨hm, hne⟩)
      · exact List.mem_cons_of_mem _ hm
    have hr1 : rank (requestPre s p0 rooms ch).queue p = rank s.queue p := by
      unfold requestPre; split
      · rfl
      · exact rank_append_mem (mem_queue_of_mem_reqs hi hm)
    rw [← hr1]
    exact acquireN_rank_le hpre (Nat.le_refl _) rfl hm1 hq' hnot
  | unlock r =>
    simp only [step] at hq' hnot ⊢
    split
    · rename_i hc
      have hr : r ∈ s.locked := by simpa using hc
      simp only [hc, ↓reduceIte] at hq' hnot
      have h1 := unlockPre_inv hi hr
      have : rank (unlockPre s r).queue p = rank s.queue p := rfl
      rw [← this]
      refine acquire_rank_le h1 rfl (by simpa [unlockPre] using hm) hq' ?_
      intro ch r' e
      exact fun e2 => hnot (ch, r') (by unfold acquire; rw [e]; simp) e2.symm
    · exact Nat.le_refl _
  | drop ch => exact Nat.le_refl _

/-- **queue fairness, bypass.** When a released room that a waiting peer (live receiver) wants is
    granted to somebody else, that peer moves strictly closer to the back of the queue. -/
theorem unlock_bypass_rank_lt {s : State} (hi : Inv max s) {r0 : Room} (hr0 : r0 ∈ s.locked)
    {p : Peer} {req : Req} (hm : (p, req) ∈ s.reqs) (hq' : p ∈ (step s (.unlock r0)).1.queue)
    {ch : Ch} {r : Room} (hg : (ch, r) ∈ (step s (.unlock r0)).2) (hch : req.ch ≠ ch)
    (hlive : req.ch ∉ s.dead) (hw : r ∈ req.rooms) :
    rank (step s (.unlock r0)).1.queue p < rank s.queue p := by
  have hc : s.locked.contains r0 = true := by simpa using hr0
  simp only [step, hc, ↓reduceIte] at hq' hg ⊢
  have h1 := unlockPre_inv hi hr0
  generalize ha : acquire (unlockPre s r0) = res at hq' hg ⊢
  obtain ⟨s2, g⟩ := res
  cases g with
  | none => simp at hg
  | some cr =>
    simp only [Option.toList, List.mem_singleton] at hg
    subst hg
    have : rank (unlockPre s r0).queue p = rank s.queue p := rfl
    rw [← this]
    exact acquire_rank_lt h1 (unlockPre_pos s r0) ha (by simpa [unlockPre] using hm) hq' hch
      (by simpa [unlockPre] using hlive) hw

end

end Discret.Lock
