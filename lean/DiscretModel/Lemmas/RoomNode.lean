import DiscretModel.Model.RoomNode
import DiscretModel.Lemmas.Room
/-
Lemmas about the acceptance of a room definition (C07). Core Lean only.
-/
namespace Discret.RoomNode
open Discret.Room (Key Ent RightType User Right Auth Err)

/-! ### the stable sort is a rearrangement -/

theorem mem_insAsc {α : Type} {key : α → Int} {x y : α} {l : List α} :
    y ∈ insAsc key x l ↔ y = x ∨ y ∈ l := by
  induction l with
  | nil => simp [insAsc]
  | cons z zs ih =>
    unfold insAsc
    split
    · simp
    · simp only [List.mem_cons, ih]
      constructor
      · rintro (h | h | h)
        · exact Or.inr (Or.inl h)
        · exact Or.inl h
        · exact Or.inr (Or.inr h)
      · rintro (h | h | h)
        · exact Or.inr (Or.inl h)
        · exact Or.inl h
        · exact Or.inr (Or.inr h)

theorem mem_sortAsc {α : Type} {key : α → Int} {y : α} {l : List α} : y ∈ sortAsc key l ↔ y ∈ l := by
  unfold sortAsc
  induction l with
  | nil => simp
  | cons z zs ih => simp only [List.foldr_cons, mem_insAsc, ih, List.mem_cons]

/-! ### `Edge::eq` / `Node::eq` -/

theorem edgeEq_refl (a : PEdge) : edgeEq a a = true := by simp [edgeEq]

theorem rowEq_refl (a : SRow) : rowEq a a = true := by simp [rowEq]

theorem rowEq_iff {a b : SRow} : rowEq a b = true ↔
    (a.id = b.id ∧ a.ent = b.ent ∧ a.room = b.room ∧ a.cdate = b.cdate ∧ a.mdate = b.mdate ∧
      a.author = b.author ∧ a.body = b.body) := by
  simp [rowEq, and_assoc]

theorem rowEq_trans {a b c : SRow} (h1 : rowEq a b = true) (h2 : rowEq b c = true) : rowEq a c = true := by
  rw [rowEq_iff] at *
  obtain ⟨a1, a2, a3, a4, a5, a6, a7⟩ := h1
  obtain ⟨b1, b2, b3, b4, b5, b6, b7⟩ := h2
  exact ⟨a1.trans b1, a2.trans b2, a3.trans b3, a4.trans b4, a5.trans b5, a6.trans b6, a7.trans b7⟩

theorem rowEq_symm {a b : SRow} (h : rowEq a b = true) : rowEq b a = true := by
  rw [rowEq_iff] at *
  obtain ⟨a1, a2, a3, a4, a5, a6, a7⟩ := h
  exact ⟨a1.symm, a2.symm, a3.symm, a4.symm, a5.symm, a6.symm, a7.symm⟩

/-! ### merging the stored references into the candidate -/

theorem mergeEdges_cand {old cand : List PEdge} {x : PEdge} (h : x ∈ cand) : x ∈ mergeEdges old cand := by
  induction old generalizing cand with
  | nil => exact h
  | cons o rest ih =>
    unfold mergeEdges
    apply ih
    split
    · exact h
    · exact List.mem_append_left _ h

/-- every stored placing reference is in the merged list (up to its signature bytes) -/
theorem mergeEdges_old {old cand : List PEdge} {o : PEdge} (h : o ∈ old) :
    ∃ x ∈ mergeEdges old cand, edgeEq x o = true := by
  induction old generalizing cand with
  | nil => cases h
  | cons o' rest ih =>
    unfold mergeEdges
    rcases List.mem_cons.mp h with rfl | h
    · by_cases hc : cand.any (edgeEq · o) = true
      · simp only [hc, if_true]
        obtain ⟨x, hx, he⟩ := List.any_eq_true.mp hc
        exact ⟨x, mergeEdges_cand hx, he⟩
      · simp only [hc, Bool.false_eq_true, if_false]
        exact ⟨o, mergeEdges_cand (List.mem_append_right _ (by simp)), edgeEq_refl o⟩
    · exact ih h

/-- nothing else gets in: a merged reference is one of the candidate or a stored one -/
theorem mem_mergeEdges {old cand : List PEdge} {x : PEdge} (h : x ∈ mergeEdges old cand) :
    x ∈ cand ∨ x ∈ old := by
  induction old generalizing cand with
  | nil => exact Or.inl h
  | cons o rest ih =>
    unfold mergeEdges at h
    rcases ih h with h | h
    · split at h
      · exact Or.inl h
      · rcases List.mem_append.mp h with h | h
        · exact Or.inl h
        · exact Or.inr (by simp at h; simp [h])
    · exact Or.inr (List.mem_cons_of_mem _ h)

/-! ### merging the stored entries into the candidate -/

theorem mem_markStored {id : Nat} {l : List SRow} {x : SRow} (h : x ∈ l) :
    ∃ y ∈ markStored id l, rowEq y x = true := by
  induction l with
  | nil => cases h
  | cons c cs ih =>
    unfold markStored
    rcases List.mem_cons.mp h with rfl | h
    · split
      · exact ⟨_, List.mem_cons_self, by simp [rowEq]⟩
      · exact ⟨_, List.mem_cons_self, rowEq_refl _⟩
    · split
      · exact ⟨x, List.mem_cons_of_mem _ h, rowEq_refl x⟩
      · obtain ⟨y, hy, he⟩ := ih h
        exact ⟨y, List.mem_cons_of_mem _ hy, he⟩

theorem markStored_mem {id : Nat} {l : List SRow} {y : SRow} (h : y ∈ markStored id l) :
    ∃ x ∈ l, rowEq y x = true := by
  induction l with
  | nil => simp [markStored] at h
  | cons c cs ih =>
    unfold markStored at h
    split at h
    · rcases List.mem_cons.mp h with rfl | h
      · exact ⟨c, List.mem_cons_self, by simp [rowEq]⟩
      · exact ⟨y, List.mem_cons_of_mem _ h, rowEq_refl y⟩
    · rcases List.mem_cons.mp h with rfl | h
      · exact ⟨y, List.mem_cons_self, rowEq_refl y⟩
      · obtain ⟨x, hx, he⟩ := ih h
        exact ⟨x, List.mem_cons_of_mem _ hx, he⟩

/-- the candidate's entries survive the merge -/
theorem mergeRows_cand {old cand res : List SRow} (h : mergeRows old cand = .ok res) {c : SRow} (hc : c ∈ cand) :
    ∃ y ∈ res, rowEq y c = true := by
  induction old generalizing cand c with
  | nil => simp only [mergeRows, Except.ok.injEq] at h; subst h; exact ⟨c, hc, rowEq_refl c⟩
  | cons o rest ih =>
    unfold mergeRows at h
    split at h
    · split at h
      · obtain ⟨y, hy, he⟩ := mem_markStored (id := o.id) hc
        obtain ⟨z, hz, hze⟩ := ih h hy
        exact ⟨z, hz, rowEq_trans hze he⟩
      · cases h
    · exact ih h (List.mem_append_left _ hc)

/-- **monotone**: every stored entry is in the merged list, unchanged -/
theorem mergeRows_old {old cand res : List SRow} (h : mergeRows old cand = .ok res) {o : SRow} (ho : o ∈ old) :
    ∃ y ∈ res, rowEq y o = true := by
  induction old generalizing cand with
  | nil => cases ho
  | cons o' rest ih =>
    unfold mergeRows at h
    rcases List.mem_cons.mp ho with rfl | ho
    · split at h
      · next c hf =>
        split at h
        · next heq =>
          have hc : c ∈ cand := List.mem_of_find?_eq_some hf
          obtain ⟨y, hy, he⟩ := mem_markStored (id := o.id) hc
          obtain ⟨z, hz, hze⟩ := mergeRows_cand h hy
          exact ⟨z, hz, rowEq_trans hze (rowEq_trans he heq)⟩
        · cases h
      · exact mergeRows_cand h (List.mem_append_right _ (by simp))
    · split at h
      · split at h
        · exact ih h ho
        · cases h
      · exact ih h ho

/-- nothing else gets in: a merged entry is one of the candidate's or a stored one -/
theorem mem_mergeRows {old cand res : List SRow} (h : mergeRows old cand = .ok res) {y : SRow} (hy : y ∈ res) :
    (∃ c ∈ cand, rowEq y c = true) ∨ (∃ o ∈ old, rowEq y o = true) := by
  induction old generalizing cand with
  | nil => simp only [mergeRows, Except.ok.injEq] at h; subst h; exact Or.inl ⟨y, hy, rowEq_refl y⟩
  | cons o rest ih =>
    unfold mergeRows at h
    split at h
    · split at h
      · rcases ih h with ⟨c, hc, he⟩ | ⟨o', ho', he⟩
        · obtain ⟨x, hx, hxe⟩ := markStored_mem hc
          exact Or.inl ⟨x, hx, rowEq_trans he hxe⟩
        · exact Or.inr ⟨o', List.mem_cons_of_mem _ ho', he⟩
      · cases h
    · rcases ih h with ⟨c, hc, he⟩ | ⟨o', ho', he⟩
      · rcases List.mem_append.mp hc with hc | hc
        · exact Or.inl ⟨c, hc, he⟩
        · simp only [List.mem_singleton] at hc
          subst hc
          exact Or.inr ⟨c, List.mem_cons_self, he⟩
      · exact Or.inr ⟨o', List.mem_cons_of_mem _ ho', he⟩

/-! ### entitlement of the new entries -/

/-- the room as extended by the new admin entries of a list (in list order) -/
def extendAdmins (old : List SRow) : RoomT → List SRow → RoomT
  | room, [] => room
  | room, n :: rest =>
    if isNew old n then
      match parseUser n with
      | .ok u =>
        match room.addAdmin u with
        | .ok room' => extendAdmins old room' rest
        | .error _ => extendAdmins old room rest
      | .error _ => extendAdmins old room rest
    else extendAdmins old room rest

/-- **entitled additions (admins).** When the new admin entries pass, the resulting room is the old
    one extended by them, and the author of each new entry is an admin, at the entry's date, in the
    room as extended by the new entries that precede it. -/
theorem checkNewAdmins_entitled {old : List SRow} {room room' : RoomT} {l : List SRow}
    (h : checkNewAdmins old room l = .ok room') :
    room' = extendAdmins old room l ∧
    ∀ i n, l[i]? = some n → isNew old n = true →
      (extendAdmins old room (l.take i)).isAdmin n.author n.mdate = true := by
  induction l generalizing room with
  | nil =>
    simp only [checkNewAdmins, Except.ok.injEq] at h
    exact ⟨h.symm, fun i n hi => by simp at hi⟩
  | cons m rest ih =>
    unfold checkNewAdmins at h
    by_cases hnew : isNew old m = true
    · simp only [hnew, if_true] at h
      by_cases hadm : room.isAdmin m.author m.mdate = true
      · simp only [hadm, if_true] at h
        cases hp : parseUser m with
        | error e => rw [hp] at h; cases h
        | ok u =>
          rw [hp] at h
          simp only at h
          cases ha : room.addAdmin u with
          | error e => rw [ha] at h; simp [liftErr] at h
          | ok r1 =>
            rw [ha] at h
            simp only [liftErr] at h
            obtain ⟨h1, h2⟩ := ih h
            refine ⟨by simp [extendAdmins, hnew, hp, ha, h1], ?_⟩
            intro i n hi hn
            cases i with
            | zero =>
              simp only [List.getElem?_cons_zero, Option.some.injEq] at hi
              subst hi
              simpa [extendAdmins] using hadm
            | succ i =>
              simp only [List.getElem?_cons_succ] at hi
              have := h2 i n hi hn
              simpa [extendAdmins, hnew, hp, ha] using this
      · simp only [hadm, Bool.false_eq_true, if_false] at h; cases h
    · simp only [hnew, Bool.false_eq_true, if_false] at h
      obtain ⟨h1, h2⟩ := ih h
      refine ⟨by simp [extendAdmins, hnew, h1], ?_⟩
      intro i n hi hn
      cases i with
      | zero =>
        simp only [List.getElem?_cons_zero, Option.some.injEq] at hi
        subst hi; exact absurd hn hnew
      | succ i =>
        simp only [List.getElem?_cons_succ] at hi
        have := h2 i n hi hn
        simpa [extendAdmins, hnew] using this

/-- every new user-admin entry of a stored group is signed by an admin of the room -/
theorem checkNewUserAdmins_entitled {room : RoomT} {old : List SRow} {au au' : Auth} {l : List SRow}
    (h : checkNewUserAdmins room old au l = .ok au') :
    ∀ n ∈ l, isNew old n = true → room.isAdmin n.author n.mdate = true := by
  induction l generalizing au with
  | nil => intro n hn; cases hn
  | cons m rest ih =>
    unfold checkNewUserAdmins at h
    intro n hn hnew
    by_cases hm : isNew old m = true
    · simp only [hm, if_true] at h
      by_cases hadm : room.isAdmin m.author m.mdate = true
      · simp only [hadm, if_true] at h
        cases hp : parseUser m with
        | error e => rw [hp] at h; cases h
        | ok u =>
          rw [hp] at h
          simp only at h
          cases ha : au.addUserAdmin u with
          | error e => rw [ha] at h; simp [liftErr] at h
          | ok a1 =>
            rw [ha] at h
            simp only [liftErr] at h
            rcases List.mem_cons.mp hn with rfl | hn
            · exact hadm
            · exact ih h n hn hnew
      · simp only [hadm, Bool.false_eq_true, if_false] at h; cases h
    · simp only [hm, Bool.false_eq_true, if_false] at h
      rcases List.mem_cons.mp hn with rfl | hn
      · exact absurd hnew hm
      · exact ih h n hn hnew

/-- what a successful `prepare_auth_with_history` established, list by list -/
structure AuthMerged (room : RoomT) (old new res : AuthNode) : Prop where
  sameNode : res.node = new.node
  /-- monotone: stored entries and placing references are all there, unchanged -/
  oldUserAdmins : ∀ o ∈ old.userAdminNodes, ∃ y ∈ res.userAdminNodes, rowEq y o = true
  oldUsers : ∀ o ∈ old.userNodes, ∃ y ∈ res.userNodes, rowEq y o = true
  oldRights : ∀ o ∈ old.rightNodes, ∃ y ∈ res.rightNodes, rowEq y o = true
  oldUserAdminEdges : ∀ o ∈ old.userAdminEdges, ∃ y ∈ res.userAdminEdges, edgeEq y o = true
  oldUserEdges : ∀ o ∈ old.userEdges, ∃ y ∈ res.userEdges, edgeEq y o = true
  oldRightEdges : ∀ o ∈ old.rightEdges, ∃ y ∈ res.rightEdges, edgeEq y o = true
  /-- the candidate's entries are kept as well -/
  newUserAdmins : ∀ c ∈ new.userAdminNodes, ∃ y ∈ res.userAdminNodes, rowEq y c = true
  newUsers : ∀ c ∈ new.userNodes, ∃ y ∈ res.userNodes, rowEq y c = true
  newRights : ∀ c ∈ new.rightNodes, ∃ y ∈ res.rightNodes, rowEq y c = true
  newUserAdminEdges : ∀ c ∈ new.userAdminEdges, c ∈ res.userAdminEdges
  newUserEdges : ∀ c ∈ new.userEdges, c ∈ res.userEdges
  newRightEdges : ∀ c ∈ new.rightEdges, c ∈ res.rightEdges
  /-- nothing else: every entry of the result is the candidate's or a stored one -/
  onlyUserAdmins : ∀ y ∈ res.userAdminNodes, (∃ c ∈ new.userAdminNodes, rowEq y c = true) ∨ ∃ o ∈ old.userAdminNodes, rowEq y o = true
  onlyUsers : ∀ y ∈ res.userNodes, (∃ c ∈ new.userNodes, rowEq y c = true) ∨ ∃ o ∈ old.userNodes, rowEq y o = true
  onlyRights : ∀ y ∈ res.rightNodes, (∃ c ∈ new.rightNodes, rowEq y c = true) ∨ ∃ o ∈ old.rightNodes, rowEq y o = true
  /-- entitled additions -/
  entitledUserAdmins : ∀ n ∈ res.userAdminNodes, isNew old.userAdminNodes n = true → room.isAdmin n.author n.mdate = true
  entitledRights : ∀ n ∈ res.rightNodes, isNew old.rightNodes n = true → room.isAdmin n.author n.mdate = true
  entitledUsers : ∀ n ∈ res.userNodes, isNew old.userNodes n = true →
    room.isAdmin n.author n.mdate = true ∨
    ∃ au, (∃ au0, room.getAuth old.node.id = some au0 ∧
            checkNewUserAdmins room old.userAdminNodes au0 res.userAdminNodes = .ok au) ∧
          au.canAdminUsers n.author n.mdate = true

theorem prepareAuthWithHistory_sound {room : RoomT} {old new res : AuthNode} {upd : Bool}
    (h : prepareAuthWithHistory room old new = some (.ok (res, upd))) : AuthMerged room old new res := by
  unfold prepareAuthWithHistory at h
  split at h
  · cases h
  · next au0 hau =>
    simp only [Option.some.injEq] at h
    split at h
    · cases h
    · next ua0 hua =>
      split at h
      · cases h
      · next au1 hchk =>
        split at h
        · cases h
        · next u0 hu =>
          split at h
          · cases h
          · next husers =>
            split at h
            · cases h
            · next r0 hr =>
              split at h
              · cases h
              · next hrights =>
                simp only [Except.ok.injEq, Prod.mk.injEq] at h
                obtain ⟨hres, _⟩ := h
                subst hres
                simp only [Bool.not_eq_true', Bool.not_eq_false] at husers hrights
                refine ⟨rfl, ?_, ?_, ?_, ?_, ?_, ?_, ?_, ?_, ?_, ?_, ?_, ?_, ?_, ?_, ?_, ?_, ?_, ?_⟩
                · intro o ho; obtain ⟨y, hy, he⟩ := mergeRows_old hua ho; exact ⟨y, mem_sortAsc.mpr hy, he⟩
                · intro o ho; obtain ⟨y, hy, he⟩ := mergeRows_old hu ho; exact ⟨y, mem_sortAsc.mpr hy, he⟩
                · intro o ho; obtain ⟨y, hy, he⟩ := mergeRows_old hr ho; exact ⟨y, mem_sortAsc.mpr hy, he⟩
                · intro o ho; obtain ⟨y, hy, he⟩ := mergeEdges_old (cand := new.userAdminEdges) ho; exact ⟨y, mem_sortAsc.mpr hy, he⟩
                · intro o ho; obtain ⟨y, hy, he⟩ := mergeEdges_old (cand := new.userEdges) ho; exact ⟨y, mem_sortAsc.mpr hy, he⟩
                · intro o ho; obtain ⟨y, hy, he⟩ := mergeEdges_old (cand := new.rightEdges) ho; exact ⟨y, mem_sortAsc.mpr hy, he⟩
                · intro c hc; obtain ⟨y, hy, he⟩ := mergeRows_cand hua hc; exact ⟨y, mem_sortAsc.mpr hy, he⟩
                · intro c hc; obtain ⟨y, hy, he⟩ := mergeRows_cand hu hc; exact ⟨y, mem_sortAsc.mpr hy, he⟩
                · intro c hc; obtain ⟨y, hy, he⟩ := mergeRows_cand hr hc; exact ⟨y, mem_sortAsc.mpr hy, he⟩
                · intro c hc; exact mem_sortAsc.mpr (mergeEdges_cand hc)
                · intro c hc; exact mem_sortAsc.mpr (mergeEdges_cand hc)
                · intro c hc; exact mem_sortAsc.mpr (mergeEdges_cand hc)
                · intro y hy; exact mem_mergeRows hua (mem_sortAsc.mp hy)
                · intro y hy; exact mem_mergeRows hu (mem_sortAsc.mp hy)
                · intro y hy; exact mem_mergeRows hr (mem_sortAsc.mp hy)
                · intro n hn hnew; exact checkNewUserAdmins_entitled hchk n hn hnew
                · intro n hn hnew
                  have := List.all_eq_true.mp hrights n hn
                  simp only [Bool.or_eq_true, Bool.not_eq_true'] at this
                  rcases this with h1 | h1
                  · rw [hnew] at h1; cases h1
                  · exact h1
                · intro n hn hnew
                  have := List.all_eq_true.mp husers n hn
                  simp only [Bool.or_eq_true, Bool.not_eq_true'] at this
                  rcases this with (h1 | h1) | h1
                  · rw [hnew] at h1; cases h1
                  · exact Or.inr ⟨au1, ⟨au0, hau, hchk⟩, h1⟩
                  · exact Or.inl h1

/-! ### the groups -/

theorem edgeEq_iff {a b : PEdge} : edgeEq a b = true ↔
    (a.src = b.src ∧ a.srcEnt = b.srcEnt ∧ a.label = b.label ∧ a.dst = b.dst ∧ a.cdate = b.cdate ∧
      a.author = b.author) := by
  simp [edgeEq, and_assoc]

theorem edgeEq_trans {a b c : PEdge} (h1 : edgeEq a b = true) (h2 : edgeEq b c = true) : edgeEq a c = true := by
  rw [edgeEq_iff] at *
  obtain ⟨a1, a2, a3, a4, a5, a6⟩ := h1
  obtain ⟨b1, b2, b3, b4, b5, b6⟩ := h2
  exact ⟨a1.trans b1, a2.trans b2, a3.trans b3, a4.trans b4, a5.trans b5, a6.trans b6⟩

/-- group `a` has the id of group `o` and contains all its entries and placing references, unchanged -/
structure GroupCovers (o a : AuthNode) : Prop where
  id : a.node.id = o.node.id
  userAdmins : ∀ x ∈ o.userAdminNodes, ∃ y ∈ a.userAdminNodes, rowEq y x = true
  users : ∀ x ∈ o.userNodes, ∃ y ∈ a.userNodes, rowEq y x = true
  rights : ∀ x ∈ o.rightNodes, ∃ y ∈ a.rightNodes, rowEq y x = true
  userAdminEdges : ∀ x ∈ o.userAdminEdges, ∃ y ∈ a.userAdminEdges, edgeEq y x = true
  userEdges : ∀ x ∈ o.userEdges, ∃ y ∈ a.userEdges, edgeEq y x = true
  rightEdges : ∀ x ∈ o.rightEdges, ∃ y ∈ a.rightEdges, edgeEq y x = true

theorem GroupCovers.refl (a : AuthNode) : GroupCovers a a :=
  ⟨rfl, fun x hx => ⟨x, hx, rowEq_refl x⟩, fun x hx => ⟨x, hx, rowEq_refl x⟩, fun x hx => ⟨x, hx, rowEq_refl x⟩,
   fun x hx => ⟨x, hx, edgeEq_refl x⟩, fun x hx => ⟨x, hx, edgeEq_refl x⟩, fun x hx => ⟨x, hx, edgeEq_refl x⟩⟩

theorem GroupCovers.trans {a b c : AuthNode} (h1 : GroupCovers a b) (h2 : GroupCovers b c) : GroupCovers a c := by
  refine ⟨h2.id.trans h1.id, ?_, ?_, ?_, ?_, ?_, ?_⟩
  · intro x hx; obtain ⟨y, hy, e1⟩ := h1.userAdmins x hx; obtain ⟨z, hz, e2⟩ := h2.userAdmins y hy
    exact ⟨z, hz, rowEq_trans e2 e1⟩
  · intro x hx; obtain ⟨y, hy, e1⟩ := h1.users x hx; obtain ⟨z, hz, e2⟩ := h2.users y hy
    exact ⟨z, hz, rowEq_trans e2 e1⟩
  · intro x hx; obtain ⟨y, hy, e1⟩ := h1.rights x hx; obtain ⟨z, hz, e2⟩ := h2.rights y hy
    exact ⟨z, hz, rowEq_trans e2 e1⟩
  · intro x hx; obtain ⟨y, hy, e1⟩ := h1.userAdminEdges x hx; obtain ⟨z, hz, e2⟩ := h2.userAdminEdges y hy
    exact ⟨z, hz, edgeEq_trans e2 e1⟩
  · intro x hx; obtain ⟨y, hy, e1⟩ := h1.userEdges x hx; obtain ⟨z, hz, e2⟩ := h2.userEdges y hy
    exact ⟨z, hz, edgeEq_trans e2 e1⟩
  · intro x hx; obtain ⟨y, hy, e1⟩ := h1.rightEdges x hx; obtain ⟨z, hz, e2⟩ := h2.rightEdges y hy
    exact ⟨z, hz, edgeEq_trans e2 e1⟩

theorem mem_replaceAuth {id : Nat} {n2 : AuthNode} {l : List AuthNode} {n : AuthNode}
    (hf : l.find? (·.node.id = id) = some n) :
    n2 ∈ replaceAuth id n2 l ∧ ∀ c ∈ l, c ∈ replaceAuth id n2 l ∨ c = n := by
  induction l with
  | nil => cases hf
  | cons a rest ih =>
    unfold replaceAuth
    by_cases ha : a.node.id = id
    · simp only [List.find?_cons, ha, decide_true, Option.some.injEq] at hf
      subst hf
      simp only [ha, if_true]
      refine ⟨List.mem_cons_self, fun c hc => ?_⟩
      rcases List.mem_cons.mp hc with rfl | hc
      · exact Or.inr rfl
      · exact Or.inl (List.mem_cons_of_mem _ hc)
    · simp only [List.find?_cons, ha, decide_false] at hf
      simp only [ha, if_false]
      obtain ⟨h1, h2⟩ := ih hf
      refine ⟨List.mem_cons_of_mem _ h1, fun c hc => ?_⟩
      rcases List.mem_cons.mp hc with rfl | hc
      · exact Or.inl List.mem_cons_self
      · rcases h2 c hc with h | h
        · exact Or.inl (List.mem_cons_of_mem _ h)
        · exact Or.inr h

theorem replaceAuth_mem {id : Nat} {n2 : AuthNode} {l : List AuthNode} {a : AuthNode}
    (h : a ∈ replaceAuth id n2 l) : a ∈ l ∨ a = n2 := by
  induction l with
  | nil => simp [replaceAuth] at h
  | cons b rest ih =>
    unfold replaceAuth at h
    split at h
    · rcases List.mem_cons.mp h with rfl | h
      · exact Or.inr rfl
      · exact Or.inl (List.mem_cons_of_mem _ h)
    · rcases List.mem_cons.mp h with rfl | h
      · exact Or.inl List.mem_cons_self
      · rcases ih h with h | h
        · exact Or.inl (List.mem_cons_of_mem _ h)
        · exact Or.inr h

/-- what a successful pass over the stored groups established -/
structure AuthsMerged (old cand res : List AuthNode) : Prop where
  /-- monotone: every stored group is there with all its entries -/
  oldCovered : ∀ o ∈ old, ∃ a ∈ res, GroupCovers o a
  candCovered : ∀ c ∈ cand, ∃ a ∈ res, GroupCovers c a
  /-- a group that is not a stored one is the candidate's, untouched -/
  newUntouched : ∀ a ∈ res, old.any (·.node.id = a.node.id) = false → a ∈ cand

theorem groupForMerge_lists (o n : AuthNode) :
    (groupForMerge o n).userAdminNodes = n.userAdminNodes ∧ (groupForMerge o n).userNodes = n.userNodes ∧
    (groupForMerge o n).rightNodes = n.rightNodes ∧ (groupForMerge o n).userAdminEdges = n.userAdminEdges ∧
    (groupForMerge o n).userEdges = n.userEdges ∧ (groupForMerge o n).rightEdges = n.rightEdges := by
  unfold groupForMerge; split <;> simp

theorem groupForMerge_id {o n : AuthNode} (h : n.node.id = o.node.id) : (groupForMerge o n).node.id = o.node.id := by
  unfold groupForMerge; split
  · exact h
  · rfl

theorem mergeAuths_sound {room : RoomT} {old cand res : List AuthNode} {upd upd' : Bool}
    (h : mergeAuths room old cand upd = some (.ok (res, upd'))) : AuthsMerged old cand res := by
  induction old generalizing cand upd with
  | nil =>
    simp only [mergeAuths, Option.some.injEq, Except.ok.injEq, Prod.mk.injEq] at h
    obtain ⟨rfl, _⟩ := h
    exact ⟨fun o ho => (by cases ho), fun c hc => ⟨c, hc, GroupCovers.refl c⟩, fun a ha _ => ha⟩
  | cons o rest ih =>
    unfold mergeAuths at h
    split at h
    · -- the candidate lacks the stored group: it is pushed
      have m := ih h
      refine ⟨?_, ?_, ?_⟩
      · intro o' ho'
        rcases List.mem_cons.mp ho' with rfl | ho'
        · exact m.candCovered _ (List.mem_append_right _ (by simp))
        · exact m.oldCovered o' ho'
      · intro c hc; exact m.candCovered c (List.mem_append_left _ hc)
      · intro a ha hno
        simp only [List.any_cons, Bool.or_eq_false_iff, decide_eq_false_iff_not] at hno
        rcases List.mem_append.mp (m.newUntouched a ha hno.2) with h1 | h1
        · exact h1
        · simp only [List.mem_singleton] at h1
          exact absurd (by rw [h1]) hno.1
    · next n hf =>
      split at h
      · cases h
      · split at h
        · cases h
        · cases h
        · next n2 u hprep =>
          have hnid : n.node.id = o.node.id := by simpa using List.find?_some hf
          have pm := prepareAuthWithHistory_sound hprep
          have m := ih h
          obtain ⟨hin, hrest⟩ := mem_replaceAuth (n2 := n2) hf
          have hn2id : n2.node.id = o.node.id := by rw [pm.sameNode]; exact groupForMerge_id hnid
          obtain ⟨l1, l2, l3, l4, l5, l6⟩ := groupForMerge_lists o n
          have cov_o : GroupCovers o n2 :=
            ⟨hn2id, pm.oldUserAdmins, pm.oldUsers, pm.oldRights, pm.oldUserAdminEdges, pm.oldUserEdges, pm.oldRightEdges⟩
          have cov_n : GroupCovers n n2 := by
            refine ⟨hn2id.trans hnid.symm, ?_, ?_, ?_, ?_, ?_, ?_⟩
            · intro x hx; exact pm.newUserAdmins x (l1 ▸ hx)
            · intro x hx; exact pm.newUsers x (l2 ▸ hx)
            · intro x hx; exact pm.newRights x (l3 ▸ hx)
            · intro x hx; exact ⟨x, pm.newUserAdminEdges x (l4 ▸ hx), edgeEq_refl x⟩
            · intro x hx; exact ⟨x, pm.newUserEdges x (l5 ▸ hx), edgeEq_refl x⟩
            · intro x hx; exact ⟨x, pm.newRightEdges x (l6 ▸ hx), edgeEq_refl x⟩
          refine ⟨?_, ?_, ?_⟩
          · intro o' ho'
            rcases List.mem_cons.mp ho' with rfl | ho'
            · obtain ⟨a, ha, hc⟩ := m.candCovered n2 hin
              exact ⟨a, ha, cov_o.trans hc⟩
            · exact m.oldCovered o' ho'
          · intro c hc
            rcases hrest c hc with h1 | rfl
            · exact m.candCovered c h1
            · obtain ⟨a, ha, hcv⟩ := m.candCovered n2 hin
              exact ⟨a, ha, cov_n.trans hcv⟩
          · intro a ha hno
            simp only [List.any_cons, Bool.or_eq_false_iff, decide_eq_false_iff_not] at hno
            rcases replaceAuth_mem (m.newUntouched a ha hno.2) with h1 | h1
            · exact h1
            · exact absurd (by rw [h1, hn2id]) hno.1

/-! ### groups that are new to a known room -/

/-- `prepare_new_auth` succeeded: users signed by a user admin of the group itself, rights by an
    admin, and — only with the intended check — user admins by an admin -/
theorem prepareNewAuth_sound {d : Defects} {room : RoomT} {a : AuthNode} (h : prepareNewAuth d room a = .ok ()) :
    ∃ au, a.parse = .ok au ∧
      (∀ n ∈ a.userNodes, au.canAdminUsers n.author n.mdate = true ∨ room.isAdmin n.author n.mdate = true) ∧
      (∀ n ∈ a.rightNodes, room.isAdmin n.author n.mdate = true) ∧
      (d.newGroupUserAdminUnchecked = false → ∀ n ∈ a.userAdminNodes, room.isAdmin n.author n.mdate = true) := by
  unfold prepareNewAuth at h
  split at h
  · cases h
  · next au hp =>
    refine ⟨au, hp, ?_⟩
    split at h
    · cases h
    · next h1 =>
      split at h
      · cases h
      · next h2 =>
        split at h
        · cases h
        · next h3 =>
          simp only [Bool.not_eq_true', Bool.not_eq_false] at h1 h2
          refine ⟨fun n hn => by simpa using List.all_eq_true.mp h1 n hn, fun n hn => List.all_eq_true.mp h2 n hn, ?_⟩
          intro hd n hn
          simp only [hd, Bool.not_false, Bool.true_and, Bool.not_eq_true', Bool.not_eq_false] at h3
          exact List.all_eq_true.mp h3 n hn

theorem checkNewAuths_sound {d : Defects} {room : RoomT} {old l : List AuthNode} {u : Bool}
    (h : checkNewAuths d room old l = .ok u) :
    ∀ a ∈ l, old.any (·.node.id = a.node.id) = false →
      room.isAdmin a.node.author a.node.mdate = true ∧ prepareNewAuth d room a = .ok () := by
  induction l generalizing u with
  | nil => intro a ha; cases ha
  | cons b rest ih =>
    unfold checkNewAuths at h
    intro a ha hno
    split at h
    · next hold =>
      rcases List.mem_cons.mp ha with rfl | ha
      · rw [hold] at hno; cases hno
      · exact ih h a ha hno
    · split at h
      · cases h
      · next hadm =>
        split at h
        · cases h
        · next hp =>
          split at h
          · cases h
          · next u' hrest =>
            rcases List.mem_cons.mp ha with rfl | ha
            · simp only [Bool.not_eq_true', Bool.not_eq_false] at hadm
              exact ⟨hadm, hp⟩
            · exact ih hrest a ha hno

/-! ### a known room: `prepare_room_with_history` as a whole -/

/-- what an accepted update of a known room established -/
structure RoomMerged (d : Defects) (room : RoomT) (old cand merged : RoomNode) : Prop where
  /-- **monotone** -/
  oldAdmins : ∀ o ∈ old.adminNodes, ∃ y ∈ merged.adminNodes, rowEq y o = true
  oldAdminEdges : ∀ o ∈ old.adminEdges, ∃ y ∈ merged.adminEdges, edgeEq y o = true
  oldAuthEdges : ∀ o ∈ old.authEdges, ∃ y ∈ merged.authEdges, edgeEq y o = true
  oldGroups : ∀ o ∈ old.authNodes, ∃ a ∈ merged.authNodes, GroupCovers o a
  /-- nothing but the candidate's and the stored entries -/
  onlyAdmins : ∀ y ∈ merged.adminNodes, (∃ c ∈ cand.adminNodes, rowEq y c = true) ∨ ∃ o ∈ old.adminNodes, rowEq y o = true
  /-- **entitled additions**: each new admin entry's author is an admin at the entry's date in the
      loaded room as extended by the new admin entries before it -/
  entitledAdmins : ∀ i n, merged.adminNodes[i]? = some n → isNew old.adminNodes n = true →
    (extendAdmins old.adminNodes room (merged.adminNodes.take i)).isAdmin n.author n.mdate = true
  /-- a group that is new to the room is the candidate's; its row and rights are signed by admins of
      the extended room, its users by a user admin of the group -/
  newGroups : ∀ a ∈ merged.authNodes, old.authNodes.any (·.node.id = a.node.id) = false →
    a ∈ cand.authNodes ∧
    (extendAdmins old.adminNodes room merged.adminNodes).isAdmin a.node.author a.node.mdate = true ∧
    prepareNewAuth d (extendAdmins old.adminNodes room merged.adminNodes) a = .ok ()
  /-- the loaded room will be the parse of the merged definition -/
  parses : ∃ r, merged.parse = .ok r
  /-- the room row that is written (intended check only): the candidate's when it equals the stored
      one or is a newer `sys.Room` row signed by an admin, the stored one otherwise -/
  roomRow : d.roomRowUnchecked = false →
    (rowEq merged.node cand.node = true ∧
      (rowEq cand.node old.node = true ∨
       (old.node.mdate < cand.node.mdate ∧ cand.node.ent = 100 ∧ room.isAdmin cand.node.author cand.node.mdate = true))) ∨
    (rowEq merged.node old.node = true ∧ ¬ old.node.mdate < cand.node.mdate)
  /-- (intended check only) every reference room → group of the candidate is signed by an admin, at the
      reference's date, of the loaded room as extended by the new admin entries -/
  groupEdges : d.placingEdgeUnchecked = false →
    ∀ e ∈ cand.authEdges, (extendAdmins old.adminNodes room merged.adminNodes).isAdmin e.author e.cdate = true
  /-- the pass over the stored groups (entitlement of their new entries: `AuthMerged`) -/
  groups : ∃ upd upd', mergeAuths (extendAdmins old.adminNodes room merged.adminNodes) old.authNodes cand.authNodes upd
    = some (.ok (merged.authNodes, upd'))

theorem roomRowFor_ok {d : Defects} {room : RoomT} {old cand : RoomNode} {node : SRow}
    (h : roomRowFor d room old cand = .ok node) (hd : d.roomRowUnchecked = false) :
    (rowEq node cand.node = true ∧
      (rowEq cand.node old.node = true ∨
       (old.node.mdate < cand.node.mdate ∧ cand.node.ent = 100 ∧ room.isAdmin cand.node.author cand.node.mdate = true))) ∨
    (rowEq node old.node = true ∧ ¬ old.node.mdate < cand.node.mdate) := by
  unfold roomRowFor at h
  simp only [hd, Bool.false_or] at h
  split at h
  · next heq =>
    simp only [Except.ok.injEq] at h; subst h
    exact Or.inl ⟨by simp [rowEq], Or.inl heq⟩
  · split at h
    · next hlt =>
      split at h
      · next hc =>
        simp only [Except.ok.injEq] at h; subst h
        simp only [Bool.and_eq_true, decide_eq_true_eq] at hc
        exact Or.inl ⟨by simp [rowEq], Or.inr ⟨hlt, hc.1, hc.2⟩⟩
      · cases h
    · next hlt =>
      simp only [Except.ok.injEq] at h; subst h
      exact Or.inr ⟨by simp [rowEq], hlt⟩

theorem prepareWithHistory_sound {d : Defects} {room : RoomT} {old cand merged : RoomNode} {upd : Bool}
    (h : prepareWithHistory d room old cand = some (.ok (merged, upd))) : RoomMerged d room old cand merged := by
  unfold prepareWithHistory at h
  cases hrow : roomRowFor d room old cand with
  | error e => rw [hrow] at h; cases h
  | ok node =>
    rw [hrow] at h
    simp only at h
    cases ha0 : mergeRows old.adminNodes cand.adminNodes with
    | error e => rw [ha0] at h; cases h
    | ok a0 =>
      rw [ha0] at h
      simp only at h
      cases hadm : checkNewAdmins old.adminNodes room (sortAsc (·.mdate) a0) with
      | error e => rw [hadm] at h; cases h
      | ok room1 =>
        rw [hadm] at h
        simp only at h
        by_cases hge : (!d.placingEdgeUnchecked && !groupsPlacedByAdmins room1 cand) = true
        · rw [if_pos hge] at h; cases h
        rw [if_neg hge] at h
        cases hmerge : mergeAuths room1 old.authNodes cand.authNodes ((sortAsc (·.mdate) a0).any (isNew old.adminNodes)) with
        | none => rw [hmerge] at h; cases h
        | some r1 =>
          rw [hmerge] at h
          cases r1 with
          | error e => cases h
          | ok p =>
            obtain ⟨auths, upd1⟩ := p
            simp only at h
            cases hnew : checkNewAuths d room1 old.authNodes auths with
            | error e => rw [hnew] at h; cases h
            | ok upd2 =>
              rw [hnew] at h
              simp only at h
              cases hparse : (mergedNode node old cand a0 auths).parse with
              | error e => rw [hparse] at h; cases h
              | ok r =>
                rw [hparse] at h
                simp only [Option.some.injEq, Except.ok.injEq, Prod.mk.injEq] at h
                obtain ⟨hm, _⟩ := h
                subst hm
                obtain ⟨hroom1, hent⟩ := checkNewAdmins_entitled hadm
                have am := mergeAuths_sound hmerge
                refine ⟨?_, ?_, ?_, am.oldCovered, ?_, hent, ?_, ⟨r, hparse⟩, ?_, ?_, ?_⟩
                · intro o ho; obtain ⟨y, hy, he⟩ := mergeRows_old ha0 ho; exact ⟨y, mem_sortAsc.mpr hy, he⟩
                · intro o ho; obtain ⟨y, hy, he⟩ := mergeEdges_old (cand := cand.adminEdges) ho
                  exact ⟨y, mem_sortAsc.mpr hy, he⟩
                · intro o ho; exact mergeEdges_old ho
                · intro y hy; exact mem_mergeRows ha0 (mem_sortAsc.mp hy)
                · intro a ha hno
                  have := checkNewAuths_sound hnew a ha hno
                  rw [hroom1] at this
                  exact ⟨am.newUntouched a ha hno, this.1, this.2⟩
                · intro hd; exact roomRowFor_ok hrow hd
                · intro hd e he
                  show (extendAdmins old.adminNodes room (sortAsc (·.mdate) a0)).isAdmin e.author e.cdate = true
                  rw [← hroom1]
                  simp only [hd, Bool.not_false, Bool.true_and, Bool.not_eq_true', Bool.not_eq_false] at hge
                  unfold groupsPlacedByAdmins at hge
                  exact (List.all_eq_true.mp hge) e he
                · show ∃ upd upd', mergeAuths (extendAdmins old.adminNodes room (sortAsc (·.mdate) a0)) old.authNodes
                    cand.authNodes upd = some (.ok (auths, upd'))
                  rw [← hroom1]; exact ⟨_, _, hmerge⟩

/-! ### a room that is not known yet -/

/-- **new room**: accepted only if the whole candidate parses and every entry's author is an admin,
    at the entry's date, in the room parsed from it -/
theorem prepareNewRoom_sound {chk : Bool} {cand : RoomNode} {room : RoomT} (h : prepareNewRoom chk cand = .ok room) :
    cand.parse = .ok room ∧
    (chk = true → ∀ e ∈ cand.authEdges, room.isAdmin e.author e.cdate = true) ∧
    (∀ n ∈ cand.adminNodes, room.isAdmin n.author n.mdate = true) ∧
    ∀ a ∈ cand.authNodes, room.isAdmin a.node.author a.node.mdate = true ∧
      (∀ n ∈ a.userNodes, room.isAdmin n.author n.mdate = true) ∧
      (∀ n ∈ a.rightNodes, room.isAdmin n.author n.mdate = true) ∧
      (∀ n ∈ a.userAdminNodes, room.isAdmin n.author n.mdate = true) := by
  unfold prepareNewRoom at h
  split at h
  · cases h
  · next r hp =>
    split at h
    · cases h
    · next hge =>
      split at h
      · next hall =>
        simp only [Except.ok.injEq] at h
        subst h
        simp only [Bool.and_eq_true, List.all_eq_true] at hall
        refine ⟨hp, ?_, hall.1, fun a ha => ?_⟩
        · intro hc e he
          subst hc
          simp only [Bool.true_and, Bool.not_eq_true', Bool.not_eq_false] at hge
          unfold groupsPlacedByAdmins at hge
          exact (List.all_eq_true.mp hge) e he
        · obtain ⟨⟨⟨h1, h2⟩, h3⟩, h4⟩ := hall.2 a ha
          exact ⟨h1, h2, h3, h4⟩
      · cases h

/-! ### the code as written coincides with the intended checks on candidates that pass them -/

theorem prepareNewAuth_congr {d : Defects} {room : RoomT} {a : AuthNode}
    (g : a.userAdminNodes.all (fun n => room.isAdmin n.author n.mdate) = true) :
    prepareNewAuth d room a = prepareNewAuth Defects.none room a := by
  unfold prepareNewAuth
  simp [g]

/-- the acceptance reads the switches `roomRowUnchecked` and `newGroupUserAdminUnchecked` only
    inside `prepare_room_with_history` -/
theorem prepareNewAuth_switch {d d' : Defects} (h : d.newGroupUserAdminUnchecked = d'.newGroupUserAdminUnchecked)
    (room : RoomT) (a : AuthNode) : prepareNewAuth d room a = prepareNewAuth d' room a := by
  unfold prepareNewAuth; rw [h]

theorem checkNewAuths_switch {d d' : Defects} (h : d.newGroupUserAdminUnchecked = d'.newGroupUserAdminUnchecked)
    (room : RoomT) (old l : List AuthNode) : checkNewAuths d room old l = checkNewAuths d' room old l := by
  induction l with
  | nil => rfl
  | cons a rest ih => unfold checkNewAuths; rw [ih, prepareNewAuth_switch h]

theorem prepareWithHistory_switch {d d' : Defects} (h0 : d.placingEdgeUnchecked = d'.placingEdgeUnchecked)
    (h1 : d.roomRowUnchecked = d'.roomRowUnchecked)
    (h2 : d.newGroupUserAdminUnchecked = d'.newGroupUserAdminUnchecked) (room : RoomT) (old cand : RoomNode) :
    prepareWithHistory d room old cand = prepareWithHistory d' room old cand := by
  unfold prepareWithHistory roomRowFor
  rw [h0, h1]
  simp only [checkNewAuths_switch h2]

/-- the room against which the references room → group of a candidate are judged: the loaded room as extended
    by the candidate's new admin entries (known room), the room parsed from the candidate (new room);
    `none` when the acceptance fails before it gets there -/
def judgeRoom (s : RStore) (cand : RoomNode) : Option RoomT :=
  match s.rooms.find? (·.id = cand.node.id) with
  | some room =>
    match readBack false s cand.node.id with
    | none => none
    | some old =>
      match mergeRows old.adminNodes cand.adminNodes with
      | .error _ => none
      | .ok a0 =>
        match checkNewAdmins old.adminNodes room (sortAsc (·.mdate) a0) with
        | .error _ => none
        | .ok room1 => some room1
  | none =>
    match cand.parse with
    | .ok r => some r
    | .error _ => none

theorem placingOk_label_list {ownerEnt label : Nat} {edges : List PEdge} {nodes : List SRow}
    (h : placingOk ownerEnt label edges nodes = true) : placingLabelOk ownerEnt label edges nodes = true := by
  unfold placingOk at h; unfold placingLabelOk
  simp only [List.all_eq_true, List.any_eq_true, Bool.and_eq_true, decide_eq_true_eq] at h ⊢
  intro n hn
  obtain ⟨e, he, ⟨⟨h1, _⟩, h3⟩, h4⟩ := h n hn
  exact ⟨e, he, ⟨h1, h3⟩, h4⟩

/-- a candidate whose references are signed by the entries' authors has in particular the labels right -/
theorem placingOk_label {cand : RoomNode} (h : cand.placingOk = true) : cand.placingLabelOk = true := by
  unfold RoomNode.placingOk at h; unfold RoomNode.placingLabelOk
  simp only [Bool.and_eq_true, List.all_eq_true] at h ⊢
  refine ⟨placingOk_label_list h.1, fun a ha => ?_⟩
  obtain ⟨h1, h2⟩ := h.2 a ha
  refine ⟨?_, h2⟩
  unfold AuthNode.placingOk at h1; unfold AuthNode.placingLabelOk
  simp only [Bool.and_eq_true] at h1 ⊢
  exact ⟨⟨placingOk_label_list h1.1.1, placingOk_label_list h1.1.2⟩, placingOk_label_list h1.2⟩

/-- the placing references of the candidate are what the repaired code requires: every entry placed with its
    list's label and its owner's entity, every group attached by an administrator -/
def placingGuard (s : RStore) (cand : RoomNode) : Bool :=
  cand.placingLabelOk &&
  match judgeRoom s cand with
  | some r => groupsPlacedByAdmins r cand
  | none => true

/-- the candidate has none of the shapes that the setting `d` of the switches does not check: while the author of
    a placing reference is not compared, it IS the entry's author; while labels and group references are not checked,
    they are right (`newestFirstRead = false` is assumed: the code reads oldest first since /repo f7a29ff) -/
def candGuardD (d : Defects) (s : RStore) (cand : RoomNode) : Bool :=
  (!d.placingAuthorUnchecked || cand.placingOk) && (!d.placingEdgeUnchecked || placingGuard s cand)

/-- the guard of the code as it is -/
def candGuard (s : RStore) (cand : RoomNode) : Bool := candGuardD Defects.asImplemented s cand

/-- with the placing guard, the switch `placingEdgeUnchecked` makes no difference inside `prepare_room_with_history` -/
theorem prepareWithHistory_placing {d d' : Defects} (h1 : d.roomRowUnchecked = d'.roomRowUnchecked)
    (h2 : d.newGroupUserAdminUnchecked = d'.newGroupUserAdminUnchecked) (room : RoomT) (old cand : RoomNode)
    (g : ∀ a0 room1, mergeRows old.adminNodes cand.adminNodes = .ok a0 →
      checkNewAdmins old.adminNodes room (sortAsc (·.mdate) a0) = .ok room1 → groupsPlacedByAdmins room1 cand = true) :
    prepareWithHistory d room old cand = prepareWithHistory d' room old cand := by
  unfold prepareWithHistory roomRowFor
  rw [h1]
  simp only [checkNewAuths_switch h2]
  split
  · rfl
  · cases ha0 : mergeRows old.adminNodes cand.adminNodes with
    | error e => rfl
    | ok a0 =>
      simp only
      cases hadm : checkNewAdmins old.adminNodes room (sortAsc (·.mdate) a0) with
      | error e => rfl
      | ok room1 =>
        simp only [g a0 room1 ha0 hadm, Bool.not_true, Bool.and_false, Bool.false_eq_true, if_false]

theorem prepareNewRoom_placing {cand : RoomNode} (g : ∀ r, cand.parse = .ok r → groupsPlacedByAdmins r cand = true)
    (b b' : Bool) : prepareNewRoom b cand = prepareNewRoom b' cand := by
  unfold prepareNewRoom
  cases hp : cand.parse with
  | error e => rfl
  | ok r => simp only [g r hp, Bool.not_true, Bool.and_false, Bool.false_eq_true, if_false]

/-- two settings of the switches that differ in `placingEdgeUnchecked` only (and read oldest first) decide the
    same on candidates that pass the placing guard -/
theorem accept_congr_placing {d d' : Defects} (hn : d.newestFirstRead = false) (hn' : d'.newestFirstRead = false)
    (ha : d.placingAuthorUnchecked = d'.placingAuthorUnchecked)
    (h1 : d.roomRowUnchecked = d'.roomRowUnchecked)
    (h2 : d.newGroupUserAdminUnchecked = d'.newGroupUserAdminUnchecked)
    (h3 : d.duplicateIdsUnchecked = d'.duplicateIdsUnchecked)
    {s : RStore} {cand : RoomNode} (g : placingGuard s cand = true) : accept d s cand = accept d' s cand := by
  unfold placingGuard at g
  simp only [Bool.and_eq_true] at g
  obtain ⟨gp, gj⟩ := g
  unfold accept
  simp only [gp, Bool.not_true, Bool.and_false, Bool.false_eq_true, if_false, hn, hn', h3, ha]
  unfold judgeRoom at gj
  cases hroom : s.rooms.find? (·.id = cand.node.id) with
  | none =>
    simp only [hroom] at gj
    simp only
    rw [prepareNewRoom_placing (fun r hr => by rw [hr] at gj; exact gj) (!d.placingEdgeUnchecked) (!d'.placingEdgeUnchecked)]
  | some room =>
    simp only [hroom] at gj
    simp only
    cases hold : readBack false s cand.node.id with
    | none => rfl
    | some old =>
      simp only [hold] at gj
      simp only
      rw [prepareWithHistory_placing (d := d) (d' := d') h1 h2 room old cand
        (fun a0 room1 ha0 hadm => by rw [ha0] at gj; simp only at gj; rw [hadm] at gj; exact gj)]

/-- the switch `placingAuthorUnchecked` makes no difference on a candidate whose placing references are signed by
    the entries' authors -/
theorem accept_congr_author (d : Defects) (b : Bool) {s : RStore} {cand : RoomNode} (g : cand.placingOk = true) :
    accept d s cand = accept { d with placingAuthorUnchecked := b } s cand := by
  have hp : ∀ room old, prepareWithHistory { d with placingAuthorUnchecked := b } room old cand =
      prepareWithHistory d room old cand :=
    fun room old => prepareWithHistory_switch (d := { d with placingAuthorUnchecked := b }) (d' := d) rfl rfl rfl room old cand
  unfold accept
  simp only [g, hp, Bool.not_true, Bool.and_false, Bool.false_eq_true, if_false]

/-- **the code under a setting `d` of the two placing switches decides as the intended checks do** on the candidates
    that pass the guard of `d` (the other switches being off) -/
theorem accept_congr_D {d : Defects} (hn : d.newestFirstRead = false) (h1 : d.roomRowUnchecked = false)
    (h2 : d.newGroupUserAdminUnchecked = false) (h3 : d.duplicateIdsUnchecked = false)
    {s : RStore} {cand : RoomNode} (g : candGuardD d s cand = true) : accept d s cand = accept Defects.none s cand := by
  unfold candGuardD at g
  simp only [Bool.and_eq_true, Bool.or_eq_true, Bool.not_eq_true'] at g
  obtain ⟨ga, ge⟩ := g
  -- first the author switch
  have stepA : accept d s cand = accept { d with placingAuthorUnchecked := false } s cand := by
    rcases ga with ga | ga
    · have : d = { d with placingAuthorUnchecked := false } := by cases d; simp_all
      exact congrArg (fun x => accept x s cand) this
    · exact accept_congr_author d false ga
  rw [stepA]
  rcases ge with ge | ge
  · have : ({ d with placingAuthorUnchecked := false } : Defects) = Defects.none := by
      cases d; simp_all [Defects.none]
    rw [this]
  · exact accept_congr_placing (d := { d with placingAuthorUnchecked := false }) (d' := Defects.none) hn rfl rfl h1 h2 h3 ge

/-- **C07_partial, as an equation**: on candidates that pass the guard of the code as it is, the code as written
    takes exactly the decision of the intended checks -/
theorem accept_congr {s : RStore} {cand : RoomNode} (g : candGuard s cand = true) :
    accept Defects.asImplemented s cand = accept Defects.none s cand :=
  accept_congr_D rfl rfl rfl rfl g

/-! #### the same for /repo before the fixes (kept as a regression statement) -/

/-- /repo before the first fixes, with the placing references checked (an intermediate value for the proofs) -/
def Defects.beforeFixesP : Defects :=
  { Defects.beforeFixes with placingEdgeUnchecked := false, placingAuthorUnchecked := false, newestFirstRead := false }

theorem checkNewAuths_congr {room : RoomT} {old l : List AuthNode}
    (g : ∀ a ∈ l, old.any (·.node.id = a.node.id) = false → a.userAdminNodes = []) :
    checkNewAuths Defects.beforeFixesP room old l = checkNewAuths Defects.none room old l := by
  induction l with
  | nil => rfl
  | cons a rest ih =>
    have ihr := ih (fun b hb => g b (List.mem_cons_of_mem _ hb))
    unfold checkNewAuths
    cases hold : old.any (·.node.id = a.node.id)
    · have he := g a List.mem_cons_self hold
      have hp : prepareNewAuth Defects.beforeFixesP room a = prepareNewAuth Defects.none room a :=
        prepareNewAuth_congr (by rw [he]; rfl)
      simp only [Bool.false_eq_true, if_false, hp, ihr]
    · simp only [if_true, ihr]

/-- the guard that was needed before /repo 77018f3 -/
def candGuardBeforeFixes (s : RStore) (cand : RoomNode) : Bool :=
  cand.placingOk && placingGuard s cand && cand.idsDistinct &&
  match s.rooms.find? (·.id = cand.node.id), readBack false s cand.node.id with
  | some room, some old =>
    (rowEq cand.node old.node ||
      (old.node.mdate < cand.node.mdate && cand.node.ent = 100 && room.isAdmin cand.node.author cand.node.mdate)) &&
    cand.authNodes.all fun a => old.authNodes.any (·.node.id = a.node.id) || a.userAdminNodes.isEmpty
  | _, _ => true

theorem prepareWithHistory_congr {room : RoomT} {old cand : RoomNode}
    (g2 : (rowEq cand.node old.node ||
      (old.node.mdate < cand.node.mdate && cand.node.ent = 100 && room.isAdmin cand.node.author cand.node.mdate)) = true)
    (g3 : ∀ a ∈ cand.authNodes, old.authNodes.any (·.node.id = a.node.id) = false → a.userAdminNodes = []) :
    prepareWithHistory Defects.beforeFixesP room old cand = prepareWithHistory Defects.none room old cand := by
  have hrow : roomRowFor Defects.beforeFixesP room old cand = roomRowFor Defects.none room old cand := by
    unfold roomRowFor
    simp only [Defects.beforeFixesP, Defects.beforeFixes, Defects.none, Bool.true_or, if_true, Bool.false_or]
    simp only [Bool.or_eq_true, Bool.and_eq_true, decide_eq_true_eq] at g2
    rcases g2 with h | ⟨⟨h1, h2⟩, h3⟩
    · simp [h]
    · by_cases he : rowEq cand.node old.node = true
      · simp [he]
      · simp [he, h1, h2, h3]
  unfold prepareWithHistory
  rw [hrow]
  cases roomRowFor Defects.none room old cand with
  | error e => rfl
  | ok node =>
  simp only
  cases ha0 : mergeRows old.adminNodes cand.adminNodes with
  | error e => rfl
  | ok a0 =>
    simp only
    cases hadm : checkNewAdmins old.adminNodes room (sortAsc (·.mdate) a0) with
    | error e => rfl
    | ok room1 =>
      simp only
      have hpe : Defects.beforeFixesP.placingEdgeUnchecked = Defects.none.placingEdgeUnchecked := rfl
      rw [hpe]
      split
      · rfl
      cases hmerge : mergeAuths room1 old.authNodes cand.authNodes ((sortAsc (·.mdate) a0).any (isNew old.adminNodes)) with
      | none => rfl
      | some r1 =>
        cases r1 with
        | error e => rfl
        | ok p =>
          obtain ⟨auths, upd1⟩ := p
          simp only
          have am := mergeAuths_sound hmerge
          have := checkNewAuths_congr (room := room1) (old := old.authNodes) (l := auths)
            (fun a ha hno => g3 a (am.newUntouched a ha hno) hno)
          rw [this]

/-- /repo before 77018f3 but with the read order of today (the read order only matters for entries
    of equal date and for the read-back of the stored definition, see `C07_breaks_newestFirstRead`) -/
def Defects.beforeFixesOldestFirst : Defects := { Defects.beforeFixes with newestFirstRead := false }

theorem accept_congr_beforeFixes {s : RStore} {cand : RoomNode} (g : candGuardBeforeFixes s cand = true) :
    accept Defects.beforeFixesOldestFirst s cand = accept Defects.none s cand := by
  unfold candGuardBeforeFixes at g
  simp only [Bool.and_eq_true] at g
  obtain ⟨⟨⟨gpl, gp⟩, gi⟩, gm⟩ := g
  -- first the placing references (guard), then the three switches that were fixed
  rw [accept_congr_author Defects.beforeFixesOldestFirst false gpl,
    accept_congr_placing (d := { Defects.beforeFixesOldestFirst with placingAuthorUnchecked := false })
      (d' := Defects.beforeFixesP) rfl rfl rfl rfl rfl rfl gp]
  unfold accept
  simp only [gpl, placingOk_label gpl, gi, Bool.not_true, Bool.and_false, Bool.false_eq_true, if_false]
  show (if (!cand.sigsOk) = true then _ else if (!cand.consistent) = true then _ else
      match s.rooms.find? (·.id = cand.node.id) with
      | some room => match readBack false s cand.node.id with
        | none => _
        | some old => _
      | none => _) = _
  cases hroom : s.rooms.find? (·.id = cand.node.id) with
  | none => rfl
  | some room =>
    simp only
    cases hold : readBack false s cand.node.id with
    | none =>
      have : readBack Defects.none.newestFirstRead s cand.node.id = none := hold
      simp only [this]
    | some old =>
      have h2 : readBack Defects.none.newestFirstRead s cand.node.id = some old := hold
      simp only [h2]
      rw [hroom, hold] at gm
      simp only [Bool.and_eq_true, List.all_eq_true, Bool.or_eq_true, List.isEmpty_iff] at gm
      rw [prepareWithHistory_congr (by simpa using gm.1)]
      intro a ha hno
      rcases gm.2 a ha with h | h
      · rw [hno] at h; cases h
      · exact h

/-- with the intended checks a candidate is accepted only if every entry is bound to its list by a
    placing reference signed by the entry's author -/
theorem accept_none_placing {s s' : RStore} {cand : RoomNode} (h : accept Defects.none s cand = .ok s') :
    cand.sigsOk = true ∧ cand.consistent = true ∧ cand.placingOk = true ∧ cand.idsDistinct = true := by
  unfold accept at h
  split at h
  · cases h
  · next h1 =>
    split at h
    · cases h
    · next h2 =>
      split at h
      · cases h
      · split at h
        · cases h
        · next h3 =>
          split at h
          · cases h
          · next h4 =>
            simp only [Bool.not_eq_true', Bool.not_eq_false] at h1 h2
            simp only [Defects.none, Bool.not_false, Bool.true_and, Bool.not_eq_true', Bool.not_eq_false] at h3 h4
            exact ⟨h1, h2, h3, h4⟩

/-- inversion of `accept` for any setting of the switches -/
theorem accept_ok {d : Defects} {s s' : RStore} {cand : RoomNode} (h : accept d s cand = .ok s') :
    cand.sigsOk = true ∧ cand.consistent = true ∧
    ((∃ room old, s.rooms.find? (·.id = cand.node.id) = some room ∧ readBack d.newestFirstRead s cand.node.id = some old ∧
        ∃ merged upd, prepareWithHistory d room old cand = some (.ok (merged, upd)) ∧
          ((upd = false ∧ s' = s) ∨
           (upd = true ∧ ∃ r, merged.parse = .ok r ∧ s' = installRoom (writeRoom s merged) r))) ∨
     (s.rooms.find? (·.id = cand.node.id) = none ∧
        ∃ r, prepareNewRoom (!d.placingEdgeUnchecked) cand = .ok r ∧ s' = installRoom (writeRoom s cand) r)) := by
  unfold accept at h
  split at h
  · cases h
  · next h1 =>
    split at h
    · cases h
    · next h2 =>
      split at h
      · cases h
      · split at h
        · cases h
        split at h
        · cases h
        simp only [Bool.not_eq_true', Bool.not_eq_false] at h1 h2
        refine ⟨h1, h2, ?_⟩
        cases hroom : s.rooms.find? (·.id = cand.node.id) with
        | none =>
          rw [hroom] at h
          simp only at h
          cases hp : prepareNewRoom (!d.placingEdgeUnchecked) cand with
          | error e => rw [hp] at h; cases h
          | ok r =>
            rw [hp] at h
            simp only [Verdict.ok.injEq] at h
            exact Or.inr ⟨rfl, r, rfl, h.symm⟩
        | some room =>
          rw [hroom] at h
          simp only at h
          cases hold : readBack d.newestFirstRead s cand.node.id with
          | none => rw [hold] at h; cases h
          | some old =>
            rw [hold] at h
            simp only at h
            cases hprep : prepareWithHistory d room old cand with
            | none => rw [hprep] at h; cases h
            | some r1 =>
              rw [hprep] at h
              cases r1 with
              | error e => cases h
              | ok p =>
                obtain ⟨merged, upd⟩ := p
                simp only at h
                refine Or.inl ⟨room, old, rfl, rfl, merged, upd, hprep, ?_⟩
                cases upd with
                | false =>
                  simp only [Bool.false_eq_true, if_false, Verdict.ok.injEq] at h
                  exact Or.inl ⟨rfl, h.symm⟩
                | true =>
                  simp only [if_true] at h
                  cases hpar : merged.parse with
                  | error e => rw [hpar] at h; cases h
                  | ok r =>
                    rw [hpar] at h
                    simp only [Verdict.ok.injEq] at h
                    exact Or.inr ⟨rfl, r, rfl, h.symm⟩

/-! ### past stability of the admin decisions -/

theorem parseUser_date {n : SRow} {u : User} (h : parseUser n = .ok u) : u.date = n.mdate := by
  unfold parseUser at h
  split at h
  · cases h; rfl
  · cases h

/-- accepting new admin entries changes no admin decision at a date that precedes all of them -/
theorem checkNewAdmins_past {old : List SRow} {room room' : RoomT} {l : List SRow}
    (h : checkNewAdmins old room l = .ok room') (k : Key) (d : Int)
    (hd : ∀ n ∈ l, isNew old n = true → d < n.mdate) : room'.isAdmin k d = room.isAdmin k d := by
  induction l generalizing room with
  | nil => simp only [checkNewAdmins, Except.ok.injEq] at h; rw [h]
  | cons m rest ih =>
    unfold checkNewAdmins at h
    have hrest : ∀ n ∈ rest, isNew old n = true → d < n.mdate := fun n hn => hd n (List.mem_cons_of_mem _ hn)
    by_cases hnew : isNew old m = true
    · simp only [hnew, if_true] at h
      by_cases hadm : room.isAdmin m.author m.mdate = true
      · simp only [hadm, if_true] at h
        cases hp : parseUser m with
        | error e => rw [hp] at h; cases h
        | ok u =>
          rw [hp] at h
          simp only at h
          cases ha : room.addAdmin u with
          | error e => rw [ha] at h; simp [liftErr] at h
          | ok r1 =>
            rw [ha] at h
            simp only [liftErr] at h
            rw [ih h hrest]
            obtain ⟨l', hl, rfl⟩ := Discret.Room.Room.addAdmin_ok ha
            have hlt : d < u.date := by rw [parseUser_date hp]; exact hd m List.mem_cons_self hnew
            simp only [Discret.Room.Room.isAdmin]
            exact Discret.Room.enabledAt_add_past hl k hlt
      · simp only [hadm, Bool.false_eq_true, if_false] at h; cases h
    · simp only [hnew, Bool.false_eq_true, if_false] at h
      exact ih h hrest

end Discret.RoomNode

/-! ## the decisions of the merged definition (C07, last clause) -/

namespace Discret.Room

/-! ### decisions at `d` are a function of the entries dated up to `d` -/

section
variable {α : Type} (key : α → Nat) (date : α → Int)

/-- the two histories hold the same entries among those dated `≤ d` -/
def SameUpTo (l₁ l₂ : List α) (d : Int) : Prop := ∀ v, date v ≤ d → (v ∈ l₁ ↔ v ∈ l₂)

theorem SameUpTo.symm {l₁ l₂ : List α} {d : Int} (h : SameUpTo date l₁ l₂ d) : SameUpTo date l₂ l₁ d :=
  fun v hv => (h v hv).symm

/-- two well-formed histories with the same entries up to `d`: the entries in force at `d` have the same key and date -/
theorem glast_sameUpTo {l₁ l₂ : List α} {d : Int} (hs : SameUpTo date l₁ l₂ d)
    (h1 : GWF key date l₁) (h2 : GWF key date l₂) (k : Nat) :
    (glast key date l₁ k d = none ∧ glast key date l₂ k d = none) ∨
    ∃ u v, glast key date l₁ k d = some u ∧ glast key date l₂ k d = some v ∧
      key u = key v ∧ date u = date v ∧ u ∈ l₁ ∧ v ∈ l₁ := by
  cases e1 : glast key date l₁ k d with
  | none =>
    left; refine ⟨rfl, ?_⟩
    rw [glast_none_iff] at e1 ⊢
    intro v hv hk hd
    exact e1 v ((hs v hd).mpr hv) hk hd
  | some u =>
    right
    cases e2 : glast key date l₂ k d with
    | none =>
      rw [glast_none_iff] at e2
      obtain ⟨hm, hk, hd⟩ := glast_some_mem key date e1
      exact absurd hd (e2 u ((hs u hd).mp hm) hk)
    | some v =>
      have s1 := glast_spec key date h1 e1
      have s2 := glast_spec key date h2 e2
      have a := s1.2.2.2 v ((hs v s2.2.2.1).mpr s2.1) s2.2.1 s2.2.2.1
      have b := s2.2.2.2 u ((hs u s1.2.2.1).mp s1.1) s1.2.1 s1.2.2.1
      exact ⟨u, v, rfl, rfl, s1.2.1.trans s2.2.1.symm, by omega, s1.1, (hs v s2.2.2.1).mpr s2.1⟩

end

theorem enabledAt_sameUpTo {l₁ l₂ : List User} {d : Int} (hs : SameUpTo User.date l₁ l₂ d)
    (h1 : UserWF l₁) (h2 : UserWF l₂) (hf : UserFunc l₁) (k : Key) : enabledAt l₁ k d = enabledAt l₂ k d := by
  rcases glast_sameUpTo User.key User.date hs h1 h2 k with ⟨a, b⟩ | ⟨u, v, a, b, hk, hd, hu, hv⟩
  · simp only [enabledAt, lastAt_eq_glast, a, b]
  · simp only [enabledAt, lastAt_eq_glast, a, b]
    exact hf u hu v hv hk hd

theorem rightsCan_sameUpTo {l₁ l₂ : List Right} {d : Int} (hs : SameUpTo Right.validFrom l₁ l₂ d)
    (h1 : RightWF l₁) (h2 : RightWF l₂) (hf : RightFunc l₁) (e : Ent) (rt : RightType) :
    rightsCan l₁ e d rt = rightsCan l₂ e d rt := by
  have key : ∀ e', (rightAt l₁ e' d).map (·.grants rt) = (rightAt l₂ e' d).map (·.grants rt) := by
    intro e'
    rcases glast_sameUpTo Right.entity Right.validFrom hs h1 h2 e' with ⟨a, b⟩ | ⟨u, v, a, b, hk, hd, hu, hv⟩
    · simp only [rightAt_eq_glast, a, b]
    · simp only [rightAt_eq_glast, a, b, Option.map]
      have := hf u hu v hv hk hd
      cases rt <;> simp [Right.grants, this.1, this.2]
  have k1 := key e
  have k2 := key wildcard
  have expand : ∀ l, rightsCan l e d rt =
      (((rightAt l e d).map (·.grants rt)).getD (((rightAt l wildcard d).map (·.grants rt)).getD false)) := by
    intro l
    simp only [rightsCan]
    cases rightAt l e d <;> cases rightAt l wildcard d <;> rfl
  rw [expand, expand, k1, k2]

theorem enabledAt_none_before {l : List User} {d : Int} (h : ∀ u ∈ l, d < u.date) (k : Key) : enabledAt l k d = false := by
  have : lastAt l k d = none := lastAt_none_iff.mpr (fun v hv _ hd => by have := h v hv; omega)
  simp [enabledAt, this]

theorem rightsCan_none_before {l : List Right} {d : Int} (h : ∀ x ∈ l, d < x.validFrom) (e : Ent) (rt : RightType) :
    rightsCan l e d rt = false := by
  have n : ∀ e', rightAt l e' d = none := fun e' =>
    rightAt_none_iff.mpr (fun v hv _ hd => by have := h v hv; omega)
  simp [rightsCan, n]

/-- the two groups hold the same entries up to `d`, list by list -/
structure Auth.SameUpTo (a b : Auth) (d : Int) : Prop where
  users : Room.SameUpTo User.date a.users b.users d
  userAdmins : Room.SameUpTo User.date a.userAdmins b.userAdmins d
  rights : Room.SameUpTo Right.validFrom a.rights b.rights d

/-- no entry of the group is dated `≤ d` -/
structure Auth.EmptyAt (a : Auth) (d : Int) : Prop where
  users : ∀ u ∈ a.users, d < u.date
  userAdmins : ∀ u ∈ a.userAdmins, d < u.date
  rights : ∀ x ∈ a.rights, d < x.validFrom

theorem Auth.sameAt_of_sameUpTo {a b : Auth} {d : Int} (wa : a.WF) (wb : b.WF)
    (fu : UserFunc a.users) (fa : UserFunc a.userAdmins) (fr : RightFunc a.rights) (h : a.SameUpTo b d) : a.SameAt b d :=
  ⟨fun k => by
      simp only [Auth.isUserValidAt, enabledAt_sameUpTo h.users wa.users wb.users fu k,
        enabledAt_sameUpTo h.userAdmins wa.userAdmins wb.userAdmins fa k],
   fun k => by simp only [Auth.canAdminUsers, enabledAt_sameUpTo h.userAdmins wa.userAdmins wb.userAdmins fa k],
   fun e rt => by simp only [Auth.can_eq, rightsCan_sameUpTo h.rights wa.rights wb.rights fr e rt]⟩

theorem Auth.EmptyAt.valid {a : Auth} {d : Int} (h : a.EmptyAt d) (k : Key) : a.isUserValidAt k d = false := by
  simp [Auth.isUserValidAt, enabledAt_none_before h.users, enabledAt_none_before h.userAdmins]
theorem Auth.EmptyAt.userAdmin {a : Auth} {d : Int} (h : a.EmptyAt d) (k : Key) : a.canAdminUsers k d = false := by
  simp [Auth.canAdminUsers, enabledAt_none_before h.userAdmins]
theorem Auth.EmptyAt.can {a : Auth} {d : Int} (h : a.EmptyAt d) (e : Ent) (rt : RightType) : a.can e d rt = false := by
  rw [Auth.can_eq]; exact rightsCan_none_before h.rights e rt

theorem getAuth_eq_none {r : Room} {gid : Id} (h : ∀ a ∈ r.auths, a.id ≠ gid) : r.getAuth gid = none := by
  unfold Room.getAuth
  rw [List.find?_eq_none]
  intro a ha; simpa using h a ha

/-- **decisions at `d` are a function of the entries dated up to `d`.** Two well-formed rooms whose admin lists hold
    the same entries up to `d`, whose groups correspond by id with the same entries up to `d`, every group without
    a counterpart having no entry dated `≤ d`, decide the same at `d` — provided that, in the first room, entries
    with equal key and equal date carry the same payload (`Room.Func`). -/
theorem Room.sameAt_of_sameUpTo {r s : Room} {d : Int} (wr : r.WF) (ws : s.WF) (fr : r.Func)
    (hadm : Room.SameUpTo User.date r.admins s.admins d)
    (h1 : ∀ a ∈ r.auths, (∃ b ∈ s.auths, b.id = a.id ∧ a.SameUpTo b d) ∨ ((∀ b ∈ s.auths, b.id ≠ a.id) ∧ a.EmptyAt d))
    (h2 : ∀ b ∈ s.auths, (∃ a ∈ r.auths, b.id = a.id ∧ a.SameUpTo b d) ∨ ((∀ a ∈ r.auths, a.id ≠ b.id) ∧ b.EmptyAt d)) :
    r.SameAt s d := by
  have hadm' : ∀ k, enabledAt r.admins k d = enabledAt s.admins k d :=
    fun k => enabledAt_sameUpTo hadm wr.admins ws.admins fr.admins k
  have same : ∀ a ∈ r.auths, ∀ b ∈ s.auths, a.SameUpTo b d → a.SameAt b d := by
    intro a ha b hb h
    obtain ⟨f1, f2, f3⟩ := fr.auths a ha
    exact Auth.sameAt_of_sameUpTo (wr.auths a ha) (ws.auths b hb) f1 f2 f3 h
  have anyEq : ∀ (f : Auth → Bool), (∀ a ∈ r.auths, ∀ b ∈ s.auths, a.SameAt b d → f a = f b) →
      (∀ a, a.EmptyAt d → f a = false) → r.auths.any f = s.auths.any f := by
    intro f hf he
    rw [Bool.eq_iff_iff, List.any_eq_true, List.any_eq_true]
    constructor
    · rintro ⟨a, ha, hfa⟩
      rcases h1 a ha with ⟨b, hb, _, hs⟩ | ⟨_, hem⟩
      · exact ⟨b, hb, by rw [← hf a ha b hb (same a ha b hb hs)]; exact hfa⟩
      · rw [he a hem] at hfa; cases hfa
    · rintro ⟨b, hb, hfb⟩
      rcases h2 b hb with ⟨a, ha, _, hs⟩ | ⟨_, hem⟩
      · exact ⟨a, ha, by rw [hf a ha b hb (same a ha b hb hs)]; exact hfb⟩
      · rw [he b hem] at hfb; cases hfb
  refine ⟨hadm', ?_, ?_, ?_⟩
  · intro k
    simp only [Room.isUserValidAt, hadm' k]
    rw [anyEq (fun a => a.isUserValidAt k d) (fun a _ b _ h => h.valid k) (fun a h => h.valid k)]
  · intro gid k
    simp only [Room.canAdminUsers]
    cases e1 : r.getAuth gid with
    | none =>
      cases e2 : s.getAuth gid with
      | none => rfl
      | some b =>
        obtain ⟨hb, hid⟩ := getAuth_some e2
        rcases h2 b hb with ⟨a, ha, hab, _⟩ | ⟨_, hem⟩
        · exact absurd (hab.symm.trans hid) (getAuth_none e1 a ha)
        · simp only [hem.userAdmin k]
    | some a =>
      obtain ⟨ha, hid⟩ := getAuth_some e1
      rcases h1 a ha with ⟨b, hb, hab, hs⟩ | ⟨hno, hem⟩
      · have : s.getAuth gid = some b := by rw [← hid, ← hab]; exact getAuth_of_mem ws.ids hb
        simp only [this]
        exact (same a ha b hb hs).userAdmin k
      · have : s.getAuth gid = none := getAuth_eq_none (fun b hb => by rw [← hid]; exact hno b hb)
        simp only [this, hem.userAdmin k]
  · intro k e rt
    simp only [Room.can, Room.isAdmin, hadm' k]
    exact anyEq _ (fun a _ b _ h => by simp only [h.valid k, h.can e rt]) (fun a h => by simp [h.can e rt])

end Discret.Room

namespace Discret.RoomNode
open Discret.Room (Key Ent Id RightType User Right Auth Err UserWF RightWF)

/-! ### what `parse` makes of the rows -/

/-- the user entry a row stands for (`UserNode::parse`) -/
def userOf (n : SRow) : Option User :=
  match n.body with
  | .user k en => some { key := k, date := n.mdate, enabled := en }
  | _ => none

/-- the right entry a row stands for (`EntityRightNode::parse`) -/
def rightOf (n : SRow) : Option Right :=
  match n.body with
  | .right e ms ma => some (Right.new n.mdate e ms ma)
  | _ => none

theorem parseUser_userOf {n : SRow} {u : User} (h : parseUser n = .ok u) : userOf n = some u := by
  unfold parseUser at h; unfold userOf
  split at h <;> simp_all

theorem parseRight_rightOf {n : SRow} {x : Right} (h : parseRight n = .ok x) : rightOf n = some x := by
  unfold parseRight at h; unfold rightOf
  split at h <;> simp_all

theorem userOf_rowEq {a b : SRow} (h : rowEq a b = true) : userOf a = userOf b := by
  obtain ⟨_, _, _, _, h5, _, h7⟩ := rowEq_iff.mp h
  simp [userOf, h5, h7]

theorem rightOf_rowEq {a b : SRow} (h : rowEq a b = true) : rightOf a = rightOf b := by
  obtain ⟨_, _, _, _, h5, _, h7⟩ := rowEq_iff.mp h
  simp [rightOf, h5, h7]

theorem userOf_date {n : SRow} {u : User} (h : userOf n = some u) : u.date = n.mdate := by
  unfold userOf at h; split at h <;> simp_all
  rw [← h]

theorem rightOf_date {n : SRow} {x : Right} (h : rightOf n = some x) : x.validFrom = n.mdate := by
  unfold rightOf at h; split at h <;> simp_all
  rw [← h]; rfl

theorem addAdmins_ok {r r' : RoomT} {l : List SRow} (h : addAdmins r l = .ok r') :
    r'.admins = r.admins ++ l.filterMap userOf ∧ r'.auths = r.auths ∧ r'.id = r.id ∧ (r.WF → r'.WF) := by
  induction l generalizing r with
  | nil => simp only [addAdmins, Except.ok.injEq] at h; subst h; simp
  | cons n rest ih =>
    unfold addAdmins at h
    cases hp : parseUser n with
    | error e => rw [hp] at h; cases h
    | ok u =>
      rw [hp] at h; simp only at h
      cases ha : r.addAdmin u with
      | error e => rw [ha] at h; simp [liftErr] at h
      | ok r1 =>
        rw [ha] at h; simp only [liftErr] at h
        obtain ⟨h1, h2, h3, h4⟩ := ih h
        obtain ⟨l', hl, rfl⟩ := Discret.Room.Room.addAdmin_ok ha
        obtain ⟨rfl, _⟩ := Discret.Room.addUserEntry_ok hl
        refine ⟨?_, h2, h3, fun w => h4 (Discret.Room.Room.addAdmin_wf w ha)⟩
        rw [h1]; simp [parseUser_userOf hp]

theorem addUsers_ok {a a' : Auth} {l : List SRow} (h : addUsers a l = .ok a') :
    a'.users = a.users ++ l.filterMap userOf ∧ a'.userAdmins = a.userAdmins ∧ a'.rights = a.rights ∧ a'.id = a.id ∧
    (a.WF → a'.WF) := by
  induction l generalizing a with
  | nil => simp only [addUsers, Except.ok.injEq] at h; subst h; simp
  | cons n rest ih =>
    unfold addUsers at h
    cases hp : parseUser n with
    | error e => rw [hp] at h; cases h
    | ok u =>
      rw [hp] at h; simp only at h
      cases ha : a.addUser u with
      | error e => rw [ha] at h; simp [liftErr] at h
      | ok a1 =>
        rw [ha] at h; simp only [liftErr] at h
        obtain ⟨h1, h2, h3, h4, h5⟩ := ih h
        obtain ⟨l', hl, rfl⟩ := Discret.Room.Auth.addUser_ok ha
        obtain ⟨rfl, _⟩ := Discret.Room.addUserEntry_ok hl
        refine ⟨?_, h2, h3, h4, fun w => h5 (Discret.Room.Auth.addUser_wf w ha)⟩
        rw [h1]; simp [parseUser_userOf hp]

theorem addUserAdmins_ok {a a' : Auth} {l : List SRow} (h : addUserAdmins a l = .ok a') :
    a'.userAdmins = a.userAdmins ++ l.filterMap userOf ∧ a'.users = a.users ∧ a'.rights = a.rights ∧ a'.id = a.id ∧
    (a.WF → a'.WF) := by
  induction l generalizing a with
  | nil => simp only [addUserAdmins, Except.ok.injEq] at h; subst h; simp
  | cons n rest ih =>
    unfold addUserAdmins at h
    cases hp : parseUser n with
    | error e => rw [hp] at h; cases h
    | ok u =>
      rw [hp] at h; simp only at h
      cases ha : a.addUserAdmin u with
      | error e => rw [ha] at h; simp [liftErr] at h
      | ok a1 =>
        rw [ha] at h; simp only [liftErr] at h
        obtain ⟨h1, h2, h3, h4, h5⟩ := ih h
        obtain ⟨l', hl, rfl⟩ := Discret.Room.Auth.addUserAdmin_ok ha
        obtain ⟨rfl, _⟩ := Discret.Room.addUserEntry_ok hl
        refine ⟨?_, h2, h3, h4, fun w => h5 (Discret.Room.Auth.addUserAdmin_wf w ha)⟩
        rw [h1]; simp [parseUser_userOf hp]

theorem addRights_ok {a a' : Auth} {l : List SRow} (h : addRights a l = .ok a') :
    a'.rights = a.rights ++ l.filterMap rightOf ∧ a'.users = a.users ∧ a'.userAdmins = a.userAdmins ∧ a'.id = a.id ∧
    (a.WF → a'.WF) := by
  induction l generalizing a with
  | nil => simp only [addRights, Except.ok.injEq] at h; subst h; simp
  | cons n rest ih =>
    unfold addRights at h
    cases hp : parseRight n with
    | error e => rw [hp] at h; cases h
    | ok x =>
      rw [hp] at h; simp only at h
      cases ha : a.addRight x with
      | error e => rw [ha] at h; simp [liftErr] at h
      | ok a1 =>
        rw [ha] at h; simp only [liftErr] at h
        obtain ⟨h1, h2, h3, h4, h5⟩ := ih h
        obtain ⟨l', hl, rfl⟩ := Discret.Room.Auth.addRight_ok ha
        obtain ⟨rfl, _⟩ := Discret.Room.addRightEntry_ok hl
        refine ⟨?_, h2, h3, h4, fun w => h5 (Discret.Room.Auth.addRight_wf w ha)⟩
        rw [h1]; simp [parseRight_rightOf hp]

/-- `AuthorisationNode::parse`: the three history lists are the rows' entries in the order given; the group is well-formed -/
theorem AuthNode.parse_ok {a : AuthNode} {au : Auth} (h : a.parse = .ok au) :
    au.id = a.node.id ∧ au.users = a.userNodes.filterMap userOf ∧ au.userAdmins = a.userAdminNodes.filterMap userOf ∧
    au.rights = a.rightNodes.filterMap rightOf ∧ au.WF := by
  unfold AuthNode.parse at h
  simp only at h
  cases h1 : addRights { id := a.node.id, mdate := a.node.mdate, users := [], rights := [], userAdmins := [] } a.rightNodes with
  | error e => rw [h1] at h; cases h
  | ok a1 =>
    rw [h1] at h; simp only at h
    cases h2 : addUsers a1 a.userNodes with
    | error e => rw [h2] at h; cases h
    | ok a2 =>
      rw [h2] at h; simp only at h
      obtain ⟨r1, r2, r3, r4, r5⟩ := addRights_ok h1
      obtain ⟨u1, u2, u3, u4, u5⟩ := addUsers_ok h2
      obtain ⟨v1, v2, v3, v4, v5⟩ := addUserAdmins_ok h
      refine ⟨by rw [v4, u4, r4], ?_, ?_, ?_, v5 (u5 (r5 (Discret.Room.Auth.wf_empty _ _)))⟩
      · rw [v2, u1, r2]; simp
      · rw [v1, u2, r3]; simp
      · rw [v3, u3, r1]; simp

/-- the group a group node parses to -/
def authOf (a : AuthNode) : Option Auth :=
  match a.parse with
  | .ok au => some au
  | .error _ => none

theorem authOf_some {a : AuthNode} {au : Auth} : authOf a = some au ↔ a.parse = .ok au := by
  unfold authOf; split <;> simp_all

theorem addAuths_ok {r r' : RoomT} {l : List AuthNode} (h : addAuths r l = .ok r') :
    r'.admins = r.admins ∧ r'.id = r.id ∧ (r.WF → r'.WF) ∧ r'.auths = r.auths ++ l.filterMap authOf := by
  induction l generalizing r with
  | nil => simp only [addAuths, Except.ok.injEq] at h; subst h; simp
  | cons a rest ih =>
    unfold addAuths at h
    cases hp : a.parse with
    | error e => rw [hp] at h; cases h
    | ok au =>
      rw [hp] at h; simp only at h
      cases ha : r.addAuth au with
      | error e => rw [ha] at h; simp [liftErr] at h
      | ok r1 =>
        rw [ha] at h; simp only [liftErr] at h
        obtain ⟨h1, h2, h3, h4⟩ := ih h
        obtain ⟨_, e⟩ := Discret.Room.Room.addAuth_ok ha
        subst e
        refine ⟨h1, h2, fun w => h3 (Discret.Room.Room.addAuth_wf w (AuthNode.parse_ok hp).2.2.2.2 ha), ?_⟩
        rw [h4]; simp [authOf_some.mpr hp]

/-- `RoomNode::parse`: the admin history is the admin rows' entries in the order given, the groups are the parsed
    group nodes in the order given; the room is well-formed -/
theorem RoomNode.parse_ok {rn : RoomNode} {r : RoomT} (h : rn.parse = .ok r) :
    r.admins = rn.adminNodes.filterMap userOf ∧ r.auths = rn.authNodes.filterMap authOf ∧ r.WF := by
  unfold RoomNode.parse at h
  cases h1 : addAdmins (Discret.Room.Room.empty rn.node.id rn.node.mdate) rn.adminNodes with
  | error e => rw [h1] at h; cases h
  | ok r1 =>
    rw [h1] at h; simp only at h
    obtain ⟨a1, a2, _, a4⟩ := addAdmins_ok h1
    obtain ⟨b1, _, b3, b4⟩ := addAuths_ok h
    refine ⟨?_, ?_, b3 (a4 (Discret.Room.Room.wf_empty _ _))⟩
    · rw [b1, a1]; simp [Discret.Room.Room.empty]
    · rw [b4, a2]; simp [Discret.Room.Room.empty]

/-- the groups of the parsed room are the parses of the group nodes -/
theorem RoomNode.parse_auths {rn : RoomNode} {r : RoomT} (h : rn.parse = .ok r) (au : Auth) :
    au ∈ r.auths ↔ ∃ a ∈ rn.authNodes, a.parse = .ok au := by
  rw [(RoomNode.parse_ok h).2.1, List.mem_filterMap]
  simp only [authOf_some]

end Discret.RoomNode


namespace Discret.RoomNode
open Discret.Room (Key Ent Id RightType User Right Auth Err UserWF RightWF)

theorem addAuths_all_parse {r r' : RoomT} {l : List AuthNode} (h : addAuths r l = .ok r') :
    ∀ a ∈ l, ∃ au, a.parse = .ok au := by
  induction l generalizing r with
  | nil => intro a ha; cases ha
  | cons a rest ih =>
    unfold addAuths at h
    cases hp : a.parse with
    | error e => rw [hp] at h; cases h
    | ok au =>
      rw [hp] at h; simp only at h
      cases ha : r.addAuth au with
      | error e => rw [ha] at h; simp [liftErr] at h
      | ok r1 =>
        rw [ha] at h; simp only [liftErr] at h
        intro b hb
        rcases List.mem_cons.mp hb with rfl | hb
        · exact ⟨au, hp⟩
        · exact ih h b hb

theorem RoomNode.parse_all {rn : RoomNode} {r : RoomT} (h : rn.parse = .ok r) :
    ∀ a ∈ rn.authNodes, ∃ au, a.parse = .ok au ∧ au ∈ r.auths := by
  intro a ha
  have h' := h
  unfold RoomNode.parse at h'
  cases h1 : addAdmins (Discret.Room.Room.empty rn.node.id rn.node.mdate) rn.adminNodes with
  | error e => rw [h1] at h'; cases h'
  | ok r1 =>
    rw [h1] at h'; simp only at h'
    obtain ⟨au, hp⟩ := addAuths_all_parse h' a ha
    exact ⟨au, hp, (RoomNode.parse_auths h au).mpr ⟨a, ha, hp⟩⟩

theorem distinctNats_inj {l : List SRow} (h : distinctNats (l.map (·.id)) = true) :
    ∀ a ∈ l, ∀ b ∈ l, a.id = b.id → a = b := by
  induction l with
  | nil => intro a ha; cases ha
  | cons x xs ih =>
    simp only [List.map_cons, distinctNats, Bool.and_eq_true, Bool.not_eq_true'] at h
    have hx : ∀ b ∈ xs, b.id ≠ x.id := by
      intro b hb e
      have : (xs.map (·.id)).contains x.id = true := by
        rw [List.contains_iff_mem]; exact List.mem_map.mpr ⟨b, hb, e⟩
      rw [this] at h; exact absurd h.1 (by simp)
    intro a ha b hb e
    rcases List.mem_cons.mp ha with ha1 | ha1
    · rcases List.mem_cons.mp hb with hb1 | hb1
      · rw [ha1, hb1]
      · rw [ha1] at e; exact absurd e.symm (hx b hb1)
    · rcases List.mem_cons.mp hb with hb1 | hb1
      · rw [hb1] at e; exact absurd e (hx a ha1)
      · exact ih h.2 a ha1 b hb1 e

theorem distinctNats_inj_auth {l : List AuthNode} (h : distinctNats (l.map (·.node.id)) = true) :
    ∀ a ∈ l, ∀ b ∈ l, a.node.id = b.node.id → a = b := by
  induction l with
  | nil => intro a ha; cases ha
  | cons x xs ih =>
    simp only [List.map_cons, distinctNats, Bool.and_eq_true, Bool.not_eq_true'] at h
    have hx : ∀ b ∈ xs, b.node.id ≠ x.node.id := by
      intro b hb e
      have : (xs.map (·.node.id)).contains x.node.id = true := by
        rw [List.contains_iff_mem]; exact List.mem_map.mpr ⟨b, hb, e⟩
      rw [this] at h; exact absurd h.1 (by simp)
    intro a ha b hb e
    rcases List.mem_cons.mp ha with ha1 | ha1
    · rcases List.mem_cons.mp hb with hb1 | hb1
      · rw [ha1, hb1]
      · rw [ha1] at e; exact absurd e.symm (hx b hb1)
    · rcases List.mem_cons.mp hb with hb1 | hb1
      · rw [hb1] at e; exact absurd e (hx a ha1)
      · exact ih h.2 a ha1 b hb1 e

/-- a merged list against the stored one: the stored rows are all there (unchanged), ids are distinct, every row
    whose id is not stored is dated after `t` — then the entries dated up to `t` are the stored ones -/
theorem sameUpTo_of_merge {β : Type} (f : SRow → Option β) (date : β → Int)
    (hdate : ∀ n b, f n = some b → date b = n.mdate) (heq : ∀ a b, rowEq a b = true → f a = f b)
    {ml ol : List SRow} {t : Int}
    (cov : ∀ o ∈ ol, ∃ y ∈ ml, rowEq y o = true) (dist : distinctNats (ml.map (·.id)) = true)
    (hnew : ∀ n ∈ ml, isNew ol n = true → t < n.mdate) :
    Discret.Room.SameUpTo date (ml.filterMap f) (ol.filterMap f) t := by
  intro v hv
  simp only [List.mem_filterMap]
  constructor
  · rintro ⟨y, hy, hfy⟩
    have hyd : y.mdate ≤ t := by rw [← hdate y v hfy]; exact hv
    have hnn : isNew ol y = false := by
      cases h : isNew ol y
      · rfl
      · have := hnew y hy h; omega
    unfold isNew at hnn
    simp only [Bool.not_eq_false', List.any_eq_true, decide_eq_true_eq] at hnn
    obtain ⟨o, ho, hid⟩ := hnn
    obtain ⟨y', hy', he⟩ := cov o ho
    have : y' = y := distinctNats_inj dist y' hy' y hy ((rowEq_iff.mp he).1.trans hid)
    subst this
    exact ⟨o, ho, by rw [← heq _ _ he]; exact hfy⟩
  · rintro ⟨o, ho, hfo⟩
    obtain ⟨y, hy, he⟩ := cov o ho
    exact ⟨y, hy, by rw [heq _ _ he]; exact hfo⟩

/-- every entry of `merged` that is not a stored one — no stored row of its list carries its id; every entry of
    a group that is not stored — is dated after `t` -/
structure NewAfter (old merged : RoomNode) (t : Int) : Prop where
  admins : ∀ n ∈ merged.adminNodes, isNew old.adminNodes n = true → t < n.mdate
  groups : ∀ a ∈ merged.authNodes, ∀ o ∈ old.authNodes, o.node.id = a.node.id →
    (∀ n ∈ a.userNodes, isNew o.userNodes n = true → t < n.mdate) ∧
    (∀ n ∈ a.userAdminNodes, isNew o.userAdminNodes n = true → t < n.mdate) ∧
    (∀ n ∈ a.rightNodes, isNew o.rightNodes n = true → t < n.mdate)
  newGroups : ∀ a ∈ merged.authNodes, old.authNodes.any (·.node.id = a.node.id) = false →
    (∀ n ∈ a.userNodes, t < n.mdate) ∧ (∀ n ∈ a.userAdminNodes, t < n.mdate) ∧ (∀ n ∈ a.rightNodes, t < n.mdate)

theorem idsDistinct_parts {r : RoomNode} (h : r.idsDistinct = true) :
    distinctNats (r.adminNodes.map (·.id)) = true ∧ distinctNats (r.authNodes.map (·.node.id)) = true ∧
    ∀ a ∈ r.authNodes, distinctNats (a.rightNodes.map (·.id)) = true ∧ distinctNats (a.userNodes.map (·.id)) = true ∧
      distinctNats (a.userAdminNodes.map (·.id)) = true := by
  unfold RoomNode.idsDistinct at h
  simp only [Bool.and_eq_true, List.all_eq_true] at h
  exact ⟨h.1.1, h.1.2, fun a ha => ⟨(h.2 a ha).1.1, (h.2 a ha).1.2, (h.2 a ha).2⟩⟩

/-- the group parsed from a merged group node against the group parsed from the stored node it covers -/
theorem auth_sameUpTo {o a : AuthNode} {bu au : Auth} {t : Int} (hc : GroupCovers o a)
    (hpo : o.parse = .ok bu) (hpa : a.parse = .ok au)
    (hd : distinctNats (a.rightNodes.map (·.id)) = true ∧ distinctNats (a.userNodes.map (·.id)) = true ∧
      distinctNats (a.userAdminNodes.map (·.id)) = true)
    (hn : (∀ n ∈ a.userNodes, isNew o.userNodes n = true → t < n.mdate) ∧
      (∀ n ∈ a.userAdminNodes, isNew o.userAdminNodes n = true → t < n.mdate) ∧
      (∀ n ∈ a.rightNodes, isNew o.rightNodes n = true → t < n.mdate)) :
    bu.id = au.id ∧ au.SameUpTo bu t := by
  obtain ⟨i1, u1, a1, r1, _⟩ := AuthNode.parse_ok hpo
  obtain ⟨i2, u2, a2, r2, _⟩ := AuthNode.parse_ok hpa
  refine ⟨by rw [i1, i2, hc.id], ?_, ?_, ?_⟩
  · rw [u1, u2]
    exact sameUpTo_of_merge userOf User.date (fun n b h => userOf_date h) (fun a b h => userOf_rowEq h) hc.users hd.2.1 hn.1
  · rw [a1, a2]
    exact sameUpTo_of_merge userOf User.date (fun n b h => userOf_date h) (fun a b h => userOf_rowEq h) hc.userAdmins hd.2.2 hn.2.1
  · rw [r1, r2]
    exact sameUpTo_of_merge rightOf Right.validFrom (fun n b h => rightOf_date h) (fun a b h => rightOf_rowEq h) hc.rights hd.1 hn.2.2

theorem auth_emptyAt {a : AuthNode} {au : Auth} {t : Int} (hpa : a.parse = .ok au)
    (hn : (∀ n ∈ a.userNodes, t < n.mdate) ∧ (∀ n ∈ a.userAdminNodes, t < n.mdate) ∧ (∀ n ∈ a.rightNodes, t < n.mdate)) :
    au.EmptyAt t := by
  obtain ⟨_, u2, a2, r2, _⟩ := AuthNode.parse_ok hpa
  refine ⟨?_, ?_, ?_⟩
  · intro u hu; rw [u2, List.mem_filterMap] at hu
    obtain ⟨n, hnm, hf⟩ := hu; rw [userOf_date hf]; exact hn.1 n hnm
  · intro u hu; rw [a2, List.mem_filterMap] at hu
    obtain ⟨n, hnm, hf⟩ := hu; rw [userOf_date hf]; exact hn.2.1 n hnm
  · intro x hx; rw [r2, List.mem_filterMap] at hx
    obtain ⟨n, hnm, hf⟩ := hx; rw [rightOf_date hf]; exact hn.2.2 n hnm

/-- **decisions of the merged definition, before the earliest new entry.** `merged` keeps every stored entry
    unchanged (`oldAdmins`, `oldGroups`: what `C07_monotone` establishes), carries no id twice, both definitions
    parse; in the room parsed from `merged`, entries with equal key and equal date carry the same payload. Then at
    every date `t` that precedes all entries that are new, every decision of the merged room is the decision of
    the stored one. -/
theorem merged_past_stable {old merged : RoomNode} {r0 r : RoomT} {t : Int}
    (oldAdmins : ∀ o ∈ old.adminNodes, ∃ y ∈ merged.adminNodes, rowEq y o = true)
    (oldGroups : ∀ o ∈ old.authNodes, ∃ a ∈ merged.authNodes, GroupCovers o a)
    (hpo : old.parse = .ok r0) (hpm : merged.parse = .ok r) (hd : merged.idsDistinct = true)
    (hf : r.Func) (hnew : NewAfter old merged t) : r.SameAt r0 t := by
  obtain ⟨adm0, _, w0⟩ := RoomNode.parse_ok hpo
  obtain ⟨adm1, _, w1⟩ := RoomNode.parse_ok hpm
  obtain ⟨d1, d2, d3⟩ := idsDistinct_parts hd
  refine Discret.Room.Room.sameAt_of_sameUpTo w1 w0 hf ?_ ?_ ?_
  · rw [adm0, adm1]
    exact sameUpTo_of_merge userOf User.date (fun n b h => userOf_date h) (fun a b h => userOf_rowEq h) oldAdmins d1 hnew.admins
  · intro au hau
    obtain ⟨a, ha, hpa⟩ := (RoomNode.parse_auths hpm au).mp hau
    cases hany : old.authNodes.any (·.node.id = a.node.id) with
    | true =>
      left
      obtain ⟨o, ho, hid⟩ := List.any_eq_true.mp hany
      have hid : o.node.id = a.node.id := by simpa using hid
      obtain ⟨bu, hpb, hbu⟩ := RoomNode.parse_all hpo o ho
      obtain ⟨a', ha', hc⟩ := oldGroups o ho
      have : a' = a := distinctNats_inj_auth d2 a' ha' a ha (hc.id.trans hid)
      subst this
      obtain ⟨e1, e2⟩ := auth_sameUpTo hc hpb hpa (d3 a' ha') (hnew.groups a' ha' o ho hid)
      exact ⟨bu, hbu, e1, e2⟩
    | false =>
      right
      refine ⟨?_, auth_emptyAt hpa (hnew.newGroups a ha hany)⟩
      intro bu hbu e
      obtain ⟨o, ho, hpb⟩ := (RoomNode.parse_auths hpo bu).mp hbu
      have : o.node.id = a.node.id := by
        rw [← (AuthNode.parse_ok hpb).1, ← (AuthNode.parse_ok hpa).1]; exact e
      rw [List.any_eq_false] at hany
      exact hany o ho (by simpa using this)
  · intro bu hbu
    left
    obtain ⟨o, ho, hpb⟩ := (RoomNode.parse_auths hpo bu).mp hbu
    obtain ⟨a, ha, hc⟩ := oldGroups o ho
    obtain ⟨au, hpa, hau⟩ := RoomNode.parse_all hpm a ha
    obtain ⟨e1, e2⟩ := auth_sameUpTo hc hpb hpa (d3 a ha) (hnew.groups a ha o ho hc.id.symm)
    exact ⟨au, hau, e1, e2⟩

end Discret.RoomNode

namespace Discret.Room

/-- **decisions are a function of the set of entries.** Two well-formed rooms that hold the same entries, list by
    list and group by group (in any order of insertion), decide the same at every date, provided entries with equal
    key and equal date carry the same payload in the first one. -/
theorem Room.sameAt_of_sameEntries {r s : Room} (wr : r.WF) (ws : s.WF) (fr : r.Func)
    (hadm : ∀ v, v ∈ r.admins ↔ v ∈ s.admins)
    (h1 : ∀ a ∈ r.auths, ∃ b ∈ s.auths, b.id = a.id ∧ (∀ v, v ∈ a.users ↔ v ∈ b.users) ∧
      (∀ v, v ∈ a.userAdmins ↔ v ∈ b.userAdmins) ∧ (∀ v, v ∈ a.rights ↔ v ∈ b.rights))
    (h2 : ∀ b ∈ s.auths, ∃ a ∈ r.auths, b.id = a.id ∧ (∀ v, v ∈ a.users ↔ v ∈ b.users) ∧
      (∀ v, v ∈ a.userAdmins ↔ v ∈ b.userAdmins) ∧ (∀ v, v ∈ a.rights ↔ v ∈ b.rights))
    (d : Int) : r.SameAt s d := by
  refine Room.sameAt_of_sameUpTo wr ws fr (fun v _ => hadm v) ?_ ?_
  · intro a ha
    obtain ⟨b, hb, hid, e1, e2, e3⟩ := h1 a ha
    exact Or.inl ⟨b, hb, hid, fun v _ => e1 v, fun v _ => e2 v, fun v _ => e3 v⟩
  · intro b hb
    obtain ⟨a, ha, hid, e1, e2, e3⟩ := h2 b hb
    exact Or.inl ⟨a, ha, hid, fun v _ => e1 v, fun v _ => e2 v, fun v _ => e3 v⟩

end Discret.Room

namespace Discret.RoomNode

/-- boolean form of `NewAfter`, for concrete instances -/
def newAfterB (old merged : RoomNode) (t : Int) : Bool :=
  merged.adminNodes.all (fun n => !isNew old.adminNodes n || decide (t < n.mdate)) &&
  merged.authNodes.all fun a =>
    match old.authNodes.filter (·.node.id = a.node.id) with
    | [] => a.userNodes.all (fun n => decide (t < n.mdate)) && a.userAdminNodes.all (fun n => decide (t < n.mdate)) &&
            a.rightNodes.all (fun n => decide (t < n.mdate))
    | os => os.all fun o =>
            a.userNodes.all (fun n => !isNew o.userNodes n || decide (t < n.mdate)) &&
            a.userAdminNodes.all (fun n => !isNew o.userAdminNodes n || decide (t < n.mdate)) &&
            a.rightNodes.all (fun n => !isNew o.rightNodes n || decide (t < n.mdate))

theorem newAfter_of_bool {old merged : RoomNode} {t : Int} (h : newAfterB old merged t = true) : NewAfter old merged t := by
  unfold newAfterB at h
  simp only [Bool.and_eq_true, List.all_eq_true, Bool.or_eq_true, Bool.not_eq_true', decide_eq_true_eq] at h
  obtain ⟨ha, hg⟩ := h
  refine ⟨?_, ?_, ?_⟩
  · intro n hn hnew
    rcases ha n hn with h | h
    · rw [hnew] at h; cases h
    · exact h
  · intro a hma o ho hid
    have hmem : o ∈ old.authNodes.filter (·.node.id = a.node.id) := List.mem_filter.mpr ⟨ho, by simpa using hid⟩
    have hga := hg a hma
    split at hga
    · next he => rw [he] at hmem; cases hmem
    · simp only [List.all_eq_true, Bool.and_eq_true, Bool.or_eq_true, Bool.not_eq_true', decide_eq_true_eq] at hga
      obtain ⟨⟨h1, h2⟩, h3⟩ := hga o hmem
      refine ⟨?_, ?_, ?_⟩
      · intro n hn hnew; rcases h1 n hn with h | h
        · rw [hnew] at h; cases h
        · exact h
      · intro n hn hnew; rcases h2 n hn with h | h
        · rw [hnew] at h; cases h
        · exact h
      · intro n hn hnew; rcases h3 n hn with h | h
        · rw [hnew] at h; cases h
        · exact h
  · intro a hma hno
    have he : old.authNodes.filter (·.node.id = a.node.id) = [] := by
      rw [List.filter_eq_nil_iff]
      intro o ho
      rw [List.any_eq_false] at hno
      exact hno o ho
    have hga := hg a hma
    rw [he] at hga
    simp only [List.all_eq_true, Bool.and_eq_true, decide_eq_true_eq] at hga
    exact ⟨hga.1.1, hga.1.2, hga.2⟩

end Discret.RoomNode
