import DiscretModel.Model.Sync
/-
The deletion records of one answer: one message keyed by row id (before the repair) or sub-batches in which every row
id occurs once (`GraphDatabaseService::delete_nodes`). Whatever the switch, only records of the answer are applied, one
after the other; with the repair every record of the answer is applied.
-/
namespace Discret.Sync
open Discret.DailyLog

theorem foldl_preserves_mem {α β : Type} (P : β → Prop) (l : List α) (f : β → α → β) (b : β) (hb : P b)
    (hf : ∀ b a, a ∈ l → P b → P (f b a)) : P (l.foldl f b) := by
  induction l generalizing b with
  | nil => exact hb
  | cons a t ih =>
    exact ih (f b a) (hf b a List.mem_cons_self hb) (fun b' a' ha' => hf b' a' (List.mem_cons_of_mem _ ha'))

theorem mem_dedupById {x : NTomb} {l : List NTomb} (h : x ∈ dedupById l) : x ∈ l := by
  induction l with
  | nil => cases h
  | cons a t ih =>
    simp only [dedupById] at h
    split at h
    · exact List.mem_cons_of_mem _ (ih h)
    · rcases List.mem_cons.mp h with e | e
      · rw [e]; exact List.mem_cons_self
      · exact List.mem_cons_of_mem _ (ih e)

theorem mem_firstOfEachId (ts : List NTomb) : ∀ (seen : List Nat) (x : NTomb),
    x ∈ ts ↔ x ∈ (firstOfEachId ts seen).1 ∨ x ∈ (firstOfEachId ts seen).2 := by
  induction ts with
  | nil => intro seen x; simp [firstOfEachId]
  | cons t rest ih =>
    intro seen x
    simp only [firstOfEachId]
    split
    · simp only [List.mem_cons, ih seen x]
      constructor
      · rintro (h | h | h)
        · exact Or.inr (Or.inl h)
        · exact Or.inl h
        · exact Or.inr (Or.inr h)
      · rintro (h | h | h)
        · exact Or.inr (Or.inl h)
        · exact Or.inl h
        · exact Or.inr (Or.inr h)
    · simp only [List.mem_cons, ih (t.id :: seen) x]
      constructor
      · rintro (h | h | h)
        · exact Or.inl (Or.inl h)
        · exact Or.inl (Or.inr h)
        · exact Or.inr h
      · rintro ((h | h) | h)
        · exact Or.inl h
        · exact Or.inr (Or.inl h)
        · exact Or.inr (Or.inr h)

theorem length_firstOfEachId (ts : List NTomb) : ∀ (seen : List Nat),
    (firstOfEachId ts seen).1.length + (firstOfEachId ts seen).2.length = ts.length := by
  induction ts with
  | nil => intro seen; rfl
  | cons t rest ih =>
    intro seen
    simp only [firstOfEachId]
    split
    · have := ih seen; simp only [List.length_cons]; omega
    · have := ih (t.id :: seen); simp only [List.length_cons]; omega

/-- a pass over a non-empty answer takes at least its first record -/
theorem rest_shorter (t : NTomb) (rest : List NTomb) :
    (firstOfEachId (t :: rest) []).2.length < (t :: rest).length := by
  have := length_firstOfEachId (t :: rest) []
  have h1 : (firstOfEachId (t :: rest) []).1.length ≥ 1 := by
    simp [firstOfEachId]
  omega

theorem mem_of_mem_subBatches : ∀ (fuel : Nat) (ts b : List NTomb) (x : NTomb),
    b ∈ subBatches fuel ts → x ∈ b → x ∈ ts := by
  intro fuel
  induction fuel with
  | zero => intro ts b x hb; cases hb
  | succ k ih =>
    intro ts b x hb hx
    simp only [subBatches] at hb
    split at hb
    · cases hb
    · rcases List.mem_cons.mp hb with e | e
      · rw [e] at hx; exact (mem_firstOfEachId ts [] x).mpr (Or.inl hx)
      · exact (mem_firstOfEachId ts [] x).mpr (Or.inr (ih _ b x e hx))

/-- with enough fuel every record of the answer is in some sub-batch -/
theorem mem_subBatches_flatten : ∀ (fuel : Nat) (ts : List NTomb), ts.length ≤ fuel → ∀ x,
    x ∈ (subBatches fuel ts).flatten ↔ x ∈ ts := by
  intro fuel
  induction fuel with
  | zero =>
    intro ts hl x
    have : ts = [] := List.eq_nil_of_length_eq_zero (by omega)
    subst this; simp [subBatches]
  | succ k ih =>
    intro ts hl x
    cases ts with
    | nil => simp [subBatches]
    | cons t rest =>
      have hlt := rest_shorter t rest
      simp only [subBatches, List.isEmpty_cons, Bool.false_eq_true, ↓reduceIte, List.flatten_cons, List.mem_append]
      rw [ih _ (by simp only [List.length_cons] at hl hlt ⊢; omega) x]
      exact (mem_firstOfEachId (t :: rest) [] x).symm

theorem foldl_flatten' {α β : Type} (f : β → α → β) : ∀ (l : List (List α)) (b : β),
    l.flatten.foldl f b = l.foldl (fun b x => x.foldl f b) b := by
  intro l
  induction l with
  | nil => intro b; rfl
  | cons a t ih => intro b; simp only [List.flatten_cons, List.foldl_append, List.foldl_cons, ih]

/-- **whatever the batching**: a property of replicas that every applied record of the answer preserves holds after
    the deletion records of the day -/
theorem applyNTombs_induct (d : Defects) (rights : Rights) (ts : List NTomb) (P : Replica → Prop) (dst : Replica)
    (h0 : P dst) (hstep : ∀ r t, t ∈ ts → P r → P (applyNTomb d r t)) : P (applyNTombs d rights dst ts) := by
  unfold applyNTombs
  split
  · refine foldl_preserves_mem P _ _ _ h0 ?_
    intro r t ht hr
    exact hstep r t (mem_dedupById (List.mem_filter.mp ht).1) hr
  · refine foldl_preserves_mem P _ _ _ h0 ?_
    intro r b hb hr
    refine foldl_preserves_mem P _ _ _ hr ?_
    intro r' t ht hr'
    exact hstep r' t (mem_of_mem_subBatches _ ts b t hb (List.mem_filter.mp ht).1) hr'

/-- when no record is refused, the repaired code applies every record of the answer, one after the other, in the
    order of the sub-batches -/
theorem applyNTombs_all (d : Defects) (hK : d.deletionBatchKeyedById = false) (rights : Rights)
    (hall : ∀ r l, validNTombs rights r l = l) (dst : Replica) (ts : List NTomb) :
    applyNTombs d rights dst ts = ((subBatches ts.length ts).flatten).foldl (applyNTomb d) dst := by
  unfold applyNTombs
  simp only [hK, Bool.false_eq_true, ↓reduceIte, hall]
  rw [foldl_flatten']

end Discret.Sync
