import DiscretModel.Lemmas.Ingest
/-
C02: every difference between the tables before and after a synchronised day is accounted for
by a received record that was entitled to cause it (for any setting of the switches).
-/
namespace Discret.Ingest
open Discret.Room (Key Ent RightType)

theorem st2_nodes_sub {d : Defects} {s : Inst} {room : Nat} {b : Batch} {x : NodeRow}
    (hx : x ∈ (st2 d s room b).nodes) : x ∈ s.nodes := by
  have := foldl_applyNodeDel_sublist
    (L := (dedupDel (keepNodeDels d room b.nodeDels)).filter fun r => nodeDelAccepted d (st1 d s room b) r.entry) (s := st1 d s room b)
  have h := this.subset hx
  rw [(st1_fields d s room b).2.1] at h
  exact h

/-- a row present after the day and not before is a received row that was entitled to be stored -/
theorem day_new_rows {d : Defects} {s : Inst} {room : Nat} {b : Batch} {x : NodeRow}
    (hx : x ∈ (syncDay d s room b).1.nodes) (hnew : x ∉ s.nodes) :
    ∃ n ∈ b.nodes, n.row = x ∧ NodeOkD d (st2 d s room b) room n := by
  have hn2 : x ∉ (st2 d s room b).nodes := fun h => hnew (st2_nodes_sub h)
  rcases syncDay_cases d s room b with h | ⟨_, h⟩ | ⟨_, _, h⟩ | ⟨_, _, h3, h⟩ | ⟨_, _, h3, _, h⟩ <;> rw [h] at hx
  · exact absurd hx hnew
  · rw [(st1_fields d s room b).2.1] at hx; exact absurd hx hnew
  · exact absurd hx hn2
  · exact nodeStage_new h3 hx hn2
  · rw [(edgeStage_fields d _ room b.edges).2.1] at hx
    exact nodeStage_new h3 hx hn2

/-- a row present before the day and not after was deleted by an entitled deletion record of its
    room and id, or overwritten by an entitled received row of its id -/
theorem day_removed_rows {d : Defects} {s : Inst} {room : Nat} {b : Batch} {x : NodeRow}
    (hn : NodupIds s.nodes) (hx : x ∈ s.nodes) (hgone : x ∉ (syncDay d s room b).1.nodes) :
    (∃ r ∈ b.nodeDels, x.room = some r.entry.room ∧ x.id = r.entry.id ∧ NodeDelOkD d (st1 d s room b) room r) ∨
    (∃ n ∈ b.nodes, n.row.id = x.id ∧ localRow (st2 d s room b).nodes n.row.id = some x ∧
      NodeOkD d (st2 d s room b) room n) := by
  have hx1 : x ∈ (st1 d s room b).nodes := by rw [(st1_fields d s room b).2.1]; exact hx
  have viaDel : (∀ r ∈ keepNodeDels d room b.nodeDels, r.sigOk = true) → x ∉ (st2 d s room b).nodes →
      ∃ r ∈ b.nodeDels, x.room = some r.entry.room ∧ x.id = r.entry.id ∧ NodeDelOkD d (st1 d s room b) room r := by
    intro h2 hg
    obtain ⟨r, hr, h⟩ := (deleteNodes_sound (d := d) (s := st1 d s room b) (room := room) h2
      (fun r hr => (keepNodeDels_sub hr).2)).2.2.2.2.1 x hx1 hg
    exact ⟨r, (keepNodeDels_sub hr).1, h⟩
  have viaRow : (∀ r ∈ keepNodeDels d room b.nodeDels, r.sigOk = true) → (∀ n ∈ b.nodes, n.sigOk = true) →
      x ∉ (st3 d s room b).nodes →
      ((∃ r ∈ b.nodeDels, x.room = some r.entry.room ∧ x.id = r.entry.id ∧ NodeDelOkD d (st1 d s room b) room r) ∨
       (∃ n ∈ b.nodes, n.row.id = x.id ∧ localRow (st2 d s room b).nodes n.row.id = some x ∧
         NodeOkD d (st2 d s room b) room n)) := by
    intro h2 h3 hg
    by_cases h : x ∈ (st2 d s room b).nodes
    · exact Or.inr (nodeStage_removed (st2_nodup hn) h3 h hg)
    · exact Or.inl (viaDel h2 h)
  rcases syncDay_cases d s room b with h | ⟨_, h⟩ | ⟨_, h2, h⟩ | ⟨_, h2, h3, h⟩ | ⟨_, h2, h3, _, h⟩ <;> rw [h] at hgone
  · exact absurd hx hgone
  · exact absurd hx1 hgone
  · exact Or.inl (viaDel h2 hgone)
  · exact viaRow h2 h3 hgone
  · rw [(edgeStage_fields d _ room b.edges).2.1] at hgone
    exact viaRow h2 h3 hgone

theorem st1_edges_sub {d : Defects} {s : Inst} {room : Nat} {b : Batch} {x : EdgeRow}
    (hx : x ∈ (st1 d s room b).edges) : x ∈ s.edges := by
  obtain ⟨_, _, _, h4, _⟩ := foldl_applyEdgeDel
    (L := (keepEdgeDels d room b.edgeDels).filter fun r => edgeDelAccepted d s r.entry) (s := s)
  exact ((h4 x).mp hx).1

/-- a reference present after the day and not before is a received reference that was entitled to be
    stored; what it replaced (`prev`) is an older reference or an earlier one of the batch -/
theorem day_new_refs {d : Defects} {s : Inst} {room : Nat} {b : Batch} {x : EdgeRow}
    (hx : x ∈ (syncDay d s room b).1.edges) (hnew : x ∉ s.edges) :
    ∃ e ∈ b.edges, e.row = x ∧ ∃ prev, EdgeOkD d (st3 d s room b) room prev e ∧
      ∀ p, prev = some p → edgeKeyEq e.row p = true ∧ (p ∈ (st3 d s room b).edges ∨ ∃ e' ∈ b.edges, e'.row = p) := by
  have hn1 : x ∉ (st1 d s room b).edges := fun h => hnew (st1_edges_sub h)
  rcases syncDay_cases d s room b with h | ⟨_, h⟩ | ⟨_, _, h⟩ | ⟨_, _, _, h⟩ | ⟨_, _, _, h4, h⟩ <;> rw [h] at hx
  · exact absurd hx hnew
  · exact absurd hx hn1
  · rw [(st2_fields d s room b).2.1] at hx; exact absurd hx hn1
  · rw [(st3_fields d s room b).2.1] at hx; exact absurd hx hn1
  · have hn3 : x ∉ (st3 d s room b).edges := by rw [(st3_fields d s room b).2.1]; exact hn1
    exact addEdgesLoop_new h4 hx hn3

/-- a reference present before the day and not after was deleted by an entitled record matching it,
    or replaced by an entitled received reference with the same source, label and target -/
theorem day_removed_refs {d : Defects} {s : Inst} {room : Nat} {b : Batch} {x : EdgeRow}
    (hx : x ∈ s.edges) (hgone : x ∉ (syncDay d s room b).1.edges) :
    (∃ r ∈ b.edgeDels, edgeMatches r.entry x = true ∧ EdgeDelOkD d s room r) ∨
    (∃ e ∈ b.edges, edgeKeyEq e.row x = true ∧ ∃ p, edgeKeyEq e.row p = true ∧
      EdgeOkD d (st3 d s room b) room (some p) e ∧ (p ∈ (st3 d s room b).edges ∨ ∃ e' ∈ b.edges, e'.row = p)) := by
  have viaDel : (∀ r ∈ keepEdgeDels d room b.edgeDels, r.sigOk = true) → x ∉ (st1 d s room b).edges →
      ∃ r ∈ b.edgeDels, edgeMatches r.entry x = true ∧ EdgeDelOkD d s room r := by
    intro h1 hg
    obtain ⟨r, hr, h⟩ := (deleteEdges_sound (d := d) (s := s) (room := room) h1
      (fun r hr => (keepEdgeDels_sub hr).2)).2.2.2.2.1 x hx hg
    exact ⟨r, (keepEdgeDels_sub hr).1, h⟩
  rcases syncDay_cases d s room b with h | ⟨h1, h⟩ | ⟨h1, _, h⟩ | ⟨h1, _, _, h⟩ | ⟨h1, _, _, h4, h⟩ <;> rw [h] at hgone
  · exact absurd hx hgone
  · exact Or.inl (viaDel h1 hgone)
  · rw [(st2_fields d s room b).2.1] at hgone; exact Or.inl (viaDel h1 hgone)
  · rw [(st3_fields d s room b).2.1] at hgone; exact Or.inl (viaDel h1 hgone)
  · by_cases hin : x ∈ (st1 d s room b).edges
    · have hin3 : x ∈ (st3 d s room b).edges := by rw [(st3_fields d s room b).2.1]; exact hin
      exact Or.inr (addEdgesLoop_removed h4 hin3 hgone)
    · exact Or.inl (viaDel h1 hin)

/-- the deletion logs only gain entitled records -/
theorem day_new_node_log {d : Defects} {s : Inst} {room : Nat} {b : Batch} {t : NodeDel}
    (ht : t ∈ (syncDay d s room b).1.nodeLog) (hnew : t ∉ s.nodeLog) :
    ∃ r ∈ b.nodeDels, r.entry = t ∧ NodeDelOkD d (st1 d s room b) room r := by
  have hn1 : t ∉ (st1 d s room b).nodeLog := by rw [(st1_fields d s room b).2.2]; exact hnew
  have via : (∀ r ∈ keepNodeDels d room b.nodeDels, r.sigOk = true) → t ∈ (st2 d s room b).nodeLog →
      ∃ r ∈ b.nodeDels, r.entry = t ∧ NodeDelOkD d (st1 d s room b) room r := fun h2 h => by
    obtain ⟨r, hr, h'⟩ := (deleteNodes_sound (d := d) (s := st1 d s room b) (room := room) h2
      (fun r hr => (keepNodeDels_sub hr).2)).2.2.2.2.2 t h hn1
    exact ⟨r, (keepNodeDels_sub hr).1, h'⟩
  rcases syncDay_cases d s room b with h | ⟨_, h⟩ | ⟨_, h2, h⟩ | ⟨_, h2, _, h⟩ | ⟨_, h2, _, _, h⟩ <;> rw [h] at ht
  · exact absurd ht hnew
  · exact absurd ht hn1
  · exact via h2 ht
  · rw [(st3_fields d s room b).2.2.1] at ht; exact via h2 ht
  · rw [(edgeStage_fields d _ room b.edges).2.2.1, (st3_fields d s room b).2.2.1] at ht; exact via h2 ht

theorem day_new_edge_log {d : Defects} {s : Inst} {room : Nat} {b : Batch} {t : EdgeDel}
    (ht : t ∈ (syncDay d s room b).1.edgeLog) (hnew : t ∉ s.edgeLog) :
    ∃ r ∈ b.edgeDels, r.entry = t ∧ EdgeDelOkD d s room r := by
  have via : (∀ r ∈ keepEdgeDels d room b.edgeDels, r.sigOk = true) → t ∈ (st1 d s room b).edgeLog →
      ∃ r ∈ b.edgeDels, r.entry = t ∧ EdgeDelOkD d s room r := fun h1 h => by
    obtain ⟨r, hr, h'⟩ := (deleteEdges_sound (d := d) (s := s) (room := room) h1
      (fun r hr => (keepEdgeDels_sub hr).2)).2.2.2.2.2 t h hnew
    exact ⟨r, (keepEdgeDels_sub hr).1, h'⟩
  rcases syncDay_cases d s room b with h | ⟨h1, h⟩ | ⟨h1, _, h⟩ | ⟨h1, _, _, h⟩ | ⟨h1, _, _, _, h⟩ <;> rw [h] at ht
  · exact absurd ht hnew
  · exact via h1 ht
  · rw [(st2_fields d s room b).2.2] at ht; exact via h1 ht
  · rw [(st3_fields d s room b).2.2.2] at ht; exact via h1 ht
  · rw [(edgeStage_fields d _ room b.edges).2.2.2, (st3_fields d s room b).2.2.2] at ht; exact via h1 ht

/-! ### a rejected record leaves no trace; one record at a time -/

theorem nodeStage_eta (d : Defects) (s : Inst) (room : Nat) (ns : List InNode) :
    (nodeStage d s room ns).1 = { s with nodes := (nodeStage d s room ns).1.nodes } := rfl

/-- one received row: written over the local row of its id when its verdict is positive, and
    otherwise the state is exactly what it was -/
theorem nodeStage_single (d : Defects) (s : Inst) (room : Nat) (x : InNode) :
    (nodeStage d s room [x]).1 =
      if nodeVerdict d s room x then { s with nodes := writeNode s.nodes x.row (localRow s.nodes x.row.id) } else s := by
  rw [nodeStage_eta, nodeStage_eq_verdicts (by simp)]
  cases h : nodeVerdict d s room x <;> simp [h, writeNodes]

/-- removing a rejected row from the batch changes nothing -/
theorem nodeStage_drop_rejected {d : Defects} {s : Inst} {room : Nat} {b1 b2 : List InNode} {x : InNode}
    (hd : ((b1 ++ x :: b2).map (·.row.id)).Nodup) (hv : nodeVerdict d s room x = false) :
    (nodeStage d s room (b1 ++ x :: b2)).1 = (nodeStage d s room (b1 ++ b2)).1 := by
  have hd' : ((b1 ++ b2).map (·.row.id)).Nodup := by
    refine List.Nodup.sublist (List.Sublist.map _ ?_) hd
    exact List.Sublist.append (List.Sublist.refl _) (List.sublist_cons_self _ _)
  rw [nodeStage_eta, nodeStage_eq_verdicts hd, nodeStage_eta d s room (b1 ++ b2), nodeStage_eq_verdicts hd']
  simp [List.filter_append, hv]

theorem edgeStage_single (d : Defects) (s : Inst) (room : Nat) (e : InEdge) :
    (edgeStage d s room [e]).1 =
      if edgeAccepted d s room s.edges e then { s with edges := writeEdge s.edges e.row } else s := by
  unfold edgeStage addEdgesLoop
  cases h : edgeAccepted d s room s.edges e <;> simp [addEdgesLoop]

theorem deleteNodes_single (d : Defects) (s : Inst) (r : InNodeDel) :
    deleteNodes d s [r] = if nodeDelAccepted d s r.entry then applyNodeDel s r.entry else s := by
  unfold deleteNodes
  cases h : nodeDelAccepted d s r.entry <;> simp [dedupDel, h]

theorem deleteEdges_single (d : Defects) (s : Inst) (r : InEdgeDel) :
    deleteEdges d s [r] = if edgeDelAccepted d s r.entry then applyEdgeDel s r.entry else s := by
  unfold deleteEdges
  cases h : edgeDelAccepted d s r.entry <;> simp [h]

theorem dedupDel_nodup {recs : List InNodeDel} (hd : (recs.map (·.entry.id)).Nodup) : dedupDel recs = recs := by
  induction recs with
  | nil => rfl
  | cons x rest ih =>
    simp only [List.map_cons, List.nodup_cons] at hd
    unfold dedupDel
    have : rest.any (fun y => decide (y.entry.id = x.entry.id)) = false := by
      rw [List.any_eq_false]
      intro y hy
      have : x.entry.id ≠ y.entry.id := fun he => hd.1 (List.mem_map.mpr ⟨y, hy, he.symm⟩)
      simpa using fun h => this h.symm
    rw [this, ih hd.2]
    simp

/-! ### the guard under which a setting of the switches satisfies the statement -/

/-- no record of the batch has one of the shapes that the setting `d` of the switches leaves unchecked;
    every record is judged against the tables its stage sees -/
def dayGuardD (d : Defects) (s : Inst) (room : Nat) (b : Batch) : Bool :=
  b.edgeDels.all (edgeDelGuardD d s room) &&
  b.nodeDels.all (nodeDelGuardD d (st1 d s room b) room) &&
  b.nodes.all (nodeGuardD d (st2 d s room b)) &&
  b.edges.all (edgeGuardD d (st3 d s room b) room ((st3 d s room b).edges ++ b.edges.map (·.row)))

/-- the guard of the code as it is -/
def dayGuard (s : Inst) (room : Nat) (b : Batch) : Bool := dayGuardD Defects.asImplemented s room b

/-- the guard that was needed before /repo 37a7f03, e73c9e7 and 4dd7eb7 -/
def dayGuardBeforeFixes (s : Inst) (room : Nat) (b : Batch) : Bool := dayGuardD Defects.beforeFixes s room b

/-- with every switch off nothing is excluded -/
theorem dayGuardD_none (s : Inst) (room : Nat) (b : Batch) : dayGuardD Defects.none s room b = true := by
  simp [dayGuardD, edgeDelGuardD_none, nodeDelGuardD_none, nodeGuardD_none, edgeGuardD_none]

/-! ### the switches a kind of record depends on -/

/-- every check that bears on a received row or node deletion record is in place -/
def Defects.rowsChecked (d : Defects) : Bool :=
  !(d.authEntityUnchecked || d.jsonAbsentUnchecked || d.entityChangeUnchecked || d.roomlessReplaceUnchecked ||
    d.delRoomUnchecked || d.delEntityUnchecked)

/-- every check that bears on a received reference or reference deletion record is in place -/
def Defects.refsChecked (d : Defects) : Bool :=
  !(d.authEntityUnchecked || d.edgeSourceUnchecked || d.edgeReplaceUnchecked || d.delRoomUnchecked ||
    d.edgeDelSourceUnchecked)

theorem NodeOkD.of_checked {d : Defects} {s : Inst} {room : Nat} {n : InNode} (c : d.rowsChecked = true)
    (h : NodeOkD d s room n) : NodeOk s room n := by
  simp only [Defects.rowsChecked, Bool.not_eq_true', Bool.or_eq_false_iff] at c
  obtain ⟨⟨⟨⟨⟨c1, c2⟩, c3⟩, c4⟩, _⟩, _⟩ := c
  refine h.guarded ?_
  unfold nodeGuardD
  cases localRow s.nodes n.row.id <;> simp [c1, c2, c3, c4]

theorem NodeDelOkD.of_checked {d : Defects} {s : Inst} {room : Nat} {r : InNodeDel} (c : d.rowsChecked = true)
    (h : NodeDelOkD d s room r) : NodeDelOk s room r := by
  simp only [Defects.rowsChecked, Bool.not_eq_true', Bool.or_eq_false_iff] at c
  obtain ⟨⟨⟨⟨⟨c1, _⟩, _⟩, _⟩, c5⟩, c6⟩ := c
  exact h.guarded (by simp [nodeDelGuardD, c1, c5, c6])

theorem EdgeDelOkD.of_checked {d : Defects} {s : Inst} {room : Nat} {r : InEdgeDel} (c : d.refsChecked = true)
    (h : EdgeDelOkD d s room r) : EdgeDelOk s room r := by
  simp only [Defects.refsChecked, Bool.not_eq_true', Bool.or_eq_false_iff] at c
  obtain ⟨⟨⟨⟨c1, _⟩, _⟩, c4⟩, c5⟩ := c
  exact h.guarded (by simp [edgeDelGuardD, c1, c4, c5])

theorem EdgeOkD.of_checked {d : Defects} {s : Inst} {room : Nat} {prev : Option EdgeRow} {e : InEdge}
    (c : d.refsChecked = true) (h : EdgeOkD d s room prev e) : EdgeOk s room prev e := by
  simp only [Defects.refsChecked, Bool.not_eq_true', Bool.or_eq_false_iff] at c
  obtain ⟨⟨⟨⟨c1, c2⟩, c3⟩, _⟩, _⟩ := c
  have hr := h.right
  rw [c3] at hr
  exact ⟨h.sig, h.known, h.data c1, h.source c2, hr⟩

end Discret.Ingest
