import DiscretModel.Lemmas.Ingest
/-
C02: every difference between the tables before and after a synchronised day is accounted for
by a received record that was entitled to cause it (for any setting of the switches).
-/
namespace Discret.Ingest
open Discret.Room (Key Ent RightType)

theorem st2_nodes_sub {d : Defects} {s : Inst} {room : Nat} {b : Batch} {x : NodeRow}
    (hx : x ∈ (st2 d s room b).nodes) : x ∈ s.nodes := by
  have h := (deleteNodes_sublist d (st1 d s room b) (keepNodeDels d room b.nodeDels)).subset hx
  rw [(st1_fields d s room b).2.1] at h
  exact h

theorem hasRight_of_rooms {s si : Inst} (h : si.rooms = s.rooms) {r : Nat} {k : Key} {e : Ent} {dt : Int} {rt : RightType}
    (hr : HasRight si r k e dt rt) : HasRight s r k e dt rt := by
  obtain ⟨rm, h1, h2, h3, h4⟩ := hr
  refine ⟨rm, h ▸ h1, h2, ?_, h4⟩
  unfold findRoom at h3 ⊢
  rw [← h]; exact h3

/-- a record judged at its turn, when the row it names was still there, is judged as against the tables of the stage
    (row ids are unique, so the local row of that id is the same one) -/
theorem NodeDelOkD.of_turn {d : Defects} {s si : Inst} {room : Nat} {r : InNodeDel} {x : NodeRow}
    (hn : NodupIds s.nodes) (ht : Turn s si) (hx : x ∈ si.nodes) (hid : x.id = r.entry.id)
    (h : NodeDelOkD d si room r) : NodeDelOkD d s room r := by
  have hni : NodupIds si.nodes := List.Nodup.sublist (List.Sublist.map _ ht.2) hn
  have e1 : localRow si.nodes r.entry.id = some x := by rw [← hid]; exact localRow_of_mem hni hx
  have e2 : localRow s.nodes r.entry.id = some x := by rw [← hid]; exact localRow_of_mem hn (ht.2.subset hx)
  refine ⟨h.sig, h.inRoom, h.known, h.data, ?_, ?_⟩
  · intro hd l hl; rw [e2] at hl; exact h.sameEntity hd l (by rw [e1]; exact hl)
  · have := hasRight_of_rooms ht.1 h.right
    rw [e1] at this; rw [e2]; exact this

/-- a row present after the day and not before is a received row that was entitled to be stored -/
theorem day_new_rows {d : Defects} {s : Inst} {room : Nat} {b : Batch} {x : NodeRow}
    (hx : x ∈ (syncDay d s room b).1.nodes) (hnew : x ∉ s.nodes) :
    ∃ n ∈ b.nodes, n.row = x ∧ NodeOkD d (st2 d s room b) room n := by
  have hn2 : x ∉ (st2 d s room b).nodes := fun h => hnew (st2_nodes_sub h)
  rcases syncDay_cases d s room b with h | ⟨_, h⟩ | ⟨_, _, h⟩ | ⟨_, _, h3, h⟩ | ⟨_, _, h3, _, h⟩ <;> rw [h] at hx
  · exact absurd hx hnew
  · rw [(st1_fields d s room b).2.1] at hx; exact absurd hx hnew
  · exact absurd hx hn2
  · exact nodeStage_new h3 hx hn2
  · rw [(edgeStage_fields d _ room b.edges).2.1] at hx
    exact nodeStage_new h3 hx hn2

/-- once announced ids that carry a deletion record of the room are not requested (#18 repaired), a row that appears
    during the day carries none in the tables as they are after the deletion records of the day -/
theorem day_new_rows_not_deleted {d : Defects} {s : Inst} {room : Nat} {b : Batch} {x : NodeRow}
    (hd : d.announcedDeletedRequested = false)
    (hx : x ∈ (syncDay d s room b).1.nodes) (hnew : x ∉ s.nodes) : deletedIn (st2 d s room b) room x.id = false := by
  have hn2 : x ∉ (st2 d s room b).nodes := fun h => hnew (st2_nodes_sub h)
  rcases syncDay_cases d s room b with h | ⟨_, h⟩ | ⟨_, _, h⟩ | ⟨_, _, _, h⟩ | ⟨_, _, _, _, h⟩ <;> rw [h] at hx
  · exact absurd hx hnew
  · rw [(st1_fields d s room b).2.1] at hx; exact absurd hx hnew
  · exact absurd hx hn2
  · exact nodeStage_new_gate hd hx hn2
  · rw [(edgeStage_fields d _ room b.edges).2.1] at hx
    exact nodeStage_new_gate hd hx hn2

/-- a row present before the day and not after was deleted by an entitled deletion record of its
    room and id, or overwritten by an entitled received row of its id -/
theorem day_removed_rows {d : Defects} {s : Inst} {room : Nat} {b : Batch} {x : NodeRow}
    (hn : NodupIds s.nodes) (hx : x ∈ s.nodes) (hgone : x ∉ (syncDay d s room b).1.nodes) :
    (∃ r ∈ b.nodeDels, x.room = some r.entry.room ∧ x.id = r.entry.id ∧ NodeDelOkD d (st1 d s room b) room r) ∨
    (∃ n ∈ b.nodes, n.row.id = x.id ∧ localRow (st2 d s room b).nodes n.row.id = some x ∧
      NodeOkD d (st2 d s room b) room n) := by
  have hx1 : x ∈ (st1 d s room b).nodes := by rw [(st1_fields d s room b).2.1]; exact hx
  have viaDel : (∀ r ∈ keepNodeDels d room b.nodeDels, r.sigOk = true) → x ∉ (st2 d s room b).nodes →
      ∃ r ∈ b.nodeDels, x.room = some r.entry.room ∧ x.id = r.entry.id ∧ NodeDelOkD d (st1 d s room b) room r := by
    intro h2 hg
    obtain ⟨r, hr, e1, e2, si, hti, hxi, hok⟩ := (deleteNodes_sound (d := d) (s := st1 d s room b) (room := room) h2
      (fun r hr => (keepNodeDels_sub hr).2)).2.2.2.2.1 x hx1 hg
    have hn1 : NodupIds (st1 d s room b).nodes := by rw [(st1_fields d s room b).2.1]; exact hn
    exact ⟨r, (keepNodeDels_sub hr).1, e1, e2, hok.of_turn hn1 hti hxi e2⟩
  have viaRow : (∀ r ∈ keepNodeDels d room b.nodeDels, r.sigOk = true) → (∀ n ∈ b.nodes, n.sigOk = true) →
      x ∉ (st3 d s room b).nodes →
      ((∃ r ∈ b.nodeDels, x.room = some r.entry.room ∧ x.id = r.entry.id ∧ NodeDelOkD d (st1 d s room b) room r) ∨
       (∃ n ∈ b.nodes, n.row.id = x.id ∧ localRow (st2 d s room b).nodes n.row.id = some x ∧
         NodeOkD d (st2 d s room b) room n)) := by
    intro h2 h3 hg
    by_cases h : x ∈ (st2 d s room b).nodes
    · exact Or.inr (nodeStage_removed (st2_nodup hn) h3 h hg)
    · exact Or.inl (viaDel h2 h)
  rcases syncDay_cases d s room b with h | ⟨_, h⟩ | ⟨_, h2, h⟩ | ⟨_, h2, h3, h⟩ | ⟨_, h2, h3, _, h⟩ <;> rw [h] at hgone
  · exact absurd hx hgone
  · exact absurd hx1 hgone
  · exact Or.inl (viaDel h2 hgone)
  · exact viaRow h2 h3 hgone
  · rw [(edgeStage_fields d _ room b.edges).2.1] at hgone
    exact viaRow h2 h3 hgone

theorem st1_edges_sub {d : Defects} {s : Inst} {room : Nat} {b : Batch} {x : EdgeRow}
    (hx : x ∈ (st1 d s room b).edges) : x ∈ s.edges := by
  obtain ⟨_, _, _, h4, _⟩ := foldl_applyEdgeDel
    (L := (keepEdgeDels d room b.edgeDels).filter fun r => edgeDelAccepted d s r.entry) (s := s)
  exact ((h4 x).mp hx).1

/-- a reference present after the day and not before is a received reference that was entitled to be
    stored; what it replaced (`prev`) is an older reference or an earlier one of the batch -/
theorem day_new_refs {d : Defects} {s : Inst} {room : Nat} {b : Batch} {x : EdgeRow}
    (hx : x ∈ (syncDay d s room b).1.edges) (hnew : x ∉ s.edges) :
    ∃ e ∈ b.edges, e.row = x ∧ ∃ prev, EdgeOkD d (st3 d s room b) room prev e ∧
      ∀ p, prev = some p → edgeKeyEq e.row p = true ∧ (p ∈ (st3 d s room b).edges ∨ ∃ e' ∈ b.edges, e'.row = p) := by
  have hn1 : x ∉ (st1 d s room b).edges := fun h => hnew (st1_edges_sub h)
  rcases syncDay_cases d s room b with h | ⟨_, h⟩ | ⟨_, _, h⟩ | ⟨_, _, _, h⟩ | ⟨_, _, _, h4, h⟩ <;> rw [h] at hx
  · exact absurd hx hnew
  · exact absurd hx hn1
  · rw [(st2_fields d s room b).2.1] at hx; exact absurd hx hn1
  · rw [(st3_fields d s room b).2.1] at hx; exact absurd hx hn1
  · have hn3 : x ∉ (st3 d s room b).edges := by rw [(st3_fields d s room b).2.1]; exact hn1
    exact addEdgesLoop_new h4 hx hn3

/-- a reference present before the day and not after was deleted by an entitled record matching it,
    or replaced by an entitled received reference with the same source, label and target -/
theorem day_removed_refs {d : Defects} {s : Inst} {room : Nat} {b : Batch} {x : EdgeRow}
    (hx : x ∈ s.edges) (hgone : x ∉ (syncDay d s room b).1.edges) :
    (∃ r ∈ b.edgeDels, edgeMatches r.entry x = true ∧ EdgeDelOkD d s room r) ∨
    (∃ e ∈ b.edges, edgeKeyEq e.row x = true ∧ ∃ p, edgeKeyEq e.row p = true ∧
      EdgeOkD d (st3 d s room b) room (some p) e ∧ (p ∈ (st3 d s room b).edges ∨ ∃ e' ∈ b.edges, e'.row = p)) := by
  have viaDel : (∀ r ∈ keepEdgeDels d room b.edgeDels, r.sigOk = true) → x ∉ (st1 d s room b).edges →
      ∃ r ∈ b.edgeDels, edgeMatches r.entry x = true ∧ EdgeDelOkD d s room r := by
    intro h1 hg
    obtain ⟨r, hr, h⟩ := (deleteEdges_sound (d := d) (s := s) (room := room) h1
      (fun r hr => (keepEdgeDels_sub hr).2)).2.2.2.2.1 x hx hg
    exact ⟨r, (keepEdgeDels_sub hr).1, h⟩
  rcases syncDay_cases d s room b with h | ⟨h1, h⟩ | ⟨h1, _, h⟩ | ⟨h1, _, _, h⟩ | ⟨h1, _, _, h4, h⟩ <;> rw [h] at hgone
  · exact absurd hx hgone
  · exact Or.inl (viaDel h1 hgone)
  · rw [(st2_fields d s room b).2.1] at hgone; exact Or.inl (viaDel h1 hgone)
  · rw [(st3_fields d s room b).2.1] at hgone; exact Or.inl (viaDel h1 hgone)
  · by_cases hin : x ∈ (st1 d s room b).edges
    · have hin3 : x ∈ (st3 d s room b).edges := by rw [(st3_fields d s room b).2.1]; exact hin
      exact Or.inr (addEdgesLoop_removed h4 hin3 hgone)
    · exact Or.inl (viaDel h1 hin)

/-- the deletion logs only gain entitled records; a node deletion record is judged against the tables as they are
    at its turn (`Turn`): the room definitions of the stage, and the rows of the stage that earlier records of the same
    answer have not deleted yet -/
theorem day_new_node_log {d : Defects} {s : Inst} {room : Nat} {b : Batch} {t : NodeDel}
    (ht : t ∈ (syncDay d s room b).1.nodeLog) (hnew : t ∉ s.nodeLog) :
    ∃ r ∈ b.nodeDels, r.entry = t ∧ ∃ si, Turn (st1 d s room b) si ∧ NodeDelOkD d si room r := by
  have hn1 : t ∉ (st1 d s room b).nodeLog := by rw [(st1_fields d s room b).2.2]; exact hnew
  have via : (∀ r ∈ keepNodeDels d room b.nodeDels, r.sigOk = true) → t ∈ (st2 d s room b).nodeLog →
      ∃ r ∈ b.nodeDels, r.entry = t ∧ ∃ si, Turn (st1 d s room b) si ∧ NodeDelOkD d si room r := fun h2 h => by
    obtain ⟨r, hr, h'⟩ := (deleteNodes_sound (d := d) (s := st1 d s room b) (room := room) h2
      (fun r hr => (keepNodeDels_sub hr).2)).2.2.2.2.2 t h hn1
    exact ⟨r, (keepNodeDels_sub hr).1, h'⟩
  rcases syncDay_cases d s room b with h | ⟨_, h⟩ | ⟨_, h2, h⟩ | ⟨_, h2, _, h⟩ | ⟨_, h2, _, _, h⟩ <;> rw [h] at ht
  · exact absurd ht hnew
  · exact absurd ht hn1
  · exact via h2 ht
  · rw [(st3_fields d s room b).2.2.1] at ht; exact via h2 ht
  · rw [(edgeStage_fields d _ room b.edges).2.2.1, (st3_fields d s room b).2.2.1] at ht; exact via h2 ht

theorem day_new_edge_log {d : Defects} {s : Inst} {room : Nat} {b : Batch} {t : EdgeDel}
    (ht : t ∈ (syncDay d s room b).1.edgeLog) (hnew : t ∉ s.edgeLog) :
    ∃ r ∈ b.edgeDels, r.entry = t ∧ EdgeDelOkD d s room r := by
  have via : (∀ r ∈ keepEdgeDels d room b.edgeDels, r.sigOk = true) → t ∈ (st1 d s room b).edgeLog →
      ∃ r ∈ b.edgeDels, r.entry = t ∧ EdgeDelOkD d s room r := fun h1 h => by
    obtain ⟨r, hr, h'⟩ := (deleteEdges_sound (d := d) (s := s) (room := room) h1
      (fun r hr => (keepEdgeDels_sub hr).2)).2.2.2.2.2 t h hnew
    exact ⟨r, (keepEdgeDels_sub hr).1, h'⟩
  rcases syncDay_cases d s room b with h | ⟨h1, h⟩ | ⟨h1, _, h⟩ | ⟨h1, _, _, h⟩ | ⟨h1, _, _, _, h⟩ <;> rw [h] at ht
  · exact absurd ht hnew
  · exact via h1 ht
  · rw [(st2_fields d s room b).2.2] at ht; exact via h1 ht
  · rw [(st3_fields d s room b).2.2.2] at ht; exact via h1 ht
  · rw [(edgeStage_fields d _ room b.edges).2.2.2, (st3_fields d s room b).2.2.2] at ht; exact via h1 ht

/-! ### a rejected record leaves no trace; one record at a time -/

theorem nodeStage_eta (d : Defects) (s : Inst) (room : Nat) (ns : List InNode) :
    (nodeStage d s room ns).1 = { s with nodes := (nodeStage d s room ns).1.nodes } := rfl

/-- one received row: written over the local row of its id when its verdict is positive, and
    otherwise the state is exactly what it was -/
theorem nodeStage_single (d : Defects) (s : Inst) (room : Nat) (x : InNode) :
    (nodeStage d s room [x]).1 =
      if nodeVerdict d s room x then { s with nodes := writeNode s.nodes x.row (localRow s.nodes x.row.id) } else s := by
  rw [nodeStage_eta, nodeStage_eq_verdicts (by simp)]
  cases h : nodeVerdict d s room x <;> simp [h, writeNodes]

/-- removing a rejected row from the batch changes nothing -/
theorem nodeStage_drop_rejected {d : Defects} {s : Inst} {room : Nat} {b1 b2 : List InNode} {x : InNode}
    (hd : ((b1 ++ x :: b2).map (·.row.id)).Nodup) (hv : nodeVerdict d s room x = false) :
    (nodeStage d s room (b1 ++ x :: b2)).1 = (nodeStage d s room (b1 ++ b2)).1 := by
  have hd' : ((b1 ++ b2).map (·.row.id)).Nodup := by
    refine List.Nodup.sublist (List.Sublist.map _ ?_) hd
    exact List.Sublist.append (List.Sublist.refl _) (List.sublist_cons_self _ _)
  rw [nodeStage_eta, nodeStage_eq_verdicts hd, nodeStage_eta d s room (b1 ++ b2), nodeStage_eq_verdicts hd']
  simp [List.filter_append, hv]

theorem edgeStage_single (d : Defects) (s : Inst) (room : Nat) (e : InEdge) :
    (edgeStage d s room [e]).1 =
      if edgeAccepted d s room s.edges e then { s with edges := writeEdge s.edges e.row } else s := by
  unfold edgeStage addEdgesLoop
  cases h : edgeAccepted d s room s.edges e <;> simp [addEdgesLoop]

theorem deleteNodes_single (d : Defects) (s : Inst) (r : InNodeDel) :
    deleteNodes d s [r] = if nodeDelAccepted d s r.entry then applyNodeDel s r.entry else s := by
  unfold deleteNodes
  simp only [List.length_singleton, deleteNodesLoop, splitFirst, List.contains_nil, Bool.false_eq_true, if_false,
    List.isEmpty_nil, if_true, deleteBatch]
  cases h : nodeDelAccepted d s r.entry <;> simp [h]

theorem deleteEdges_single (d : Defects) (s : Inst) (r : InEdgeDel) :
    deleteEdges d s [r] = if edgeDelAccepted d s r.entry then applyEdgeDel s r.entry else s := by
  unfold deleteEdges
  cases h : edgeDelAccepted d s r.entry <;> simp [h]

/-- records with pairwise distinct row ids travel in one message: one verdict each, on the tables before the stage -/
theorem deleteNodes_nodup_ids (d : Defects) (s : Inst) {recs : List InNodeDel} (hd : (recs.map (·.entry.id)).Nodup) :
    deleteNodes d s recs = deleteBatch d s recs := by
  unfold deleteNodes
  cases recs with
  | nil => rfl
  | cons x t =>
    simp only [List.length_cons, deleteNodesLoop]
    rw [splitFirst_nodup hd (by intro r _ h; cases h)]
    simp

/-! ### the guard under which a setting of the switches satisfies the statement -/

/-- no record of the batch has one of the shapes that the setting `d` of the switches leaves unchecked;
    every record is judged against the tables its stage sees -/
def dayGuardD (d : Defects) (s : Inst) (room : Nat) (b : Batch) : Bool :=
  b.edgeDels.all (edgeDelGuardD d s room) &&
  b.nodeDels.all (nodeDelGuardD d (st1 d s room b) room) &&
  b.nodes.all (nodeGuardD d (st2 d s room b)) &&
  b.edges.all (edgeGuardD d (st3 d s room b) room ((st3 d s room b).edges ++ b.edges.map (·.row)))

/-- the guard of the code as it is -/
def dayGuard (s : Inst) (room : Nat) (b : Batch) : Bool := dayGuardD Defects.asImplemented s room b

/-- the guard that was needed before /repo 37a7f03, e73c9e7 and 4dd7eb7 -/
def dayGuardBeforeFixes (s : Inst) (room : Nat) (b : Batch) : Bool := dayGuardD Defects.beforeFixes s room b

/-- with every switch off nothing is excluded -/
theorem dayGuardD_none (s : Inst) (room : Nat) (b : Batch) : dayGuardD Defects.none s room b = true := by
  simp [dayGuardD, edgeDelGuardD_none, nodeDelGuardD_none, nodeGuardD_none, edgeGuardD_none]

/-- the guard of a node deletion record holds against the tables at its turn when it holds against the tables of
    the stage: the local row of its id, if still there, is the same row (unique ids) -/
theorem nodeDelGuardD_turn {d : Defects} {s si : Inst} {room : Nat} {r : InNodeDel} (hn : NodupIds s.nodes)
    (ht : Turn s si) (g : nodeDelGuardD d s room r = true) : nodeDelGuardD d si room r = true := by
  unfold nodeDelGuardD at g ⊢
  simp only [Bool.and_eq_true] at g ⊢
  refine ⟨g.1, ?_⟩
  rcases sw_or g.2 with h | h
  · simp [h]
  · cases hl : localRow si.nodes r.entry.id with
    | none => simp
    | some l =>
      have hm := (localRow_some hl)
      have : localRow s.nodes r.entry.id = some l := by rw [← hm.2]; exact localRow_of_mem hn (ht.2.subset hm.1)
      rw [this] at h
      simp only [Bool.or_eq_true, Bool.not_eq_true']
      exact Or.inr h

/-! ### the switches a kind of record depends on -/

/-- every check that bears on a received row or node deletion record is in place -/
def Defects.rowsChecked (d : Defects) : Bool :=
  !(d.authEntityUnchecked || d.jsonAbsentUnchecked || d.entityChangeUnchecked || d.roomlessReplaceUnchecked ||
    d.delRoomUnchecked || d.delEntityUnchecked)

/-- every check that bears on a received reference or reference deletion record is in place -/
def Defects.refsChecked (d : Defects) : Bool :=
  !(d.authEntityUnchecked || d.edgeSourceUnchecked || d.edgeReplaceUnchecked || d.delRoomUnchecked ||
    d.edgeDelSourceUnchecked)

theorem NodeOkD.of_checked {d : Defects} {s : Inst} {room : Nat} {n : InNode} (c : d.rowsChecked = true)
    (h : NodeOkD d s room n) : NodeOk s room n := by
  simp only [Defects.rowsChecked, Bool.not_eq_true', Bool.or_eq_false_iff] at c
  obtain ⟨⟨⟨⟨⟨c1, c2⟩, c3⟩, c4⟩, _⟩, _⟩ := c
  refine h.guarded ?_
  unfold nodeGuardD
  cases localRow s.nodes n.row.id <;> simp [c1, c2, c3, c4]

theorem NodeDelOkD.of_checked {d : Defects} {s : Inst} {room : Nat} {r : InNodeDel} (c : d.rowsChecked = true)
    (h : NodeDelOkD d s room r) : NodeDelOk s room r := by
  simp only [Defects.rowsChecked, Bool.not_eq_true', Bool.or_eq_false_iff] at c
  obtain ⟨⟨⟨⟨⟨c1, _⟩, _⟩, _⟩, c5⟩, c6⟩ := c
  exact h.guarded (by simp [nodeDelGuardD, c1, c5, c6])

theorem EdgeDelOkD.of_checked {d : Defects} {s : Inst} {room : Nat} {r : InEdgeDel} (c : d.refsChecked = true)
    (h : EdgeDelOkD d s room r) : EdgeDelOk s room r := by
  simp only [Defects.refsChecked, Bool.not_eq_true', Bool.or_eq_false_iff] at c
  obtain ⟨⟨⟨⟨c1, _⟩, _⟩, c4⟩, c5⟩ := c
  exact h.guarded (by simp [edgeDelGuardD, c1, c4, c5])

theorem EdgeOkD.of_checked {d : Defects} {s : Inst} {room : Nat} {prev : Option EdgeRow} {e : InEdge}
    (c : d.refsChecked = true) (h : EdgeOkD d s room prev e) : EdgeOk s room prev e := by
  simp only [Defects.refsChecked, Bool.not_eq_true', Bool.or_eq_false_iff] at c
  obtain ⟨⟨⟨⟨c1, c2⟩, c3⟩, _⟩, _⟩ := c
  have hr := h.right
  rw [c3] at hr
  exact ⟨h.sig, h.known, h.data c1, h.source c2, hr⟩

end Discret.Ingest
