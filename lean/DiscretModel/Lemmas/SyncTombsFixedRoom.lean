import DiscretModel.Lemmas.SyncTombsScoped
/-
C11 at the level of row ids for the code with #18 repaired, for histories in which a row keeps the room it was created
in (the histories of the property: creations, updates, reference changes, deletions, any pulls — no room move):
no replica ever stores a row whose id carries a deletion record on that replica. The room-scoping of the synchronised
deletion and of the deletion-log lookup is then immaterial, because every version and every deletion record of a row
name the same room.
-/
namespace Discret.Sync
open Discret.DailyLog

/-- every row and every node deletion record of the replica names the room `f` gives to its row id -/
def RoomFn (f : Nat → Nat) (r : Replica) : Prop :=
  (∀ n ∈ r.nodes, n.room = f n.id) ∧ (∀ t ∈ r.ntombs, t.room = f t.id)

theorem RoomFn.noZombie {f : Nat → Nat} {r : Replica} (hf : RoomFn f r) (h : NoZombieR r) : NoZombie r := by
  intro t ht n hn e
  apply h t ht n hn e
  rw [hf.1 n hn, hf.2 t ht, e]

theorem roomFn_congr {f : Nat → Nat} {r r' : Replica} (h : RoomFn f r)
    (hn : ∀ x ∈ r'.nodes, x ∈ r.nodes) (ht : ∀ x ∈ r'.ntombs, x ∈ r.ntombs) : RoomFn f r' :=
  ⟨fun n hn' => h.1 n (hn n hn'), fun t ht' => h.2 t (ht t ht')⟩

theorem empty_roomFn (f : Nat → Nat) : RoomFn f Replica.empty := by
  constructor
  · intro n hn; cases hn
  · intro t ht; cases ht

theorem mem_replaceNode' {n x : Node} {l : List Node} (h : x ∈ replaceNode n l) : x = n ∨ x ∈ l := by
  unfold replaceNode at h
  obtain ⟨y, hy, e⟩ := List.mem_map.mp h
  split at e
  · exact Or.inl e.symm
  · exact Or.inr (e ▸ hy)

theorem mem_putNode' {n x : Node} {l : List Node} (h : x ∈ putNode n l) : x = n ∨ x ∈ l := by
  unfold putNode at h
  split at h
  · exact mem_replaceNode' h
  · rcases List.mem_append.mp h with h | h
    · exact Or.inr h
    · exact Or.inl (by simpa using h)

/-! ### a pull from a source whose rows and records name the same rooms -/

section
variable {f : Nat → Nat}

theorem applyNTombs_roomFn (d : Defects) (rights : Rights) {dst : Replica} (h : RoomFn f dst) (ts : List NTomb)
    (hts : ∀ t ∈ ts, t.room = f t.id) : RoomFn f (applyNTombs d rights dst ts) := by
  refine applyNTombs_induct d rights ts (RoomFn f) dst h ?_
  intro r t ht hr
  unfold applyNTomb
  refine ⟨?_, ?_⟩
  · intro n hn
    exact hr.1 n (List.mem_filter.mp hn).1
  · intro u hu
    rcases mem_putNTomb hu with e | e
    · rw [e]; exact hts t ht
    · exact hr.2 u e

theorem ingestNode_roomFn (d : Defects) (rights : Rights) {r : Replica} (h : RoomFn f r) (n : Node)
    (old : Option Node) (hn : n.room = f n.id) : RoomFn f (ingestNode d rights r n old) := by
  unfold ingestNode
  split
  · refine ⟨?_, h.2⟩
    intro x hx
    rcases mem_putNode' hx with e | e
    · rw [e]; exact hn
    · exact h.1 x e
  · exact h

theorem syncDay_roomFn (d : Defects) (rights : Rights) {dst src : Replica} (hd : RoomFn f dst) (hs : RoomFn f src)
    (room ent day : Nat) : RoomFn f (syncDay d rights dst src room ent day).dst := by
  unfold syncDay
  simp only
  have h1 : ∀ ets : List ETomb, RoomFn f (if ets.isEmpty then dst else applyETombs rights dst ets) := by
    intro ets
    split
    · exact hd
    · obtain ⟨a, b⟩ := applyETombs_same rights dst ets
      exact roomFn_congr hd (fun x hx => a ▸ hx) (fun x hx => b ▸ hx)
  generalize (src.etombs.filter fun t => t.room = room && ent = 0 && dayOf t.ddate = day) = ets
  have z1 := h1 ets
  generalize (if ets.isEmpty then dst else applyETombs rights dst ets) = dst1 at z1
  generalize hnts : (sortBy (fun (a b : NTomb) => lexL [a.ddate, a.id, a.ent] [b.ddate, b.id, b.ent])
      (src.ntombs.filter fun t => t.room = room && t.ent = ent && dayOf t.ddate = day)) = nts
  have hntsrc : ∀ t ∈ nts, t.room = f t.id := by
    intro t ht
    rw [← hnts] at ht
    exact hs.2 t (List.mem_filter.mp ((mem_sortBy _ t _).mp ht)).1
  have z2 : RoomFn f (if nts.isEmpty then dst1 else applyNTombs d rights dst1 nts) := by
    split
    · exact z1
    · exact applyNTombs_roomFn d rights z1 nts hntsrc
  generalize (if nts.isEmpty then dst1 else applyNTombs d rights dst1 nts) = dst2 at z2
  split
  · exact z2
  · generalize hreq : ((src.nodes.filter fun n => n.room = room && n.ent = ent && dayOf n.mdate = day).filterMap
      fun n => (wanted d dst2 n).map fun o => (n, o)) = req
    have hreqsrc : ∀ x ∈ req, x.1.room = f x.1.id := by
      intro x hx
      rw [← hreq] at hx
      obtain ⟨n, hn, e⟩ := List.mem_filterMap.mp hx
      cases hw : wanted d dst2 n with
      | none => rw [hw] at e; cases e
      | some o =>
        rw [hw] at e
        simp only [Option.map_some, Option.some.injEq] at e
        rw [← e]; exact hs.1 n (List.mem_filter.mp hn).1
    have h3 : ∀ (l : List (Node × Option Node)) (r : Replica), (∀ x ∈ l, x.1.room = f x.1.id) → RoomFn f r →
        RoomFn f (l.foldl (fun r (x : Node × Option Node) => ingestNode d rights r x.1 x.2) r) := by
      intro l
      induction l with
      | nil => intro r _ hr; exact hr
      | cons a t ih =>
        intro r hl hr
        simp only [List.foldl_cons]
        exact ih _ (fun x hx => hl x (List.mem_cons_of_mem _ hx))
          (ingestNode_roomFn d rights hr a.1 a.2 (hl a List.mem_cons_self))
    have z3 := h3 req dst2 hreqsrc z2
    have h4 : ∀ (es : List Edge) (r : Replica), RoomFn f r →
        RoomFn f (es.foldl (fun r e => { r with edges := putEdge e r.edges }) r) := by
      intro es
      induction es with
      | nil => intro r hr; exact hr
      | cons a t ih =>
        intro r hr
        simp only [List.foldl_cons]
        exact ih _ (roomFn_congr hr (fun x hx => hx) (fun x hx => hx))
    exact h4 _ _ z3

theorem syncDays_roomFn (d : Defects) (rights : Rights) {src : Replica} (hs : RoomFn f src) (room : Nat)
    (l : List (Nat × Nat)) :
    ∀ (dst : Replica) (ch : Bool) (k : Nat), RoomFn f dst → RoomFn f (syncDays d rights src room l dst ch k).1 := by
  induction l with
  | nil => intro dst ch k h; exact h
  | cons a t ih =>
    intro dst ch k h
    obtain ⟨ent, day⟩ := a
    simp only [syncDays]
    exact ih _ _ _ (syncDay_roomFn d rights h hs room ent day)

theorem pull_roomFn (d : Defects) (rights : Rights) {dst src : Replica} (hd : RoomFn f dst) (hs : RoomFn f src)
    (room : Nat) : RoomFn f (pull d rights dst src room).dst := by
  have key : ∀ (x : Replica × Bool × Nat), RoomFn f x.1 →
      RoomFn f (if x.2.1 then { x.1 with log := recompute d x.1.sigs x.1.log } else x.1) := by
    intro x hx
    split
    · exact roomFn_congr hx (fun y hy => hy) (fun y hy => hy)
    · exact hx
  unfold pull
  simp only
  split
  · exact key _ (syncDays_roomFn d rights hs room _ dst false 0 hd)
  · split
    · split
      · exact key (_, true, _) (syncDays_roomFn d rights hs room _ dst false 0 hd)
      · exact key (dst, false, 0) hd
    · exact key (dst, false, 0) hd

/-- **one pull between replicas whose rows keep their room** (#18 repaired, every other switch as in the code): no
    row whose id carries a deletion record on the puller is stored, no deleted id is forgotten -/
theorem pull_noZombie_rooms {d : Defects} (hI : d.ingestIgnoresTombstones = false) (rights : Rights)
    {dst src : Replica} (h : NoZombie dst) (hd : RoomFn f dst) (hs : RoomFn f src) (room : Nat) :
    NoZombie (pull d rights dst src room).dst ∧ RoomFn f (pull d rights dst src room).dst ∧
      ∀ i ∈ dst.deadIds, i ∈ (pull d rights dst src room).dst.deadIds := by
  obtain ⟨z, m⟩ := pull_noZombieR hI rights src h.toR room
  have hr := pull_roomFn d rights hd hs room
  refine ⟨hr.noZombie z, hr, ?_⟩
  intro i hi
  simp only [Replica.deadIds] at hi ⊢
  obtain ⟨t, ht, e⟩ := List.mem_map.mp hi
  have := m (t.id, t.room) (List.mem_map.mpr ⟨t, ht, rfl⟩)
  obtain ⟨u, hu, eu⟩ := List.mem_map.mp this
  simp only [Prod.mk.injEq] at eu
  exact List.mem_map.mpr ⟨u, hu, eu.1.trans e⟩

/-! ### local writes that keep the room of a row -/

/-- a creation puts the row in the room `f` names, an update that names a room names that one -/
def WOp.keepsRoom (f : Nat → Nat) : WOp → Prop
  | .new row room _ _ _ => room = f row
  | .upd row _ _ (some room) => room = f row
  | _ => True

theorem effectOf_roomFn (d : Defects) (w : World) {snap cur : Replica} (hs : RoomFn f snap) (hc : RoomFn f cur)
    (p : Nat) (op : WOp) (hk : op.keepsRoom f) : RoomFn f (effectOf d w snap cur p op).cur := by
  have hrep : ∀ n : Node, n.room = f n.id → RoomFn f { cur with nodes := replaceNode n cur.nodes } := by
    intro n hn
    refine ⟨?_, hc.2⟩
    intro x hx
    rcases mem_replaceNode' hx with e | e
    · rw [e]; exact hn
    · exact hc.1 x e
  cases op with
  | new row room ent val sig =>
    refine ⟨?_, hc.2⟩
    intro n hn
    simp only [effectOf, opNew, List.mem_append, List.mem_singleton] at hn
    rcases hn with hn | hn
    · exact hc.1 n hn
    · subst hn; exact hk
  | upd row val sig room =>
    simp only [effectOf, opUpd]
    split
    · exact hc
    · rename_i old hf
      split
      · exact hc
      · obtain ⟨hm, hid⟩ := findNode_mem hf
        apply hrep
        simp only
        cases room with
        | none => exact hs.1 old hm
        | some r => simp only [Option.getD_some]; rw [hid]; exact hk
  | ref row to sig =>
    simp only [effectOf, opRef]
    split
    · exact hc
    · rename_i old hf
      split
      · exact hc
      · split
        · exact hc
        · split
          · exact hc
          · obtain ⟨hm, _⟩ := findNode_mem hf
            exact roomFn_congr (hrep { old with mdate := w.now, author := p, sig := sig } (hs.1 old hm))
              (fun x hx => hx) (fun x hx => hx)
  | unref row to sig dsig =>
    simp only [effectOf, opUnref]
    split
    · exact hc
    · rename_i old hf
      obtain ⟨hm, _⟩ := findNode_mem hf
      have hz := hrep { old with mdate := w.now, author := p, sig := sig } (hs.1 old hm)
      split
      · split
        · exact hz
        · exact hc
      · split
        · exact hc
        · exact roomFn_congr hz (fun x hx => hx) (fun x hx => hx)
  | del row dsig =>
    simp only [effectOf, opDel]
    split
    · exact hc
    · rename_i old hf
      split
      · exact hc
      · obtain ⟨hm, hid⟩ := findNode_mem hf
        refine ⟨?_, ?_⟩
        · intro n hn
          exact hc.1 n (List.mem_filter.mp hn).1
        · intro t ht
          rcases mem_putNTomb ht with e | e
          · rw [e]; simp only; rw [← hid]; exact hs.1 old hm
          · exact hc.2 t e

/-! ### the world of a case -/

def WRooms (f : Nat → Nat) (w : World) : Prop :=
  (∀ r ∈ w.peers, RoomFn f r) ∧ ∀ b, w.batch = some b → RoomFn f b.snap

theorem WRooms.peer {w : World} (h : WRooms f w) (p : Nat) : RoomFn f (w.peer p) := by
  unfold World.peer
  rw [List.getD_eq_getElem?_getD]
  cases hp : w.peers[p]? with
  | none => exact empty_roomFn f
  | some r => exact h.1 r (List.mem_of_getElem? hp)

theorem WRooms.setPeer {w : World} (h : WRooms f w) (p : Nat) {r : Replica} (hr : RoomFn f r) :
    WRooms f (w.setPeer p r) := by
  refine ⟨?_, h.2⟩
  intro x hx
  simp only [World.setPeer] at hx
  rcases List.mem_or_eq_of_mem_set hx with e | e
  · exact h.1 x e
  · rw [e]; exact hr

theorem log_roomFn {r : Replica} (h : RoomFn f r) (l : Log) : RoomFn f { r with log := l } :=
  roomFn_congr h (fun x hx => hx) (fun x hx => hx)

theorem commit_WRooms {w : World} (h : WRooms f w) : WRooms f w.commit.1 := by
  unfold World.commit
  split
  · exact h
  · rename_i b hb
    refine ⟨?_, by intro b' hb'; cases hb'⟩
    exact (h.setPeer b.peer (log_roomFn (h.peer b.peer) (markAll b.marks (w.peer b.peer).log))).1

theorem rows_WRooms {w : World} (h : WRooms f w) (rows : List (Nat × Nat)) : WRooms f { w with rows := rows } :=
  ⟨h.1, h.2⟩

theorem write_WRooms {d : Defects} {w : World} (h : WRooms f w) (p : Nat) (op : WOp) (hk : op.keepsRoom f) :
    WRooms f (w.write d p op).1 := by
  unfold World.write
  cases hb : w.batch with
  | some b =>
    simp only
    split
    · have e := effectOf_roomFn d w (h.2 b hb) (h.peer p) p op hk
      refine ⟨(h.setPeer p e).1, ?_⟩
      intro b' hb'
      simp only [Option.some.injEq] at hb'
      rw [← hb']
      exact h.2 b hb
    · have hc := commit_WRooms h
      have e := effectOf_roomFn d w.commit.1 (hc.peer p) (hc.peer p) p op hk
      have s1 := hc.setPeer p
        (log_roomFn e (markAll (effectOf d w.commit.1 (w.commit.1.peer p) (w.commit.1.peer p) p op).marks
          (effectOf d w.commit.1 (w.commit.1.peer p) (w.commit.1.peer p) p op).cur.log))
      split
      · exact rows_WRooms s1 _
      · exact s1
  | none =>
    simp only
    have e := effectOf_roomFn d w (h.peer p) (h.peer p) p op hk
    have s1 := h.setPeer p
      (log_roomFn e (markAll (effectOf d w (w.peer p) (w.peer p) p op).marks
        (effectOf d w (w.peer p) (w.peer p) p op).cur.log))
    split
    · exact rows_WRooms s1 _
    · exact s1

theorem recomputeAt_WRooms {d : Defects} {w : World} (h : WRooms f w) (p : Nat) : WRooms f (w.recomputeAt d p) :=
  h.setPeer p (log_roomFn (h.peer p) _)

theorem compute_WRooms {d : Defects} {w : World} (h : WRooms f w) (p : Nat) : WRooms f (w.compute d p).1 := by
  unfold World.compute
  split
  · have s := recomputeAt_WRooms (d := d) h p
    refine ⟨s.1, ?_⟩
    intro b' hb'
    simp only [World.recomputeAt, World.setPeer, Option.map_eq_some_iff] at hb'
    obtain ⟨b0, e0, e1⟩ := hb'
    rw [← e1]; exact h.2 b0 e0
  · exact recomputeAt_WRooms (commit_WRooms h) p

/-- the step invariant at the level of row ids, for worlds whose rows keep their room -/
def StepF (f : Nat → Nat) (w w' : World) : Prop := Step w w' ∧ WRooms f w'

theorem StepF.trans {a b c : World} (h1 : StepF f a b) (h2 : StepF f b c) : StepF f a c :=
  ⟨h1.1.trans h2.1, h2.2⟩

section
variable {d : Defects} (hI : d.ingestIgnoresTombstones = false)

include hI in
theorem pull_stepF {w : World} (h : WZ w) (hr : WRooms f w) (dst src room : Nat) :
    StepF f w (w.pull d dst src room).1 := by
  unfold World.pull
  simp only
  have hc := step_commit h
  have hcr := commit_WRooms hr
  obtain ⟨z, r, m⟩ := pull_noZombie_rooms hI w.commit.1.rights (hc.1.peer dst) (hcr.peer dst) (hcr.peer src) room
  exact ⟨hc.trans (step_setPeer hc.1 dst z m), hcr.setPeer dst r⟩

include hI in
theorem round_stepF {w : World} (h : WZ w) (hr : WRooms f w) (rooms : List Nat) : StepF f w (w.round d rooms).1 := by
  unfold World.round
  refine foldl_preserves (fun acc : World × Nat => StepF f w acc.1) _ _ _ ⟨Step.refl h, hr⟩ ?_
  intro acc x hacc
  exact hacc.trans (pull_stepF hI hacc.1.1 hacc.2 x.1.1 x.1.2 x.2)

include hI in
theorem settleLoop_stepF (rooms : List Nat) (fuel : Nat) :
    ∀ (w : World) (n k : Nat), WZ w → WRooms f w → StepF f w (World.settleLoop d rooms fuel w n k).1 := by
  induction fuel with
  | zero => intro w n k h hr; exact ⟨Step.refl h, hr⟩
  | succ j ih =>
    intro w n k h hr
    simp only [World.settleLoop]
    have hs := round_stepF hI (d := d) h hr rooms
    split
    · exact hs
    · exact hs.trans (ih _ _ _ hs.1.1 hs.2)

include hI in
theorem settle_stepF {w : World} (h : WZ w) (hr : WRooms f w) (room max : Nat) :
    StepF f w (World.settle d room max w).1 := by
  unfold World.settle
  simp only
  have h0 : StepF f w ((List.range w.peers.length).foldl (fun acc p => acc.recomputeAt d p) w.commit.1) := by
    refine foldl_preserves (fun acc : World => StepF f w acc) _ _ _ ⟨step_commit h, commit_WRooms hr⟩ ?_
    intro acc p hacc
    exact ⟨hacc.1.trans (recomputeAt_step hacc.1.1 p), recomputeAt_WRooms hacc.2 p⟩
  exact h0.trans (settleLoop_stepF hI _ max _ 0 0 h0.1.1 h0.2)

/-- the static guard of an op: creations and explicit moves name the room `f` gives to the row -/
def Op.keepsRoom (f : Nat → Nat) : Op → Prop
  | .write _ op => op.keepsRoom f
  | _ => True

include hI in
theorem exec_stepF {w : World} (h : WZ w) (hr : WRooms f w) (op : Op) (hf : op.fresh w) (hk : op.keepsRoom f) :
    StepF f w (w.exec d op) := by
  cases op with
  | clock t => exact ⟨⟨⟨h.1, h.2⟩, fun _ _ hi => hi⟩, ⟨hr.1, hr.2⟩⟩
  | write p wop =>
    refine ⟨write_step h p wop ?_, write_WRooms hr p wop hk⟩
    intro row room ent val sig e
    subst e
    exact hf
  | compute p => exact ⟨compute_step h p, compute_WRooms hr p⟩
  | pull dst src room => exact pull_stepF hI h hr dst src room
  | «begin» p =>
    simp only [World.exec]
    have hc := step_commit h
    have hcr := commit_WRooms hr
    refine ⟨⟨⟨hc.1.1, ?_⟩, hc.2⟩, ⟨hcr.1, ?_⟩⟩
    · intro b hb
      simp only [Option.some.injEq] at hb
      rw [← hb]; exact hc.1.peer p
    · intro b hb
      simp only [Option.some.injEq] at hb
      rw [← hb]; exact hcr.peer p
  | commit p =>
    simp only [World.exec]
    split
    · split
      · exact ⟨step_commit h, commit_WRooms hr⟩
      · exact ⟨Step.refl h, hr⟩
    · exact ⟨Step.refl h, hr⟩
  | settle room max =>
    simp only [World.exec]
    exact settle_stepF hI h hr room max

include hI in
theorem run_stepF (ops : List Op) : ∀ (w : World), WZ w → WRooms f w → runFresh d w ops →
    (∀ op ∈ ops, op.keepsRoom f) → StepF f w (World.run d w ops) := by
  induction ops with
  | nil => intro w h hr _ _; exact ⟨Step.refl h, hr⟩
  | cons op t ih =>
    intro w h hr hf hk
    rw [run_cons]
    have s := exec_stepF hI h hr op hf.1 (hk op List.mem_cons_self)
    exact s.trans (ih _ s.1.1 s.2 hf.2 (fun o ho => hk o (List.mem_cons_of_mem _ ho)))

end
end

theorem init_WRooms (f : Nat → Nat) (rights : Rights) : WRooms f (World.initDated rights) := by
  refine ⟨?_, by intro b hb; cases hb⟩
  intro r hr
  simp only [World.initDated, List.mem_map] at hr
  obtain ⟨_, _, e⟩ := hr
  rw [← e]; exact empty_roomFn f

theorem runFresh_append (d : Defects) (ops1 ops2 : List Op) :
    ∀ w, runFresh d w (ops1 ++ ops2) → runFresh d w ops1 ∧ runFresh d (World.run d w ops1) ops2 := by
  induction ops1 with
  | nil => intro w hf; exact ⟨trivial, hf⟩
  | cons op t ih =>
    intro w hf
    obtain ⟨a, b⟩ := hf
    obtain ⟨c, e⟩ := ih _ b
    exact ⟨⟨a, c⟩, e⟩

end Discret.Sync
