import DiscretModel.Model.Sync
import DiscretModel.Lemmas.SyncBatches
/-
C11: with ingestion consulting the deletion log (and a deletion record removing every version of its row),
a row that carries a deletion record is never stored again — under every local write and every pull.
-/
namespace Discret.Sync
open Discret.DailyLog

/-- no stored row carries a deletion record -/
def NoZombie (r : Replica) : Prop := ∀ t ∈ r.ntombs, ∀ n ∈ r.nodes, n.id ≠ t.id

/-- the row ids that carry a deletion record -/
def Replica.deadIds (r : Replica) : List Nat := r.ntombs.map (·.id)

theorem noZombie_iff (r : Replica) : NoZombie r ↔ ∀ n ∈ r.nodes, n.id ∉ r.deadIds := by
  unfold NoZombie Replica.deadIds
  constructor
  · intro h n hn hm
    obtain ⟨t, ht, e⟩ := List.mem_map.mp hm
    exact h t ht n hn e.symm
  · intro h t ht n hn e
    exact h n hn (List.mem_map.mpr ⟨t, ht, e.symm⟩)

theorem mem_replaceNode {n x : Node} {l : List Node} (h : x ∈ replaceNode n l) : ∃ y ∈ l, x.id = y.id := by
  unfold replaceNode at h
  obtain ⟨y, hy, e⟩ := List.mem_map.mp h
  refine ⟨y, hy, ?_⟩
  split at e
  · rename_i hid; rw [← e]; exact hid.symm
  · rw [e]

theorem mem_putNode {n x : Node} {l : List Node} (h : x ∈ putNode n l) : x.id = n.id ∨ ∃ y ∈ l, x.id = y.id := by
  unfold putNode at h
  split at h
  · exact Or.inr (mem_replaceNode h)
  · rcases List.mem_append.mp h with h | h
    · exact Or.inr ⟨x, h, rfl⟩
    · simp only [List.mem_singleton] at h; exact Or.inl (by rw [h])

theorem ids_putNTomb (t : NTomb) (l : List NTomb) (i : Nat) :
    i ∈ (putNTomb t l).map (·.id) ↔ i = t.id ∨ i ∈ l.map (·.id) := by
  unfold putNTomb
  split
  · rename_i hany
    constructor
    · intro h
      obtain ⟨x, hx, e⟩ := List.mem_map.mp h
      obtain ⟨y, hy, e2⟩ := List.mem_map.mp hx
      split at e2
      · left; rw [← e, ← e2]
      · right; rw [← e, ← e2]; exact List.mem_map.mpr ⟨y, hy, rfl⟩
    · intro h
      rcases h with h | h
      · obtain ⟨y, hy, hpk⟩ := List.any_eq_true.mp hany
        refine List.mem_map.mpr ⟨t, List.mem_map.mpr ⟨y, hy, by simp [hpk]⟩, h.symm⟩
      · obtain ⟨y, hy, e⟩ := List.mem_map.mp h
        by_cases hpk : t.samePk y = true
        · have : y.id = t.id := by
            simp only [NTomb.samePk, Bool.and_eq_true, decide_eq_true_eq] at hpk; exact hpk.1.2
          exact List.mem_map.mpr ⟨t, List.mem_map.mpr ⟨y, hy, by simp [hpk]⟩, by rw [← e, this]⟩
        · exact List.mem_map.mpr ⟨y, List.mem_map.mpr ⟨y, hy, by simp [hpk]⟩, e⟩
  · simp only [List.map_append, List.map_cons, List.map_nil, List.mem_append, List.mem_singleton]
    constructor
    · rintro (h | h)
      · exact Or.inr h
      · exact Or.inl h
    · rintro (h | h)
      · exact Or.inr h
      · exact Or.inl h

theorem mem_insertBy {α : Type} (lt : α → α → Bool) (x y : α) (l : List α) :
    y ∈ insertBy lt x l ↔ y = x ∨ y ∈ l := by
  induction l with
  | nil => simp [insertBy]
  | cons a t ih =>
    simp only [insertBy]
    split
    · simp only [List.mem_cons, ih]
      constructor
      · rintro (h | h | h)
        · exact Or.inr (Or.inl h)
        · exact Or.inl h
        · exact Or.inr (Or.inr h)
      · rintro (h | h | h)
        · exact Or.inr (Or.inl h)
        · exact Or.inl h
        · exact Or.inr (Or.inr h)
    · simp only [List.mem_cons]

theorem mem_sortBy {α : Type} (lt : α → α → Bool) (y : α) (l : List α) : y ∈ sortBy lt l ↔ y ∈ l := by
  unfold sortBy
  induction l with
  | nil => simp
  | cons a t ih => simp only [List.foldr_cons, mem_insertBy, ih, List.mem_cons]

theorem mem_putNTomb {t x : NTomb} {l : List NTomb} (h : x ∈ putNTomb t l) : x = t ∨ x ∈ l := by
  unfold putNTomb at h
  split at h
  · obtain ⟨y, hy, e⟩ := List.mem_map.mp h
    split at e
    · exact Or.inl e.symm
    · exact Or.inr (e ▸ hy)
  · rcases List.mem_append.mp h with h | h
    · exact Or.inr h
    · exact Or.inl (by simpa using h)

/-! ### local writes -/

theorem opNew_noZombie {cur : Replica} (h : NoZombie cur) (p row room ent val sig now : Nat)
    (hf : row ∉ cur.deadIds) : NoZombie (opNew cur p row room ent val sig now).cur ∧
      (opNew cur p row room ent val sig now).cur.deadIds = cur.deadIds := by
  refine ⟨?_, rfl⟩
  rw [noZombie_iff] at h ⊢
  intro n hn
  simp only [opNew, List.mem_append, List.mem_singleton] at hn
  rcases hn with hn | hn
  · exact h n hn
  · subst hn; exact hf

theorem noZombie_congr {r r' : Replica} (h : NoZombie r)
    (hn : ∀ x ∈ r'.nodes, ∃ y ∈ r.nodes, x.id = y.id) (ht : r'.ntombs = r.ntombs) : NoZombie r' := by
  intro t ht' n hn' e
  obtain ⟨y, hy, e2⟩ := hn n hn'
  rw [ht] at ht'
  exact h t ht' y hy (e2 ▸ e)

theorem replace_noZombie {cur : Replica} (h : NoZombie cur) (n : Node) :
    NoZombie { cur with nodes := replaceNode n cur.nodes } := by
  rw [noZombie_iff] at h ⊢
  intro x hx
  obtain ⟨y, hy, e⟩ := mem_replaceNode hx
  rw [e]; exact h y hy

theorem opUpd_noZombie {cur : Replica} (h : NoZombie cur) (rights : Rights) (snap : Replica)
    (p row ent val sig : Nat) (room : Option Nat) (now : Nat) :
    NoZombie (opUpd rights snap cur p row ent val sig room now).cur ∧
      (opUpd rights snap cur p row ent val sig room now).cur.deadIds = cur.deadIds := by
  unfold opUpd
  split
  · exact ⟨h, rfl⟩
  · split
    · exact ⟨h, rfl⟩
    · exact ⟨replace_noZombie h _, rfl⟩

theorem opRef_noZombie {cur : Replica} (h : NoZombie cur) (rights : Rights) (snap : Replica)
    (p row to sig now : Nat) :
    NoZombie (opRef rights snap cur p row to sig now).cur ∧
      (opRef rights snap cur p row to sig now).cur.deadIds = cur.deadIds := by
  unfold opRef
  split
  · exact ⟨h, rfl⟩
  · split
    · exact ⟨h, rfl⟩
    · split
      · exact ⟨h, rfl⟩
      · split
        · exact ⟨h, rfl⟩
        · exact ⟨noZombie_congr h (fun x hx => mem_replaceNode hx) rfl, rfl⟩

theorem opUnref_noZombie {cur : Replica} (h : NoZombie cur) (d : Defects) (rights : Rights) (snap : Replica)
    (p row to sig dsig now : Nat) :
    NoZombie (opUnref d rights snap cur p row to sig dsig now).cur ∧
      (opUnref d rights snap cur p row to sig dsig now).cur.deadIds = cur.deadIds := by
  unfold opUnref
  split
  · exact ⟨h, rfl⟩
  · simp only
    split
    · split
      · exact ⟨noZombie_congr h (fun x hx => mem_replaceNode hx) rfl, rfl⟩
      · exact ⟨h, rfl⟩
    · split
      · exact ⟨h, rfl⟩
      · exact ⟨noZombie_congr h (fun x hx => mem_replaceNode hx) rfl, rfl⟩

theorem opDel_noZombie {cur : Replica} (h : NoZombie cur) (rights : Rights) (snap : Replica)
    (p row ent dsig now : Nat) :
    NoZombie (opDel rights snap cur p row ent dsig now).cur ∧
      ∀ i ∈ cur.deadIds, i ∈ (opDel rights snap cur p row ent dsig now).cur.deadIds := by
  unfold opDel
  split
  · exact ⟨h, fun i hi => hi⟩
  · split
    · exact ⟨h, fun i hi => hi⟩
    · simp only
      constructor
      · rw [noZombie_iff] at h ⊢
        intro n hn
        simp only [List.mem_filter, decide_eq_true_eq] at hn
        intro hm
        simp only [Replica.deadIds] at hm
        rcases (ids_putNTomb _ _ _).mp hm with e | e
        · exact hn.2 e
        · exact h n hn.1 e
      · intro i hi
        simp only [Replica.deadIds]
        exact (ids_putNTomb _ _ _).mpr (Or.inr hi)


/-! ### pulls -/

theorem foldl_preserves {α β : Type} (P : β → Prop) (l : List α) (f : β → α → β) (b : β) (hb : P b)
    (hf : ∀ b a, P b → P (f b a)) : P (l.foldl f b) := by
  induction l generalizing b with
  | nil => exact hb
  | cons a t ih => exact ih (f b a) (hf b a hb)

theorem applyETombs_same (rights : Rights) (dst : Replica) (ts : List ETomb) :
    (applyETombs rights dst ts).nodes = dst.nodes ∧ (applyETombs rights dst ts).ntombs = dst.ntombs := by
  simp only [applyETombs]
  refine foldl_preserves (fun r : Replica => r.nodes = dst.nodes ∧ r.ntombs = dst.ntombs) _ _ _ ⟨rfl, rfl⟩ ?_
  intro b a hb
  exact hb

section
variable {d : Defects} (hI : d.ingestIgnoresTombstones = false) (hR : d.syncDeletionRoomScoped = false)

include hR in
theorem applyNTombs_noZombie (rights : Rights) {dst : Replica} (h : NoZombie dst) (ts : List NTomb) :
    NoZombie (applyNTombs d rights dst ts) ∧ ∀ i ∈ dst.deadIds, i ∈ (applyNTombs d rights dst ts).deadIds := by
  refine applyNTombs_induct d rights ts (fun r : Replica => NoZombie r ∧ ∀ i ∈ dst.deadIds, i ∈ r.deadIds) dst
    ⟨h, fun i hi => hi⟩ ?_
  intro r t _ ⟨hz, hm⟩
  unfold applyNTomb
  simp only
  constructor
  · rw [noZombie_iff] at hz ⊢
    intro n hn
    simp only [List.mem_filter, hR, Bool.not_false, Bool.true_or, Bool.and_true, Bool.not_eq_eq_eq_not,
      Bool.not_true, decide_eq_false_iff_not] at hn
    intro hmem
    simp only [Replica.deadIds] at hmem
    rcases (ids_putNTomb _ _ _).mp hmem with e | e
    · exact hn.2 e
    · exact hz n hn.1 e
  · intro i hi
    simp only [Replica.deadIds]
    exact (ids_putNTomb _ _ _).mpr (Or.inr (hm i hi))

theorem ingestNode_noZombie (rights : Rights) {r : Replica} (h : NoZombie r) (n : Node) (old : Option Node)
    (hf : n.id ∉ r.deadIds) :
    NoZombie (ingestNode d rights r n old) ∧ (ingestNode d rights r n old).ntombs = r.ntombs := by
  unfold ingestNode
  split
  · refine ⟨?_, rfl⟩
    rw [noZombie_iff] at h ⊢
    intro x hx
    rcases mem_putNode hx with e | ⟨y, hy, e⟩
    · simp only [Replica.deadIds]; rw [e]; exact hf
    · simp only [Replica.deadIds]; rw [e]; exact h y hy
  · exact ⟨h, rfl⟩

include hI hR in
theorem wanted_fresh {dst : Replica} {n : Node} {o : Option Node} (h : wanted d dst n = some o) :
    n.id ∉ dst.deadIds := by
  unfold wanted at h
  simp only [hI, hR, Bool.not_false, Bool.true_and, Bool.true_or, Bool.and_true, Bool.and_self] at h
  split at h
  · cases h
  · rename_i hany
    intro hm
    apply hany
    obtain ⟨t, ht, e⟩ := List.mem_map.mp hm
    exact List.any_eq_true.mpr ⟨t, ht, by simp [e]⟩

include hI hR in
theorem syncDay_noZombie (rights : Rights) {dst : Replica} (src : Replica) (h : NoZombie dst) (room ent day : Nat) :
    NoZombie (syncDay d rights dst src room ent day).dst ∧
      ∀ i ∈ dst.deadIds, i ∈ (syncDay d rights dst src room ent day).dst.deadIds := by
  unfold syncDay
  simp only
  -- after the reference deletion records
  have h1 : ∀ ets : List ETomb, NoZombie (if ets.isEmpty then dst else applyETombs rights dst ets) ∧
      (if ets.isEmpty then dst else applyETombs rights dst ets).deadIds = dst.deadIds := by
    intro ets
    split
    · exact ⟨h, rfl⟩
    · obtain ⟨a, b⟩ := applyETombs_same rights dst ets
      exact ⟨noZombie_congr h (fun x hx => ⟨x, a ▸ hx, rfl⟩) b, by simp [Replica.deadIds, b]⟩
  generalize hets : (src.etombs.filter fun t => t.room = room && ent = 0 && dayOf t.ddate = day) = ets
  obtain ⟨z1, e1⟩ := h1 ets
  generalize hd1 : (if ets.isEmpty then dst else applyETombs rights dst ets) = dst1 at z1 e1
  -- after the node deletion records
  generalize hnts : (sortBy (fun (a b : NTomb) => lexL [a.ddate, a.id, a.ent] [b.ddate, b.id, b.ent])
      (src.ntombs.filter fun t => t.room = room && t.ent = ent && dayOf t.ddate = day)) = nts
  have h2 : NoZombie (if nts.isEmpty then dst1 else applyNTombs d rights dst1 nts) ∧
      ∀ i ∈ dst1.deadIds, i ∈ (if nts.isEmpty then dst1 else applyNTombs d rights dst1 nts).deadIds := by
    split
    · exact ⟨z1, fun i hi => hi⟩
    · exact applyNTombs_noZombie hR rights z1 nts
  obtain ⟨z2, m2⟩ := h2
  generalize hd2 : (if nts.isEmpty then dst1 else applyNTombs d rights dst1 nts) = dst2 at z2 m2
  have mono : ∀ i ∈ dst.deadIds, i ∈ dst2.deadIds := fun i hi => m2 i (e1 ▸ hi)
  split
  · exact ⟨z2, mono⟩
  · -- the fetched rows are written one after the other: none of them carries a deletion record
    generalize hreq : ((src.nodes.filter fun n => n.room = room && n.ent = ent && dayOf n.mdate = day).filterMap
      fun n => (wanted d dst2 n).map fun o => (n, o)) = req
    have hfresh : ∀ x ∈ req, x.1.id ∉ dst2.deadIds := by
      intro x hx
      rw [← hreq] at hx
      obtain ⟨n, _, hn⟩ := List.mem_filterMap.mp hx
      cases hw : wanted d dst2 n with
      | none => rw [hw] at hn; cases hn
      | some o =>
        rw [hw] at hn
        simp only [Option.map_some, Option.some.injEq] at hn
        rw [← hn]; exact wanted_fresh hI hR hw
    have h3 : ∀ (l : List (Node × Option Node)) (r : Replica), (∀ x ∈ l, x.1.id ∉ dst2.deadIds) →
        NoZombie r → r.ntombs = dst2.ntombs →
        NoZombie (l.foldl (fun r (x : Node × Option Node) => ingestNode d rights r x.1 x.2) r) ∧
        (l.foldl (fun r (x : Node × Option Node) => ingestNode d rights r x.1 x.2) r).ntombs = dst2.ntombs := by
      intro l
      induction l with
      | nil => intro r _ hz ht; exact ⟨hz, ht⟩
      | cons a t ih =>
        intro r hl hz ht
        simp only [List.foldl_cons]
        have hfa : a.1.id ∉ r.deadIds := by
          simp only [Replica.deadIds, ht]; exact hl a List.mem_cons_self
        obtain ⟨q1, q2⟩ := ingestNode_noZombie (d := d) rights hz a.1 a.2 hfa
        exact ih _ (fun x hx => hl x (List.mem_cons_of_mem _ hx)) q1 (q2.trans ht)
    obtain ⟨z3, t3⟩ := h3 req dst2 hfresh z2 rfl
    -- the references only change `edges`
    have h4 : ∀ (es : List Edge) (r : Replica), NoZombie r → r.ntombs = dst2.ntombs →
        NoZombie (es.foldl (fun r e => { r with edges := putEdge e r.edges }) r) ∧
        (es.foldl (fun r e => { r with edges := putEdge e r.edges }) r).ntombs = dst2.ntombs := by
      intro es
      induction es with
      | nil => intro r hz ht; exact ⟨hz, ht⟩
      | cons a t ih =>
        intro r hz ht
        simp only [List.foldl_cons]
        exact ih _ (noZombie_congr hz (fun x hx => ⟨x, hx, rfl⟩) rfl) ht
    obtain ⟨z4, t4⟩ := h4 _ _ z3 t3
    refine ⟨z4, ?_⟩
    intro i hi
    simp only [Replica.deadIds, t4]
    exact mono i hi

include hI hR in
theorem syncDays_noZombie (rights : Rights) (src : Replica) (room : Nat) (l : List (Nat × Nat)) :
    ∀ (dst : Replica) (ch : Bool) (f : Nat), NoZombie dst →
      NoZombie (syncDays d rights src room l dst ch f).1 ∧
      ∀ i ∈ dst.deadIds, i ∈ (syncDays d rights src room l dst ch f).1.deadIds := by
  induction l with
  | nil => intro dst ch f h; exact ⟨h, fun i hi => hi⟩
  | cons a t ih =>
    intro dst ch f h
    obtain ⟨ent, day⟩ := a
    simp only [syncDays]
    obtain ⟨z, m⟩ := syncDay_noZombie hI hR rights src h room ent day
    obtain ⟨z', m'⟩ := ih _ (ch || (syncDay d rights dst src room ent day).changed)
      (f + (syncDay d rights dst src room ent day).fetched) z
    exact ⟨z', fun i hi => m' i (m i hi)⟩

include hI hR in
/-- a pull keeps every deletion record's row out, and forgets no deleted row -/
theorem pull_noZombie (rights : Rights) {dst : Replica} (src : Replica) (h : NoZombie dst) (room : Nat) :
    NoZombie (pull d rights dst src room).dst ∧ ∀ i ∈ dst.deadIds, i ∈ (pull d rights dst src room).dst.deadIds := by
  have key : ∀ (x : Replica × Bool × Nat), NoZombie x.1 → (∀ i ∈ dst.deadIds, i ∈ x.1.deadIds) →
      NoZombie (if x.2.1 then { x.1 with log := recompute d x.1.sigs x.1.log } else x.1) ∧
      ∀ i ∈ dst.deadIds, i ∈ (if x.2.1 then { x.1 with log := recompute d x.1.sigs x.1.log } else x.1).deadIds := by
    intro x hz hm
    split
    · exact ⟨noZombie_congr hz (fun y hy => ⟨y, hy, rfl⟩) rfl, hm⟩
    · exact ⟨hz, hm⟩
  unfold pull
  simp only
  split
  · obtain ⟨z, m⟩ := syncDays_noZombie hI hR rights src room _ dst false 0 h
    exact key _ z m
  · split
    · split
      · obtain ⟨z, m⟩ := syncDays_noZombie hI hR rights src room _ dst false 0 h
        exact key (_, true, _) z m
      · exact key (dst, false, 0) h (fun i hi => hi)
    · exact key (dst, false, 0) h (fun i hi => hi)

end


/-! ### the world of a case -/

/-- every replica (and the committed state hidden by an open batch) is free of deleted rows -/
def WZ (w : World) : Prop := (∀ r ∈ w.peers, NoZombie r) ∧ ∀ b, w.batch = some b → NoZombie b.snap

/-- a created row has a fresh id: no deletion record of the writing peer names it -/
def Op.fresh (w : World) : Op → Prop
  | .write p (.new row _ _ _ _) => row ∉ (w.peer p).deadIds
  | _ => True

theorem empty_noZombie : NoZombie Replica.empty := by intro t ht; cases ht

theorem WZ.peer {w : World} (h : WZ w) (p : Nat) : NoZombie (w.peer p) := by
  unfold World.peer
  rw [List.getD_eq_getElem?_getD]
  cases hp : w.peers[p]? with
  | none => exact empty_noZombie
  | some r => exact h.1 r (List.mem_of_getElem? hp)

theorem peer_setPeer (w : World) (p q : Nat) (r : Replica) :
    (w.setPeer p r).peer q = if q = p ∧ p < w.peers.length then r else w.peer q := by
  unfold World.setPeer World.peer
  by_cases h : q = p
  · subst h
    by_cases hl : q < w.peers.length
    · simp [hl, List.getD_eq_getElem?_getD]
    · simp [hl, List.getD_eq_getElem?_getD]
  · have h' : ¬ p = q := fun e => h e.symm
    simp [h, List.getD_eq_getElem?_getD, List.getElem?_set_ne h']

theorem WZ.setPeer {w : World} (h : WZ w) (p : Nat) {r : Replica} (hr : NoZombie r) : WZ (w.setPeer p r) := by
  refine ⟨?_, h.2⟩
  intro x hx
  simp only [World.setPeer] at hx
  rcases List.mem_or_eq_of_mem_set hx with e | e
  · exact h.1 x e
  · rw [e]; exact hr

theorem log_noZombie {r : Replica} (h : NoZombie r) (l : Log) : NoZombie { r with log := l } :=
  noZombie_congr h (fun x hx => ⟨x, hx, rfl⟩) rfl

theorem commit_WZ {w : World} (h : WZ w) :
    WZ w.commit.1 ∧ ∀ q, (w.commit.1.peer q).deadIds = (w.peer q).deadIds ∧ (w.commit.1.peer q).nodes = (w.peer q).nodes := by
  unfold World.commit
  split
  · exact ⟨h, fun q => ⟨rfl, rfl⟩⟩
  · rename_i b hb
    constructor
    · refine ⟨?_, by intro b' hb'; cases hb'⟩
      have := (h.setPeer b.peer (log_noZombie (h.peer b.peer) (markAll b.marks (w.peer b.peer).log))).1
      exact this
    · intro q
      show ((w.setPeer b.peer _).peer q).deadIds = _ ∧ ((w.setPeer b.peer _).peer q).nodes = _
      rw [peer_setPeer]
      split
      · rename_i hc; rw [hc.1]; exact ⟨rfl, rfl⟩
      · exact ⟨rfl, rfl⟩

section
variable {d : Defects} (hI : d.ingestIgnoresTombstones = false) (hR : d.syncDeletionRoomScoped = false)

theorem effectOf_noZombie (w : World) (snap : Replica) {cur : Replica} (h : NoZombie cur) (p : Nat) (op : WOp)
    (hf : ∀ row room ent val sig, op = .new row room ent val sig → row ∉ cur.deadIds) :
    NoZombie (effectOf d w snap cur p op).cur ∧ ∀ i ∈ cur.deadIds, i ∈ (effectOf d w snap cur p op).cur.deadIds := by
  cases op with
  | new row room ent val sig =>
    obtain ⟨a, b⟩ := opNew_noZombie h p row room ent val sig w.now (hf row room ent val sig rfl)
    exact ⟨a, fun i hi => by simp only [effectOf]; rw [b]; exact hi⟩
  | upd row val sig room =>
    obtain ⟨a, b⟩ := opUpd_noZombie h w.rights snap p row ((w.entOf row).getD 0) val sig room w.now
    exact ⟨a, fun i hi => by simp only [effectOf]; rw [b]; exact hi⟩
  | ref row to sig =>
    obtain ⟨a, b⟩ := opRef_noZombie h w.rights snap p row to sig w.now
    exact ⟨a, fun i hi => by simp only [effectOf]; rw [b]; exact hi⟩
  | unref row to sig dsig =>
    obtain ⟨a, b⟩ := opUnref_noZombie h d w.rights snap p row to sig dsig w.now
    exact ⟨a, fun i hi => by simp only [effectOf]; rw [b]; exact hi⟩
  | del row dsig => exact opDel_noZombie h w.rights snap p row ((w.entOf row).getD 0) dsig w.now

/-- the step invariant: no deleted row stored, no deletion record forgotten -/
def Step (w w' : World) : Prop :=
  WZ w' ∧ ∀ q i, i ∈ (w.peer q).deadIds → i ∈ (w'.peer q).deadIds

theorem Step.refl {w : World} (h : WZ w) : Step w w := ⟨h, fun _ _ hi => hi⟩

theorem Step.trans {a b c : World} (h1 : Step a b) (h2 : Step b c) : Step a c :=
  ⟨h2.1, fun q i hi => h2.2 q i (h1.2 q i hi)⟩

theorem step_commit {w : World} (h : WZ w) : Step w w.commit.1 :=
  ⟨(commit_WZ h).1, fun q i hi => by rw [((commit_WZ h).2 q).1]; exact hi⟩

/-- replacing the replica of one peer by one that is zombie-free and forgets no record -/
theorem step_setPeer {w : World} (h : WZ w) (p : Nat) {r : Replica} (hr : NoZombie r)
    (hm : ∀ i ∈ (w.peer p).deadIds, i ∈ r.deadIds) : Step w (w.setPeer p r) := by
  refine ⟨h.setPeer p hr, ?_⟩
  intro q i hi
  rw [peer_setPeer]
  split
  · rename_i hc; rw [hc.1] at hi; exact hm i hi
  · exact hi

theorem step_rows {w : World} (h : WZ w) (rows : List (Nat × Nat)) : Step w { w with rows := rows } :=
  ⟨⟨h.1, h.2⟩, fun _ _ hi => hi⟩

theorem write_step {w : World} (h : WZ w) (p : Nat) (op : WOp)
    (hf : ∀ row room ent val sig, op = .new row room ent val sig → row ∉ (w.peer p).deadIds) :
    Step w (w.write d p op).1 := by
  unfold World.write
  cases hb : w.batch with
  | some b =>
    simp only
    split
    · -- queued in the open batch of `p`
      rename_i hp
      obtain ⟨e1, e2⟩ := effectOf_noZombie (d := d) w b.snap (h.peer p) p op hf
      have s1 := step_setPeer h p e1 e2
      refine ⟨⟨s1.1.1, ?_⟩, s1.2⟩
      intro b' hb'
      simp only [Option.some.injEq] at hb'
      rw [← hb']
      exact h.2 b hb
    · have hc := step_commit h
      have hf' : ∀ row room ent val sig, op = .new row room ent val sig → row ∉ (w.commit.1.peer p).deadIds := by
        intro row room ent val sig e
        rw [((commit_WZ h).2 p).1]; exact hf row room ent val sig e
      obtain ⟨e1, e2⟩ := effectOf_noZombie (d := d) w.commit.1 (w.commit.1.peer p) (hc.1.peer p) p op hf'
      have s1 := step_setPeer hc.1 p
        (log_noZombie e1 (markAll (effectOf d w.commit.1 (w.commit.1.peer p) (w.commit.1.peer p) p op).marks
          (effectOf d w.commit.1 (w.commit.1.peer p) (w.commit.1.peer p) p op).cur.log)) e2
      refine hc.trans ?_
      split
      · exact s1.trans (step_rows s1.1 _)
      · exact s1
  | none =>
    simp only
    obtain ⟨e1, e2⟩ := effectOf_noZombie (d := d) w (w.peer p) (h.peer p) p op hf
    have s1 := step_setPeer h p
      (log_noZombie e1 (markAll (effectOf d w (w.peer p) (w.peer p) p op).marks
        (effectOf d w (w.peer p) (w.peer p) p op).cur.log)) e2
    split
    · exact s1.trans (step_rows s1.1 _)
    · exact s1

theorem compute_step {w : World} (h : WZ w) (p : Nat) : Step w (w.compute d p).1 := by
  have key : ∀ w1 : World, WZ w1 → Step w1 (w1.recomputeAt d p) :=
    fun w1 h1 => step_setPeer h1 p (log_noZombie (h1.peer p) _) (fun i hi => hi)
  unfold World.compute
  split
  · have s := key w h
    refine ⟨⟨s.1.1, ?_⟩, s.2⟩
    intro b' hb'
    simp only [World.recomputeAt, World.setPeer, Option.map_eq_some_iff] at hb'
    obtain ⟨b0, e0, e1⟩ := hb'
    rw [← e1]; exact h.2 b0 e0
  · exact (step_commit h).trans (key _ (step_commit h).1)

include hI hR in
theorem pull_step {w : World} (h : WZ w) (dst src room : Nat) : Step w (w.pull d dst src room).1 := by
  unfold World.pull
  simp only
  have hc := step_commit h
  obtain ⟨z, m⟩ := pull_noZombie hI hR w.commit.1.rights (w.commit.1.peer src) (hc.1.peer dst) room
  exact hc.trans (step_setPeer hc.1 dst z m)

include hI hR in
theorem round_step {w : World} (h : WZ w) (rooms : List Nat) : Step w (w.round d rooms).1 := by
  unfold World.round
  refine foldl_preserves (fun acc : World × Nat => Step w acc.1) _ _ _ (Step.refl h) ?_
  intro acc x hacc
  exact hacc.trans (pull_step hI hR hacc.1 x.1.1 x.1.2 x.2)

include hI hR in
theorem settleLoop_step (rooms : List Nat) (fuel : Nat) :
    ∀ (w : World) (n f : Nat), WZ w → Step w (World.settleLoop d rooms fuel w n f).1 := by
  induction fuel with
  | zero => intro w n f h; exact Step.refl h
  | succ k ih =>
    intro w n f h
    simp only [World.settleLoop]
    have hr := round_step hI hR (d := d) h rooms
    split
    · exact hr
    · exact hr.trans (ih _ _ _ hr.1)

theorem recomputeAt_step {w : World} (h : WZ w) (p : Nat) : Step w (w.recomputeAt d p) :=
  step_setPeer h p (log_noZombie (h.peer p) _) (fun i hi => hi)

include hI hR in
theorem settle_step {w : World} (h : WZ w) (room max : Nat) : Step w (World.settle d room max w).1 := by
  unfold World.settle
  simp only
  have hc := step_commit h
  have h0 : Step w ((List.range w.peers.length).foldl (fun acc p => acc.recomputeAt d p) w.commit.1) := by
    refine foldl_preserves (fun acc : World => Step w acc) _ _ _ hc ?_
    intro acc p hacc
    exact hacc.trans (recomputeAt_step hacc.1 p)
  exact h0.trans (settleLoop_step hI hR _ max _ 0 0 h0.1)

include hI hR in
/-- one op of a case -/
theorem exec_step {w : World} (h : WZ w) (op : Op) (hf : op.fresh w) : Step w (w.exec d op) := by
  cases op with
  | clock t => exact ⟨⟨h.1, h.2⟩, fun _ _ hi => hi⟩
  | write p wop =>
    refine write_step h p wop ?_
    intro row room ent val sig e
    subst e
    exact hf
  | compute p => exact compute_step h p
  | pull dst src room => exact pull_step hI hR h dst src room
  | «begin» p =>
    simp only [World.exec]
    have hc := step_commit h
    refine ⟨⟨hc.1.1, ?_⟩, hc.2⟩
    intro b hb
    simp only [Option.some.injEq] at hb
    rw [← hb]; exact hc.1.peer p
  | commit p =>
    simp only [World.exec]
    split
    · split
      · exact step_commit h
      · exact Step.refl h
    · exact Step.refl h
  | settle room max =>
    simp only [World.exec]
    exact settle_step hI hR h room max

/-- all ops of a case are fresh along the run -/
def runFresh (d : Defects) : World → List Op → Prop
  | _, [] => True
  | w, op :: t => op.fresh w ∧ runFresh d (w.exec d op) t

theorem run_cons (d : Defects) (w : World) (op : Op) (t : List Op) :
    World.run d w (op :: t) = World.run d (w.exec d op) t := rfl

include hI hR in
theorem run_step (ops : List Op) : ∀ (w : World), WZ w → runFresh d w ops → Step w (World.run d w ops) := by
  induction ops with
  | nil => intro w h _; exact Step.refl h
  | cons op t ih =>
    intro w h hf
    rw [run_cons]
    have s := exec_step hI hR h op hf.1
    exact s.trans (ih _ s.1 hf.2)

end

theorem init_WZ (rights : Rights) : WZ (World.initDated rights) := by
  refine ⟨?_, by intro b hb; cases hb⟩
  intro r hr
  simp only [World.initDated, List.mem_map] at hr
  obtain ⟨_, _, e⟩ := hr
  rw [← e]; exact empty_noZombie

end Discret.Sync
