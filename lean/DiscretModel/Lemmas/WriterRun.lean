import DiscretModel.Lemmas.Writer
/-
Batch-level and run-level lemmas about the writer model, for any table `T` meeting the side conditions
(`NoSwallow` / `AllRollback`, marks inside the transaction). `Props/C13.lean` instantiates them with the
table regenerated from the source.
-/
namespace Discret.Writer
open Discret.Gen.WriterTable (OnError)

theorem replies_length (a : Ack) (ms : List Msg) : (replies a ms).length = ms.length := by simp [replies]

theorem mem_replies {a b : Ack} {ms : List Msg} (h : a ∈ replies b ms) : a = b := by
  simp only [replies, List.mem_map] at h
  obtain ⟨_, _, rfl⟩ := h; rfl

/-- once the connection is inside a transaction every later batch fails and changes nothing -/
theorem processBatch_wedged (T : Table) (D : Defects) (s : Sys) (ms : List Msg) (f : Option Fault) {w : Db}
    (h : s.conn.txn = some w) : processBatch T D s ms f = (s, replies .err ms) := by
  simp [processBatch, h]

/-- the two outcomes of a batch: nothing visible and every reply `Err`, or the whole batch committed,
    the connection idle and every reply `Ok` -/
theorem processBatch_cases (T : Table) (D : Defects) (s : Sys) (ms : List Msg) (f : Option Fault)
    (hT : NoSwallow T ms) (hm : T.marksInTxn = true) :
    ((processBatch T D s ms f).1.db = s.db ∧ (processBatch T D s ms f).2 = replies .err ms) ∨
    ((processBatch T D s ms f).1 = { db := commitBatch T s.db ms, conn := ⟨none⟩ } ∧
      (processBatch T D s ms f).2 = replies .ok ms ∧ s.conn.txn = none ∧
      f ≠ some .begin ∧ f ≠ some .marks ∧ f ≠ some .commit ∧ f ≠ some .commitRolledBack) := by
  unfold processBatch
  cases hc : s.conn.txn with
  | some w => left; simp
  | none =>
    simp only
    by_cases hb : f = some .begin
    · left; simp [hb]
    · simp only [hb, if_false]
      cases hr : runGroups T f (s.db, []) 0 ms with
      | failed w b => cases b <;> (left; simp)
      | done w =>
        have hw := runGroups_done hT _ _ _ hr
        simp only [hm, if_true]
        by_cases h1 : f = some .marks
        · left; simp [h1]
        · by_cases h2 : f = some .commit
          · left; simp [h2]
          · by_cases h3 : f = some .commitRolledBack
            · left; simp [h3]
            · right
              simp only [h1, h2, h3, if_false]
              refine ⟨?_, ?_, ?_, hb, h1, h2, h3⟩ <;> simp [commitBatch, hw]

/-- after a batch the connection is idle — unless the marks write or COMMIT failed and the defect is present -/
theorem processBatch_idle (T : Table) (D : Defects) (s : Sys) (ms : List Msg) (f : Option Fault)
    (hT : AllRollback T ms) (hs : s.conn.txn = none)
    (h1 : D.marksFailureLeavesTxnOpen = false ∨ f ≠ some .marks)
    (h2 : D.commitFailureLeavesTxnOpen = false ∨ f ≠ some .commit) :
    (processBatch T D s ms f).1.conn.txn = none := by
  unfold processBatch
  simp only [hs]
  by_cases hb : f = some .begin
  · simp [hb, hs]
  · simp only [hb, if_false]
    cases hr : runGroups T f (s.db, []) 0 ms with
    | failed w b =>
      have := runGroups_failed hT _ _ _ _ hr
      subst this; rfl
    | done w =>
      simp only
      split
      · split
        · rename_i hf
          rcases h1 with h | h
          · simp [h]
          · exact absurd hf h
        · split
          · rename_i hf
            rcases h2 with h | h
            · simp [h]
            · exact absurd hf h
          · split <;> rfl
      · split
        · rename_i hf
          rcases h2 with h | h
          · simp [h]
          · exact absurd hf h
        · split
          · rfl
          · split <;> rfl

theorem processBatch_logInv (T : Table) (D : Defects) (s : Sys) (ms : List Msg) (f : Option Fault)
    (hT : NoSwallow T ms) (hm : T.marksInTxn = true) (hwf : ∀ m ∈ ms, m.WF T) (h : LogInv s.db) :
    LogInv (processBatch T D s ms f).1.db := by
  rcases processBatch_cases T D s ms f hT hm with ⟨h1, _⟩ | ⟨h1, _⟩
  · rw [h1]; exact h
  · rw [h1]; exact commitBatch_logInv T s.db ms h hwf

/-- a crash leaves the old database or the whole batch, and no reply -/
theorem crashBatch_cases (T : Table) (db : Db) (ms : List Msg) (c : CrashPoint) (hm : T.marksInTxn = true) :
    ((crashBatch T db ms c).1 = db ∨ (crashBatch T db ms c).1 = commitBatch T db ms) ∧
      (crashBatch T db ms c).2 = [] := by
  simp only [crashBatch, hm, if_true]
  by_cases h : c.afterCommitPoint = true <;> simp [h]

theorem crashBatch_logInv (T : Table) (db : Db) (ms : List Msg) (c : CrashPoint) (hm : T.marksInTxn = true)
    (hwf : ∀ m ∈ ms, m.WF T) (h : LogInv db) : LogInv (crashBatch T db ms c).1 := by
  rcases (crashBatch_cases T db ms c hm).1 with h1 | h1
  · rw [h1]; exact h
  · rw [h1]; exact commitBatch_logInv T db ms h hwf

/-! ### runs: batches with faults, crashes followed by a restart, recomputation requests -/

inductive Op where
  | batch (ms : List Msg) (f : Option Fault)
  | crash (ms : List Msg) (c : CrashPoint)    -- the process dies at `c`, then the folder is reopened
  | recompute
deriving Repr, DecidableEq

def recomputeMsg : Msg := { kind := .computeDailyLog, stmts := [.recompute] }

def Op.msgs : Op → List Msg
  | .batch ms _ => ms
  | .crash ms _ => ms
  | .recompute => [recomputeMsg]

def stepOp (T : Table) (D : Defects) (s : Sys) : Op → Sys
  | .batch ms f => (processBatch T D s ms f).1
  | .crash ms c =>
    match s.conn.txn with
    | some _ => (processBatch T D s ms none).1     -- the batch fails at BEGIN: the crash point is never reached
    | none => restart (crashBatch T s.db ms c).1
  | .recompute => (processBatch T D s [recomputeMsg] none).1

def run (T : Table) (D : Defects) (s : Sys) (ops : List Op) : Sys := ops.foldl (stepOp T D) s

theorem stepOp_logInv (T : Table) (D : Defects) (s : Sys) (op : Op)
    (hT : NoSwallow T op.msgs) (hm : T.marksInTxn = true) (hwf : ∀ m ∈ op.msgs, m.WF T) (h : LogInv s.db) :
    LogInv (stepOp T D s op).db := by
  cases op with
  | batch ms f => exact processBatch_logInv T D s ms f hT hm hwf h
  | crash ms c =>
    simp only [stepOp]
    split
    · exact processBatch_logInv T D s ms none hT hm hwf h
    · exact (restart_clean (crashBatch_logInv T s.db ms c hm hwf h)).inv
  | recompute => exact processBatch_logInv T D s _ none hT hm hwf h

theorem run_logInv (T : Table) (D : Defects) (ops : List Op) (s : Sys)
    (hT : ∀ op ∈ ops, NoSwallow T op.msgs) (hm : T.marksInTxn = true)
    (hwf : ∀ op ∈ ops, ∀ m ∈ op.msgs, m.WF T) (h : LogInv s.db) : LogInv (run T D s ops).db := by
  induction ops generalizing s with
  | nil => exact h
  | cons op ops ih =>
    simp only [run, List.foldl_cons]
    apply ih
    · exact fun o ho => hT o (List.mem_cons_of_mem _ ho)
    · exact fun o ho => hwf o (List.mem_cons_of_mem _ ho)
    · exact stepOp_logInv T D s op (hT op (List.mem_cons_self ..)) hm (hwf op (List.mem_cons_self ..)) h

/-- the guard of the partial statement: no batch of the run suffers a failure of the marks write or of COMMIT -/
def Op.noLateFault : Op → Prop
  | .batch _ f => f ≠ some .marks ∧ f ≠ some .commit
  | _ => True

theorem stepOp_idle (T : Table) (D : Defects) (s : Sys) (op : Op) (hT : AllRollback T op.msgs)
    (hs : s.conn.txn = none) (hD : D = Defects.none ∨ op.noLateFault) : (stepOp T D s op).conn.txn = none := by
  cases op with
  | batch ms f =>
    apply processBatch_idle T D s ms f hT hs
    · rcases hD with h | h
      · left; rw [h]; rfl
      · right; exact h.1
    · rcases hD with h | h
      · left; rw [h]; rfl
      · right; exact h.2
  | crash ms c => simp [stepOp, hs, restart]
  | recompute =>
    exact processBatch_idle T D s _ none hT hs (Or.inr (by simp)) (Or.inr (by simp))

theorem run_idle (T : Table) (D : Defects) (ops : List Op) (s : Sys)
    (hT : ∀ op ∈ ops, AllRollback T op.msgs) (hs : s.conn.txn = none)
    (hD : D = Defects.none ∨ ∀ op ∈ ops, op.noLateFault) : (run T D s ops).conn.txn = none := by
  induction ops generalizing s with
  | nil => exact hs
  | cons op ops ih =>
    simp only [run, List.foldl_cons]
    apply ih
    · exact fun o ho => hT o (List.mem_cons_of_mem _ ho)
    · apply stepOp_idle T D s op (hT op (List.mem_cons_self ..)) hs
      rcases hD with h | h
      · exact Or.inl h
      · exact Or.inr (h op (List.mem_cons_self ..))
    · rcases hD with h | h
      · exact Or.inl h
      · exact Or.inr fun o ho => h o (List.mem_cons_of_mem _ ho)

theorem init_logInv : LogInv init.db := by
  constructor
  · intro e he _
    simp only [init, List.mem_singleton] at he
    subst he
    exact ⟨by decide, by decide⟩
  · intro d hd
    refine ⟨_, List.mem_singleton_self _, ?_⟩
    by_cases h : d = 0
    · exact h.symm
    · exfalso
      have : count init.db d = 0 := by
        simp only [count, dayRows, dayTombs, init, List.filter_cons, List.filter_nil]
        have : ¬ (0 = d) := fun h' => h h'.symm
        simp [this]
      omega

end Discret.Writer
