import DiscretModel.Model.Ingest
/-
C02: what it means for a received record to be *entitled* to change the tables.
These predicates are the statement of the property; they mention the room definitions only through
`Room.can` of the shared room model, never the ingestion code.
-/
namespace Discret.Ingest
open Discret.Room (Key Ent RightType)

/-- the definition of room `r` held by the instance grants `k` the right `rt` on `e` at date `d` -/
def HasRight (s : Inst) (r : Nat) (k : Key) (e : Ent) (d : Int) (rt : RightType) : Prop :=
  ∃ rm, rm ∈ s.rooms ∧ rm.id = r ∧ findRoom s r = some rm ∧ rm.can k e d rt = true

/-- the own-rows right suffices for a new row or the author's own row; the all-rows right is needed
    to replace or delete a row of another author -/
def needOn (old : Option Key) (k : Key) : RightType := needRight old k

/-- **a received row may be stored**: valid signature, names the synchronised room, known entity,
    conforming JSON, within the size limit, its author holds the needed right in that room at the
    row's own date; if it overwrites a local row, that row has the same entity, is in a room, and
    when that room is another one the author holds the same right there as well. -/
structure NodeOk (s : Inst) (room : Nat) (n : InNode) : Prop where
  sig : n.sigOk = true
  inRoom : n.row.room = some room
  known : knownEnt n.row.ent = true
  /-- not a row of a room definition (those are accepted through `add_room_node` only) -/
  data : authEnt n.row.ent = false
  conforms : n.conforms = true
  small : n.big = false
  right : HasRight s room n.row.key n.row.ent n.row.mdate
    (needOn ((localRow s.nodes n.row.id).map (·.key)) n.row.key)
  sameEntity : ∀ l, localRow s.nodes n.row.id = some l → l.ent = n.row.ent
  oldRoom : ∀ l, localRow s.nodes n.row.id = some l → ∃ r', l.room = some r' ∧
    (r' ≠ room → HasRight s r' n.row.key n.row.ent n.row.mdate (needOn (some l.key) n.row.key))

/-- the same with the clauses the code does not enforce made conditional on the switches -/
structure NodeOkD (d : Defects) (s : Inst) (room : Nat) (n : InNode) : Prop where
  sig : n.sigOk = true
  inRoom : n.row.room = some room
  known : knownEnt n.row.ent = true
  data : d.authEntityUnchecked = false → authEnt n.row.ent = false
  conforms : n.conforms = true ∨ (d.jsonAbsentUnchecked = true ∧ n.jsonAbsent = true)
  small : n.big = false
  right : HasRight s room n.row.key n.row.ent n.row.mdate
    (needOn ((localRow s.nodes n.row.id).map (·.key)) n.row.key)
  sameEntity : d.entityChangeUnchecked = false → ∀ l, localRow s.nodes n.row.id = some l → l.ent = n.row.ent
  oldRoom : ∀ l, localRow s.nodes n.row.id = some l →
    (d.roomlessReplaceUnchecked = false → l.room ≠ none) ∧
    ∀ r', l.room = some r' → r' ≠ room →
      HasRight s r' n.row.key n.row.ent n.row.mdate (needOn (some l.key) n.row.key)

/-- **a received reference may be stored**: valid signature, known entity, its source row is a local
    row of the synchronised room and of the entity the reference names, its author holds the right
    on that entity at the reference's date — the all-rows right if it replaces another author's
    reference (`prev` = the stored reference with the same source, label and target, if any). -/
structure EdgeOk (s : Inst) (room : Nat) (prev : Option EdgeRow) (e : InEdge) : Prop where
  sig : e.sigOk = true
  known : knownEnt e.row.srcEnt = true
  data : authEnt e.row.srcEnt = false
  source : ∃ l, localRow s.nodes e.row.src = some l ∧ l.room = some room ∧ l.ent = e.row.srcEnt
  right : HasRight s room e.row.key e.row.srcEnt e.row.cdate (needOn (prev.map (·.key)) e.row.key)

structure EdgeOkD (d : Defects) (s : Inst) (room : Nat) (prev : Option EdgeRow) (e : InEdge) : Prop where
  sig : e.sigOk = true
  known : knownEnt e.row.srcEnt = true
  data : d.authEntityUnchecked = false → authEnt e.row.srcEnt = false
  source : d.edgeSourceUnchecked = false →
    ∃ l, localRow s.nodes e.row.src = some l ∧ l.room = some room ∧ l.ent = e.row.srcEnt
  right : HasRight s room e.row.key e.row.srcEnt e.row.cdate
    (if d.edgeReplaceUnchecked then .mutateSelf else needOn (prev.map (·.key)) e.row.key)

/-- **a received node deletion record may be stored and applied**: valid signature, it is a record
    of the synchronised room, known entity, the row it names (if held locally) is of that entity, and
    its author holds the needed right in that room at the deletion date. -/
structure NodeDelOk (s : Inst) (room : Nat) (r : InNodeDel) : Prop where
  sig : r.sigOk = true
  inRoom : r.entry.room = room
  known : knownEnt r.entry.ent = true
  data : authEnt r.entry.ent = false
  sameEntity : ∀ l, localRow s.nodes r.entry.id = some l → l.ent = r.entry.ent
  right : HasRight s r.entry.room r.entry.key r.entry.ent r.entry.ddate
    (needOn ((localRow s.nodes r.entry.id).map (·.key)) r.entry.key)

structure NodeDelOkD (d : Defects) (s : Inst) (room : Nat) (r : InNodeDel) : Prop where
  sig : r.sigOk = true
  inRoom : d.delRoomUnchecked = false → r.entry.room = room
  known : knownEnt r.entry.ent = true
  data : d.authEntityUnchecked = false → authEnt r.entry.ent = false
  sameEntity : d.delEntityUnchecked = false → ∀ l, localRow s.nodes r.entry.id = some l → l.ent = r.entry.ent
  right : HasRight s r.entry.room r.entry.key r.entry.ent r.entry.ddate
    (needOn ((localRow s.nodes r.entry.id).map (·.key)) r.entry.key)

/-- **a received reference deletion record may be stored and applied** -/
structure EdgeDelOk (s : Inst) (room : Nat) (r : InEdgeDel) : Prop where
  sig : r.sigOk = true
  inRoom : r.entry.room = room
  known : knownEnt r.entry.srcEnt = true
  data : authEnt r.entry.srcEnt = false
  source : ∀ l, localRow s.nodes r.entry.src = some l → l.room = some r.entry.room ∧ l.ent = r.entry.srcEnt
  right : HasRight s r.entry.room r.entry.key r.entry.srcEnt r.entry.ddate
    (needOn ((s.edges.find? (edgeMatches r.entry)).map (·.key)) r.entry.key)

structure EdgeDelOkD (d : Defects) (s : Inst) (room : Nat) (r : InEdgeDel) : Prop where
  sig : r.sigOk = true
  inRoom : d.delRoomUnchecked = false → r.entry.room = room
  known : knownEnt r.entry.srcEnt = true
  data : d.authEntityUnchecked = false → authEnt r.entry.srcEnt = false
  source : d.edgeDelSourceUnchecked = false →
    ∀ l, localRow s.nodes r.entry.src = some l → l.room = some r.entry.room ∧ l.ent = r.entry.srcEnt
  right : HasRight s r.entry.room r.entry.key r.entry.srcEnt r.entry.ddate
    (needOn ((s.edges.find? (edgeMatches r.entry)).map (·.key)) r.entry.key)

/-- row ids are unique in `_node` -/
def NodupIds (nodes : List NodeRow) : Prop := (nodes.map (·.id)).Nodup

/-! ### the stages of a synchronised day -/

/-- state after the reference deletion records -/
def st1 (d : Defects) (s : Inst) (room : Nat) (b : Batch) : Inst := deleteEdges d s (keepEdgeDels d room b.edgeDels)
/-- state after the node deletion records -/
def st2 (d : Defects) (s : Inst) (room : Nat) (b : Batch) : Inst := deleteNodes d (st1 d s room b) (keepNodeDels d room b.nodeDels)
/-- state after the rows -/
def st3 (d : Defects) (s : Inst) (room : Nat) (b : Batch) : Inst := (nodeStage d (st2 d s room b) room b.nodes).1

/-- verdict on one received row given the tables only: not deleted in the room (once that is checked), passes
    `filter_existing` and is accepted -/
def nodeVerdict (d : Defects) (s : Inst) (room : Nat) (n : InNode) : Bool :=
  (d.announcedDeletedRequested || !deletedIn s room n.row.id) &&
  match filterOne s.nodes (n.row.id, n.annDate, n.annSg) with
  | none => false
  | some e => nodeAccepted d s room (n, e.2)

end Discret.Ingest
