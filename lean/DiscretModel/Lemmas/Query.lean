import DiscretModel.Model.Query
import DiscretModel.Lemmas.QueryPaging
/-
Lemmas about the reference evaluator `Model/Query.lean`: the order of values and key tuples, cursors,
the shape of `evalRows`.
-/
namespace Discret.Query

/-! ### the order of values and key tuples -/

theorem ltChars_asymm : ∀ s t : List Char, ltChars s t = true → ltChars t s = false := by
  intro s
  induction s with
  | nil => intro t h; cases t <;> simp_all [ltChars]
  | cons a s ih =>
    intro t h
    cases t with
    | nil => simp [ltChars] at h
    | cons b t =>
      simp only [ltChars, Bool.or_eq_true, decide_eq_true_eq, Bool.and_eq_true, beq_iff_eq] at h
      simp only [ltChars, Bool.or_eq_false_iff, decide_eq_false_iff_not, Bool.and_eq_false_iff, beq_eq_false_iff_ne]
      rcases h with h | ⟨h1, h2⟩
      · exact ⟨by omega, Or.inl (by omega)⟩
      · exact ⟨by omega, Or.inr (ih t h2)⟩

theorem Val.lt_asymm (a b : Val) (h : a.lt b = true) : b.lt a = false := by
  cases a with
  | null => cases b <;> simp_all [Val.lt]
  | str s =>
    cases b with
    | str t => exact ltChars_asymm _ _ h
    | _ => simp_all [Val.lt]
  | bool x =>
    cases b with
    | null => simp_all [Val.lt]
    | str t => rfl
    | bool y => cases x <;> cases y <;> first | rfl | (exact absurd h (by decide))
    | int j =>
      have h' : (if x then (1 : Int) else 0) < j := of_decide_eq_true h
      exact decide_eq_false (by show ¬ j < (if x then (1 : Int) else 0); omega)
  | int i =>
    cases b with
    | null => simp_all [Val.lt]
    | str t => rfl
    | bool y =>
      have h' : i < (if y then (1 : Int) else 0) := of_decide_eq_true h
      exact decide_eq_false (by show ¬ (if y then (1 : Int) else 0) < i; omega)
    | int j =>
      have h' : i < j := of_decide_eq_true h
      exact decide_eq_false (by show ¬ j < i; omega)

theorem Val.same_comm (a b : Val) : a.same b = b.same a := by
  simp [Val.same, Bool.and_comm]

theorem tupleLt_asymm (os : List Order) : ∀ a b : List Val, tupleLt os a b = true → tupleLt os b a = false := by
  induction os with
  | nil => intro a b h; simp [tupleLt] at h
  | cons o os ih =>
    intro a b h
    cases a with
    | nil => simp [tupleLt] at h
    | cons x xs =>
      cases b with
      | nil => simp [tupleLt] at h
      | cons y ys =>
        simp only [tupleLt, Bool.or_eq_true, Bool.and_eq_true] at h
        simp only [tupleLt, Bool.or_eq_false_iff, Bool.and_eq_false_iff]
        rcases h with h | ⟨h1, h2⟩
        · constructor
          · cases hd : o.desc <;> simp_all <;> exact Val.lt_asymm _ _ h
          · left
            cases hd : o.desc <;> simp_all [Val.same]
        · constructor
          · simp only [Val.same, Bool.and_eq_true, Bool.not_eq_true'] at h1
            cases hd : o.desc <;> simp [h1.1, h1.2]
          · right; exact ih xs ys h2

/-! ### cursors -/

theorem afterCursor_eq_tupleLt (d : Defects) (os : List Order) :
    ∀ ks cs : List Val,
      (d.cursorDropsAbsentKeys = true → (∀ k ∈ ks, k ≠ .null) ∧ (∀ c ∈ cs, c ≠ .null)) →
      afterCursor d os ks cs = tupleLt os cs ks := by
  induction os with
  | nil => intro ks cs _; simp [afterCursor, tupleLt]
  | cons o os ih =>
    intro ks cs h
    cases ks with
    | nil => cases cs <;> simp [afterCursor, tupleLt]
    | cons k ks =>
      cases cs with
      | nil => simp [afterCursor, tupleLt]
      | cons c cs =>
        have hp : (!d.cursorDropsAbsentKeys || decide (k ≠ Val.null ∧ c ≠ Val.null)) = true := by
          cases hd : d.cursorDropsAbsentKeys with
          | false => simp
          | true =>
            obtain ⟨h1, h2⟩ := h hd
            simp [h1 k (by simp), h2 c (by simp)]
        have hrec := ih ks cs (fun hd => by
          obtain ⟨h1, h2⟩ := h hd
          exact ⟨fun x hx => h1 x (by simp [hx]), fun x hx => h2 x (by simp [hx])⟩)
        simp only [afterCursor, tupleLt, hp, Bool.true_and, hrec, Val.same_comm k c]

/-! ### the shape of `evalRows` -/

theorem filter_const_true {α : Type} (l : List α) : l.filter (fun _ => true) = l := by simp

/-- the rows a query selects before `first`/`skip` -/
theorem evalRows_limited (d : Defects) (s : Schema) (data : Data) (fuel : Nat) (key : String) (q : Query)
    (cands : List Row) :
    evalRows d s data (fuel + 1) key q cands true =
      limit q.first q.skip (evalRows d s data (fuel + 1) key q cands false) := by
  simp [evalRows]

theorem limit_eq (first skip : Nat) {α : Type} (l : List α) :
    limit first skip l = if first = 0 then l.drop skip else (l.drop skip).take first := by
  simp [limit]

/-- the paged variant of a query: `first n`, `after(cur)`, no `skip`, no `before` -/
def pageQuery (q : Query) (n : Nat) (cur : List Val) : Query :=
  Query.mk q.ent q.sels q.filters q.orders n 0 cur []

/-- the same query without limits and cursors -/
def fullQuery (q : Query) : Query := Query.mk q.ent q.sels q.filters q.orders 0 0 [] []

/-- a filter looks at the entity and the selections of its query only -/
theorem holds_query_irrel (d : Defects) (s : Schema) (data : Data) (fuel : Nat) (key : String)
    (e : Nat) (ss : List Sel) (fs fs' : List Filter) (os os' : List Order) (f f' sk sk' : Nat) (af af' bf bf' : List Val)
    (r : Row) (flt : Filter) :
    holds d s data fuel key (Query.mk e ss fs os f sk af bf) r flt =
      holds d s data fuel key (Query.mk e ss fs' os' f' sk' af' bf') r flt := by
  cases fuel <;> simp [holds, Query.ent, Query.sels]

theorem evalRows_fullQuery (d : Defects) (s : Schema) (data : Data) (fuel : Nat) (key : String) (q : Query)
    (cands : List Row) (b : Bool) :
    evalRows d s data (fuel + 1) key (fullQuery q) cands b =
      sortBy (fun a b => tupleLe q.orders (keysOf d s q.ent q.orders a) (keysOf d s q.ent q.orders b))
        (cands.filter fun r => r.ent = q.ent && q.sels.all (fun sel => subPresent d s data fuel key r sel) &&
          q.filters.all (holds d s data fuel key (fullQuery q) r)) := by
  cases q with
  | mk e ss fs os f sk af bf =>
    cases b <;>
    simp [evalRows, fullQuery, Query.ent, Query.sels, Query.filters, Query.orders, Query.after, Query.before,
      Query.first, Query.skip, cursorHolds, limit, filter_const_true] <;> rfl

theorem evalRows_pageQuery (d : Defects) (s : Schema) (data : Data) (fuel : Nat) (key : String) (q : Query)
    (cands : List Row) (n : Nat) (hn : 1 ≤ n) (cur : List Val) :
    evalRows d s data (fuel + 1) key (pageQuery q n cur) cands true =
      ((evalRows d s data (fuel + 1) key (fullQuery q) cands false).filter fun r =>
        cur.isEmpty || afterCursor d q.orders (keysOf d s q.ent q.orders r) cur).take n := by
  have hn0 : n ≠ 0 := by omega
  rw [evalRows_fullQuery]
  cases q with
  | mk e ss fs os f sk af bf =>
    have hh : ∀ r flt, holds d s data fuel key (Query.mk e ss fs os n 0 cur []) r flt =
        holds d s data fuel key (fullQuery (Query.mk e ss fs os f sk af bf)) r flt := by
      intro r flt; exact holds_query_irrel ..
    have hh' : ∀ r, holds d s data fuel key (Query.mk e ss fs os n 0 cur []) r =
        holds d s data fuel key (fullQuery (Query.mk e ss fs os f sk af bf)) r := fun r => funext (hh r)
    simp [evalRows, pageQuery, Query.ent, Query.sels, Query.filters, Query.orders, Query.after, Query.before,
      Query.first, Query.skip, cursorHolds, limit, hn0, hh']
    rfl

/-! ### sorting -/

theorem mem_insertBy {α : Type} (le : α → α → Bool) (x y : α) (l : List α) :
    y ∈ insertBy le x l ↔ y = x ∨ y ∈ l := by
  induction l with
  | nil => simp [insertBy]
  | cons a t ih =>
    simp only [insertBy]
    split
    · simp
    · simp only [List.mem_cons, ih]
      constructor
      · rintro (h | h | h)
        · exact Or.inr (Or.inl h)
        · exact Or.inl h
        · exact Or.inr (Or.inr h)
      · rintro (h | h | h)
        · exact Or.inr (Or.inl h)
        · exact Or.inl h
        · exact Or.inr (Or.inr h)

theorem mem_sortBy {α : Type} (le : α → α → Bool) (y : α) (l : List α) : y ∈ sortBy le l ↔ y ∈ l := by
  induction l with
  | nil => simp [sortBy]
  | cons a t ih =>
    have : sortBy le (a :: t) = insertBy le a (sortBy le t) := rfl
    rw [this, mem_insertBy, ih]; simp

/-! ### paging through the result of a query -/

/-- the successive pages of `first n, after(keys of the last row)`, from the start, until a page is empty -/
def queryPages (d : Defects) (s : Schema) (data : Data) (fuel : Nat) (key : String) (q : Query)
    (cands : List Row) (n : Nat) : Nat → List Val → List (List Row)
  | 0, _ => []
  | k + 1, cur =>
    let p := evalRows d s data (fuel + 1) key (pageQuery q n cur) cands true
    match p.getLast? with
    | none => []
    | some x => p :: queryPages d s data fuel key q cands n k (keysOf d s q.ent q.orders x)

def toCursor (cur : List Val) : Option (List Val) := if cur.isEmpty then none else some cur

theorem keysOf_length (d : Defects) (s : Schema) (ent : Nat) (os : List Order) (r : Row) :
    (keysOf d s ent os r).length = os.length := by simp [keysOf]

theorem queryPages_eq_pages (d : Defects) (s : Schema) (data : Data) (fuel : Nat) (key : String) (q : Query)
    (cands : List Row) (n : Nat) (hn : 1 ≤ n) (ho : q.orders ≠ [])
    (hpresent : d.cursorDropsAbsentKeys = true →
      ∀ r ∈ evalRows d s data (fuel + 1) key (fullQuery q) cands false,
        ∀ k ∈ keysOf d s q.ent q.orders r, k ≠ Val.null) :
    ∀ (k : Nat) (cur : List Val),
      (cur = [] ∨ ∃ x ∈ evalRows d s data (fuel + 1) key (fullQuery q) cands false,
        cur = keysOf d s q.ent q.orders x) →
      queryPages d s data fuel key q cands n k cur =
        Paging.pages (keysOf d s q.ent q.orders) (tupleLt q.orders) n
          (evalRows d s data (fuel + 1) key (fullQuery q) cands false) k (toCursor cur) := by
  intro k
  induction k with
  | zero => intro cur _; rfl
  | succ k ih =>
    intro cur hc
    have hpage : evalRows d s data (fuel + 1) key (pageQuery q n cur) cands true =
        Paging.page (keysOf d s q.ent q.orders) (tupleLt q.orders) n
          (evalRows d s data (fuel + 1) key (fullQuery q) cands false) (toCursor cur) := by
      rw [evalRows_pageQuery d s data fuel key q cands n hn cur]
      unfold Paging.page
      congr 1
      rcases hc with hc | ⟨x, hx, hc⟩
      · subst hc; simp [toCursor, Paging.beyond]
      · have hne : cur ≠ [] := by
          intro h0
          have := keysOf_length d s q.ent q.orders x
          rw [← hc, h0] at this
          cases ho' : q.orders with
          | nil => exact ho ho'
          | cons a t => rw [ho'] at this; simp at this
        have hemp : cur.isEmpty = false := by cases cur <;> simp_all
        simp only [toCursor, hemp, Bool.false_eq_true, if_false, Paging.beyond, Bool.false_or]
        apply List.filter_congr
        intro r hr
        apply afterCursor_eq_tupleLt
        intro hd
        exact ⟨hpresent hd r hr, by rw [hc]; exact hpresent hd x hx⟩
    simp only [queryPages, Paging.pages, hpage]
    cases hl : (Paging.page (keysOf d s q.ent q.orders) (tupleLt q.orders) n
        (evalRows d s data (fuel + 1) key (fullQuery q) cands false) (toCursor cur)).getLast? with
    | none => rfl
    | some x =>
      have hxmem : x ∈ evalRows d s data (fuel + 1) key (fullQuery q) cands false := by
        have h1 : x ∈ Paging.page (keysOf d s q.ent q.orders) (tupleLt q.orders) n
            (evalRows d s data (fuel + 1) key (fullQuery q) cands false) (toCursor cur) :=
          List.mem_of_getLast? hl
        unfold Paging.page at h1
        have h2 := List.mem_of_mem_take h1
        cases htc : toCursor cur with
        | none => rw [htc] at h2; exact h2
        | some c => rw [htc] at h2; exact (List.mem_filter.mp h2).1
      have hne : keysOf d s q.ent q.orders x ≠ [] := by
        intro h0
        have := keysOf_length d s q.ent q.orders x
        rw [h0] at this
        cases ho' : q.orders with
        | nil => exact ho ho'
        | cons a t => rw [ho'] at this; simp at this
      have htc : toCursor (keysOf d s q.ent q.orders x) = some (keysOf d s q.ent q.orders x) := by
        unfold toCursor
        cases hk : keysOf d s q.ent q.orders x with
        | nil => exact absurd hk hne
        | cons a t => rfl
      simp only [ih _ (Or.inr ⟨x, hxmem, rfl⟩), htc]

end Discret.Query
