/-
The last-writer-wins order on versions `(modification date, signature)` and the replica semilattice it
induces (C03). A version is identified by its date and signature; an abstract replica holds, per row id,
the version it shows (none when the row is deleted or unknown), whether the id carries a deletion record,
and the set of deletion records it stores.
-/
namespace Discret.SyncOrder

abbrev Ver := Nat × Nat      -- (mdate, signature)

/-- `(mdate, signature)` lexicographic: the comparison of `Node::filter_existing` -/
def vle (a b : Ver) : Prop := a.1 < b.1 ∨ (a.1 = b.1 ∧ a.2 ≤ b.2)

instance (a b : Ver) : Decidable (vle a b) := by unfold vle; exact inferInstance

theorem vle_refl (a : Ver) : vle a a := Or.inr ⟨rfl, Nat.le_refl _⟩

theorem vle_total (a b : Ver) : vle a b ∨ vle b a := by unfold vle; omega

theorem vle_trans {a b c : Ver} (h1 : vle a b) (h2 : vle b c) : vle a c := by unfold vle at *; omega

theorem vle_antisymm {a b : Ver} (h1 : vle a b) (h2 : vle b a) : a = b := by
  unfold vle at *
  apply Prod.ext <;> omega

/-- the winner of two versions -/
def vmax (a b : Ver) : Ver := if vle a b then b else a

theorem vmax_idem (a : Ver) : vmax a a = a := by simp [vmax]

theorem vmax_comm (a b : Ver) : vmax a b = vmax b a := by
  unfold vmax
  by_cases h1 : vle a b <;> by_cases h2 : vle b a <;> simp [h1, h2]
  · exact (vle_antisymm h1 h2).symm
  · rcases vle_total a b with h | h
    · exact absurd h h1
    · exact absurd h h2

theorem vle_vmax_left (a b : Ver) : vle a (vmax a b) := by
  unfold vmax; split
  · assumption
  · exact vle_refl a

theorem vle_vmax_right (a b : Ver) : vle b (vmax a b) := by
  unfold vmax; split
  · exact vle_refl b
  · rename_i h
    rcases vle_total a b with h' | h'
    · exact absurd h' h
    · exact h'

theorem vmax_le {a b c : Ver} (h1 : vle a c) (h2 : vle b c) : vle (vmax a b) c := by
  unfold vmax; split <;> assumption

theorem vmax_assoc (a b c : Ver) : vmax (vmax a b) c = vmax a (vmax b c) := by
  apply vle_antisymm
  · refine vmax_le (vmax_le (vle_vmax_left _ _) ?_) ?_
    · exact vle_trans (vle_vmax_left b c) (vle_vmax_right a _)
    · exact vle_trans (vle_vmax_right b c) (vle_vmax_right a _)
  · refine vmax_le ?_ (vmax_le ?_ (vle_vmax_right _ _))
    · exact vle_trans (vle_vmax_left a b) (vle_vmax_left _ c)
    · exact vle_trans (vle_vmax_right a b) (vle_vmax_left _ c)

/-- merge of what two replicas show for one row id -/
def merge : Option Ver → Option Ver → Option Ver
  | none, b => b
  | a, none => a
  | some a, some b => some (vmax a b)

theorem merge_idem (a : Option Ver) : merge a a = a := by
  cases a <;> simp [merge, vmax_idem]

theorem merge_comm (a b : Option Ver) : merge a b = merge b a := by
  cases a <;> cases b <;> simp [merge, vmax_comm]

theorem merge_assoc (a b c : Option Ver) : merge (merge a b) c = merge a (merge b c) := by
  cases a <;> cases b <;> cases c <;> simp [merge, vmax_assoc]

theorem merge_none_left (a : Option Ver) : merge none a = a := by cases a <;> rfl
theorem merge_none_right (a : Option Ver) : merge a none = a := by cases a <;> rfl

/-! ### replicas -/

structure ARep where
  ver : Nat → Option Ver     -- row id ↦ the version shown
  dead : Nat → Bool          -- row id carries a deletion record
  recs : Nat → Bool          -- deletion records held (by signature)

theorem ARep.ext' {a b : ARep} (h1 : ∀ i, a.ver i = b.ver i) (h2 : ∀ i, a.dead i = b.dead i)
    (h3 : ∀ i, a.recs i = b.recs i) : a = b := by
  cases a; cases b
  simp only [ARep.mk.injEq]
  exact ⟨funext h1, funext h2, funext h3⟩

/-- union of deletion records; a deletion record removes every version of its row; otherwise the
    greater version wins -/
def join (a b : ARep) : ARep :=
  { ver := fun i => if a.dead i || b.dead i then none else merge (a.ver i) (b.ver i),
    dead := fun i => a.dead i || b.dead i,
    recs := fun i => a.recs i || b.recs i }

/-- a deleted row shows no version -/
def ARep.WF (a : ARep) : Prop := ∀ i, a.dead i = true → a.ver i = none

def ARep.empty : ARep := { ver := fun _ => none, dead := fun _ => false, recs := fun _ => false }

theorem join_wf (a b : ARep) : (join a b).WF := by
  intro i h
  simp only [join] at h ⊢
  simp [h]

theorem join_idem {a : ARep} (h : a.WF) : join a a = a := by
  apply ARep.ext'
  · intro i
    simp only [join, Bool.or_self]
    cases hd : a.dead i with
    | true => simp [h i hd]
    | false => simp [merge_idem]
  · intro i; simp [join]
  · intro i; simp [join]

theorem join_comm (a b : ARep) : join a b = join b a := by
  apply ARep.ext'
  · intro i; simp only [join, Bool.or_comm (a.dead i), merge_comm (a.ver i)]
  · intro i; simp [join, Bool.or_comm]
  · intro i; simp [join, Bool.or_comm]

theorem join_assoc (a b c : ARep) : join (join a b) c = join a (join b c) := by
  apply ARep.ext'
  · intro i
    simp only [join]
    rcases Bool.eq_false_or_eq_true (a.dead i) with ha | ha <;>
    rcases Bool.eq_false_or_eq_true (b.dead i) with hb | hb <;>
    rcases Bool.eq_false_or_eq_true (c.dead i) with hc | hc <;>
      simp [ha, hb, hc, merge_assoc, merge_none_left, merge_none_right]
  · intro i; simp [join, Bool.or_assoc]
  · intro i; simp [join, Bool.or_assoc]

theorem join_empty_left {a : ARep} (h : a.WF) : join ARep.empty a = a := by
  apply ARep.ext'
  · intro i
    simp only [join, ARep.empty, Bool.false_or, merge_none_left]
    cases hd : a.dead i with
    | true => simp [h i hd]
    | false => simp
  · intro i; simp [join, ARep.empty]
  · intro i; simp [join, ARep.empty]

/-- the information order of the semilattice -/
def le (a b : ARep) : Prop := join a b = b

theorem le_refl' {a : ARep} (h : a.WF) : le a a := join_idem h

theorem le_antisymm {a b : ARep} (h1 : le a b) (h2 : le b a) : a = b := by
  unfold le at *
  rw [← h2, join_comm, h1]

theorem le_trans' {a b c : ARep} (h1 : le a b) (h2 : le b c) : le a c := by
  unfold le at *
  rw [← h2, ← join_assoc, h1]

theorem le_join_left {a : ARep} (h : a.WF) (b : ARep) : le a (join a b) := by
  unfold le; rw [← join_assoc, join_idem h]

theorem le_join_right {b : ARep} (h : b.WF) (a : ARep) : le b (join a b) := by
  rw [join_comm]; exact le_join_left h a

theorem join_le {a b c : ARep} (h1 : le a c) (h2 : le b c) : le (join a b) c := by
  unfold le at *
  rw [join_assoc, h2, h1]

end Discret.SyncOrder
