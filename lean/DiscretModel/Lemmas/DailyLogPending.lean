import DiscretModel.Lemmas.DailyLogRecompute
/-
The recomputation of the intended behaviour preserves the invariant also while marks are pending, i.e. when
`ComputeDailyLog` is processed in the middle of a writer batch, after writes whose marks are only written
at the end of the batch.
-/
namespace Discret.DailyLog

/-! ### the loop, row by row -/

theorem stepRow_day (d : Defects) (sigs : Content) (room ent : Nat) (c : Cursor) (r r' : DayRow)
    (h : (stepRow d sigs room ent c r).2 = some r') : r'.day = r.day := by
  unfold stepRow at h
  split at h
  · repeat' split at h
    all_goals (simp only [Option.some.injEq] at h; rw [← h])
  · simp only at h
    split at h
    · cases h
    · simp only [Option.some.injEq] at h; rw [← h]

/-- the cursor after a row is the cursor before it or a cursor in the group -/
theorem stepRow_grp (d : Defects) (sigs : Content) (room ent : Nat) (c : Cursor) (r : DayRow) :
    (stepRow d sigs room ent c r).1.grp = c.grp ∨ (stepRow d sigs room ent c r).1.grp = some (room, ent) := by
  unfold stepRow
  split
  · repeat' split
    all_goals exact Or.inr rfl
  · simp only
    split
    · split
      · exact Or.inl rfl
      · exact Or.inr rfl
    · exact Or.inr rfl

theorem walkRows_append (d : Defects) (sigs : Content) (room ent : Nat) (l1 l2 : List DayRow) (c : Cursor) :
    walkRows d sigs room ent c (l1 ++ l2) =
      ((walkRows d sigs room ent (walkRows d sigs room ent c l1).1 l2).1,
       (walkRows d sigs room ent c l1).2 ++ (walkRows d sigs room ent (walkRows d sigs room ent c l1).1 l2).2) := by
  induction l1 generalizing c with
  | nil => simp [walkRows]
  | cons a t ih =>
    simp only [List.cons_append, walkRows]
    rw [ih]
    simp only [List.append_assoc]

/-- the rows the loop writes are, day for day, a sub-sequence of the rows it read -/
theorem walkRows_days (d : Defects) (sigs : Content) (room ent : Nat) (l : List DayRow) (c : Cursor) :
    ((walkRows d sigs room ent c l).2.map (·.day)).Sublist (l.map (·.day)) := by
  induction l generalizing c with
  | nil => simp [walkRows]
  | cons a t ih =>
    simp only [walkRows, List.map_append, List.map_cons]
    cases ho : (stepRow d sigs room ent c a).2 with
    | none =>
      simp only [Option.toList_none, List.map_nil, List.nil_append]
      exact List.Sublist.cons _ (ih _)
    | some r' =>
      simp only [Option.toList_some, List.map_cons, List.map_nil, List.singleton_append]
      rw [stepRow_day d sigs room ent c a r' ho]
      exact List.Sublist.cons_cons _ (ih _)

section rows
variable {d : Defects} (h3 : d.emptyDayRow = false) {sigs : Content} {room ent : Nat}

include h3 in
/-- every row written comes from a row read: an unmarked row keeps count and daily hash, a marked row gets those
    of its (non-empty) day; a row is dropped only if it was marked and its day is empty -/
theorem walkRows_rows (l : List DayRow) (c : Cursor) :
    (∀ r' ∈ (walkRows d sigs room ent c l).2, r'.dirty = false ∧ ∃ r ∈ l, r'.day = r.day ∧
      ((r.dirty = false ∧ r'.count = r.count ∧ r'.daily = r.daily) ∨
       (r.dirty = true ∧ RowRight sigs room ent r'))) ∧
    (∀ r ∈ l, (r.dirty = false ∨ sigs room ent r.day ≠ []) →
      ∃ r' ∈ (walkRows d sigs room ent c l).2, r'.day = r.day) := by
  induction l generalizing c with
  | nil => simp [walkRows]
  | cons a t ih =>
    obtain ⟨i1, i2⟩ := ih (stepRow d sigs room ent c a).1
    simp only [walkRows]
    have hstep : (∀ r', (stepRow d sigs room ent c a).2 = some r' → r'.dirty = false ∧ r'.day = a.day ∧
        ((a.dirty = false ∧ r'.count = a.count ∧ r'.daily = a.daily) ∨ (a.dirty = true ∧ RowRight sigs room ent r'))) ∧
        ((a.dirty = false ∨ sigs room ent a.day ≠ []) → ∃ r', (stepRow d sigs room ent c a).2 = some r') := by
      unfold stepRow
      cases hd : a.dirty with
      | false =>
        simp only [Bool.not_false, ↓reduceIte]
        constructor
        · intro r' hr'
          repeat' split at hr'
          all_goals (simp only [Option.some.injEq] at hr'; subst hr'; simp [hd])
        · intro _
          repeat' split
          all_goals exact ⟨_, rfl⟩
      | true =>
        simp only [Bool.not_true, Bool.false_eq_true, ↓reduceIte, h3]
        constructor
        · intro r' hr'
          split at hr'
          · cases hr'
          · rename_i hne
            simp only [Option.some.injEq] at hr'
            subst hr'
            have hne' : sigs room ent a.day ≠ [] := by
              intro e; rw [e] at hne; simp at hne
            exact ⟨rfl, rfl, Or.inr ⟨trivial, hne', rfl, rfl⟩⟩
        · intro h
          rcases h with h | h
          · cases h
          · have : (sigs room ent a.day).isEmpty = false := by
              cases hs : sigs room ent a.day with
              | nil => exact absurd hs h
              | cons _ _ => rfl
            simp only [this]
            exact ⟨_, rfl⟩
    constructor
    · intro r' hr'
      rcases List.mem_append.mp hr' with hr' | hr'
      · have hr'' : (stepRow d sigs room ent c a).2 = some r' := by
          cases ho : (stepRow d sigs room ent c a).2 with
          | none => rw [ho] at hr'; cases hr'
          | some x => rw [ho] at hr'; simp at hr'; rw [hr']
        obtain ⟨q1, q2, q3⟩ := hstep.1 r' hr''
        exact ⟨q1, a, List.mem_cons_self, q2, q3⟩
      · obtain ⟨q1, r, hr, q2⟩ := i1 r' hr'
        exact ⟨q1, r, List.mem_cons_of_mem _ hr, q2⟩
    · intro r hr hh
      rcases List.mem_cons.mp hr with e | e
      · subst e
        obtain ⟨r', hr'⟩ := hstep.2 hh
        exact ⟨r', by simp [hr'], (hstep.1 r' hr').2.1⟩
      · obtain ⟨r', hr', e2⟩ := i2 r e hh
        exact ⟨r', by simp [hr'], e2⟩

end rows


/-! ### prefixes -/

theorem cleanPrefix_append_clean {l1 l2 : List DayRow} (h : ∀ r ∈ l1, r.dirty = false) :
    cleanPrefix (l1 ++ l2) = l1 ++ cleanPrefix l2 ∧ fromFirstDirty (l1 ++ l2) = fromFirstDirty l2 := by
  induction l1 with
  | nil => exact ⟨rfl, rfl⟩
  | cons a t ih =>
    obtain ⟨i1, i2⟩ := ih (fun r hr => h r (List.mem_cons_of_mem _ hr))
    have ha := h a List.mem_cons_self
    unfold cleanPrefix fromFirstDirty at *
    simp only [List.cons_append, List.takeWhile_cons, List.dropWhile_cons, ha, Bool.not_false, ↓reduceIte, i1, i2]
    exact ⟨trivial, trivial⟩

theorem cleanPrefix_append_dirty {l1 l2 : List DayRow} (h : ∃ r ∈ l1, r.dirty = true) :
    cleanPrefix (l1 ++ l2) = cleanPrefix l1 ∧ fromFirstDirty (l1 ++ l2) = fromFirstDirty l1 ++ l2 := by
  induction l1 with
  | nil => obtain ⟨r, hr, _⟩ := h; cases hr
  | cons a t ih =>
    unfold cleanPrefix fromFirstDirty at *
    cases ha : a.dirty with
    | true =>
      simp only [List.cons_append, List.takeWhile_cons, List.dropWhile_cons, ha, Bool.not_true, Bool.false_eq_true,
        ↓reduceIte]
      exact ⟨trivial, trivial⟩
    | false =>
      have : ∃ r ∈ t, r.dirty = true := by
        obtain ⟨r, hr, hd⟩ := h
        rcases List.mem_cons.mp hr with e | e
        · subst e; rw [ha] at hd; cases hd
        · exact ⟨r, e, hd⟩
      obtain ⟨i1, i2⟩ := ih this
      simp only [List.cons_append, List.takeWhile_cons, List.dropWhile_cons, ha, Bool.not_false, ↓reduceIte, i1, i2]
      exact ⟨trivial, trivial⟩

theorem fromFirstDirty_nil_iff {l : List DayRow} : fromFirstDirty l = [] ↔ ∀ r ∈ l, r.dirty = false := by
  induction l with
  | nil => simp [fromFirstDirty]
  | cons a t ih =>
    unfold fromFirstDirty at *
    rw [List.dropWhile_cons]
    cases ha : a.dirty with
    | true => simp [ha]
    | false =>
      simp only [Bool.not_false, ↓reduceIte, ih, List.mem_cons, forall_eq_or_imp, ha, true_and]

section prefixes
variable {d : Defects} (h1 : d.historySeedDropped = false) (h4 : d.lazyScan = false)

include h1 h4 in
/-- recomputing a group whose rows are `I1 ++ I2` starts with the recomputation of `I1` alone -/
theorem recomputeGroup_prefix (sigs : Content) (c : Cursor) (room ent : Nat) (I1 I2 : List DayRow)
    (hc : sameGroup c room ent = false) :
    ∃ R2, (recomputeGroup d sigs c { room, ent, rows := I1 ++ I2 }).2.rows =
        (recomputeGroup d sigs c { room, ent, rows := I1 }).2.rows ++ R2 ∧
      (R2.map (·.day)).Sublist (I2.map (·.day)) := by
  by_cases hd1 : ∃ r ∈ I1, r.dirty = true
  · -- the window starts inside I1
    obtain ⟨e1, e2⟩ := cleanPrefix_append_dirty (l2 := I2) hd1
    have hne1 : (fromFirstDirty I1).isEmpty = false := by
      cases hx : fromFirstDirty I1 with
      | nil =>
        obtain ⟨r, hr, hdr⟩ := hd1
        have := fromFirstDirty_nil_iff.mp hx r hr
        rw [hdr] at this; cases this
      | cons _ _ => rfl
    have hne : (fromFirstDirty (I1 ++ I2)).isEmpty = false := by
      rw [e2]
      cases hx : fromFirstDirty I1 with
      | nil => rw [hx] at hne1; cases hne1
      | cons _ _ => rfl
    rw [recomputeGroup_static h1 h4 (g := { room, ent, rows := I1 ++ I2 }) hc hne,
      recomputeGroup_static h1 h4 (g := { room, ent, rows := I1 }) hc hne1]
    simp only [e1, e2]
    rw [walkRows_append]
    simp only [List.append_assoc]
    exact ⟨_, rfl, walkRows_days d sigs room ent I2 _⟩
  · -- I1 has no marked row: it is left alone
    have hclean : ∀ r ∈ I1, r.dirty = false := by
      intro r hr
      cases hdr : r.dirty with
      | false => rfl
      | true => exact absurd ⟨r, hr, hdr⟩ hd1
    obtain ⟨e1, e2⟩ := cleanPrefix_append_clean (l2 := I2) hclean
    have he1 : (fromFirstDirty I1).isEmpty = true := by
      rw [fromFirstDirty_nil_iff.mpr hclean]; rfl
    rw [recomputeGroup_clean (g := { room, ent, rows := I1 }) he1]
    cases hre : (fromFirstDirty (I1 ++ I2)).isEmpty with
    | true =>
      rw [recomputeGroup_clean (g := { room, ent, rows := I1 ++ I2 }) hre]
      exact ⟨I2, rfl, List.Sublist.refl _⟩
    | false =>
      rw [recomputeGroup_static h1 h4 (g := { room, ent, rows := I1 ++ I2 }) hc hre]
      simp only [e1, e2, List.append_assoc]
      refine ⟨_, rfl, ?_⟩
      rw [List.map_append]
      have hs1 : ((cleanPrefix I2).map (·.day) ++ ((walkRows d sigs room ent
          (seedCursor c room ent (I1 ++ cleanPrefix I2).getLast?) (fromFirstDirty I2)).2).map (·.day)).Sublist
          ((cleanPrefix I2).map (·.day) ++ (fromFirstDirty I2).map (·.day)) :=
        List.Sublist.append (List.Sublist.refl _) (walkRows_days d sigs room ent _ _)
      have : (cleanPrefix I2).map (·.day) ++ (fromFirstDirty I2).map (·.day) = I2.map (·.day) := by
        rw [← List.map_append]; unfold cleanPrefix fromFirstDirty; rw [List.takeWhile_append_dropWhile]
      rw [this] at hs1
      exact hs1

end prefixes


/-! ### one group, marks pending -/

theorem walkRows_grp (d : Defects) (sigs : Content) (room ent : Nat) (l : List DayRow) (c : Cursor) :
    (walkRows d sigs room ent c l).1.grp = c.grp ∨ (walkRows d sigs room ent c l).1.grp = some (room, ent) := by
  induction l generalizing c with
  | nil => exact Or.inl rfl
  | cons a t ih =>
    simp only [walkRows]
    have hs := stepRow_grp d sigs room ent c a
    rcases ih (stepRow d sigs room ent c a).1 with e | e
    · rcases hs with e2 | e2
      · exact Or.inl (e.trans e2)
      · exact Or.inr (e.trans e2)
    · exact Or.inr e

/-- a sorted list is cut at a day in one way only -/
theorem split_unique {A B A' B' : List DayRow} {D : Nat} (h : A ++ B = A' ++ B')
    (ha : ∀ x ∈ A, x.day ≤ D) (hb : ∀ x ∈ B, D < x.day) (ha' : ∀ x ∈ A', x.day ≤ D) (hb' : ∀ x ∈ B', D < x.day) :
    A = A' := by
  rcases List.append_eq_append_iff.mp h with ⟨c, e1, e2⟩ | ⟨c, e1, e2⟩
  · cases c with
    | nil => simpa using e1.symm
    | cons x t =>
      have m1 : x ∈ A' := by rw [e1]; simp
      have m2 : x ∈ B := by rw [e2]; simp
      have := ha' x m1; have := hb x m2; omega
  · cases c with
    | nil => simpa using e1
    | cons x t =>
      have m1 : x ∈ A := by rw [e1]; simp
      have m2 : x ∈ B' := by rw [e2]; simp
      have := ha x m1; have := hb' x m2; omega

section group
variable {d : Defects} (h1 : d.historySeedDropped = false) (h2 : d.entityNotCompared = false)
  (h3 : d.emptyDayRow = false) (h4 : d.lazyScan = false)

theorem recomputeGroup_key (sigs : Content) (c : Cursor) (g : Group) :
    (recomputeGroup d sigs c g).2.room = g.room ∧ (recomputeGroup d sigs c g).2.ent = g.ent := by
  unfold recomputeGroup
  simp only
  split
  · exact ⟨rfl, rfl⟩
  · split <;> exact ⟨rfl, rfl⟩

include h1 h3 h4 in
/-- the rows of the recomputed group, whatever is pending -/
theorem recomputeGroup_rows {sigs : Content} (c : Cursor) (g : Group) (hc : sameGroup c g.room g.ent = false) :
    ((recomputeGroup d sigs c g).2.rows.map (·.day)).Sublist (g.rows.map (·.day)) ∧
    (∀ r' ∈ (recomputeGroup d sigs c g).2.rows, r'.dirty = false → ∃ r ∈ g.rows, r'.day = r.day ∧
      ((r.dirty = false ∧ r'.count = r.count ∧ r'.daily = r.daily) ∨ RowRight sigs g.room g.ent r')) ∧
    (∀ r ∈ g.rows, sigs g.room g.ent r.day ≠ [] → ∃ r' ∈ (recomputeGroup d sigs c g).2.rows, r'.day = r.day) ∧
    ((recomputeGroup d sigs c g).1.grp = c.grp ∨ (recomputeGroup d sigs c g).1.grp = some (g.room, g.ent)) := by
  have hrows : g.rows = cleanPrefix g.rows ++ fromFirstDirty g.rows := (List.takeWhile_append_dropWhile).symm
  cases hre : (fromFirstDirty g.rows).isEmpty with
  | true =>
    rw [recomputeGroup_clean hre]
    refine ⟨List.Sublist.refl _, ?_, fun r hr _ => ⟨r, hr, rfl⟩, Or.inl rfl⟩
    intro r' hr' hd
    exact ⟨r', hr', rfl, Or.inl ⟨hd, rfl, rfl⟩⟩
  | false =>
    rw [recomputeGroup_static h1 h4 hc hre]
    simp only
    obtain ⟨w1, w2⟩ := walkRows_rows h3 (d := d) (sigs := sigs) (room := g.room) (ent := g.ent)
      (fromFirstDirty g.rows) (seedCursor c g.room g.ent (cleanPrefix g.rows).getLast?)
    refine ⟨?_, ?_, ?_, ?_⟩
    · rw [List.map_append]
      have := List.Sublist.append (List.Sublist.refl ((cleanPrefix g.rows).map (·.day)))
        (walkRows_days d sigs g.room g.ent (fromFirstDirty g.rows)
          (seedCursor c g.room g.ent (cleanPrefix g.rows).getLast?))
      have e : g.rows.map (·.day) =
          (cleanPrefix g.rows).map (·.day) ++ (fromFirstDirty g.rows).map (·.day) := by
        rw [← List.map_append]; exact congrArg _ hrows
      rw [e]
      exact this
    · intro r' hr' hd
      rcases List.mem_append.mp hr' with hr' | hr'
      · exact ⟨r', by rw [hrows]; simp [hr'], rfl, Or.inl ⟨hd, rfl, rfl⟩⟩
      · obtain ⟨_, r, hr, e, hcase⟩ := w1 r' hr'
        refine ⟨r, by rw [hrows]; simp [hr], e, ?_⟩
        rcases hcase with hc | hc
        · exact Or.inl hc
        · exact Or.inr hc.2
    · intro r hr hne
      rw [hrows] at hr
      rcases List.mem_append.mp hr with hr | hr
      · exact ⟨r, by simp [hr], rfl⟩
      · obtain ⟨r', hr', e⟩ := w2 r hr (Or.inr hne)
        exact ⟨r', by simp [hr'], e⟩
    · rcases walkRows_grp d sigs g.room g.ent (fromFirstDirty g.rows)
        (seedCursor c g.room g.ent (cleanPrefix g.rows).getLast?) with e | e
      · cases hl : (cleanPrefix g.rows).getLast? with
        | none => rw [hl] at e; exact Or.inl e
        | some s => rw [hl] at e; exact Or.inr e
      · exact Or.inr e

include h1 h2 h3 h4 in
/-- **the recomputation keeps the invariant of a group while marks are pending** -/
theorem recomputeGroup_pending {sigs : Content} {P : Pending} {g : Group} {c : Cursor} (hg : GInv sigs P g)
    (hc : sameGroup c g.room g.ent = false) : GInv sigs P (recomputeGroup d sigs c g).2 := by
  obtain ⟨k1, k2⟩ := recomputeGroup_key (d := d) sigs c g
  obtain ⟨r1, r2, _, _⟩ := recomputeGroup_rows h1 h3 h4 (d := d) (sigs := sigs) c g hc
  refine ⟨?_, ?_, ?_⟩
  · rw [rowsSorted_iff]
    exact List.Pairwise.sublist r1 ((rowsSorted_iff _).mp hg.sorted)
  · intro r' hr' hd hnp
    rw [k1, k2] at hnp ⊢
    obtain ⟨r, hr, e, hcase⟩ := r2 r' hr' hd
    rcases hcase with ⟨hrd, e1, e2⟩ | hright
    · have := hg.right r hr hrd (by rw [← e]; exact hnp)
      unfold RowRight at this ⊢
      rw [e, e1, e2]; exact this
    · exact hright
  · intro pre post hpp hgood
    rw [k1, k2] at hgood ⊢
    cases hlast : pre.getLast? with
    | none =>
      have : pre = [] := List.getLast?_eq_none_iff.mp hlast
      subst this; rfl
    | some lastRow =>
      -- nothing is pending at or before the last day of `pre`
      have hlm : lastRow ∈ pre := List.mem_of_getLast? hlast
      have hD : ∀ day, day ≤ lastRow.day → ¬ P g.room g.ent day := (hgood lastRow hlm).2
      have hsorted' : RowsSorted (recomputeGroup d sigs c g).2.rows := by
        rw [rowsSorted_iff]; exact List.Pairwise.sublist r1 ((rowsSorted_iff _).mp hg.sorted)
      rw [hpp] at hsorted'
      obtain ⟨sp, spo, scross⟩ := List.pairwise_append.mp hsorted'
      have hpre_le : ∀ x ∈ pre, x.day ≤ lastRow.day := by
        intro x hx
        obtain ⟨init, hinit⟩ : ∃ init, pre = init ++ [lastRow] := by
          have := List.getLast?_eq_some_iff.mp hlast
          obtain ⟨ys, hys⟩ := this
          exact ⟨ys, hys⟩
        rw [hinit] at hx sp
        rcases List.mem_append.mp hx with hx | hx
        · have := (List.pairwise_append.mp sp).2.2 x hx lastRow (by simp)
          omega
        · simp only [List.mem_singleton] at hx; rw [hx]; exact Nat.le_refl _
      have hpost_gt : ∀ x ∈ post, lastRow.day < x.day := fun x hx => scross lastRow hlm x hx
      -- cut the input at that day
      let I1 := g.rows.takeWhile (fun r => r.day ≤ lastRow.day)
      let I2 := g.rows.dropWhile (fun r => r.day ≤ lastRow.day)
      have hI : g.rows = I1 ++ I2 := (List.takeWhile_append_dropWhile).symm
      have hI1 : ∀ x ∈ I1, x.day ≤ lastRow.day := by
        intro x hx
        have : ∀ (l : List DayRow), x ∈ l.takeWhile (fun r => r.day ≤ lastRow.day) → x.day ≤ lastRow.day := by
          intro l
          induction l with
          | nil => intro h; cases h
          | cons a t ih =>
            intro h
            rw [List.takeWhile_cons] at h
            split at h
            · rename_i ha
              rcases List.mem_cons.mp h with e | e
              · subst e; simpa using ha
              · exact ih e
            · cases h
        exact this _ hx
      have hsI : RowsSorted (I1 ++ I2) := hI ▸ hg.sorted
      have hI2 : ∀ x ∈ I2, lastRow.day < x.day := by
        intro x hx
        cases hI2' : I2 with
        | nil => rw [hI2'] at hx; cases hx
        | cons b t =>
          have hb : ¬ (b.day ≤ lastRow.day) := by
            have key : ∀ (l : List DayRow) (b : DayRow) (t : List DayRow),
                l.dropWhile (fun r => decide (r.day ≤ lastRow.day)) = b :: t → ¬ (b.day ≤ lastRow.day) := by
              intro l
              induction l with
              | nil => intro b t h; cases h
              | cons a u ih =>
                intro b t h
                rw [List.dropWhile_cons] at h
                split at h
                · exact ih b t h
                · rename_i hna
                  injection h with h1 _
                  subst h1
                  simpa using hna
            exact key g.rows b t hI2'
          rw [hI2'] at hx hsI
          rcases List.mem_cons.mp hx with e | e
          · subst e; omega
          · have := (List.pairwise_cons.mp (List.pairwise_append.mp hsI).2.1).1 x e
            omega
      -- the truncated group satisfies the invariant with nothing pending
      have hgT : GInv sigs noPending { room := g.room, ent := g.ent, rows := I1 } := by
        refine ⟨(List.pairwise_append.mp hsI).1, ?_, ?_⟩
        · intro r hr hdr _
          exact hg.right r (by rw [hI]; simp [hr]) hdr (hD r.day (hI1 r hr))
        · intro p1 p2 he hgd
          refine hg.chain p1 (p2 ++ I2) (by rw [hI]; simp only at he; rw [he, List.append_assoc]) ?_
          intro r hr
          refine ⟨(hgd r hr).1, ?_⟩
          intro day hday
          have : r ∈ I1 := by simp only at he; rw [he]; simp [hr]
          exact hD day (Nat.le_trans hday (hI1 r this))
      obtain ⟨hdone, _⟩ := recomputeGroup_done h1 h2 h3 h4 (d := d) (c := c) hgT hc
      obtain ⟨R2, hR2, hR2s⟩ := recomputeGroup_prefix h1 h4 (d := d) sigs c g.room g.ent I1 I2 hc
      have hgeq : ({ room := g.room, ent := g.ent, rows := I1 ++ I2 } : Group) = g := by
        rw [← hI]
      rw [hgeq] at hR2
      -- the truncated result is the `≤ D` part of the result
      obtain ⟨rt1, _, _, _⟩ := recomputeGroup_rows h1 h3 h4 (d := d) (sigs := sigs) c
        { room := g.room, ent := g.ent, rows := I1 } hc
      have hRT_le : ∀ x ∈ (recomputeGroup d sigs c { room := g.room, ent := g.ent, rows := I1 }).2.rows,
          x.day ≤ lastRow.day := by
        intro x hx
        have : x.day ∈ I1.map (·.day) := rt1.subset (List.mem_map_of_mem hx)
        obtain ⟨y, hy, e⟩ := List.mem_map.mp this
        rw [← e]; exact hI1 y hy
      have hR2_gt : ∀ x ∈ R2, lastRow.day < x.day := by
        intro x hx
        have : x.day ∈ I2.map (·.day) := hR2s.subset (List.mem_map_of_mem hx)
        obtain ⟨y, hy, e⟩ := List.mem_map.mp this
        rw [← e]; exact hI2 y hy
      have heq := split_unique (D := lastRow.day) (hpp.symm.trans hR2) hpre_le hpost_gt hRT_le hR2_gt
      rw [heq]
      exact hdone.spec

end group


section log
variable {d : Defects} (h1 : d.historySeedDropped = false) (h2 : d.entityNotCompared = false)
  (h3 : d.emptyDayRow = false) (h4 : d.lazyScan = false)

include h1 h2 h3 h4 in
theorem recomputeFrom_pending {sigs : Content} {P : Pending} (log : Log) (c : Cursor) (hs : GroupsSorted log)
    (hg : ∀ g ∈ log, GInv sigs P g) (hc : ∀ g ∈ log, c.grp ≠ some (g.room, g.ent)) :
    (∀ g' ∈ recomputeFrom d sigs c log, GInv sigs P g' ∧ ∃ g ∈ log, g'.room = g.room ∧ g'.ent = g.ent) ∧
    GroupsSorted (recomputeFrom d sigs c log) ∧
    (∀ g ∈ log, ∀ r ∈ g.rows, sigs g.room g.ent r.day ≠ [] →
      ∃ g' ∈ recomputeFrom d sigs c log, g'.room = g.room ∧ g'.ent = g.ent ∧ ∃ r' ∈ g'.rows, r'.day = r.day) := by
  induction log generalizing c with
  | nil => simp [recomputeFrom, GroupsSorted]
  | cons g t ih =>
    have hs' : GroupsSorted t := (List.pairwise_cons.mp hs).2
    have hgt : ∀ b ∈ t, keyLt g.room g.ent b.room b.ent := (List.pairwise_cons.mp hs).1
    have hcg : sameGroup c g.room g.ent = false := (sameGroup_false_iff _ _ _).mpr (hc g List.mem_cons_self)
    have hgi := recomputeGroup_pending h1 h2 h3 h4 (d := d) (c := c) (hg g List.mem_cons_self) hcg
    obtain ⟨k1, k2⟩ := recomputeGroup_key (d := d) sigs c g
    obtain ⟨_, _, keeps, hgrp⟩ := recomputeGroup_rows h1 h3 h4 (d := d) (sigs := sigs) c g hcg
    have hc' : ∀ x ∈ t, (recomputeGroup d sigs c g).1.grp ≠ some (x.room, x.ent) := by
      intro x hx
      rcases hgrp with e | e
      · rw [e]; exact hc x (List.mem_cons_of_mem _ hx)
      · rw [e]; intro e2
        simp only [Option.some.injEq, Prod.mk.injEq] at e2
        have := hgt x hx
        rw [e2.1, e2.2] at this
        exact keyLt_irrefl _ _ this
    obtain ⟨i1, i2, i3⟩ := ih (recomputeGroup d sigs c g).1 hs'
      (fun x hx => hg x (List.mem_cons_of_mem _ hx)) hc'
    rw [recomputeFrom_cons]
    cases he : (recomputeGroup d sigs c g).2.rows.isEmpty with
    | true =>
      simp only [↓reduceIte]
      have hnil : (recomputeGroup d sigs c g).2.rows = [] := List.isEmpty_iff.mp he
      refine ⟨?_, i2, ?_⟩
      · intro g' hg'
        obtain ⟨a, x, hx, b⟩ := i1 g' hg'
        exact ⟨a, x, List.mem_cons_of_mem _ hx, b⟩
      · intro x hx r hr hne
        rcases List.mem_cons.mp hx with hx | hx
        · subst hx
          obtain ⟨r', hr', _⟩ := keeps r hr hne
          rw [hnil] at hr'; cases hr'
        · exact i3 x hx r hr hne
    | false =>
      simp only [Bool.false_eq_true, ↓reduceIte]
      refine ⟨?_, ?_, ?_⟩
      · intro g' hg'
        rcases List.mem_cons.mp hg' with hg' | hg'
        · subst hg'; exact ⟨hgi, g, List.mem_cons_self, k1, k2⟩
        · obtain ⟨a, x, hx, b⟩ := i1 g' hg'
          exact ⟨a, x, List.mem_cons_of_mem _ hx, b⟩
      · refine List.pairwise_cons.mpr ⟨?_, i2⟩
        intro x' hx'
        obtain ⟨_, x, hx, e1, e2⟩ := i1 x' hx'
        rw [k1, k2, e1, e2]
        exact hgt x hx
      · intro x hx r hr hne'
        rcases List.mem_cons.mp hx with hx | hx
        · subst hx
          obtain ⟨r', hr', hd'⟩ := keeps r hr hne'
          exact ⟨_, List.mem_cons_self, k1, k2, r', hr', hd'⟩
        · obtain ⟨g', hg', a, b, cc⟩ := i3 x hx r hr hne'
          exact ⟨g', List.mem_cons_of_mem _ hg', a, b, cc⟩

include h1 h2 h3 h4 in
/-- **a recomputation at any point of a batch keeps the invariant** -/
theorem recompute_pending {sigs : Content} {P : Pending} {log : Log} (h : WInv sigs P log) :
    WInv sigs P (recompute d sigs log) := by
  obtain ⟨a, b, c⟩ := recomputeFrom_pending h1 h2 h3 h4 (d := d) log Cursor.init h.groups h.ginv
    (fun g _ => by simp [Cursor.init])
  refine ⟨b, fun g' hg' => (a g' hg').1, ?_⟩
  intro room ent day hne
  rcases h.covers room ent day hne with hp | ⟨g, hg, hr, he, r, hrm, hrd⟩
  · exact Or.inl hp
  · subst hr he hrd
    exact Or.inr (c g hg r hrm hne)

end log

end Discret.DailyLog
