import DiscretModel.Lemmas.Query
/-
The result of a query is sorted (`sortBy` with the key-tuple order), hence: if the key tuples of the
selected rows are pairwise different, they are strictly increasing in result order — the hypothesis of the
paging theorem.
-/
namespace Discret.Query

/-! ### insertion sort -/

theorem pairwise_insertBy {α : Type} (le : α → α → Bool)
    (htot : ∀ a b, le a b = false → le b a = true)
    (htr : ∀ a b c, le a b = true → le b c = true → le a c = true)
    (x : α) (l : List α) (hl : l.Pairwise fun a b => le a b = true) :
    (insertBy le x l).Pairwise fun a b => le a b = true := by
  induction l with
  | nil => simp [insertBy]
  | cons y t ih =>
    rw [List.pairwise_cons] at hl
    obtain ⟨hy, ht⟩ := hl
    simp only [insertBy]
    cases hxy : le x y with
    | true =>
      simp only [if_true]
      refine List.pairwise_cons.mpr ⟨?_, List.pairwise_cons.mpr ⟨hy, ht⟩⟩
      intro z hz
      rcases List.mem_cons.mp hz with hz | hz
      · rw [hz]; exact hxy
      · exact htr x y z hxy (hy z hz)
    | false =>
      simp only [Bool.false_eq_true, if_false]
      refine List.pairwise_cons.mpr ⟨?_, ih ht⟩
      intro z hz
      rcases (mem_insertBy le x z t).mp hz with hz | hz
      · rw [hz]; exact htot x y hxy
      · exact hy z hz

theorem pairwise_sortBy {α : Type} (le : α → α → Bool)
    (htot : ∀ a b, le a b = false → le b a = true)
    (htr : ∀ a b c, le a b = true → le b c = true → le a c = true)
    (l : List α) : (sortBy le l).Pairwise fun a b => le a b = true := by
  induction l with
  | nil => simp [sortBy]
  | cons a t ih =>
    have : sortBy le (a :: t) = insertBy le a (sortBy le t) := rfl
    rw [this]
    exact pairwise_insertBy le htot htr a _ ih

/-! ### the order of values is a strict weak order -/

theorem ltChars_negtrans : ∀ c a b : List Char, ltChars c a = true → ltChars c b = true ∨ ltChars b a = true := by
  intro c
  induction c with
  | nil =>
    intro a b h
    cases a with
    | nil => simp [ltChars] at h
    | cons x xs =>
      cases b with
      | nil => right; simp [ltChars]
      | cons y ys => left; simp [ltChars]
  | cons z zs ih =>
    intro a b h
    cases a with
    | nil => simp [ltChars] at h
    | cons x xs =>
      cases b with
      | nil => right; simp [ltChars]
      | cons y ys =>
        simp only [ltChars, Bool.or_eq_true, decide_eq_true_eq, Bool.and_eq_true, beq_iff_eq] at h ⊢
        rcases h with h | ⟨h1, h2⟩
        · by_cases hzy : z.toNat < y.toNat
          · exact Or.inl (Or.inl hzy)
          · by_cases hyx : y.toNat < x.toNat
            · exact Or.inr (Or.inl hyx)
            · exfalso; omega
        · by_cases hzy : z.toNat < y.toNat
          · exact Or.inl (Or.inl hzy)
          · by_cases hyz : y.toNat < z.toNat
            · exact Or.inr (Or.inl (by omega))
            · have hzy' : z.toNat = y.toNat := by omega
              rcases ih xs ys h2 with h3 | h3
              · exact Or.inl (Or.inr ⟨hzy', h3⟩)
              · exact Or.inr (Or.inr ⟨by omega, h3⟩)

/-- rank of a value in the order: absent, number, text -/
def Val.rank : Val → Nat
  | .null => 0
  | .bool _ => 1
  | .int _ => 1
  | .str _ => 2

def Val.numv (v : Val) : Int := v.num?.getD 0

theorem Val.lt_iff (a b : Val) :
    a.lt b = true ↔ a.rank < b.rank ∨
      (a.rank = 1 ∧ b.rank = 1 ∧ a.numv < b.numv) ∨
      (∃ s t, a = .str s ∧ b = .str t ∧ ltChars s t = true) := by
  cases a <;> cases b <;> simp [Val.lt, Val.rank, Val.numv, Val.num?] <;>
    exact ⟨of_decide_eq_true, decide_eq_true⟩

theorem Val.lt_negtrans (c a b : Val) (h : c.lt a = true) : c.lt b = true ∨ b.lt a = true := by
  rw [Val.lt_iff] at h
  rw [Val.lt_iff, Val.lt_iff]
  rcases h with h | ⟨h1, h2, h3⟩ | ⟨s, t, hs, ht, hl⟩
  · by_cases hcb : c.rank < b.rank
    · exact Or.inl (Or.inl hcb)
    · by_cases hba : b.rank < a.rank
      · exact Or.inr (Or.inl hba)
      · exfalso; omega
  · by_cases hb : b.rank = 1
    · by_cases hcb : c.numv < b.numv
      · exact Or.inl (Or.inr (Or.inl ⟨h1, hb, hcb⟩))
      · exact Or.inr (Or.inr (Or.inl ⟨hb, h2, by omega⟩))
    · by_cases hb0 : b.rank < 1
      · exact Or.inr (Or.inl (by omega))
      · exact Or.inl (Or.inl (by omega))
  · subst hs; subst ht
    cases b with
    | str u =>
      rcases ltChars_negtrans s t u hl with h | h
      · exact Or.inl (Or.inr (Or.inr ⟨s, u, rfl, rfl, h⟩))
      · exact Or.inr (Or.inr (Or.inr ⟨u, t, rfl, rfl, h⟩))
    | null => exact Or.inr (Or.inl (by simp [Val.rank]))
    | bool x => exact Or.inr (Or.inl (by simp [Val.rank]))
    | int x => exact Or.inr (Or.inl (by simp [Val.rank]))

/-- the comparison of one key under its direction -/
def dirLt (o : Order) (x y : Val) : Bool := if o.desc then y.lt x else x.lt y

theorem dirLt_asymm (o : Order) (x y : Val) (h : dirLt o x y = true) : dirLt o y x = false := by
  unfold dirLt at *
  cases hd : o.desc
  · simp only [hd, Bool.false_eq_true, if_false] at h ⊢; exact Val.lt_asymm _ _ h
  · simp only [hd, if_true] at h ⊢; exact Val.lt_asymm _ _ h

theorem dirLt_negtrans (o : Order) (c a b : Val) (h : dirLt o c a = true) :
    dirLt o c b = true ∨ dirLt o b a = true := by
  unfold dirLt at *
  cases hd : o.desc
  · simp only [hd, Bool.false_eq_true, if_false] at h ⊢
    exact Val.lt_negtrans c a b h
  · simp only [hd, if_true] at h ⊢
    rcases Val.lt_negtrans a c b h with h1 | h1
    · exact Or.inr h1
    · exact Or.inl h1

theorem same_iff_dir (o : Order) (x y : Val) :
    x.same y = true ↔ dirLt o x y = false ∧ dirLt o y x = false := by
  unfold Val.same dirLt
  cases o.desc <;> simp <;> constructor <;> intro h <;> exact ⟨h.2, h.1⟩ <;> skip

theorem tupleLt_cons (o : Order) (os : List Order) (x y : Val) (xs ys : List Val) :
    tupleLt (o :: os) (x :: xs) (y :: ys) = (dirLt o x y || (x.same y && tupleLt os xs ys)) := by
  simp [tupleLt, dirLt]

/-- negative transitivity of the tuple order, for tuples as long as the order list -/
theorem tupleLt_negtrans (os : List Order) : ∀ c a b : List Val,
    c.length = os.length → a.length = os.length → b.length = os.length →
    tupleLt os c a = true → tupleLt os c b = true ∨ tupleLt os b a = true := by
  induction os with
  | nil => intro c a b _ _ _ h; simp [tupleLt] at h
  | cons o os ih =>
    intro c a b hc ha hb h
    cases c with
    | nil => simp at hc
    | cons c0 cs =>
    cases a with
    | nil => simp at ha
    | cons a0 as =>
    cases b with
    | nil => simp at hb
    | cons b0 bs =>
      simp only [List.length_cons, Nat.add_right_cancel_iff] at hc ha hb
      rw [tupleLt_cons] at h
      rw [tupleLt_cons, tupleLt_cons]
      simp only [Bool.or_eq_true, Bool.and_eq_true] at h ⊢
      rcases h with h | ⟨h1, h2⟩
      · rcases dirLt_negtrans o c0 a0 b0 h with h3 | h3
        · exact Or.inl (Or.inl h3)
        · exact Or.inr (Or.inl h3)
      · obtain ⟨hca, hac⟩ := (same_iff_dir o c0 a0).mp h1
        cases hcb : dirLt o c0 b0 with
        | true => exact Or.inl (Or.inl rfl)
        | false =>
          cases hbc : dirLt o b0 c0 with
          | true =>
            -- b0 < c0 ~ a0, so b0 < a0
            rcases dirLt_negtrans o b0 c0 a0 hbc with h3 | h3
            · exact Or.inr (Or.inl h3)
            · rw [hac] at h3; exact absurd h3 (by simp)
          | false =>
            have hsame_cb : c0.same b0 = true := (same_iff_dir o c0 b0).mpr ⟨hcb, hbc⟩
            -- b0 ~ a0
            have hba : dirLt o b0 a0 = false := by
              cases hx : dirLt o b0 a0 with
              | false => rfl
              | true =>
                rcases dirLt_negtrans o b0 a0 c0 hx with h3 | h3
                · rw [hbc] at h3; exact absurd h3 (by simp)
                · rw [hca] at h3; exact absurd h3 (by simp)
            have hab : dirLt o a0 b0 = false := by
              cases hx : dirLt o a0 b0 with
              | false => rfl
              | true =>
                rcases dirLt_negtrans o a0 b0 c0 hx with h3 | h3
                · rw [hac] at h3; exact absurd h3 (by simp)
                · rw [hcb] at h3; exact absurd h3 (by simp)
            have hsame_ba : b0.same a0 = true := (same_iff_dir o b0 a0).mpr ⟨hba, hab⟩
            rcases ih cs as bs hc ha hb h2 with h3 | h3
            · exact Or.inl (Or.inr ⟨hsame_cb, h3⟩)
            · exact Or.inr (Or.inr ⟨hsame_ba, h3⟩)

/-! ### the result of a query is sorted; different keys are strictly increasing -/

theorem rows_sorted (d : Defects) (s : Schema) (data : Data) (fuel : Nat) (key : String) (q : Query)
    (cands : List Row) :
    (evalRows d s data (fuel + 1) key (fullQuery q) cands false).Pairwise fun a b =>
      tupleLe q.orders (keysOf d s q.ent q.orders a) (keysOf d s q.ent q.orders b) = true := by
  rw [evalRows_fullQuery]
  apply pairwise_sortBy
  · intro a b h
    simp only [tupleLe, Bool.not_eq_eq_eq_not, Bool.not_false] at h
    simp only [tupleLe, Bool.not_eq_eq_eq_not, Bool.not_true]
    exact tupleLt_asymm _ _ _ h
  · intro a b c h1 h2
    simp only [tupleLe, Bool.not_eq_eq_eq_not, Bool.not_true] at h1 h2 ⊢
    cases h : tupleLt q.orders (keysOf d s q.ent q.orders c) (keysOf d s q.ent q.orders a) with
    | false => rfl
    | true =>
      rcases tupleLt_negtrans q.orders _ _ (keysOf d s q.ent q.orders b)
        (keysOf_length _ _ _ _ _) (keysOf_length _ _ _ _ _) (keysOf_length _ _ _ _ _) h with h3 | h3
      · rw [h2] at h3; exact absurd h3 (by simp)
      · rw [h1] at h3; exact absurd h3 (by simp)

/-- two key tuples are equivalent for the ordering -/
def tupleSame (os : List Order) (a b : List Val) : Bool := !tupleLt os a b && !tupleLt os b a

/-- if the key tuples of the selected rows are pairwise different, they are strictly increasing in result order -/
theorem rows_strict_of_distinct (d : Defects) (s : Schema) (data : Data) (fuel : Nat) (key : String) (q : Query)
    (cands : List Row)
    (hdistinct : (evalRows d s data (fuel + 1) key (fullQuery q) cands false).Pairwise fun a b =>
      tupleSame q.orders (keysOf d s q.ent q.orders a) (keysOf d s q.ent q.orders b) = false) :
    (evalRows d s data (fuel + 1) key (fullQuery q) cands false).Pairwise fun a b =>
      tupleLt q.orders (keysOf d s q.ent q.orders a) (keysOf d s q.ent q.orders b) = true := by
  have hs := rows_sorted d s data fuel key q cands
  have := List.Pairwise.and hs hdistinct
  apply List.Pairwise.imp _ this
  intro a b ⟨h1, h2⟩
  simp only [tupleLe, Bool.not_eq_eq_eq_not, Bool.not_true] at h1
  simp only [tupleSame, h1, Bool.not_false, Bool.and_true, Bool.not_eq_eq_eq_not, Bool.not_false] at h2
  exact h2

end Discret.Query
