import DiscretModel.Lemmas.SqlCompile
import DiscretModel.Model.SqlSemAgg
/-
Aggregate queries: the statement `Model/SqlGenAgg.lean` generates means, under `Model/SqlSemAgg.lean`, what the
reference evaluator's `evalGroups` computes for the code as it is.
-/
namespace Discret.SqlCompile
open Discret.Query Discret.SqlGen Discret.SqlSem

/-! ## Grouping and extremes commute with the encoding -/

theorem groupBy_map {α β : Type} (f : α → β) (same : α → α → Bool) (same' : β → β → Bool)
    (h : ∀ a b, same' (f a) (f b) = same a b) :
    ∀ l : List α, groupBy same' (l.map f) = (groupBy same l).map (List.map f) := by
  intro l
  induction l with
  | nil => rfl
  | cons r rest ih =>
    simp only [List.map_cons, groupBy, ih]
    have hany : ((groupBy same rest).map (List.map f)).any (leads same' (f r)) =
        (groupBy same rest).any (leads same r) := by
      rw [List.any_map]
      congr 1
      funext g
      cases g <;> simp [leads, h]
    rw [hany]
    split
    · rw [List.map_map, List.map_map]
      apply List.map_congr_left
      intro g _
      cases g with
      | nil => rfl
      | cons x t =>
        simp only [Function.comp, List.map_cons, joinGroup, h]
        split <;> rfl
    · rfl

theorem groupRows_eq (q : Query) : ∀ l : List Row,
    groupRows q l = groupBy (fun x r => sameKeys (groupKey q x) (groupKey q r)) l := by
  intro l
  induction l with
  | nil => rfl
  | cons r rest ih =>
    simp only [groupRows, groupBy, ih]
    have key : ∀ (gs : List (List Row)) (p1 p2 : List Row → Bool) (j1 j2 : List Row → List Row),
        (∀ g, p1 g = p2 g) → (∀ g, j1 g = j2 g) →
        (if gs.any p1 = true then gs.map j1 else [r] :: gs) = (if gs.any p2 = true then gs.map j2 else [r] :: gs) := by
      intro gs p1 p2 j1 j2 hp hj
      have e1 : p1 = p2 := funext hp
      have e2 : j1 = j2 := funext hj
      rw [e1, e2]
    apply key
    · intro g; cases g <;> rfl
    · intro g; cases g <;> rfl

theorem mem_groupBy {α : Type} (same : α → α → Bool) : ∀ (l : List α), ∀ g ∈ groupBy same l, ∀ x ∈ g, x ∈ l := by
  intro l
  induction l with
  | nil => intro g hg; simp [groupBy] at hg
  | cons r rest ih =>
    intro g hg x hx
    simp only [groupBy] at hg
    split at hg
    · obtain ⟨g0, hg0, hge⟩ := List.mem_map.mp hg
      cases g0 with
      | nil => rw [← hge] at hx; simp [joinGroup] at hx
      | cons y t =>
        simp only [joinGroup] at hge
        split at hge
        · rw [← hge] at hx
          rcases List.mem_cons.mp hx with h | h
          · rw [h]; simp
          · exact List.mem_cons_of_mem _ (ih _ hg0 x h)
        · rw [← hge] at hx; exact List.mem_cons_of_mem _ (ih _ hg0 x hx)
    · rcases List.mem_cons.mp hg with h | h
      · rw [h] at hx; simp at hx; rw [hx]; simp
      · exact List.mem_cons_of_mem _ (ih g h x hx)

theorem pick_map (lt : Val → Val → Bool) (lt' : SqlVal → SqlVal → Bool)
    (h : ∀ a b, lt' (SqlVal.ofScalar a) (SqlVal.ofScalar b) = lt a b) :
    ∀ l : List Val, pick lt' (l.map SqlVal.ofScalar) = (pickBy lt l).map SqlVal.ofScalar := by
  intro l
  induction l with
  | nil => rfl
  | cons v rest ih =>
    simp only [List.map_cons, pick, pickBy, ih]
    cases pickBy lt rest with
    | none => rfl
    | some w => simp only [Option.map_some, h]; split <;> rfl

/-! ## `evalGroups` restated -/

def jVal : Option J → Val
  | some (J.int i) => Val.int i
  | some (J.str t) => Val.str t
  | some (J.bool b) => Val.bool b
  | _ => Val.null

def findKey (row : List (String × J)) (n : String) : Option J := (row.find? (·.1 = n)).map (·.2)

/-- the result row of a group -/
def rowOf (s : Schema) (q : Query) (g : List Row) : List (String × J) :=
  q.sels.filterMap fun sel =>
    match sel with
    | .scalar key fld =>
      (match fieldDef s q.ent fld, g with
       | some fd, x :: _ => some (key, J.ofVal (selected D fd (x.stored fld)))
       | _, _ => some (key, .null))
    | .agg key fn fld => some (key, aggValue D fn fld g)
    | _ => none

def okA (s : Schema) (data : Data) (fuel : Nat) (key : String) (q : Query) (r : Row) : Bool :=
  r.ent = q.ent && (q.filters.filter fun f => !isHaving q f).all (filterHolds D s q.ent r) &&
    q.sels.all (fun sel => subPresent D s data fuel key r sel)

def havingA (q : Query) (row : List (String × J)) : Bool :=
  (q.filters.filter (isHaving q)).all fun f => compare? f.op (jVal (findKey row f.name)) f.value

def rowLeA (q : Query) (a b : List (String × J)) : Bool :=
  tupleLe q.orders (q.orders.map fun o => jVal (findKey a o.name)) (q.orders.map fun o => jVal (findKey b o.name))

theorem evalGroups_eq (s : Schema) (data : Data) (fuel : Nat) (key : String) (q : Query) (cands : List Row) :
    evalGroups D s data fuel key q cands =
      (sortBy (rowLeA q)
        (((if (groupFields q).isEmpty then [cands.filter (okA s data fuel key q)]
           else groupRows q (cands.filter (okA s data fuel key q))).map (rowOf s q)).filter (havingA q))).map J.obj := by
  rfl

/-! ## One group: projection and aggregates -/

def okStored : Option Val → Bool
  | none => true
  | some (.int _) => true
  | some (.str _) => true
  | _ => false

theorem pickBy_mem (lt : Val → Val → Bool) : ∀ (l : List Val) (v : Val), pickBy lt l = some v → v ∈ l := by
  intro l
  induction l with
  | nil => intro v h; simp [pickBy] at h
  | cons a t ih =>
    intro v h
    simp only [pickBy] at h
    cases hp : pickBy lt t with
    | none => rw [hp] at h; simp at h; rw [← h]; simp
    | some w =>
      rw [hp] at h
      simp only at h
      split at h
      · simp at h; rw [← h]; exact List.mem_cons_of_mem _ (ih w hp)
      · simp at h; rw [← h]; simp

theorem aggLt_D : aggLt D = Val.lt := by
  funext a b; simp [aggLt, D, Defects.asImplemented]

/-- the non-NULL SQL values of a field over a group are the stored values the evaluator collects -/
theorem groupVals (nm : Names) (ent fld : Nat) (hinj : ∀ a b, nm.fieldShort ent a = nm.fieldShort ent b → a = b) :
    ∀ g : List Row, (∀ x ∈ g, x.ent = ent ∧ okStored (x.stored fld) = true) →
      (((g.map (encodeRow nm)).map fun r => lhsVal r [] (.json (nm.fieldShort ent fld))).filter (· ≠ SqlVal.null)) =
        (g.filterMap fun r => r.stored fld).map SqlVal.ofScalar ∧
      ∀ v ∈ (g.filterMap fun r => r.stored fld), ∀ b, v ≠ .bool b := by
  intro g
  induction g with
  | nil => intro _; exact ⟨rfl, by simp⟩
  | cons x t ih =>
    intro h
    obtain ⟨hx, hok⟩ := h x (by simp)
    obtain ⟨ih1, ih2⟩ := ih (fun y hy => h y (by simp [hy]))
    subst hx
    have hl : lhsVal (encodeRow nm x) [] (.json (nm.fieldShort x.ent fld)) =
        (match x.stored fld with | some v => SqlVal.ofScalar v | none => .null) := by
      simp only [lhsVal]; rw [assoc_encode nm x hinj fld]
      cases x.stored fld <;> rfl
    cases hs : x.stored fld with
    | none =>
      rw [hs] at hl
      simp only [List.map_cons, List.filter_cons, hl, List.filterMap_cons, hs]
      simp only [ne_eq, not_true_eq_false, decide_false, Bool.false_eq_true, if_false]
      exact ⟨ih1, ih2⟩
    | some v =>
      rw [hs] at hl hok
      cases v with
      | null => simp [okStored] at hok
      | bool b => simp [okStored] at hok
      | int i =>
        simp only [List.map_cons, List.filter_cons, hl, List.filterMap_cons, hs]
        simp only [SqlVal.ofScalar, ne_eq, reduceCtorEq, not_false_eq_true, decide_true, if_true]
        refine ⟨by rw [ih1], ?_⟩
        intro w hw b
        rcases List.mem_cons.mp hw with h1 | h1
        · rw [h1]; simp
        · exact ih2 w h1 b
      | str t' =>
        simp only [List.map_cons, List.filter_cons, hl, List.filterMap_cons, hs]
        simp only [SqlVal.ofScalar, ne_eq, reduceCtorEq, not_false_eq_true, decide_true, if_true]
        refine ⟨by rw [ih1], ?_⟩
        intro w hw b
        rcases List.mem_cons.mp hw with h1 | h1
        · rw [h1]; simp
        · exact ih2 w h1 b

def aggExprOf (nm : Names) (ent : Nat) (fn : AggFn) (fld : Nat) : AggExpr :=
  match fn with
  | .count => .count
  | .min => .min (nm.fieldShort ent fld)
  | .max => .max (nm.fieldShort ent fld)

/-- **aggregates**: `count`, `min`, `max` over the stored rows of a group are the evaluator's -/
theorem aggVal_spec (nm : Names) (ent : Nat) (hinj : ∀ a b, nm.fieldShort ent a = nm.fieldShort ent b → a = b)
    (fn : AggFn) (fld : Nat) (g : List Row)
    (hg : ∀ x ∈ g, x.ent = ent ∧ (fn = .count ∨ okStored (x.stored fld) = true)) :
    aggVal (g.map (encodeRow nm)) (aggExprOf nm ent fn fld) = aggValue D fn fld g := by
  cases fn with
  | count => simp [aggExprOf, aggVal, aggValue]
  | min =>
    obtain ⟨h1, h2⟩ := groupVals nm ent fld hinj g (fun x hx => ⟨(hg x hx).1, by
      rcases (hg x hx).2 with h | h
      · exact absurd h (by simp)
      · exact h⟩)
    simp only [aggExprOf, aggVal, aggValue, h1, aggLt_D]
    rw [pick_map Val.lt SqlVal.lt lt_ofScalar]
    cases hp : pickBy Val.lt (g.filterMap fun r => r.stored fld) with
    | none => rfl
    | some v =>
      simp only [Option.map_some]
      exact toJ_ofScalar_of_not_bool v (h2 v (pickBy_mem _ _ v hp))
  | max =>
    obtain ⟨h1, h2⟩ := groupVals nm ent fld hinj g (fun x hx => ⟨(hg x hx).1, by
      rcases (hg x hx).2 with h | h
      · exact absurd h (by simp)
      · exact h⟩)
    simp only [aggExprOf, aggVal, aggValue, h1, aggLt_D]
    rw [pick_map (fun a b => Val.lt b a) (fun a b => SqlVal.lt b a) (fun a b => lt_ofScalar b a)]
    cases hp : pickBy (fun a b => Val.lt b a) (g.filterMap fun r => r.stored fld) with
    | none => rfl
    | some v =>
      simp only [Option.map_some]
      exact toJ_ofScalar_of_not_bool v (h2 v (pickBy_mem _ _ v hp))

/-- what the evaluator returns for one selection of a group -/
def rowSpec (s : Schema) (ent : Nat) (g : List Row) : Sel → String × J
  | .scalar key fld =>
    (key, match fieldDef s ent fld, g with
          | some fd, x :: _ => J.ofVal (selected D fd (x.stored fld))
          | _, _ => .null)
  | .agg key fn fld => (key, aggValue D fn fld g)
  | sel => (Sel.key sel, .null)

theorem rowSpec_key (s : Schema) (ent : Nat) (g : List Row) (sel : Sel) : (rowSpec s ent g sel).1 = Sel.key sel := by
  cases sel <;> rfl

theorem filterMap_eq_map {α β : Type} (f : α → Option β) (g : α → β) :
    ∀ l : List α, (∀ x ∈ l, f x = some (g x)) → l.filterMap f = l.map g := by
  intro l
  induction l with
  | nil => intro _; rfl
  | cons a t ih =>
    intro h
    rw [List.filterMap_cons, h a (by simp), List.map_cons, ih (fun x hx => h x (by simp [hx]))]

theorem rowOf_eq (s : Schema) (q : Query) (g : List Row) (h : ∀ sel ∈ q.sels, selOkA s q.ent sel = true) :
    rowOf s q g = q.sels.map (rowSpec s q.ent g) := by
  unfold rowOf
  apply filterMap_eq_map
  intro sel hsel
  have hs := h sel hsel
  cases sel with
  | scalar k f =>
    simp only [rowSpec]
    cases fieldDef s q.ent f <;> cases g <;> rfl
  | agg k fn f => rfl
  | id _ => simp [selOkA] at hs
  | json _ _ _ => simp [selOkA] at hs
  | sub _ _ _ _ => simp [selOkA] at hs

theorem groupFieldOk_def {s : Schema} {ent fld : Nat} (h : groupFieldOk s ent fld = true) :
    ∃ fd, fieldDef s ent fld = some fd ∧ fd.dflt = none := by
  unfold groupFieldOk at h
  cases hf : fieldDef s ent fld with
  | none => simp [hf] at h
  | some fd =>
    simp only [hf, Bool.and_eq_true, beq_iff_eq] at h
    exact ⟨fd, rfl, h.2⟩

/-- the condition on the stored data of a group, per selection -/
def selDataOk (g : List Row) : Sel → Prop
  | .agg _ fn fld => ∀ x ∈ g, fn = .count ∨ okStored (x.stored fld) = true
  | _ => True

/-- **projection of a group** -/
theorem projLoopA_spec (nm : Names) (s : Schema) (ent : Nat)
    (hinj : ∀ a b, nm.fieldShort ent a = nm.fieldShort ent b → a = b) (bv : Nat → SqlVal) :
    ∀ (sels : List Sel) (ps : Binds), (∀ sel ∈ sels, selOkA s ent sel = true) →
      (projLoopA nm s ent ps sels).1 = ps ∧
      ∀ (g : List Row), (∀ x ∈ g, x.ent = ent) → (∀ sel ∈ sels, selDataOk g sel) →
        valueOfA bv (projLoopA nm s ent ps sels).2 (g.map (encodeRow nm)) = sels.map (rowSpec s ent g) := by
  intro sels
  induction sels with
  | nil => intro ps _; exact ⟨rfl, fun _ _ _ => rfl⟩
  | cons sel rest ih =>
    intro ps hok
    have hrest : ∀ x ∈ rest, selOkA s ent x = true := fun x hx => hok x (by simp [hx])
    have hsel := hok sel (by simp)
    obtain ⟨ihb, ihv⟩ := ih ps hrest
    cases sel with
    | scalar key fld =>
      obtain ⟨fd, hfd, hd⟩ := groupFieldOk_def (show groupFieldOk s ent fld = true from hsel)
      have hdv : defaultOf s ent fld = none := by simp [defaultOf, hfd, hd]
      refine ⟨by simp only [projLoopA, hdv]; exact ihb, ?_⟩
      intro g hg hdata
      simp only [projLoopA, hdv]
      show (key, projValA bv (g.map (encodeRow nm)) (.col (.field (nm.fieldShort ent fld)))) ::
        valueOfA bv (projLoopA nm s ent ps rest).2 (g.map (encodeRow nm)) = _
      rw [ihv g hg (fun x hx => hdata x (by simp [hx])), List.map_cons]
      congr 1
      simp only [rowSpec, hfd]
      cases g with
      | nil => rfl
      | cons x t =>
        have hx := hg x (by simp)
        subst hx
        simp only [List.map_cons, projValA, projVal]
        rw [assoc_encode nm x hinj fld, ofVal_selected, hd]
        cases x.stored fld <;> rfl
    | agg key fn fld =>
      refine ⟨by simp only [projLoopA]; exact ihb, ?_⟩
      intro g hg hdata
      simp only [projLoopA]
      show (key, projValA bv (g.map (encodeRow nm)) (.agg (aggExprOf nm ent fn fld))) ::
        valueOfA bv (projLoopA nm s ent ps rest).2 (g.map (encodeRow nm)) = _
      rw [ihv g hg (fun x hx => hdata x (by simp [hx])), List.map_cons]
      congr 1
      simp only [rowSpec, projValA]
      rw [aggVal_spec nm ent hinj fn fld g (fun x hx => ⟨hg x hx, hdata (.agg key fn fld) (by simp) x hx⟩)]
    | id _ => simp [selOkA] at hsel
    | json _ _ _ => simp [selOkA] at hsel
    | sub _ _ _ _ => simp [selOkA] at hsel

/-! ## WHERE, HAVING, ORDER BY -/

theorem whereLoopA_spec (env : String → Val) (nm : Names) (s : Schema) (q : Query) (vn : Nat → String)
    (hinj : ∀ a b, nm.fieldShort q.ent a = nm.fieldShort q.ent b → a = b) :
    ∀ (fs : List Filter) (ps : Binds) (i : Nat),
      (∀ f ∈ fs, isHaving q f = false → f.onAlias = false ∧ fieldOk s q.ent f.fld = true ∧
        (f.isParam || f.value != .null || defaultOf s q.ent f.fld == none) = true) →
      (∀ j f, fs[j]? = some f → f.isParam = true → env (vn (i + j)) = f.value) →
      ∃ e, (whereLoopA nm s q vn ps i fs).1 = ps ++ e ∧
        ∀ (more : Binds) (r : Row), r.ent = q.ent →
          ((∀ c ∈ (whereLoopA nm s q vn ps i fs).2,
              cond3 (bindVal env ((whereLoopA nm s q vn ps i fs).1 ++ more)) (encodeRow nm r) [] c = some true) ↔
            ∀ f ∈ fs.filter (fun f => !isHaving q f), filterHolds D s q.ent r f = true) := by
  intro fs
  induction fs with
  | nil => intro ps i _ _; exact ⟨[], by simp [whereLoopA], fun _ _ _ => by simp [whereLoopA]⟩
  | cons f rest ih =>
    intro ps i hwf henv
    have hrest := fun g hg => hwf g (List.mem_cons_of_mem _ hg)
    have henvr : ∀ j g, rest[j]? = some g → g.isParam = true → env (vn (i + 1 + j)) = g.value := by
      intro j g hj hp
      have := henv (j + 1) g (by simpa using hj) hp
      rw [← this]; congr 2; omega
    cases hh : isHaving q f with
    | true =>
      obtain ⟨e, he, hv⟩ := ih ps (i + 1) hrest henvr
      refine ⟨e, by simp only [whereLoopA, hh, if_true]; exact he, ?_⟩
      intro more r hr
      simp only [whereLoopA, hh, if_true, List.filter_cons, Bool.not_true, Bool.false_eq_true, if_false]
      exact hv more r hr
    | false =>
      obtain ⟨ha, hf, hn⟩ := hwf f (by simp) hh
      obtain ⟨e1, he1, h1⟩ := filterCond_spec env nm s q.ent hinj [] (fun _ => []) (fun _ _ _ h => by simp at h)
        ps (vn i) f hf (by simp [ha]) hn (fun hp => by have := henv 0 f (by simp) hp; simpa using this)
      obtain ⟨e2, he2, h2⟩ := ih (filterCond nm s q.ent ps (vn i) f).1 (i + 1) hrest henvr
      refine ⟨e1 ++ e2, by simp only [whereLoopA, hh, Bool.false_eq_true, if_false]; rw [he2, he1, List.append_assoc], ?_⟩
      intro more r hr
      simp only [whereLoopA, hh, Bool.false_eq_true, if_false, List.filter_cons, Bool.not_false, if_true,
        List.mem_cons, forall_eq_or_imp]
      have hhead := h1 (e2 ++ more) r hr
      rw [← List.append_assoc, ← he2] at hhead
      rw [hhead, h2 more r hr]

theorem assoc_eq_findKey (n : String) : ∀ row : List (String × J), assoc n row = findKey row n := by
  intro row
  induction row with
  | nil => rfl
  | cons a t ih =>
    obtain ⟨k, v⟩ := a
    by_cases h : k = n
    · simp [assoc, findKey, List.find?, h]
    · simp only [assoc, h, if_false, ih, findKey, List.find?, decide_false]

theorem lhsVal_value (row0 : NodeRow) (row : List (String × J)) (n : String) :
    lhsVal row0 row (.value n) = SqlVal.ofScalar (jVal (findKey row n)) := by
  simp only [lhsVal, assoc_eq_findKey]
  cases findKey row n with
  | none => rfl
  | some j => cases j <;> rfl

theorem havingLoop_spec (env : String → Val) (q : Query) (vn : Nat → String) :
    ∀ (fs : List Filter) (ps : Binds) (i : Nat),
      (∀ f ∈ fs, isHaving q f = true → (f.isParam = true ∨ f.value ≠ .null)) →
      (∀ j f, fs[j]? = some f → f.isParam = true → env (vn (i + j)) = f.value) →
      ∃ e, (havingLoop q vn ps i fs).1 = ps ++ e ∧
        ∀ (more : Binds) (row0 : NodeRow) (row : List (String × J)),
          ((∀ a ∈ (havingLoop q vn ps i fs).2,
              atom3 (bindVal env ((havingLoop q vn ps i fs).1 ++ more)) row0 row a = some true) ↔
            ∀ f ∈ fs.filter (isHaving q), compare? f.op (jVal (findKey row f.name)) f.value = true) := by
  intro fs
  induction fs with
  | nil => intro ps i _ _; exact ⟨[], by simp [havingLoop], fun _ _ _ => by simp [havingLoop]⟩
  | cons f rest ih =>
    intro ps i hwf henv
    have hrest := fun g hg => hwf g (List.mem_cons_of_mem _ hg)
    have henvr : ∀ j g, rest[j]? = some g → g.isParam = true → env (vn (i + 1 + j)) = g.value := by
      intro j g hj hp
      have := henv (j + 1) g (by simpa using hj) hp
      rw [← this]; congr 2; omega
    cases hh : isHaving q f with
    | false =>
      obtain ⟨e, he, hv⟩ := ih ps (i + 1) hrest henvr
      refine ⟨e, by simp only [havingLoop, hh, Bool.false_eq_true, if_false]; exact he, ?_⟩
      intro more row0 row
      simp only [havingLoop, hh, Bool.false_eq_true, if_false, List.filter_cons]
      exact hv more row0 row
    | true =>
      obtain ⟨e1, he1, hval⟩ := filterValue_spec env ps (vn i) f
        (fun hp => by have := henv 0 f (by simp) hp; simpa using this)
      obtain ⟨e2, he2, h2⟩ := ih (filterValue ps (vn i) f).1 (i + 1) hrest henvr
      refine ⟨e1 ++ e2, by simp only [havingLoop, hh, if_true]; rw [he2, he1, List.append_assoc], ?_⟩
      intro more row0 row
      simp only [havingLoop, hh, if_true, List.filter_cons, List.mem_cons, forall_eq_or_imp]
      rw [h2 more row0 row]
      rcases hval with ⟨hp, hv, _, _⟩ | ⟨_, hop, hst⟩
      · rcases hwf f (by simp) hh with h | h
        · rw [hp] at h; exact absurd h (by simp)
        · exact absurd hv h
      · have hr : operand (bindVal env ((havingLoop q vn (filterValue ps (vn i) f).1 (i + 1) rest).1 ++ more))
            (filterValue ps (vn i) f).2.1 = SqlVal.ofScalar f.value := by
          rw [he2, List.append_assoc]; exact hst _
        rw [hop, atom_true_iff _ _ _ _ _ f.op _ f.value (lhsVal_value row0 row f.name) hr]

theorem jVal_ofVal (v : Val) : jVal (some (J.ofVal v)) = v := by cases v <;> rfl


theorem assoc_map_sel' (P : Sel → String × J) (hk : ∀ sel, (P sel).1 = Sel.key sel) (name : String) (fld : Nat) :
    ∀ sels : List Sel, distinctKeys (sels.map Sel.key) = true →
      sels.any (isScalarSel name fld) = true →
      assoc name (sels.map P) = some (P (.scalar name fld)).2 := by
  intro sels
  induction sels with
  | nil => intro _ h; simp at h
  | cons sel rest ih =>
    intro hd ha
    simp only [List.map_cons, distinctKeys, Bool.and_eq_true, Bool.not_eq_eq_eq_not, Bool.not_true] at hd
    obtain ⟨hnot, hdr⟩ := hd
    simp only [List.any_cons, Bool.or_eq_true] at ha
    by_cases hkn : Sel.key sel = name
    · have hhead : sel = .scalar name fld := by
        rcases ha with ha | ha
        · exact (isScalarSel_iff name fld sel).mp ha
        · exfalso
          obtain ⟨x, hx, hxm⟩ := List.any_eq_true.mp ha
          have hxe := (isScalarSel_iff name fld x).mp hxm
          have : name ∈ rest.map Sel.key := List.mem_map.mpr ⟨x, hx, by rw [hxe]; rfl⟩
          rw [← hkn] at this
          have hc : (rest.map Sel.key).contains (Sel.key sel) = true := List.contains_iff_mem.mpr this
          rw [hc] at hnot; exact absurd hnot (by simp)
      subst hhead
      have h1 : (P (Sel.scalar name fld)).1 = name := by rw [hk]; rfl
      show assoc name (((P (Sel.scalar name fld)).1, (P (Sel.scalar name fld)).2) :: _) = _
      simp only [assoc, h1, if_true]
    · have hrest : rest.any (isScalarSel name fld) = true := by
        rcases ha with ha | ha
        · exfalso
          rw [(isScalarSel_iff name fld sel).mp ha] at hkn
          exact hkn rfl
        · exact ha
      rw [← ih hdr hrest, List.map_cons]
      have hne : (P sel).1 ≠ name := by rw [hk]; exact hkn
      show assoc name (((P sel).1, (P sel).2) :: _) = _
      simp only [assoc, hne, if_false]

/-! ## The statement as a whole -/

theorem inFragmentA_parts {s : Schema} {q : Query} (h : inFragmentA s q = true) :
    q.isAggregate = true ∧ (∀ sel ∈ q.sels, selOkA s q.ent sel = true) ∧ distinctKeys (q.sels.map Sel.key) = true ∧
    (∀ f ∈ q.filters, filterOkA s q f = true) ∧ (∀ o ∈ q.orders, orderOkA q o = true) ∧ q.first = 0 ∧ q.skip = 0 := by
  simp only [inFragmentA, Bool.and_eq_true, List.all_eq_true, beq_iff_eq] at h
  obtain ⟨⟨⟨⟨⟨⟨⟨⟨h1, h2⟩, h3⟩, h4⟩, h5⟩, h6⟩, h7⟩, _⟩, _⟩ := h
  exact ⟨h1, h2, h3, h4, h5, h6, h7⟩

theorem sameKeys_iff (ka kb : Nat → Val) : ∀ l : List Nat,
    sameKeys (l.map ka) (l.map kb) = decide (l.map (fun f => SqlVal.ofScalar (ka f)) = l.map (fun f => SqlVal.ofScalar (kb f))) := by
  intro l
  induction l with
  | nil => simp [sameKeys]
  | cons f t ih =>
    simp only [List.map_cons, sameKeys, ih]
    rw [Bool.eq_iff_iff]
    simp only [Bool.and_eq_true, decide_eq_true_eq, List.cons.injEq, eq_ofScalar_iff]

theorem whereHoldsA_iff (st : SqlSelectA) (bv : Nat → SqlVal) (row : NodeRow) :
    whereHoldsA st bv row = true ↔
      row.entity = st.entity ∧ ∀ c ∈ st.filters, cond3 bv row [] c = some true := by
  unfold whereHoldsA
  simp only [decide_eq_true_eq]
  rw [all3_true_iff]
  constructor
  · intro h
    refine ⟨?_, ?_⟩
    · have := h (some (decide (row.entity = st.entity))) (by simp)
      simpa using this
    · intro c hc
      exact h _ (by simp only [List.mem_append, List.mem_map]; exact Or.inr ⟨c, hc, rfl⟩)
  · rintro ⟨h1, h2⟩ x hx
    simp only [List.mem_append, List.mem_cons, List.not_mem_nil, or_false, List.mem_map] at hx
    rcases hx with hx | ⟨c, hc, hx⟩
    · rw [hx]; simp [h1]
    · rw [← hx]; exact h2 c hc

/-- **the compiled aggregate statement computes the evaluator's result** (see `C05_compile_correct_agg`) -/
theorem compileA_correct (nm : Names) (s : Schema) (data : Data) (q : Query) (vn : Nat → String) (env : String → Val)
    (fuel : Nat) (rootKey : String)
    (hfrag : inFragmentA s q = true) (hdata : aggDataOk q data = true)
    (hent : ∀ a b, nm.entShort a = nm.entShort b → a = b)
    (hfld : ∀ a b, nm.fieldShort q.ent a = nm.fieldShort q.ent b → a = b)
    (henv : ∀ i f, q.filters[i]? = some f → f.isParam = true → env (vn i) = f.value) :
    runA (encode nm data) (compileA nm s vn q) env = eval D s data fuel rootKey q := by
  obtain ⟨hagg, hsels, hdist, hfil, hord, hfirst, hskip⟩ := inFragmentA_parts hfrag
  have henv0 : ∀ j f, q.filters[j]? = some f → f.isParam = true → env (vn (0 + j)) = f.value := by
    intro j f hj hp; rw [Nat.zero_add]; exact henv j f hj hp
  -- the pieces of the statement
  obtain ⟨hpb, hproj⟩ := projLoopA_spec nm s q.ent hfld (bindVal env (compileA nm s vn q).binds) q.sels [] hsels
  obtain ⟨e2, he2, hwhere⟩ := whereLoopA_spec env nm s q vn hfld q.filters (projLoopA nm s q.ent [] q.sels).1 0
    (fun f hf hh => by
      have := hfil f hf
      simp only [filterOkA, hh, Bool.false_eq_true, if_false, Bool.and_eq_true, Bool.not_eq_eq_eq_not, Bool.not_true] at this
      exact ⟨this.2.1.1, this.2.1.2, this.2.2⟩) henv0
  obtain ⟨e3, he3, hhaving⟩ := havingLoop_spec env q vn q.filters
    (whereLoopA nm s q vn (projLoopA nm s q.ent [] q.sels).1 0 q.filters).1 0
    (fun f hf hh => by
      have := hfil f hf
      simp only [filterOkA, hh, if_true, Bool.and_eq_true, Bool.or_eq_true, bne_iff_ne, ne_eq] at this
      exact this.2) henv0
  have hbinds : (compileA nm s vn q).binds =
      (havingLoop q vn (whereLoopA nm s q vn (projLoopA nm s q.ent [] q.sels).1 0 q.filters).1 0 q.filters).1 := rfl
  -- WHERE
  have hok : ∀ r : Row, whereHoldsA (compileA nm s vn q) (bindVal env (compileA nm s vn q).binds) (encodeRow nm r) =
      okA s data fuel rootKey q r := by
    intro r
    rw [Bool.eq_iff_iff, whereHoldsA_iff]
    have hsub : (q.sels.all fun sel => subPresent D s data fuel rootKey r sel) = true :=
      List.all_eq_true.mpr fun sel hsel => by
        have := hsels sel hsel
        cases sel <;> simp_all [subPresent, selOkA]
    simp only [okA, hsub, Bool.and_true, Bool.and_eq_true, decide_eq_true_eq, List.all_eq_true]
    have hentity : (encodeRow nm r).entity = (compileA nm s vn q).entity ↔ r.ent = q.ent := by
      show nm.entShort r.ent = nm.entShort q.ent ↔ _
      exact ⟨hent _ _, fun h => by rw [h]⟩
    constructor
    · rintro ⟨h1, h2⟩
      have hr := hentity.mp h1
      have := hwhere e3 r hr
      rw [← he3, ← hbinds] at this
      exact ⟨hr, this.mp h2⟩
    · rintro ⟨hr, h2⟩
      have := hwhere e3 r hr
      rw [← he3, ← hbinds] at this
      exact ⟨hentity.mpr hr, this.mpr h2⟩
  -- the groups
  let ok := data.filter (okA s data fuel rootKey q)
  have hokmem : ∀ r ∈ ok, r ∈ data ∧ r.ent = q.ent := by
    intro r hr
    obtain ⟨h1, h2⟩ := List.mem_filter.mp hr
    simp only [okA, Bool.and_eq_true, decide_eq_true_eq] at h2
    exact ⟨h1, h2.1.1⟩
  let G := if (groupFields q).isEmpty then [ok] else groupRows q ok
  have hG : ∀ g ∈ G, ∀ x ∈ g, x ∈ ok := by
    intro g hg x hx
    by_cases he : (groupFields q).isEmpty = true
    · simp only [G, he, if_true, List.mem_singleton] at hg; rw [hg] at hx; exact hx
    · simp only [G, he, if_false] at hg
      rw [groupRows_eq] at hg
      exact mem_groupBy _ ok g hg x hx
  let enc' : Row → NodeRow := fun r => encodeRow nm { r with ent := q.ent }
  have henc' : ∀ r : Row, r.ent = q.ent → enc' r = encodeRow nm r := by
    intro r hr; cases r; simp only at hr; subst hr; rfl
  have hkeys' : ∀ r : Row, groupKeys (compileA nm s vn q) (enc' r) =
      (groupFields q).map fun f => SqlVal.ofScalar ((r.stored f).getD .null) := by
    intro r
    show ((groupFields q).map (nm.fieldShort q.ent)).map _ = _
    rw [List.map_map]
    apply List.map_congr_left
    intro f _
    simp only [Function.comp, lhsVal]
    have := assoc_encode nm { r with ent := q.ent } hfld f
    rw [this]
    show (match r.stored f with | some v => SqlVal.ofScalar v | none => SqlVal.null) = _
    cases r.stored f <;> rfl
  have hgroups : (if (compileA nm s vn q).groupBy.isEmpty then [ok.map (encodeRow nm)]
      else groupBy (fun a b => decide (groupKeys (compileA nm s vn q) a = groupKeys (compileA nm s vn q) b))
        (ok.map (encodeRow nm))) = G.map (List.map (encodeRow nm)) := by
    have hemp : (compileA nm s vn q).groupBy.isEmpty = (groupFields q).isEmpty := by
      show ((groupFields q).map _).isEmpty = _
      cases groupFields q <;> rfl
    rw [hemp]
    by_cases he : (groupFields q).isEmpty = true
    · simp only [G, he, if_true, List.map_cons, List.map_nil]
    · simp only [G, he, if_false]
      have h1 : ok.map (encodeRow nm) = ok.map enc' :=
        List.map_congr_left fun r hr => (henc' r (hokmem r hr).2).symm
      rw [h1, groupBy_map enc' (fun x r => sameKeys (groupKey q x) (groupKey q r)) _ (fun a b => by
        rw [hkeys' a, hkeys' b]
        exact (sameKeys_iff (fun f => (a.stored f).getD .null) (fun f => (b.stored f).getD .null) (groupFields q)).symm),
        groupRows_eq]
      apply List.map_congr_left
      intro g hg
      apply List.map_congr_left
      intro x hx
      exact henc' x (hokmem x (mem_groupBy _ ok g hg x hx)).2
  -- one group
  have hgdata : ∀ g ∈ G, (∀ x ∈ g, x.ent = q.ent) ∧ ∀ sel ∈ q.sels, selDataOk g sel := by
    intro g hg
    refine ⟨fun x hx => (hokmem x (hG g hg x hx)).2, ?_⟩
    intro sel hsel
    cases sel with
    | agg k fn fld =>
      intro x hx
      obtain ⟨hxd, hxe⟩ := hokmem x (hG g hg x hx)
      have := List.all_eq_true.mp hdata x hxd
      simp only [Bool.or_eq_true, bne_iff_ne, ne_eq, hxe, not_true_eq_false, false_or, List.all_eq_true] at this
      have := this (.agg k fn fld) hsel
      cases fn with
      | count => exact Or.inl rfl
      | min => right; simp only at this; revert this; cases x.stored fld with
        | none => intro _; rfl
        | some v => cases v <;> simp [okStored]
      | max => right; simp only at this; revert this; cases x.stored fld with
        | none => intro _; rfl
        | some v => cases v <;> simp [okStored]
    | _ => trivial
  have hvalue : ∀ g ∈ G, valueOfA (bindVal env (compileA nm s vn q).binds) (compileA nm s vn q).proj (g.map (encodeRow nm)) =
      rowOf s q g := by
    intro g hg
    rw [rowOf_eq s q g hsels]
    exact hproj g (hgdata g hg).1 (hgdata g hg).2
  have hhav : ∀ g ∈ G, havingHolds (compileA nm s vn q) (bindVal env (compileA nm s vn q).binds) (g.map (encodeRow nm)) =
      havingA q (rowOf s q g) := by
    intro g hg
    unfold havingHolds
    rw [hvalue g hg, Bool.eq_iff_iff, decide_eq_true_eq, all3_true_iff]
    simp only [List.mem_map, forall_exists_index, and_imp, forall_apply_eq_imp_iff₂, havingA, List.all_eq_true]
    have := hhaving [] ((g.map (encodeRow nm)).head?.getD nullRow) (rowOf s q g)
    rw [List.append_nil, ← hbinds] at this
    exact this
  have hordk : ∀ g ∈ G, orderKeysA (compileA nm s vn q) (bindVal env (compileA nm s vn q).binds) (g.map (encodeRow nm)) =
      q.orders.map fun o => SqlVal.ofScalar (jVal (findKey (rowOf s q g) o.name)) := by
    intro g hg
    unfold orderKeysA
    rw [hvalue g hg]
    show (q.orders.map fun o => ({ lhs := orderLhs nm q.ent o, desc := o.desc } : OrderTerm)).map _ = _
    rw [List.map_map]
    apply List.map_congr_left
    intro o ho
    have hoo := hord o ho
    simp only [Function.comp, orderLhs]
    cases hal : o.onAlias with
    | true => simp only [if_true]; exact lhsVal_value _ _ _
    | false =>
      simp only [Bool.false_eq_true, if_false]
      simp only [orderOkA, hal, Bool.false_eq_true, if_false] at hoo
      have hsel : Sel.scalar o.name o.fld ∈ q.sels := by
        obtain ⟨x, hx, hxm⟩ := List.any_eq_true.mp hoo
        rw [(isScalarSel_iff _ _ x).mp hxm] at hx; exact hx
      obtain ⟨fd, hfd, hd⟩ := groupFieldOk_def (show groupFieldOk s q.ent o.fld = true from hsels _ hsel)
      have hfind : findKey (rowOf s q g) o.name = some (rowSpec s q.ent g (.scalar o.name o.fld)).2 := by
        rw [rowOf_eq s q g hsels, ← assoc_eq_findKey]
        exact assoc_map_sel' (rowSpec s q.ent g) (rowSpec_key s q.ent g) o.name o.fld q.sels hdist hoo
      rw [hfind]
      simp only [rowSpec, hfd]
      cases g with
      | nil => rfl
      | cons x t =>
        have hx := (hgdata _ hg).1 x (by simp)
        simp only [List.map_cons, List.head?_cons, Option.getD_some, lhsVal, jVal_ofVal]
        rw [← hx] at hfld
        rw [← hx, assoc_encode nm x hfld o.fld, ofScalar_selected, hd]
        cases x.stored o.fld <;> rfl
  -- assembly
  have heval : eval D s data fuel rootKey q =
      (sortBy (rowLeA q) ((G.map (rowOf s q)).filter (havingA q))).map J.obj := by
    simp only [eval, hagg, if_true]
    exact evalGroups_eq s data fuel rootKey q data
  rw [heval]
  show (applyLimit (compileA nm s vn q).limit (compileA nm s vn q).offset
      (sortBy (fun a b => !keysLt (compileA nm s vn q).order
          (orderKeysA (compileA nm s vn q) (bindVal env (compileA nm s vn q).binds) b)
          (orderKeysA (compileA nm s vn q) (bindVal env (compileA nm s vn q).binds) a))
        ((if (compileA nm s vn q).groupBy.isEmpty then
            [(data.map (encodeRow nm)).filter (whereHoldsA (compileA nm s vn q) (bindVal env (compileA nm s vn q).binds))]
          else groupBy (fun a b => decide (groupKeys (compileA nm s vn q) a = groupKeys (compileA nm s vn q) b))
            ((data.map (encodeRow nm)).filter (whereHoldsA (compileA nm s vn q) (bindVal env (compileA nm s vn q).binds)))).filter
          (havingHolds (compileA nm s vn q) (bindVal env (compileA nm s vn q).binds))))).map
      (fun g => J.obj (valueOfA (bindVal env (compileA nm s vn q).binds) (compileA nm s vn q).proj g)) = _
  have hkept : (data.map (encodeRow nm)).filter (whereHoldsA (compileA nm s vn q) (bindVal env (compileA nm s vn q).binds)) =
      ok.map (encodeRow nm) := by
    rw [List.filter_map]
    congr 1
    apply List.filter_congr
    intro r _
    exact hok r
  rw [hkept, hgroups, List.filter_map, List.filter_map]
  have hf1 : G.filter ((havingHolds (compileA nm s vn q) (bindVal env (compileA nm s vn q).binds)) ∘ List.map (encodeRow nm)) =
      G.filter (havingA q ∘ rowOf s q) := List.filter_congr fun g hg => hhav g hg
  rw [hf1]
  have hG' : ∀ g ∈ G.filter (havingA q ∘ rowOf s q), g ∈ G := fun g hg => (List.mem_filter.mp hg).1
  rw [sortBy_map (List.map (encodeRow nm)) (fun a b => rowLeA q (rowOf s q a) (rowOf s q b)) _ _ (fun a ha b hb => by
    rw [hordk a (hG' a ha), hordk b (hG' b hb)]
    show (!keysLt (q.orders.map fun o => ({ lhs := orderLhs nm q.ent o, desc := o.desc } : OrderTerm)) _ _) = _
    rw [keysLt_eq]
    rfl),
    sortBy_map (rowOf s q) (fun a b => rowLeA q (rowOf s q a) (rowOf s q b)) (rowLeA q) _ (fun _ _ _ _ => rfl)]
  have hlim : (compileA nm s vn q).limit = none ∧ (compileA nm s vn q).offset = none := by
    show (limitOf q.first q.skip).1 = none ∧ (limitOf q.first q.skip).2 = none
    rw [hfirst, hskip]; exact ⟨rfl, rfl⟩
  rw [hlim.1, hlim.2]
  simp only [applyLimit, Option.getD_none, List.drop_zero, List.map_map]
  apply List.map_congr_left
  intro g hg
  simp only [Function.comp]
  rw [hvalue g (hG' g ((mem_sortBy _ g _).mp hg))]

end Discret.SqlCompile
