import DiscretModel.Gen.DeletionKernel
import DiscretModel.Lemmas.RoomKernelEq
import DiscretModel.Model.LocalWrite
/-
T12 obligations (C01, C12): the decision of `RoomAuthorisations::validate_deletion`, regenerated from the Rust source
on every run (Gen/DeletionKernel.lean), equals the decision of the hand-written local deletion model
(Model/LocalWrite.lean: `deleteNode`, `deleteRef`, `deleteRoomAdminRef`) for the code as it is, under the abstraction
map below: the query `DeletionQuery::build` makes for one `delete { E { $id } }` / `delete { E { $id label[$dest] } }`
(one clock value for `build` and for the validation, as in the correspondence run).
-/
namespace Discret.Gen.DeletionKernel
open Discret.Room Discret.Rust Discret.LocalWrite Discret.Gen.RoomKernel

/-- the validator of caller `caller` holding the room definitions `rooms` -/
def raOf (rooms : List Room) (caller : Key) : RoomAuthorisations := { key := caller, rooms }

def errOf : Error → MErr
  | .DeleteNotAllowed => .deleteNotAllowed
  | .AuthorisationRejected => .rejected
  | .UnknownRoom => .unknownRoom

/-- the verdict of the regenerated function, in the model's error classes -/
def decision (r : Except Error Unit) : Except MErr Unit :=
  match r with
  | .ok _ => .ok ()
  | .error e => .error (errOf e)

/-- the verdict of a model operation (the resulting database is forgotten) -/
def verdict {α : Type} (r : Except MErr α) : Except MErr Unit :=
  match r with
  | .ok _ => .ok ()
  | .error e => .error e

def nodeOf (row : Row) : Node := { id := row.id, room_id := row.room, key := row.author }

/-- `DeletionQuery::build` for `delete { E { $id } }` on the stored row `row` -/
def nodeQuery (row : Row) (entity : Ent) (now : Int) : DeletionQuery :=
  { nodes := [{ node := nodeOf row, name := entity, date := now }], updated_nodes := [], edges := [] }

/-- `DeletionQuery::build` for `delete { E { $id label[$dest] } }` when the reference `edge` exists at row `row`:
    the reference, the room of its source row, and the source row to re-date and re-sign -/
def refQuery (row : Row) (entity : Ent) (short : ShortName) (edge : EdgeRow) (now : Int) : DeletionQuery :=
  { nodes := [], updated_nodes := [nodeOf row],
    edges := [{ edge := { src := edge.src, src_entity := short, key := edge.author }, src_name := entity,
                room_id := row.room, date := now }] }

/-- the query when the named reference does not exist: nothing to delete, nothing to re-sign (456214b) -/
def emptyQuery : DeletionQuery := { nodes := [], updated_nodes := [], edges := [] }

/-- a full entity name that is none of the four entities of a room definition -/
def DataName (e : Ent) : Prop := e ≠ ROOM_ENT ∧ e ≠ AUTHORISATION_ENT ∧ e ≠ ENTITY_RIGHT_ENT ∧ e ≠ USER_AUTH_ENT
/-- a short entity name that is none of the four entities of a room definition -/
def DataShort (s : ShortName) : Prop :=
  s ≠ ROOM_ENT_SHORT ∧ s ≠ AUTHORISATION_ENT_SHORT ∧ s ≠ ENTITY_RIGHT_ENT_SHORT ∧ s ≠ USER_AUTH_ENT_SHORT

theorem hmGet_getRoom (rooms : List Room) (r : Id) : Rust.hmGet (fun (x : Room) => x.id) rooms r = getRoom rooms r := rfl

/-- **node deletion.** The regenerated decision on the query of `delete { E { $id } }` is the model's `deleteNode`
    for the code as it is (incoming references are not looked at): no room → accepted; unknown room → `UnknownRoom`;
    own row → own-rows right, foreign row → all-rows right, at the date of the deletion. -/
theorem validate_deletion_node_eq {df : Defects} (hdf : df.incomingRefsUnchecked = true) (rooms : List Room) (db : Db)
    (caller : Key) (now : Int) (handle : Nat) (entity : Ent) (row : Row) (hrow : db.getRow handle entity = some row)
    (hent : DataName entity) :
    decision (validate_deletion (raOf rooms caller) (nodeQuery row entity now) now) =
      verdict (deleteNode df rooms db caller now handle entity) := by
  obtain ⟨h1, h2, h3, h4⟩ := hent
  unfold deleteNode
  rw [hrow]
  simp only [hdf, Bool.not_true, Bool.false_and, Bool.false_eq_true, if_false]
  unfold validate_deletion nodeQuery raOf nodeOf
  simp only [forTry, h1, h2, h3, h4, decide_false, Bool.or_self, Bool.false_eq_true, if_false, hmGet_getRoom,
    Room_can_eq]
  cases hr : row.room with
  | none => simp [decision, verdict]
  | some rid =>
    simp only
    cases hg : getRoom rooms rid with
    | none => simp [decision, verdict, errOf]
    | some room =>
      simp only
      by_cases ha : row.author = caller
      · cases hc : room.can caller entity now .mutateSelf <;> simp [ha, hc, decision, verdict, errOf]
      · cases hc : room.can caller entity now .mutateAll <;> simp [ha, hc, decision, verdict, errOf]

/-- **node deletion, entities of a room definition.** A `sys.Room`, `sys.Authorisation`, `sys.EntityRight` or
    `sys.UserAuth` row is never deleted through the API, whatever the rooms say. -/
theorem validate_deletion_node_sys (ra : RoomAuthorisations) (n : NodeDelete) (rest : List NodeDelete)
    (upd : List Node) (edges : List EdgeDelete) (now : Int)
    (h : n.name = ROOM_ENT ∨ n.name = AUTHORISATION_ENT ∨ n.name = ENTITY_RIGHT_ENT ∨ n.name = USER_AUTH_ENT) :
    validate_deletion ra { nodes := n :: rest, updated_nodes := upd, edges } now = .error .DeleteNotAllowed := by
  unfold validate_deletion
  rcases h with h | h | h | h <;> simp [forTry, h]

/-- **reference deletion.** The regenerated decision on the query of `delete { E { $id label[$dest] } }` for an
    existing reference is the model's `deleteRef` for the code as it is (301f3d3): the own-rows right when the
    reference AND the source row that is re-signed are the caller's, the all-rows right otherwise. -/
theorem validate_deletion_ref_eq {df : Defects} (hdf : df.refRightOnEdgeAuthor = false) (rooms : List Room) (db : Db)
    (caller : Key) (now : Int) (handle : Nat) (entity : Ent) (label dest : Nat) (row : Row) (edge : EdgeRow)
    (short : ShortName) (hrow : db.getRow handle entity = some row)
    (hedge : db.edges.find? (fun e => e.src = handle && e.label = label && e.dest = dest) = some edge)
    (hshort : DataShort short) :
    decision (validate_deletion (raOf rooms caller) (refQuery row entity short edge now) now) =
      verdict (deleteRef df rooms db caller now handle entity label dest) := by
  obtain ⟨h1, h2, h3, h4⟩ := hshort
  have hid : row.id = handle := by
    have := List.find?_some hrow
    simp only [Bool.and_eq_true, decide_eq_true_eq] at this
    exact this.1
  have hsrc : edge.src = handle := by
    have := List.find?_some hedge
    simp only [Bool.and_eq_true, decide_eq_true_eq] at this
    exact this.1.1
  unfold deleteRef
  rw [hrow]
  simp only [hedge, hdf, Bool.false_eq_true, if_false]
  unfold validate_deletion refQuery raOf nodeOf
  simp only [forTry, h1, h2, h3, h4, decide_false, Bool.or_self, Bool.false_eq_true, if_false, hmGet_getRoom,
    Room_can_eq, hsrc, hid]
  cases hr : row.room with
  | none => simp [decision, verdict]
  | some rid =>
    simp only
    cases hg : getRoom rooms rid with
    | none => simp [decision, verdict, errOf]
    | some room =>
      simp only
      by_cases he : edge.author = caller <;> by_cases ha : row.author = caller <;>
        cases hs : room.can caller entity now .mutateSelf <;> cases hl : room.can caller entity now .mutateAll <;>
        simp [he, ha, hs, hl, decision, verdict, errOf, List.filter, List.contains, List.elem]

/-- **reference deletion, reference absent.** Nothing is deleted, nothing is re-signed: accepted, as `deleteRef`
    (456214b). -/
theorem validate_deletion_no_ref_eq {df : Defects} (hdf : df.refDeletionResign = false) (rooms : List Room) (db : Db)
    (caller : Key) (now : Int) (handle : Nat) (entity : Ent) (label dest : Nat) (row : Row)
    (hrow : db.getRow handle entity = some row)
    (hedge : db.edges.find? (fun e => e.src = handle && e.label = label && e.dest = dest) = none) :
    decision (validate_deletion (raOf rooms caller) emptyQuery now) =
      verdict (deleteRef df rooms db caller now handle entity label dest) := by
  unfold deleteRef
  rw [hrow]
  simp only [hedge, hdf, Bool.false_eq_true, if_false]
  unfold validate_deletion emptyQuery
  simp [forTry, decision, verdict]

/-- **the guard on references of the entities of a room definition (f1df104).** A reference whose source row is a
    `sys.Room`, `sys.Authorisation`, `sys.EntityRight` or `sys.UserAuth` row (SHORT entity name of the reference) is
    never deleted through the API — the model's `deleteRoomAdminRef` for the code as it is. -/
theorem validate_deletion_sys_ref_eq (ra : RoomAuthorisations) (upd : List Node) (e : EdgeDelete)
    (rest : List EdgeDelete) (now : Int) (roomAuthor : Key) (adminIds : List Nat) (caller : Key) (entry : Nat)
    (h : e.edge.src_entity = ROOM_ENT_SHORT ∨ e.edge.src_entity = AUTHORISATION_ENT_SHORT ∨
      e.edge.src_entity = ENTITY_RIGHT_ENT_SHORT ∨ e.edge.src_entity = USER_AUTH_ENT_SHORT) :
    decision (validate_deletion ra { nodes := [], updated_nodes := upd, edges := e :: rest } now) =
      verdict (deleteRoomAdminRef Defects.asImplemented roomAuthor adminIds caller entry) := by
  unfold validate_deletion
  rcases h with h | h | h | h <;> simp [forTry, h, decision, verdict, errOf, deleteRoomAdminRef, Defects.asImplemented]

/-- the code as it is meets the hypotheses on the switches -/
example : Defects.asImplemented.incomingRefsUnchecked = true ∧ Defects.asImplemented.refRightOnEdgeAuthor = false ∧
    Defects.asImplemented.refDeletionResign = false := ⟨rfl, rfl, rfl⟩

end Discret.Gen.DeletionKernel
