import DiscretModel.Gen.Lww
import DiscretModel.Model.Ingest
import DiscretModel.Model.Sync
/-!
Obligations of translator T9: the last-writer-wins decision regenerated from `Node::filter_existing`
(Gen/Lww.lean) is the decision of the two hand-written models that C02 / C12 (`Ingest.filterOne`) and
C03 / C09 / C11 (`Sync.wanted`) are proved about.
-/
namespace Discret.Gen.Lww

/-- the shape facts the models rely on, decided on the regenerated file -/
theorem shape : oldFieldsFromStoredRow = true ∧ finalBranchRequests = true ∧ existingFromStoredRow = true := by decide

/-- `Ingest.filterOne` drops an announced identifier exactly when the regenerated decision does -/
theorem ingest_filterOne_eq (nodes : List Discret.Ingest.NodeRow) (a : Nat × Int × Nat) :
    Discret.Ingest.filterOne nodes a =
      match Discret.Ingest.localRow nodes a.1 with
      | none => some (a.1, none)
      | some l => if dropIncoming a.2.1 a.2.2 l.mdate l.sg then none else some (a.1, some l) := by
  unfold Discret.Ingest.filterOne dropIncoming
  cases Discret.Ingest.localRow nodes a.1 with
  | none => rfl
  | some l =>
    by_cases h1 : a.2.1 < l.mdate
    · simp [h1]
    · by_cases h2 : a.2.1 = l.mdate <;> by_cases h3 : a.2.2 ≤ l.sg <;> simp [h1, h2, h3]

/-- the decision `Sync.wanted` takes once its deletion-record gate is passed -/
def syncDecision (dst : Discret.Sync.Replica) (n : Discret.Sync.Node) : Option (Option Discret.Sync.Node) :=
  match dst.findId n.id with
  | none => some none
  | some l => if dropIncoming (n.mdate : Int) n.sig (l.mdate : Int) l.sig then none else some (some l)

/-- `Sync.wanted` either refuses the announced row at its deletion-record gate (whatever that gate is) or
    takes exactly the regenerated last-writer-wins decision -/
theorem sync_wanted_eq (d : Discret.DailyLog.Defects) (dst : Discret.Sync.Replica) (n : Discret.Sync.Node) :
    Discret.Sync.wanted d dst n = none ∨ Discret.Sync.wanted d dst n = syncDecision dst n := by
  unfold Discret.Sync.wanted
  split
  · left; rfl
  · right
    unfold syncDecision dropIncoming
    cases hl : dst.findId n.id with
    | none => rfl
    | some l =>
      by_cases h1 : n.mdate < l.mdate
      · have : (n.mdate : Int) < (l.mdate : Int) := by omega
        simp [h1, this]
      · have h1' : ¬ (n.mdate : Int) < (l.mdate : Int) := by omega
        by_cases h2 : n.mdate = l.mdate <;> by_cases h3 : n.sig ≤ l.sig
        all_goals (have : ((n.mdate : Int) = (l.mdate : Int)) ↔ n.mdate = l.mdate := by omega)
        all_goals simp [h1, h1', h2, h3, this]

end Discret.Gen.Lww
