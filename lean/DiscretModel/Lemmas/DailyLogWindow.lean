import DiscretModel.Lemmas.DailyLog
/-
The window of `DailyLogsUpdate::compute`, literally as the SQL text selects it (`windowSql`, `untouchedSql` in
`Model/DailyLog.lean`), is the structural window the model of the loop walks: on a group whose rows are in
ascending day order (the primary key order of `_daily_log`) it is "the last unmarked row before the first marked
one, then everything from the first marked one onwards", and nothing at all for a group without a marked day.
-/
namespace Discret.DailyLog

theorem minDay_cons_sorted (x : Nat) (t : List Nat) (h : ∀ y ∈ t, x < y) : minDay (x :: t) = some x := by
  induction t generalizing x with
  | nil => rfl
  | cons y u ih =>
    have hy : x < y := h y (List.mem_cons_self)
    show (match minDay (y :: u) with | none => some x | some m => some (min x m)) = some x
    cases hm : minDay (y :: u) with
    | none => rfl
    | some m =>
      -- the minimum of the tail is one of its elements
      have hmem : ∀ (l : List Nat) (m : Nat), minDay l = some m → m ∈ l := by
        intro l
        induction l with
        | nil => intro m hm; cases hm
        | cons a b ihb =>
          intro m hm
          simp only [minDay] at hm
          cases hb : minDay b with
          | none => rw [hb] at hm; simp only [Option.some.injEq] at hm; subst hm; exact List.mem_cons_self
          | some mb =>
            rw [hb] at hm
            simp only [Option.some.injEq] at hm
            subst hm
            rcases Nat.le_total a mb with hle | hle
            · rw [Nat.min_eq_left hle]; exact List.mem_cons_self
            · rw [Nat.min_eq_right hle]; exact List.mem_cons_of_mem _ (ihb mb hb)
      have := h m (hmem _ _ hm)
      simp only [Option.some.injEq]
      exact Nat.min_eq_left (Nat.le_of_lt this)

theorem maxDay_append_singleton_sorted (l : List Nat) (x : Nat) (h : ∀ y ∈ l, y < x) :
    maxDay (l ++ [x]) = some x := by
  induction l with
  | nil => rfl
  | cons a t ih =>
    have ht : ∀ y ∈ t, y < x := fun y hy => h y (List.mem_cons_of_mem _ hy)
    show (match maxDay (t ++ [x]) with | none => some a | some m => some (max a m)) = some x
    rw [ih ht]
    simp only [Option.some.injEq]
    exact Nat.max_eq_right (Nat.le_of_lt (h a List.mem_cons_self))

theorem filter_clean_dirty_nil {l : List DayRow} (h : ∀ r ∈ l, r.dirty = false) : l.filter (·.dirty) = [] := by
  rw [List.filter_eq_nil_iff]
  intro r hr; simp [h r hr]

/-- the window of `pre ++ r0 :: t`, `pre` unmarked, `r0` marked, days ascending -/
theorem window_of_split (pre : List DayRow) (r0 : DayRow) (t : List DayRow) (hpre : ∀ r ∈ pre, r.dirty = false)
    (hr0 : r0.dirty = true) (hs : RowsSorted (pre ++ r0 :: t)) :
    windowSql (pre ++ r0 :: t) = pre.getLast?.toList ++ r0 :: t ∧ untouchedSql (pre ++ r0 :: t) = pre.dropLast := by
  obtain ⟨spre, srest, scross⟩ := List.pairwise_append.mp hs
  have hlt_pre : ∀ a ∈ pre, a.day < r0.day := fun a ha => scross a ha r0 List.mem_cons_self
  have hlt_t : ∀ b ∈ t, r0.day < b.day := (List.pairwise_cons.mp srest).1
  -- the first marked day
  have hmin : minDay (((pre ++ r0 :: t).filter (·.dirty)).map (·.day)) = some r0.day := by
    rw [List.filter_append, filter_clean_dirty_nil hpre, List.nil_append, List.filter_cons, hr0]
    simp only [↓reduceIte, List.map_cons]
    apply minDay_cons_sorted
    intro y hy
    obtain ⟨b, hb, e⟩ := List.mem_map.mp hy
    rw [← e]; exact hlt_t b (List.mem_filter.mp hb).1
  -- the rows before it
  have hbefore : (pre ++ r0 :: t).filter (fun r => r.day < r0.day) = pre := by
    rw [List.filter_append]
    have h1 : pre.filter (fun r => decide (r.day < r0.day)) = pre := by
      rw [List.filter_eq_self]; intro a ha; simpa using hlt_pre a ha
    have h2 : (r0 :: t).filter (fun r => decide (r.day < r0.day)) = [] := by
      rw [List.filter_eq_nil_iff]
      intro a ha
      rcases List.mem_cons.mp ha with e | e
      · subst e; simp
      · have := hlt_t a e; simp; omega
    rw [h1, h2, List.append_nil]
  cases hl : pre.getLast? with
  | none =>
    have hnil : pre = [] := List.getLast?_eq_none_iff.mp hl
    subst hnil
    have hlow : windowLow ([] ++ r0 :: t) = some r0.day := by
      simp only [windowLow, hmin, hbefore]; rfl
    have hall : ∀ a ∈ ([] ++ r0 :: t : List DayRow), r0.day ≤ a.day := by
      intro a ha
      rcases List.mem_cons.mp ha with e | e
      · subst e; exact Nat.le_refl _
      · exact Nat.le_of_lt (hlt_t a e)
    constructor
    · rw [windowSql, hlow]
      simp only [Option.toList_none, List.nil_append]
      exact List.filter_eq_self.mpr (fun a ha => by simpa using hall a ha)
    · rw [untouchedSql, hlow]
      simp only [List.dropLast_nil]
      rw [List.filter_eq_nil_iff]
      intro a ha
      have := hall a ha
      simp; omega
  | some s =>
    obtain ⟨ys, hys⟩ := List.getLast?_eq_some_iff.mp hl
    subst hys
    have hys_lt : ∀ a ∈ ys, a.day < s.day := by
      intro a ha
      exact (List.pairwise_append.mp spre).2.2 a ha s (by simp)
    have hs_lt : s.day < r0.day := hlt_pre s (by simp)
    have hlow : windowLow (ys ++ [s] ++ r0 :: t) = some s.day := by
      simp only [windowLow, hmin, hbefore, List.map_append, List.map_cons, List.map_nil]
      rw [maxDay_append_singleton_sorted]
      · rfl
      · intro y hy
        obtain ⟨a, ha, e⟩ := List.mem_map.mp hy
        rw [← e]; exact hys_lt a ha
    have hdl : (ys ++ [s]).dropLast = ys := by simp
    constructor
    · rw [windowSql, hlow]
      simp only [Option.toList_some, List.singleton_append]
      rw [List.append_assoc, List.filter_append]
      have h1 : ys.filter (fun r => decide (s.day ≤ r.day)) = [] := by
        rw [List.filter_eq_nil_iff]; intro a ha; have := hys_lt a ha; simp; omega
      have h2 : ([s] ++ r0 :: t).filter (fun r => decide (s.day ≤ r.day)) = [s] ++ r0 :: t := by
        rw [List.filter_eq_self]
        intro a ha
        rcases List.mem_append.mp ha with e | e
        · simp only [List.mem_singleton] at e; subst e; simp
        · rcases List.mem_cons.mp e with e | e
          · subst e; simp; omega
          · have := hlt_t a e; simp; omega
      rw [h1, h2, List.nil_append]
      rfl
    · rw [untouchedSql, hlow, hdl]
      simp only
      rw [List.append_assoc, List.filter_append]
      have h1 : ys.filter (fun r => decide (r.day < s.day)) = ys := by
        rw [List.filter_eq_self]; intro a ha; simpa using hys_lt a ha
      have h2 : ([s] ++ r0 :: t).filter (fun r => decide (r.day < s.day)) = [] := by
        rw [List.filter_eq_nil_iff]
        intro a ha
        rcases List.mem_append.mp ha with e | e
        · simp only [List.mem_singleton] at e; subst e; simp
        · rcases List.mem_cons.mp e with e | e
          · subst e; simp; omega
          · have := hlt_t a e; simp; omega
      rw [h1, h2, List.append_nil]

theorem cleanPrefix_clean' (rows : List DayRow) : ∀ r ∈ cleanPrefix rows, r.dirty = false := by
  induction rows with
  | nil => intro r h; simp [cleanPrefix] at h
  | cons a t ih =>
    intro r h
    unfold cleanPrefix at h ih
    rw [List.takeWhile_cons] at h
    split at h
    · rename_i ha
      rcases List.mem_cons.mp h with h | h
      · subst h; simpa using ha
      · exact ih r h
    · cases h

theorem fromFirstDirty_head (rows : List DayRow) (r0 : DayRow) (t : List DayRow)
    (h : fromFirstDirty rows = r0 :: t) : r0.dirty = true := by
  induction rows with
  | nil => simp [fromFirstDirty] at h
  | cons a u ih =>
    unfold fromFirstDirty at h ih
    rw [List.dropWhile_cons] at h
    split at h
    · exact ih h
    · rename_i ha
      injection h with h1 _
      subst h1; simpa using ha

/-- **the SQL window is the structural window**: for a group without a marked day the `SELECT` returns nothing;
    otherwise it returns the last unmarked row before the first marked one (if any) and every row from the first
    marked one onwards, and leaves the earlier rows alone. -/
theorem windowSql_eq {rows : List DayRow} (hs : RowsSorted rows) :
    (fromFirstDirty rows = [] → windowSql rows = [] ∧ untouchedSql rows = rows) ∧
    (fromFirstDirty rows ≠ [] →
      windowSql rows = (cleanPrefix rows).getLast?.toList ++ fromFirstDirty rows ∧
      untouchedSql rows = (cleanPrefix rows).dropLast) := by
  have hrows : cleanPrefix rows ++ fromFirstDirty rows = rows := List.takeWhile_append_dropWhile
  have hpre := cleanPrefix_clean' rows
  constructor
  · intro hnil
    have hall : ∀ r ∈ rows, r.dirty = false := by
      intro r hr; rw [← hrows, hnil, List.append_nil] at hr; exact hpre r hr
    have hf : rows.filter (·.dirty) = [] := filter_clean_dirty_nil hall
    simp [windowSql, untouchedSql, windowLow, hf, minDay]
  · intro hne
    obtain ⟨r0, t, hrt⟩ := List.exists_cons_of_ne_nil hne
    have hr0 := fromFirstDirty_head rows r0 t hrt
    have hs' : RowsSorted (cleanPrefix rows ++ r0 :: t) := by rw [← hrt, hrows]; exact hs
    have := window_of_split (cleanPrefix rows) r0 t hpre hr0 hs'
    rw [← hrt, hrows] at this
    exact this

end Discret.DailyLog

namespace Discret.DailyLog

/-- the recomputation of one group, stated with the literal window: nothing happens to a group for which the
    `SELECT` returns no row; otherwise the loop walks the selected rows and the others stay as they are -/
theorem recomputeGroup_sql {d : Defects} (hl : d.lazyScan = false) (sigs : Content) (c : Cursor) {g : Group}
    (hs : RowsSorted g.rows) :
    recomputeGroup d sigs c g =
      if (windowSql g.rows).isEmpty then (c, g)
      else ((walkRows d sigs g.room g.ent c (windowSql g.rows)).1,
            { g with rows := untouchedSql g.rows ++ (walkRows d sigs g.room g.ent c (windowSql g.rows)).2 }) := by
  obtain ⟨w1, w2⟩ := windowSql_eq hs
  cases hre : (fromFirstDirty g.rows).isEmpty with
  | true =>
    obtain ⟨e1, _⟩ := w1 (List.isEmpty_iff.mp hre)
    simp [recomputeGroup, hre, e1]
  | false =>
    have hne : fromFirstDirty g.rows ≠ [] := by intro e; rw [e] at hre; cases hre
    obtain ⟨e1, e2⟩ := w2 hne
    have hwne : (windowSql g.rows).isEmpty = false := by
      rw [e1]
      cases hx : fromFirstDirty g.rows with
      | nil => exact absurd hx hne
      | cons a t => cases (cleanPrefix g.rows).getLast? <;> rfl
    rw [e1] at hwne
    simp only [recomputeGroup, hre, hl, Bool.false_eq_true, ↓reduceIte, hwne, e1, e2]

end Discret.DailyLog
