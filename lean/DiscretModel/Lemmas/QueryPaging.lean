/-
Paging through a strictly ordered list with `first n, after(last)`: every element exactly once, in order.
Generic in the element and key types (used by `Props/C05.lean` for the rows selected by a query).
-/
namespace Discret.Query.Paging

variable {α κ : Type}

/-- the elements strictly after the cursor (all of them without a cursor) -/
def beyond (key : α → κ) (lt : κ → κ → Bool) (l : List α) : Option κ → List α
  | none => l
  | some k => l.filter fun r => lt k (key r)

/-- one page: at most `n` of the elements beyond the cursor -/
def page (key : α → κ) (lt : κ → κ → Bool) (n : Nat) (l : List α) (c : Option κ) : List α :=
  (beyond key lt l c).take n

/-- the pages obtained by repeating `first n, after(key of the last element)` until a page is empty -/
def pages (key : α → κ) (lt : κ → κ → Bool) (n : Nat) (l : List α) : Nat → Option κ → List (List α)
  | 0, _ => []
  | fuel + 1, c =>
    let p := page key lt n l c
    match p.getLast? with
    | none => []
    | some x => p :: pages key lt n l fuel (some (key x))

theorem filter_after_last (key : α → κ) (lt : κ → κ → Bool)
    (hasym : ∀ a b, lt a b = true → lt b a = false)
    (pre post : List α) (x : α)
    (hs : (pre ++ x :: post).Pairwise fun a b => lt (key a) (key b) = true) :
    (pre ++ x :: post).filter (fun r => lt (key x) (key r)) = post := by
  rw [List.pairwise_append] at hs
  obtain ⟨_, hxp, hcross⟩ := hs
  rw [List.pairwise_cons] at hxp
  obtain ⟨hx, _⟩ := hxp
  rw [List.filter_append]
  have h1 : pre.filter (fun r => lt (key x) (key r)) = [] := by
    apply List.filter_eq_nil_iff.mpr
    intro a ha
    have := hcross a ha x (by simp)
    simp [hasym _ _ this]
  have hirr : lt (key x) (key x) = false := by
    cases h : lt (key x) (key x) with
    | false => rfl
    | true => have := hasym _ _ h; rw [h] at this; exact this
  have h2 : (x :: post).filter (fun r => lt (key x) (key r)) = post := by
    rw [List.filter_cons]
    simp only [hirr, Bool.false_eq_true, if_false]
    apply List.filter_eq_self.mpr
    intro a ha
    exact hx a ha
  rw [h1, h2, List.nil_append]

theorem getLast?_take_of_pos {l : List α} {n : Nat} (hn : 1 ≤ n) (hl : l ≠ []) :
    ∃ x, (l.take n).getLast? = some x := by
  cases l with
  | nil => exact absurd rfl hl
  | cons a t =>
    cases n with
    | zero => omega
    | succ m =>
      have : (List.take (m + 1) (a :: t)) ≠ [] := by simp
      cases h : (List.take (m + 1) (a :: t)).getLast? with
      | none => exact absurd (List.getLast?_eq_none_iff.mp h) this
      | some x => exact ⟨x, rfl⟩

/-- what remains after a non-empty prefix ending with `x` -/
theorem split_last {l : List α} {x : α} (h : l.getLast? = some x) : ∃ pre, l = pre ++ [x] := by
  induction l with
  | nil => simp at h
  | cons a t ih =>
    cases t with
    | nil => simp at h; exact ⟨[], by simp [h]⟩
    | cons b t' =>
      have h' : (b :: t').getLast? = some x := by simpa [List.getLast?_cons_cons] using h
      obtain ⟨pre, hp⟩ := ih h'
      exact ⟨a :: pre, by rw [hp]; rfl⟩

/-- **Paging visits every element exactly once, in order.** For a list whose keys are strictly increasing
    (`lt` asymmetric), any page size `n ≥ 1`: the concatenation of the successive pages is the list. -/
theorem pages_flatten (key : α → κ) (lt : κ → κ → Bool)
    (hasym : ∀ a b, lt a b = true → lt b a = false) (n : Nat) (hn : 1 ≤ n) :
    ∀ (fuel : Nat) (done rest : List α) (c : Option κ),
      (done ++ rest).Pairwise (fun a b => lt (key a) (key b) = true) →
      rest.length < fuel →
      ((done = [] ∧ c = none) ∨ ∃ x, done.getLast? = some x ∧ c = some (key x)) →
      (pages key lt n (done ++ rest) fuel c).flatten = rest := by
  intro fuel
  induction fuel with
  | zero => intro done rest c _ hf _; omega
  | succ fuel ih =>
    intro done rest c hs hf hc
    -- the candidates of this page are exactly `rest`
    have hcand : beyond key lt (done ++ rest) c = rest := by
      rcases hc with ⟨hd, hc⟩ | ⟨x, hx, hc⟩
      · subst hd; subst hc; simp [beyond]
      · subst hc
        obtain ⟨pre, hpre⟩ := split_last hx
        subst hpre
        have : pre ++ [x] ++ rest = pre ++ x :: rest := by simp
        simp only [this, beyond] at hs ⊢
        exact filter_after_last key lt hasym pre rest x hs
    simp only [pages, page, hcand]
    cases hr : rest with
    | nil => simp
    | cons a t =>
      subst hr
      obtain ⟨y, hy⟩ := getLast?_take_of_pos (l := a :: t) hn (by simp)
      simp only [hy]
      -- next round: done' = done ++ take n rest, rest' = drop n rest
      have hsplit : done ++ a :: t = (done ++ (a :: t).take n) ++ (a :: t).drop n := by
        rw [List.append_assoc, List.take_append_drop]
      have hnext := ih (done ++ (a :: t).take n) ((a :: t).drop n) (some (key y))
        (by rw [← hsplit]; exact hs)
        (by
          have : ((a :: t).drop n).length ≤ (a :: t).length - 1 := by
            simp only [List.length_drop, List.length_cons]; omega
          simp only [List.length_cons] at hf this
          omega)
        (Or.inr ⟨y, by rw [List.getLast?_append]; simp [hy], rfl⟩)
      rw [← hsplit] at hnext
      rw [List.flatten_cons, hnext, List.take_append_drop]

/-- from the start, with enough rounds -/
theorem pages_from_start (key : α → κ) (lt : κ → κ → Bool)
    (hasym : ∀ a b, lt a b = true → lt b a = false) (n : Nat) (hn : 1 ≤ n) (l : List α)
    (hs : l.Pairwise fun a b => lt (key a) (key b) = true) :
    (pages key lt n l (l.length + 1) none).flatten = l := by
  have := pages_flatten key lt hasym n hn (l.length + 1) [] l none (by simpa using hs) (by omega) (Or.inl ⟨rfl, rfl⟩)
  simpa using this

end Discret.Query.Paging
