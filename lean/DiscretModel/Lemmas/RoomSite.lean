import DiscretModel.Lemmas.RoomBuild
/-
The invariant of an instance (`Site`): every room held in memory agrees with the rows stored for it and is
well-formed, and every stored room is held in memory. It is established by the empty instance and
preserved by local room mutations, by imports of any candidate, and (when reload replays in ascending
order, normalises rights and loads every room) by restart.
-/
namespace Discret.RoomBuild
open Discret.Room

/-! ### accessors -/

theorem getMem_some {s : Site} {rid : Id} {r : Room} (h : s.getMem rid = some r) : r.id = rid := by
  unfold Site.getMem at h; simpa using List.find?_some h

theorem getStored_some {s : Site} {rid : Id} {rr : RoomRow} (h : s.getStored rid = some rr) : rr.rid = rid := by
  unfold Site.getStored at h; simpa using List.find?_some h

theorem find_map_of_pred {α : Type} (p : α → Bool) (f : α → α) (hp : ∀ y, p (f y) = p y) (l : List α) :
    (l.map f).find? p = (l.find? p).map f := by
  induction l with
  | nil => rfl
  | cons x t ih =>
    simp only [List.map_cons, List.find?, hp x]
    cases p x with
    | true => rfl
    | false => exact ih

theorem find_replace {α : Type} (key : α → Nat) (l : List α) (x : α) (rid : Nat) :
    (l.map fun y => if key y = key x then x else y).find? (fun y => key y = rid) =
      (l.find? (fun y => key y = rid)).map fun y => if key y = key x then x else y := by
  apply find_map_of_pred
  intro y
  split
  · rename_i e; rw [e]
  · rfl

theorem find_upsert {α : Type} (key : α → Nat) (l : List α) (x : α) (rid : Nat) :
    (if l.any (fun y => key y = key x) then l.map fun y => if key y = key x then x else y
      else l ++ [x]).find? (fun y => key y = rid) =
      if rid = key x then some x else l.find? (fun y => key y = rid) := by
  by_cases hany : l.any (fun y => key y = key x) = true
  · simp only [hany, if_true, find_replace]
    by_cases hr : rid = key x
    · subst hr
      simp only [if_true]
      obtain ⟨y, hy, hye⟩ := List.any_eq_true.mp hany
      cases hf : l.find? (fun y => key y = key x) with
      | none =>
        have := List.find?_eq_none.mp hf y hy
        exact absurd hye this
      | some z =>
        have hz : key z = key x := by simpa using List.find?_some hf
        simp [Option.map, hz]
    · simp only [hr, if_false]
      cases hf : l.find? (fun y => key y = rid) with
      | none => rfl
      | some z =>
        have hz : key z = rid := by simpa using List.find?_some hf
        have : key z ≠ key x := by rw [hz]; exact hr
        simp [Option.map, this]
  · have hany' : l.any (fun y => key y = key x) = false := by simpa using hany
    simp only [hany', Bool.false_eq_true, if_false, List.find?_append]
    by_cases hr : rid = key x
    · subst hr
      have : l.find? (fun y => key y = key x) = none := by
        rw [List.find?_eq_none]
        intro y hy hye
        have : l.any (fun y => key y = key x) = true := List.any_eq_true.mpr ⟨y, hy, hye⟩
        rw [hany'] at this; cases this
      simp [this]
    · have hx : ¬ key x = rid := fun e => hr e.symm
      simp only [hr, if_false]
      cases l.find? (fun y => key y = rid) <;> simp [hx]

theorem getMem_setMem (s : Site) (r : Room) (rid : Id) :
    (s.setMem r).getMem rid = if rid = r.id then some r else s.getMem rid := by
  unfold Site.setMem Site.getMem
  have := find_upsert Room.id s.mem r rid
  split
  · rename_i h; simp only [h, if_true] at this; exact this
  · rename_i h; simp only [h, if_false] at this; exact this

theorem getStored_setStored (s : Site) (rr : RoomRow) (rid : Id) :
    (s.setStored rr).getStored rid = if rid = rr.rid then some rr else s.getStored rid := by
  unfold Site.setStored Site.getStored
  have := find_upsert RoomRow.rid s.stored rr rid
  split
  · rename_i h; simp only [h, if_true] at this; exact this
  · rename_i h; simp only [h, if_false] at this; exact this

@[simp] theorem noteInserted_stored (s : Site) (rr : RoomRow) : (s.noteInserted rr).stored = s.stored := rfl
@[simp] theorem noteInserted_mem (s : Site) (rr : RoomRow) : (s.noteInserted rr).mem = s.mem := rfl
@[simp] theorem noteInserted_dead (s : Site) (rr : RoomRow) : (s.noteInserted rr).dead = s.dead := rfl
theorem getMem_noteInserted (s : Site) (rr : RoomRow) (rid : Id) : (s.noteInserted rr).getMem rid = s.getMem rid := rfl
theorem getStored_noteInserted (s : Site) (rr : RoomRow) (rid : Id) :
    (s.noteInserted rr).getStored rid = s.getStored rid := rfl

@[simp] theorem setMem_stored (s : Site) (r : Room) : (s.setMem r).stored = s.stored := by
  unfold Site.setMem; split <;> rfl
@[simp] theorem setStored_mem (s : Site) (rr : RoomRow) : (s.setStored rr).mem = s.mem := by
  unfold Site.setStored; split <;> rfl
@[simp] theorem setMem_dead (s : Site) (r : Room) : (s.setMem r).dead = s.dead := by
  unfold Site.setMem; split <;> rfl
@[simp] theorem setStored_dead (s : Site) (rr : RoomRow) : (s.setStored rr).dead = s.dead := by
  unfold Site.setStored; split <;> rfl

theorem getMem_setStored (s : Site) (rr : RoomRow) (rid : Id) : (s.setStored rr).getMem rid = s.getMem rid := by
  unfold Site.getMem; rw [setStored_mem]

theorem getStored_setMem (s : Site) (r : Room) (rid : Id) : (s.setMem r).getStored rid = s.getStored rid := by
  unfold Site.getStored; rw [setMem_stored]

/-! ### the invariant -/

/-- every room in memory agrees with the rows stored for it and is well-formed; every stored room is in memory -/
structure SiteInv (s : Site) : Prop where
  storedNodup : (s.stored.map (·.rid)).Nodup
  agree : ∀ rid r, s.getMem rid = some r → ∃ rr, s.getStored rid = some rr ∧ AgreesOrd r rr ∧ r.WF
  covered : ∀ rid rr, s.getStored rid = some rr → ∃ r, s.getMem rid = some r

theorem setStored_nodup {s : Site} (h : (s.stored.map (·.rid)).Nodup) (rr : RoomRow) :
    ((s.setStored rr).stored.map (·.rid)).Nodup := by
  unfold Site.setStored
  split
  · simp only [List.map_map]
    have : (s.stored.map ((fun x : RoomRow => x.rid) ∘ fun x => if x.rid = rr.rid then rr else x))
        = s.stored.map (·.rid) := by
      apply List.map_congr_left
      intro x _
      simp only [Function.comp]
      split
      · rename_i e; exact e.symm
      · rfl
    rw [this]; exact h
  · rename_i hany
    simp only [List.map_append, List.map_cons, List.map_nil]
    refine List.nodup_append.mpr ⟨h, by simp, ?_⟩
    intro a ha b hb
    simp at hb; subst hb
    obtain ⟨x, hx, rfl⟩ := List.mem_map.mp ha
    intro e
    exact hany (List.any_eq_true.mpr ⟨x, hx, by simp [e]⟩)

theorem getStored_of_mem {s : Site} (hn : (s.stored.map (·.rid)).Nodup) {rr : RoomRow} (h : rr ∈ s.stored) :
    s.getStored rr.rid = some rr := by
  unfold Site.getStored
  generalize s.stored = l at hn h
  induction l with
  | nil => cases h
  | cons x t ih =>
    simp only [List.map_cons, List.nodup_cons] at hn
    simp only [List.find?]
    by_cases hx : x.rid = rr.rid
    · simp only [hx, decide_true]
      rcases List.mem_cons.mp h with e | e
      · rw [e]
      · exact absurd (List.mem_map.mpr ⟨rr, e, hx.symm⟩) hn.1
    · simp only [hx, decide_false]
      rcases List.mem_cons.mp h with e | e
      · exact absurd (e ▸ rfl) hx
      · exact ih hn.2 e

theorem siteInv_noteInserted {s : Site} (hi : SiteInv s) (rr : RoomRow) : SiteInv (s.noteInserted rr) :=
  ⟨hi.storedNodup, hi.agree, hi.covered⟩

theorem siteInv_empty : SiteInv Site.empty :=
  ⟨by simp [Site.empty],
   by intro rid r h; simp [Site.getMem, Site.empty] at h,
   by intro rid rr h; simp [Site.getStored, Site.empty] at h⟩

/-- installing a room together with rows it agrees with keeps the invariant -/
theorem siteInv_install {s : Site} (hi : SiteInv s) {r : Room} {rr : RoomRow} (ha : AgreesOrd r rr) (hw : r.WF)
    (hid : r.id = rr.rid) : SiteInv ((s.setStored rr).setMem r) := by
  refine ⟨by rw [setMem_stored]; exact setStored_nodup hi.storedNodup rr, ?_, ?_⟩
  · intro rid x hx
    rw [getMem_setMem, getMem_setStored] at hx
    rw [getStored_setMem, getStored_setStored]
    by_cases hr : rid = r.id
    · simp only [hr, if_true] at hx
      cases hx
      have : rid = rr.rid := hr.trans hid
      exact ⟨rr, by simp [this], ha, hw⟩
    · simp only [hr, if_false] at hx
      have : rid ≠ rr.rid := by rw [← hid]; exact hr
      simp only [this, if_false]
      exact hi.agree rid x hx
  · intro rid x hx
    rw [getStored_setMem, getStored_setStored] at hx
    rw [getMem_setMem, getMem_setStored]
    by_cases hr : rid = r.id
    · simp [hr]
    · have : rid ≠ rr.rid := by rw [← hid]; exact hr
      simp only [this, if_false] at hx
      simp only [hr, if_false]
      exact hi.covered rid x hx

/-- **local room mutation preserves the invariant** -/
theorem siteInv_mutate {df : Defects} {s s' : Site} (hi : SiteInv s) {caller : Key} {n : Nat} {m : MutSpec}
    (h : s.mutate df caller n m = .ok s') : SiteInv s' := by
  unfold Site.mutate at h
  split at h
  · cases h
  · simp only at h
    split at h
    · cases h
    · rename_i hrows
      split at h
      · cases h
      · rename_i room hv
        cases h
        have hinv : if m.isNew then (if m.isNew then none else s.getStored m.rid) = none
            else ∃ r rr, s.getMem m.rid = some r ∧ (if m.isNew then none else s.getStored m.rid) = some rr ∧
              AgreesOrd r rr ∧ r.WF ∧ r.id = rr.rid := by
          by_cases hnew : m.isNew
          · simp [hnew]
          · simp only [hnew, Bool.false_eq_true, if_false]
            cases hm : s.getMem m.rid with
            | none =>
              exfalso
              unfold validate at hv
              simp only [hnew, Bool.false_eq_true, if_false, hm] at hv
              cases hv
            | some r =>
              obtain ⟨rr, hs, ha, hw⟩ := hi.agree _ _ hm
              exact ⟨r, rr, rfl, hs, ha, hw, (getMem_some hm).trans (getStored_some hs).symm⟩
        obtain ⟨ha, hw, hid⟩ := validate_agrees (n := n) hinv hv
        exact siteInv_noteInserted (siteInv_install hi ha hw hid) _

/-- **import preserves the invariant**, whatever the candidate -/
theorem siteInv_import {s s' : Site} (hi : SiteInv s) {df : Defects} {cand : RoomRow}
    (h : s.importRoom df cand = .ok s') : SiteInv s' := by
  unfold Site.importRoom at h
  split at h
  · cases h
  · split at h
    · -- unknown room
      split at h
      · cases h
      · rename_i room hp
        cases h
        unfold prepareNewRoom at hp
        split at hp
        · cases hp
        · rename_i r hparse
          split at hp
          · cases hp
            obtain ⟨ha, hw, hid⟩ := parseRoom_agreesOrd (liftErr_ok hparse)
            exact siteInv_noteInserted (siteInv_install hi ha hw hid) _
          · cases hp
    · split at h
      · cases h
      · split at h
        · cases h
        · cases h; exact hi
        · rename_i merged hprep
          split at h
          · cases h
          · rename_i room' hparse
            cases h
            obtain ⟨ha, hw, hid⟩ := parseRoom_agreesOrd (liftErr_ok hparse)
            exact siteInv_noteInserted (siteInv_install hi ha hw hid) _

/-! ### restart -/

theorem groupAgrees_sort {a : Auth} {nf : Bool} {t : TieOrder} {g : GroupRow}
    (h : GroupAgrees a (sortGroup nf t g)) : GroupAgrees a g :=
  ⟨h.id, h.users.trans ((readUsers_perm nf t g.users).map _),
   h.userAdmins.trans ((readUsers_perm nf t g.userAdmins).map _),
   h.rights.trans ((readRights_perm nf t g.rights).map _)⟩

theorem forall2_sort {nf : Bool} {t : TieOrder} {l₂ : List GroupRow} {l₁ : List Auth}
    (h : Forall2 GroupAgrees l₁ (l₂.map (sortGroup nf t))) : Forall2 GroupAgrees l₁ l₂ := by
  induction l₂ generalizing l₁ with
  | nil => cases h; exact Forall2.nil
  | cons g t ih =>
    cases h with
    | cons hab hrest => exact Forall2.cons (groupAgrees_sort hab) (ih hrest)

/-- agreement with the rows as read (sorted) is agreement with the rows as stored -/
theorem agreesOrd_read {r : Room} {rr : RoomRow} {nf : Bool} {t : TieOrder} (h : AgreesOrd r (readRoom nf t rr)) :
    AgreesOrd r rr :=
  ⟨h.admins.trans ((readUsers_perm _ _ rr.admins).map _), forall2_sort h.groups⟩


theorem agreesOrd_gids_nodup {r : Room} {rr : RoomRow} (ha : AgreesOrd r rr) (hw : r.WF) :
    (rr.groups.map (·.gid)).Nodup := by
  rw [← forall2_ids ha.groups]; exact hw.ids

/-- start-up loads room `rr` as `r`, and `r` agrees with the stored rows -/
def Loads (df : Defects) (seq : List Nat) (r : Room) (rr : RoomRow) : Prop :=
  reloadRoom df seq rr = some (.ok r) ∧ AgreesOrd r rr ∧ r.WF ∧ r.id = rr.rid

theorem reloadAll_ok {df : Defects} {seq : List Nat} {l : List RoomRow} (h : ∀ rr ∈ l, ∃ r, Loads df seq r rr) :
    ∃ ms, reloadAll df seq l = .ok ms ∧ Forall2 (Loads df seq) ms l := by
  induction l with
  | nil => exact ⟨[], rfl, Forall2.nil⟩
  | cons rr t ih =>
    obtain ⟨ms, hms, f⟩ := ih (fun x hx => h x (List.mem_cons_of_mem _ hx))
    obtain ⟨r, hr⟩ := h rr (List.mem_cons_self ..)
    refine ⟨r :: ms, ?_, Forall2.cons hr f⟩
    simp only [reloadAll, hr.1, hms]

theorem find_forall2 {df : Defects} {seq : List Nat} {ms : List Room} {l : List RoomRow}
    (f : Forall2 (Loads df seq) ms l) (rid : Id) :
    (ms.find? (·.id = rid) = none ∧ l.find? (·.rid = rid) = none) ∨
    ∃ r rr, ms.find? (·.id = rid) = some r ∧ l.find? (·.rid = rid) = some rr ∧ Loads df seq r rr := by
  induction f with
  | nil => left; simp
  | @cons a b l1 l2 hab _ ih =>
    have hid : a.id = b.rid := hab.2.2.2
    by_cases h : b.rid = rid
    · right
      exact ⟨a, b, by simp [List.find?, hid, h], by simp [List.find?, h], hab⟩
    · have h' : ¬ a.id = rid := by rw [hid]; exact h
      simp only [List.find?, h, h', decide_false]
      exact ih

theorem gidsNodup_of_inv {s : Site} (hi : SiteInv s) : ∀ rr ∈ s.stored, (rr.groups.map (·.gid)).Nodup := by
  intro rr hrr
  have hs := getStored_of_mem hi.storedNodup hrr
  obtain ⟨r, hm⟩ := hi.covered _ _ hs
  obtain ⟨rr', hs', ha, hw⟩ := hi.agree _ _ hm
  rw [hs] at hs'; cases hs'
  exact agreesOrd_gids_nodup ha hw

/-- **restart**, when every stored room loads into a room that agrees with its rows: the instance restarts,
    keeps the invariant, and every room it held is rebuilt from the same stored rows -/
theorem restart_ok {df : Defects} {s : Site} (hi : SiteInv s) (hd : s.dead = false)
    (hl : ∀ rr ∈ s.stored, ∃ r, Loads df s.seq r rr) :
    ∃ s', s.restart df = .ok s' ∧ SiteInv s' ∧ s'.stored = s.stored ∧ s'.dead = false ∧
      ∀ rid r, s.getMem rid = some r → ∃ r' rr, s'.getMem rid = some r' ∧ s.getStored rid = some rr ∧
        AgreesOrd r rr ∧ r.WF ∧ AgreesOrd r' rr ∧ r'.WF := by
  obtain ⟨ms, hms, f⟩ := reloadAll_ok hl
  refine ⟨{ s with mem := ms }, by simp [Site.restart, hd, hms], ?_, rfl, hd, ?_⟩
  · refine ⟨hi.storedNodup, ?_, ?_⟩
    · intro rid r hr
      rcases find_forall2 f rid with ⟨h1, _⟩ | ⟨r0, rr, h1, h2, hp⟩
      · simp only [Site.getMem] at hr; rw [h1] at hr; cases hr
      · simp only [Site.getMem] at hr; rw [h1] at hr; cases hr
        exact ⟨rr, h2, hp.2.1, hp.2.2.1⟩
    · intro rid rr hr
      rcases find_forall2 f rid with ⟨_, h2⟩ | ⟨r0, rr0, h1, _, _⟩
      · simp only [Site.getStored] at hr; rw [h2] at hr; cases hr
      · exact ⟨r0, h1⟩
  · intro rid r hr
    obtain ⟨rr, hs, ha, hw⟩ := hi.agree _ _ hr
    rcases find_forall2 f rid with ⟨_, h2⟩ | ⟨r0, rr0, h1, h2, hp⟩
    · simp only [Site.getStored] at hs; rw [h2] at hs; cases hs
    · simp only [Site.getStored] at hs; rw [h2] at hs; cases hs
      exact ⟨r0, rr, h1, by simp [Site.getStored, h2], ha, hw, hp.2.1, hp.2.2.1⟩

/-- with ascending replay, normalised rights and every room loaded, every stored room with distinct group
    ids loads -/
theorem loads_none {seq : List Nat} {rr : RoomRow} (hn : (rr.groups.map (·.gid)).Nodup) :
    ∃ r, Loads Defects.none seq r rr := by
  obtain ⟨r, hr⟩ := parseRoom_sorted false (.seq seq) rr hn
  obtain ⟨ha, hw, hid⟩ := parseRoom_agreesOrd hr
  refine ⟨r, ?_, agreesOrd_read ha, hw, hid⟩
  simp only [reloadRoom, Defects.none, Bool.false_and, Bool.false_eq_true, if_false]
  rw [hr]

theorem restart_none {s : Site} (hi : SiteInv s) (hd : s.dead = false) :
    ∃ s', s.restart Defects.none = .ok s' ∧ SiteInv s' ∧ s'.stored = s.stored ∧ s'.dead = false ∧
      ∀ rid r, s.getMem rid = some r → ∃ r' rr, s'.getMem rid = some r' ∧ s.getStored rid = some rr ∧
        AgreesOrd r rr ∧ r.WF ∧ AgreesOrd r' rr ∧ r'.WF :=
  restart_ok hi hd (fun rr hrr => loads_none (gidsNodup_of_inv hi rr hrr))

/-! ### the code as it is: reload under a guard -/

/-- the rows of one stored room for which the reload of the code as it is behaves: in every list the
    entries of one key all carry one date (so newest-first replay passes the append-only check), every right
    with `mutate_all` has `mutate_self` (so the missing normalisation changes nothing), and the room has at
    least one admin entry and one group (so it is loaded at all) -/
structure ReloadGuard (rr : RoomRow) : Prop where
  adminsOne : ∀ a ∈ rr.admins, ∀ b ∈ rr.admins, a.key = b.key → a.date = b.date
  usersOne : ∀ g ∈ rr.groups, ∀ a ∈ g.users, ∀ b ∈ g.users, a.key = b.key → a.date = b.date
  userAdminsOne : ∀ g ∈ rr.groups, ∀ a ∈ g.userAdmins, ∀ b ∈ g.userAdmins, a.key = b.key → a.date = b.date
  rightsOne : ∀ g ∈ rr.groups, ∀ a ∈ g.rights, ∀ b ∈ g.rights, a.entity = b.entity → a.date = b.date
  rightsNormal : ∀ g ∈ rr.groups, ∀ a ∈ g.rights, a.mutAll = true → a.mutSelf = true
  hasAdmin : rr.admins ≠ []
  hasGroup : rr.groups ≠ []

theorem toRight_raw_eq (raw : Bool) {r : RightRow} (h : r.mutAll = true → r.mutSelf = true) :
    r.toRight raw = r.toRight false := by
  cases raw with
  | false => rfl
  | true =>
    simp only [RightRow.toRight, Bool.false_eq_true, if_false, if_true, Right.new]
    cases hs : r.mutSelf <;> cases ha : r.mutAll <;> simp_all

theorem userWF_of_one {l : List UserRow} (h : ∀ a ∈ l, ∀ b ∈ l, a.key = b.key → a.date = b.date) :
    UserWF (l.map UserRow.toUser) := by
  apply gwf_of_singleDate
  intro a ha b hb
  obtain ⟨a0, ha0, rfl⟩ := List.mem_map.mp ha
  obtain ⟨b0, hb0, rfl⟩ := List.mem_map.mp hb
  exact h a0 ha0 b0 hb0

/-- under the guard the reload succeeds and agrees with the stored rows whatever the switches are — in
    particular for the code as it is -/
theorem loads_guarded {df : Defects} {seq : List Nat} {rr : RoomRow} (hn : (rr.groups.map (·.gid)).Nodup)
    (hg : ReloadGuard rr) : ∃ r, Loads df seq r rr := by
  have hone : ∀ (nf : Bool) (rev : TieOrder) (l : List UserRow), (∀ a ∈ l, ∀ b ∈ l, a.key = b.key → a.date = b.date) →
      UserWF ((readUsers nf rev l).map UserRow.toUser) := by
    intro nf rev l h
    apply userWF_of_one
    intro a ha b hb
    exact h a ((readUsers_perm nf rev l).mem_iff.mp ha) b ((readUsers_perm nf rev l).mem_iff.mp hb)
  have hparse : ∃ r, parseRoom df.reloadRawRights (readRoom df.newestFirstReplay (.seq seq) rr) = .ok r := by
    apply parseRoom_of_wf
    · rw [readRoom_gids]; exact hn
    · exact hone df.newestFirstReplay (.seq seq) _ hg.adminsOne
    · intro g hgm
      simp only [readRoom, List.mem_map] at hgm
      obtain ⟨g0, hg0, rfl⟩ := hgm
      refine ⟨?_, hone df.newestFirstReplay (.seq seq) _ (hg.usersOne g0 hg0),
        hone df.newestFirstReplay (.seq seq) _ (hg.userAdminsOne g0 hg0)⟩
      apply gwf_of_singleDate
      intro a ha b hb
      obtain ⟨a0, ha0, rfl⟩ := List.mem_map.mp ha
      obtain ⟨b0, hb0, rfl⟩ := List.mem_map.mp hb
      simp only [toRight_entity, toRight_validFrom]
      exact hg.rightsOne g0 hg0 a0
        ((readRights_perm df.newestFirstReplay (.seq seq) g0.rights).mem_iff.mp ha0) b0
        ((readRights_perm df.newestFirstReplay (.seq seq) g0.rights).mem_iff.mp hb0)
  obtain ⟨r, hr⟩ := hparse
  obtain ⟨hid, hadm, f, hw⟩ := parseRoom_ok hr
  refine ⟨r, ?_, ?_, hw, hid⟩
  · have h1 : rr.admins.isEmpty = false := by
      cases h : rr.admins with
      | nil => exact absurd h hg.hasAdmin
      | cons _ _ => rfl
    have h2 : rr.groups.isEmpty = false := by
      cases h : rr.groups with
      | nil => exact absurd h hg.hasGroup
      | cons _ _ => rfl
    simp only [reloadRoom, h1, h2, Bool.or_self, Bool.and_false, Bool.false_eq_true, if_false]
    rw [hr]
  · apply agreesOrd_read (nf := df.newestFirstReplay) (t := .seq seq)
    refine ⟨by rw [hadm], ?_⟩
    have hnorm : ∀ g ∈ (readRoom df.newestFirstReplay (.seq seq) rr).groups, ∀ a ∈ g.rights,
        a.mutAll = true → a.mutSelf = true := by
      intro g hgm a ha
      simp only [readRoom, List.mem_map] at hgm
      obtain ⟨g0, hg0, rfl⟩ := hgm
      exact hg.rightsNormal g0 hg0 a ((readRights_perm df.newestFirstReplay (.seq seq) g0.rights).mem_iff.mp ha)
    generalize (readRoom df.newestFirstReplay (.seq seq) rr).groups = gs at f hnorm
    generalize r.auths = as at f
    induction f with
    | nil => exact Forall2.nil
    | @cons a g l1 l2 hab _ ih =>
      refine Forall2.cons ?_ (ih (fun g' hg' => hnorm g' (List.mem_cons_of_mem _ hg')))
      refine ⟨hab.id, by rw [hab.users], by rw [hab.userAdmins], ?_⟩
      rw [hab.rights]
      have : g.rights.map (RightRow.toRight df.reloadRawRights) = g.rights.map (RightRow.toRight false) := by
        apply List.map_congr_left
        intro x hx
        exact toRight_raw_eq _ (hnorm g (List.mem_cons_self ..) x hx)
      rw [this]

theorem ok_of_toBool {ε α : Type} {x : Except ε α} (h : x.toBool = true) : ∃ a, x = .ok a := by
  cases x with
  | ok a => exact ⟨a, rfl⟩
  | error e => cases h

end Discret.RoomBuild
