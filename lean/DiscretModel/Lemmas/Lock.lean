import DiscretModel.Model.Lock
/-
Helper lemmas for the lock-service model. Property theorems are in `Props/C20.lean`.
-/
namespace Discret.Lock

/-! ### association list -/

def keys (l : List (Peer × Req)) : List Peer := l.map Prod.fst

theorem lookup_some_mem {p : Peer} {l : List (Peer × Req)} {r : Req} (h : lookup p l = some r) :
    (p, r) ∈ l := by
  induction l with
  | nil => simp [lookup] at h
  | cons a t ih =>
    obtain ⟨q, x⟩ := a
    simp only [lookup] at h
    split at h
    · cases h; subst_vars; simp
    · exact List.mem_cons_of_mem _ (ih h)

theorem lookup_none_iff {p : Peer} {l : List (Peer × Req)} : lookup p l = none ↔ p ∉ keys l := by
  induction l with
  | nil => simp [lookup, keys]
  | cons a t ih =>
    obtain ⟨q, x⟩ := a
    simp only [lookup, keys, List.map_cons, List.mem_cons, not_or]
    split
    · subst_vars; simp
    · rename_i hne
      simp only [keys] at ih
      rw [ih]
      constructor
      · intro h; exact ⟨fun e => hne e.symm, h⟩
      · intro h; exact h.2

theorem mem_erase {p q : Peer} {r : Req} {l : List (Peer × Req)} :
    (q, r) ∈ erase p l ↔ (q, r) ∈ l ∧ q ≠ p := by
  induction l with
  | nil => simp [erase]
  | cons a t ih =>
    obtain ⟨a1, a2⟩ := a
    simp only [erase]
    split
    · subst_vars
      rw [ih]
      constructor
      · intro ⟨h1, h2⟩; exact ⟨List.mem_cons_of_mem _ h1, h2⟩
      · intro ⟨h1, h2⟩
        rcases List.mem_cons.mp h1 with h | h
        · cases h; exact absurd rfl h2
        · exact ⟨h, h2⟩
    · rename_i hne
      simp only [List.mem_cons, ih]
      constructor
      · rintro (h | ⟨h1, h2⟩)
        · cases h; exact ⟨Or.inl rfl, hne⟩
        · exact ⟨Or.inr h1, h2⟩
      · rintro ⟨h | h, h2⟩
        · exact Or.inl h
        · exact Or.inr ⟨h, h2⟩

theorem keys_erase {p q : Peer} {l : List (Peer × Req)} :
    q ∈ keys (erase p l) ↔ q ∈ keys l ∧ q ≠ p := by
  simp only [keys, List.mem_map, Prod.exists, exists_and_right, exists_eq_right]
  constructor
  · rintro ⟨r, h⟩; rw [mem_erase] at h; exact ⟨⟨r, h.1⟩, h.2⟩
  · rintro ⟨⟨r, h⟩, h2⟩; exact ⟨r, mem_erase.mpr ⟨h, h2⟩⟩

theorem keys_erase_nodup {p : Peer} {l : List (Peer × Req)} (h : (keys l).Nodup) :
    (keys (erase p l)).Nodup := by
  induction l with
  | nil => simp [erase, keys]
  | cons a t ih =>
    obtain ⟨a1, a2⟩ := a
    simp only [keys, List.map_cons, List.nodup_cons] at h
    simp only [erase]
    split
    · exact ih h.2
    · simp only [keys, List.map_cons, List.nodup_cons]
      refine ⟨?_, ih h.2⟩
      intro hm
      have := (keys_erase (p := p) (q := a1) (l := t)).mp hm
      exact h.1 this.1

/-! ### the room loop -/

/-- a grant is a free room of the request, the channel is live, what remains is a sub-list -/
theorem roomLoop_some {locked : List Room} {live : Bool} {fuel : Nat} {rooms rooms' : List Room}
    {r : Room} (h : roomLoop locked live fuel rooms = (rooms', some r)) :
    r ∉ locked ∧ live = true ∧ r ∈ rooms ∧ ∀ x ∈ rooms', x ∈ rooms := by
  induction fuel generalizing rooms with
  | zero => simp [roomLoop] at h
  | succ n ih =>
    cases rooms with
    | nil => simp [roomLoop] at h
    | cons a rest =>
      simp only [roomLoop] at h
      split at h
      · obtain ⟨h1, h2, h3, h4⟩ := ih h
        refine ⟨h1, h2, ?_, ?_⟩
        · simp only [List.mem_append, List.mem_singleton] at h3
          rcases h3 with h3 | h3
          · exact List.mem_cons_of_mem _ h3
          · subst h3; exact List.mem_cons_self
        · intro x hx
          have := h4 x hx
          simp only [List.mem_append, List.mem_singleton] at this
          rcases this with h5 | h5
          · exact List.mem_cons_of_mem _ h5
          · subst h5; exact List.mem_cons_self
      · rename_i hnl
        split at h
        · rename_i hl
          simp only [Prod.mk.injEq, Option.some.injEq] at h
          obtain ⟨h1, h2⟩ := h
          subst h1 h2
          refine ⟨by simpa using hnl, hl, List.mem_cons_self, ?_⟩
          intro x hx; exact List.mem_cons_of_mem _ hx
        · obtain ⟨h1, h2, h3, h4⟩ := ih h
          exact ⟨h1, h2, List.mem_cons_of_mem _ h3, fun x hx => List.mem_cons_of_mem _ (h4 x hx)⟩

theorem roomLoop_none_sub {locked : List Room} {live : Bool} {fuel : Nat} {rooms rooms' : List Room}
    (h : roomLoop locked live fuel rooms = (rooms', none)) : ∀ x ∈ rooms', x ∈ rooms := by
  induction fuel generalizing rooms with
  | zero => simp only [roomLoop, Prod.mk.injEq, and_true] at h; subst h; exact fun _ hx => hx
  | succ n ih =>
    cases rooms with
    | nil => simp only [roomLoop, Prod.mk.injEq, and_true] at h; subst h; exact fun _ hx => hx
    | cons a rest =>
      simp only [roomLoop] at h
      split at h
      · intro x hx
        have := ih h x hx
        simp only [List.mem_append, List.mem_singleton] at this
        rcases this with h5 | h5
        · exact List.mem_cons_of_mem _ h5
        · subst h5; exact List.mem_cons_self
      · split at h
        · simp at h
        · intro x hx; exact List.mem_cons_of_mem _ (ih h x hx)

theorem roomLoop_sub {locked : List Room} {live : Bool} {fuel : Nat} {rooms rooms' : List Room}
    {g : Option Room} (h : roomLoop locked live fuel rooms = (rooms', g)) :
    ∀ x ∈ rooms', x ∈ rooms := by
  cases g with
  | none => exact roomLoop_none_sub h
  | some r => exact (roomLoop_some h).2.2.2

/-- a full pass that grants nothing leaves only locked rooms -/
theorem roomLoop_none_locked {locked : List Room} {live : Bool} {fuel : Nat}
    {un done rooms' : List Room}
    (h : roomLoop locked live fuel (un ++ done) = (rooms', none))
    (hf : un.length ≤ fuel) (hd : ∀ x ∈ done, x ∈ locked) : ∀ x ∈ rooms', x ∈ locked := by
  induction fuel generalizing un done with
  | zero =>
    have : un = [] := List.eq_nil_of_length_eq_zero (Nat.le_zero.mp hf)
    subst this
    simp only [roomLoop, List.nil_append, Prod.mk.injEq, and_true] at h
    subst h; exact hd
  | succ n ih =>
    cases un with
    | nil =>
      cases done with
      | nil =>
        simp only [roomLoop, List.append_nil, Prod.mk.injEq, and_true] at h
        subst h; intro x hx; cases hx
      | cons r rest =>
        simp only [List.nil_append, roomLoop] at h
        have hr : locked.contains r = true := by
          simpa using hd r List.mem_cons_self
        simp only [hr, ↓reduceIte] at h
        have h' : roomLoop locked live n ([] ++ (rest ++ [r])) = (rooms', none) := by simpa using h
        refine ih h' (Nat.zero_le _) ?_
        intro x hx
        simp only [List.mem_append, List.mem_singleton] at hx
        rcases hx with hx | hx
        · exact hd x (List.mem_cons_of_mem _ hx)
        · subst hx; exact hd x List.mem_cons_self
    | cons r un' =>
      simp only [List.cons_append, roomLoop] at h
      simp only [List.length_cons] at hf
      split at h
      · rename_i hl
        have h' : roomLoop locked live n (un' ++ (done ++ [r])) = (rooms', none) := by
          simpa [List.append_assoc] using h
        refine ih h' (Nat.le_of_succ_le_succ hf) ?_
        intro x hx
        simp only [List.mem_append, List.mem_singleton] at hx
        rcases hx with hx | hx
        · exact hd x hx
        · subst hx; simpa using hl
      · split at h
        · simp at h
        · exact ih h (Nat.le_of_succ_le_succ hf) hd

/-- with a live channel a pass without grant only rotates: nothing is dropped -/
theorem roomLoop_none_live_keeps {locked : List Room} {fuel : Nat} {rooms rooms' : List Room}
    (h : roomLoop locked true fuel rooms = (rooms', none)) : ∀ x ∈ rooms, x ∈ rooms' := by
  induction fuel generalizing rooms with
  | zero => simp only [roomLoop, Prod.mk.injEq, and_true] at h; subst h; exact fun _ hx => hx
  | succ n ih =>
    cases rooms with
    | nil => intro x hx; cases hx
    | cons a rest =>
      simp only [roomLoop] at h
      split at h
      · intro x hx
        apply ih h
        simp only [List.mem_append, List.mem_singleton]
        rcases List.mem_cons.mp hx with h5 | h5
        · exact Or.inr h5
        · exact Or.inl h5
      · simp at h

/-- accounting with a live channel: the rooms are the grant plus what remains, as multisets -/
theorem roomLoop_live_perm {locked : List Room} {fuel : Nat} {rooms rooms' : List Room}
    {g : Option Room} (h : roomLoop locked true fuel rooms = (rooms', g)) :
    rooms.Perm (g.toList ++ rooms') := by
  induction fuel generalizing rooms with
  | zero =>
    simp only [roomLoop, Prod.mk.injEq] at h
    obtain ⟨h1, h2⟩ := h; subst h1 h2; simp
  | succ n ih =>
    cases rooms with
    | nil =>
      simp only [roomLoop, Prod.mk.injEq] at h
      obtain ⟨h1, h2⟩ := h; subst h1 h2; simp
    | cons a rest =>
      simp only [roomLoop] at h
      split at h
      · have := ih h
        exact (List.perm_append_singleton a rest).symm.trans this
      · simp only [↓reduceIte, Prod.mk.injEq] at h
        obtain ⟨h1, h2⟩ := h; subst h1 h2; simp

/-- anything that disappears without being granted disappears because the receiver is gone -/
theorem roomLoop_drop_dead {locked : List Room} {live : Bool} {fuel : Nat} {rooms rooms' : List Room}
    {g : Option Room} (h : roomLoop locked live fuel rooms = (rooms', g))
    (hdrop : ¬ rooms.Perm (g.toList ++ rooms')) : live = false := by
  cases live with
  | false => rfl
  | true => exact absurd (roomLoop_live_perm h) hdrop

end Discret.Lock

namespace Discret.Lock

/-! ### state invariants -/

structure Inv (max : Nat) (s : State) : Prop where
  lockedNodup : s.locked.Nodup
  count : s.locked.length + s.avail = max
  keysNodup : (keys s.reqs).Nodup
  queueNodup : s.queue.Nodup
  queueKeys : ∀ p, p ∈ s.queue ↔ p ∈ keys s.reqs

theorem inv_init (max : Nat) : Inv max (init max) := by
  constructor <;> simp [init, keys]

/-- every pending room is locked: nobody is waiting for a free room -/
def Settled (s : State) : Prop :=
  ∀ p req, (p, req) ∈ s.reqs → ∀ r ∈ req.rooms, r ∈ s.locked

/-- `s'` has at least the locks of `s`, and each of its pending requests is a shrunk request of `s` -/
def Sub (s s' : State) : Prop :=
  (∀ r ∈ s.locked, r ∈ s'.locked) ∧
  ∀ p req', (p, req') ∈ s'.reqs → ∃ req, (p, req) ∈ s.reqs ∧ req'.ch = req.ch ∧
    ∀ x ∈ req'.rooms, x ∈ req.rooms

theorem Sub.refl (s : State) : Sub s s :=
  ⟨fun _ h => h, fun _ req h => ⟨req, h, rfl, fun _ hx => hx⟩⟩

theorem Sub.trans {a b c : State} (h1 : Sub a b) (h2 : Sub b c) : Sub a c := by
  refine ⟨fun r hr => h2.1 r (h1.1 r hr), ?_⟩
  intro p req'' h
  obtain ⟨req', hm', hc', hs'⟩ := h2.2 p req'' h
  obtain ⟨req, hm, hc, hs⟩ := h1.2 p req' hm'
  exact ⟨req, hm, hc'.trans hc, fun x hx => hs x (hs' x hx)⟩

theorem Settled.of_sub {s s' : State} (h : Settled s) (hs : Sub s s') : Settled s' := by
  intro p req' hm r hr
  obtain ⟨req, hm0, _, hsub⟩ := hs.2 p req' hm
  exact hs.1 r (h p req hm0 r (hsub r hr))

/-! ### the outer loop (`scan`)

During a scan the queue of the service is split into `sk` (the peers visited and skipped, in their
order) and `todo` (the peers still to visit): the invariant is stated on `sk ++ todo`. -/

/-- the state as the invariant sees it while `todo` remains to be scanned -/
def vstate (s : State) (sk todo : List Peer) : State := { s with queue := sk ++ todo }

theorem mem_uniq {l : List (Peer × Req)} (hn : (keys l).Nodup) {p : Peer} {r1 r2 : Req}
    (h1 : (p, r1) ∈ l) (h2 : (p, r2) ∈ l) : r1 = r2 := by
  induction l with
  | nil => cases h1
  | cons a t ih =>
    simp only [keys, List.map_cons, List.nodup_cons] at hn
    rcases List.mem_cons.mp h1 with e1 | e1 <;> rcases List.mem_cons.mp h2 with e2 | e2
    · rw [← e1] at e2; exact ((Prod.mk.inj e2).2).symm
    · exact absurd (List.mem_map_of_mem (f := Prod.fst) e2) (by rw [← e1] at hn; exact hn.1)
    · exact absurd (List.mem_map_of_mem (f := Prod.fst) e1) (by rw [← e2] at hn; exact hn.1)
    · exact ih hn.2 e1 e2

section scan
variable {max : Nat}

/-- the requests after the turn of peer `p` whose request was `req` and whose rooms became `rooms'` -/
def turnReqs (s : State) (p : Peer) (req : Req) (rooms' : List Room) : List (Peer × Req) :=
  if rooms'.isEmpty then erase p s.reqs else (p, { req with rooms := rooms' }) :: erase p s.reqs

theorem turnReqs_mem {s : State} {p : Peer} {req : Req} {rooms' : List Room} {p' : Peer} {req' : Req}
    (hsub : ∀ x ∈ rooms', x ∈ req.rooms) (hm : (p', req') ∈ turnReqs s p req rooms') :
    (p' ≠ p ∧ (p', req') ∈ s.reqs) ∨
      (p' = p ∧ req'.ch = req.ch ∧ req'.rooms = rooms' ∧ rooms' ≠ [] ∧ ∀ x ∈ req'.rooms, x ∈ req.rooms) := by
  unfold turnReqs at hm
  split at hm
  · have := mem_erase.mp hm
    exact Or.inl ⟨this.2, this.1⟩
  · rename_i hne
    rcases List.mem_cons.mp hm with h1 | h1
    · simp only [Prod.mk.injEq] at h1
      obtain ⟨h1, h2⟩ := h1
      subst h1 h2
      refine Or.inr ⟨rfl, rfl, rfl, ?_, hsub⟩
      intro he; rw [he] at hne; simp at hne
    · have := mem_erase.mp h1
      exact Or.inl ⟨this.2, this.1⟩

theorem turnReqs_keys {s : State} {p : Peer} {req : Req} {rooms' : List Room} {p' : Peer}
    (hne : p' ≠ p) : p' ∈ keys (turnReqs s p req rooms') ↔ p' ∈ keys s.reqs := by
  unfold turnReqs
  split
  · rw [keys_erase]; exact ⟨fun h => h.1, fun h => ⟨h, hne⟩⟩
  · simp only [keys, List.map_cons, List.mem_cons]
    constructor
    · rintro (h | h)
      · exact absurd h hne
      · exact (keys_erase.mp h).1
    · intro h; exact Or.inr (keys_erase.mpr ⟨h, hne⟩)

theorem turnReqs_key_self {s : State} {p : Peer} {req : Req} {rooms' : List Room} :
    p ∈ keys (turnReqs s p req rooms') ↔ rooms' ≠ [] := by
  unfold turnReqs
  have hk : p ∉ keys (erase p s.reqs) := fun hm => (keys_erase.mp hm).2 rfl
  split
  · rename_i he
    constructor
    · intro h; exact absurd h hk
    · intro h; exact absurd (List.isEmpty_iff.mp he) h
  · rename_i he
    constructor
    · intro _ h; rw [h] at he; simp at he
    · intro _; simp [keys]

theorem turnReqs_nodup {s : State} {p : Peer} {req : Req} {rooms' : List Room}
    (hn : (keys s.reqs).Nodup) : (keys (turnReqs s p req rooms')).Nodup := by
  unfold turnReqs
  have hk : p ∉ keys (erase p s.reqs) := fun hm => (keys_erase.mp hm).2 rfl
  split
  · exact keys_erase_nodup hn
  · simp only [keys, List.map_cons, List.nodup_cons]
    exact ⟨hk, keys_erase_nodup hn⟩

theorem turnReqs_sub {s : State} {p : Peer} {req : Req} {rooms' : List Room}
    (hl : lookup p s.reqs = some req) (hsub : ∀ x ∈ rooms', x ∈ req.rooms) :
    ∀ p' req', (p', req') ∈ turnReqs s p req rooms' → ∃ req0, (p', req0) ∈ s.reqs ∧ req'.ch = req0.ch ∧
      ∀ x ∈ req'.rooms, x ∈ req0.rooms := by
  intro p' req' hm
  rcases turnReqs_mem hsub hm with ⟨_, h2⟩ | ⟨h1, h2, _, _, h5⟩
  · exact ⟨req', h2, rfl, fun _ hx => hx⟩
  · subst h1; exact ⟨req, lookup_some_mem hl, h2, h5⟩

/-- the invariant on the virtual queue after a turn without grant -/
theorem turn_none_inv {s : State} {p : Peer} {q sk : List Peer} {req : Req} {rooms' : List Room}
    (hi : Inv max (vstate s sk (p :: q))) :
    Inv max (vstate { s with reqs := turnReqs s p req rooms' }
      (if rooms'.isEmpty then sk else sk ++ [p]) q) := by
  have hqn : (sk ++ p :: q).Nodup := hi.queueNodup
  have hkeys := hi.queueKeys
  simp only [vstate] at hkeys
  refine ⟨hi.lockedNodup, hi.count, turnReqs_nodup hi.keysNodup, ?_, ?_⟩
  · simp only [vstate]
    split
    · exact List.nodup_append.mpr ⟨(List.nodup_append.mp hqn).1, (List.nodup_cons.mp (List.nodup_append.mp hqn).2.1).2,
        fun a ha b hb => (List.nodup_append.mp hqn).2.2 a ha b (List.mem_cons_of_mem _ hb)⟩
    · rw [List.append_assoc]; exact hqn
  · intro p'
    simp only [vstate]
    by_cases e : p' = p
    · subst e
      rw [turnReqs_key_self]
      have hnp : p' ∉ sk := by
        intro h
        exact (List.nodup_append.mp hqn).2.2 p' h p' List.mem_cons_self rfl
      have hnq : p' ∉ q := (List.nodup_cons.mp (List.nodup_append.mp hqn).2.1).1
      split
      · rename_i he
        constructor
        · intro h; rcases List.mem_append.mp h with h | h
          · exact absurd h hnp
          · exact absurd h hnq
        · intro h; exact absurd (List.isEmpty_iff.mp he) h
      · rename_i he
        constructor
        · intro _ h; rw [h] at he; simp at he
        · intro _; simp
    · rw [turnReqs_keys e, ← hkeys p']
      split <;> simp [e]

theorem scan_inv {s s' : State} {todo sk : List Peer} {g : Option (Ch × Room)}
    (hi : Inv max (vstate s sk todo)) (ha : 0 < s.avail) (h : scan s todo sk = (s', g)) :
    Inv max s' := by
  induction todo generalizing s sk with
  | nil =>
    simp only [scan, Prod.mk.injEq] at h
    obtain ⟨h1, _⟩ := h; subst h1
    simpa [vstate] using hi
  | cons p q ih =>
    simp only [scan] at h
    split at h
    · rename_i hl
      have : p ∈ keys s.reqs := (hi.queueKeys p).mp (by simp [vstate])
      exact absurd this (lookup_none_iff.mp hl)
    · rename_i req hl
      split at h
      · rename_i r hres
        simp only [Prod.mk.injEq] at h
        obtain ⟨h1, _⟩ := h; subst h1
        have hrl : roomLoop s.locked (!s.dead.contains req.ch) req.rooms.length req.rooms
            = ((roomLoop s.locked (!s.dead.contains req.ch) req.rooms.length req.rooms).1, some r) := by
          rw [← hres]
        obtain ⟨hnl, _, _, _⟩ := roomLoop_some hrl
        have hqn : (sk ++ p :: q).Nodup := hi.queueNodup
        have hkeys := hi.queueKeys
        simp only [vstate] at hkeys
        have hnp : p ∉ sk := fun h => (List.nodup_append.mp hqn).2.2 p h p List.mem_cons_self rfl
        have hnq : p ∉ q := (List.nodup_cons.mp (List.nodup_append.mp hqn).2.1).1
        have hskq : (sk ++ q).Nodup :=
          List.nodup_append.mpr ⟨(List.nodup_append.mp hqn).1, (List.nodup_cons.mp (List.nodup_append.mp hqn).2.1).2,
            fun a ha b hb => (List.nodup_append.mp hqn).2.2 a ha b (List.mem_cons_of_mem _ hb)⟩
        refine ⟨List.nodup_cons.mpr ⟨hnl, hi.lockedNodup⟩, ?_, turnReqs_nodup hi.keysNodup, ?_, ?_⟩
        · have := hi.count; simp only [vstate] at this; simp only [List.length_cons]; omega
        · simp only
          split
          · exact hskq
          · rw [← List.append_assoc]
            refine List.nodup_append.mpr ⟨hskq, by simp, ?_⟩
            intro a ha b hb
            simp only [List.mem_singleton] at hb
            subst hb; intro e; subst e
            rcases List.mem_append.mp ha with h | h
            · exact hnp h
            · exact hnq h
        · intro p'
          simp only
          by_cases e : p' = p
          · subst e
            have := turnReqs_key_self (s := s) (p := p') (req := req)
              (rooms' := (roomLoop s.locked (!s.dead.contains req.ch) req.rooms.length req.rooms).1)
            simp only [turnReqs] at this
            rw [this]
            split
            · rename_i he
              constructor
              · intro h; rcases List.mem_append.mp h with h | h
                · exact absurd h hnp
                · exact absurd h hnq
              · intro h; exact absurd (List.isEmpty_iff.mp he) h
            · rename_i he
              constructor
              · intro _ h; rw [h] at he; simp at he
              · intro _; simp
          · have hk := turnReqs_keys (s := s) (p := p) (req := req)
              (rooms' := (roomLoop s.locked (!s.dead.contains req.ch) req.rooms.length req.rooms).1) e
            simp only [turnReqs] at hk
            rw [hk, ← hkeys p']
            split <;> simp [e]
      · exact ih (turn_none_inv hi) ha h

theorem scan_sub {s s' : State} {todo sk : List Peer} {g : Option (Ch × Room)}
    (hi : Inv max (vstate s sk todo)) (h : scan s todo sk = (s', g)) : Sub s s' := by
  induction todo generalizing s sk with
  | nil =>
    simp only [scan, Prod.mk.injEq] at h
    obtain ⟨h1, _⟩ := h; subst h1
    exact ⟨fun _ h => h, fun _ req h => ⟨req, h, rfl, fun _ hx => hx⟩⟩
  | cons p q ih =>
    simp only [scan] at h
    split at h
    · rename_i hl
      have : p ∈ keys s.reqs := (hi.queueKeys p).mp (by simp [vstate])
      exact absurd this (lookup_none_iff.mp hl)
    · rename_i req hl
      have hsubr := roomLoop_sub (g := (roomLoop s.locked (!s.dead.contains req.ch) req.rooms.length req.rooms).2) rfl
      split at h
      · simp only [Prod.mk.injEq] at h
        obtain ⟨h1, _⟩ := h; subst h1
        exact ⟨fun r hr => List.mem_cons_of_mem _ hr, turnReqs_sub hl hsubr⟩
      · have h1 : Sub s { s with reqs := (turnReqs s p req
            (roomLoop s.locked (!s.dead.contains req.ch) req.rooms.length req.rooms).1) } :=
          ⟨fun _ h => h, turnReqs_sub hl hsubr⟩
        exact h1.trans (ih (turn_none_inv hi) h)

theorem scan_dead {s s' : State} {todo sk : List Peer} {g : Option (Ch × Room)}
    (h : scan s todo sk = (s', g)) : s'.dead = s.dead := by
  induction todo generalizing s sk with
  | nil => simp only [scan, Prod.mk.injEq] at h; obtain ⟨h1, _⟩ := h; subst h1; rfl
  | cons p q ih =>
    simp only [scan] at h
    split at h
    · exact ih h
    · split at h
      · simp only [Prod.mk.injEq] at h; obtain ⟨h1, _⟩ := h; subst h1; rfl
      · have := ih h; simpa using this

theorem scan_none {s s' : State} {todo sk : List Peer} (h : scan s todo sk = (s', none)) :
    s'.locked = s.locked ∧ s'.avail = s.avail := by
  induction todo generalizing s sk with
  | nil => simp only [scan, Prod.mk.injEq, and_true] at h; subst h; exact ⟨rfl, rfl⟩
  | cons p q ih =>
    simp only [scan] at h
    split at h
    · exact ih h
    · split at h
      · simp at h
      · have := ih h; simpa using this

/-- what a grant is: a free room, pending on a live channel; it becomes locked and uses one slot -/
theorem scan_some {s s' : State} {todo sk : List Peer} {ch : Ch} {r : Room}
    (hi : Inv max (vstate s sk todo)) (h : scan s todo sk = (s', some (ch, r))) :
    r ∉ s.locked ∧ s'.locked = r :: s.locked ∧ s'.avail = s.avail - 1 ∧ ch ∉ s.dead ∧
      ∃ p req, (p, req) ∈ s.reqs ∧ req.ch = ch ∧ r ∈ req.rooms := by
  induction todo generalizing s sk with
  | nil => simp [scan] at h
  | cons p q ih =>
    simp only [scan] at h
    split at h
    · rename_i hl
      have : p ∈ keys s.reqs := (hi.queueKeys p).mp (by simp [vstate])
      exact absurd this (lookup_none_iff.mp hl)
    · rename_i req hl
      have hsubr := roomLoop_sub (g := (roomLoop s.locked (!s.dead.contains req.ch) req.rooms.length req.rooms).2) rfl
      split at h
      · rename_i r' hres
        simp only [Prod.mk.injEq, Option.some.injEq] at h
        obtain ⟨h1, h2, h3⟩ := h; subst h1 h2 h3
        have hrl : roomLoop s.locked (!s.dead.contains req.ch) req.rooms.length req.rooms
            = ((roomLoop s.locked (!s.dead.contains req.ch) req.rooms.length req.rooms).1, some r') := by
          rw [← hres]
        obtain ⟨a, b, c, _⟩ := roomLoop_some hrl
        exact ⟨a, rfl, rfl, by simpa using b, p, req, lookup_some_mem hl, rfl, c⟩
      · obtain ⟨a, b, c, d, p', req', hm, hc, hr⟩ := ih (turn_none_inv hi) h
        obtain ⟨req0, hm0, hc0, hsub0⟩ := turnReqs_sub hl hsubr p' req' hm
        exact ⟨a, b, c, d, p', req0, hm0, hc0 ▸ hc, hsub0 r hr⟩

/-- a full scan that grants nothing: every pending room is locked afterwards -/
theorem scan_none_settled {s s' : State} {todo sk : List Peer}
    (hi : Inv max (vstate s sk todo)) (h : scan s todo sk = (s', none))
    (hd : ∀ p ∈ sk, ∀ req, (p, req) ∈ s.reqs → ∀ r ∈ req.rooms, r ∈ s.locked) : Settled s' := by
  induction todo generalizing s sk with
  | nil =>
    simp only [scan, Prod.mk.injEq, and_true] at h; subst h
    intro p req hm
    have : p ∈ sk ++ [] := (hi.queueKeys p).mpr (List.mem_map_of_mem (f := Prod.fst) hm)
    exact hd p (by simpa using this) req hm
  | cons p q ih =>
    simp only [scan] at h
    split at h
    · rename_i hl
      have : p ∈ keys s.reqs := (hi.queueKeys p).mp (by simp [vstate])
      exact absurd this (lookup_none_iff.mp hl)
    · rename_i req hl
      have hsubr := roomLoop_sub (g := (roomLoop s.locked (!s.dead.contains req.ch) req.rooms.length req.rooms).2) rfl
      split at h
      · simp at h
      · rename_i hres
        refine ih (turn_none_inv hi) h ?_
        intro p' hp' req' hm r hr
        simp only at hm ⊢
        rcases turnReqs_mem hsubr hm with ⟨hne, hm0⟩ | ⟨he, _, hrooms, _, _⟩
        · have hp'sk : p' ∈ sk := by
            split at hp'
            · exact hp'
            · rcases List.mem_append.mp hp' with h | h
              · exact h
              · simp only [List.mem_singleton] at h; exact absurd h hne
          exact hd p' hp'sk req' hm0 r hr
        · -- the rooms that remain for `p` after its turn are all locked
          rw [hrooms] at hr
          have hrl : roomLoop s.locked (!s.dead.contains req.ch) req.rooms.length (req.rooms ++ [])
              = ((roomLoop s.locked (!s.dead.contains req.ch) req.rooms.length req.rooms).1, none) := by
            rw [List.append_nil, ← hres]
          exact roomLoop_none_locked hrl (Nat.le_refl _) (by intro x hx; cases hx) r hr

/-- with a live channel and no grant, a pending request keeps its rooms -/
theorem scan_none_live_keeps {s s' : State} {todo sk : List Peer}
    (hi : Inv max (vstate s sk todo)) (h : scan s todo sk = (s', none))
    {p : Peer} {req : Req} (hm : (p, req) ∈ s.reqs) (hlive : req.ch ∉ s.dead)
    {x : Room} (hx : x ∈ req.rooms) :
    ∃ req', (p, req') ∈ s'.reqs ∧ req'.ch = req.ch ∧ x ∈ req'.rooms := by
  induction todo generalizing s sk req with
  | nil =>
    simp only [scan, Prod.mk.injEq, and_true] at h; subst h
    exact ⟨req, hm, rfl, hx⟩
  | cons p0 q ih =>
    simp only [scan] at h
    split at h
    · rename_i hl
      have : p0 ∈ keys s.reqs := (hi.queueKeys p0).mp (by simp [vstate])
      exact absurd this (lookup_none_iff.mp hl)
    · rename_i req0 hl
      split at h
      · simp at h
      · rename_i hres
        have hstep : ∃ req1, (p, req1) ∈ turnReqs s p0 req0
              (roomLoop s.locked (!s.dead.contains req0.ch) req0.rooms.length req0.rooms).1 ∧
            req1.ch = req.ch ∧ x ∈ req1.rooms := by
          by_cases hpp : p = p0
          · subst hpp
            have hreq : req0 = req := mem_uniq hi.keysNodup (lookup_some_mem hl) hm
            subst hreq
            have hlv : (!s.dead.contains req0.ch) = true := by simpa using hlive
            have hrl : roomLoop s.locked true req0.rooms.length req0.rooms
                = ((roomLoop s.locked true req0.rooms.length req0.rooms).1, none) := by
              rw [hlv] at hres; rw [← hres]
            have hk := roomLoop_none_live_keeps hrl
            rw [hlv]
            have hne : ¬ (roomLoop s.locked true req0.rooms.length req0.rooms).1.isEmpty = true := by
              intro he
              have := hk x hx
              rw [List.isEmpty_iff.mp he] at this; cases this
            simp only [turnReqs, hne]
            exact ⟨_, List.mem_cons_self, rfl, hk x hx⟩
          · refine ⟨req, ?_, rfl, hx⟩
            unfold turnReqs
            split
            · exact mem_erase.mpr ⟨hm, hpp⟩
            · exact List.mem_cons_of_mem _ (mem_erase.mpr ⟨hm, hpp⟩)
        obtain ⟨req1, hm1, hc1, hk1⟩ := hstep
        obtain ⟨req', hm', hc', hk'⟩ :=
          ih (turn_none_inv hi) h hm1 (by simp only; rw [hc1]; exact hlive) hk1
        exact ⟨req', hm', hc'.trans hc1, hk'⟩

end scan

end Discret.Lock

namespace Discret.Lock

/-! ### `acquire`, `acquireN` -/

theorem vstate_acquire {max : Nat} {s : State} (hi : Inv max s) : Inv max (vstate s [] s.queue) := by
  simpa [vstate] using hi

theorem acquire_inv {max : Nat} {s s' : State} {g : Option (Ch × Room)}
    (hi : Inv max s) (ha : 0 < s.avail) (h : acquire s = (s', g)) : Inv max s' :=
  scan_inv (vstate_acquire hi) ha h

theorem acquire_sub {max : Nat} {s s' : State} {g : Option (Ch × Room)}
    (hi : Inv max s) (_ha : 0 < s.avail) (h : acquire s = (s', g)) : Sub s s' :=
  scan_sub (vstate_acquire hi) h

theorem acquire_none_settled {max : Nat} {s s' : State}
    (hi : Inv max s) (_ha : 0 < s.avail) (h : acquire s = (s', none)) : Settled s' :=
  scan_none_settled (vstate_acquire hi) h (by intro p hp; cases hp)

theorem acquire_dead {s s' : State} {g : Option (Ch × Room)} (h : acquire s = (s', g)) :
    s'.dead = s.dead := scan_dead h

theorem acquire_none {s s' : State} (h : acquire s = (s', none)) :
    s'.locked = s.locked ∧ s'.avail = s.avail := scan_none h

theorem acquire_some {max : Nat} {s s' : State} {ch : Ch} {r : Room}
    (hi : Inv max s) (_ha : 0 < s.avail) (h : acquire s = (s', some (ch, r))) :
    r ∉ s.locked ∧ s'.locked = r :: s.locked ∧ s'.avail = s.avail - 1 ∧ ch ∉ s.dead ∧
      ∃ p req, (p, req) ∈ s.reqs ∧ req.ch = ch ∧ r ∈ req.rooms :=
  scan_some (vstate_acquire hi) h

theorem acquire_none_live_keeps {max : Nat} {s s' : State}
    (hi : Inv max s) (_ha : 0 < s.avail) (h : acquire s = (s', none))
    {p : Peer} {req : Req} (hm : (p, req) ∈ s.reqs) (hlive : req.ch ∉ s.dead)
    {x : Room} (hx : x ∈ req.rooms) :
    ∃ req', (p, req') ∈ s'.reqs ∧ req'.ch = req.ch ∧ x ∈ req'.rooms :=
  scan_none_live_keeps (vstate_acquire hi) h hm hlive hx

/-- the no-missed-wake-up invariant: spare capacity implies nobody waits for a free room -/
def NoMissed (s : State) : Prop := s.avail = 0 ∨ Settled s

theorem acquireN_spec {max : Nat} {n : Nat} {s s2 : State} {gs : List (Ch × Room)}
    (hi : Inv max s) (hn : n ≤ s.avail) (h : acquireN n s = (s2, gs)) :
    Inv max s2 ∧ Sub s s2 ∧ s2.dead = s.dead ∧ (s2.avail + n = s.avail ∨ Settled s2) ∧
      (gs.map Prod.snd).Nodup ∧ (∀ g ∈ gs, g.2 ∉ s.locked ∧ g.2 ∈ s2.locked ∧ g.1 ∉ s.dead) := by
  induction n generalizing s gs with
  | zero =>
    simp only [acquireN, Prod.mk.injEq] at h
    obtain ⟨h1, h2⟩ := h; subst h1 h2
    exact ⟨hi, Sub.refl _, rfl, Or.inl rfl, by simp, by simp⟩
  | succ n ih =>
    simp only [acquireN] at h
    generalize ha1 : acquire s = r1 at h
    obtain ⟨s1, g⟩ := r1
    generalize ha2 : acquireN n s1 = r2 at h
    obtain ⟨s2', gs'⟩ := r2
    simp only [Prod.mk.injEq] at h
    obtain ⟨h1, h2⟩ := h; subst h1 h2
    have hpos : 0 < s.avail := by omega
    have hi1 := acquire_inv hi hpos ha1
    have hs1 := acquire_sub hi hpos ha1
    have hd1 : s1.dead = s.dead := acquire_dead ha1
    cases g with
    | none =>
      obtain ⟨hl, hav⟩ := acquire_none ha1
      have hset := acquire_none_settled hi hpos ha1
      obtain ⟨a, b, c, _, e, f⟩ := ih hi1 (by omega) ha2
      refine ⟨a, hs1.trans b, c.trans hd1, Or.inr (hset.of_sub b), by simpa using e, ?_⟩
      intro g hg
      simp only [Option.toList, List.nil_append] at hg
      obtain ⟨f1, f2, f3⟩ := f g hg
      exact ⟨hl ▸ f1, f2, hd1 ▸ f3⟩
    | some cr =>
      obtain ⟨ch, r⟩ := cr
      obtain ⟨p1, p2, p3, p4, _⟩ := acquire_some hi hpos ha1
      obtain ⟨a, b, c, d, e, f⟩ := ih hi1 (by omega) ha2
      refine ⟨a, hs1.trans b, c.trans hd1, ?_, ?_, ?_⟩
      · rcases d with d | d
        · left; omega
        · right; exact d
      · simp only [Option.toList, List.singleton_append, List.map_cons, List.nodup_cons]
        refine ⟨?_, e⟩
        intro hm
        obtain ⟨g, hg, hge⟩ := List.mem_map.mp hm
        have := (f g hg).1
        rw [p2, hge] at this
        exact this List.mem_cons_self
      · intro g hg
        simp only [Option.toList, List.singleton_append, List.mem_cons] at hg
        rcases hg with hg | hg
        · subst hg
          exact ⟨p1, b.1 r (p2 ▸ List.mem_cons_self), p4⟩
        · obtain ⟨f1, f2, f3⟩ := f g hg
          refine ⟨?_, f2, hd1 ▸ f3⟩
          intro hm; exact f1 (p2 ▸ List.mem_cons_of_mem _ hm)

/-! ### one step of the service -/

theorem requestPre_inv {max : Nat} {s : State} (hi : Inv max s) (p : Peer) (rooms : List Room) (ch : Ch) :
    Inv max (requestPre s p rooms ch) := by
  unfold requestPre
  split
  · rename_i req hl
    have hk : p ∈ keys s.reqs := List.mem_map_of_mem (f := Prod.fst) (lookup_some_mem hl)
    refine ⟨hi.lockedNodup, hi.count, ?_, hi.queueNodup, ?_⟩
    · simp only [keys, List.map_cons, List.nodup_cons]
      exact ⟨fun hm => (keys_erase.mp hm).2 rfl, keys_erase_nodup hi.keysNodup⟩
    · intro p'
      simp only [keys, List.map_cons, List.mem_cons]
      rw [hi.queueKeys]
      constructor
      · intro h
        by_cases e : p' = p
        · exact Or.inl e
        · exact Or.inr (keys_erase.mpr ⟨h, e⟩)
      · rintro (h | h)
        · subst h; exact hk
        · exact (keys_erase.mp h).1
  · rename_i hl
    have hk : p ∉ keys s.reqs := lookup_none_iff.mp hl
    have hq : p ∉ s.queue := fun h => hk ((hi.queueKeys p).mp h)
    refine ⟨hi.lockedNodup, hi.count, ?_, ?_, ?_⟩
    · simp only [keys, List.map_cons, List.nodup_cons]; exact ⟨hk, hi.keysNodup⟩
    · refine List.nodup_append.mpr ⟨hi.queueNodup, by simp, ?_⟩
      intro a ha b hb
      simp only [List.mem_singleton] at hb
      subst hb; intro e; subst e; exact hq ha
    · intro p'
      simp only [keys, List.map_cons, List.mem_cons, List.mem_append, List.not_mem_nil, or_false]
      rw [hi.queueKeys]
      constructor
      · rintro (h | h)
        · exact Or.inr h
        · exact Or.inl h
      · rintro (h | h)
        · exact Or.inr h
        · exact Or.inl h

theorem requestPre_locked (s : State) (p : Peer) (rooms : List Room) (ch : Ch) :
    (requestPre s p rooms ch).locked = s.locked ∧ (requestPre s p rooms ch).dead = s.dead := by
  unfold requestPre; split <;> exact ⟨rfl, rfl⟩

theorem unlockPre_inv {max : Nat} {s : State} (hi : Inv max s) {r : Room} (hr : r ∈ s.locked) :
    Inv max (unlockPre s r) := by
  refine ⟨hi.lockedNodup.erase r, ?_, hi.keysNodup, hi.queueNodup, hi.queueKeys⟩
  have h1 := List.length_erase_of_mem hr
  have hpos : 0 < s.locked.length := List.length_pos_of_mem hr
  have h2 := hi.count
  simp only [unlockPre]
  omega

theorem unlockPre_pos (s : State) (r : Room) : 0 < (unlockPre s r).avail := by simp [unlockPre]

theorem step_inv {max : Nat} {s : State} (hi : Inv max s) (op : Op) : Inv max (step s op).1 := by
  cases op with
  | request p rooms ch =>
    simp only [step]
    exact (acquireN_spec (requestPre_inv hi p rooms ch) (Nat.le_refl _) rfl).1
  | unlock r =>
    simp only [step]
    split
    · rename_i hc
      have hr : r ∈ s.locked := by simpa using hc
      exact acquire_inv (unlockPre_inv hi hr) (unlockPre_pos s r) rfl
    · exact hi
  | drop ch =>
    simp only [step]
    exact ⟨hi.lockedNodup, hi.count, hi.keysNodup, hi.queueNodup, hi.queueKeys⟩

theorem step_noMissed {max : Nat} {s : State} (hi : Inv max s) (hn : NoMissed s) (op : Op) :
    NoMissed (step s op).1 := by
  cases op with
  | request p rooms ch =>
    simp only [step]
    obtain ⟨_, _, _, d, _⟩ :=
      acquireN_spec (requestPre_inv hi p rooms ch) (Nat.le_refl _) (rfl : acquireN _ _ = (_, _))
    rcases d with d | d
    · left; omega
    · right; exact d
  | unlock r =>
    simp only [step]
    split
    · rename_i hc
      have hr : r ∈ s.locked := by simpa using hc
      have h1 := unlockPre_inv hi hr
      have hpos := unlockPre_pos s r
      generalize ha : acquire (unlockPre s r) = res
      obtain ⟨s2, g⟩ := res
      simp only
      cases g with
      | none => right; exact acquire_none_settled h1 hpos ha
      | some cr =>
        obtain ⟨ch, r'⟩ := cr
        obtain ⟨p1, p2, p3, _, p', req, hm, _, hrr⟩ := acquire_some h1 hpos ha
        have hsub := acquire_sub h1 hpos ha
        simp only [unlockPre] at p1 p2 p3 hm
        rcases hn with hn | hn
        · left; omega
        · right
          have hr' : r' ∈ s.locked := hn p' req hm r' hrr
          have heq : r' = r := by
            by_cases hne : r' = r
            · exact hne
            · exact absurd ((List.mem_erase_of_ne hne).mpr hr') p1
          subst heq
          intro q req' hm' x hx
          obtain ⟨req0, hm0, _, hsub0⟩ := hsub.2 q req' hm'
          have hx0 : x ∈ s.locked := hn q req0 hm0 x (hsub0 x hx)
          rw [p2]
          by_cases e : x = r'
          · subst e; exact List.mem_cons_self
          · exact List.mem_cons_of_mem _ ((List.mem_erase_of_ne e).mpr hx0)
    · exact hn
  | drop ch =>
    simp only [step]
    rcases hn with hn | hn
    · exact Or.inl hn
    · exact Or.inr hn

/-- what the grants of one step are -/
theorem step_grants {max : Nat} {s : State} (hi : Inv max s) (op : Op) :
    ((step s op).2.map Prod.snd).Nodup ∧
    ∀ g ∈ (step s op).2, (g.2 ∉ s.locked ∨ op = .unlock g.2) ∧ g.2 ∈ (step s op).1.locked ∧
      g.1 ∉ s.dead := by
  cases op with
  | request p rooms ch =>
    simp only [step]
    obtain ⟨_, _, _, _, e, f⟩ :=
      acquireN_spec (requestPre_inv hi p rooms ch) (Nat.le_refl _) (rfl : acquireN _ _ = (_, _))
    refine ⟨e, ?_⟩
    intro g hg
    obtain ⟨f1, f2, f3⟩ := f g hg
    have hl := requestPre_locked s p rooms ch
    exact ⟨Or.inl (hl.1 ▸ f1), f2, hl.2 ▸ f3⟩
  | unlock r =>
    simp only [step]
    split
    · rename_i hc
      have hr : r ∈ s.locked := by simpa using hc
      have h1 := unlockPre_inv hi hr
      have hpos := unlockPre_pos s r
      generalize ha : acquire (unlockPre s r) = res
      obtain ⟨s2, g⟩ := res
      simp only
      cases g with
      | none => simp
      | some cr =>
        obtain ⟨ch, r'⟩ := cr
        obtain ⟨p1, p2, _, p4, _⟩ := acquire_some h1 hpos ha
        simp only [unlockPre] at p1 p2 p4
        refine ⟨by simp, ?_⟩
        intro g hg
        simp only [Option.toList, List.mem_singleton] at hg
        subst hg
        refine ⟨?_, by rw [p2]; exact List.mem_cons_self, p4⟩
        by_cases e : r' = r
        · right; rw [e]
        · left; intro hm; exact p1 ((List.mem_erase_of_ne e).mpr hm)
    · simp
  | drop ch => simp [step]

/-- a locked room stays locked unless it is unlocked -/
theorem step_locked_stays {max : Nat} {s : State} (hi : Inv max s) (op : Op) {r : Room}
    (hr : r ∈ s.locked) (hop : op ≠ .unlock r) : r ∈ (step s op).1.locked := by
  cases op with
  | request p rooms ch =>
    simp only [step]
    have hl := requestPre_locked s p rooms ch
    exact (acquireN_spec (requestPre_inv hi p rooms ch) (Nat.le_refl _)
      (rfl : acquireN _ _ = (_, _))).2.1.1 r (hl.1 ▸ hr)
  | unlock r' =>
    simp only [step]
    split
    · rename_i hc
      have hr' : r' ∈ s.locked := by simpa using hc
      have hne : r ≠ r' := fun e => hop (e ▸ rfl)
      exact (acquire_sub (unlockPre_inv hi hr') (unlockPre_pos s r') rfl).1 r
        ((List.mem_erase_of_ne hne).mpr hr)
    · exact hr
  | drop ch => exact hr

/-- progress: releasing a room that a live peer is waiting for grants something in the same step -/
theorem unlock_progress {max : Nat} {s : State} (hi : Inv max s) {r : Room} (hr : r ∈ s.locked)
    {p : Peer} {req : Req} (hm : (p, req) ∈ s.reqs) (hlive : req.ch ∉ s.dead) (hw : r ∈ req.rooms) :
    (step s (.unlock r)).2 ≠ [] := by
  simp only [step]
  have hc : s.locked.contains r = true := by simpa using hr
  simp only [hc, ↓reduceIte]
  have h1 := unlockPre_inv hi hr
  have hpos := unlockPre_pos s r
  generalize ha : acquire (unlockPre s r) = res
  obtain ⟨s2, g⟩ := res
  cases g with
  | some cr => simp
  | none =>
    exfalso
    have hset := acquire_none_settled h1 hpos ha
    obtain ⟨req', hm', _, hx'⟩ :=
      acquire_none_live_keeps h1 hpos ha (p := p) (req := req) hm hlive hw
    have : r ∈ s2.locked := hset p req' hm' r hx'
    rw [(acquire_none ha).1] at this
    simp only [unlockPre] at this
    exact (List.Nodup.not_mem_erase hi.lockedNodup) this

/-! ### head of line -/

theorem roomLoop_live_some {locked : List Room} {rooms : List Room}
    (hfree : ∃ r ∈ rooms, r ∉ locked) :
    ∃ rooms' r', roomLoop locked true rooms.length rooms = (rooms', some r') := by
  generalize hres : roomLoop locked true rooms.length rooms = res
  obtain ⟨rooms', g⟩ := res
  cases g with
  | some r' => exact ⟨rooms', r', rfl⟩
  | none =>
    exfalso
    obtain ⟨r, hr, hnl⟩ := hfree
    have hk := roomLoop_none_live_keeps hres r hr
    have hl : roomLoop locked true rooms.length (rooms ++ []) = (rooms', none) := by
      rw [List.append_nil]; exact hres
    exact hnl (roomLoop_none_locked hl (Nat.le_refl _) (by intro x hx; cases hx) r hk)

/-- the peer at the back of the queue, with a live receiver and a free pending room, is served first -/
theorem acquire_head_of_line {s : State} {p : Peer} {q : List Peer} {req : Req}
    (hq : s.queue = p :: q) (hl : lookup p s.reqs = some req) (hlive : req.ch ∉ s.dead)
    (hfree : ∃ r ∈ req.rooms, r ∉ s.locked) :
    ∃ s' r, acquire s = (s', some (req.ch, r)) := by
  unfold acquire
  rw [hq]
  simp only [scan, hl]
  obtain ⟨rooms', r', hrl⟩ := roomLoop_live_some hfree
  have hlv : (!s.dead.contains req.ch) = true := by simpa using hlive
  simp only [hlv, hrl]
  exact ⟨_, _, rfl⟩

theorem run_append (s : State) (a b : List Op) :
    run s (a ++ b) = ((run (run s a).1 b).1, (run s a).2 ++ (run (run s a).1 b).2) := by
  induction a generalizing s with
  | nil => simp [run]
  | cons op a ih => simp only [List.cons_append, run, ih, List.cons_append]

/-! ### what a step does to `locked`, `dead` and the channels of the pending requests
(used by the connection-level invariant in `Lemmas/LockConn.lean`) -/

/-- every channel of a pending request of `s'` is a channel of a pending request of `s` -/
def ChanSub (s s' : State) : Prop :=
  ∀ p req', (p, req') ∈ s'.reqs → ∃ p0 req, (p0, req) ∈ s.reqs ∧ req.ch = req'.ch

theorem Sub.chanSub {s s' : State} (h : Sub s s') : ChanSub s s' := by
  intro p req' hm
  obtain ⟨req, hm0, hc, _⟩ := h.2 p req' hm
  exact ⟨p, req, hm0, hc.symm⟩

theorem acquire_spec {max : Nat} {s s' : State} {g : Option (Ch × Room)}
    (hi : Inv max s) (ha : 0 < s.avail) (h : acquire s = (s', g)) :
    s'.dead = s.dead ∧
    (∀ r, r ∈ s'.locked → r ∈ s.locked ∨ ∃ ch, g = some (ch, r)) ∧
    (∀ ch r, g = some (ch, r) → ∃ p req, (p, req) ∈ s.reqs ∧ req.ch = ch) := by
  refine ⟨acquire_dead h, ?_, ?_⟩
  · intro r hr
    cases g with
    | none => left; rw [← (acquire_none h).1]; exact hr
    | some cr =>
      obtain ⟨ch, r'⟩ := cr
      obtain ⟨_, p2, _⟩ := acquire_some hi ha h
      rw [p2] at hr
      rcases List.mem_cons.mp hr with e | e
      · right; exact ⟨ch, by rw [e]⟩
      · left; exact e
  · intro ch r hg
    subst hg
    obtain ⟨_, _, _, _, p, req, hm, hc, _⟩ := acquire_some hi ha h
    exact ⟨p, req, hm, hc⟩

theorem acquireN_spec2 {max : Nat} {n : Nat} {s s2 : State} {gs : List (Ch × Room)}
    (hi : Inv max s) (hn : n ≤ s.avail) (h : acquireN n s = (s2, gs)) :
    (∀ r, r ∈ s2.locked → r ∈ s.locked ∨ ∃ ch, (ch, r) ∈ gs) ∧
    (∀ g ∈ gs, ∃ p req, (p, req) ∈ s.reqs ∧ req.ch = g.1) := by
  induction n generalizing s gs with
  | zero =>
    simp only [acquireN, Prod.mk.injEq] at h
    obtain ⟨h1, h2⟩ := h; subst h1 h2
    exact ⟨fun r hr => Or.inl hr, by simp⟩
  | succ n ih =>
    simp only [acquireN] at h
    generalize ha1 : acquire s = r1 at h
    obtain ⟨s1, g⟩ := r1
    generalize ha2 : acquireN n s1 = r2 at h
    obtain ⟨s2', gs'⟩ := r2
    simp only [Prod.mk.injEq] at h
    obtain ⟨h1, h2⟩ := h; subst h1 h2
    have hpos : 0 < s.avail := by omega
    have hi1 := acquire_inv hi hpos ha1
    have hs1 := acquire_sub hi hpos ha1
    obtain ⟨_, q2, q3⟩ := acquire_spec hi hpos ha1
    have hav : n ≤ s1.avail := by
      cases g with
      | none => rw [(acquire_none ha1).2]; omega
      | some cr =>
        obtain ⟨ch, r⟩ := cr
        obtain ⟨_, _, p3, _⟩ := acquire_some hi hpos ha1
        omega
    obtain ⟨a, b⟩ := ih hi1 hav ha2
    constructor
    · intro r hr
      rcases a r hr with e | ⟨ch, e⟩
      · rcases q2 r e with e2 | ⟨ch, e2⟩
        · exact Or.inl e2
        · right; exact ⟨ch, by simp [e2]⟩
      · right; exact ⟨ch, List.mem_append_right _ e⟩
    · intro g' hg'
      rcases List.mem_append.mp hg' with e | e
      · cases g with
        | none => simp at e
        | some cr =>
          simp only [Option.toList, List.mem_singleton] at e
          subst e
          exact q3 g'.1 g'.2 rfl
      · obtain ⟨p, req, hm, hc⟩ := b g' e
        obtain ⟨p0, req0, hm0, hc0⟩ := hs1.chanSub p req hm
        exact ⟨p0, req0, hm0, hc0.trans hc⟩

theorem requestPre_reqs {s : State} {p : Peer} {rooms : List Room} {ch : Ch} {q : Peer} {req : Req}
    (h : (q, req) ∈ (requestPre s p rooms ch).reqs) :
    req.ch = ch ∨ (q, req) ∈ s.reqs := by
  unfold requestPre at h
  split at h
  · rcases List.mem_cons.mp h with e | e
    · left; simp only [Prod.mk.injEq] at e; rw [e.2]
    · right; exact (mem_erase.mp e).1
  · rcases List.mem_cons.mp h with e | e
    · left; simp only [Prod.mk.injEq] at e; rw [e.2]
    · right; exact e

/-- summary of one service step for the connection-level proofs -/
theorem step_summary {max : Nat} {s : State} (hi : Inv max s) (op : Op) :
    -- locked rooms afterwards were locked before or are granted now; an unlocked room is locked
    -- afterwards only if granted again
    (∀ r, r ∈ (step s op).1.locked → (r ∈ s.locked ∧ op ≠ .unlock r) ∨ ∃ ch, (ch, r) ∈ (step s op).2) ∧
    -- a grant goes to the channel of a pending request (or of the request being made)
    (∀ g ∈ (step s op).2, (∃ p req, (p, req) ∈ s.reqs ∧ req.ch = g.1) ∨ ∃ p rooms, op = .request p rooms g.1) ∧
    -- channels of pending requests afterwards
    (∀ p req', (p, req') ∈ (step s op).1.reqs →
      (∃ p0 req, (p0, req) ∈ s.reqs ∧ req.ch = req'.ch) ∨ ∃ p rooms, op = .request p rooms req'.ch) ∧
    -- dead receivers
    ((step s op).1.dead = s.dead ∨ ∃ ch, op = .drop ch ∧ (step s op).1.dead = ch :: s.dead) := by
  cases op with
  | request p rooms ch =>
    simp only [step]
    have hpre := requestPre_inv hi p rooms ch
    obtain ⟨_, hsub, hdead, _⟩ := acquireN_spec hpre (Nat.le_refl _) (rfl : acquireN _ _ = (_, _))
    obtain ⟨a, b⟩ := acquireN_spec2 hpre (Nat.le_refl _) (rfl : acquireN _ _ = (_, _))
    have hl := requestPre_locked s p rooms ch
    refine ⟨?_, ?_, ?_, Or.inl (hdead.trans hl.2)⟩
    · intro r hr
      rcases a r hr with e | e
      · left; exact ⟨hl.1 ▸ e, by simp⟩
      · right; exact e
    · intro g hg
      obtain ⟨q, req, hm, hc⟩ := b g hg
      rcases requestPre_reqs hm with e | e
      · right; exact ⟨p, rooms, by rw [← hc, e]⟩
      · left; exact ⟨q, req, e, hc⟩
    · intro q req' hm
      obtain ⟨q0, req0, hm0, hc0⟩ := hsub.chanSub q req' hm
      rcases requestPre_reqs hm0 with e | e
      · right; exact ⟨p, rooms, by rw [← hc0, e]⟩
      · left; exact ⟨q0, req0, e, hc0⟩
  | unlock r0 =>
    simp only [step]
    split
    · rename_i hc
      have hr0 : r0 ∈ s.locked := by simpa using hc
      have h1 := unlockPre_inv hi hr0
      have hpos := unlockPre_pos s r0
      generalize ha : acquire (unlockPre s r0) = res
      obtain ⟨s2, g⟩ := res
      obtain ⟨q1, q2, q3⟩ := acquire_spec h1 hpos ha
      have hsub := acquire_sub h1 hpos ha
      refine ⟨?_, ?_, ?_, Or.inl (by simpa [unlockPre] using q1)⟩
      · intro r hr
        rcases q2 r hr with e | ⟨ch, e⟩
        · left
          simp only [unlockPre] at e
          have hne : r ≠ r0 := by
            intro heq; subst heq
            exact (List.Nodup.not_mem_erase hi.lockedNodup) e
          exact ⟨(List.mem_erase_of_ne hne).mp e, by simp; exact fun h => hne h.symm⟩
        · right; exact ⟨ch, by simp [e]⟩
      · intro g' hg'
        cases g with
        | none => simp at hg'
        | some cr =>
          simp only [Option.toList, List.mem_singleton] at hg'
          subst hg'
          left
          obtain ⟨p, req, hm, hc⟩ := q3 g'.1 g'.2 rfl
          exact ⟨p, req, by simpa [unlockPre] using hm, hc⟩
      · intro q req' hm
        left
        obtain ⟨q0, req0, hm0, hc0⟩ := hsub.chanSub q req' hm
        exact ⟨q0, req0, by simpa [unlockPre] using hm0, hc0⟩
    · refine ⟨?_, by simp, ?_, Or.inl rfl⟩
      · intro r hr
        left
        refine ⟨hr, ?_⟩
        intro he
        simp only [Op.unlock.injEq] at he
        subst he
        rename_i hc
        exact hc (by simpa using hr)
      · intro q req' hm; left; exact ⟨q, req', hm, rfl⟩
  | drop ch =>
    simp only [step]
    refine ⟨fun r hr => Or.inl ⟨hr, by simp⟩, by simp, ?_, Or.inr ⟨ch, rfl, rfl⟩⟩
    intro q req' hm; left; exact ⟨q, req', hm, rfl⟩

end Discret.Lock
