import DiscretModel.Lemmas.SqlCompile
import DiscretModel.Model.SqlSemSub
/-
One level of sub-selections: the statement `Model/SqlGenSub.lean` generates means, under `Model/SqlSemSub.lean`,
what the reference evaluator computes for the code as it is. Built on the single-entity lemmas of
`Lemmas/SqlCompile.lean` (each sub-select is a single-entity statement over the rows reached through `_edge`).
-/
namespace Discret.SqlCompile
open Discret.Query Discret.SqlGen Discret.SqlSem

/-! ## The `_edge` table -/

theorem distinctNat_not_mem : ∀ (l : List Nat) (k : Nat), dataOk.distinctNat (k :: l) = true → k ∉ l := by
  intro l k h
  simp only [dataOk.distinctNat, Bool.and_eq_true, Bool.not_eq_eq_eq_not, Bool.not_true] at h
  intro hm
  have := List.contains_iff_mem.mpr hm
  rw [this] at h
  exact absurd h.1 (by simp)

/-- ids are keys: two rows of the data set with the same id are the same row -/
theorem row_eq_of_id : ∀ (data : Data), dataOk.distinctNat (data.map (·.id)) = true →
    ∀ r ∈ data, ∀ r' ∈ data, r.id = r'.id → r = r' := by
  intro data
  induction data with
  | nil => intro _ r hr; simp at hr
  | cons a t ih =>
    intro h r hr r' hr' hid
    have hnot := distinctNat_not_mem _ _ h
    have ht : dataOk.distinctNat (t.map (·.id)) = true := by
      simp only [List.map_cons, dataOk.distinctNat, Bool.and_eq_true] at h; exact h.2
    rcases List.mem_cons.mp hr with h1 | h1 <;> rcases List.mem_cons.mp hr' with h2 | h2
    · rw [h1, h2]
    · exfalso; apply hnot; rw [← h1]; exact List.mem_map.mpr ⟨r', h2, hid.symm⟩
    · exfalso; apply hnot; rw [← h2]; exact List.mem_map.mpr ⟨r, h1, hid⟩
    · exact ih ht r h1 r' h2 hid

/-- a row lists a reference field once: a listed entry is the one `lookup` finds -/
theorem lookup_of_mem {α : Type} : ∀ (l : List (Nat × α)), dataOk.distinctNat (l.map (·.1)) = true →
    ∀ kv ∈ l, lookup kv.1 l = some kv.2 := by
  intro l
  induction l with
  | nil => intro _ kv h; simp at h
  | cons a t ih =>
    intro h kv hkv
    have hnot := distinctNat_not_mem _ _ h
    have ht : dataOk.distinctNat (t.map (·.1)) = true := by
      simp only [List.map_cons, dataOk.distinctNat, Bool.and_eq_true] at h; exact h.2
    obtain ⟨k, v⟩ := a
    rcases List.mem_cons.mp hkv with h1 | h1
    · rw [h1]; simp [lookup]
    · have hne : k ≠ kv.1 := by
        intro hc; apply hnot; rw [hc]; exact List.mem_map.mpr ⟨kv, h1, rfl⟩
      simp only [lookup, hne, if_false]
      exact ih ht kv h1

theorem mem_of_lookup {α : Type} : ∀ (l : List (Nat × α)) (k : Nat) (v : α), lookup k l = some v → (k, v) ∈ l := by
  intro l
  induction l with
  | nil => intro k v h; simp [lookup] at h
  | cons a t ih =>
    intro k v h
    obtain ⟨a1, a2⟩ := a
    simp only [lookup] at h
    by_cases hk : a1 = k
    · simp only [hk, if_true, Option.some.injEq] at h; rw [hk, h]; simp
    · simp only [hk, if_false] at h; exact List.mem_cons_of_mem _ (ih k v h)

theorem dataOk_parts {data : Data} (h : dataOk data = true) :
    dataOk.distinctNat (data.map (·.id)) = true ∧ ∀ r ∈ data, dataOk.distinctNat (r.refs.map (·.1)) = true := by
  simp only [dataOk, Bool.and_eq_true, List.all_eq_true] at h
  exact h

/-- **the join**: `_edge` links the stored row of `r` to the stored row of `t` under the label of field `fld` iff
    `t` is one of the rows `r` references through `fld` -/
theorem joined_iff (nm : Names) (data : Data) (hdata : dataOk data = true) (r : Row) (hr : r ∈ data)
    (hfld : ∀ a b, nm.fieldShort r.ent a = nm.fieldShort r.ent b → a = b) (fld : Nat) (tid : Nat) :
    ((encodeEdges nm data).any fun e => e.dest = tid && e.label = nm.fieldShort r.ent fld && e.src = r.id) =
      (r.targets fld).contains tid := by
  obtain ⟨hids, hrefs⟩ := dataOk_parts hdata
  rw [Bool.eq_iff_iff, List.any_eq_true, List.contains_iff_mem]
  constructor
  · rintro ⟨e, he, hp⟩
    simp only [Bool.and_eq_true, decide_eq_true_eq] at hp
    obtain ⟨⟨hdest, hlabel⟩, hsrc⟩ := hp
    simp only [encodeEdges, List.mem_flatMap, List.mem_map] at he
    obtain ⟨r', hr', kv, hkv, d, hd, hed⟩ := he
    rw [← hed] at hdest hlabel hsrc
    have hrr : r' = r := row_eq_of_id data hids r' hr' r hr hsrc
    subst hrr
    have hk : kv.1 = fld := hfld _ _ hlabel
    have hl := lookup_of_mem r'.refs (hrefs r' hr') kv hkv
    rw [hk] at hl
    simp only [Row.targets, hl, Option.getD_some]
    rw [← hdest]; exact hd
  · intro h
    simp only [Row.targets] at h
    cases hl : lookup fld r.refs with
    | none => rw [hl] at h; simp at h
    | some ids =>
      rw [hl] at h
      simp only [Option.getD_some] at h
      have hmem := mem_of_lookup r.refs fld ids hl
      refine ⟨{ src := r.id, label := nm.fieldShort r.ent fld, dest := tid }, ?_, by simp⟩
      simp only [encodeEdges, List.mem_flatMap, List.mem_map]
      exact ⟨r, hr, (fld, ids), hmem, tid, h, rfl⟩

/-! ## One sub-select -/

theorem encodeRow_table (nm : Names) (key : String) : encodeRow { nm with table := key } = encodeRow nm := rfl

/-- candidates that are not of the entity do not matter: the evaluator tests the entity itself -/
theorem evalRows_rowsById (s : Schema) (data : Data) (fuel : Nat) (key : String) (q : Query) (ids : List Nat)
    (hfrag : inFragment s q = true) (lim : Bool) :
    evalRows D s data (fuel + 1) key q (data.filter fun t => ids.contains t.id) lim =
      evalRows D s data (fuel + 1) key q (rowsById data ids q.ent) lim := by
  have h0 : evalRows D s data (fuel + 1) key q (data.filter fun t => ids.contains t.id) false =
      evalRows D s data (fuel + 1) key q (rowsById data ids q.ent) false := by
    rw [evalRows_frag s data fuel key q _ hfrag, evalRows_frag s data fuel key q _ hfrag]
    congr 1
    simp only [rowsById, List.filter_filter]
    apply List.filter_congr
    intro t _
    cases hk : keep s q t with
    | false => simp
    | true =>
      have : t.ent = q.ent := by
        simp only [keep, Bool.and_eq_true, decide_eq_true_eq] at hk; exact hk.1.1
      simp [this]
  cases lim with
  | false => exact h0
  | true => rw [evalRows_limited, evalRows_limited, h0]

/-- **a sub-select**: its rows for the stored parent row `r` are the stored rows the evaluator selects among the
    rows `r` references through the field; `LIMIT 1` keeps the first of them -/
theorem subRows_spec (env : String → Val) (nm : Names) (s : Schema) (vnj : Nat → String) (ps : Binds)
    (ent fld : Nat) (key : String) (unique : Bool) (sq : Query)
    (hfragq : inFragment s sq = true) (hkey : key ≠ nm.table)
    (hent : ∀ a b, nm.entShort a = nm.entShort b → a = b)
    (hfld : ∀ e a b, nm.fieldShort e a = nm.fieldShort e b → a = b)
    (henv : ∀ i f, sq.filters[i]? = some f → f.isParam = true → env (vnj i) = f.value)
    (data : Data) (hdata : dataOk data = true) :
    ∃ e, (compileSub nm s vnj ps ent fld key unique sq).1 = ps ++ e ∧
      ∀ (more : Binds) (r : Row), r ∈ data → r.ent = ent → ∀ fuel : Nat,
        subRows (encodeDb nm data) (bindVal env ((compileSub nm s vnj ps ent fld key unique sq).1 ++ more))
            (compileSub nm s vnj ps ent fld key unique sq).2 (encodeRow nm r) =
          (if unique then (evalRows D s data (fuel + 1) key sq (rowsById data (r.targets fld) sq.ent) false).take 1
           else evalRows D s data (fuel + 1) key sq (rowsById data (r.targets fld) sq.ent) true).map (encodeRow nm) := by
  obtain ⟨e, he, _⟩ := compileFrom_parts env { nm with table := key } s vnj sq ps hfragq (hfld sq.ent) henv
  refine ⟨e, he, ?_⟩
  intro more r hr hrent fuel
  subst hrent
  have hpk : (nm.table = key) = False := by
    apply propext; constructor
    · intro h; exact hkey h.symm
    · intro h; exact h.elim
  -- the join
  have hjoin : (encodeDb nm data).nodes.filter (fun t => (encodeDb nm data).edges.any fun e =>
      e.dest = t.id && e.label = nm.fieldShort r.ent fld && e.src = (encodeRow nm r).id) =
      (data.filter fun t => (r.targets fld).contains t.id).map (encodeRow nm) := by
    show (data.map (encodeRow nm)).filter _ = _
    rw [List.filter_map]
    congr 1
    apply List.filter_congr
    intro t _
    exact joined_iff nm data hdata r hr (hfld r.ent) fld t.id
  have hsorted := compileFrom_sorted env { nm with table := key } s vnj sq ps more hfragq hent (hfld sq.ent) henv data fuel key
    (data.filter fun t => (r.targets fld).contains t.id)
  rw [evalRows_rowsById s data fuel key sq (r.targets fld) hfragq false, encodeRow_table] at hsorted
  have hcs : compileSub nm s vnj ps r.ent fld key unique sq =
      ((compileFrom { nm with table := key } s vnj ps sq).binds,
        { key := key, label := nm.fieldShort r.ent fld, parent := nm.table, unique := unique,
          core := compileFrom { nm with table := key } s vnj ps sq }) := rfl
  rw [hcs]
  simp only [subRows, hpk, if_false]
  rw [hjoin]
  rw [hsorted]
  cases unique with
  | true => simp only [if_true, List.map_take]
  | false =>
    simp only [Bool.false_eq_true, if_false]
    have hlim : (compileFrom { nm with table := key } s vnj ps sq).limit = (limitOf sq.first sq.skip).1 ∧
        (compileFrom { nm with table := key } s vnj ps sq).offset = (limitOf sq.first sq.skip).2 := ⟨rfl, rfl⟩
    rw [hlim.1, hlim.2, applyLimit_map, applyLimit_eq, evalRows_limited]

theorem evalList_succ (s : Schema) (data : Data) (fuel : Nat) (key : String) (q : Query) (cands : List Row) (lim : Bool) :
    evalList D s data (fuel + 1) key q cands lim =
      (evalRows D s data (fuel + 1) key q cands lim).map (project D s data fuel key q) := by
  simp [evalList]

/-- **a sub-select, projected**: the JSON rows of the sub-select for the stored parent row are the evaluator's list for
    the sub-selection (its first element under `LIMIT 1`); it is empty iff the evaluator selects nothing -/
theorem runSub_spec (env : String → Val) (nm : Names) (s : Schema) (vnj : Nat → String) (ps : Binds)
    (ent fld : Nat) (key : String) (unique : Bool) (sq : Query)
    (hfragq : inFragment s sq = true) (hkey : key ≠ nm.table)
    (hent : ∀ a b, nm.entShort a = nm.entShort b → a = b)
    (hfld : ∀ e a b, nm.fieldShort e a = nm.fieldShort e b → a = b)
    (henv : ∀ i f, sq.filters[i]? = some f → f.isParam = true → env (vnj i) = f.value)
    (data : Data) (hdata : dataOk data = true) :
    ∃ e, (compileSub nm s vnj ps ent fld key unique sq).1 = ps ++ e ∧
      ∀ (more : Binds) (r : Row), r ∈ data → r.ent = ent → ∀ fuel : Nat,
        runSub (encodeDb nm data) (bindVal env ((compileSub nm s vnj ps ent fld key unique sq).1 ++ more))
            (compileSub nm s vnj ps ent fld key unique sq).2 (encodeRow nm r) =
          (if unique then (evalList D s data (fuel + 2) key sq (rowsById data (r.targets fld) sq.ent) false).take 1
           else evalList D s data (fuel + 2) key sq (rowsById data (r.targets fld) sq.ent) true) ∧
        (subRows (encodeDb nm data) (bindVal env ((compileSub nm s vnj ps ent fld key unique sq).1 ++ more))
            (compileSub nm s vnj ps ent fld key unique sq).2 (encodeRow nm r)).isEmpty =
          (evalRows D s data (fuel + 2) key sq (rowsById data (r.targets fld) sq.ent) (!unique)).isEmpty := by
  obtain ⟨e, he, hrows⟩ := subRows_spec env nm s vnj ps ent fld key unique sq hfragq hkey hent hfld henv data hdata
  refine ⟨e, he, ?_⟩
  intro more r hr hrent fuel
  have hR := hrows more r hr hrent (fuel + 1)
  have hval : ∀ t : Row, t.ent = sq.ent →
      J.obj (valueOf (bindVal env ((compileSub nm s vnj ps ent fld key unique sq).1 ++ more))
        (compileSub nm s vnj ps ent fld key unique sq).2.core.proj (encodeRow nm t)) =
        project D s data (fuel + 1) key sq t := by
    intro t ht
    exact compileFrom_value env { nm with table := key } s vnj sq ps more hfragq (hfld sq.ent) henv data fuel key t ht
  constructor
  · unfold runSub
    rw [hR, List.map_map]
    cases unique with
    | true =>
      simp only [if_true, evalList_succ, ← List.map_take]
      apply List.map_congr_left
      intro t ht
      exact hval t (mem_evalRows_ent s data (fuel + 1) key sq _ hfragq false t (List.mem_of_mem_take ht))
    | false =>
      simp only [Bool.false_eq_true, if_false, evalList_succ]
      apply List.map_congr_left
      intro t ht
      exact hval t (mem_evalRows_ent s data (fuel + 1) key sq _ hfragq true t ht)
  · rw [hR]
    cases unique with
    | true =>
      simp only [if_true, Bool.not_true]
      cases evalRows D s data (fuel + 1 + 1) key sq (rowsById data (r.targets fld) sq.ent) false <;> simp
    | false =>
      simp only [Bool.false_eq_true, if_false, Bool.not_false]
      cases evalRows D s data (fuel + 1 + 1) key sq (rowsById data (r.targets fld) sq.ent) true <;> simp

/-! ## The root selection: projection with sub-selects, EXISTS -/

/-- what the evaluator's projection returns for a sub-selection -/
def subVal (s : Schema) (data : Data) (F : Nat) (rootKey : String) (r : Row) (key : String) (fld : Nat) (sq : Query) : J :=
  match fieldDef s r.ent fld with
  | some fd =>
    (match fd.kind with
     | .arr _ => .arr (evalList D s data F key sq (subCandidates D data rootKey key r fld sq.ent) true)
     | _ =>
       match evalList D s data F key sq (subCandidates D data rootKey key r fld sq.ent) false with
       | x :: _ => x
       | [] => .null)
  | none => .null

def projSpec1 (s : Schema) (data : Data) (F : Nat) (rootKey : String) (r : Row) : Sel → String × J
  | .sub key fld _ sq => (key, subVal s data F rootKey r key fld sq)
  | sel => projSpec s r sel

theorem projSpec1_key (s : Schema) (data : Data) (F : Nat) (rootKey : String) (r : Row) (sel : Sel) :
    (projSpec1 s data F rootKey r sel).1 = Sel.key sel := by
  cases sel <;> rfl

theorem subOk_parts {s : Schema} {table : String} {ent fld : Nat} {key : String} {sq : Query}
    (h : subOk s table ent fld key sq = true) :
    ∃ fd, fieldDef s ent fld = some fd ∧ (fd.kind = .ref sq.ent ∨ fd.kind = .arr sq.ent) ∧
      inFragment s sq = true ∧ key ≠ table := by
  unfold subOk at h
  cases hf : fieldDef s ent fld with
  | none => simp [hf] at h
  | some fd =>
    simp only [hf, Bool.and_eq_true, bne_iff_ne, ne_eq] at h
    obtain ⟨⟨hk, hq⟩, hne⟩ := h
    refine ⟨fd, rfl, ?_, hq, hne⟩
    cases hkind : fd.kind <;> simp_all

theorem subCandidates_ne (data : Data) (table key : String) (r : Row) (fld ent : Nat) (h : key ≠ table) :
    subCandidates D data table key r fld ent = rowsById data (r.targets fld) ent := by
  have : ¬ (table = key) := fun hc => h hc.symm
  simp [subCandidates, this]

theorem project_frag1 (s : Schema) (data : Data) (fuel : Nat) (key : String) (q : Query) (r : Row)
    (hr : r.ent = q.ent) (hs : ∀ sel ∈ q.sels, selOk1 s key q.ent sel = true) :
    project D s data (fuel + 1) key q r = .obj (q.sels.map (projSpec1 s data fuel key r)) := by
  simp only [project]
  congr 1
  apply List.map_congr_left
  intro sel hsel
  have hok := hs sel hsel
  cases sel with
  | scalar k fld =>
    obtain ⟨fd, hfd, hk, _⟩ := fieldOk_def (show fieldOk s q.ent fld = true from hok)
    rw [← hr] at hfd
    simp only [projSpec1, projSpec, hfd]
    cases hkind : fd.kind <;> simp_all [scalarKind]
  | id k => rfl
  | sub k fld opt sq => rfl
  | agg _ _ _ => simp [selOk1] at hok
  | json _ _ _ => simp [selOk1] at hok

theorem valueOf1_cons (db : Db) (bv : Nat → SqlVal) (k : String) (e : ProjExpr1) (rest : List (String × ProjExpr1))
    (row : NodeRow) : valueOf1 db bv ((k, e) :: rest) row = (k, projVal1 db bv row e) :: valueOf1 db bv rest row := rfl

/-- **projection with sub-selects**: the `json_object` of a stored row of the data set is the evaluator's projection -/
theorem projLoop1_spec (env : String → Val) (nm : Names) (s : Schema) (vn : Nat → Nat → String) (ent : Nat)
    (hent : ∀ a b, nm.entShort a = nm.entShort b → a = b)
    (hfld : ∀ e a b, nm.fieldShort e a = nm.fieldShort e b → a = b)
    (data : Data) (hdata : dataOk data = true) :
    ∀ (sels : List Sel) (ps : Binds) (j : Nat),
      (∀ sel ∈ sels, selOk1 s nm.table ent sel = true) →
      (∀ k key fld opt sq, sels[k]? = some (.sub key fld opt sq) →
        ∀ i f, sq.filters[i]? = some f → f.isParam = true → env (vn (j + k) i) = f.value) →
      ∃ e, (projLoop1 nm s vn ent ps j sels).1 = ps ++ e ∧
        ∀ (more : Binds) (r : Row), r ∈ data → r.ent = ent → ∀ fuel : Nat,
          valueOf1 (encodeDb nm data) (bindVal env ((projLoop1 nm s vn ent ps j sels).1 ++ more))
              (projLoop1 nm s vn ent ps j sels).2 (encodeRow nm r) =
            sels.map (projSpec1 s data (fuel + 2) nm.table r) := by
  intro sels
  induction sels with
  | nil => intro ps j _ _; exact ⟨[], by simp [projLoop1], fun _ _ _ _ _ => rfl⟩
  | cons sel rest ih =>
    intro ps j hok henv
    have hrest : ∀ x ∈ rest, selOk1 s nm.table ent x = true := fun x hx => hok x (by simp [hx])
    have henvr : ∀ k key fld opt sq, rest[k]? = some (.sub key fld opt sq) →
        ∀ i f, sq.filters[i]? = some f → f.isParam = true → env (vn (j + 1 + k) i) = f.value := by
      intro k key fld opt sq hk i f hf hp
      have := henv (k + 1) key fld opt sq (by simpa using hk) i f hf hp
      rw [← this]; congr 2; omega
    have hsel := hok sel (by simp)
    cases sel with
    | scalar key fld =>
      obtain ⟨fd, hfd, _, _⟩ := fieldOk_def (show fieldOk s ent fld = true from hsel)
      cases hdv : defaultOf s ent fld with
      | none =>
        obtain ⟨e, he, hv⟩ := ih ps (j + 1) hrest henvr
        refine ⟨e, by simp only [projLoop1, hdv]; exact he, ?_⟩
        intro more r hrd hr fuel
        subst hr
        have hd : fd.dflt = none := by simpa [defaultOf, hfd] using hdv
        simp only [projLoop1, hdv]
        rw [valueOf1_cons, hv more r hrd rfl fuel, List.map_cons]
        simp only [projVal1, projVal, projSpec1, projSpec, hfd]
        rw [assoc_encode nm r (hfld r.ent) fld, ofVal_selected, hd]
        cases r.stored fld <;> rfl
      | some dv =>
        obtain ⟨e1, he1, hst⟩ := litOperand_spec env ps dv
        obtain ⟨e2, he2, hv⟩ := ih (litOperand ps dv).1 (j + 1) hrest henvr
        refine ⟨e1 ++ e2, by simp only [projLoop1, hdv]; rw [he2, he1, List.append_assoc], ?_⟩
        intro more r hrd hr fuel
        subst hr
        have hd : fd.dflt = some dv := by simpa [defaultOf, hfd] using hdv
        simp only [projLoop1, hdv]
        rw [valueOf1_cons, hv more r hrd rfl fuel, List.map_cons]
        simp only [projVal1, projVal, projSpec1, projSpec, hfd]
        rw [assoc_encode nm r (hfld r.ent) fld, ofVal_selected, hd]
        have hop : operand (bindVal env ((projLoop1 nm s vn r.ent (litOperand ps dv).1 (j + 1) rest).1 ++ more))
            (litOperand ps dv).2 = SqlVal.ofScalar dv := by
          rw [he2, List.append_assoc]; exact hst _
        rw [hop]
        cases r.stored fld <;> rfl
    | id key =>
      obtain ⟨e, he, hv⟩ := ih ps (j + 1) hrest henvr
      refine ⟨e, by simp only [projLoop1]; exact he, ?_⟩
      intro more r hrd hr fuel
      simp only [projLoop1]
      rw [valueOf1_cons, hv more r hrd hr fuel, List.map_cons]
      rfl
    | sub key fld opt sq =>
      obtain ⟨fd, hfd, hkind, hfragq, hkey⟩ := subOk_parts (show subOk s nm.table ent fld key sq = true from hsel)
      obtain ⟨e1, he1, hsub⟩ := runSub_spec env nm s (vn j) ps ent fld key (!isArrField s ent fld) sq hfragq hkey hent hfld
        (fun i f hf hp => by have := henv 0 key fld opt sq (by simp) i f hf hp; simpa using this) data hdata
      obtain ⟨e2, he2, hv⟩ := ih (compileSub nm s (vn j) ps ent fld key (!isArrField s ent fld) sq).1 (j + 1) hrest henvr
      refine ⟨e1 ++ e2, by simp only [projLoop1]; rw [he2, he1, List.append_assoc], ?_⟩
      intro more r hrd hr fuel
      subst hr
      simp only [projLoop1]
      rw [valueOf1_cons, hv more r hrd rfl fuel, List.map_cons]
      congr 1
      have hrun := (hsub (e2 ++ more) r hrd rfl fuel).1
      rw [← List.append_assoc, ← he2] at hrun
      simp only [projSpec1, subVal, hfd, subCandidates_ne data nm.table key r fld sq.ent hkey]
      rcases hkind with hk | hk
      · have harr : isArrField s r.ent fld = false := by simp [isArrField, hfd, hk]
        rw [harr] at hrun ⊢
        simp only [Bool.not_false, if_true, Bool.false_eq_true, if_false, projVal1] at hrun ⊢
        rw [hrun, hk]
        cases evalList D s data (fuel + 2) key sq (rowsById data (r.targets fld) sq.ent) false <;> rfl
      · have harr : isArrField s r.ent fld = true := by simp [isArrField, hfd, hk]
        rw [harr] at hrun ⊢
        simp only [Bool.not_true, Bool.false_eq_true, if_false, if_true, projVal1] at hrun ⊢
        rw [hrun, hk]
    | agg _ _ _ => simp [selOk1] at hsel
    | json _ _ _ => simp [selOk1] at hsel

theorem subPresent_sub (s : Schema) (data : Data) (F : Nat) (key : String) (r : Row) (k : String) (fld : Nat)
    (opt : Bool) (q : Query) :
    subPresent D s data (F + 1) key r (.sub k fld opt q) =
      match fieldDef s r.ent fld with
      | some fd =>
        if (opt || fd.nullable) = true then true
        else !(evalRows D s data F k q (subCandidates D data key k r fld q.ent)
                (match fd.kind with | .arr _ => true | _ => false)).isEmpty
      | none => false := by
  simp only [subPresent]
  cases fieldDef s r.ent fld <;> rfl

theorem subPresent_scalar (s : Schema) (data : Data) (F : Nat) (key : String) (r : Row) (k : String) (fld : Nat) :
    subPresent D s data F key r (.scalar k fld) = true := by simp [subPresent]

theorem subPresent_id (s : Schema) (data : Data) (F : Nat) (key : String) (r : Row) (k : String) :
    subPresent D s data F key r (.id k) = true := by simp [subPresent]

/-- **EXISTS**: the sub-selects of `get_exists_query` all return a row for a stored row of the data set iff every
    mandatory sub-selection of the evaluator selects something for it -/
theorem existsLoop_spec (env : String → Val) (nm : Names) (s : Schema) (vn : Nat → Nat → String) (ent : Nat)
    (hent : ∀ a b, nm.entShort a = nm.entShort b → a = b)
    (hfld : ∀ e a b, nm.fieldShort e a = nm.fieldShort e b → a = b)
    (data : Data) (hdata : dataOk data = true) :
    ∀ (sels : List Sel) (ps : Binds) (j : Nat),
      (∀ sel ∈ sels, selOk1 s nm.table ent sel = true) →
      (∀ k key fld opt sq, sels[k]? = some (.sub key fld opt sq) →
        ∀ i f, sq.filters[i]? = some f → f.isParam = true → env (vn (j + k) i) = f.value) →
      ∃ e, (existsLoop nm s vn ent ps j sels).1 = ps ++ e ∧
        ∀ (more : Binds) (r : Row), r ∈ data → r.ent = ent → ∀ fuel : Nat,
          ((∀ sub ∈ (existsLoop nm s vn ent ps j sels).2,
              (subRows (encodeDb nm data) (bindVal env ((existsLoop nm s vn ent ps j sels).1 ++ more)) sub
                (encodeRow nm r)).isEmpty = false) ↔
            ∀ sel ∈ sels, subPresent D s data (fuel + 3) nm.table r sel = true) := by
  intro sels
  induction sels with
  | nil => intro ps j _ _; exact ⟨[], by simp [existsLoop], fun _ _ _ _ _ => by simp [existsLoop]⟩
  | cons sel rest ih =>
    intro ps j hok henv
    have hrest : ∀ x ∈ rest, selOk1 s nm.table ent x = true := fun x hx => hok x (by simp [hx])
    have henvr : ∀ k key fld opt sq, rest[k]? = some (.sub key fld opt sq) →
        ∀ i f, sq.filters[i]? = some f → f.isParam = true → env (vn (j + 1 + k) i) = f.value := by
      intro k key fld opt sq hk i f hf hp
      have := henv (k + 1) key fld opt sq (by simpa using hk) i f hf hp
      rw [← this]; congr 2; omega
    have hsel := hok sel (by simp)
    cases sel with
    | scalar key fld =>
      obtain ⟨e, he, hv⟩ := ih ps (j + 1) hrest henvr
      refine ⟨e, by simp only [existsLoop]; exact he, ?_⟩
      intro more r hrd hr fuel
      simp only [existsLoop, List.mem_cons, forall_eq_or_imp, subPresent_scalar, true_and]
      exact hv more r hrd hr fuel
    | id key =>
      obtain ⟨e, he, hv⟩ := ih ps (j + 1) hrest henvr
      refine ⟨e, by simp only [existsLoop]; exact he, ?_⟩
      intro more r hrd hr fuel
      simp only [existsLoop, List.mem_cons, forall_eq_or_imp, subPresent_id, true_and]
      exact hv more r hrd hr fuel
    | sub key fld opt sq =>
      obtain ⟨fd, hfd, hkind, hfragq, hkey⟩ := subOk_parts (show subOk s nm.table ent fld key sq = true from hsel)
      by_cases hopt : (opt || nullableField s ent fld) = true
      · obtain ⟨e, he, hv⟩ := ih ps (j + 1) hrest henvr
        refine ⟨e, by simp only [existsLoop, hopt, if_true]; exact he, ?_⟩
        intro more r hrd hr fuel
        subst hr
        have hn : (opt || fd.nullable) = true := by simpa [nullableField, hfd] using hopt
        simp only [existsLoop, hopt, if_true, List.mem_cons, forall_eq_or_imp]
        rw [subPresent_sub]
        simp only [hfd, hn, if_true, true_and]
        exact hv more r hrd rfl fuel
      · have hoptf : (opt || nullableField s ent fld) = false := by
          simpa only [Bool.not_eq_true] using hopt
        obtain ⟨e1, he1, hsub⟩ := runSub_spec env nm s (vn j) ps ent fld key (!isArrField s ent fld) sq hfragq hkey hent hfld
          (fun i f hf hp => by have := henv 0 key fld opt sq (by simp) i f hf hp; simpa using this) data hdata
        obtain ⟨e2, he2, hv⟩ := ih (compileSub nm s (vn j) ps ent fld key (!isArrField s ent fld) sq).1 (j + 1) hrest henvr
        refine ⟨e1 ++ e2, by simp only [existsLoop, hoptf, Bool.false_eq_true, if_false]; rw [he2, he1, List.append_assoc], ?_⟩
        intro more r hrd hr fuel
        subst hr
        have hn : (opt || fd.nullable) = false := by
          simpa [nullableField, hfd] using hoptf
        simp only [existsLoop, hoptf, Bool.false_eq_true, if_false, List.mem_cons, forall_eq_or_imp]
        rw [subPresent_sub, hv more r hrd rfl fuel]
        simp only [hfd, hn, Bool.false_eq_true, if_false]
        have hemp := (hsub (e2 ++ more) r hrd rfl fuel).2
        rw [← List.append_assoc, ← he2] at hemp
        rw [hemp, subCandidates_ne data nm.table key r fld sq.ent hkey]
        have hisarr : (!(!isArrField s r.ent fld)) = (match fd.kind with | FKind.arr _ => true | _ => false) := by
          cases hk : fd.kind <;> simp [isArrField, hfd, hk]
        rw [hisarr]
        cases (evalRows D s data (fuel + 2) key sq (rowsById data (r.targets fld) sq.ent)
          (match fd.kind with | FKind.arr _ => true | _ => false)).isEmpty <;> simp
    | agg _ _ _ => simp [selOk1] at hsel
    | json _ _ _ => simp [selOk1] at hsel

/-! ## The statement as a whole -/

theorem assoc_map_sel (P : Sel → String × J) (hk : ∀ sel, (P sel).1 = Sel.key sel) (name : String) (fld : Nat) :
    ∀ sels : List Sel, distinctKeys (sels.map Sel.key) = true →
      sels.any (isScalarSel name fld) = true →
      assoc name (sels.map P) = some (P (.scalar name fld)).2 := by
  intro sels
  induction sels with
  | nil => intro _ h; simp at h
  | cons sel rest ih =>
    intro hd ha
    simp only [List.map_cons, distinctKeys, Bool.and_eq_true, Bool.not_eq_eq_eq_not, Bool.not_true] at hd
    obtain ⟨hnot, hdr⟩ := hd
    simp only [List.any_cons, Bool.or_eq_true] at ha
    by_cases hkn : Sel.key sel = name
    · have hhead : sel = .scalar name fld := by
        rcases ha with ha | ha
        · exact (isScalarSel_iff name fld sel).mp ha
        · exfalso
          obtain ⟨x, hx, hxm⟩ := List.any_eq_true.mp ha
          have hxe := (isScalarSel_iff name fld x).mp hxm
          have : name ∈ rest.map Sel.key := List.mem_map.mpr ⟨x, hx, by rw [hxe]; rfl⟩
          rw [← hkn] at this
          have hc : (rest.map Sel.key).contains (Sel.key sel) = true := List.contains_iff_mem.mpr this
          rw [hc] at hnot; exact absurd hnot (by simp)
      subst hhead
      have h1 : (P (Sel.scalar name fld)).1 = name := by rw [hk]; rfl
      show assoc name (((P (Sel.scalar name fld)).1, (P (Sel.scalar name fld)).2) :: _) = _
      simp only [assoc, h1, if_true]
    · have hrest : rest.any (isScalarSel name fld) = true := by
        rcases ha with ha | ha
        · exfalso
          rw [(isScalarSel_iff name fld sel).mp ha] at hkn
          exact hkn rfl
        · exact ha
      rw [← ih hdr hrest, List.map_cons]
      have hne : (P sel).1 ≠ name := by rw [hk]; exact hkn
      show assoc name (((P sel).1, (P sel).2) :: _) = _
      simp only [assoc, hne, if_false]

theorem inFragment1_parts {s : Schema} {table : String} {q : Query} (h : inFragment1 s table q = true) :
    (∀ sel ∈ q.sels, selOk1 s table q.ent sel = true) ∧ distinctKeys (q.sels.map Sel.key) = true ∧
    (∀ f ∈ q.filters, f.jpath = none ∧ f.onRef = false ∧ FilterWf s q.ent q.sels f) ∧
    (∀ o ∈ q.orders, OrderWf s q.ent q.sels o) ∧
    (q.after = [] ∨ q.before = []) ∧ q.after.length ≤ q.orders.length ∧ q.before.length ≤ q.orders.length := by
  simp only [inFragment1, Bool.and_eq_true, List.all_eq_true, Bool.or_eq_true, List.isEmpty_iff,
    decide_eq_true_eq] at h
  obtain ⟨⟨⟨⟨⟨⟨⟨⟨h1, h2⟩, h3⟩, h4⟩, h5⟩, h6⟩, h7⟩, _⟩, _⟩ := h
  refine ⟨h1, h2, ?_, ?_, h5, h6, h7⟩
  · intro f hf
    have := h3 f hf
    simp only [filterOk, aliasOk, Bool.and_eq_true, Option.isNone_iff_eq_none, Bool.not_eq_eq_eq_not, Bool.not_true] at this
    obtain ⟨⟨⟨⟨a, b⟩, c⟩, d⟩, e⟩ := this
    exact ⟨a, b, c, d, e⟩
  · intro o ho
    have := h4 o ho
    simp only [orderOk, aliasOk, Bool.and_eq_true] at this
    exact ⟨this.1, this.2⟩

/-- the rows the evaluator keeps at the root: of the entity, every mandatory sub-selection selects something, every
    filter and the cursor hold -/
def keep1 (s : Schema) (data : Data) (F : Nat) (key : String) (q : Query) (r : Row) : Bool :=
  decide (r.ent = q.ent) && q.sels.all (subPresent D s data F key r) && q.filters.all (filterHolds D s q.ent r) &&
    cursorHolds D q.orders q.after q.before (keysOf D s q.ent q.orders r)

theorem evalRows_frag1 (s : Schema) (data : Data) (fuel : Nat) (key : String) (q : Query) (cands : List Row)
    (hfil : ∀ f ∈ q.filters, f.jpath = none ∧ f.onRef = false) :
    evalRows D s data (fuel + 1) key q cands false = sortBy (rowLe s q) (cands.filter (keep1 s data fuel key q)) := by
  simp only [evalRows, Bool.false_eq_true, if_false]
  show List.filter _ (sortBy (rowLe s q) _) = _
  rw [filter_sortBy (rowLe s q) (fun a b h => tupleLe_total _ _ _ h)
    (fun a b c h1 h2 => tupleLe_trans _ _ _ _ (keysOf_length ..) (keysOf_length ..) (keysOf_length ..) h1 h2),
    List.filter_filter]
  congr 1
  apply List.filter_congr
  intro r _
  have h2 : q.filters.all (holds D s data fuel key q r) = q.filters.all (filterHolds D s q.ent r) := by
    rw [Bool.eq_iff_iff]
    simp only [List.all_eq_true]
    constructor
    · intro h f hf
      rw [← holds_frag s data fuel key q r f (hfil f hf).1 (hfil f hf).2]; exact h f hf
    · intro h f hf
      rw [holds_frag s data fuel key q r f (hfil f hf).1 (hfil f hf).2]; exact h f hf
  simp only [keep1, h2]
  rw [Bool.and_comm]

/-- the clauses of the statement with sub-selects on a stored row of the data set that belongs to the entity -/
theorem compile1_parts (env : String → Val) (nm : Names) (s : Schema) (vn0 : Nat → String) (vn : Nat → Nat → String)
    (q : Query) (hfrag : inFragment1 s nm.table q = true)
    (hent : ∀ a b, nm.entShort a = nm.entShort b → a = b)
    (hfld : ∀ e a b, nm.fieldShort e a = nm.fieldShort e b → a = b)
    (henv0 : ∀ i f, q.filters[i]? = some f → f.isParam = true → env (vn0 i) = f.value)
    (henvS : ∀ k key fld opt sq, q.sels[k]? = some (.sub key fld opt sq) →
      ∀ i f, sq.filters[i]? = some f → f.isParam = true → env (vn k i) = f.value)
    (data : Data) (hdata : dataOk data = true) (r : Row) (hrd : r ∈ data) (hr : r.ent = q.ent) (fuel : Nat) :
    valueOf1 (encodeDb nm data) (bindVal env (compile1 nm s vn0 vn q).binds) (compile1 nm s vn0 vn q).proj (encodeRow nm r) =
      q.sels.map (projSpec1 s data (fuel + 2) nm.table r) ∧
    ((∀ sub ∈ (compile1 nm s vn0 vn q).exist,
        (subRows (encodeDb nm data) (bindVal env (compile1 nm s vn0 vn q).binds) sub (encodeRow nm r)).isEmpty = false) ↔
      ∀ sel ∈ q.sels, subPresent D s data (fuel + 3) nm.table r sel = true) ∧
    ((∀ c ∈ (compile1 nm s vn0 vn q).filters,
        cond3 (bindVal env (compile1 nm s vn0 vn q).binds) (encodeRow nm r)
          (q.sels.map (projSpec1 s data (fuel + 2) nm.table r)) c = some true) ↔
      ∀ f ∈ q.filters, filterHolds D s q.ent r f = true) ∧
    (((compile1 nm s vn0 vn q).paging.isEmpty = true ∨
        paging3 (bindVal env (compile1 nm s vn0 vn q).binds) (encodeRow nm r)
          (q.sels.map (projSpec1 s data (fuel + 2) nm.table r)) (compile1 nm s vn0 vn q).paging = some true) ↔
      cursorHolds D q.orders q.after q.before (keysOf D s q.ent q.orders r) = true) := by
  obtain ⟨hsels, hdist, hfil, hord, hcur, hla, hlb⟩ := inFragment1_parts hfrag
  have henvS' : ∀ k key fld opt sq, q.sels[k]? = some (.sub key fld opt sq) →
      ∀ i f, sq.filters[i]? = some f → f.isParam = true → env (vn (0 + k) i) = f.value := by
    intro k key fld opt sq hk i f hf hp
    rw [Nat.zero_add]; exact henvS k key fld opt sq hk i f hf hp
  obtain ⟨e1, he1, hproj⟩ := projLoop1_spec env nm s vn q.ent hent hfld data hdata q.sels [] 0 hsels henvS'
  obtain ⟨e2, he2, hex⟩ := existsLoop_spec env nm s vn q.ent hent hfld data hdata q.sels
    (projLoop1 nm s vn q.ent [] 0 q.sels).1 0 hsels henvS'
  have hV : ∀ (r : Row) (name : String) (fld : Nat), q.sels.any (isScalarSel name fld) = true →
      assoc name (q.sels.map (projSpec1 s data (fuel + 2) nm.table r)) = some (projSpec s r (.scalar name fld)).2 :=
    fun r name fld ha => assoc_map_sel (projSpec1 s data (fuel + 2) nm.table r) (projSpec1_key s data _ nm.table r)
      name fld q.sels hdist ha
  obtain ⟨e3, he3, hflt⟩ := filtersLoop_spec env nm s q.ent (hfld q.ent) q.sels
    (fun r => q.sels.map (projSpec1 s data (fuel + 2) nm.table r)) hV vn0 q.filters
    (existsLoop nm s vn q.ent (projLoop1 nm s vn q.ent [] 0 q.sels).1 0 q.sels).1 0 (fun f hf => (hfil f hf).2.2)
    (fun j f hj hp => by have := henv0 j f hj hp; simpa using this)
  obtain ⟨e4, he4, hpg⟩ := pagingOf_spec env nm s q
    (filtersLoop nm s q.ent vn0 (existsLoop nm s vn q.ent (projLoop1 nm s vn q.ent [] 0 q.sels).1 0 q.sels).1 0 q.filters).1
    (hfld q.ent) (fun r => q.sels.map (projSpec1 s data (fuel + 2) nm.table r)) hV hord hcur hla hlb
  have hbinds : (compile1 nm s vn0 vn q).binds =
      (pagingOf nm q.ent (filtersLoop nm s q.ent vn0
        (existsLoop nm s vn q.ent (projLoop1 nm s vn q.ent [] 0 q.sels).1 0 q.sels).1 0 q.filters).1 q).1 := rfl
  refine ⟨?_, ?_, ?_, ?_⟩
  · have := hproj (e2 ++ (e3 ++ e4)) r hrd hr fuel
    rw [hbinds, he4, he3, he2]
    simp only [List.append_assoc]
    exact this
  · have := hex (e3 ++ e4) r hrd hr fuel
    rw [hbinds, he4, he3]
    simp only [List.append_assoc]
    exact this
  · have := hflt e4 r hr
    rw [hbinds, he4]
    exact this
  · have := hpg [] r hr
    rw [List.append_nil] at this
    exact this

theorem whereHolds1_iff (db : Db) (st : SqlSelect1) (bv : Nat → SqlVal) (row : NodeRow) :
    whereHolds1 db st bv row = true ↔
      row.entity = st.entity ∧
      (∀ sub ∈ st.exist, (subRows db bv sub row).isEmpty = false) ∧
      (∀ c ∈ st.filters, cond3 bv row (valueOf1 db bv st.proj row) c = some true) ∧
      (st.paging.isEmpty = true ∨ paging3 bv row (valueOf1 db bv st.proj row) st.paging = some true) := by
  unfold whereHolds1
  simp only [decide_eq_true_eq]
  rw [all3_true_iff]
  constructor
  · intro h
    refine ⟨?_, ?_, ?_, ?_⟩
    · have := h (some (decide (row.entity = st.entity))) (by simp)
      simpa using this
    · intro sub hsub
      have := h (some (!(subRows db bv sub row).isEmpty))
        (by simp only [List.mem_append, List.mem_map]; exact Or.inl (Or.inl (Or.inr ⟨sub, hsub, rfl⟩)))
      simpa using this
    · intro c hc
      exact h _ (by simp only [List.mem_append, List.mem_map]; exact Or.inl (Or.inr ⟨c, hc, rfl⟩))
    · cases hp : st.paging.isEmpty with
      | true => exact Or.inl rfl
      | false =>
        right
        exact h _ (by simp [hp])
  · rintro ⟨h1, h2, h3, h4⟩ x hx
    simp only [List.mem_append, List.mem_cons, List.not_mem_nil, or_false, List.mem_map] at hx
    rcases hx with ((hx | ⟨sub, hsub, hx⟩) | ⟨c, hc, hx⟩) | hx
    · rw [hx]; simp [h1]
    · rw [← hx, h2 sub hsub]; rfl
    · rw [← hx]; exact h3 c hc
    · cases hp : st.paging.isEmpty with
      | true => simp [hp] at hx
      | false =>
        simp only [hp, Bool.false_eq_true, if_false, List.mem_cons, List.not_mem_nil, or_false] at hx
        rcases h4 with h4 | h4
        · rw [hp] at h4; exact absurd h4 (by simp)
        · rw [hx]; exact h4

/-- **the compiled statement with one level of sub-selections computes the evaluator's result**
    (see `C05_compile_correct_sub`) -/
theorem compile1_correct (nm : Names) (s : Schema) (data : Data) (q : Query) (vn0 : Nat → String)
    (vn : Nat → Nat → String) (env : String → Val) (fuel : Nat)
    (hfrag : inFragment1 s nm.table q = true)
    (hdata : dataOk data = true)
    (hent : ∀ a b, nm.entShort a = nm.entShort b → a = b)
    (hfld : ∀ e a b, nm.fieldShort e a = nm.fieldShort e b → a = b)
    (henv0 : ∀ i f, q.filters[i]? = some f → f.isParam = true → env (vn0 i) = f.value)
    (henvS : ∀ k key fld opt sq, q.sels[k]? = some (.sub key fld opt sq) →
      ∀ i f, sq.filters[i]? = some f → f.isParam = true → env (vn k i) = f.value) :
    run1 (encodeDb nm data) (compile1 nm s vn0 vn q) env = eval D s data (fuel + 4) nm.table q := by
  obtain ⟨hsels, hdist, hfil, hord, hcur, hla, hlb⟩ := inFragment1_parts hfrag
  have hparts := fun r hrd hr => compile1_parts env nm s vn0 vn q hfrag hent hfld henv0 henvS data hdata r hrd hr fuel
  have hagg : q.isAggregate = false := by
    simp only [Query.isAggregate, List.any_eq_false]
    intro sel hsel
    have := hsels sel hsel
    cases sel <;> simp_all [Sel.isAgg, selOk1]
  have heval : eval D s data (fuel + 4) nm.table q =
      (limit q.first q.skip (sortBy (rowLe s q) (data.filter (keep1 s data (fuel + 3) nm.table q)))).map
        (project D s data (fuel + 3) nm.table q) := by
    simp only [eval, hagg, Bool.false_eq_true, if_false, evalList]
    rw [evalRows_limited, evalRows_frag1 s data (fuel + 3) nm.table q data (fun f hf => ⟨(hfil f hf).1, (hfil f hf).2.1⟩)]
  rw [heval]
  show (applyLimit (compile1 nm s vn0 vn q).limit (compile1 nm s vn0 vn q).offset
      (sortBy (fun a b => !keysLt (compile1 nm s vn0 vn q).order
          (orderKeys1 (encodeDb nm data) (compile1 nm s vn0 vn q) (bindVal env (compile1 nm s vn0 vn q).binds) b)
          (orderKeys1 (encodeDb nm data) (compile1 nm s vn0 vn q) (bindVal env (compile1 nm s vn0 vn q).binds) a))
        ((data.map (encodeRow nm)).filter
          (whereHolds1 (encodeDb nm data) (compile1 nm s vn0 vn q) (bindVal env (compile1 nm s vn0 vn q).binds))))).map
      (fun row => J.obj (valueOf1 (encodeDb nm data) (bindVal env (compile1 nm s vn0 vn q).binds)
        (compile1 nm s vn0 vn q).proj row)) = _
  rw [List.filter_map]
  have hkeep : data.filter ((whereHolds1 (encodeDb nm data) (compile1 nm s vn0 vn q)
      (bindVal env (compile1 nm s vn0 vn q).binds)) ∘ encodeRow nm) = data.filter (keep1 s data (fuel + 3) nm.table q) := by
    apply List.filter_congr
    intro r hrd
    rw [Function.comp, Bool.eq_iff_iff, whereHolds1_iff]
    simp only [keep1, Bool.and_eq_true, decide_eq_true_eq, List.all_eq_true]
    have hentity : (encodeRow nm r).entity = (compile1 nm s vn0 vn q).entity ↔ r.ent = q.ent := by
      show nm.entShort r.ent = nm.entShort q.ent ↔ _
      exact ⟨hent _ _, fun h => by rw [h]⟩
    constructor
    · rintro ⟨h1, h2, h3, h4⟩
      have hr := hentity.mp h1
      obtain ⟨hv, hex, hf, hp⟩ := hparts r hrd hr
      rw [hv] at h3 h4
      exact ⟨⟨⟨hr, hex.mp h2⟩, hf.mp h3⟩, hp.mp h4⟩
    · rintro ⟨⟨⟨hr, h2⟩, h3⟩, h4⟩
      obtain ⟨hv, hex, hf, hp⟩ := hparts r hrd hr
      rw [hv]
      exact ⟨hentity.mpr hr, hex.mpr h2, hf.mpr h3, hp.mpr h4⟩
  rw [hkeep]
  have hmem : ∀ r ∈ data.filter (keep1 s data (fuel + 3) nm.table q), r ∈ data ∧ r.ent = q.ent := by
    intro r hr
    obtain ⟨h1, h2⟩ := List.mem_filter.mp hr
    simp only [keep1, Bool.and_eq_true, decide_eq_true_eq] at h2
    exact ⟨h1, h2.1.1.1⟩
  have hkeys : ∀ r ∈ data.filter (keep1 s data (fuel + 3) nm.table q),
      orderKeys1 (encodeDb nm data) (compile1 nm s vn0 vn q) (bindVal env (compile1 nm s vn0 vn q).binds) (encodeRow nm r) =
        q.orders.map fun o => SqlVal.ofScalar (keyOf D s q.ent r o) := by
    intro r hr
    obtain ⟨hrd, hre⟩ := hmem r hr
    obtain ⟨hv, _, _, _⟩ := hparts r hrd hre
    unfold orderKeys1
    rw [hv]
    show (q.orders.map fun o => ({ lhs := orderLhs nm q.ent o, desc := o.desc } : OrderTerm)).map _ = _
    rw [List.map_map]
    apply List.map_congr_left
    intro o ho
    exact lhsVal_order nm s q.ent (hfld q.ent) q.sels (fun r => q.sels.map (projSpec1 s data (fuel + 2) nm.table r))
      (fun r name fld ha => assoc_map_sel (projSpec1 s data (fuel + 2) nm.table r) (projSpec1_key s data _ nm.table r)
        name fld q.sels hdist ha) r hre o (hord o ho)
  have hsort : sortBy (fun a b => !keysLt (compile1 nm s vn0 vn q).order
        (orderKeys1 (encodeDb nm data) (compile1 nm s vn0 vn q) (bindVal env (compile1 nm s vn0 vn q).binds) b)
        (orderKeys1 (encodeDb nm data) (compile1 nm s vn0 vn q) (bindVal env (compile1 nm s vn0 vn q).binds) a))
      ((data.filter (keep1 s data (fuel + 3) nm.table q)).map (encodeRow nm)) =
      (sortBy (rowLe s q) (data.filter (keep1 s data (fuel + 3) nm.table q))).map (encodeRow nm) := by
    apply sortBy_map
    intro a ha b hb
    rw [hkeys a ha, hkeys b hb]
    show (!keysLt (q.orders.map fun o => ({ lhs := orderLhs nm q.ent o, desc := o.desc } : OrderTerm)) _ _) = _
    rw [keysLt_eq]
    rfl
  rw [hsort]
  have hlim : (compile1 nm s vn0 vn q).limit = (limitOf q.first q.skip).1 ∧
      (compile1 nm s vn0 vn q).offset = (limitOf q.first q.skip).2 := ⟨rfl, rfl⟩
  rw [hlim.1, hlim.2, applyLimit_map, applyLimit_eq, List.map_map]
  apply List.map_congr_left
  intro r hr
  obtain ⟨hrd, hre⟩ := hmem r ((mem_sortBy _ r _).mp (mem_limit _ _ _ r hr))
  obtain ⟨hv, _, _, _⟩ := hparts r hrd hre
  simp only [Function.comp]
  rw [hv, project_frag1 s data (fuel + 2) nm.table q r hre hsels]

end Discret.SqlCompile
