import DiscretModel.Gen.RoomKernel
/-!
Obligations of translator T7: every definition regenerated from `src/database/room.rs`
(Gen/RoomKernel.lean) equals the hand-written model function of Model/Room.lean that the theorems of
C01 C02 C07 C08 C10 C12 are proved about. A semantic change of the Rust function changes the
regenerated definition and the equality stops checking.
-/
namespace Discret.Gen.RoomKernel
open Discret.Room Discret.Rust

/-! ### prelude facts -/

theorem mmGet_eq_none {K V : Type} [DecidableEq K] (key : V → K) (m : List V) (k : K) :
    mmGet key m k = none ↔ m.filter (fun x => key x = k) = [] := by
  unfold mmGet mmGetD; split <;> simp_all

theorem mmGet_eq_some {K V : Type} [DecidableEq K] (key : V → K) (m : List V) (k : K) (l : List V) :
    mmGet key m k = some l → l = m.filter (fun x => key x = k) := by
  unfold mmGet mmGetD; split <;> simp_all

theorem mmGet_cases {K V : Type} [DecidableEq K] (key : V → K) (m : List V) (k : K) :
    (mmGet key m k = none ∧ m.filter (fun x => key x = k) = []) ∨
    (mmGet key m k = some (m.filter (fun x => key x = k))) := by
  unfold mmGet mmGetD
  split
  · left; simp_all
  · right; simp_all

/-- the lookup shared by `is_admin`, `can_admin_users`, `is_user_valid_at` -/
theorem lookup_enabled (l : List User) (k : Key) (d : Int) :
    (match mmGet (fun (x : User) => x.key) l k with
     | some val =>
       (let user_opt := (val.reverse.find? (fun (user : User) => decide (user.date ≤ d)));
        match user_opt with
        | some user => user.enabled
        | none => false)
     | _ => false) = enabledAt l k d := by
  unfold enabledAt lastAt
  cases h : mmGet (fun (x : User) => x.key) l k with
  | none =>
    have hf : List.filter (fun x => decide (x.key = k)) l = [] := (mmGet_eq_none (fun (x : User) => x.key) l k).1 h
    rw [hf]; rfl
  | some val =>
    have hv : val = List.filter (fun x => decide (x.key = k)) l := mmGet_eq_some (fun (x : User) => x.key) l k val h
    subst hv
    rfl

theorem dedup_mem {K : Type} [DecidableEq K] (l : List K) (x : K) : x ∈ dedup l ↔ x ∈ l := by
  induction l with
  | nil => simp [dedup]
  | cons a t ih =>
    simp only [dedup, List.mem_cons, List.mem_filter, ih]
    by_cases h : x = a <;> simp [h]

theorem forReturn_true {α : Type} (coll : List α) (p : α → Bool) :
    (match forReturn coll (fun a => if p a then some true else none) with
     | some r => r
     | none => false) = coll.any p := by
  unfold forReturn
  induction coll with
  | nil => simp
  | cons a t ih =>
    simp only [List.findSome?_cons, List.any_cons]
    by_cases h : p a = true
    · simp [h]
    · simp only [Bool.not_eq_true] at h
      simp [h, ih]

theorem forReturn_isSome {α : Type} (coll : List α) (p : α → Bool) :
    forReturn coll (fun a => if p a then some true else none) = if coll.any p then some true else none := by
  unfold forReturn
  induction coll with
  | nil => simp
  | cons a t ih =>
    simp only [List.findSome?_cons, List.any_cons]
    by_cases h : p a = true
    · simp [h]
    · simp only [Bool.not_eq_true] at h
      simp [h, ih]

/-! ### the regenerated functions equal the model -/

theorem Right_new_eq (vf : Int) (e : Ent) (ms ma : Bool) : Right_new vf e ms ma = Right.new vf e ms ma := by
  unfold Right_new Right.new
  cases ms <;> cases ma <;> rfl

theorem Auth_add_user_eq (a : Auth) (u : User) : Auth_add_user a u = a.addUser u := by
  unfold Auth_add_user Auth.addUser addUserEntry mmGetD mmPush
  dsimp only
  generalize (List.filter (fun x => decide (x.key = u.key)) a.users).getLast? = o
  cases o with
  | none => rfl
  | some last =>
    by_cases hd : last.date > u.date <;> simp [hd]

theorem Auth_add_user_admin_eq (a : Auth) (u : User) : Auth_add_user_admin a u = a.addUserAdmin u := by
  unfold Auth_add_user_admin Auth.addUserAdmin addUserEntry mmGetD mmPush
  dsimp only
  generalize (List.filter (fun x => decide (x.key = u.key)) a.userAdmins).getLast? = o
  cases o with
  | none => rfl
  | some last =>
    by_cases hd : last.date > u.date <;> simp [hd]

theorem Room_add_admin_user_eq (r : Room) (u : User) : Room_add_admin_user r u = r.addAdmin u := by
  unfold Room_add_admin_user Room.addAdmin addUserEntry mmGetD mmPush
  dsimp only
  generalize (List.filter (fun x => decide (x.key = u.key)) r.admins).getLast? = o
  cases o with
  | none => rfl
  | some last =>
    by_cases hd : last.date > u.date <;> simp [hd]

theorem Auth_add_right_eq (a : Auth) (x : Right) : Auth_add_right a x = a.addRight x := by
  unfold Auth_add_right Auth.addRight addRightEntry mmGetD mmPush
  dsimp only
  generalize (List.filter (fun r => decide (r.entity = x.entity)) a.rights).getLast? = o
  cases o with
  | none => rfl
  | some last =>
    by_cases hd : last.validFrom > x.validFrom <;> simp [hd]

theorem Auth_get_right_at_eq (a : Auth) (e : Ent) (d : Int) : Auth_get_right_at a e d = rightAt a.rights e d := by
  unfold Auth_get_right_at rightAt
  cases h : mmGet (fun (x : Right) => x.entity) a.rights e with
  | none =>
    have hf : List.filter (fun x => decide (x.entity = e)) a.rights = [] := (mmGet_eq_none (fun (x : Right) => x.entity) a.rights e).1 h
    rw [hf]; rfl
  | some val =>
    have hv : val = List.filter (fun x => decide (x.entity = e)) a.rights := mmGet_eq_some (fun (x : Right) => x.entity) a.rights e val h
    subst hv
    rfl

theorem Auth_has_user_eq (a : Auth) (k : Key) : Auth_has_user a k = a.hasUser k := by
  unfold Auth_has_user Auth.hasUser mmContains
  rfl

theorem Auth_can_admin_users_eq (a : Auth) (k : Key) (d : Int) : Auth_can_admin_users a k d = a.canAdminUsers k d := by
  unfold Auth_can_admin_users Auth.canAdminUsers
  exact lookup_enabled _ _ _

theorem Auth_is_user_valid_at_eq (a : Auth) (k : Key) (d : Int) : Auth_is_user_valid_at a k d = a.isUserValidAt k d := by
  unfold Auth_is_user_valid_at Auth.isUserValidAt enabledAt lastAt
  dsimp only
  rcases mmGet_cases (fun (x : User) => x.key) a.users k with ⟨h1, f1⟩ | h1 <;>
  rcases mmGet_cases (fun (x : User) => x.key) a.userAdmins k with ⟨h2, f2⟩ | h2 <;>
  simp only [h1, h2]
  all_goals (try rw [f1])
  all_goals (try rw [f2])
  all_goals rfl

theorem Auth_can_eq (a : Auth) (e : Ent) (d : Int) (rt : RightType) : Auth_can a e d rt = a.can e d rt := by
  unfold Auth_can Auth.can
  simp only [Auth_get_right_at_eq]
  cases rightAt a.rights e d <;> cases rightAt a.rights wildcard d <;> cases rt <;> rfl

theorem Room_add_auth_eq (r : Room) (a : Auth) : Room_add_auth r a = r.addAuth a := by
  unfold Room_add_auth Room.addAuth hmContains hmInsert
  by_cases h : (r.auths.any fun x => decide (x.id = a.id)) = true
  · simp [h]
  · simp only [Bool.not_eq_true] at h
    simp [h]

theorem Room_is_admin_eq (r : Room) (k : Key) (d : Int) : Room_is_admin r k d = r.isAdmin k d := by
  unfold Room_is_admin Room.isAdmin
  exact lookup_enabled _ _ _

theorem Room_can_eq (r : Room) (k : Key) (e : Ent) (d : Int) (rt : RightType) :
    Room_can r k e d rt = r.can k e d rt := by
  unfold Room_can Room.can
  simp only [Room_is_admin_eq, Auth_is_user_valid_at_eq, Auth_can_eq]
  have := forReturn_true (hmEntries (fun (x : Auth) => x.id) r.auths)
    (fun entry => (r.isAdmin k d || entry.2.isUserValidAt k d) && entry.2.can e d rt)
  simp only [hmEntries, List.any_map] at this ⊢
  exact this

theorem Room_is_user_valid_at_eq (r : Room) (k : Key) (d : Int) :
    Room_is_user_valid_at r k d = r.isUserValidAt k d := by
  unfold Room_is_user_valid_at Room.isUserValidAt enabledAt lastAt
  simp only [Auth_is_user_valid_at_eq, forReturn_isSome, hmEntries, List.any_map, Function.comp_def]
  generalize (r.auths.any fun x => x.isUserValidAt k d) = b
  rcases mmGet_cases (fun (x : User) => x.key) r.admins k with ⟨h1, f1⟩ | h1
  · simp only [h1]; rw [f1]; cases b <;> rfl
  · simp only [h1]
    generalize List.find? (fun (user : User) => decide (user.date ≤ d)) (List.filter (fun x => decide (x.key = k)) r.admins).reverse = o
    cases o with
    | none => cases b <;> rfl
    | some u => cases hu : u.enabled <;> cases b <;> simp [hu]

theorem mmEntries_any {V : Type} (key : V → Key) (m : List V) (p : V → Bool) :
    ((mmEntries key m).any fun entry => entry.2.any p) = m.any p := by
  rw [Bool.eq_iff_iff]
  simp only [mmEntries, mmGetD, List.any_map, List.any_eq_true, List.mem_filter, Function.comp]
  constructor
  · rintro ⟨k, _, x, ⟨hx, _⟩, hp⟩
    exact ⟨x, hx, hp⟩
  · rintro ⟨x, hx, hp⟩
    exact ⟨key x, (dedup_mem _ _).2 (List.mem_map.2 ⟨x, hx, rfl⟩), x, ⟨hx, by simp⟩, hp⟩

theorem Room_has_user_eq (r : Room) (k : Key) : Room_has_user r k = r.hasUser k := by
  unfold Room_has_user Room.hasUser
  simp only [Auth_has_user_eq, forReturn_isSome, hmEntries, List.any_map, Function.comp_def]
  have e1 : ((mmEntries (fun (x : User) => x.key) r.admins).any fun entry => entry.2.any fun u => decide (k = u.key))
      = r.admins.any (fun x => decide (x.key = k)) := by
    rw [mmEntries_any]
    congr 1; funext u; exact Bool.eq_iff_iff.2 (by simp [eq_comm])
  rw [e1]
  cases (r.admins.any fun x => decide (x.key = k)) <;> cases (r.auths.any fun x => x.hasUser k) <;> rfl

end Discret.Gen.RoomKernel
