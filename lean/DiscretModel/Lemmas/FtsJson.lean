import DiscretModel.Model.Fts
/-
`extract_json` (`node.rs:1004-1025`) as modelled in `Model/Fts.lean`: the text is the strings of the value, in
order, each followed by a space. Core Lean only.
-/
namespace Discret.Fts

mutual
theorem extractJson_eq : ∀ (j : Json), extractJson j = (strings j).flatMap fun s => s ++ [' ']
  | .null => by simp [extractJson, strings]
  | .bool _ => by simp [extractJson, strings]
  | .num _ => by simp [extractJson, strings]
  | .str s => by simp [extractJson, strings]
  | .arr items => by simp only [extractJson, strings]; exact extractList_eq items
  | .obj fields => by simp only [extractJson, strings]; exact extractFields_eq fields
theorem extractList_eq : ∀ (l : JList), extractList l = (stringsList l).flatMap fun s => s ++ [' ']
  | .nil => by simp [extractList, stringsList]
  | .cons h t => by
    simp only [extractList, stringsList, List.flatMap_append]
    rw [extractJson_eq h, extractList_eq t]
theorem extractFields_eq : ∀ (l : JFields), extractFields l = (stringsFields l).flatMap fun s => s ++ [' ']
  | .nil => by simp [extractFields, stringsFields]
  | .cons _ v t => by
    simp only [extractFields, stringsFields, List.flatMap_append]
    rw [extractJson_eq v, extractFields_eq t]
end

/-- numbers, booleans, null and object keys never reach the text: a value without strings has an empty text -/
theorem extractJson_nil_of_no_strings (j : Json) (h : strings j = []) : extractJson j = [] := by
  rw [extractJson_eq, h]; rfl

end Discret.Fts
