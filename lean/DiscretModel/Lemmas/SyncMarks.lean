import DiscretModel.Lemmas.DailyLogRun
import DiscretModel.Model.Sync
import DiscretModel.Lemmas.SyncBatches
/-
C09 on the replica model: under `Defects.none` every write of the model marks every `(room, entity, day)`
whose stored signatures it changes; hence local writes, ingested rows and ingested deletion records
preserve the daily-log invariant `WInv`, and a recomputation yields the log of the stored content.
-/
namespace Discret.Sync
open Discret.DailyLog

/-! ### the three parts of the stored content -/

/-- signatures of the elements of `l` whose key is `k` -/
def part {α : Type} (key : α → Key) (sg : α → Sig) (l : List α) (k : Key) : List Sig :=
  (l.filter fun x => key x = k).map sg

def nKey (n : Node) : Key := kNode n.room n.ent n.mdate
def tKey (t : NTomb) : Key := kNode t.room t.ent t.ddate
def xKey (t : ETomb) : Key := kNode t.room 0 t.ddate

theorem key_eq_iff (a b c d e f : Nat) :
    (({ room := a, ent := b, day := c } : Key) = { room := d, ent := e, day := f }) ↔ (a = d ∧ b = e ∧ c = f) := by
  constructor
  · intro h; injection h with h1 h2 h3; exact ⟨h1, h2, h3⟩
  · rintro ⟨h1, h2, h3⟩; subst h1 h2 h3; rfl

theorem sigs_eq_parts (r : Replica) (room ent day : Nat) :
    r.sigs room ent day =
      part tKey (·.sig) r.ntombs { room, ent, day } ++ part xKey (·.sig) r.etombs { room, ent, day } ++
        part nKey (·.sig) r.nodes { room, ent, day } := by
  have h1 : ∀ l : List NTomb, (l.filter fun t => t.room = room && t.ent = ent && dayOf t.ddate = day) =
      l.filter fun x => tKey x = { room, ent, day } := by
    intro l; apply List.filter_congr; intro x _
    rw [Bool.eq_iff_iff]
    simp only [tKey, kNode, key_eq_iff, Bool.and_eq_true, decide_eq_true_eq, and_assoc]
  have h2 : ∀ l : List ETomb, (l.filter fun t => t.room = room && ent = 0 && dayOf t.ddate = day) =
      l.filter fun x => xKey x = { room, ent, day } := by
    intro l; apply List.filter_congr; intro x _
    rw [Bool.eq_iff_iff]
    simp only [xKey, kNode, key_eq_iff, Bool.and_eq_true, decide_eq_true_eq, and_assoc]
    constructor
    · rintro ⟨a, b, c⟩; exact ⟨a, b.symm, c⟩
    · rintro ⟨a, b, c⟩; exact ⟨a, b.symm, c⟩
  have h3 : ∀ l : List Node, (l.filter fun n => n.room = room && n.ent = ent && dayOf n.mdate = day) =
      l.filter fun x => nKey x = { room, ent, day } := by
    intro l; apply List.filter_congr; intro x _
    rw [Bool.eq_iff_iff]
    simp only [nKey, kNode, key_eq_iff, Bool.and_eq_true, decide_eq_true_eq, and_assoc]
  unfold Replica.sigs part
  rw [h1, h2, h3]

section part
variable {α : Type} (key : α → Key) (sg : α → Sig)

theorem part_append (l1 l2 : List α) (k : Key) : part key sg (l1 ++ l2) k = part key sg l1 k ++ part key sg l2 k := by
  simp [part, List.filter_append]

theorem part_single_ne {x : α} {k : Key} (h : key x ≠ k) : part key sg [x] k = [] := by
  simp [part, h]

theorem part_cons (a : α) (t : List α) (k : Key) :
    part key sg (a :: t) k = (if key a = k then [sg a] else []) ++ part key sg t k := by
  unfold part
  rw [List.filter_cons]
  by_cases h : key a = k <;> simp [h]

/-- replacing elements whose old and new keys are both different from `k` does not change the part of `k` -/
theorem part_map (f : α → α) (l : List α) (k : Key)
    (h : ∀ x ∈ l, f x = x ∨ (key x ≠ k ∧ key (f x) ≠ k)) : part key sg (l.map f) k = part key sg l k := by
  induction l with
  | nil => rfl
  | cons a t ih =>
    have iht := ih (fun x hx => h x (List.mem_cons_of_mem _ hx))
    rw [List.map_cons, part_cons, part_cons, iht]
    rcases h a List.mem_cons_self with e | ⟨e1, e2⟩
    · rw [e]
    · simp only [e1, e2, ↓reduceIte]

/-- removing elements whose key is different from `k` does not change the part of `k` -/
theorem part_filter (p : α → Bool) (l : List α) (k : Key) (h : ∀ x ∈ l, p x = false → key x ≠ k) :
    part key sg (l.filter p) k = part key sg l k := by
  induction l with
  | nil => rfl
  | cons a t ih =>
    have iht := ih (fun x hx => h x (List.mem_cons_of_mem _ hx))
    cases hp : p a with
    | true => rw [List.filter_cons_of_pos hp, part_cons, part_cons, iht]
    | false =>
      have := h a List.mem_cons_self hp
      rw [List.filter_cons_of_neg (by simp [hp]), part_cons, iht]
      simp only [this, ↓reduceIte, List.nil_append]

end part

/-! ### unique row ids -/

def IdsNodup (r : Replica) : Prop := (r.nodes.map (·.id)).Nodup

theorem eq_of_id_eq {l : List Node} (h : (l.map (·.id)).Nodup) {x y : Node} (hx : x ∈ l) (hy : y ∈ l)
    (e : x.id = y.id) : x = y := by
  induction l with
  | nil => cases hx
  | cons a t ih =>
    simp only [List.map_cons, List.nodup_cons] at h
    rcases List.mem_cons.mp hx with ex | ex <;> rcases List.mem_cons.mp hy with ey | ey
    · rw [ex, ey]
    · subst ex; exact absurd (List.mem_map.mpr ⟨y, ey, e.symm⟩) h.1
    · subst ey; exact absurd (List.mem_map.mpr ⟨x, ex, e⟩) h.1
    · exact ih h.2 ex ey

theorem findNode_some {r : Replica} {id ent : Nat} {n : Node} (h : r.findNode id ent = some n) :
    n ∈ r.nodes ∧ n.id = id ∧ n.ent = ent := by
  unfold Replica.findNode at h
  have := List.find?_some h
  simp only [Bool.and_eq_true, decide_eq_true_eq] at this
  exact ⟨List.mem_of_find?_eq_some h, this.1, this.2⟩

/-- the content after replacing the row `old` by `n` (same id) changes only on the days of `old` and `n` -/
theorem replace_part {l : List Node} (hn : (l.map (·.id)).Nodup) {old : Node} (ho : old ∈ l) (n : Node) (hid : n.id = old.id)
    (k : Key) (h1 : k ≠ nKey old) (h2 : k ≠ nKey n) :
    part nKey (·.sig) (replaceNode n l) k = part nKey (·.sig) l k := by
  unfold replaceNode
  apply part_map
  intro x hx
  by_cases e : x.id = n.id
  · right
    have : x = old := eq_of_id_eq hn hx ho (e.trans hid)
    simp only [e, ↓reduceIte]
    exact ⟨by rw [this]; exact fun z => h1 z.symm, fun z => h2 z.symm⟩
  · left; simp [e]

theorem putNTomb_part (t : NTomb) (l : List NTomb) (k : Key) (h : k ≠ tKey t) :
    part tKey (·.sig) (putNTomb t l) k = part tKey (·.sig) l k := by
  unfold putNTomb
  split
  · apply part_map
    intro x _
    by_cases e : t.samePk x = true
    · right
      simp only [e, ↓reduceIte]
      have hk : tKey x = tKey t := by
        simp only [NTomb.samePk, Bool.and_eq_true, decide_eq_true_eq] at e
        simp only [tKey, kNode, e.1.1.1, e.1.1.2, e.2]
      exact ⟨by rw [hk]; exact fun z => h z.symm, fun z => h z.symm⟩
    · left; simp [e]
  · rw [part_append, part_single_ne _ _ (fun z => h z.symm), List.append_nil]

theorem putETomb_part (t : ETomb) (l : List ETomb) (k : Key) (h : k ≠ xKey t) :
    part xKey (·.sig) (putETomb t l) k = part xKey (·.sig) l k := by
  unfold putETomb
  split
  · apply part_map
    intro x _
    by_cases e : t.samePk x = true
    · right
      simp only [e, ↓reduceIte]
      have hk : xKey x = xKey t := by
        simp only [ETomb.samePk, Bool.and_eq_true, decide_eq_true_eq] at e
        simp only [xKey, kNode, e.1.1.1, e.1.1.2]
      exact ⟨by rw [hk]; exact fun z => h z.symm, fun z => h z.symm⟩
    · left; simp [e]
  · rw [part_append, part_single_ne _ _ (fun z => h z.symm), List.append_nil]


theorem foldl_preserves' {α β : Type} (P : β → Prop) (l : List α) (f : β → α → β) (b : β) (hb : P b)
    (hf : ∀ b a, P b → P (f b a)) : P (l.foldl f b) := by
  induction l generalizing b with
  | nil => exact hb
  | cons a t ih => exact ih (f b a) (hf b a hb)

/-! ### marks cover the change -/

/-- every `(room, entity, day)` whose stored signatures differ between `r` and `r'` is in `marks` -/
def Covers (r r' : Replica) (marks : List Key) : Prop :=
  ∀ room ent day, r'.sigs room ent day ≠ r.sigs room ent day → ({ room, ent, day } : Key) ∈ marks

theorem covers_refl (r : Replica) (marks : List Key) : Covers r r marks := fun _ _ _ h => absurd rfl h

theorem covers_of_parts {r r' : Replica} {marks : List Key}
    (h : ∀ k, k ∉ marks → part tKey (·.sig) r'.ntombs k = part tKey (·.sig) r.ntombs k ∧
      part xKey (·.sig) r'.etombs k = part xKey (·.sig) r.etombs k ∧
      part nKey (·.sig) r'.nodes k = part nKey (·.sig) r.nodes k) : Covers r r' marks := by
  intro room ent day hne
  by_cases hm : ({ room, ent, day } : Key) ∈ marks
  · exact hm
  · exfalso
    apply hne
    obtain ⟨a, b, c⟩ := h _ hm
    rw [sigs_eq_parts, sigs_eq_parts, a, b, c]

theorem opNew_covers (cur : Replica) (p row room ent val sig now : Nat) :
    Covers cur (opNew cur p row room ent val sig now).cur (opNew cur p row room ent val sig now).marks := by
  apply covers_of_parts
  intro k hk
  simp only [opNew, List.mem_singleton] at hk
  refine ⟨rfl, rfl, ?_⟩
  show part nKey (·.sig) (cur.nodes ++ [_]) k = _
  rw [part_append, part_single_ne, List.append_nil]
  intro e; exact hk (by rw [← e]; rfl)

theorem opUpd_covers {cur : Replica} (hn : IdsNodup cur) (rights : Rights) (p row ent val sig : Nat)
    (room : Option Nat) (now : Nat) :
    Covers cur (opUpd rights cur cur p row ent val sig room now).cur (opUpd rights cur cur p row ent val sig room now).marks := by
  unfold opUpd
  split
  · exact covers_refl _ _
  · rename_i old ho
    obtain ⟨hm, hid, hent⟩ := findNode_some ho
    split
    · exact covers_refl _ _
    · apply covers_of_parts
      intro k hk
      simp only [List.mem_cons, List.not_mem_nil, or_false, not_or] at hk
      refine ⟨rfl, rfl, ?_⟩
      show part nKey (·.sig) (replaceNode _ cur.nodes) k = _
      apply replace_part hn hm
      · rfl
      · exact hk.2
      · intro e; apply hk.1; rw [e]; simp [nKey, kNode, hent]

theorem opRef_covers {cur : Replica} (hn : IdsNodup cur) (rights : Rights) (p row to sig now : Nat) :
    Covers cur (opRef rights cur cur p row to sig now).cur (opRef rights cur cur p row to sig now).marks := by
  unfold opRef
  split
  · exact covers_refl _ _
  · rename_i old ho
    obtain ⟨hm, hid, hent⟩ := findNode_some ho
    split
    · exact covers_refl _ _
    · split
      · exact covers_refl _ _
      · split
        · exact covers_refl _ _
        · apply covers_of_parts
          intro k hk
          simp only [List.mem_cons, List.not_mem_nil, or_false, not_or] at hk
          refine ⟨rfl, rfl, ?_⟩
          show part nKey (·.sig) (replaceNode _ cur.nodes) k = _
          apply replace_part hn hm
          · rfl
          · exact hk.2.2
          · intro e; apply hk.2.1; rw [e]; simp [nKey, kNode, hent]

theorem opUnref_covers {cur : Replica} (hn : IdsNodup cur) {d : Defects} (hd : d.refDeletionUnmarked = false)
    (rights : Rights) (p row to sig dsig now : Nat) :
    Covers cur (opUnref d rights cur cur p row to sig dsig now).cur
      (opUnref d rights cur cur p row to sig dsig now).marks := by
  unfold opUnref
  split
  · exact covers_refl _ _
  · rename_i old ho
    obtain ⟨hm, hid, hent⟩ := findNode_some ho
    simp only [hd, Bool.false_eq_true, ↓reduceIte]
    split
    · split
      · apply covers_of_parts
        intro k hk
        simp only [List.mem_cons, List.not_mem_nil, or_false, not_or] at hk
        refine ⟨rfl, rfl, ?_⟩
        show part nKey (·.sig) (replaceNode _ cur.nodes) k = _
        apply replace_part hn hm
        · rfl
        · intro e; apply hk.2; rw [e]; simp [nKey, kNode, hent]
        · intro e; apply hk.1; rw [e]; simp [nKey, kNode, hent]
      · exact covers_refl _ _
    · split
      · exact covers_refl _ _
      · apply covers_of_parts
        intro k hk
        simp only [List.mem_cons, List.not_mem_nil, or_false, not_or] at hk
        refine ⟨rfl, ?_, ?_⟩
        · apply putETomb_part
          intro e; apply hk.1; rw [e]; rfl
        · show part nKey (·.sig) (replaceNode _ cur.nodes) k = _
          apply replace_part hn hm
          · rfl
          · intro e; apply hk.2.2; rw [e]; simp [nKey, kNode, hent]
          · intro e; apply hk.2.1; rw [e]; simp [nKey, kNode, hent]

theorem opDel_covers {cur : Replica} (hn : IdsNodup cur) (rights : Rights) (p row ent dsig now : Nat) :
    Covers cur (opDel rights cur cur p row ent dsig now).cur (opDel rights cur cur p row ent dsig now).marks := by
  unfold opDel
  split
  · exact covers_refl _ _
  · rename_i old ho
    obtain ⟨hm, hid, hent⟩ := findNode_some ho
    split
    · exact covers_refl _ _
    · apply covers_of_parts
      intro k hk
      simp only [List.mem_cons, List.not_mem_nil, or_false, not_or] at hk
      refine ⟨?_, rfl, ?_⟩
      · apply putNTomb_part
        intro e; apply hk.2; rw [e]; rfl
      · apply part_filter
        intro x hx hp
        have hxid : x.id = row := by simpa using hp
        have : x = old := eq_of_id_eq hn hx hm (hxid.trans hid.symm)
        rw [this]; intro e; apply hk.1; rw [← e]; rfl

/-! ### a covered write followed by its marks preserves the invariant -/

theorem winv_step {r r' : Replica} {marks : List Key} (h : WInv r.sigs noPending r.log) (hc : Covers r r' marks)
    (hl : r'.log = r.log) : WInv r'.sigs noPending (markAll marks r'.log) := by
  rw [hl]
  apply WInv_markAll
  refine WInv_write h (fun _ _ _ x => absurd x (fun z => z)) ?_
  intro room ent day hne
  exact Or.inr (hc room ent day hne)

/-- the same when the write stores its marks itself -/
theorem winv_step' {r r' : Replica} {marks : List Key} (h : WInv r.sigs noPending r.log) (hc : Covers r r' marks)
    (hl : r'.log = markAll marks r.log) : WInv r'.sigs noPending r'.log := by
  rw [hl]
  apply WInv_markAll
  refine WInv_write h (fun _ _ _ x => absurd x (fun z => z)) ?_
  intro room ent day hne
  exact Or.inr (hc room ent day hne)

theorem effectOf_log (d : Defects) (w : World) (cur : Replica) (p : Nat) (op : WOp) :
    (effectOf d w cur cur p op).cur.log = cur.log := by
  cases op with
  | new row room ent val sig => rfl
  | upd row val sig room =>
    simp only [effectOf, opUpd]
    split
    · rfl
    · split <;> rfl
  | ref row to sig =>
    simp only [effectOf, opRef]
    split
    · rfl
    · split
      · rfl
      · split
        · rfl
        · split <;> rfl
  | unref row to sig dsig =>
    simp only [effectOf, opUnref]
    split
    · rfl
    · split
      · split <;> rfl
      · split <;> rfl
  | del row dsig =>
    simp only [effectOf, opDel]
    split
    · rfl
    · split <;> rfl

/-- **every local write of the model keeps the daily-log invariant** (intended behaviour; the write is planned on
    the state it is applied to, i.e. no other write of the same batch touched the same row) -/
theorem effectOf_winv {d : Defects} (hd : d.refDeletionUnmarked = false) (w : World) {cur : Replica}
    (hn : IdsNodup cur) (h : WInv cur.sigs noPending cur.log) (p : Nat) (op : WOp) :
    WInv (effectOf d w cur cur p op).cur.sigs noPending
      (markAll (effectOf d w cur cur p op).marks (effectOf d w cur cur p op).cur.log) := by
  refine winv_step h ?_ (effectOf_log d w cur p op)
  cases op with
  | new row room ent val sig => exact opNew_covers cur p row room ent val sig w.now
  | upd row val sig room => exact opUpd_covers hn w.rights p row _ val sig room w.now
  | ref row to sig => exact opRef_covers hn w.rights p row to sig w.now
  | unref row to sig dsig => exact opUnref_covers hn hd w.rights p row to sig dsig w.now
  | del row dsig => exact opDel_covers hn w.rights p row _ dsig w.now


/-! ### synchronised rows and deletion records -/

theorem findId_some {r : Replica} {id : Nat} {n : Node} (h : r.findId id = some n) : n ∈ r.nodes ∧ n.id = id := by
  unfold Replica.findId at h
  have := List.find?_some h
  simp only [decide_eq_true_eq] at this
  exact ⟨List.mem_of_find?_eq_some h, this⟩

theorem findId_none {r : Replica} {id : Nat} (h : r.findId id = none) : ∀ x ∈ r.nodes, x.id ≠ id := by
  unfold Replica.findId at h
  intro x hx e
  have := List.find?_eq_none.mp h x hx
  simp [e] at this

theorem putNode_covers {r : Replica} (hn : IdsNodup r) (n : Node) (l : Option Node) (hl : r.findId n.id = l) :
    ∀ k, k ≠ nKey n → (∀ o, l = some o → k ≠ nKey o) →
      part nKey (·.sig) (putNode n r.nodes) k = part nKey (·.sig) r.nodes k := by
  intro k h1 h2
  unfold putNode
  cases l with
  | none =>
    have hno := findId_none hl
    have : r.nodes.any (fun x => x.id = n.id) = false := by
      rw [List.any_eq_false]; intro x hx; simpa using hno x hx
    simp only [this, Bool.false_eq_true, ↓reduceIte]
    rw [part_append, part_single_ne _ _ (fun z => h1 z.symm), List.append_nil]
  | some o =>
    obtain ⟨hm, hid⟩ := findId_some hl
    have : r.nodes.any (fun x => x.id = n.id) = true :=
      List.any_eq_true.mpr ⟨o, hm, by simp [hid]⟩
    simp only [this, ↓reduceIte]
    exact replace_part hn hm n hid.symm k (h2 o rfl) h1

/-- **a synchronised row keeps the invariant** (intended marks: the day of the row and the day of the version it
    replaces), `old` being the version stored locally -/
theorem ingestNode_winv {d : Defects} (hd : d.oldDayUnmarked = false) (rights : Rights) {r : Replica}
    (hn : IdsNodup r) (h : WInv r.sigs noPending r.log) (n : Node) (old : Option Node)
    (ho : r.findId n.id = old) (hent : ∀ o, old = some o → o.ent = n.ent) :
    WInv (ingestNode d rights r n old).sigs noPending (ingestNode d rights r n old).log := by
  unfold ingestNode
  split
  · have hc : Covers r { r with nodes := putNode n r.nodes } (kNode n.room n.ent n.mdate :: ingestOldMarks d n old) := by
      apply covers_of_parts
      intro k hk
      simp only [List.mem_cons, not_or] at hk
      refine ⟨rfl, rfl, ?_⟩
      refine putNode_covers hn n old ho k (fun e => hk.1 (by rw [e]; rfl)) ?_
      intro o ho' e
      apply hk.2
      subst ho'
      simp only [ingestOldMarks]
      split
      · rw [e]; simp [nKey, kNode, hent o rfl]
      · simp only [hd, Bool.false_eq_true, ↓reduceIte, List.mem_singleton]; rw [e]; rfl
    exact winv_step' h hc rfl
  · exact h

theorem ingestNode_idsNodup {d : Defects} (rights : Rights) {r : Replica} (hn : IdsNodup r) (n : Node)
    (old : Option Node) : IdsNodup (ingestNode d rights r n old) := by
  unfold ingestNode
  split
  · unfold IdsNodup putNode
    simp only
    split
    · have : (replaceNode n r.nodes).map (·.id) = r.nodes.map (·.id) := by
        unfold replaceNode
        rw [List.map_map]
        apply List.map_congr_left
        intro x _
        simp only [Function.comp]
        split
        · rename_i e; exact e.symm
        · rfl
      rw [this]; exact hn
    · rename_i hany
      rw [List.map_append, List.nodup_append]
      refine ⟨hn, by simp, ?_⟩
      intro a ha b hb
      simp only [List.map_cons, List.map_nil, List.mem_singleton] at hb
      subst hb
      intro e
      obtain ⟨x, hx, hxe⟩ := List.mem_map.mp ha
      apply hany
      exact List.any_eq_true.mpr ⟨x, hx, by simp [hxe, e]⟩
  · exact hn

/-- **a synchronised deletion record keeps the invariant** (intended: every version it removes has its day marked) -/
theorem applyNTombs_winv {d : Defects} (h1 : d.syncDeletionLocalDayUnmarked = false)
    (rights : Rights) {dst : Replica} (h : WInv dst.sigs noPending dst.log) (ts : List NTomb) :
    WInv (applyNTombs d rights dst ts).sigs noPending (applyNTombs d rights dst ts).log := by
  refine applyNTombs_induct d rights ts (fun r : Replica => WInv r.sigs noPending r.log) dst h ?_
  intro r t _ hr
  unfold applyNTomb
  simp only [h1, Bool.false_eq_true, ↓reduceIte]
  refine winv_step' (r := r) (marks := [kNode t.room t.ent t.ddate, kNode t.room t.ent t.mdate] ++
    (r.nodes.filter fun n => n.id = t.id && (!d.syncDeletionRoomScoped || n.room = t.room)).map
      fun n => kNode n.room n.ent n.mdate) hr ?_ rfl
  apply covers_of_parts
  intro k hk
  simp only [List.mem_append, List.mem_cons, List.not_mem_nil, or_false, not_or] at hk
  refine ⟨?_, rfl, ?_⟩
  · apply putNTomb_part
    intro e; apply hk.1.1; rw [e]; rfl
  · apply part_filter
    intro x hx hp
    intro e
    apply hk.2
    refine List.mem_map.mpr ⟨x, List.mem_filter.mpr ⟨hx, ?_⟩, by rw [← e]; rfl⟩
    cases hb : (decide (x.id = t.id) && (!d.syncDeletionRoomScoped || decide (x.room = t.room))) with
    | true => rfl
    | false => simp [hb] at hp

end Discret.Sync
