import DiscretModel.Lemmas.RoomMerge
/-
C10 — SUCCESS of the import of a room by an instance that never saw it (`prepare_new_room`), for definitions built by
accepted local room mutations.

`prepare_new_room` replays the exported rows (ascending dates: always succeeds) and then asks, for EVERY entry and
every group row, that its author be admin of the final room at the entry's date. `Entitled` is that condition on the
exporter's side; it is kept by a local mutation whose date lies after every date the room holds (past stability of
`isAdmin`) and whose caller is admin of the room as it stands after the mutation — which `validate` guarantees whenever
the mutation adds an admin, a right, a user admin or (with the repair of `groupCreationUnchecked`) a group
(`validate_admin_of_need`); the remaining case is a mutation that only adds users through the user-admin rule.
-/
namespace Discret.RoomBuild
open Discret.Room

/-- `Q author date` holds for every entry row and every group row of the stored room -/
structure AllEntries (Q : Key → Int → Prop) (rr : RoomRow) : Prop where
  admins : ∀ u ∈ rr.admins, Q u.author u.date
  groups : ∀ g ∈ rr.groups, Q g.author g.mdate ∧ (∀ u ∈ g.users, Q u.author u.date) ∧
    (∀ x ∈ g.rights, Q x.author x.date) ∧ (∀ u ∈ g.userAdmins, Q u.author u.date)

theorem AllEntries.mono {Q Q' : Key → Int → Prop} {rr : RoomRow} (h : AllEntries Q rr)
    (hq : ∀ k t, Q k t → Q' k t) : AllEntries Q' rr :=
  ⟨fun u hu => hq _ _ (h.admins u hu), fun g hg =>
    ⟨hq _ _ (h.groups g hg).1, fun u hu => hq _ _ ((h.groups g hg).2.1 u hu),
     fun x hx => hq _ _ ((h.groups g hg).2.2.1 x hx), fun u hu => hq _ _ ((h.groups g hg).2.2.2 u hu)⟩⟩

theorem mkUserRows_all {Q : Key → Int → Prop} {author : Key} {d : Int} (hq : Q author d) (n : Nat)
    (l : List (Key × Bool)) : ∀ u ∈ mkUserRows author d n l, Q u.author u.date := by
  induction l generalizing n with
  | nil => intro u hu; cases hu
  | cons p t ih =>
    obtain ⟨k, e⟩ := p
    intro u hu
    simp only [mkUserRows, List.mem_cons] at hu
    rcases hu with rfl | hu
    · exact hq
    · exact ih (n + 1) u hu

theorem mkRightRows_all {Q : Key → Int → Prop} {author : Key} {d : Int} (hq : Q author d) (n : Nat)
    (l : List (Ent × Bool × Bool)) : ∀ x ∈ mkRightRows author d n l, Q x.author x.date := by
  induction l generalizing n with
  | nil => intro u hu; cases hu
  | cons p t ih =>
    obtain ⟨e, s, a⟩ := p
    intro u hu
    simp only [mkRightRows, List.mem_cons] at hu
    rcases hu with rfl | hu
    · exact hq
    · exact ih (n + 1) u hu

/-- what holds of every group row and entry row of the groups -/
def GroupsAll (Q : Key → Int → Prop) (gs : List GroupRow) : Prop :=
  ∀ g ∈ gs, Q g.author g.mdate ∧ (∀ u ∈ g.users, Q u.author u.date) ∧
    (∀ x ∈ g.rights, Q x.author x.date) ∧ (∀ u ∈ g.userAdmins, Q u.author u.date)

theorem storeGroup_all {Q : Key → Int → Prop} {author : Key} {d : Int} (hq : Q author d) (n : Nat)
    {groups : List GroupRow} (h : GroupsAll Q groups) (g : GroupSpec) : GroupsAll Q (storeGroup author d n groups g) := by
  unfold storeGroup
  simp only
  split
  · intro x hx
    obtain ⟨y, hy, rfl⟩ := List.mem_map.mp hx
    split
    · obtain ⟨_, h2, h3, h4⟩ := h y hy
      refine ⟨hq, ?_, ?_, ?_⟩
      · intro u hu
        rcases List.mem_append.mp hu with hu | hu
        · exact h2 u hu
        · exact mkUserRows_all hq _ _ u hu
      · intro u hu
        rcases List.mem_append.mp hu with hu | hu
        · exact h3 u hu
        · exact mkRightRows_all hq _ _ u hu
      · intro u hu
        rcases List.mem_append.mp hu with hu | hu
        · exact h4 u hu
        · exact mkUserRows_all hq _ _ u hu
    · exact h y hy
  · intro x hx
    rcases List.mem_append.mp hx with hx | hx
    · exact h x hx
    · simp only [List.mem_singleton] at hx
      subst hx
      exact ⟨hq, mkUserRows_all hq _ _, mkRightRows_all hq _ _, mkUserRows_all hq _ _⟩

theorem storeGroups_all {Q : Key → Int → Prop} {author : Key} {d : Int} (hq : Q author d) (n : Nat)
    {groups : List GroupRow} (h : GroupsAll Q groups) (gs : List GroupSpec) :
    GroupsAll Q (storeGroups author d n groups gs) := by
  induction gs generalizing n groups with
  | nil => exact h
  | cons g t ih => exact ih _ (storeGroup_all hq n h g)

/-- every row a room mutation stores is a row that was stored before, or a row of the mutation: signed by the caller
    and dated by the mutation -/
theorem storeMutation_all {Q : Key → Int → Prop} {author : Key} {n : Nat} {m : MutSpec} (hq : Q author m.date)
    {old : Option RoomRow} (h : ∀ rr, old = some rr → AllEntries Q rr) :
    AllEntries Q (storeMutation author n old m) := by
  cases old with
  | none =>
    refine ⟨?_, ?_⟩
    · intro u hu
      simp only [storeMutation, List.nil_append] at hu
      exact mkUserRows_all hq _ _ u hu
    · simp only [storeMutation]
      exact storeGroups_all hq _ (by intro g hg; cases hg) _
  | some rr =>
    have hb := h rr rfl
    refine ⟨?_, ?_⟩
    · intro u hu
      simp only [storeMutation] at hu
      rcases List.mem_append.mp hu with hu | hu
      · exact hb.admins u hu
      · exact mkUserRows_all hq _ _ u hu
    · simp only [storeMutation]
      exact storeGroups_all hq _ hb.groups _

/-! ### `isAdmin` at earlier dates is not changed by a mutation -/

theorem enabledAt_append_later {l : List User} {news : List User} {d : Int} (h : ∀ u ∈ news, d < u.date) (k : Key) :
    enabledAt (l ++ news) k d = enabledAt l k d := by
  induction news generalizing l with
  | nil => simp
  | cons u t ih =>
    have hu : d < u.date := h u (by simp)
    have ht : ∀ x ∈ t, d < x.date := fun x hx => h x (by simp [hx])
    have e : l ++ u :: t = (l ++ [u]) ++ t := by simp
    rw [e, ih ht]
    simp only [enabledAt, lastAt_eq_glast]
    rw [glast_append_of_lt User.key User.date l u k hu]

/-- the admins of the room a mutation yields: those it had, then the entries of the mutation -/
theorem validate_admins {df : Defects} {r : Room} {caller : Key} {m : MutSpec} {room' : Room}
    (hnew : m.isNew = false) (h : validate df (some r) caller m = .ok room') :
    room'.admins = r.admins ++ m.admins.map (mkUser m.date) := by
  unfold validate at h
  simp only [hnew, Bool.false_eq_true, if_false] at h
  split at h
  · cases h
  · rename_i room hstart
    split at hstart
    · cases hstart
      split at h
      · cases h
      · rename_i room1 hadm
        split at h
        · cases h
        · rename_i room2 need hgs
          split at h
          · cases h
          · cases h
            obtain ⟨rfl, _⟩ := addAdminList_ok (liftErr_ok hadm)
            exact validateGroups_admins hgs
    · cases hstart
where
  validateGroups_admins {df : Defects} {caller : Key} {d : Int} {gs : List GroupSpec} {r r' : Room} {need need' : Bool}
      (h : validateGroups df caller d r need gs = .ok (r', need')) : r'.admins = r.admins := by
    induction gs generalizing r need with
    | nil => simp only [validateGroups, Except.ok.injEq, Prod.mk.injEq] at h; rw [← h.1]
    | cons g t ih =>
      simp only [validateGroups] at h
      split at h
      · cases h
      · rename_i r1 n1 h1
        rw [ih h]
        obtain ⟨a0, a', base, hcase, _, _, rfl⟩ := validateGroup_ok h1
        rcases hcase with ⟨_, rfl⟩ | ⟨_, _, rfl⟩ <;> rfl

theorem validate_admins_new {df : Defects} {mem : Option Room} {caller : Key} {m : MutSpec} {room' : Room}
    (hnew : m.isNew = true) (h : validate df mem caller m = .ok room') :
    room'.admins = m.admins.map (mkUser m.date) := by
  unfold validate at h
  simp only [hnew, if_true] at h
  split at h
  · cases h
  · rename_i room1 hadm
    split at h
    · cases h
    · rename_i room2 need hgs
      split at h
      · cases h
      · cases h
        obtain ⟨rfl, _⟩ := addAdminList_ok (liftErr_ok hadm)
        rw [validate_admins.validateGroups_admins hgs]
        simp

/-- **past stability of `isAdmin` over a whole mutation** -/
theorem validate_isAdmin_past {df : Defects} {r : Room} {caller : Key} {m : MutSpec} {room' : Room}
    (hnew : m.isNew = false) (h : validate df (some r) caller m = .ok room') {t : Int} (ht : t < m.date) (k : Key) :
    room'.isAdmin k t = r.isAdmin k t := by
  unfold Room.isAdmin
  rw [validate_admins hnew h]
  apply enabledAt_append_later
  intro u hu
  obtain ⟨p, _, rfl⟩ := List.mem_map.mp hu
  exact ht

/-! ### what `validate` guarantees about the caller -/

theorem validateGroups_need_mono {df : Defects} {caller : Key} {d : Int} {gs : List GroupSpec} {r r' : Room}
    {need need' : Bool} (h : validateGroups df caller d r need gs = .ok (r', need')) (hn : need = true) :
    need' = true := by
  subst hn
  exact validateGroups_need_true h

/-- a group of the mutation that carries a right or a user admin, or that the mutation creates (repaired rule),
    raises `need_room_admin` -/
theorem validateGroups_need_of {df : Defects} (hdf : df.groupCreationUnchecked = false) {caller : Key} {d : Int}
    {gs : List GroupSpec} {r r' : Room} {need need' : Bool}
    (h : validateGroups df caller d r need gs = .ok (r', need'))
    (hg : ∃ g ∈ gs, g.rights ≠ [] ∨ g.userAdmins ≠ [] ∨ g.isNew = true) (hnodup : (gs.map (·.gid)).Nodup)
    (hfresh : ∀ g ∈ gs, g.isNew = true → r.getAuth g.gid = none) : need' = true := by
  induction gs generalizing r need with
  | nil => obtain ⟨g, hg, _⟩ := hg; cases hg
  | cons g t ih =>
    simp only [validateGroups] at h
    split at h
    · cases h
    · rename_i r1 n1 h1
      obtain ⟨g0, hg0, hcase⟩ := hg
      rcases List.mem_cons.mp hg0 with rfl | hin
      · -- this group raises the flag
        have hn1 : n1 = true := by
          unfold validateGroup at h1
          simp only at h1
          split at h1
          · cases h1
          · split at h1
            · cases h1
            · split at h1
              · cases h1
              · split at h1
                · cases h1
                · simp only [Except.ok.injEq, Prod.mk.injEq] at h1
                  obtain ⟨_, hneed⟩ := h1
                  rw [← hneed]
                  rcases hcase with hc | hc | hc
                  · cases hr : g0.rights with
                    | nil => exact absurd hr hc
                    | cons _ _ => simp
                  · cases hr : g0.userAdmins with
                    | nil => exact absurd hr hc
                    | cons _ _ => simp
                  · have := hfresh g0 (List.mem_cons_self ..) hc
                    simp [this, hdf]
        exact validateGroups_need_mono h (by simp [hn1])
      · apply ih h ⟨g0, hin, hcase⟩ (List.nodup_cons.mp hnodup).2
        intro x hx hxn
        -- the group `x` is still absent after the first group was handled: their ids differ
        have hne : x.gid ≠ g.gid := by
          intro e
          have : g.gid ∈ t.map (·.gid) := by rw [← e]; exact List.mem_map.mpr ⟨x, hx, rfl⟩
          exact (List.nodup_cons.mp hnodup).1 this
        have hx0 := hfresh x (List.mem_cons_of_mem _ hx) hxn
        obtain ⟨a0, a', base, hc, ha', _, rfl⟩ := validateGroup_ok h1
        have hid : a'.id = g.gid := by
          rw [ha']
          rcases hc with ⟨hg1, _⟩ | ⟨_, rfl, _⟩
          · exact (getAuth_some hg1).2
          · rfl
        rw [getAuth_setAuth]
        rcases hc with ⟨_, rfl⟩ | ⟨_, ha0, rfl⟩
        · simp only [hx0]; rfl
        · have : ({ r with auths := r.auths ++ [a0] } : Room).getAuth x.gid = none := by
            unfold Room.getAuth at hx0 ⊢
            simp only [List.find?_append, hx0, Option.none_or]
            have : a0.id ≠ x.gid := by rw [ha0]; exact fun e => hne e.symm
            simp [List.find?, this]
          simp only [this]; rfl

/-! ### the export of an entitled room is accepted by an instance that never saw it -/

theorem newRoomEntitled_of {room : Room} {c : RoomRow} (h : AllEntries (fun k t => room.isAdmin k t = true) c) :
    newRoomEntitled room c = true := by
  unfold newRoomEntitled
  simp only [Bool.and_eq_true, List.all_eq_true]
  refine ⟨fun u hu => h.admins u hu, fun g hg => ?_⟩
  obtain ⟨h1, h2, h3, h4⟩ := h.groups g hg
  exact ⟨⟨⟨h1, fun u hu => h2 u hu⟩, fun x hx => h3 x hx⟩, fun u hu => h4 u hu⟩

theorem allEntries_readRoom {Q : Key → Int → Prop} (nf : Bool) (t : TieOrder) {rr : RoomRow} (h : AllEntries Q rr) :
    AllEntries Q (readRoom nf t rr) := by
  refine ⟨?_, ?_⟩
  · intro u hu
    exact h.admins u ((readUsers_perm nf t rr.admins).mem_iff.mp hu)
  · intro g hg
    simp only [readRoom, List.mem_map] at hg
    obtain ⟨g0, hg0, rfl⟩ := hg
    obtain ⟨h1, h2, h3, h4⟩ := h.groups g0 hg0
    refine ⟨h1, ?_, ?_, ?_⟩
    · intro u hu; exact h2 u ((readUsers_perm nf t g0.users).mem_iff.mp hu)
    · intro x hx; exact h3 x ((readRights_perm nf t g0.rights).mem_iff.mp hx)
    · intro u hu; exact h4 u ((readUsers_perm nf t g0.userAdmins).mem_iff.mp hu)

theorem allEntries_groupsByUid {Q : Key → Int → Prop} (b : Bool) {rr : RoomRow} (h : AllEntries Q rr) :
    AllEntries Q (groupsByUid b rr) :=
  ⟨h.admins, fun g hg => h.groups g ((groupsByUid_perm b rr).mem_iff.mp hg)⟩

theorem allEntries_export {Q : Key → Int → Prop} (df : Defects) (b : Bool) {rr : RoomRow} (h : AllEntries Q rr) :
    AllEntries Q (groupsByUid b (exportRoom df rr)) :=
  allEntries_groupsByUid b (allEntries_groupsByUid _ (allEntries_readRoom _ _ h))

/-- the replay of an export in ascending date order succeeds -/
theorem parse_export_ok {df : Defects} (hnf : df.newestFirstReplay = false) (b : Bool) {rr : RoomRow}
    (hn : (rr.groups.map (·.gid)).Nodup) : ∃ r, parseRoom false (groupsByUid b (exportRoom df rr)) = .ok r := by
  apply parseRoom_of_wf
  · have hp : ((groupsByUid b (exportRoom df rr)).groups.map (·.gid)).Perm (rr.groups.map (·.gid)) := by
      have h1 := (groupsByUid_perm b (exportRoom df rr)).map (·.gid)
      have h2 := (groupsByUid_perm df.uidOrderReversed (readRoom df.newestFirstReplay (.uid df.uidOrderReversed) rr)).map (·.gid)
      have h3 := readRoom_gids df.newestFirstReplay (.uid df.uidOrderReversed) rr
      exact h1.trans (h2.trans (by rw [h3]))
    exact hp.nodup_iff.mpr hn
  · show UserWF ((readUsers df.newestFirstReplay (.uid df.uidOrderReversed) rr.admins).map UserRow.toUser)
    rw [hnf]
    exact userWF_of_asc (readUsers_asc _ rr.admins)
  · intro g hg
    have h1 := (groupsByUid_perm b (exportRoom df rr)).mem_iff.mp hg
    have h2 := (groupsByUid_perm df.uidOrderReversed (readRoom df.newestFirstReplay (.uid df.uidOrderReversed) rr)).mem_iff.mp h1
    simp only [readRoom, List.mem_map] at h2
    obtain ⟨g0, _, rfl⟩ := h2
    rw [hnf]
    exact sortGroup_asc_ordered false _ g0

/-- **the import of an entitled room by an instance that never saw it succeeds** -/
theorem import_new_succeeds {df : Defects} (hnf : df.newestFirstReplay = false) {src : Site} (hinv : SiteInv src)
    (hd : src.dead = false) {rid : Id} {r : Room} {rr : RoomRow} (hm : src.getMem rid = some r)
    (hs : src.getStored rid = some rr) (hent : AllEntries (fun k t => r.isAdmin k t = true) rr)
    (ht : TiesHarmless rr) {dst : Site} (hdd : dst.dead = false) (hnone : dst.getMem rid = none) :
    ∃ cand dst', src.export df rid = .ok cand ∧ dst.importRoom df cand = .ok dst' := by
  obtain ⟨rr', hs', ha, hw⟩ := hinv.agree _ _ hm
  rw [hs] at hs'; cases hs'
  have hcid : (exportRoom df rr).rid = rid := by show rr.rid = rid; exact getStored_some hs
  refine ⟨exportRoom df rr, ?_⟩
  have hexp : src.export df rid = .ok (exportRoom df rr) := by
    unfold Site.export; simp [hd, hs]
  obtain ⟨r2, hp2⟩ := parse_export_ok hnf df.uidOrderReversed (agreesOrd_gids_nodup ha hw)
  obtain ⟨ha2, hw2, _⟩ := parseRoom_agreesOrd hp2
  have hsr : SameRows rr (groupsByUid df.uidOrderReversed (exportRoom df rr)) :=
    (exportRoom_sameRows df rr).symm.trans
      (sameRows_of_groups_perm (x := groupsByUid df.uidOrderReversed (exportRoom df rr))
        (y := exportRoom df rr) rfl (groupsByUid_perm _ _)).symm
  have hent2 : AllEntries (fun k t => r2.isAdmin k t = true) (groupsByUid df.uidOrderReversed (exportRoom df rr)) := by
    refine (allEntries_export df df.uidOrderReversed hent).mono ?_
    intro k t hk
    rw [← (sameAt_of_agrees ha.agrees ha2.agrees hsr hw hw2 ht t).admin k]; exact hk
  have hprep : prepareNewRoom (groupsByUid df.uidOrderReversed (exportRoom df rr)) = .ok r2 := by
    unfold prepareNewRoom
    rw [hp2]
    simp [liftErr, newRoomEntitled_of hent2]
  have himp : dst.importRoom df (exportRoom df rr) =
      .ok (((dst.setStored (groupsByUid df.uidOrderReversed (exportRoom df rr))).setMem r2).noteInserted
        (groupsByUid df.uidOrderReversed (exportRoom df rr))) := by
    unfold Site.importRoom
    simp only [hdd, Bool.false_eq_true, if_false, hcid, hnone, hprep]
  exact ⟨_, hexp, himp⟩

/-- a mutation without admin entries and without groups stores nothing new -/
theorem storeMutation_all_empty {Q : Key → Int → Prop} {author : Key} {n : Nat} {m : MutSpec}
    (ha : m.admins = []) (hg : m.groups = []) {old : Option RoomRow} (h : ∀ rr, old = some rr → AllEntries Q rr) :
    AllEntries Q (storeMutation author n old m) := by
  cases old with
  | none =>
    refine ⟨?_, ?_⟩
    · intro u hu; simp [storeMutation, ha, mkUserRows] at hu
    · intro g hg'; simp [storeMutation, hg, storeGroups] at hg'
  | some rr =>
    have hb := h rr rfl
    refine ⟨?_, ?_⟩
    · intro u hu
      simp only [storeMutation, ha, mkUserRows, List.append_nil] at hu
      exact hb.admins u hu
    · intro g hg'
      simp only [storeMutation, hg, storeGroups] at hg'
      exact hb.groups g hg'

/-- **an existing room: the caller of an accepted mutation is admin of the room before AND after it** (the first
    thing `validate_room_mutation` checks is that the caller is admin; an admin entry it adds raises
    `need_room_admin`, which is checked on the resulting room) -/
theorem validate_existing_admin {df : Defects} {r : Room} {caller : Key} {m : MutSpec} {room' : Room}
    (hnew : m.isNew = false) (h : validate df (some r) caller m = .ok room') :
    room'.isAdmin caller m.date = true := by
  have hadm := validate_admins hnew h
  cases hm : m.admins with
  | nil =>
    rw [hm] at hadm
    unfold Room.isAdmin
    rw [hadm]
    simp only [List.map_nil, List.append_nil]
    unfold validate at h
    simp only [hnew, Bool.false_eq_true, if_false] at h
    cases hb : r.isAdmin caller m.date with
    | true => exact hb
    | false => simp [hb] at h
  | cons x t =>
    unfold validate at h
    simp only at h
    split at h
    · cases h
    · split at h
      · cases h
      · split at h
        · cases h
        · rename_i room2 need hgs
          have hneed : need = true := by
            have hstart : (!m.admins.isEmpty) = true := by rw [hm]; rfl
            rw [hstart] at hgs
            exact validateGroups_need_true hgs
          split at h
          · cases h
          · rename_i hc
            cases h
            rw [hneed] at hc
            simpa using hc

/-- **a new room (repaired rule for group creation): the creator is admin of what it creates, or creates a room
    without any entry** -/
theorem validate_new_admin_or_empty {df : Defects} (hdf : df.groupCreationUnchecked = false) {mem : Option Room}
    {caller : Key} {m : MutSpec} {room' : Room} (hnew : m.isNew = true) (h : validate df mem caller m = .ok room') :
    room'.isAdmin caller m.date = true ∨ (m.admins = [] ∧ m.groups = []) := by
  unfold validate at h
  simp only [hnew, if_true] at h
  split at h
  · cases h
  · rename_i room1 hadm
    split at h
    · cases h
    · rename_i room2 need hgs
      have hchk : need = true → room2.isAdmin caller m.date = true := by
        intro hn
        split at h
        · cases h
        · rename_i hc; rw [hn] at hc; simpa using hc
      have hr' : room' = room2 := by
        split at h
        · cases h
        · cases h; rfl
      rw [hr']
      cases hm : m.admins with
      | cons x t =>
        left
        apply hchk
        have hstart : (!m.admins.isEmpty) = true := by rw [hm]; rfl
        rw [hstart] at hgs
        exact validateGroups_need_true hgs
      | nil =>
        cases hg : m.groups with
        | nil => exact Or.inr ⟨rfl, rfl⟩
        | cons g t =>
          left
          apply hchk
          rw [hg] at hgs
          simp only [validateGroups] at hgs
          split at hgs
          · cases hgs
          · rename_i r1 n1 h1
            have hn1 : n1 = true := by
              obtain ⟨rfl, _⟩ := addAdminList_ok (liftErr_ok hadm)
              unfold validateGroup at h1
              simp only at h1
              split at h1
              · cases h1
              · split at h1
                · cases h1
                · split at h1
                  · cases h1
                  · split at h1
                    · cases h1
                    · simp only [Except.ok.injEq, Prod.mk.injEq] at h1
                      obtain ⟨_, hneed⟩ := h1
                      rw [← hneed]
                      simp [hdf, Room.getAuth]
            exact validateGroups_need_mono hgs (by simp [hn1])

/-! ### histories of accepted local room mutations -/

/-- every entry row and every group row of every stored room is signed by a key that is admin, at the row's date, of
    the room as the instance holds it -/
def SiteEntitled (s : Site) : Prop :=
  ∀ rid r rr, s.getMem rid = some r → s.getStored rid = some rr → AllEntries (fun k t => r.isAdmin k t = true) rr

/-- **one accepted local mutation keeps every stored row entitled**, when its date lies after every date the room
    holds (the caller is then admin of the room as it stands after the mutation, or nothing is stored) -/
theorem siteEntitled_mutate {df : Defects} (hdf : df.groupCreationUnchecked = false) {s s' : Site} (hi : SiteInv s)
    (he : SiteEntitled s) {caller : Key} {n : Nat} {m : MutSpec} (h : s.mutate df caller n m = .ok s')
    (hdates : ∀ rr, s.getStored m.rid = some rr → AllEntries (fun _ t => t < m.date) rr) : SiteEntitled s' := by
  unfold Site.mutate at h
  split at h
  · cases h
  · simp only at h
    split at h
    · cases h
    · split at h
      · cases h
      · rename_i room hv
        cases h
        have hrid : (storeMutation caller n (if m.isNew then none else s.getStored m.rid) m).rid = room.id := by
          have hinv : if m.isNew then (if m.isNew then none else s.getStored m.rid) = none
              else ∃ r rr, s.getMem m.rid = some r ∧ (if m.isNew then none else s.getStored m.rid) = some rr ∧
                AgreesOrd r rr ∧ r.WF ∧ r.id = rr.rid := by
            by_cases hnew : m.isNew
            · simp [hnew]
            · simp only [hnew, Bool.false_eq_true, if_false]
              cases hm : s.getMem m.rid with
              | none =>
                exfalso
                unfold validate at hv
                simp only [hnew, Bool.false_eq_true, if_false, hm] at hv
                cases hv
              | some r =>
                obtain ⟨rr, hs, ha, hw⟩ := hi.agree _ _ hm
                exact ⟨r, rr, rfl, hs, ha, hw, (getMem_some hm).trans (getStored_some hs).symm⟩
          exact (validate_agrees (n := n) hinv hv).2.2.symm
        have hroomid : room.id = m.rid := by
          rw [← hrid]
          by_cases hnew : m.isNew
          · simp [hnew, storeMutation]
          · simp only [hnew, Bool.false_eq_true, if_false]
            cases hst : s.getStored m.rid with
            | none => simp [storeMutation]
            | some rr => simp only [storeMutation]; exact getStored_some hst
        intro rid r rr hm hs
        rw [getMem_noteInserted, getMem_setMem, getMem_setStored] at hm
        rw [getStored_noteInserted, getStored_setMem, getStored_setStored] at hs
        by_cases hrm : rid = m.rid
        · -- the mutated room
          subst hrm
          rw [hroomid] at hm
          rw [hrid, hroomid] at hs
          simp only [if_true] at hm hs
          cases hm; cases hs
          have hbase : ∀ rr0, (if m.isNew then none else s.getStored m.rid) = some rr0 →
              AllEntries (fun k t => room.isAdmin k t = true) rr0 := ?_
          · by_cases hnew : m.isNew
            · rcases validate_new_admin_or_empty hdf (by simpa using hnew) hv with hq | ⟨e1, e2⟩
              · exact storeMutation_all (Q := fun k t => room.isAdmin k t = true) hq hbase
              · exact storeMutation_all_empty e1 e2 hbase
            · have hnew' : m.isNew = false := by simpa using hnew
              cases hmem : s.getMem m.rid with
              | none =>
                exfalso
                unfold validate at hv
                simp only [hnew, Bool.false_eq_true, if_false, hmem] at hv
                cases hv
              | some r0 =>
                rw [hmem] at hv
                exact storeMutation_all (Q := fun k t => room.isAdmin k t = true)
                  (validate_existing_admin hnew' hv) hbase
          intro rr0 hrr0
          by_cases hnew : m.isNew
          · simp [hnew] at hrr0
          · simp only [hnew, Bool.false_eq_true, if_false] at hrr0
            have hnew' : m.isNew = false := by simpa using hnew
            cases hmem : s.getMem m.rid with
            | none =>
              exfalso
              unfold validate at hv
              simp only [hnew, Bool.false_eq_true, if_false, hmem] at hv
              cases hv
            | some r0 =>
              rw [hmem] at hv
              have h0 := he m.rid r0 rr0 hmem hrr0
              have hd := hdates rr0 hrr0
              refine ⟨?_, ?_⟩
              · intro u hu
                rw [validate_isAdmin_past hnew' hv (hd.admins u hu)]; exact h0.admins u hu
              · intro g hg
                obtain ⟨a1, a2, a3, a4⟩ := h0.groups g hg
                obtain ⟨d1, d2, d3, d4⟩ := hd.groups g hg
                refine ⟨?_, ?_, ?_, ?_⟩
                · rw [validate_isAdmin_past hnew' hv d1]; exact a1
                · intro u hu; rw [validate_isAdmin_past hnew' hv (d2 u hu)]; exact a2 u hu
                · intro x hx; rw [validate_isAdmin_past hnew' hv (d3 x hx)]; exact a3 x hx
                · intro u hu; rw [validate_isAdmin_past hnew' hv (d4 u hu)]; exact a4 u hu
        · -- another room: untouched
          have h1 : ¬ rid = room.id := by rw [hroomid]; exact hrm
          have h2 : ¬ rid = (storeMutation caller n (if m.isNew then none else s.getStored m.rid) m).rid := by
            rw [hrid]; exact h1
          simp only [h1, if_false] at hm
          simp only [h2, if_false] at hs
          exact he rid r rr hm hs

/-- **what `validate_room_mutation` guarantees about the caller** (with the repaired rule for group creation): a
    mutation that adds an admin entry, a right, a user admin or a group is accepted only from a caller that is admin
    of the room as it stands after the mutation. (What is left: mutations that only add users to existing groups —
    the user-admin rule — or nothing.) -/
theorem validate_admin_of_need {df : Defects} (hdf : df.groupCreationUnchecked = false) {mem : Option Room}
    {caller : Key} {m : MutSpec} {room' : Room} (h : validate df mem caller m = .ok room')
    (hnodup : (m.groups.map (·.gid)).Nodup)
    (hfresh : ∀ g ∈ m.groups, g.isNew = true → ∀ r, m.isNew = false → mem = some r → r.getAuth g.gid = none)
    (hneed : m.admins ≠ [] ∨ ∃ g ∈ m.groups, g.rights ≠ [] ∨ g.userAdmins ≠ [] ∨ g.isNew = true) :
    room'.isAdmin caller m.date = true := by
  unfold validate at h
  simp only at h
  split at h
  · cases h
  · rename_i room hstart
    split at h
    · cases h
    · rename_i room1 hadm
      split at h
      · cases h
      · rename_i room2 need hgs
        have hneedT : need = true := by
          rcases hneed with hA | hG
          · have hstartB : (!m.admins.isEmpty) = true := by
              cases hm : m.admins with
              | nil => exact absurd hm hA
              | cons _ _ => rfl
            rw [hstartB] at hgs
            exact validateGroups_need_true hgs
          · apply validateGroups_need_of hdf hgs hG hnodup
            intro g hg hgn
            obtain ⟨rfl, _⟩ := addAdminList_ok (liftErr_ok hadm)
            show room.auths.find? (·.id = g.gid) = none
            by_cases hnew : m.isNew
            · simp only [hnew, if_true] at hstart
              cases hstart; rfl
            · simp only [hnew, Bool.false_eq_true, if_false] at hstart
              cases hmem : mem with
              | none => rw [hmem] at hstart; cases hstart
              | some r =>
                rw [hmem] at hstart
                simp only at hstart
                split at hstart
                · cases hstart
                  exact hfresh g hg hgn _ (by simpa using hnew) hmem
                · cases hstart
        split at h
        · cases h
        · rename_i hc
          cases h
          rw [hneedT] at hc
          simpa using hc

/-! ### a room mutation names only groups of the mutated room -/

/-- **`validate_authorisation_mutation` refuses a group id that is not one of the room's** (authorisation_service.rs:
    `None => match old_node { Some(_) => NotBelongsTo …`): a `sys.Authorisation` entity named by id (an existing row)
    that the room being mutated does not hold — the group of another room, for instance -/
theorem validateGroup_foreign {df : Defects} {caller : Key} {d : Int} {room : Room} {g : GroupSpec}
    (hold : g.isNew = false) (habs : room.getAuth g.gid = none) :
    validateGroup df caller d room g = .error .notBelongs := by
  unfold validateGroup
  simp [habs, hold]

/-- every group an accepted mutation names as an existing one is a group of the room, or was created earlier in the
    same mutation -/
theorem validateGroups_belongs {df : Defects} {caller : Key} {d : Int} {gs : List GroupSpec} {r r' : Room}
    {need need' : Bool} (h : validateGroups df caller d r need gs = .ok (r', need')) :
    ∀ g ∈ gs, g.isNew = false → (r.getAuth g.gid).isSome = true ∨ ∃ g' ∈ gs, g'.isNew = true ∧ g'.gid = g.gid := by
  induction gs generalizing r need with
  | nil => intro g hg; cases hg
  | cons g0 t ih =>
    simp only [validateGroups] at h
    split at h
    · cases h
    · rename_i r1 n1 h1
      intro g hg hold
      rcases List.mem_cons.mp hg with rfl | hin
      · left
        cases hga : r.getAuth g.gid with
        | some a => rfl
        | none => rw [validateGroup_foreign hold hga] at h1; cases h1
      · rcases ih h g hin hold with hs | ⟨g', hg', hn, he⟩
        · obtain ⟨a0, a', base, hc, _, _, rfl⟩ := validateGroup_ok h1
          rw [getAuth_setAuth] at hs
          rcases hc with ⟨_, hbase⟩ | ⟨hnone, ha0, hbase⟩
          · left
            subst hbase
            cases hb : base.getAuth g.gid with
            | some _ => rfl
            | none => rw [hb] at hs; cases hs
          · subst hbase
            cases hb : r.getAuth g.gid with
            | some _ => exact Or.inl rfl
            | none =>
              right
              refine ⟨g0, List.mem_cons_self .., ?_, ?_⟩
              · cases hn0 : g0.isNew with
                | true => rfl
                | false => rw [validateGroup_foreign hn0 hnone] at h1; cases h1
              · -- the group found in the extended room is the one just created
                have : ({ r with auths := r.auths ++ [a0] } : Room).getAuth g.gid =
                    (if a0.id = g.gid then some a0 else none) := by
                  unfold Room.getAuth at hb ⊢
                  simp only [List.find?_append, hb, Option.none_or]
                  by_cases e : a0.id = g.gid <;> simp [List.find?, e]
                rw [this] at hs
                by_cases e : a0.id = g.gid
                · rw [ha0] at e; exact e
                · simp [e] at hs
        · exact Or.inr ⟨g', List.mem_cons_of_mem _ hg', hn, he⟩

/-- **a mutation of one room leaves every other room as it is, in storage and in memory** -/
theorem mutate_other_rooms {df : Defects} {s s' : Site} (hi : SiteInv s) {caller : Key} {n : Nat} {m : MutSpec}
    (h : s.mutate df caller n m = .ok s') {rid : Id} (hne : rid ≠ m.rid) :
    s'.getStored rid = s.getStored rid ∧ s'.getMem rid = s.getMem rid := by
  unfold Site.mutate at h
  split at h
  · cases h
  · simp only at h
    split at h
    · cases h
    · split at h
      · cases h
      · rename_i room hv
        cases h
        have hinv : if m.isNew then (if m.isNew then none else s.getStored m.rid) = none
            else ∃ r rr, s.getMem m.rid = some r ∧ (if m.isNew then none else s.getStored m.rid) = some rr ∧
              AgreesOrd r rr ∧ r.WF ∧ r.id = rr.rid := by
          by_cases hnew : m.isNew
          · simp [hnew]
          · simp only [hnew, Bool.false_eq_true, if_false]
            cases hm : s.getMem m.rid with
            | none =>
              exfalso
              unfold validate at hv
              simp only [hnew, Bool.false_eq_true, if_false, hm] at hv
              cases hv
            | some r =>
              obtain ⟨rr, hs, ha, hw⟩ := hi.agree _ _ hm
              exact ⟨r, rr, rfl, hs, ha, hw, (getMem_some hm).trans (getStored_some hs).symm⟩
        have hrid : (storeMutation caller n (if m.isNew then none else s.getStored m.rid) m).rid = room.id :=
          (validate_agrees (n := n) hinv hv).2.2.symm
        have hroomid : room.id = m.rid := by
          rw [← hrid]
          by_cases hnew : m.isNew
          · simp [hnew, storeMutation]
          · simp only [hnew, Bool.false_eq_true, if_false]
            cases hst : s.getStored m.rid with
            | none => simp [storeMutation]
            | some rr => simp only [storeMutation]; exact getStored_some hst
        have h1 : ¬ rid = room.id := by rw [hroomid]; exact hne
        have h2 : ¬ rid = (storeMutation caller n (if m.isNew then none else s.getStored m.rid) m).rid := by
          rw [hrid]; exact h1
        constructor
        · rw [getStored_noteInserted, getStored_setMem, getStored_setStored]; simp only [h2, if_false]
        · rw [getMem_noteInserted, getMem_setMem, getMem_setStored]; simp only [h1, if_false]

end Discret.RoomBuild
