import DiscretModel.Lemmas.SyncRefinePull
import DiscretModel.Lemmas.SyncConverge
import DiscretModel.Lemmas.DailyLogSpec

/-! # C03 — refinement, a whole pull with both logs recomputed: `synchronise_room` = join with the source's room -/

namespace Discret.Sync
open Discret.DailyLog Discret.SyncOrder

/-! ### algebra: skipping the days the puller already covers -/

def joinSlices (src : Replica) (room : Nat) (l : List (Nat × Nat)) : ARep :=
  joinAll (l.map fun x => abs (slice src room x.1 x.2))

theorem joinDays_eq (src : Replica) (room : Nat) (l : List (Nat × Nat)) :
    ∀ {a : ARep}, a.WF → joinDays src room l a = join a (joinSlices src room l) := by
  induction l with
  | nil =>
    intro a ha
    simp only [joinDays, joinSlices, List.foldl_nil, List.map_nil, joinAll]
    rw [join_comm, join_empty_left ha]
  | cons x t ih =>
    intro a ha
    have := ih (a := join a (abs (slice src room x.1 x.2))) (join_wf _ _)
    simp only [joinDays, List.foldl_cons, joinSlices, List.map_cons, joinAll] at this ⊢
    rw [this, join_assoc]

theorem join_left_comm (a b c : ARep) : join a (join b c) = join b (join a c) := by
  rw [← join_assoc, join_comm a b, join_assoc]

theorem join_skip (src : Replica) (room : Nat) (p : Nat × Nat → Bool) {a : ARep}
    (l : List (Nat × Nat)) (hskip : ∀ x ∈ l, p x = false → le (abs (slice src room x.1 x.2)) a) :
    join a (joinSlices src room (l.filter p)) = join a (joinSlices src room l) := by
  induction l with
  | nil => rfl
  | cons x t ih =>
    have iht := ih (fun y hy => hskip y (List.mem_cons_of_mem _ hy))
    cases hp : p x with
    | true =>
      rw [List.filter_cons_of_pos (by simp [hp])]
      simp only [joinSlices, List.map_cons, joinAll] at iht ⊢
      rw [join_left_comm, iht, join_left_comm]
    | false =>
      rw [List.filter_cons_of_neg (by simp [hp])]
      have hle : join (abs (slice src room x.1 x.2)) a = a := hskip x List.mem_cons_self hp
      simp only [joinSlices, List.map_cons, joinAll] at iht ⊢
      rw [iht, join_left_comm, ← join_assoc, hle]

/-! ### lookups in a specification table -/

theorem mem_specRowsFrom {sigs : Content} {room ent : Nat} (days : List Nat) :
    ∀ (prev : Option (Hash × Option Hash)) (r : DayRow), r ∈ specRowsFrom sigs room ent prev days →
      r.daily = dailyOf (sigs room ent r.day) := by
  induction days with
  | nil => intro prev r h; cases h
  | cons dd t ih =>
    intro prev r h
    simp only [specRowsFrom] at h
    rcases List.mem_cons.mp h with e | e
    · subst e; rfl
    · exact ih _ r e

theorem isLogOf_daily {sigs : Content} {log : Log} (h : IsLogOf sigs log) {g : Group} (hg : g ∈ log)
    {r : DayRow} (hr : r ∈ g.rows) : r.daily = dailyOf (sigs g.room g.ent r.day) ∧ sigs g.room g.ent r.day ≠ [] := by
  obtain ⟨_, h2, h3⟩ := h.rows g hg
  refine ⟨?_, h2 r hr⟩
  rw [h3] at hr
  exact mem_specRowsFrom _ _ r hr

theorem mem_insertByDayEnt (x y : FlatRow) (l : List FlatRow) : y ∈ insertByDayEnt x l ↔ y = x ∨ y ∈ l := by
  induction l with
  | nil => simp [insertByDayEnt]
  | cons a t ih =>
    simp only [insertByDayEnt]
    split
    · simp
    · simp only [List.mem_cons, ih]
      constructor
      · rintro (h | h | h)
        · exact Or.inr (Or.inl h)
        · exact Or.inl h
        · exact Or.inr (Or.inr h)
      · rintro (h | h | h)
        · exact Or.inr (Or.inl h)
        · exact Or.inl h
        · exact Or.inr (Or.inr h)

theorem mem_foldr_insert (l : List FlatRow) (y : FlatRow) : y ∈ l.foldr insertByDayEnt [] ↔ y ∈ l := by
  induction l with
  | nil => simp
  | cons a t ih => simp only [List.foldr_cons, mem_insertByDayEnt, ih, List.mem_cons]

theorem mem_roomLog (r : Replica) (room : Nat) (y : FlatRow) :
    y ∈ roomLog r room ↔ y.room = room ∧ ∃ g ∈ r.log, ∃ w ∈ g.rows, y = { room := g.room, ent := g.ent, row := w } := by
  unfold roomLog
  rw [mem_foldr_insert, List.mem_filter]
  simp only [flatten, List.mem_flatMap, List.mem_map, decide_eq_true_eq]
  constructor
  · rintro ⟨⟨g, hg, w, hw, e⟩, hr⟩; exact ⟨hr, g, hg, w, hw, e.symm⟩
  · rintro ⟨hr, g, hg, w, hw, e⟩; exact ⟨⟨g, hg, w, hw, e.symm⟩, hr⟩

theorem findRow_some {log : Log} {k : Key} {l : DayRow} (h : findRow log k = some l) :
    ∃ g ∈ log, g.room = k.room ∧ g.ent = k.ent ∧ l ∈ g.rows ∧ l.day = k.day := by
  unfold findRow at h
  split at h
  · rename_i g hg
    have hm := List.mem_of_find?_eq_some hg
    have hp := List.find?_some hg
    simp only [findGroup] at hg
    simp only [Bool.and_eq_true, decide_eq_true_eq] at hp
    have hm' := List.mem_of_find?_eq_some h
    have hp' := List.find?_some h
    simp only [decide_eq_true_eq] at hp'
    exact ⟨g, hm, hp.1, hp.2, hm', hp'⟩
  · cases h

/-! ### the source's room as the join of its days -/

/-- the rows and node deletion records of one room -/
def inRoom (r : Replica) (room : Nat) : Replica :=
  { nodes := r.nodes.filter fun n => n.room = room, edges := [],
    ntombs := r.ntombs.filter fun t => t.room = room, etombs := [], log := [] }

theorem find_of_mem_nodup (l : List Node) (hn : (l.map (·.id)).Nodup) {n : Node} (h : n ∈ l) :
    l.find? (fun x => x.id = n.id) = some n := by
  induction l with
  | nil => cases h
  | cons a t ih =>
    rw [List.map_cons, List.nodup_cons] at hn
    rcases List.mem_cons.mp h with e | e
    · subst e; simp
    · have hne : a.id ≠ n.id := by
        intro e'
        exact hn.1 (List.mem_map.mpr ⟨n, e, e'.symm⟩)
      rw [List.find?_cons_of_neg (by simp [hne])]
      exact ih hn.2 e

theorem findId_of_mem {r : Replica} (hn : IdsNodup r) {n : Node} (h : n ∈ r.nodes) : r.findId n.id = some n :=
  find_of_mem_nodup r.nodes hn h

theorem mem_sigs_node {r : Replica} {n : Node} (h : n ∈ r.nodes) : n.sig ∈ r.sigs n.room n.ent (dayOf n.mdate) := by
  unfold Replica.sigs
  refine List.mem_append_right _ (List.mem_map.mpr ⟨n, List.mem_filter.mpr ⟨h, by simp⟩, rfl⟩)

theorem mem_sigs_ntomb {r : Replica} {t : NTomb} (h : t ∈ r.ntombs) : t.sig ∈ r.sigs t.room t.ent (dayOf t.ddate) := by
  unfold Replica.sigs
  refine List.mem_append_left _ (List.mem_append_left _ (List.mem_map.mpr ⟨t, List.mem_filter.mpr ⟨h, by simp⟩, rfl⟩))

/-- every `(entity, day)` of the room with content is a row of the room's log -/
theorem roomLog_covers {r : Replica} (hl : IsLogOf r.sigs r.log) {room ent day : Nat} (h : r.sigs room ent day ≠ []) :
    (ent, day) ∈ (roomLog r room).map fun x => (x.ent, x.row.day) := by
  obtain ⟨g, hg, hr, he, w, hw, hd⟩ := hl.covers room ent day h
  refine List.mem_map.mpr ⟨{ room := g.room, ent := g.ent, row := w }, ?_, by simp [he, hd]⟩
  exact (mem_roomLog r room _).mpr ⟨hr, g, hg, w, hw, rfl⟩

theorem inRoom_noZombie {r : Replica} (h : NoZombie r) (room : Nat) : NoZombie (inRoom r room) := by
  intro t ht n hn
  exact h t (List.mem_filter.mp ht).1 n (List.mem_filter.mp hn).1

theorem slice_noZombie {r : Replica} (h : NoZombie r) (room ent day : Nat) : NoZombie (slice r room ent day) := by
  intro t ht n hn
  exact h t (List.mem_filter.mp ht).1 n (List.mem_filter.mp hn).1

theorem abs_ver_some {r : Replica} {i : Nat} {v : Ver} (h : (abs r).ver i = some v) :
    ∃ n ∈ r.nodes, n.id = i ∧ v = (n.mdate, n.sig) := by
  simp only [abs] at h
  cases hf : r.findId i with
  | none => rw [hf] at h; cases h
  | some n =>
    rw [hf] at h
    obtain ⟨a, b⟩ := findId_some hf
    exact ⟨n, a, b, by simpa using h.symm⟩

theorem abs_ver_of_mem {r : Replica} (hn : IdsNodup r) {n : Node} (h : n ∈ r.nodes) :
    (abs r).ver n.id = some (n.mdate, n.sig) := by
  simp only [abs, findId_of_mem hn h, Option.map_some]

theorem inRoom_idsNodup {r : Replica} (h : IdsNodup r) (room : Nat) : IdsNodup (inRoom r room) :=
  filter_ids_nodup h _

theorem slice_idsNodup {r : Replica} (h : IdsNodup r) (room ent day : Nat) : IdsNodup (slice r room ent day) :=
  filter_ids_nodup h _

/-- **the room is the join of its days** -/
theorem joinSlices_room {src : Replica} (hz : NoZombie src) (hn : IdsNodup src) (hl : IsLogOf src.sigs src.log)
    (room : Nat) :
    joinSlices src room ((roomLog src room).map fun x => (x.ent, x.row.day)) = abs (inRoom src room) := by
  generalize hS : ((roomLog src room).map fun x => (x.ent, x.row.day)) = S
  have hcov : ∀ ent day, src.sigs room ent day ≠ [] → (ent, day) ∈ S := fun ent day h => hS ▸ roomLog_covers hl h
  have hwf : ∀ x ∈ S.map (fun x => abs (slice src room x.1 x.2)), x.WF := by
    intro x hx
    obtain ⟨k, _, e⟩ := List.mem_map.mp hx
    rw [← e]; exact abs_wf (slice_noZombie hz _ _ _)
  have hdead : ∀ i, (joinSlices src room S).dead i = (abs (inRoom src room)).dead i := by
    intro i
    unfold joinSlices
    rw [joinAll_dead, List.any_map]
    rw [Bool.eq_iff_iff]
    simp only [List.any_eq_true, Function.comp, abs, slice, inRoom, List.mem_filter, Bool.and_eq_true, decide_eq_true_eq]
    constructor
    · rintro ⟨k, _, t, ⟨ht, ⟨hr, _⟩, _⟩, e⟩; exact ⟨t, ⟨ht, hr⟩, e⟩
    · rintro ⟨t, ⟨ht, hr⟩, e⟩
      refine ⟨(t.ent, dayOf t.ddate), hcov _ _ ?_, t, ⟨ht, ⟨hr, rfl⟩, rfl⟩, e⟩
      intro he
      have := mem_sigs_ntomb ht
      rw [hr, he] at this; cases this
  apply ARep.ext'
  · intro i
    obtain ⟨v1, v2⟩ := joinAll_ver (S.map fun x => abs (slice src room x.1 x.2)) hwf i
    cases hd : (joinSlices src room S).dead i with
    | true =>
      have e1 : (joinSlices src room S).ver i = none := v1 hd
      have e2 : (abs (inRoom src room)).ver i = none :=
        abs_wf (inRoom_noZombie hz room) i (by rw [← hdead]; exact hd)
      rw [e1, e2]
    | false =>
      obtain ⟨w1, w2⟩ := v2 hd
      cases hR : (abs (inRoom src room)).ver i with
      | none =>
        cases hJ : (joinSlices src room S).ver i with
        | none => rfl
        | some w =>
          exfalso
          obtain ⟨x, hx, e⟩ := w1 w hJ
          obtain ⟨k, _, ek⟩ := List.mem_map.mp hx
          rw [← ek] at e
          obtain ⟨n, hnm, hid, _⟩ := abs_ver_some e
          have hnm' := List.mem_filter.mp hnm
          simp only [Bool.and_eq_true, decide_eq_true_eq] at hnm'
          have hin : n ∈ (inRoom src room).nodes := List.mem_filter.mpr ⟨hnm'.1, by simp [hnm'.2.1.1]⟩
          have := abs_ver_of_mem (inRoom_idsNodup hn room) hin
          rw [hid, hR] at this; cases this
      | some v =>
        obtain ⟨n, hnm, hid, hv⟩ := abs_ver_some hR
        have hnm' := List.mem_filter.mp hnm
        simp only [decide_eq_true_eq] at hnm'
        -- the day of that row is one of the days joined
        have hk : (n.ent, dayOf n.mdate) ∈ S := by
          apply hcov
          intro he
          have := mem_sigs_node hnm'.1
          rw [hnm'.2, he] at this; cases this
        have hsl : n ∈ (slice src room n.ent (dayOf n.mdate)).nodes :=
          List.mem_filter.mpr ⟨hnm'.1, by simp [hnm'.2]⟩
        have hsv := abs_ver_of_mem (slice_idsNodup hn room n.ent (dayOf n.mdate)) hsl
        rw [hid] at hsv
        obtain ⟨w, hw, _⟩ := w2 _ (List.mem_map.mpr ⟨(n.ent, dayOf n.mdate), hk, rfl⟩) _ hsv
        -- and the version shown comes from a row of the source with that id: the same row
        obtain ⟨x, hx, e⟩ := w1 w hw
        obtain ⟨k, _, ek⟩ := List.mem_map.mp hx
        rw [← ek] at e
        obtain ⟨m, hmm, hmid, hmv⟩ := abs_ver_some e
        have hmm' := (List.mem_filter.mp hmm).1
        have hmn : m = n := by
          have a := findId_of_mem hn hmm'
          have b := findId_of_mem hn hnm'.1
          rw [hmid] at a; rw [hid] at b
          rw [a] at b; exact Option.some.inj b
        show (joinSlices src room S).ver i = some v
        unfold joinSlices
        rw [hw, hmv, hv, hmn]
  · exact hdead
  · intro s
    unfold joinSlices
    have : ∀ (l : List ARep), (joinAll l).recs s = l.any (fun x => x.recs s) := by
      intro l
      induction l with
      | nil => rfl
      | cons a t ih => simp [joinAll, join, ih]
    rw [this, List.any_map]
    rw [Bool.eq_iff_iff]
    simp only [List.any_eq_true, Function.comp, abs, slice, inRoom, List.mem_filter, Bool.and_eq_true, decide_eq_true_eq]
    constructor
    · rintro ⟨k, _, t, ⟨ht, ⟨hr, _⟩, _⟩, e⟩; exact ⟨t, ⟨ht, hr⟩, e⟩
    · rintro ⟨t, ⟨ht, hr⟩, e⟩
      refine ⟨(t.ent, dayOf t.ddate), hcov _ _ ?_, t, ⟨ht, ⟨hr, rfl⟩, rfl⟩, e⟩
      intro he
      have := mem_sigs_ntomb ht
      rw [hr, he] at this; cases this


/-! ### a day whose daily hash the puller already shows -/

/-- a signature stands for the record it signs (the idealisation of Ed25519 stated in the trusted base): when the
    puller's content of some day holds the signature of a row or of a deletion record of the source, the puller
    stores that very row, resp. that very record -/
def SigsDetermine (dst src : Replica) : Prop :=
  (∀ n ∈ src.nodes, ∀ room ent day, n.sig ∈ dst.sigs room ent day → n ∈ dst.nodes) ∧
  (∀ t ∈ src.ntombs, ∀ room ent day, t.sig ∈ dst.sigs room ent day → t ∈ dst.ntombs)

/-- the source's day is below the puller when the puller's content of that day holds every signature of it -/
theorem slice_le {dst src : Replica} (hzd : NoZombie dst) (hnd : IdsNodup dst)
    (hsig : SigsDetermine dst src) (room ent day : Nat)
    (hsub : ∀ s ∈ src.sigs room ent day, s ∈ dst.sigs room ent day) :
    le (abs (slice src room ent day)) (abs dst) := by
  have hnode : ∀ n ∈ (slice src room ent day).nodes, n ∈ dst.nodes := by
    intro n hn
    have hn' := List.mem_filter.mp hn
    simp only [Bool.and_eq_true, decide_eq_true_eq] at hn'
    refine hsig.1 n hn'.1 room ent day (hsub _ ?_)
    have := mem_sigs_node hn'.1
    rw [hn'.2.1.1, hn'.2.1.2, hn'.2.2] at this; exact this
  have htomb : ∀ t ∈ (slice src room ent day).ntombs, t ∈ dst.ntombs := by
    intro t ht
    have ht' := List.mem_filter.mp ht
    simp only [Bool.and_eq_true, decide_eq_true_eq] at ht'
    refine hsig.2 t ht'.1 room ent day (hsub _ ?_)
    have := mem_sigs_ntomb ht'.1
    rw [ht'.2.1.1, ht'.2.1.2, ht'.2.2] at this; exact this
  have hdead : ∀ i, ((abs (slice src room ent day)).dead i || (abs dst).dead i) = (abs dst).dead i := by
    intro i
    cases hs : (abs (slice src room ent day)).dead i with
    | false => rfl
    | true =>
      obtain ⟨t, ht, e⟩ := List.any_eq_true.mp hs
      have : (abs dst).dead i = true := List.any_eq_true.mpr ⟨t, htomb t ht, e⟩
      rw [this]; rfl
  unfold le
  apply ARep.ext'
  · intro i
    simp only [join]
    rw [hdead]
    cases hd : (abs dst).dead i with
    | true => simp only [↓reduceIte]; exact (abs_wf hzd i hd).symm
    | false =>
      simp only [Bool.false_eq_true, ↓reduceIte]
      cases hv : (abs (slice src room ent day)).ver i with
      | none => exact merge_none_left _
      | some v =>
        obtain ⟨n, hn, hid, e⟩ := abs_ver_some hv
        have := abs_ver_of_mem hnd (hnode n hn)
        rw [hid] at this
        rw [this, e]; exact merge_idem _
  · exact hdead
  · intro s
    simp only [join]
    cases hs : (abs (slice src room ent day)).recs s with
    | false => rfl
    | true =>
      obtain ⟨t, ht, e⟩ := List.any_eq_true.mp hs
      have : (abs dst).recs s = true := List.any_eq_true.mpr ⟨t, htomb t ht, e⟩
      rw [this]; rfl

section room
variable {d : Defects} {f : Nat → Nat} (hI : d.ingestIgnoresTombstones = false)

include hI in
/-- **refinement, one pull, logs recomputed.** When both logs are the logs of the stored content (C09: after a
    recomputation with nothing pending), the rows and node deletion records of the puller after `synchronise_room`
    are the join of what it held with what the source holds for that room. -/
theorem pull_refines_join (hS : d.summaryFirstEntityOnly = false) {rights : Rights} (hA : AllRights rights)
    {dst src : Replica} (hR : d.syncDeletionRoomScoped = false ∨ (RoomFn f dst ∧ RoomFn f src))
    (hK : d.deletionBatchKeyedById = false ∨ DayRecordsDistinct src)
    (hzd : NoZombie dst) (hzs : NoZombie src) (hnd : IdsNodup dst) (hns : IdsNodup src)
    (hpk : PkFun (fun x => x ∈ dst.ntombs ∨ x ∈ src.ntombs))
    (hld : IsLogOf dst.sigs dst.log) (hls : IsLogOf src.sigs src.log) (hsig : SigsDetermine dst src) (room : Nat) :
    abs (pull d rights dst src room).dst = join (abs dst) (abs (inRoom src room)) := by
  rw [pull_refines_days hI hS hA hR hK hzd hzs hns hpk room, joinDays_eq _ _ _ (abs_wf hzd),
    ← joinSlices_room hzs hns hls room]
  unfold diffDays
  generalize hp : (fun (x : FlatRow) =>
    match findRow dst.log { room, ent := x.ent, day := x.row.day } with
    | some l => l.daily != x.row.daily
    | none => true) = p
  -- skipping the rows of the source's log that fail `p` changes nothing
  have key : ∀ (l : List FlatRow), (∀ x ∈ l, x ∈ roomLog src room) →
      join (abs dst) (joinSlices src room ((l.filter p).map fun x => (x.ent, x.row.day))) =
      join (abs dst) (joinSlices src room (l.map fun x => (x.ent, x.row.day))) := by
    intro l
    induction l with
    | nil => intro _; rfl
    | cons x t ih =>
      intro hmem
      have iht := ih (fun y hy => hmem y (List.mem_cons_of_mem _ hy))
      cases hpx : p x with
      | true =>
        rw [List.filter_cons_of_pos (by simp [hpx])]
        simp only [joinSlices, List.map_cons, joinAll] at iht ⊢
        rw [join_left_comm, iht, join_left_comm]
      | false =>
        rw [List.filter_cons_of_neg (by simp [hpx])]
        have hle : join (abs (slice src room x.ent x.row.day)) (abs dst) = abs dst := by
          -- the puller's log shows the same daily hash for that day
          rw [← hp] at hpx
          simp only at hpx
          obtain ⟨hxr, g, hg, w, hw, ex⟩ := (mem_roomLog src room x).mp (hmem x List.mem_cons_self)
          have hxe : x.ent = g.ent := by rw [ex]
          have hxw : x.row = w := by rw [ex]
          have hgr : g.room = room := by rw [ex] at hxr; exact hxr
          obtain ⟨hsd, hsne⟩ := isLogOf_daily hls hg hw
          cases hf : findRow dst.log { room, ent := x.ent, day := x.row.day } with
          | none => rw [hf] at hpx; cases hpx
          | some l =>
            rw [hf] at hpx
            have hdl : l.daily = x.row.daily := by
              simp only [bne_eq_false_iff_eq] at hpx
              exact of_decide_eq_true (by simpa using hpx)
            obtain ⟨g', hg', hr', he', hl', hd'⟩ := findRow_some hf
            obtain ⟨hdd, _⟩ := isLogOf_daily hld hg' hl'
            simp only at hr' he' hd'
            rw [hr', he', hd'] at hdd
            rw [hgr, ← hxe, ← hxw] at hsd hsne
            have hperm := dailyOf_inj hsne (show dailyOf (src.sigs room x.ent x.row.day) =
              dailyOf (dst.sigs room x.ent x.row.day) by rw [← hsd, ← hdd, hdl])
            exact slice_le hzd hnd hsig room x.ent x.row.day (fun s hs => hperm.mem_iff.mp hs)
        simp only [joinSlices, List.map_cons, joinAll] at iht ⊢
        rw [iht, join_left_comm, ← join_assoc, hle]
  exact key _ (fun x hx => hx)

end room

end Discret.Sync
