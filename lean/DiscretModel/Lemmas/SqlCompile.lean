import DiscretModel.Model.SqlSem
import DiscretModel.Lemmas.QueryOrder
/-
The SQL the compiler model generates (`Model/SqlGen.lean`) means, under the SQL semantics `Model/SqlSem.lean`,
what the reference evaluator computes (`Model/Query.lean`, `Defects.asImplemented`): one lemma per clause
(values, bound parameters, projection, filters, cursors, ordering, limits), assembled in `compile_correct`.
-/
namespace Discret.SqlCompile
open Discret.Query Discret.SqlGen Discret.SqlSem

/-! ## Lists: sorting commutes with maps and filters -/

theorem insertBy_map {α β : Type} (f : α → β) (le : α → α → Bool) (le' : β → β → Bool) (x : α) (l : List α)
    (h : ∀ y ∈ l, le' (f x) (f y) = le x y) :
    insertBy le' (f x) (l.map f) = (insertBy le x l).map f := by
  induction l with
  | nil => rfl
  | cons y t ih =>
    simp only [List.map_cons, insertBy, h y (by simp)]
    split
    · rfl
    · rw [List.map_cons, ih (fun z hz => h z (by simp [hz]))]

theorem sortBy_cons {α : Type} (le : α → α → Bool) (a : α) (t : List α) :
    sortBy le (a :: t) = insertBy le a (sortBy le t) := rfl

theorem sortBy_map {α β : Type} (f : α → β) (le : α → α → Bool) (le' : β → β → Bool) (l : List α)
    (h : ∀ x ∈ l, ∀ y ∈ l, le' (f x) (f y) = le x y) :
    sortBy le' (l.map f) = (sortBy le l).map f := by
  induction l with
  | nil => rfl
  | cons a t ih =>
    rw [List.map_cons, sortBy_cons, sortBy_cons, ih (fun x hx y hy => h x (by simp [hx]) y (by simp [hy]))]
    apply insertBy_map
    intro y hy
    exact h a (by simp) y (by simp [(mem_sortBy le y t).mp hy])

/-- inserting below every element puts the element first -/
theorem insertBy_of_le_all {α : Type} (le : α → α → Bool) (x : α) (l : List α) (h : ∀ y ∈ l, le x y = true) :
    insertBy le x l = x :: l := by
  cases l with
  | nil => rfl
  | cons y t => simp [insertBy, h y (by simp)]

theorem filter_insertBy {α : Type} (le : α → α → Bool)
    (htr : ∀ a b c, le a b = true → le b c = true → le a c = true) (p : α → Bool) (x : α) (l : List α)
    (hl : l.Pairwise fun a b => le a b = true) :
    (insertBy le x l).filter p = if p x then insertBy le x (l.filter p) else l.filter p := by
  induction l with
  | nil => cases hp : p x <;> simp [insertBy, hp]
  | cons y t ih =>
    rw [List.pairwise_cons] at hl
    obtain ⟨hy, ht⟩ := hl
    simp only [insertBy]
    cases hxy : le x y with
    | true =>
      simp only [if_true]
      have hall : ∀ z ∈ (y :: t).filter p, le x z = true := by
        intro z hz
        have hz' := (List.mem_filter.mp hz).1
        rcases List.mem_cons.mp hz' with hz' | hz'
        · rw [hz']; exact hxy
        · exact htr x y z hxy (hy z hz')
      cases hp : p x with
      | true =>
        rw [if_pos rfl, insertBy_of_le_all le x _ hall, List.filter_cons (x := x), if_pos hp]
      | false =>
        rw [if_neg (by simp), List.filter_cons (x := x), if_neg (by simp [hp])]
    | false =>
      simp only [Bool.false_eq_true, if_false]
      cases hpy : p y with
      | true =>
        simp only [List.filter_cons, hpy, if_true, ih ht]
        cases hp : p x with
        | true => simp [insertBy, hxy]
        | false => simp
      | false =>
        simp only [List.filter_cons, hpy, Bool.false_eq_true, if_false, ih ht]

theorem filter_sortBy {α : Type} (le : α → α → Bool)
    (htot : ∀ a b, le a b = false → le b a = true)
    (htr : ∀ a b c, le a b = true → le b c = true → le a c = true) (p : α → Bool) (l : List α) :
    (sortBy le l).filter p = sortBy le (l.filter p) := by
  induction l with
  | nil => rfl
  | cons a t ih =>
    rw [sortBy_cons, filter_insertBy le htr p a _ (pairwise_sortBy le htot htr t), ih]
    cases hp : p a with
    | true => simp [hp, sortBy_cons]
    | false => simp [hp]

/-! ## Values -/

theorem ltChars_total : ∀ s t : List Char, ltChars s t = false → ltChars t s = false → s = t := by
  intro s
  induction s with
  | nil => intro t h1 h2; cases t <;> simp_all [ltChars]
  | cons a s ih =>
    intro t h1 h2
    cases t with
    | nil => simp [ltChars] at h2
    | cons b t =>
      simp only [ltChars, Bool.or_eq_false_iff, decide_eq_false_iff_not, Bool.and_eq_false_iff,
        beq_eq_false_iff_ne] at h1 h2
      have hab : a.toNat = b.toNat := by omega
      have hc : a = b := Char.toNat_inj.mp hab
      subst hc
      rcases h1.2 with h | h
      · exact absurd rfl h
      · rcases h2.2 with h' | h'
        · exact absurd rfl h'
        · rw [ih t h h']

theorem ltChars_irrefl (s : List Char) : ltChars s s = false := by
  induction s with
  | nil => rfl
  | cons a s ih => simp [ltChars, ih]

theorem lt_ofScalar (a b : Val) : (SqlVal.ofScalar a).lt (SqlVal.ofScalar b) = a.lt b := by
  cases a <;> cases b <;> simp [SqlVal.ofScalar, SqlVal.lt, Val.lt, Val.num?] <;> rfl

theorem ofScalar_null_iff (v : Val) : SqlVal.ofScalar v = .null ↔ v = .null := by
  cases v <;> simp [SqlVal.ofScalar]

theorem SqlVal.lt_irrefl (a : SqlVal) : a.lt a = false := by
  cases a <;> simp [SqlVal.lt, ltChars_irrefl]

theorem SqlVal.eq_of_not_lt (a b : SqlVal) (h1 : a.lt b = false) (h2 : b.lt a = false) : a = b := by
  cases a <;> cases b <;> simp_all [SqlVal.lt]
  · omega
  · exact ltChars_total _ _ h1 h2

/-- SQL equality of two values is the evaluator's "neither sorts before the other" -/
theorem eq_ofScalar_iff (a b : Val) : SqlVal.ofScalar a = SqlVal.ofScalar b ↔ a.same b = true := by
  unfold Val.same
  rw [← lt_ofScalar, ← lt_ofScalar]
  constructor
  · intro h; rw [h]; simp [SqlVal.lt_irrefl]
  · intro h
    simp only [Bool.and_eq_true, Bool.not_eq_eq_eq_not, Bool.not_true] at h
    exact SqlVal.eq_of_not_lt _ _ h.1 h.2

theorem ofJ_ofVal (v : Val) : SqlVal.ofJ (J.ofVal v) = SqlVal.ofScalar v := by
  cases v <;> rfl

theorem toJ_ofScalar_of_not_bool (v : Val) (h : ∀ b, v ≠ .bool b) : (SqlVal.ofScalar v).toJ = J.ofVal v := by
  cases v <;> simp_all [SqlVal.ofScalar, SqlVal.toJ, J.ofVal]

/-- a comparison of two SQL values that come from JSON scalars: unknown with an absent side, else the
    evaluator's `compare?` -/
theorem cmp3_ofScalar (op : Cmp) (a b : Val) :
    cmp3 (cmpOp op) (SqlVal.ofScalar a) (SqlVal.ofScalar b) =
      if a = .null ∨ b = .null then none else some (compare? op a b) := by
  by_cases h : a = .null ∨ b = .null
  · have h' : SqlVal.ofScalar a = .null ∨ SqlVal.ofScalar b = .null := by
      rcases h with h | h
      · exact Or.inl ((ofScalar_null_iff a).mpr h)
      · exact Or.inr ((ofScalar_null_iff b).mpr h)
    cases op <;> simp [cmp3, cmpOp, h, h']
  · have h' : ¬ (SqlVal.ofScalar a = .null ∨ SqlVal.ofScalar b = .null) := by
      rw [ofScalar_null_iff, ofScalar_null_iff]; exact h
    have he : decide (SqlVal.ofScalar a = SqlVal.ofScalar b) = a.same b := by
      cases hs : a.same b with
      | true => exact decide_eq_true ((eq_ofScalar_iff a b).mpr hs)
      | false =>
        apply decide_eq_false
        intro hc
        rw [(eq_ofScalar_iff a b).mp hc] at hs
        exact absurd hs (by simp)
    cases op <;> simp [cmp3, cmpOp, compare?, h, h', lt_ofScalar, he]

theorem cmp3_true_iff (op : Cmp) (a b : Val) :
    cmp3 (cmpOp op) (SqlVal.ofScalar a) (SqlVal.ofScalar b) = some true ↔ compare? op a b = true := by
  rw [cmp3_ofScalar]
  by_cases h : a = .null ∨ b = .null
  · simp [h, compare?]
  · simp [h]

/-! ## Bound parameters: a slot, once allocated, keeps its value whatever is bound after it -/

theorem bindVal_append (env : String → Val) (ps more : Binds) (n : Nat) (h : n ≤ ps.length) :
    bindVal env (ps ++ more) n = bindVal env ps n := by
  cases n with
  | zero => rfl
  | succ k => simp only [bindVal]; rw [List.getElem?_append_left (by omega)]

theorem findVar_spec (x : String) : ∀ (ps : Binds) (i n : Nat), findVar x ps i = some n →
    ∃ k, n = i + k ∧ ps[k]? = some (.var x) := by
  intro ps
  induction ps with
  | nil => intro i n h; simp [findVar] at h
  | cons b t ih =>
    intro i n h
    cases b with
    | text s =>
      simp only [findVar] at h
      obtain ⟨k, hk, hget⟩ := ih (i + 1) n h
      exact ⟨k + 1, by omega, by simpa using hget⟩
    | var y =>
      simp only [findVar] at h
      by_cases hy : y = x
      · simp only [hy, if_true, Option.some.injEq] at h
        exact ⟨0, by omega, by simp [hy]⟩
      · simp only [hy, if_false] at h
        obtain ⟨k, hk, hget⟩ := ih (i + 1) n h
        exact ⟨k + 1, by omega, by simpa using hget⟩

/-- the value an operand has under every extension of the bind list `ps` -/
def Stable (env : String → Val) (ps : Binds) (o : Operand) (w : SqlVal) : Prop :=
  ∀ more, operand (bindVal env (ps ++ more)) o = w

theorem Stable.extend {env : String → Val} {ps : Binds} {o : Operand} {w : SqlVal} (h : Stable env ps o w)
    (e : Binds) : Stable env (ps ++ e) o w := by
  intro more; rw [List.append_assoc]; exact h _

theorem addParam_text_spec (env : String → Val) (ps : Binds) (t : List Char) :
    ∃ e, (addParam ps (.text t)).1 = ps ++ e ∧
      Stable env (addParam ps (.text t)).1 (.bind (addParam ps (.text t)).2) (.text t) := by
  refine ⟨[.text t], rfl, ?_⟩
  intro more
  simp only [addParam, operand, bindVal]
  rw [List.append_assoc, List.getElem?_append_right (by omega)]
  simp

theorem addParam_var_spec (env : String → Val) (ps : Binds) (x : String) :
    ∃ e, (addParam ps (.var x)).1 = ps ++ e ∧
      Stable env (addParam ps (.var x)).1 (.bind (addParam ps (.var x)).2) (SqlVal.ofScalar (env x)) := by
  simp only [addParam]
  cases hf : findVar x ps 1 with
  | some n =>
    obtain ⟨k, hk, hget⟩ := findVar_spec x ps 1 n hf
    refine ⟨[], by simp, ?_⟩
    intro more
    have hlt : k < ps.length := by
      rcases Nat.lt_or_ge k ps.length with h | h
      · exact h
      · rw [List.getElem?_eq_none h] at hget; exact absurd hget (by simp)
    have hn : n = k + 1 := by omega
    simp only [operand, hn, bindVal]
    rw [List.getElem?_append_left hlt, hget]
  | none =>
    refine ⟨[.var x], rfl, ?_⟩
    intro more
    simp only [operand, bindVal]
    rw [List.append_assoc, List.getElem?_append_right (by omega)]
    simp

/-- a literal or default written into the statement has, wherever it is read, the SQL value of the scalar -/
theorem litOperand_spec (env : String → Val) (ps : Binds) (v : Val) :
    ∃ e, (litOperand ps v).1 = ps ++ e ∧ Stable env (litOperand ps v).1 (litOperand ps v).2 (SqlVal.ofScalar v) := by
  cases v with
  | null => exact ⟨[], by simp [litOperand], fun _ => rfl⟩
  | bool b => exact ⟨[], by simp [litOperand], fun _ => rfl⟩
  | int i => exact ⟨[], by simp [litOperand], fun _ => rfl⟩
  | str t => exact addParam_text_spec env ps t

/-! ## The stored row and the projection -/

abbrev D : Defects := Defects.asImplemented

theorem assoc_map_key {α : Type} (g : Nat → String) (hg : ∀ a b, g a = g b → a = b) (k : Nat) (l : List (Nat × α)) :
    assoc (g k) (l.map fun kv => (g kv.1, kv.2)) = lookup k l := by
  induction l with
  | nil => rfl
  | cons kv t ih =>
    obtain ⟨a, v⟩ := kv
    simp only [List.map_cons, assoc, lookup]
    by_cases h : a = k
    · simp [h]
    · have : g a ≠ g k := fun hc => h (hg a k hc)
      simp [h, this, ih]

/-- reading `_json` under the short name of a field gives the stored value of the field -/
theorem assoc_encode (nm : Names) (r : Row) (hinj : ∀ a b, nm.fieldShort r.ent a = nm.fieldShort r.ent b → a = b)
    (fld : Nat) : assoc (nm.fieldShort r.ent fld) (encodeRow nm r).json = r.stored fld :=
  assoc_map_key (nm.fieldShort r.ent) hinj fld r.vals

/-- what the evaluator's projection returns for one selection of the fragment -/
def projSpec (s : Schema) (r : Row) : Sel → String × J
  | .scalar key fld =>
    (key, match fieldDef s r.ent fld with
          | some fd => J.ofVal (selected D fd (r.stored fld))
          | none => .null)
  | .id key => (key, .id r.id)
  | sel => (Sel.key sel, .null)

theorem projSpec_key (s : Schema) (r : Row) (sel : Sel) : (projSpec s r sel).1 = Sel.key sel := by
  cases sel <;> rfl

/-- the selected value: the stored one (an explicit `null` included), else the default as `json_object` writes it -/
theorem ofVal_selected (fd : FieldDef) (stored : Option Val) :
    J.ofVal (selected D fd stored) =
      match stored with
      | some v => J.ofVal v
      | none => (match fd.dflt with | some dv => (SqlVal.ofScalar dv).toJ | none => .null) := by
  cases stored with
  | some v => cases v <;> simp [selected, D, Defects.asImplemented, J.ofVal]
  | none =>
    cases hd : fd.dflt with
    | none => simp [selected, hd, J.ofVal]
    | some dv => cases dv <;> simp [selected, hd, D, Defects.asImplemented, J.ofVal, SqlVal.ofScalar, SqlVal.toJ]

theorem ofScalar_selected (fd : FieldDef) (stored : Option Val) :
    SqlVal.ofScalar (selected D fd stored) =
      match stored with
      | some v => SqlVal.ofScalar v
      | none => (match fd.dflt with | some dv => SqlVal.ofScalar dv | none => .null) := by
  cases stored with
  | some v => cases v <;> simp [selected, D, Defects.asImplemented, SqlVal.ofScalar]
  | none =>
    cases hd : fd.dflt with
    | none => simp [selected, hd, SqlVal.ofScalar]
    | some dv => cases dv <;> simp [selected, hd, D, Defects.asImplemented, SqlVal.ofScalar]

theorem fieldOk_def {s : Schema} {ent fld : Nat} (h : fieldOk s ent fld = true) :
    ∃ fd, fieldDef s ent fld = some fd ∧ scalarKind fd.kind = true ∧ fd.dflt ≠ some .null := by
  unfold fieldOk at h
  cases hf : fieldDef s ent fld with
  | none => simp [hf] at h
  | some fd =>
    simp only [hf, Bool.and_eq_true, bne_iff_ne, ne_eq] at h
    exact ⟨fd, rfl, h.1, h.2⟩

theorem valueOf_cons (bv : Nat → SqlVal) (k : String) (e : ProjExpr) (rest : List (String × ProjExpr)) (row : NodeRow) :
    valueOf bv ((k, e) :: rest) row = (k, projVal bv row e) :: valueOf bv rest row := rfl

/-- **projection**: the `json_object` of a stored row is the evaluator's projection of the row, wherever the bound
    defaults are read -/
theorem projLoop_spec (env : String → Val) (nm : Names) (s : Schema) (ent : Nat)
    (hinj : ∀ a b, nm.fieldShort ent a = nm.fieldShort ent b → a = b) :
    ∀ (sels : List Sel) (ps : Binds), (∀ sel ∈ sels, selOk s ent sel = true) →
      ∃ e, (projLoop nm s ent ps sels).1 = ps ++ e ∧
        ∀ (more : Binds) (r : Row), r.ent = ent →
          valueOf (bindVal env ((projLoop nm s ent ps sels).1 ++ more)) (projLoop nm s ent ps sels).2 (encodeRow nm r) =
            sels.map (projSpec s r) := by
  intro sels
  induction sels with
  | nil => intro ps _; exact ⟨[], by simp [projLoop], fun _ _ _ => rfl⟩
  | cons sel rest ih =>
    intro ps hok
    have hrest : ∀ x ∈ rest, selOk s ent x = true := fun x hx => hok x (by simp [hx])
    have hsel := hok sel (by simp)
    cases sel with
    | scalar key fld =>
      obtain ⟨fd, hfd, _, _⟩ := fieldOk_def (show fieldOk s ent fld = true from hsel)
      cases hdv : defaultOf s ent fld with
      | none =>
        obtain ⟨e, he, hv⟩ := ih ps hrest
        refine ⟨e, by simp only [projLoop, hdv]; exact he, ?_⟩
        intro more r hr
        subst hr
        have hd : fd.dflt = none := by simpa [defaultOf, hfd] using hdv
        simp only [projLoop, hdv]
        rw [valueOf_cons, hv more r rfl, List.map_cons]
        simp only [projVal, projSpec, hfd]
        rw [assoc_encode nm r hinj fld, ofVal_selected, hd]
        cases r.stored fld <;> rfl
      | some dv =>
        obtain ⟨e1, he1, hst⟩ := litOperand_spec env ps dv
        obtain ⟨e2, he2, hv⟩ := ih (litOperand ps dv).1 hrest
        refine ⟨e1 ++ e2, by simp only [projLoop, hdv]; rw [he2, he1, List.append_assoc], ?_⟩
        intro more r hr
        subst hr
        have hd : fd.dflt = some dv := by simpa [defaultOf, hfd] using hdv
        simp only [projLoop, hdv]
        rw [valueOf_cons, hv more r rfl, List.map_cons]
        simp only [projVal, projSpec, hfd]
        rw [assoc_encode nm r hinj fld, ofVal_selected, hd]
        have hop : operand (bindVal env ((projLoop nm s r.ent (litOperand ps dv).1 rest).1 ++ more)) (litOperand ps dv).2 =
            SqlVal.ofScalar dv := by
          rw [he2, List.append_assoc]; exact hst _
        rw [hop]
        cases r.stored fld <;> rfl
    | id key =>
      obtain ⟨e, he, hv⟩ := ih ps hrest
      refine ⟨e, by simp only [projLoop]; exact he, ?_⟩
      intro more r hr
      simp only [projLoop]
      rw [valueOf_cons, hv more r hr, List.map_cons]
      rfl
    | agg _ _ _ => simp [selOk] at hsel
    | json _ _ _ => simp [selOk] at hsel
    | sub _ _ _ _ => simp [selOk] at hsel

/-- the key of a scalar selection is found in the projection (keys are distinct) -/
theorem isScalarSel_iff (name : String) (fld : Nat) (sel : Sel) :
    isScalarSel name fld sel = true ↔ sel = .scalar name fld := by
  cases sel <;> simp [isScalarSel]

theorem assoc_projSpec (s : Schema) (r : Row) (name : String) (fld : Nat) :
    ∀ sels : List Sel, distinctKeys (sels.map Sel.key) = true →
      sels.any (isScalarSel name fld) = true →
      assoc name (sels.map (projSpec s r)) = some (projSpec s r (.scalar name fld)).2 := by
  intro sels
  induction sels with
  | nil => intro _ h; simp at h
  | cons sel rest ih =>
    intro hd ha
    simp only [List.map_cons, distinctKeys, Bool.and_eq_true, Bool.not_eq_eq_eq_not, Bool.not_true] at hd
    obtain ⟨hnot, hdr⟩ := hd
    simp only [List.any_cons, Bool.or_eq_true] at ha
    by_cases hk : Sel.key sel = name
    · -- the head has the key: it is the selection looked for
      have hhead : sel = .scalar name fld := by
        rcases ha with ha | ha
        · exact (isScalarSel_iff name fld sel).mp ha
        · exfalso
          obtain ⟨x, hx, hxm⟩ := List.any_eq_true.mp ha
          have hxe := (isScalarSel_iff name fld x).mp hxm
          have : name ∈ rest.map Sel.key := List.mem_map.mpr ⟨x, hx, by rw [hxe]; rfl⟩
          rw [← hk] at this
          have hc : (rest.map Sel.key).contains (Sel.key sel) = true := List.contains_iff_mem.mpr this
          rw [hc] at hnot; exact absurd hnot (by simp)
      subst hhead
      simp [assoc, projSpec]
    · have hrest : rest.any (isScalarSel name fld) = true := by
        rcases ha with ha | ha
        · exfalso
          rw [(isScalarSel_iff name fld sel).mp ha] at hk
          exact hk rfl
        · exact ha
      rw [← ih hdr hrest, List.map_cons]
      have hne : (projSpec s r sel).1 ≠ name := by rw [projSpec_key]; exact hk
      show assoc name (((projSpec s r sel).1, (projSpec s r sel).2) :: _) = _
      simp only [assoc, hne, if_false]

/-! ## What a filter or an ordering reads -/

/-- the value read under a name: the selected value for an alias, the stored value for a field -/
def readX (s : Schema) (ent : Nat) (r : Row) (onAlias : Bool) (fld : Nat) : Val :=
  if onAlias then
    (match fieldDef s ent fld with
     | some fd => selected D fd (r.stored fld)
     | none => .null)
  else (r.stored fld).getD .null

theorem lhsVal_read (nm : Names) (s : Schema) (ent : Nat)
    (hinj : ∀ a b, nm.fieldShort ent a = nm.fieldShort ent b → a = b)
    (sels : List Sel) (V : Row → List (String × J))
    (hV : ∀ (r : Row) (name : String) (fld : Nat), sels.any (isScalarSel name fld) = true →
      assoc name (V r) = some (projSpec s r (.scalar name fld)).2)
    (r : Row) (hr : r.ent = ent) (onAlias : Bool) (name : String) (fld : Nat)
    (hf : fieldOk s ent fld = true) (ha : (!onAlias || sels.any (isScalarSel name fld)) = true) :
    lhsVal (encodeRow nm r) (V r) (if onAlias then .value name else .json (nm.fieldShort ent fld)) =
      SqlVal.ofScalar (readX s ent r onAlias fld) := by
  subst hr
  obtain ⟨fd, hfd, _, _⟩ := fieldOk_def hf
  cases onAlias with
  | true =>
    simp only [Bool.not_true, Bool.false_or] at ha
    simp only [if_true, lhsVal, readX, hfd]
    rw [hV r name fld ha]
    simp only [projSpec, hfd, ofJ_ofVal]
  | false =>
    simp only [Bool.false_eq_true, if_false, lhsVal, readX]
    rw [assoc_encode nm r hinj fld]
    cases r.stored fld <;> rfl

/-! ## Filters -/

theorem filtered_some (fd : FieldDef) (y : Val) :
    filtered fd (some y) = if y = .null then fd.dflt.getD .null else y := by
  cases y <;> simp [filtered]

theorem filtered_raw (fd : FieldDef) (raw : Option Val) : filtered fd raw = filtered fd (some (raw.getD .null)) := by
  cases raw with
  | none => simp [filtered]
  | some y => rfl

/-- the evaluator's filter in terms of the value read: the `null` tests, else the default-aware comparison -/
theorem filterHolds_eq (s : Schema) (ent : Nat) (r : Row) (f : Filter) (fd : FieldDef)
    (hfd : fieldDef s ent f.fld = some fd) :
    filterHolds D s ent r f =
      match f.value with
      | .null =>
        if f.isParam then false
        else (match f.op with
              | .eq => decide (readX s ent r f.onAlias f.fld = .null)
              | .ne => decide (readX s ent r f.onAlias f.fld ≠ .null)
              | _ => false)
      | v => compare? f.op (if readX s ent r f.onAlias f.fld = .null then fd.dflt.getD .null
                            else readX s ent r f.onAlias f.fld) v := by
  unfold filterHolds
  simp only [hfd]
  cases hv : f.value with
  | null =>
    cases f.isParam <;> cases f.onAlias <;> cases f.op <;> simp [readX, hfd, D, Defects.asImplemented]
  | bool b =>
    cases f.onAlias
    · simp only [Bool.false_eq_true, if_false, readX]; rw [filtered_raw, filtered_some]
    · simp only [if_true, readX, hfd]; rw [filtered_some]
  | int i =>
    cases f.onAlias
    · simp only [Bool.false_eq_true, if_false, readX]; rw [filtered_raw, filtered_some]
    · simp only [if_true, readX, hfd]; rw [filtered_some]
  | str t =>
    cases f.onAlias
    · simp only [Bool.false_eq_true, if_false, readX]; rw [filtered_raw, filtered_some]
    · simp only [if_true, readX, hfd]; rw [filtered_some]

theorem atom_true_iff (bv : Nat → SqlVal) (row : NodeRow) (value : List (String × J)) (lhs : Lhs) (rhs : Operand)
    (op : Cmp) (x v : Val) (hl : lhsVal row value lhs = SqlVal.ofScalar x) (hr : operand bv rhs = SqlVal.ofScalar v) :
    atom3 bv row value { lhs := lhs, op := cmpOp op, rhs := rhs } = some true ↔ compare? op x v = true := by
  simp only [atom3, hl, hr]
  exact cmp3_true_iff op x v

theorem compare?_null_left (op : Cmp) (v : Val) : compare? op .null v = false := by simp [compare?]
theorem compare?_null_right (op : Cmp) (x : Val) : compare? op x .null = false := by simp [compare?]

/-- the `CASE WHEN default op value …` of a filter on a field with a default is the default-aware comparison -/
theorem caseDefault_true_iff (bv : Nat → SqlVal) (row : NodeRow) (value : List (String × J)) (lhs : Lhs)
    (d rhs : Operand) (op : Cmp) (x v dv : Val)
    (hl : lhsVal row value lhs = SqlVal.ofScalar x) (hr : operand bv rhs = SqlVal.ofScalar v)
    (hd : operand bv d = SqlVal.ofScalar dv) :
    cond3 bv row value (.caseDefault d { lhs := lhs, op := cmpOp op, rhs := rhs }) = some true ↔
      compare? op (if x = .null then dv else x) v = true := by
  simp only [cond3, atom3, hl, hr, hd]
  have hisnull : cmp3 .is (SqlVal.ofScalar x) .null = some (decide (x = .null)) := by
    simp only [cmp3]
    congr 1
    exact decide_eq_decide.mpr (ofScalar_null_iff x)
  rw [hisnull]
  by_cases hc : compare? op dv v = true
  · rw [if_pos ((cmp3_true_iff op dv v).mpr hc)]
    by_cases hx : x = .null
    · subst hx
      simp only [if_true, decide_true, hc]
      cases cmp3 (cmpOp op) (SqlVal.ofScalar Val.null) (SqlVal.ofScalar v) with
      | none => simp [or3]
      | some b => cases b <;> simp [or3]
    · simp only [hx, if_false, decide_false]
      rw [← cmp3_true_iff]
      cases cmp3 (cmpOp op) (SqlVal.ofScalar x) (SqlVal.ofScalar v) with
      | none => simp [or3]
      | some b => cases b <;> simp [or3]
  · rw [if_neg (fun h => hc ((cmp3_true_iff op dv v).mp h)), cmp3_true_iff]
    by_cases hx : x = .null
    · subst hx
      simp only [if_true, compare?_null_left]
      simp only [Bool.not_eq_true] at hc
      simp [hc]
    · simp only [hx, if_false]

theorem filterHolds_cmp (s : Schema) (ent : Nat) (r : Row) (f : Filter) (fd : FieldDef)
    (hfd : fieldDef s ent f.fld = some fd) (h : f.isParam = true ∨ f.value ≠ .null) :
    filterHolds D s ent r f =
      compare? f.op (if readX s ent r f.onAlias f.fld = .null then fd.dflt.getD .null
                     else readX s ent r f.onAlias f.fld) f.value := by
  rw [filterHolds_eq s ent r f fd hfd]
  cases hv : f.value with
  | null =>
    rcases h with h | h
    · simp [h, compare?_null_right]
    · exact absurd hv h
  | bool b => rfl
  | int i => rfl
  | str t => rfl

theorem filterHolds_nullLit (s : Schema) (ent : Nat) (r : Row) (f : Filter) (fd : FieldDef)
    (hfd : fieldDef s ent f.fld = some fd) (hp : f.isParam = false) (hv : f.value = .null) :
    filterHolds D s ent r f =
      (match f.op with
       | .eq => decide (readX s ent r f.onAlias f.fld = .null)
       | .ne => decide (readX s ent r f.onAlias f.fld ≠ .null)
       | _ => false) := by
  rw [filterHolds_eq s ent r f fd hfd, hv]
  simp [hp]

/-- the value position of a filter: the literal `null` (with `is` / `is not`), or a bound / written value -/
theorem filterValue_spec (env : String → Val) (ps : Binds) (var : String) (f : Filter)
    (henv : f.isParam = true → env var = f.value) :
    ∃ e, (filterValue ps var f).1 = ps ++ e ∧
      ((f.isParam = false ∧ f.value = .null ∧ (filterValue ps var f).2.2 = nullOp f.op ∧
          (filterValue ps var f).2.1 = .null) ∨
       ((f.isParam = true ∨ f.value ≠ .null) ∧ (filterValue ps var f).2.2 = cmpOp f.op ∧
          Stable env (filterValue ps var f).1 (filterValue ps var f).2.1 (SqlVal.ofScalar f.value))) := by
  unfold filterValue
  cases hp : f.isParam with
  | true =>
    obtain ⟨e, he, hst⟩ := addParam_var_spec env ps var
    refine ⟨e, by simpa using he, Or.inr ⟨Or.inl rfl, rfl, ?_⟩⟩
    rw [← henv hp]
    simpa using hst
  | false =>
    simp only [Bool.false_eq_true, if_false]
    cases hv : f.value with
    | null => exact ⟨[], by simp, Or.inl ⟨by simp, by simp, by simp, by simp⟩⟩
    | bool b =>
      obtain ⟨e, he, hst⟩ := litOperand_spec env ps (.bool b)
      exact ⟨e, he, Or.inr ⟨Or.inr (by simp), rfl, hst⟩⟩
    | int i =>
      obtain ⟨e, he, hst⟩ := litOperand_spec env ps (.int i)
      exact ⟨e, he, Or.inr ⟨Or.inr (by simp), rfl, hst⟩⟩
    | str t =>
      obtain ⟨e, he, hst⟩ := litOperand_spec env ps (.str t)
      exact ⟨e, he, Or.inr ⟨Or.inr (by simp), rfl, hst⟩⟩

theorem defaultOf_eq {s : Schema} {ent fld : Nat} {fd : FieldDef} (h : fieldDef s ent fld = some fd) :
    defaultOf s ent fld = fd.dflt := by simp [defaultOf, h]

/-- **one filter**: its SQL condition is true for a stored row iff the evaluator's filter holds for the row -/
theorem filterCond_spec (env : String → Val) (nm : Names) (s : Schema) (ent : Nat)
    (hinj : ∀ a b, nm.fieldShort ent a = nm.fieldShort ent b → a = b)
    (sels : List Sel) (V : Row → List (String × J))
    (hV : ∀ (r : Row) (name : String) (fld : Nat), sels.any (isScalarSel name fld) = true →
      assoc name (V r) = some (projSpec s r (.scalar name fld)).2)
    (ps : Binds) (var : String) (f : Filter)
    (hf : fieldOk s ent f.fld = true) (ha : (!f.onAlias || sels.any (isScalarSel f.name f.fld)) = true)
    (hnull : (f.isParam || f.value != .null || defaultOf s ent f.fld == none) = true)
    (henv : f.isParam = true → env var = f.value) :
    ∃ e, (filterCond nm s ent ps var f).1 = ps ++ e ∧
      ∀ (more : Binds) (r : Row), r.ent = ent →
        (cond3 (bindVal env ((filterCond nm s ent ps var f).1 ++ more)) (encodeRow nm r) (V r)
            (filterCond nm s ent ps var f).2 = some true ↔ filterHolds D s ent r f = true) := by
  obtain ⟨fd, hfd, _, hdn⟩ := fieldOk_def hf
  obtain ⟨e1, he1, hval⟩ := filterValue_spec env ps var f henv
  have hlhs : ∀ r : Row, r.ent = ent →
      lhsVal (encodeRow nm r) (V r) (filterLhs nm ent f) =
        SqlVal.ofScalar (readX s ent r f.onAlias f.fld) :=
    fun r hr => lhsVal_read nm s ent hinj sels V hV r hr f.onAlias f.name f.fld hf ha
  rcases hval with ⟨hp, hv, hop, hrhs⟩ | ⟨hpv, hop, hst⟩
  · -- the literal `null`: no default, `is` / `is not`
    have hno : defaultOf s ent f.fld = none := by
      simpa [hp, hv] using hnull
    refine ⟨e1, by simp only [filterCond, hno]; exact he1, ?_⟩
    intro more r hr
    simp only [filterCond, hno, cond3, atom3, hop, hrhs, operand, hlhs r hr]
    rw [filterHolds_nullLit s ent r f fd hfd hp hv]
    cases f.op <;> simp [nullOp, cmpOp, cmp3, ofScalar_null_iff]
  · cases hdv : defaultOf s ent f.fld with
    | none =>
      refine ⟨e1, by simp only [filterCond, hdv]; exact he1, ?_⟩
      intro more r hr
      have hd : fd.dflt = none := by rw [← defaultOf_eq hfd]; exact hdv
      simp only [filterCond, hdv, cond3, hop]
      rw [atom_true_iff _ _ _ _ _ f.op _ f.value (hlhs r hr) (hst more), filterHolds_cmp s ent r f fd hfd hpv, hd]
      by_cases hx : readX s ent r f.onAlias f.fld = .null
      · simp [hx]
      · simp [hx]
    | some dv =>
      obtain ⟨e2, he2, hstd⟩ := litOperand_spec env (filterValue ps var f).1 dv
      refine ⟨e1 ++ e2, by simp only [filterCond, hdv]; rw [he2, he1, List.append_assoc], ?_⟩
      intro more r hr
      have hd : fd.dflt = some dv := by rw [← defaultOf_eq hfd]; exact hdv
      simp only [filterCond, hdv, hop]
      have hr' : operand (bindVal env ((litOperand (filterValue ps var f).1 dv).1 ++ more)) (filterValue ps var f).2.1 =
          SqlVal.ofScalar f.value := by
        rw [he2, List.append_assoc]; exact hst _
      rw [caseDefault_true_iff _ _ _ _ _ _ f.op _ f.value dv (hlhs r hr) hr' (hstd more),
        filterHolds_cmp s ent r f fd hfd hpv, hd]
      rfl

/-- what `inFragment` asks of a filter, for the selections `sels` -/
def FilterWf (s : Schema) (ent : Nat) (sels : List Sel) (f : Filter) : Prop :=
  fieldOk s ent f.fld = true ∧ (!f.onAlias || sels.any (isScalarSel f.name f.fld)) = true ∧
    (f.isParam || f.value != .null || defaultOf s ent f.fld == none) = true

/-- **all filters**: the AND-ed conditions are all true for a stored row iff every filter holds for the row -/
theorem filtersLoop_spec (env : String → Val) (nm : Names) (s : Schema) (ent : Nat)
    (hinj : ∀ a b, nm.fieldShort ent a = nm.fieldShort ent b → a = b)
    (sels : List Sel) (V : Row → List (String × J))
    (hV : ∀ (r : Row) (name : String) (fld : Nat), sels.any (isScalarSel name fld) = true →
      assoc name (V r) = some (projSpec s r (.scalar name fld)).2) (vn : Nat → String) :
    ∀ (fs : List Filter) (ps : Binds) (i : Nat),
      (∀ f ∈ fs, FilterWf s ent sels f) →
      (∀ j f, fs[j]? = some f → f.isParam = true → env (vn (i + j)) = f.value) →
      ∃ e, (filtersLoop nm s ent vn ps i fs).1 = ps ++ e ∧
        ∀ (more : Binds) (r : Row), r.ent = ent →
          ((∀ c ∈ (filtersLoop nm s ent vn ps i fs).2,
              cond3 (bindVal env ((filtersLoop nm s ent vn ps i fs).1 ++ more)) (encodeRow nm r)
                (V r) c = some true) ↔
            ∀ f ∈ fs, filterHolds D s ent r f = true) := by
  intro fs
  induction fs with
  | nil => intro ps i _ _; exact ⟨[], by simp [filtersLoop], fun _ _ _ => by simp [filtersLoop]⟩
  | cons f rest ih =>
    intro ps i hwf henv
    obtain ⟨hf, ha, hn⟩ := hwf f (by simp)
    obtain ⟨e1, he1, h1⟩ := filterCond_spec env nm s ent hinj sels V hV ps (vn i) f hf ha hn
      (fun hp => by have := henv 0 f (by simp) hp; simpa using this)
    obtain ⟨e2, he2, h2⟩ := ih (filterCond nm s ent ps (vn i) f).1 (i + 1)
      (fun g hg => hwf g (by simp [hg]))
      (fun j g hj hp => by
        have := henv (j + 1) g (by simpa using hj) hp
        rw [← this]; congr 2; omega)
    refine ⟨e1 ++ e2, by simp only [filtersLoop]; rw [he2, he1, List.append_assoc], ?_⟩
    intro more r hr
    simp only [filtersLoop, List.mem_cons, forall_eq_or_imp]
    have hhead := h1 (e2 ++ more) r hr
    rw [← List.append_assoc, ← he2] at hhead
    rw [hhead, h2 more r hr]

/-! ## Order keys and cursors -/

def OrderWf (s : Schema) (ent : Nat) (sels : List Sel) (o : Order) : Prop :=
  fieldOk s ent o.fld = true ∧ (!o.onAlias || sels.any (isScalarSel o.name o.fld)) = true

theorem keyOf_eq_readX (s : Schema) (ent : Nat) (r : Row) (o : Order) (h : fieldOk s ent o.fld = true) :
    keyOf D s ent r o = readX s ent r o.onAlias o.fld := by
  obtain ⟨fd, hfd, _, _⟩ := fieldOk_def h
  simp only [keyOf, hfd, readX, ordered, D, Defects.asImplemented]
  cases o.onAlias <;> simp

/-- the SQL value of an order term on a stored row is the evaluator's order key -/
theorem lhsVal_order (nm : Names) (s : Schema) (ent : Nat)
    (hinj : ∀ a b, nm.fieldShort ent a = nm.fieldShort ent b → a = b)
    (sels : List Sel) (V : Row → List (String × J))
    (hV : ∀ (r : Row) (name : String) (fld : Nat), sels.any (isScalarSel name fld) = true →
      assoc name (V r) = some (projSpec s r (.scalar name fld)).2)
    (r : Row) (hr : r.ent = ent) (o : Order) (ho : OrderWf s ent sels o) :
    lhsVal (encodeRow nm r) (V r) (orderLhs nm ent o) = SqlVal.ofScalar (keyOf D s ent r o) := by
  rw [keyOf_eq_readX s ent r o ho.1]
  exact lhsVal_read nm s ent hinj sels V hV r hr o.onAlias o.name o.fld ho.1 ho.2

theorem all3_nil : all3 [] = some true := rfl
theorem all3_cons_true (x : Option Bool) (l : List (Option Bool)) :
    all3 (x :: l) = some true ↔ x = some true ∧ all3 l = some true := by
  show and3 x (all3 l) = some true ↔ _
  cases x with
  | none => cases h : all3 l with
    | none => simp [and3]
    | some b => cases b <;> simp [and3]
  | some a => cases a <;> cases h : all3 l with
    | none => simp [and3]
    | some b => cases b <;> simp [and3]

theorem all3_true_iff (l : List (Option Bool)) : all3 l = some true ↔ ∀ x ∈ l, x = some true := by
  induction l with
  | nil => simp [all3_nil]
  | cons x t ih => rw [all3_cons_true, ih]; simp

theorem any3_cons_true (x : Option Bool) (l : List (Option Bool)) :
    any3 (x :: l) = some true ↔ x = some true ∨ any3 l = some true := by
  show or3 x (any3 l) = some true ↔ _
  cases x with
  | none => cases h : any3 l with
    | none => simp [or3]
    | some b => cases b <;> simp [or3]
  | some a => cases a <;> cases h : any3 l with
    | none => simp [or3]
    | some b => cases b <;> simp [or3]

theorem any3_true_iff (l : List (Option Bool)) : any3 l = some true ↔ ∃ x ∈ l, x = some true := by
  induction l with
  | nil => simp [any3]
  | cons x t ih =>
    rw [any3_cons_true, ih]
    constructor
    · rintro (h | ⟨y, hy, hy'⟩)
      · exact ⟨x, by simp, h⟩
      · exact ⟨y, by simp [hy], hy'⟩
    · rintro ⟨y, hy, hy'⟩
      rcases List.mem_cons.mp hy with h | h
      · left; rw [← h]; exact hy'
      · right; exact ⟨y, h, hy'⟩

/-- the strict comparison of a cursor, as an operator of the query language -/
def pagingCmp (before desc : Bool) : Cmp :=
  if desc then (if before then .gt else .lt) else (if before then .lt else .gt)

theorem pagingOp_eq (before desc : Bool) : pagingOp before desc = cmpOp (pagingCmp before desc) := by
  cases before <;> cases desc <;> rfl

/-- one alternative of a cursor on the keys `K`: equal on all keys but the last, strictly beyond on the last -/
def altHolds (before : Bool) (K : Order → Val) : List (Order × Val) → Bool
  | [] => true
  | [(o, c)] => compare? (pagingCmp before o.desc) (K o) c
  | (o, c) :: rest => compare? .eq (K o) c && altHolds before K rest

theorem altHolds_cons_ne (before : Bool) (K : Order → Val) (o : Order) (c : Val) (p : List (Order × Val)) (h : p ≠ []) :
    altHolds before K ((o, c) :: p) = (compare? .eq (K o) c && altHolds before K p) := by
  cases p with
  | nil => exact absurd rfl h
  | cons x t => rfl

theorem pagingAlt_spec (env : String → Val) (nm : Names) (s : Schema) (ent : Nat)
    (hinj : ∀ a b, nm.fieldShort ent a = nm.fieldShort ent b → a = b)
    (sels : List Sel) (V : Row → List (String × J))
    (hV : ∀ (r : Row) (name : String) (fld : Nat), sels.any (isScalarSel name fld) = true →
      assoc name (V r) = some (projSpec s r (.scalar name fld)).2) (before : Bool) :
    ∀ (p : List (Order × Val)) (ps : Binds), (∀ x ∈ p, OrderWf s ent sels x.1) →
      ∃ e, (pagingAlt nm ent before ps p).1 = ps ++ e ∧
        ∀ (more : Binds) (r : Row), r.ent = ent →
          (all3 ((pagingAlt nm ent before ps p).2.map
              (atom3 (bindVal env ((pagingAlt nm ent before ps p).1 ++ more)) (encodeRow nm r) (V r))) =
              some true ↔ altHolds before (keyOf D s ent r) p = true) := by
  intro p
  induction p with
  | nil => intro ps _; exact ⟨[], by simp [pagingAlt], fun _ _ _ => by simp [pagingAlt, altHolds, all3_nil]⟩
  | cons x rest ih =>
    intro ps hwf
    obtain ⟨o, c⟩ := x
    have ho : OrderWf s ent sels o := hwf (o, c) (by simp)
    obtain ⟨e1, he1, hst⟩ := litOperand_spec env ps c
    cases rest with
    | nil =>
      refine ⟨e1, by simp only [pagingAlt]; exact he1, ?_⟩
      intro more r hr
      simp only [pagingAlt, List.map_cons, List.map_nil, altHolds, pagingOp_eq]
      rw [all3_cons_true, atom_true_iff _ _ _ _ _ _ _ c (lhsVal_order nm s ent hinj sels V hV r hr o ho) (hst more)]
      simp [all3_nil]
    | cons y rest' =>
      obtain ⟨e2, he2, h2⟩ := ih (litOperand ps c).1 (fun z hz => hwf z (by simp [hz]))
      refine ⟨e1 ++ e2, by simp only [pagingAlt]; rw [he2, he1, List.append_assoc], ?_⟩
      intro more r hr
      simp only [pagingAlt, List.map_cons, altHolds, Bool.and_eq_true]
      rw [all3_cons_true]
      have hrhs : operand (bindVal env ((pagingAlt nm ent before (litOperand ps c).1 (y :: rest')).1 ++ more))
          (litOperand ps c).2 = SqlVal.ofScalar c := by
        rw [he2, List.append_assoc]; exact hst _
      have hA := atom_true_iff _ _ _ _ _ .eq _ c (lhsVal_order nm s ent hinj sels V hV r hr o ho) hrhs
      simp only [cmpOp] at hA
      rw [hA]
      rw [h2 more r hr]

theorem pagingLoop_spec (env : String → Val) (nm : Names) (s : Schema) (ent : Nat)
    (hinj : ∀ a b, nm.fieldShort ent a = nm.fieldShort ent b → a = b)
    (sels : List Sel) (V : Row → List (String × J))
    (hV : ∀ (r : Row) (name : String) (fld : Nat), sels.any (isScalarSel name fld) = true →
      assoc name (V r) = some (projSpec s r (.scalar name fld)).2) (before : Bool) :
    ∀ (pl : List (List (Order × Val))) (ps : Binds), (∀ p ∈ pl, ∀ x ∈ p, OrderWf s ent sels x.1) →
      ∃ e, (pagingLoop nm ent before ps pl).1 = ps ++ e ∧
        ∀ (more : Binds) (r : Row), r.ent = ent →
          (paging3 (bindVal env ((pagingLoop nm ent before ps pl).1 ++ more)) (encodeRow nm r) (V r)
              (pagingLoop nm ent before ps pl).2 = some true ↔
            pl.any (altHolds before (keyOf D s ent r)) = true) := by
  intro pl
  induction pl with
  | nil => intro ps _; exact ⟨[], by simp [pagingLoop], fun _ _ _ => by simp [pagingLoop, paging3, any3]⟩
  | cons p rest ih =>
    intro ps hwf
    obtain ⟨e1, he1, h1⟩ := pagingAlt_spec env nm s ent hinj sels V hV before p ps (hwf p (by simp))
    obtain ⟨e2, he2, h2⟩ := ih (pagingAlt nm ent before ps p).1 (fun q hq => hwf q (by simp [hq]))
    refine ⟨e1 ++ e2, by simp only [pagingLoop]; rw [he2, he1, List.append_assoc], ?_⟩
    intro more r hr
    simp only [pagingLoop, paging3, List.map_cons, List.any_cons, Bool.or_eq_true]
    rw [any3_cons_true]
    have hhead := h1 (e2 ++ more) r hr
    rw [← List.append_assoc, ← he2] at hhead
    rw [hhead]
    have := h2 more r hr
    simp only [paging3] at this
    rw [this]

theorem inits1_ne_nil {α : Type} : ∀ (l : List α), ∀ p ∈ inits1 l, p ≠ [] := by
  intro l
  induction l with
  | nil => intro p hp; simp [inits1] at hp
  | cons a t _ =>
    intro p hp
    simp only [inits1, List.mem_cons, List.mem_map] at hp
    rcases hp with hp | ⟨q, _, hq⟩
    · rw [hp]; simp
    · rw [← hq]; simp

theorem inits1_mem {α : Type} : ∀ (l : List α), ∀ p ∈ inits1 l, ∀ x ∈ p, x ∈ l := by
  intro l
  induction l with
  | nil => intro p hp; simp [inits1] at hp
  | cons a t ih =>
    intro p hp x hx
    simp only [inits1, List.mem_cons, List.mem_map] at hp
    rcases hp with hp | ⟨q, hq1, hq⟩
    · rw [hp] at hx; simp at hx; simp [hx]
    · rw [← hq] at hx
      rcases List.mem_cons.mp hx with h | h
      · simp [h]
      · exact List.mem_cons_of_mem _ (ih q hq1 x h)

theorem any_inits1_cons (before : Bool) (K : Order → Val) (o : Order) (c : Val) (rest : List (Order × Val)) :
    (inits1 ((o, c) :: rest)).any (altHolds before K) =
      (compare? (pagingCmp before o.desc) (K o) c ||
        (compare? .eq (K o) c && (inits1 rest).any (altHolds before K))) := by
  simp only [inits1, List.any_cons, altHolds, List.any_map]
  congr 1
  have : ∀ l : List (List (Order × Val)), (∀ p ∈ l, p ≠ []) →
      l.any (altHolds before K ∘ fun x => (o, c) :: x) = (compare? .eq (K o) c && l.any (altHolds before K)) := by
    intro l
    induction l with
    | nil => intro _; simp
    | cons p t ih =>
      intro h
      simp only [List.any_cons, Function.comp, altHolds_cons_ne before K o c p (h p (by simp))]
      have := ih (fun q hq => h q (by simp [hq]))
      rw [this, Bool.and_or_distrib_left]
  exact this _ (inits1_ne_nil rest)

/-- the OR of the alternatives is the evaluator's `after` cursor -/
theorem any_alts_after (K : Order → Val) : ∀ (os : List Order) (cs : List Val),
    (inits1 (os.zip cs)).any (altHolds false K) = afterCursor D os (os.map K) cs := by
  intro os
  induction os with
  | nil => intro cs; simp [inits1, afterCursor]
  | cons o os ih =>
    intro cs
    cases cs with
    | nil => simp [inits1, afterCursor]
    | cons c cs =>
      rw [List.zip_cons_cons, any_inits1_cons, ih cs]
      simp only [List.map_cons, afterCursor, pagingCmp, D, Defects.asImplemented, Bool.not_true, Bool.false_or]
      by_cases hn : K o = .null ∨ c = .null
      · have : ¬ (K o ≠ .null ∧ c ≠ .null) := by rcases hn with h | h <;> simp [h]
        simp [compare?, hn, this]
      · have : K o ≠ .null ∧ c ≠ .null := by
          constructor
          · intro h; exact hn (Or.inl h)
          · intro h; exact hn (Or.inr h)
        cases o.desc <;> simp [compare?, this]

/-- the OR of the alternatives is the evaluator's `before` cursor -/
theorem any_alts_before (K : Order → Val) : ∀ (os : List Order) (cs : List Val),
    (inits1 (os.zip cs)).any (altHolds true K) = beforeCursor D os (os.map K) cs := by
  intro os
  induction os with
  | nil => intro cs; simp [inits1, beforeCursor]
  | cons o os ih =>
    intro cs
    cases cs with
    | nil => simp [inits1, beforeCursor]
    | cons c cs =>
      rw [List.zip_cons_cons, any_inits1_cons, ih cs]
      simp only [List.map_cons, beforeCursor, pagingCmp, D, Defects.asImplemented, Bool.not_true, Bool.false_or]
      by_cases hn : K o = .null ∨ c = .null
      · have : ¬ (K o ≠ .null ∧ c ≠ .null) := by rcases hn with h | h <;> simp [h]
        simp [compare?, hn, this]
      · have : K o ≠ .null ∧ c ≠ .null := by
          constructor
          · intro h; exact hn (Or.inl h)
          · intro h; exact hn (Or.inr h)
        cases o.desc <;> simp [compare?, this]

/-! ## ORDER BY and LIMIT -/

theorem keysLt_eq (nm : Names) (ent : Nat) (Ka Kb : Order → Val) : ∀ os : List Order,
    keysLt (os.map fun o => { lhs := orderLhs nm ent o, desc := o.desc })
        (os.map fun o => SqlVal.ofScalar (Ka o)) (os.map fun o => SqlVal.ofScalar (Kb o)) =
      tupleLt os (os.map Ka) (os.map Kb) := by
  intro os
  induction os with
  | nil => rfl
  | cons o os ih =>
    simp only [List.map_cons, keysLt, tupleLt, lt_ofScalar, ih]
    have he : decide (SqlVal.ofScalar (Ka o) = SqlVal.ofScalar (Kb o)) = (Ka o).same (Kb o) := by
      cases hs : (Ka o).same (Kb o) with
      | true => exact decide_eq_true ((eq_ofScalar_iff _ _).mpr hs)
      | false =>
        apply decide_eq_false
        intro hc
        rw [(eq_ofScalar_iff _ _).mp hc] at hs
        exact absurd hs (by simp)
    rw [he]

theorem applyLimit_eq {α : Type} (first skip : Nat) (l : List α) :
    applyLimit (limitOf first skip).1 (limitOf first skip).2 l = limit first skip l := by
  unfold limitOf applyLimit limit
  by_cases hs : skip = 0
  · by_cases hf : first = 0
    · simp [hs, hf]
    · have : ¬ ((first : Int) < 0) := by omega
      simp [hs, hf, this]
  · by_cases hf : first = 0
    · simp [hs, hf]
    · have : ¬ ((first : Int) < 0) := by omega
      simp [hs, hf, this]

theorem applyLimit_map {α β : Type} (f : α → β) (lim : Option Int) (off : Option Nat) (l : List α) :
    applyLimit lim off (l.map f) = (applyLimit lim off l).map f := by
  unfold applyLimit
  cases lim with
  | none => simp [List.map_drop]
  | some n => by_cases h : n < 0 <;> simp [h, List.map_drop, List.map_take]

theorem mem_limit {α : Type} (first skip : Nat) (l : List α) (x : α) (h : x ∈ limit first skip l) : x ∈ l := by
  unfold limit at h
  by_cases hf : first = 0
  · simp only [hf, if_true] at h; exact List.mem_of_mem_drop h
  · simp only [hf, if_false] at h; exact List.mem_of_mem_drop (List.mem_of_mem_take h)

/-! ## The evaluator on the fragment -/

theorem tupleLe_total (os : List Order) (ka kb : List Val) (h : tupleLe os ka kb = false) : tupleLe os kb ka = true := by
  simp only [tupleLe, Bool.not_eq_eq_eq_not, Bool.not_false] at h
  simp only [tupleLe, Bool.not_eq_eq_eq_not, Bool.not_true]
  exact tupleLt_asymm _ _ _ h

theorem tupleLe_trans (os : List Order) (ka kb kc : List Val)
    (ha : ka.length = os.length) (hb : kb.length = os.length) (hc : kc.length = os.length)
    (h1 : tupleLe os ka kb = true) (h2 : tupleLe os kb kc = true) : tupleLe os ka kc = true := by
  simp only [tupleLe, Bool.not_eq_eq_eq_not, Bool.not_true] at h1 h2 ⊢
  cases h : tupleLt os kc ka with
  | false => rfl
  | true =>
    rcases tupleLt_negtrans os _ _ kb hc ha hb h with h3 | h3
    · rw [h2] at h3; exact absurd h3 (by simp)
    · rw [h1] at h3; exact absurd h3 (by simp)

theorem subPresent_frag (s : Schema) (data : Data) (fuel : Nat) (key : String) (ent : Nat) (r : Row) (sel : Sel)
    (h : selOk s ent sel = true) : subPresent D s data fuel key r sel = true := by
  cases sel <;> simp_all [subPresent, selOk]

theorem holds_frag (s : Schema) (data : Data) (fuel : Nat) (key : String) (q : Query) (r : Row) (f : Filter)
    (hj : f.jpath = none) (ho : f.onRef = false) :
    holds D s data fuel key q r f = filterHolds D s q.ent r f := by
  cases fuel <;> simp [holds, hj, ho]

theorem project_frag (s : Schema) (data : Data) (fuel : Nat) (key : String) (q : Query) (r : Row)
    (hr : r.ent = q.ent) (hs : ∀ sel ∈ q.sels, selOk s q.ent sel = true) :
    project D s data (fuel + 1) key q r = .obj (q.sels.map (projSpec s r)) := by
  simp only [project]
  congr 1
  apply List.map_congr_left
  intro sel hsel
  have hok := hs sel hsel
  cases sel with
  | scalar k fld =>
    obtain ⟨fd, hfd, hk, _⟩ := fieldOk_def (show fieldOk s q.ent fld = true from hok)
    rw [← hr] at hfd
    simp only [projSpec, hfd]
    cases hkind : fd.kind <;> simp_all [scalarKind]
  | id k => rfl
  | agg _ _ _ => simp [selOk] at hok
  | json _ _ _ => simp [selOk] at hok
  | sub _ _ _ _ => simp [selOk] at hok

/-! ## The statement as a whole -/

theorem inFragment_parts {s : Schema} {q : Query} (h : inFragment s q = true) :
    (∀ sel ∈ q.sels, selOk s q.ent sel = true) ∧ distinctKeys (q.sels.map Sel.key) = true ∧
    (∀ f ∈ q.filters, f.jpath = none ∧ f.onRef = false ∧ FilterWf s q.ent q.sels f) ∧
    (∀ o ∈ q.orders, OrderWf s q.ent q.sels o) ∧
    (q.after = [] ∨ q.before = []) ∧ q.after.length ≤ q.orders.length ∧ q.before.length ≤ q.orders.length := by
  simp only [inFragment, Bool.and_eq_true, List.all_eq_true, Bool.or_eq_true, List.isEmpty_iff,
    decide_eq_true_eq] at h
  obtain ⟨⟨⟨⟨⟨⟨⟨⟨h1, h2⟩, h3⟩, h4⟩, h5⟩, h6⟩, h7⟩, _⟩, _⟩ := h
  refine ⟨h1, h2, ?_, ?_, h5, h6, h7⟩
  · intro f hf
    have := h3 f hf
    simp only [filterOk, aliasOk, Bool.and_eq_true, Option.isNone_iff_eq_none, Bool.not_eq_eq_eq_not, Bool.not_true] at this
    obtain ⟨⟨⟨⟨a, b⟩, c⟩, d⟩, e⟩ := this
    exact ⟨a, b, c, d, e⟩
  · intro o ho
    have := h4 o ho
    simp only [orderOk, aliasOk, Bool.and_eq_true] at this
    exact ⟨this.1, this.2⟩

theorem pagingLoop_cons_ne (nm : Names) (ent : Nat) (before : Bool) (ps : Binds) (p : List (Order × Val))
    (rest : List (List (Order × Val))) : (pagingLoop nm ent before ps (p :: rest)).2.isEmpty = false := by
  simp [pagingLoop]

/-- **cursors**: the paging predicate (absent without a cursor) is true for a stored row iff the evaluator's
    `before` / `after` cursor holds for the row -/
theorem pagingOf_spec (env : String → Val) (nm : Names) (s : Schema) (q : Query) (ps : Binds)
    (hfld : ∀ a b, nm.fieldShort q.ent a = nm.fieldShort q.ent b → a = b)
    (V : Row → List (String × J))
    (hV : ∀ (r : Row) (name : String) (fld : Nat), q.sels.any (isScalarSel name fld) = true →
      assoc name (V r) = some (projSpec s r (.scalar name fld)).2)
    (hord : ∀ o ∈ q.orders, OrderWf s q.ent q.sels o)
    (hcur : q.after = [] ∨ q.before = []) (hla : q.after.length ≤ q.orders.length)
    (hlb : q.before.length ≤ q.orders.length) :
    ∃ e, (pagingOf nm q.ent ps q).1 = ps ++ e ∧
      ∀ (more : Binds) (r : Row), r.ent = q.ent →
        (((pagingOf nm q.ent ps q).2.isEmpty = true ∨
            paging3 (bindVal env ((pagingOf nm q.ent ps q).1 ++ more)) (encodeRow nm r) (V r)
              (pagingOf nm q.ent ps q).2 = some true) ↔
          cursorHolds D q.orders q.after q.before (keysOf D s q.ent q.orders r) = true) := by
  have hwfp : ∀ cs : List Val, ∀ p ∈ inits1 (q.orders.zip cs), ∀ x ∈ p, OrderWf s q.ent q.sels x.1 := by
    intro cs p hp x hx
    have hxz := inits1_mem _ p hp x hx
    obtain ⟨o, c⟩ := x
    exact hord o (List.of_mem_zip hxz).1
  obtain ⟨e3, he3, hpg⟩ := pagingLoop_spec env nm s q.ent hfld q.sels V hV (!q.before.isEmpty)
    (inits1 (q.orders.zip (if (!q.before.isEmpty) = true then q.before else q.after))) ps (hwfp _)
  refine ⟨e3, he3, ?_⟩
  intro more r hr
  have hp := hpg more r hr
  show ((pagingLoop nm q.ent (!q.before.isEmpty) ps
      (inits1 (q.orders.zip (if (!q.before.isEmpty) = true then q.before else q.after)))).2.isEmpty = true ∨
    paging3 (bindVal env ((pagingLoop nm q.ent (!q.before.isEmpty) ps
      (inits1 (q.orders.zip (if (!q.before.isEmpty) = true then q.before else q.after)))).1 ++ more)) (encodeRow nm r) (V r)
      (pagingLoop nm q.ent (!q.before.isEmpty) ps
        (inits1 (q.orders.zip (if (!q.before.isEmpty) = true then q.before else q.after)))).2 = some true) ↔ _
  rw [hp]
  have hkeys : keysOf D s q.ent q.orders r = q.orders.map (keyOf D s q.ent r) := rfl
  rw [hkeys]
  cases hb : q.before with
  | nil =>
    cases ha : q.after with
    | nil =>
      simp [inits1, pagingLoop, cursorHolds]
    | cons a as =>
      cases hos : q.orders with
      | nil => rw [ha, hos] at hla; simp at hla
      | cons o os =>
        have hne : (pagingLoop nm q.ent (!([] : List Val).isEmpty) ps
            (inits1 ((o :: os).zip (if (!([] : List Val).isEmpty) = true then [] else a :: as)))).2.isEmpty = false := by
          simp only [List.isEmpty_nil, Bool.not_true, Bool.false_eq_true, if_false, List.zip_cons_cons, inits1]
          exact pagingLoop_cons_ne ..
        rw [hne]
        simp only [Bool.false_eq_true, false_or, List.isEmpty_nil, Bool.not_true, if_false, cursorHolds,
          List.isEmpty_cons, Bool.false_or, Bool.true_or, Bool.and_true]
        rw [any_alts_after]
  | cons b bs =>
    have ha : q.after = [] := by
      rcases hcur with h | h
      · exact h
      · rw [hb] at h; exact absurd h (by simp)
    cases hos : q.orders with
    | nil => rw [hb, hos] at hlb; simp at hlb
    | cons o os =>
      have hne : (pagingLoop nm q.ent (!(b :: bs).isEmpty) ps
          (inits1 ((o :: os).zip (if (!(b :: bs).isEmpty) = true then b :: bs else q.after)))).2.isEmpty = false := by
        simp only [List.isEmpty_cons, Bool.not_false, if_true, List.zip_cons_cons, inits1]
        exact pagingLoop_cons_ne ..
      rw [hne]
      simp only [Bool.false_eq_true, false_or, List.isEmpty_cons, Bool.not_false, if_true, cursorHolds, ha,
        List.isEmpty_nil, Bool.true_or, Bool.true_and, Bool.false_or]
      rw [any_alts_before]

/-- the three clauses of the statement compiled from the bind list `ps`, on a stored row of the query's entity,
    read under any extension `more` of the statement's bind list -/
theorem compileFrom_parts (env : String → Val) (nm : Names) (s : Schema) (vn : Nat → String) (q : Query) (ps : Binds)
    (hfrag : inFragment s q = true)
    (hfld : ∀ a b, nm.fieldShort q.ent a = nm.fieldShort q.ent b → a = b)
    (henv : ∀ i f, q.filters[i]? = some f → f.isParam = true → env (vn i) = f.value) :
    ∃ e, (compileFrom nm s vn ps q).binds = ps ++ e ∧
      ∀ (more : Binds) (r : Row), r.ent = q.ent →
        valueOf (bindVal env ((compileFrom nm s vn ps q).binds ++ more)) (compileFrom nm s vn ps q).proj (encodeRow nm r) =
          q.sels.map (projSpec s r) ∧
        ((∀ c ∈ (compileFrom nm s vn ps q).filters,
            cond3 (bindVal env ((compileFrom nm s vn ps q).binds ++ more)) (encodeRow nm r) (q.sels.map (projSpec s r)) c =
              some true) ↔
          ∀ f ∈ q.filters, filterHolds D s q.ent r f = true) ∧
        (((compileFrom nm s vn ps q).paging.isEmpty = true ∨
            paging3 (bindVal env ((compileFrom nm s vn ps q).binds ++ more)) (encodeRow nm r) (q.sels.map (projSpec s r))
              (compileFrom nm s vn ps q).paging = some true) ↔
          cursorHolds D q.orders q.after q.before (keysOf D s q.ent q.orders r) = true) := by
  obtain ⟨hsels, hdist, hfil, hord, hcur, hla, hlb⟩ := inFragment_parts hfrag
  obtain ⟨e1, he1, hproj⟩ := projLoop_spec env nm s q.ent hfld q.sels ps hsels
  have hV : ∀ (r : Row) (name : String) (fld : Nat), q.sels.any (isScalarSel name fld) = true →
      assoc name (q.sels.map (projSpec s r)) = some (projSpec s r (.scalar name fld)).2 :=
    fun r name fld ha => assoc_projSpec s r name fld q.sels hdist ha
  obtain ⟨e2, he2, hflt⟩ := filtersLoop_spec env nm s q.ent hfld q.sels (fun r => q.sels.map (projSpec s r)) hV vn q.filters
    (projLoop nm s q.ent ps q.sels).1 0 (fun f hf => (hfil f hf).2.2)
    (fun j f hj hp => by have := henv j f hj hp; simpa using this)
  obtain ⟨e3, he3, hpg⟩ := pagingOf_spec env nm s q
    (filtersLoop nm s q.ent vn (projLoop nm s q.ent ps q.sels).1 0 q.filters).1 hfld
    (fun r => q.sels.map (projSpec s r)) hV hord hcur hla hlb
  have hbinds : (compileFrom nm s vn ps q).binds =
      (pagingOf nm q.ent (filtersLoop nm s q.ent vn (projLoop nm s q.ent ps q.sels).1 0 q.filters).1 q).1 := rfl
  refine ⟨e1 ++ (e2 ++ e3), by rw [hbinds, he3, he2, he1]; simp only [List.append_assoc], ?_⟩
  intro more r hr
  refine ⟨?_, ?_, ?_⟩
  · have := hproj (e2 ++ (e3 ++ more)) r hr
    rw [hbinds, he3, he2]
    simp only [List.append_assoc]
    exact this
  · have := hflt (e3 ++ more) r hr
    rw [hbinds, he3]
    simp only [List.append_assoc]
    exact this
  · exact hpg more r hr

theorem whereHolds_iff (st : SqlSelect) (bv : Nat → SqlVal) (row : NodeRow) :
    whereHolds st bv row = true ↔
      row.entity = st.entity ∧
      (∀ c ∈ st.filters, cond3 bv row (valueOf bv st.proj row) c = some true) ∧
      (st.paging.isEmpty = true ∨ paging3 bv row (valueOf bv st.proj row) st.paging = some true) := by
  unfold whereHolds
  simp only [decide_eq_true_eq]
  rw [all3_true_iff]
  constructor
  · intro h
    refine ⟨?_, ?_, ?_⟩
    · have := h (some (decide (row.entity = st.entity))) (by simp)
      simpa using this
    · intro c hc
      exact h _ (by simp only [List.mem_append, List.mem_map]; exact Or.inl (Or.inr ⟨c, hc, rfl⟩))
    · cases hp : st.paging.isEmpty with
      | true => exact Or.inl rfl
      | false =>
        right
        exact h _ (by simp [hp])
  · rintro ⟨h1, h2, h3⟩ x hx
    simp only [List.mem_append, List.mem_cons, List.not_mem_nil, or_false, List.mem_map] at hx
    rcases hx with (hx | ⟨c, hc, hx⟩) | hx
    · rw [hx]; simp [h1]
    · rw [← hx]; exact h2 c hc
    · cases hp : st.paging.isEmpty with
      | true => simp [hp] at hx
      | false =>
        simp only [hp, Bool.false_eq_true, if_false, List.mem_cons, List.not_mem_nil, or_false] at hx
        rcases h3 with h3 | h3
        · rw [hp] at h3; exact absurd h3 (by simp)
        · rw [hx]; exact h3

/-- the rows the evaluator keeps: of the entity, satisfying every filter and the cursor -/
def keep (s : Schema) (q : Query) (r : Row) : Bool :=
  decide (r.ent = q.ent) && q.filters.all (filterHolds D s q.ent r) &&
    cursorHolds D q.orders q.after q.before (keysOf D s q.ent q.orders r)

/-- the evaluator's order of two rows -/
def rowLe (s : Schema) (q : Query) (a b : Row) : Bool :=
  tupleLe q.orders (keysOf D s q.ent q.orders a) (keysOf D s q.ent q.orders b)

/-- **WHERE**: the compiled condition keeps exactly the rows of the entity that satisfy every filter and the cursor -/
theorem whereHolds_spec (env : String → Val) (nm : Names) (s : Schema) (vn : Nat → String) (q : Query) (ps more : Binds)
    (hfrag : inFragment s q = true)
    (hent : ∀ a b, nm.entShort a = nm.entShort b → a = b)
    (hfld : ∀ a b, nm.fieldShort q.ent a = nm.fieldShort q.ent b → a = b)
    (henv : ∀ i f, q.filters[i]? = some f → f.isParam = true → env (vn i) = f.value)
    (r : Row) :
    whereHolds (compileFrom nm s vn ps q) (bindVal env ((compileFrom nm s vn ps q).binds ++ more)) (encodeRow nm r) =
      keep s q r := by
  obtain ⟨_, _, hparts⟩ := compileFrom_parts env nm s vn q ps hfrag hfld henv
  rw [Bool.eq_iff_iff, whereHolds_iff]
  simp only [keep, Bool.and_eq_true, decide_eq_true_eq, List.all_eq_true]
  have hentity : (encodeRow nm r).entity = (compileFrom nm s vn ps q).entity ↔ r.ent = q.ent := by
    show nm.entShort r.ent = nm.entShort q.ent ↔ _
    exact ⟨hent _ _, fun h => by rw [h]⟩
  constructor
  · rintro ⟨h1, h2, h3⟩
    have hr := hentity.mp h1
    obtain ⟨hv, hf, hp⟩ := hparts more r hr
    rw [hv] at h2 h3
    exact ⟨⟨hr, hf.mp h2⟩, hp.mp h3⟩
  · rintro ⟨⟨hr, h2⟩, h3⟩
    obtain ⟨hv, hf, hp⟩ := hparts more r hr
    rw [hv]
    exact ⟨hentity.mpr hr, hf.mpr h2, hp.mpr h3⟩

/-- **ORDER BY**: the keys of a stored row of the entity are the evaluator's order keys -/
theorem orderKeys_spec (env : String → Val) (nm : Names) (s : Schema) (vn : Nat → String) (q : Query) (ps more : Binds)
    (hfrag : inFragment s q = true)
    (hfld : ∀ a b, nm.fieldShort q.ent a = nm.fieldShort q.ent b → a = b)
    (henv : ∀ i f, q.filters[i]? = some f → f.isParam = true → env (vn i) = f.value)
    (r : Row) (hr : r.ent = q.ent) :
    orderKeys (compileFrom nm s vn ps q) (bindVal env ((compileFrom nm s vn ps q).binds ++ more)) (encodeRow nm r) =
      q.orders.map fun o => SqlVal.ofScalar (keyOf D s q.ent r o) := by
  obtain ⟨_, hdist, _, hord, _, _, _⟩ := inFragment_parts hfrag
  obtain ⟨_, _, hparts⟩ := compileFrom_parts env nm s vn q ps hfrag hfld henv
  obtain ⟨hv, _, _⟩ := hparts more r hr
  unfold orderKeys
  rw [hv]
  show (q.orders.map fun o => ({ lhs := orderLhs nm q.ent o, desc := o.desc } : OrderTerm)).map _ = _
  rw [List.map_map]
  apply List.map_congr_left
  intro o ho
  exact lhsVal_order nm s q.ent hfld q.sels (fun r => q.sels.map (projSpec s r))
    (fun r name fld ha => assoc_projSpec s r name fld q.sels hdist ha) r hr o (hord o ho)

theorem mem_keep_ent {s : Schema} {q : Query} {l : List Row} {r : Row} (h : r ∈ l.filter (keep s q)) : r.ent = q.ent := by
  have := (List.mem_filter.mp h).2
  simp only [keep, Bool.and_eq_true, decide_eq_true_eq] at this
  exact this.1.1

/-- the evaluator on a query of the fragment: filter, stable sort (before `first` / `skip`) -/
theorem evalRows_frag (s : Schema) (data : Data) (fuel : Nat) (key : String) (q : Query) (cands : List Row)
    (hfrag : inFragment s q = true) :
    evalRows D s data (fuel + 1) key q cands false = sortBy (rowLe s q) (cands.filter (keep s q)) := by
  obtain ⟨hsels, _, hfil, _, _, _, _⟩ := inFragment_parts hfrag
  simp only [evalRows, Bool.false_eq_true, if_false]
  show List.filter _ (sortBy (rowLe s q) _) = _
  rw [filter_sortBy (rowLe s q) (fun a b h => tupleLe_total _ _ _ h)
    (fun a b c h1 h2 => tupleLe_trans _ _ _ _ (keysOf_length ..) (keysOf_length ..) (keysOf_length ..) h1 h2),
    List.filter_filter]
  congr 1
  apply List.filter_congr
  intro r _
  have h1 : (q.sels.all fun sel => subPresent D s data fuel key r sel) = true :=
    List.all_eq_true.mpr fun sel hsel => subPresent_frag s data _ key q.ent r sel (hsels sel hsel)
  have h2 : q.filters.all (holds D s data fuel key q r) = q.filters.all (filterHolds D s q.ent r) := by
    rw [Bool.eq_iff_iff]
    simp only [List.all_eq_true]
    constructor
    · intro h f hf
      rw [← holds_frag s data fuel key q r f (hfil f hf).1 (hfil f hf).2.1]; exact h f hf
    · intro h f hf
      rw [holds_frag s data fuel key q r f (hfil f hf).1 (hfil f hf).2.1]; exact h f hf
  simp only [keep, h1, h2, Bool.and_true]
  rw [Bool.and_comm]

/-- **WHERE + ORDER BY**: filtering and sorting the stored candidates is the evaluator's selection, row for row -/
theorem compileFrom_sorted (env : String → Val) (nm : Names) (s : Schema) (vn : Nat → String) (q : Query) (ps more : Binds)
    (hfrag : inFragment s q = true)
    (hent : ∀ a b, nm.entShort a = nm.entShort b → a = b)
    (hfld : ∀ a b, nm.fieldShort q.ent a = nm.fieldShort q.ent b → a = b)
    (henv : ∀ i f, q.filters[i]? = some f → f.isParam = true → env (vn i) = f.value)
    (data : Data) (fuel : Nat) (key : String) (cands : List Row) :
    sortBy (fun a b => !keysLt (compileFrom nm s vn ps q).order
        (orderKeys (compileFrom nm s vn ps q) (bindVal env ((compileFrom nm s vn ps q).binds ++ more)) b)
        (orderKeys (compileFrom nm s vn ps q) (bindVal env ((compileFrom nm s vn ps q).binds ++ more)) a))
      ((cands.map (encodeRow nm)).filter
        (whereHolds (compileFrom nm s vn ps q) (bindVal env ((compileFrom nm s vn ps q).binds ++ more)))) =
      (evalRows D s data (fuel + 1) key q cands false).map (encodeRow nm) := by
  rw [evalRows_frag s data fuel key q cands hfrag, List.filter_map]
  have hkeep : cands.filter ((whereHolds (compileFrom nm s vn ps q)
      (bindVal env ((compileFrom nm s vn ps q).binds ++ more))) ∘ encodeRow nm) = cands.filter (keep s q) := by
    apply List.filter_congr
    intro r _
    exact whereHolds_spec env nm s vn q ps more hfrag hent hfld henv r
  rw [hkeep]
  apply sortBy_map
  intro a ha b hb
  rw [orderKeys_spec env nm s vn q ps more hfrag hfld henv a (mem_keep_ent ha),
    orderKeys_spec env nm s vn q ps more hfrag hfld henv b (mem_keep_ent hb)]
  show (!keysLt (q.orders.map fun o => ({ lhs := orderLhs nm q.ent o, desc := o.desc } : OrderTerm)) _ _) = _
  rw [keysLt_eq]
  rfl

theorem mem_evalRows_ent (s : Schema) (data : Data) (fuel : Nat) (key : String) (q : Query) (cands : List Row)
    (hfrag : inFragment s q = true) (lim : Bool) (r : Row) (h : r ∈ evalRows D s data (fuel + 1) key q cands lim) :
    r.ent = q.ent := by
  have h' : r ∈ evalRows D s data (fuel + 1) key q cands false := by
    cases lim with
    | false => exact h
    | true => rw [evalRows_limited] at h; exact mem_limit _ _ _ r h
  rw [evalRows_frag s data fuel key q cands hfrag] at h'
  exact mem_keep_ent ((mem_sortBy _ r _).mp h')

/-- **projection**: the `json_object` of a stored row of the entity is the evaluator's projection -/
theorem compileFrom_value (env : String → Val) (nm : Names) (s : Schema) (vn : Nat → String) (q : Query) (ps more : Binds)
    (hfrag : inFragment s q = true)
    (hfld : ∀ a b, nm.fieldShort q.ent a = nm.fieldShort q.ent b → a = b)
    (henv : ∀ i f, q.filters[i]? = some f → f.isParam = true → env (vn i) = f.value)
    (data : Data) (fuel : Nat) (key : String) (r : Row) (hr : r.ent = q.ent) :
    J.obj (valueOf (bindVal env ((compileFrom nm s vn ps q).binds ++ more)) (compileFrom nm s vn ps q).proj (encodeRow nm r)) =
      project D s data (fuel + 1) key q r := by
  obtain ⟨hsels, _⟩ := inFragment_parts hfrag
  obtain ⟨_, _, hparts⟩ := compileFrom_parts env nm s vn q ps hfrag hfld henv
  rw [(hparts more r hr).1, project_frag s data fuel key q r hr hsels]

/-- **the compiled statement computes the evaluator's result** (see `C05_compile_correct`) -/
theorem compile_correct (nm : Names) (s : Schema) (data : Data) (q : Query) (vn : Nat → String) (env : String → Val)
    (fuel : Nat) (rootKey : String)
    (hfrag : inFragment s q = true)
    (hent : ∀ a b, nm.entShort a = nm.entShort b → a = b)
    (hfld : ∀ a b, nm.fieldShort q.ent a = nm.fieldShort q.ent b → a = b)
    (henv : ∀ i f, q.filters[i]? = some f → f.isParam = true → env (vn i) = f.value) :
    run (encode nm data) (compile nm s vn q) env = eval D s data (fuel + 2) rootKey q := by
  obtain ⟨hsels, _⟩ := inFragment_parts hfrag
  have hagg : q.isAggregate = false := by
    simp only [Query.isAggregate, List.any_eq_false]
    intro sel hsel
    have := hsels sel hsel
    cases sel <;> simp_all [Sel.isAgg, selOk]
  have heval : eval D s data (fuel + 2) rootKey q =
      (limit q.first q.skip (evalRows D s data (fuel + 2) rootKey q data false)).map
        (project D s data (fuel + 1) rootKey q) := by
    simp only [eval, hagg, Bool.false_eq_true, if_false, evalList]
    rw [evalRows_limited]
  rw [heval]
  have hsorted := compileFrom_sorted env nm s vn q [] [] hfrag hent hfld henv data (fuel + 1) rootKey data
  rw [List.append_nil] at hsorted
  show (applyLimit (compileFrom nm s vn [] q).limit (compileFrom nm s vn [] q).offset
      (sortBy (fun a b => !keysLt (compileFrom nm s vn [] q).order
          (orderKeys (compileFrom nm s vn [] q) (bindVal env (compileFrom nm s vn [] q).binds) b)
          (orderKeys (compileFrom nm s vn [] q) (bindVal env (compileFrom nm s vn [] q).binds) a))
        ((data.map (encodeRow nm)).filter (whereHolds (compileFrom nm s vn [] q) (bindVal env (compileFrom nm s vn [] q).binds))))).map
      (fun row => J.obj (valueOf (bindVal env (compileFrom nm s vn [] q).binds) (compileFrom nm s vn [] q).proj row)) = _
  rw [hsorted]
  have hlim : (compileFrom nm s vn [] q).limit = (limitOf q.first q.skip).1 ∧
      (compileFrom nm s vn [] q).offset = (limitOf q.first q.skip).2 := ⟨rfl, rfl⟩
  rw [hlim.1, hlim.2, applyLimit_map, applyLimit_eq, List.map_map]
  apply List.map_congr_left
  intro r hr
  have hrent : r.ent = q.ent :=
    mem_evalRows_ent s data (fuel + 1) rootKey q data hfrag false r (mem_limit _ _ _ r hr)
  have := compileFrom_value env nm s vn q [] [] hfrag hfld henv data fuel rootKey r hrent
  rw [List.append_nil] at this
  simp only [Function.comp]
  exact this

end Discret.SqlCompile
