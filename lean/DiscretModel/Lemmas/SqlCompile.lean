import DiscretModel.Model.SqlSem
import DiscretModel.Lemmas.QueryOrder
/-
The SQL the compiler model generates (`Model/SqlGen.lean`) means, under the SQL semantics `Model/SqlSem.lean`,
what the reference evaluator computes (`Model/Query.lean`, `Defects.asImplemented`): one lemma per clause
(values, bound parameters, projection, filters, cursors, ordering, limits), assembled in `compile_correct`.
-/
namespace Discret.SqlCompile
open Discret.Query Discret.SqlGen Discret.SqlSem

/-! ## Lists: sorting commutes with maps and filters -/

theorem insertBy_map {α β : Type} (f : α → β) (le : α → α → Bool) (le' : β → β → Bool) (x : α) (l : List α)
    (h : ∀ y ∈ l, le' (f x) (f y) = le x y) :
    insertBy le' (f x) (l.map f) = (insertBy le x l).map f := by
  induction l with
  | nil => rfl
  | cons y t ih =>
    simp only [List.map_cons, insertBy, h y (by simp)]
    split
    · rfl
    · rw [List.map_cons, ih (fun z hz => h z (by simp [hz]))]

theorem sortBy_cons {α : Type} (le : α → α → Bool) (a : α) (t : List α) :
    sortBy le (a :: t) = insertBy le a (sortBy le t) := rfl

theorem sortBy_map {α β : Type} (f : α → β) (le : α → α → Bool) (le' : β → β → Bool) (l : List α)
    (h : ∀ x ∈ l, ∀ y ∈ l, le' (f x) (f y) = le x y) :
    sortBy le' (l.map f) = (sortBy le l).map f := by
  induction l with
  | nil => rfl
  | cons a t ih =>
    rw [List.map_cons, sortBy_cons, sortBy_cons, ih (fun x hx y hy => h x (by simp [hx]) y (by simp [hy]))]
    apply insertBy_map
    intro y hy
    exact h a (by simp) y (by simp [(mem_sortBy le y t).mp hy])

/-- inserting below every element puts the element first -/
theorem insertBy_of_le_all {α : Type} (le : α → α → Bool) (x : α) (l : List α) (h : ∀ y ∈ l, le x y = true) :
    insertBy le x l = x :: l := by
  cases l with
  | nil => rfl
  | cons y t => simp [insertBy, h y (by simp)]

theorem filter_insertBy {α : Type} (le : α → α → Bool)
    (htr : ∀ a b c, le a b = true → le b c = true → le a c = true) (p : α → Bool) (x : α) (l : List α)
    (hl : l.Pairwise fun a b => le a b = true) :
    (insertBy le x l).filter p = if p x then insertBy le x (l.filter p) else l.filter p := by
  induction l with
  | nil => cases hp : p x <;> simp [insertBy, hp]
  | cons y t ih =>
    rw [List.pairwise_cons] at hl
    obtain ⟨hy, ht⟩ := hl
    simp only [insertBy]
    cases hxy : le x y with
    | true =>
      simp only [if_true]
      have hall : ∀ z ∈ (y :: t).filter p, le x z = true := by
        intro z hz
        have hz' := (List.mem_filter.mp hz).1
        rcases List.mem_cons.mp hz' with hz' | hz'
        · rw [hz']; exact hxy
        · exact htr x y z hxy (hy z hz')
      cases hp : p x with
      | true =>
        rw [if_pos rfl, insertBy_of_le_all le x _ hall, List.filter_cons (x := x), if_pos hp]
      | false =>
        rw [if_neg (by simp), List.filter_cons (x := x), if_neg (by simp [hp])]
    | false =>
      simp only [Bool.false_eq_true, if_false]
      cases hpy : p y with
      | true =>
        simp only [List.filter_cons, hpy, if_true, ih ht]
        cases hp : p x with
        | true => simp [insertBy, hxy]
        | false => simp
      | false =>
        simp only [List.filter_cons, hpy, Bool.false_eq_true, if_false, ih ht]

theorem filter_sortBy {α : Type} (le : α → α → Bool)
    (htot : ∀ a b, le a b = false → le b a = true)
    (htr : ∀ a b c, le a b = true → le b c = true → le a c = true) (p : α → Bool) (l : List α) :
    (sortBy le l).filter p = sortBy le (l.filter p) := by
  induction l with
  | nil => rfl
  | cons a t ih =>
    rw [sortBy_cons, filter_insertBy le htr p a _ (pairwise_sortBy le htot htr t), ih]
    cases hp : p a with
    | true => simp [hp, sortBy_cons]
    | false => simp [hp]

/-! ## Values -/

theorem ltChars_total : ∀ s t : List Char, ltChars s t = false → ltChars t s = false → s = t := by
  intro s
  induction s with
  | nil => intro t h1 h2; cases t <;> simp_all [ltChars]
  | cons a s ih =>
    intro t h1 h2
    cases t with
    | nil => simp [ltChars] at h2
    | cons b t =>
      simp only [ltChars, Bool.or_eq_false_iff, decide_eq_false_iff_not, Bool.and_eq_false_iff,
        beq_eq_false_iff_ne] at h1 h2
      have hab : a.toNat = b.toNat := by omega
      have hc : a = b := Char.toNat_inj.mp hab
      subst hc
      rcases h1.2 with h | h
      · exact absurd rfl h
      · rcases h2.2 with h' | h'
        · exact absurd rfl h'
        · rw [ih t h h']

theorem ltChars_irrefl (s : List Char) : ltChars s s = false := by
  induction s with
  | nil => rfl
  | cons a s ih => simp [ltChars, ih]

theorem lt_ofScalar (a b : Val) : (SqlVal.ofScalar a).lt (SqlVal.ofScalar b) = a.lt b := by
  cases a <;> cases b <;> simp [SqlVal.ofScalar, SqlVal.lt, Val.lt, Val.num?] <;> rfl

theorem ofScalar_null_iff (v : Val) : SqlVal.ofScalar v = .null ↔ v = .null := by
  cases v <;> simp [SqlVal.ofScalar]

theorem SqlVal.lt_irrefl (a : SqlVal) : a.lt a = false := by
  cases a <;> simp [SqlVal.lt, ltChars_irrefl]

theorem SqlVal.eq_of_not_lt (a b : SqlVal) (h1 : a.lt b = false) (h2 : b.lt a = false) : a = b := by
  cases a <;> cases b <;> simp_all [SqlVal.lt]
  · omega
  · exact ltChars_total _ _ h1 h2

/-- SQL equality of two values is the evaluator's "neither sorts before the other" -/
theorem eq_ofScalar_iff (a b : Val) : SqlVal.ofScalar a = SqlVal.ofScalar b ↔ a.same b = true := by
  unfold Val.same
  rw [← lt_ofScalar, ← lt_ofScalar]
  constructor
  · intro h; rw [h]; simp [SqlVal.lt_irrefl]
  · intro h
    simp only [Bool.and_eq_true, Bool.not_eq_eq_eq_not, Bool.not_true] at h
    exact SqlVal.eq_of_not_lt _ _ h.1 h.2

theorem ofJ_ofVal (v : Val) : SqlVal.ofJ (J.ofVal v) = SqlVal.ofScalar v := by
  cases v <;> rfl

theorem toJ_ofScalar_of_not_bool (v : Val) (h : ∀ b, v ≠ .bool b) : (SqlVal.ofScalar v).toJ = J.ofVal v := by
  cases v <;> simp_all [SqlVal.ofScalar, SqlVal.toJ, J.ofVal]

/-- a comparison of two SQL values that come from JSON scalars: unknown with an absent side, else the
    evaluator's `compare?` -/
theorem cmp3_ofScalar (op : Cmp) (a b : Val) :
    cmp3 (cmpOp op) (SqlVal.ofScalar a) (SqlVal.ofScalar b) =
      if a = .null ∨ b = .null then none else some (compare? op a b) := by
  by_cases h : a = .null ∨ b = .null
  · have h' : SqlVal.ofScalar a = .null ∨ SqlVal.ofScalar b = .null := by
      rcases h with h | h
      · exact Or.inl ((ofScalar_null_iff a).mpr h)
      · exact Or.inr ((ofScalar_null_iff b).mpr h)
    cases op <;> simp [cmp3, cmpOp, h, h']
  · have h' : ¬ (SqlVal.ofScalar a = .null ∨ SqlVal.ofScalar b = .null) := by
      rw [ofScalar_null_iff, ofScalar_null_iff]; exact h
    have he : decide (SqlVal.ofScalar a = SqlVal.ofScalar b) = a.same b := by
      cases hs : a.same b with
      | true => exact decide_eq_true ((eq_ofScalar_iff a b).mpr hs)
      | false =>
        apply decide_eq_false
        intro hc
        rw [(eq_ofScalar_iff a b).mp hc] at hs
        exact absurd hs (by simp)
    cases op <;> simp [cmp3, cmpOp, compare?, h, h', lt_ofScalar, he]

theorem cmp3_true_iff (op : Cmp) (a b : Val) :
    cmp3 (cmpOp op) (SqlVal.ofScalar a) (SqlVal.ofScalar b) = some true ↔ compare? op a b = true := by
  rw [cmp3_ofScalar]
  by_cases h : a = .null ∨ b = .null
  · simp [h, compare?]
  · simp [h]

/-! ## Bound parameters: a slot, once allocated, keeps its value whatever is bound after it -/

theorem bindVal_append (env : String → Val) (ps more : Binds) (n : Nat) (h : n ≤ ps.length) :
    bindVal env (ps ++ more) n = bindVal env ps n := by
  cases n with
  | zero => rfl
  | succ k => simp only [bindVal]; rw [List.getElem?_append_left (by omega)]

theorem findVar_spec (x : String) : ∀ (ps : Binds) (i n : Nat), findVar x ps i = some n →
    ∃ k, n = i + k ∧ ps[k]? = some (.var x) := by
  intro ps
  induction ps with
  | nil => intro i n h; simp [findVar] at h
  | cons b t ih =>
    intro i n h
    cases b with
    | text s =>
      simp only [findVar] at h
      obtain ⟨k, hk, hget⟩ := ih (i + 1) n h
      exact ⟨k + 1, by omega, by simpa using hget⟩
    | var y =>
      simp only [findVar] at h
      by_cases hy : y = x
      · simp only [hy, if_true, Option.some.injEq] at h
        exact ⟨0, by omega, by simp [hy]⟩
      · simp only [hy, if_false] at h
        obtain ⟨k, hk, hget⟩ := ih (i + 1) n h
        exact ⟨k + 1, by omega, by simpa using hget⟩

/-- the value an operand has under every extension of the bind list `ps` -/
def Stable (env : String → Val) (ps : Binds) (o : Operand) (w : SqlVal) : Prop :=
  ∀ more, operand (bindVal env (ps ++ more)) o = w

theorem Stable.extend {env : String → Val} {ps : Binds} {o : Operand} {w : SqlVal} (h : Stable env ps o w)
    (e : Binds) : Stable env (ps ++ e) o w := by
  intro more; rw [List.append_assoc]; exact h _

theorem addParam_text_spec (env : String → Val) (ps : Binds) (t : List Char) :
    ∃ e, (addParam ps (.text t)).1 = ps ++ e ∧
      Stable env (addParam ps (.text t)).1 (.bind (addParam ps (.text t)).2) (.text t) := by
  refine ⟨[.text t], rfl, ?_⟩
  intro more
  simp only [addParam, operand, bindVal]
  rw [List.append_assoc, List.getElem?_append_right (by omega)]
  simp

theorem addParam_var_spec (env : String → Val) (ps : Binds) (x : String) :
    ∃ e, (addParam ps (.var x)).1 = ps ++ e ∧
      Stable env (addParam ps (.var x)).1 (.bind (addParam ps (.var x)).2) (SqlVal.ofScalar (env x)) := by
  simp only [addParam]
  cases hf : findVar x ps 1 with
  | some n =>
    obtain ⟨k, hk, hget⟩ := findVar_spec x ps 1 n hf
    refine ⟨[], by simp, ?_⟩
    intro more
    have hlt : k < ps.length := by
      rcases Nat.lt_or_ge k ps.length with h | h
      · exact h
      · rw [List.getElem?_eq_none h] at hget; exact absurd hget (by simp)
    have hn : n = k + 1 := by omega
    simp only [operand, hn, bindVal]
    rw [List.getElem?_append_left hlt, hget]
  | none =>
    refine ⟨[.var x], rfl, ?_⟩
    intro more
    simp only [operand, bindVal]
    rw [List.append_assoc, List.getElem?_append_right (by omega)]
    simp

/-- a literal or default written into the statement has, wherever it is read, the SQL value of the scalar -/
theorem litOperand_spec (env : String → Val) (ps : Binds) (v : Val) :
    ∃ e, (litOperand ps v).1 = ps ++ e ∧ Stable env (litOperand ps v).1 (litOperand ps v).2 (SqlVal.ofScalar v) := by
  cases v with
  | null => exact ⟨[], by simp [litOperand], fun _ => rfl⟩
  | bool b => exact ⟨[], by simp [litOperand], fun _ => rfl⟩
  | int i => exact ⟨[], by simp [litOperand], fun _ => rfl⟩
  | str t => exact addParam_text_spec env ps t

/-! ## The stored row and the projection -/

abbrev D : Defects := Defects.asImplemented

theorem assoc_map_key {α : Type} (g : Nat → String) (hg : ∀ a b, g a = g b → a = b) (k : Nat) (l : List (Nat × α)) :
    assoc (g k) (l.map fun kv => (g kv.1, kv.2)) = lookup k l := by
  induction l with
  | nil => rfl
  | cons kv t ih =>
    obtain ⟨a, v⟩ := kv
    simp only [List.map_cons, assoc, lookup]
    by_cases h : a = k
    · simp [h]
    · have : g a ≠ g k := fun hc => h (hg a k hc)
      simp [h, this, ih]

/-- reading `_json` under the short name of a field gives the stored value of the field -/
theorem assoc_encode (nm : Names) (r : Row) (hinj : ∀ a b, nm.fieldShort r.ent a = nm.fieldShort r.ent b → a = b)
    (fld : Nat) : assoc (nm.fieldShort r.ent fld) (encodeRow nm r).json = r.stored fld :=
  assoc_map_key (nm.fieldShort r.ent) hinj fld r.vals

/-- what the evaluator's projection returns for one selection of the fragment -/
def projSpec (s : Schema) (r : Row) : Sel → String × J
  | .scalar key fld =>
    (key, match fieldDef s r.ent fld with
          | some fd => J.ofVal (selected D fd (r.stored fld))
          | none => .null)
  | .id key => (key, .id r.id)
  | sel => (Sel.key sel, .null)

theorem projSpec_key (s : Schema) (r : Row) (sel : Sel) : (projSpec s r sel).1 = Sel.key sel := by
  cases sel <;> rfl

/-- the selected value: the stored one (an explicit `null` included), else the default as `json_object` writes it -/
theorem ofVal_selected (fd : FieldDef) (stored : Option Val) :
    J.ofVal (selected D fd stored) =
      match stored with
      | some v => J.ofVal v
      | none => (match fd.dflt with | some dv => (SqlVal.ofScalar dv).toJ | none => .null) := by
  cases stored with
  | some v => cases v <;> simp [selected, D, Defects.asImplemented, J.ofVal]
  | none =>
    cases hd : fd.dflt with
    | none => simp [selected, hd, J.ofVal]
    | some dv => cases dv <;> simp [selected, hd, D, Defects.asImplemented, J.ofVal, SqlVal.ofScalar, SqlVal.toJ]

theorem ofScalar_selected (fd : FieldDef) (stored : Option Val) :
    SqlVal.ofScalar (selected D fd stored) =
      match stored with
      | some v => SqlVal.ofScalar v
      | none => (match fd.dflt with | some dv => SqlVal.ofScalar dv | none => .null) := by
  cases stored with
  | some v => cases v <;> simp [selected, D, Defects.asImplemented, SqlVal.ofScalar]
  | none =>
    cases hd : fd.dflt with
    | none => simp [selected, hd, SqlVal.ofScalar]
    | some dv => cases dv <;> simp [selected, hd, D, Defects.asImplemented, SqlVal.ofScalar]

theorem fieldOk_def {s : Schema} {ent fld : Nat} (h : fieldOk s ent fld = true) :
    ∃ fd, fieldDef s ent fld = some fd ∧ scalarKind fd.kind = true ∧ fd.dflt ≠ some .null := by
  unfold fieldOk at h
  cases hf : fieldDef s ent fld with
  | none => simp [hf] at h
  | some fd =>
    simp only [hf, Bool.and_eq_true, bne_iff_ne, ne_eq] at h
    exact ⟨fd, rfl, h.1, h.2⟩

theorem valueOf_cons (bv : Nat → SqlVal) (k : String) (e : ProjExpr) (rest : List (String × ProjExpr)) (row : NodeRow) :
    valueOf bv ((k, e) :: rest) row = (k, projVal bv row e) :: valueOf bv rest row := rfl

/-- **projection**: the `json_object` of a stored row is the evaluator's projection of the row, wherever the bound
    defaults are read -/
theorem projLoop_spec (env : String → Val) (nm : Names) (s : Schema) (ent : Nat)
    (hinj : ∀ a b, nm.fieldShort ent a = nm.fieldShort ent b → a = b) :
    ∀ (sels : List Sel) (ps : Binds), (∀ sel ∈ sels, selOk s ent sel = true) →
      ∃ e, (projLoop nm s ent ps sels).1 = ps ++ e ∧
        ∀ (more : Binds) (r : Row), r.ent = ent →
          valueOf (bindVal env ((projLoop nm s ent ps sels).1 ++ more)) (projLoop nm s ent ps sels).2 (encodeRow nm r) =
            sels.map (projSpec s r) := by
  intro sels
  induction sels with
  | nil => intro ps _; exact ⟨[], by simp [projLoop], fun _ _ _ => rfl⟩
  | cons sel rest ih =>
    intro ps hok
    have hrest : ∀ x ∈ rest, selOk s ent x = true := fun x hx => hok x (by simp [hx])
    have hsel := hok sel (by simp)
    cases sel with
    | scalar key fld =>
      obtain ⟨fd, hfd, _, _⟩ := fieldOk_def (show fieldOk s ent fld = true from hsel)
      cases hdv : defaultOf s ent fld with
      | none =>
        obtain ⟨e, he, hv⟩ := ih ps hrest
        refine ⟨e, by simp only [projLoop, hdv]; exact he, ?_⟩
        intro more r hr
        subst hr
        have hd : fd.dflt = none := by simpa [defaultOf, hfd] using hdv
        simp only [projLoop, hdv]
        rw [valueOf_cons, hv more r rfl, List.map_cons]
        simp only [projVal, projSpec, hfd]
        rw [assoc_encode nm r hinj fld, ofVal_selected, hd]
        cases r.stored fld <;> rfl
      | some dv =>
        obtain ⟨e1, he1, hst⟩ := litOperand_spec env ps dv
        obtain ⟨e2, he2, hv⟩ := ih (litOperand ps dv).1 hrest
        refine ⟨e1 ++ e2, by simp only [projLoop, hdv]; rw [he2, he1, List.append_assoc], ?_⟩
        intro more r hr
        subst hr
        have hd : fd.dflt = some dv := by simpa [defaultOf, hfd] using hdv
        simp only [projLoop, hdv]
        rw [valueOf_cons, hv more r rfl, List.map_cons]
        simp only [projVal, projSpec, hfd]
        rw [assoc_encode nm r hinj fld, ofVal_selected, hd]
        have hop : operand (bindVal env ((projLoop nm s r.ent (litOperand ps dv).1 rest).1 ++ more)) (litOperand ps dv).2 =
            SqlVal.ofScalar dv := by
          rw [he2, List.append_assoc]; exact hst _
        rw [hop]
        cases r.stored fld <;> rfl
    | id key =>
      obtain ⟨e, he, hv⟩ := ih ps hrest
      refine ⟨e, by simp only [projLoop]; exact he, ?_⟩
      intro more r hr
      simp only [projLoop]
      rw [valueOf_cons, hv more r hr, List.map_cons]
      rfl
    | agg _ _ _ => simp [selOk] at hsel
    | json _ _ _ => simp [selOk] at hsel
    | sub _ _ _ _ => simp [selOk] at hsel

/-- the key of a scalar selection is found in the projection (keys are distinct) -/
theorem assoc_projSpec (s : Schema) (r : Row) (name : String) (fld : Nat) :
    ∀ sels : List Sel, distinctKeys (sels.map Sel.key) = true →
      (sels.any fun sel => match sel with | .scalar k f => k == name && f == fld | _ => false) = true →
      assoc name (sels.map (projSpec s r)) = some (projSpec s r (.scalar name fld)).2 := by
  intro sels
  induction sels with
  | nil => intro _ h; simp at h
  | cons sel rest ih =>
    intro hd ha
    simp only [List.map_cons, distinctKeys, Bool.and_eq_true, Bool.not_eq_eq_eq_not, Bool.not_true] at hd
    obtain ⟨hnot, hdr⟩ := hd
    simp only [List.any_cons, Bool.or_eq_true] at ha
    have hkey : ∀ x ∈ rest, (match x with | Sel.scalar k f => k == name && f == fld | _ => false) = true →
        Sel.key x = name := by
      intro x _ hx
      cases x <;> simp_all [Sel.key]
    by_cases hk : Sel.key sel = name
    · -- the head has the key: it is the selection looked for
      have hhead : (match sel with | Sel.scalar k f => k == name && f == fld | _ => false) = true := by
        rcases ha with ha | ha
        · exact ha
        · exfalso
          obtain ⟨x, hx, hxm⟩ := List.any_eq_true.mp ha
          have : name ∈ rest.map Sel.key := List.mem_map.mpr ⟨x, hx, hkey x hx hxm⟩
          rw [← hk] at this
          have hc : (rest.map Sel.key).contains (Sel.key sel) = true := List.contains_iff_mem.mpr this
          rw [hc] at hnot; exact absurd hnot (by simp)
      cases sel with
      | scalar k f =>
        simp only [Bool.and_eq_true, beq_iff_eq] at hhead
        obtain ⟨h1, h2⟩ := hhead
        subst h1; subst h2
        simp [assoc, projSpec]
      | _ => simp at hhead
    · have hne : (projSpec s r sel).1 ≠ name := by rw [projSpec_key]; exact hk
      have hrest : (rest.any fun sel => match sel with | .scalar k f => k == name && f == fld | _ => false) = true := by
        rcases ha with ha | ha
        · exfalso
          cases sel <;> simp_all [Sel.key]
        · exact ha
      have := ih hdr hrest
      rw [← this]
      cases hp : projSpec s r sel with
      | mk a b =>
        have : a ≠ name := by rw [hp] at hne; exact hne
        simp [assoc, this]

end Discret.SqlCompile
