import DiscretModel.Lemmas.DailyLogRecompute
/-
The specification `IsLogOf` determines the table (function of the content), is invariant under
re-ordering of the stored rows, and distinguishes contents (the hash is the identity on what it is fed).
-/
namespace Discret.DailyLog

/-! ### sorted signature lists -/

def SigsSorted (l : List Nat) : Prop := l.Pairwise (· ≤ ·)

theorem insertSorted_perm (x : Nat) (l : List Nat) : (insertSorted x l).Perm (x :: l) := by
  induction l with
  | nil => simp [insertSorted]
  | cons y t ih =>
    simp only [insertSorted]
    split
    · exact List.Perm.refl _
    · exact (List.Perm.cons y ih).trans (List.Perm.swap x y t)

theorem sortSigs_perm (l : List Nat) : (sortSigs l).Perm l := by
  induction l with
  | nil => exact List.Perm.refl _
  | cons x t ih => exact (insertSorted_perm x (sortSigs t)).trans (List.Perm.cons x ih)

theorem insertSorted_sorted (x : Nat) {l : List Nat} (h : SigsSorted l) : SigsSorted (insertSorted x l) := by
  induction l with
  | nil => simp [insertSorted, SigsSorted]
  | cons y t ih =>
    simp only [insertSorted]
    split
    · rename_i hxy
      refine List.pairwise_cons.mpr ⟨?_, h⟩
      intro z hz
      rcases List.mem_cons.mp hz with hz | hz
      · subst hz; exact hxy
      · have := (List.pairwise_cons.mp h).1 z hz; omega
    · rename_i hxy
      refine List.pairwise_cons.mpr ⟨?_, ih (List.pairwise_cons.mp h).2⟩
      intro z hz
      have := (insertSorted_perm x t).mem_iff.mp hz
      rcases List.mem_cons.mp this with hz | hz
      · subst hz; omega
      · exact (List.pairwise_cons.mp h).1 z hz

theorem sortSigs_sorted (l : List Nat) : SigsSorted (sortSigs l) := by
  induction l with
  | nil => exact List.Pairwise.nil
  | cons x t ih => exact insertSorted_sorted x ih

/-- two sorted lists with the same elements (with multiplicity) are equal -/
theorem sorted_perm_eq {l1 l2 : List Nat} (h1 : SigsSorted l1) (h2 : SigsSorted l2) (hp : l1.Perm l2) :
    l1 = l2 := by
  induction l1 generalizing l2 with
  | nil => exact (List.Perm.nil_eq hp)
  | cons a t ih =>
    cases l2 with
    | nil => exact absurd hp.symm (by simp)
    | cons b s =>
      have ha : a ∈ b :: s := hp.mem_iff.mp List.mem_cons_self
      have hb : b ∈ a :: t := hp.mem_iff.mpr List.mem_cons_self
      have hab : a = b := by
        rcases List.mem_cons.mp ha with e | e
        · exact e
        · rcases List.mem_cons.mp hb with e' | e'
          · exact e'.symm
          · have x1 := (List.pairwise_cons.mp h2).1 a e
            have x2 := (List.pairwise_cons.mp h1).1 b e'
            omega
      subst hab
      rw [ih (List.pairwise_cons.mp h1).2 (List.pairwise_cons.mp h2).2 (List.Perm.cons_inv hp)]

theorem sortSigs_eq_of_perm {l1 l2 : List Nat} (hp : l1.Perm l2) : sortSigs l1 = sortSigs l2 :=
  sorted_perm_eq (sortSigs_sorted l1) (sortSigs_sorted l2)
    ((sortSigs_perm l1).trans (hp.trans (sortSigs_perm l2).symm))

theorem perm_of_sortSigs_eq {l1 l2 : List Nat} (h : sortSigs l1 = sortSigs l2) : l1.Perm l2 :=
  (sortSigs_perm l1).symm.trans (h ▸ sortSigs_perm l2)

theorem dailyOf_congr {l1 l2 : List Nat} (hp : l1.Perm l2) : dailyOf l1 = dailyOf l2 := by
  unfold dailyOf
  rw [sortSigs_eq_of_perm hp]
  have : l1.isEmpty = l2.isEmpty := by
    cases l1 <;> cases l2 <;> simp_all
  rw [this]

/-- the idealised hash is injective: equal daily hashes, equal signature multisets -/
theorem dailyOf_inj {l1 l2 : List Nat} (h1 : l1 ≠ []) (h : dailyOf l1 = dailyOf l2) : l1.Perm l2 := by
  unfold dailyOf at h
  cases l1 with
  | nil => exact absurd rfl h1
  | cons a t =>
    cases l2 with
    | nil => simp at h
    | cons b s =>
      simp only [List.isEmpty_cons, Bool.false_eq_true, ↓reduceIte, Option.some.injEq, Hash.daily.injEq] at h
      exact perm_of_sortSigs_eq h

/-! ### strictly sorted lists with the same members are equal -/

theorem sorted_ext {α : Type} (lt : α → α → Prop) (irr : ∀ a, ¬ lt a a)
    (asym : ∀ a b, lt a b → ¬ lt b a) :
    ∀ (l1 l2 : List α), l1.Pairwise lt → l2.Pairwise lt → (∀ a, a ∈ l1 ↔ a ∈ l2) → l1 = l2 := by
  intro l1
  induction l1 with
  | nil =>
    intro l2 _ _ hm
    cases l2 with
    | nil => rfl
    | cons b s => exact absurd ((hm b).mpr List.mem_cons_self) (by simp)
  | cons a t ih =>
    intro l2 h1 h2 hm
    cases l2 with
    | nil => exact absurd ((hm a).mp List.mem_cons_self) (by simp)
    | cons b s =>
      have hab : a = b := by
        rcases List.mem_cons.mp ((hm a).mp List.mem_cons_self) with e | e
        · exact e
        · rcases List.mem_cons.mp ((hm b).mpr List.mem_cons_self) with e' | e'
          · exact e'.symm
          · exact absurd ((List.pairwise_cons.mp h1).1 b e') (asym _ _ ((List.pairwise_cons.mp h2).1 a e))
      subst hab
      congr 1
      refine ih s (List.pairwise_cons.mp h1).2 (List.pairwise_cons.mp h2).2 ?_
      intro x
      constructor
      · intro hx
        rcases List.mem_cons.mp ((hm x).mp (List.mem_cons_of_mem _ hx)) with e | e
        · subst e; exact absurd ((List.pairwise_cons.mp h1).1 x hx) (irr x)
        · exact e
      · intro hx
        rcases List.mem_cons.mp ((hm x).mpr (List.mem_cons_of_mem _ hx)) with e | e
        · subst e; exact absurd ((List.pairwise_cons.mp h2).1 x hx) (irr x)
        · exact e


/-! ### the specification determines the table -/

theorem group_unique_of_sorted {log : Log} (hs : GroupsSorted log) {g g' : Group} (hg : g ∈ log) (hg' : g' ∈ log)
    (hr : g.room = g'.room) (he : g.ent = g'.ent) : g = g' := by
  induction log with
  | nil => cases hg
  | cons a t ih =>
    have h1 := (List.pairwise_cons.mp hs).1
    have h2 := (List.pairwise_cons.mp hs).2
    rcases List.mem_cons.mp hg with e | e <;> rcases List.mem_cons.mp hg' with e' | e'
    · rw [e, e']
    · subst e; have := h1 g' e'; rw [hr, he] at this; exact absurd this (keyLt_irrefl _ _)
    · subst e'; have := h1 g e; rw [hr, he] at this; exact absurd this (keyLt_irrefl _ _)
    · exact ih h2 e e'

/-- the days of a group of a specification table are exactly the days that have content -/
theorem IsLogOf.days_iff {sigs : Content} {log : Log} (h : IsLogOf sigs log) {g : Group} (hg : g ∈ log) (day : Nat) :
    day ∈ g.rows.map (·.day) ↔ sigs g.room g.ent day ≠ [] := by
  constructor
  · intro hd
    obtain ⟨r, hr, hrd⟩ := List.mem_map.mp hd
    subst hrd
    exact (h.rows g hg).2.1 r hr
  · intro hne
    obtain ⟨g', hg', hr, he, r, hrm, hrd⟩ := h.covers g.room g.ent day hne
    have : g' = g := group_unique_of_sorted h.groups hg' hg hr he
    subst this
    exact List.mem_map.mpr ⟨r, hrm, hrd⟩

/-- **function of the content**: two tables that both are the log of the same content are equal -/
theorem IsLogOf.unique {sigs : Content} {l1 l2 : Log} (h1 : IsLogOf sigs l1) (h2 : IsLogOf sigs l2) : l1 = l2 := by
  have key : ∀ {la lb : Log}, IsLogOf sigs la → IsLogOf sigs lb → ∀ g ∈ la, g ∈ lb := by
    intro la lb ha hb g hg
    -- a row of g gives a day with content, hence a group of lb with the same key
    obtain ⟨r, hr⟩ := List.exists_mem_of_ne_nil _ (ha.nonemptyGroups g hg)
    have hne := (ha.rows g hg).2.1 r hr
    obtain ⟨g', hg', hrm, hen, _⟩ := hb.covers g.room g.ent r.day hne
    have hdays : g.rows.map (·.day) = g'.rows.map (·.day) := by
      refine sorted_ext (· < ·) (fun a => Nat.lt_irrefl a) (fun a b x y => by omega) _ _
        ((rowsSorted_iff _).mp (ha.rows g hg).1) ((rowsSorted_iff _).mp (hb.rows g' hg').1) ?_
      intro dd
      rw [ha.days_iff hg, hb.days_iff hg', hrm, hen]
    have hrows : g.rows = g'.rows := by
      rw [(ha.rows g hg).2.2, (hb.rows g' hg').2.2, hdays, hrm, hen]
    have : g = g' := by
      cases g; cases g'; simp only at hrm hen hrows; subst hrm hen hrows; rfl
    rw [this]; exact hg'
  refine sorted_ext (fun a b : Group => keyLt a.room a.ent b.room b.ent) (fun a => keyLt_irrefl _ _)
    (fun a b x y => by unfold keyLt at *; omega) l1 l2 h1.groups h2.groups ?_
  intro g
  exact ⟨key h1 h2 g, key h2 h1 g⟩

/-- the specification does not depend on the order in which the rows of a day are stored -/
theorem IsLogOf.congr {sigs sigs' : Content} {log : Log} (h : IsLogOf sigs log)
    (hp : ∀ r e d, (sigs r e d).Perm (sigs' r e d)) : IsLogOf sigs' log := by
  have hne : ∀ r e d, sigs' r e d ≠ [] ↔ sigs r e d ≠ [] := by
    intro r e d
    have := hp r e d
    constructor
    · intro h1 h2; rw [h2] at this; exact h1 (List.Perm.nil_eq this).symm
    · intro h1 h2; rw [h2] at this; exact h1 (List.Perm.eq_nil this)
  have hspec : ∀ room ent (l : List Nat) (prev : Option (Hash × Option Hash)),
      specRowsFrom sigs' room ent prev l = specRowsFrom sigs room ent prev l := by
    intro room ent l
    induction l with
    | nil => intro prev; rfl
    | cons dd t ih =>
      intro prev
      rw [specRowsFrom_cons, specRowsFrom_cons]
      have e1 : dailyOf (sigs' room ent dd) = dailyOf (sigs room ent dd) := dailyOf_congr (hp room ent dd).symm
      have e2 : (sigs' room ent dd).length = (sigs room ent dd).length := (hp room ent dd).length_eq.symm
      simp only [specRow, e1, e2, ih]
  refine ⟨h.groups, h.nonemptyGroups, ?_, ?_⟩
  · intro g hg
    obtain ⟨a, b, c⟩ := h.rows g hg
    refine ⟨a, fun r hr => (hne _ _ _).mpr (b r hr), ?_⟩
    rw [specRows, hspec]; exact c
  · intro room ent day hd
    exact h.covers room ent day ((hne _ _ _).mp hd)

/-- **different content, different log**: a table that is the log of two contents forces the two
    contents to hold the same signatures on every `(room, entity, day)` -/
theorem IsLogOf.injective {sigs sigs' : Content} {log : Log} (h : IsLogOf sigs log) (h' : IsLogOf sigs' log) :
    ∀ r e d, (sigs r e d).Perm (sigs' r e d) := by
  intro r e d
  by_cases hne : sigs r e d = []
  · by_cases hne' : sigs' r e d = []
    · rw [hne, hne']
    · exfalso
      obtain ⟨g, hg, hr, he, x, hx, hxd⟩ := h'.covers r e d hne'
      have := (h.rows g hg).2.1 x hx
      rw [hr, he, hxd] at this
      exact this hne
  · obtain ⟨g, hg, hr, he, x, hx, hxd⟩ := h.covers r e d hne
    -- the row of that day carries the daily hash of both contents
    have hval : ∀ {sg : Content}, IsLogOf sg log → x.daily = dailyOf (sg g.room g.ent x.day) := by
      intro sg hsg
      have hw := (hsg.winv).ginv g hg
      exact (hw.right x hx (by
        have := (hsg.rows g hg).2.2
        have hx' : x ∈ specRowsFrom sg g.room g.ent none (g.rows.map (·.day)) := by
          unfold specRows at this; rw [← this]; exact hx
        clear this
        revert hx'
        generalize (none : Option (Hash × Option Hash)) = prev
        generalize g.rows.map (·.day) = l
        induction l generalizing prev with
        | nil => intro hx'; simp [specRowsFrom] at hx'
        | cons dd t ih =>
          intro hx'
          rw [specRowsFrom_cons] at hx'
          rcases List.mem_cons.mp hx' with e1 | e1
          · rw [e1]; rfl
          · exact ih _ e1) (fun z => z)).2.2
    have e := (hval h).symm.trans (hval h')
    rw [hr, he, hxd] at e
    exact dailyOf_inj hne e

end Discret.DailyLog
