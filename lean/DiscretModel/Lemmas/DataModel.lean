import DiscretModel.Model.DataModel
/-
Lemmas about `Model/DataModel.lean` (core Lean only).
-/
set_option linter.unusedSimpArgs false
namespace Discret.DM

/-! ### the visit helpers -/

theorem mem_prio {α : Type} (pri : List Key) (key : α → Key) (l : List α) (x : α) :
    x ∈ prio pri key l ↔ x ∈ l := by
  induction pri generalizing l with
  | nil => simp [prio]
  | cons k ks ih =>
    simp only [prio, List.mem_append, List.mem_filter, ih]
    constructor
    · rintro (⟨hx, _⟩ | ⟨hx, _⟩) <;> exact hx
    · intro hx
      by_cases h : key x = k
      · exact Or.inl ⟨hx, by simp [h]⟩
      · exact Or.inr ⟨hx, by simp [h]⟩

/-- with at most one item there is only one visit order -/
theorem prio_short {α : Type} (pri : List Key) (key : α → Key) (l : List α) (h : l.length ≤ 1) :
    prio pri key l = l := by
  induction pri generalizing l with
  | nil => rfl
  | cons k ks ih =>
    match l, h with
    | [], _ => simp [prio, ih]
    | [x], _ =>
      simp only [prio, List.filter_cons, List.filter_nil]
      by_cases hk : key x = k
      · simp [hk, ih]
      · simp [hk, ih]

theorem firstErr_none {α : Type} (chk : α → Option Err) (l : List α) :
    firstErr chk l = none ↔ ∀ x ∈ l, chk x = none := by
  induction l with
  | nil => simp [firstErr]
  | cons x xs ih =>
    simp only [firstErr, List.mem_cons, forall_eq_or_imp]
    cases h : chk x with
    | none => simp [ih]
    | some e => simp

theorem okPrefix_of_firstErr_none {α : Type} (chk : α → Option Err) (l : List α)
    (h : firstErr chk l = none) : okPrefix chk l = l := by
  induction l with
  | nil => rfl
  | cons x xs ih =>
    simp only [firstErr] at h
    cases hx : chk x with
    | none => simp only [hx] at h; simp [okPrefix, hx, ih h]
    | some e => simp [hx] at h

theorem okPrefix_sub {α : Type} (chk : α → Option Err) (l : List α) : ∀ x ∈ okPrefix chk l, x ∈ l := by
  induction l with
  | nil => simp [okPrefix]
  | cons y ys ih =>
    intro x hx
    simp only [okPrefix] at hx
    cases hy : chk y with
    | none =>
      simp only [hy, List.mem_cons] at hx
      rcases hx with rfl | hx
      · simp
      · exact List.mem_cons_of_mem _ (ih x hx)
    | some e => simp [hy] at hx

theorem firstBad_none_of_firstErr_none {α : Type} (chk : α → Option Err) (l : List α)
    (h : firstErr chk l = none) : firstBad chk l = none := by
  induction l with
  | nil => rfl
  | cons x xs ih =>
    simp only [firstErr] at h
    cases hx : chk x with
    | none => simp only [hx] at h; simp [firstBad, hx, ih h]
    | some e => simp [hx] at h

/-! ### ids never change (any defects, accepted or refused) -/

theorem find?_map_append_of_some {α : Type} (p : α → Bool) (g : α → α) (hg : ∀ x, p (g x) = p x)
    (l ex : List α) (x : α) (h : l.find? p = some x) : (l.map g ++ ex).find? p = some (g x) := by
  induction l with
  | nil => simp at h
  | cons y ys ih =>
    simp only [List.find?_cons] at h
    simp only [List.map_cons, List.cons_append, List.find?_cons, hg]
    cases hy : p y with
    | true => simp only [hy] at h; cases h; rfl
    | false => simp only [hy] at h; exact ih h

theorem mergeField_name (f : Field) (nfs : List Field) : (mergeField f nfs).name = f.name := by
  unfold mergeField; split <;> rfl
theorem mergeField_short (f : Field) (nfs : List Field) : (mergeField f nfs).short = f.short := by
  unfold mergeField; split <;> rfl
theorem mergeField_ty (f : Field) (nfs : List Field) : (mergeField f nfs).ty = f.ty := by
  unfold mergeField; split <;> rfl

/-- shape of the fields after `Entity::update`, whatever the outcome -/
theorem Entity.update_shape (d : Defects) (pri : List Key) (nsn : String) (old new : Entity) :
    ∃ (c : Field → Bool) (ex : List Field),
      (old.update d pri nsn new).1.fields = old.fields.map (fun f => if c f then mergeField f new.fields else f) ++ ex ∧
      (old.update d pri nsn new).1.name = old.name ∧ (old.update d pri nsn new).1.k = old.k := by
  unfold Entity.update
  simp only
  split
  · exact ⟨_, [], (List.append_nil _).symm, rfl, rfl⟩
  · split
    · exact ⟨_, _, rfl, rfl, rfl⟩
    · exact ⟨_, _, rfl, rfl, rfl⟩



/-- `x'` extends `x`: same name and storage id, every field of `x` is still there with the same short id and type -/
def Entity.Ext (x x' : Entity) : Prop :=
  x'.name = x.name ∧ x'.k = x.k ∧
    ∀ f y, x.findField f = some y → ∃ y', x'.findField f = some y' ∧ y'.short = y.short ∧ y'.ty = y.ty

def Ns.Ext (x x' : Ns) : Prop :=
  x'.name = x.name ∧ x'.id = x.id ∧ ∀ e y, x.findEnt e = some y → ∃ y', x'.findEnt e = some y' ∧ Entity.Ext y y'

def Model.Ext (m m' : Model) : Prop :=
  ∀ n y, m.findNs n = some y → ∃ y', m'.findNs n = some y' ∧ Ns.Ext y y'

theorem Entity.Ext.refl (x : Entity) : Entity.Ext x x := ⟨rfl, rfl, fun _ y h => ⟨y, h, rfl, rfl⟩⟩
theorem Ns.Ext.refl (x : Ns) : Ns.Ext x x := ⟨rfl, rfl, fun _ y h => ⟨y, h, Entity.Ext.refl y⟩⟩
theorem Model.Ext.refl (m : Model) : Model.Ext m m := fun _ y h => ⟨y, h, Ns.Ext.refl y⟩

theorem Entity.Ext.trans {a b c : Entity} (h1 : Entity.Ext a b) (h2 : Entity.Ext b c) : Entity.Ext a c := by
  refine ⟨h2.1.trans h1.1, h2.2.1.trans h1.2.1, fun f y hy => ?_⟩
  obtain ⟨y', hy', hs, ht⟩ := h1.2.2 f y hy
  obtain ⟨y'', hy'', hs', ht'⟩ := h2.2.2 f y' hy'
  exact ⟨y'', hy'', hs'.trans hs, ht'.trans ht⟩

theorem Ns.Ext.trans {a b c : Ns} (h1 : Ns.Ext a b) (h2 : Ns.Ext b c) : Ns.Ext a c := by
  refine ⟨h2.1.trans h1.1, h2.2.1.trans h1.2.1, fun e y hy => ?_⟩
  obtain ⟨y', hy', he⟩ := h1.2.2 e y hy
  obtain ⟨y'', hy'', he'⟩ := h2.2.2 e y' hy'
  exact ⟨y'', hy'', he.trans he'⟩

theorem Model.Ext.trans {a b c : Model} (h1 : Model.Ext a b) (h2 : Model.Ext b c) : Model.Ext a c := by
  intro n y hy
  obtain ⟨y', hy', he⟩ := h1 n y hy
  obtain ⟨y'', hy'', he'⟩ := h2 n y' hy'
  exact ⟨y'', hy'', he.trans he'⟩

theorem Entity.update_ext (d : Defects) (pri : List Key) (nsn : String) (old new : Entity) :
    Entity.Ext old (old.update d pri nsn new).1 := by
  obtain ⟨c, ex, hf, hn, hk⟩ := Entity.update_shape d pri nsn old new
  refine ⟨hn, hk, fun f y hy => ?_⟩
  unfold Entity.findField at hy ⊢
  rw [hf]
  refine ⟨_, find?_map_append_of_some (fun (x : Field) => x.name == f) _ ?_ _ _ _ hy, ?_, ?_⟩
  · intro x; split <;> simp [mergeField_name]
  · split <;> simp [mergeField_short]
  · split <;> simp [mergeField_ty]

theorem entStep_ext (d : Defects) (pri : List Key) (nn : Ns) (e : Entity) :
    Entity.Ext e (entStep d pri nn e).1 := by
  unfold entStep
  split
  · exact Entity.Ext.refl e
  · split
    · exact Entity.Ext.refl e
    · exact Entity.update_ext _ _ _ _ _

theorem nsStep_shape (d : Defects) (pri : List Key) (system : Bool) (nv : Model) (old : Ns) :
    ∃ (nn : Ns) (c : Entity → Bool) (ex : List Entity),
      (nsStep d pri system nv old).1.ents = old.ents.map (fun e => if c e then (entStep d pri nn e).1 else e) ++ ex ∧
      (nsStep d pri system nv old).1.name = old.name ∧ (nsStep d pri system nv old).1.id = old.id := by
  unfold nsStep
  split
  · exact ⟨old, fun _ => false, [], by simp, rfl, rfl⟩
  · rename_i nn _
    split
    · exact ⟨old, fun _ => false, [], by simp, rfl, rfl⟩
    · simp only
      split
      · exact ⟨nn, _, [], (List.append_nil _).symm, rfl, rfl⟩
      · exact ⟨nn, _, _, rfl, rfl, rfl⟩

theorem nsStep_ext (d : Defects) (pri : List Key) (system : Bool) (nv : Model) (old : Ns) :
    Ns.Ext old (nsStep d pri system nv old).1 := by
  obtain ⟨nn, c, ex, hf, hn, hi⟩ := nsStep_shape d pri system nv old
  refine ⟨hn, hi, fun e y hy => ?_⟩
  unfold Ns.findEnt at hy ⊢
  rw [hf]
  refine ⟨_, find?_map_append_of_some (fun (x : Entity) => x.name == e) _ ?_ _ _ _ hy, ?_⟩
  · intro x; split
    · simp [(entStep_ext d pri nn x).1]
    · rfl
  · split
    · exact entStep_ext _ _ _ _
    · exact Entity.Ext.refl _

theorem updateWith_ext (d : Defects) (pri : List Key) (system : Bool) (m nv : Model) :
    Model.Ext m (updateWith d pri system m nv).1 := by
  have key : ∀ (c : Ns → Bool) (ex : List Ns),
      Model.Ext m { nss := m.nss.map (fun n => if c n then (nsStep d pri system nv n).1 else n) ++ ex } := by
    intro c ex n y hy
    unfold Model.findNs at hy ⊢
    refine ⟨_, find?_map_append_of_some (fun (x : Ns) => x.name == n) _ ?_ _ _ _ hy, ?_⟩
    · intro x; split
      · simp [(nsStep_ext d pri system nv x).1]
      · rfl
    · split
      · exact nsStep_ext _ _ _ _ _
      · exact Ns.Ext.refl _
  unfold updateWith
  generalize (nv.nss.any fun n => if system = true then n.name != sysNs else n.name == sysNs) = cond
  cases cond
  · simp only [Bool.false_eq_true, if_false]
    split
    · split
      · have := key (fun n => (okPrefix (fun n => (nsStep d pri system nv n).2) (prio pri (fun n => Key.ns n.name) m.nss) ++
            (firstBad (fun n => (nsStep d pri system nv n).2) (prio pri (fun n => Key.ns n.name) m.nss)).toList).any (·.name == n.name)) []
        simpa using this
      · exact Model.Ext.refl m
    · exact key _ _
  · exact Model.Ext.refl m

theorem update_ext (d : Defects) (pri : List Key) (m : Model) (v : Version) : Model.Ext m (update d pri m v).1 := by
  unfold update; split
  · exact Model.Ext.refl m
  · exact updateWith_ext _ _ _ _ _

theorem updateSystem_ext (d : Defects) (pri : List Key) (m : Model) (v : Version) : Model.Ext m (updateSystem d pri m v).1 := by
  unfold updateSystem; split
  · exact Model.Ext.refl m
  · exact updateWith_ext _ _ _ _ _


/-! ### positional numbering -/

/-- positional numbering: the elements carry `s, s+1, …` -/
def PosFrom {α : Type} (pos : α → Nat) : Nat → List α → Prop
  | _, [] => True
  | s, x :: xs => pos x = s ∧ PosFrom pos (s + 1) xs

theorem PosFrom_append {α : Type} (pos : α → Nat) (s : Nat) (l r : List α) :
    PosFrom pos s (l ++ r) ↔ PosFrom pos s l ∧ PosFrom pos (s + l.length) r := by
  induction l generalizing s with
  | nil => simp [PosFrom]
  | cons x xs ih =>
    simp only [List.cons_append, PosFrom, ih, List.length_cons]
    have : s + 1 + xs.length = s + (xs.length + 1) := by omega
    rw [this]; exact and_assoc.symm

theorem PosFrom_ge {α : Type} (pos : α → Nat) (s : Nat) (l : List α) (h : PosFrom pos s l) :
    ∀ y ∈ l, s ≤ pos y := by
  induction l generalizing s with
  | nil => simp
  | cons x xs ih =>
    intro y hy
    rcases List.mem_cons.mp hy with rfl | hy
    · exact Nat.le_of_eq h.1.symm
    · exact Nat.le_of_succ_le (ih _ h.2 y hy)

theorem PosFrom_lt {α : Type} (pos : α → Nat) (s : Nat) (l : List α) (h : PosFrom pos s l) :
    ∀ y ∈ l, pos y < s + l.length := by
  induction l generalizing s with
  | nil => simp
  | cons x xs ih =>
    intro y hy
    rcases List.mem_cons.mp hy with rfl | hy
    · have := h.1; simp only [List.length_cons]; omega
    · have := ih _ h.2 y hy; simp only [List.length_cons]; omega

theorem PosFrom_map {α : Type} (pos : α → Nat) (g : α → α) (hg : ∀ x, pos (g x) = pos x) (s : Nat) (l : List α) :
    PosFrom pos s (l.map g) ↔ PosFrom pos s l := by
  induction l generalizing s with
  | nil => simp [PosFrom]
  | cons x xs ih => simp [PosFrom, hg, ih]

theorem PosFrom_nodup {α : Type} (pos : α → Nat) (s : Nat) (l : List α) (h : PosFrom pos s l) :
    (l.map pos).Nodup := by
  induction l generalizing s with
  | nil => simp
  | cons x xs ih =>
    simp only [List.map_cons, List.nodup_cons, List.mem_map, not_exists, not_and]
    refine ⟨fun y hy heq => ?_, ih _ h.2⟩
    have := PosFrom_ge pos _ xs h.2 y hy
    have := h.1
    omega

/-- **prefix lemma.** If every element of `old` is matched in `new` by name at the same position, the
    first `old.length` names of `new` are those of `old` and the unmatched elements of `new` are exactly
    `new.drop old.length`. -/
theorem prefix_of_match {α β : Type} (nameA : α → String) (posA : α → Nat) (nameB : β → String) (posB : β → Nat)
    (s : Nat) (old : List α) (new : List β)
    (ho : PosFrom posA s old) (hn : PosFrom posB s new) (hnn : (new.map nameB).Nodup)
    (hm : ∀ x ∈ old, ∃ y ∈ new, nameB y = nameA x ∧ posB y = posA x) :
    old.length ≤ new.length ∧ (new.take old.length).map nameB = old.map nameA ∧
      new.filter (fun y => !old.any (fun x => nameA x == nameB y)) = new.drop old.length := by
  induction old generalizing s new with
  | nil => simp
  | cons x xs ih =>
    obtain ⟨y, hy, hyn, hyp⟩ := hm x (by simp)
    cases new with
    | nil => simp at hy
    | cons y0 ys =>
      have hy0 : y = y0 := by
        rcases List.mem_cons.mp hy with h | h
        · exact h
        · have := PosFrom_ge posB _ ys hn.2 y h
          have := ho.1; have := hn.1; omega
      subst hy0
      simp only [List.map_cons, List.nodup_cons] at hnn
      have hm' : ∀ x' ∈ xs, ∃ y' ∈ ys, nameB y' = nameA x' ∧ posB y' = posA x' := by
        intro x' hx'
        obtain ⟨y', hy', h1, h2⟩ := hm x' (List.mem_cons_of_mem _ hx')
        rcases List.mem_cons.mp hy' with h | h
        · have := PosFrom_ge posA _ xs ho.2 x' hx'
          have := ho.1; have := hn.1; subst h; omega
        · exact ⟨y', h, h1, h2⟩
      obtain ⟨h1, h2, h3⟩ := ih (s + 1) ys ho.2 hn.2 hnn.2 hm'
      refine ⟨by simp only [List.length_cons]; omega, by simp [hyn, h2], ?_⟩
      simp only [List.length_cons, List.drop_succ_cons]
      rw [List.filter_cons]
      have : (!(x :: xs).any fun x_1 => nameA x_1 == nameB y) = false := by simp [hyn]
      simp only [this, Bool.false_eq_true, if_false]
      rw [← h3]
      apply List.filter_congr
      intro z hz
      have hne : nameA x ≠ nameB z := by
        intro h; apply hnn.1; rw [← hyn] at h; simp only [List.mem_map]; exact ⟨z, hz, h.symm⟩
      simp [hne]


/-! ### well-formedness; the parser produces positional ids -/

def Entity.WF (e : Entity) : Prop :=
  (e.fields.map (·.name)).Nodup ∧ PosFrom (fun (f : Field) => f.short) reservedShort e.fields

def Ns.WF (n : Ns) : Prop :=
  (n.ents.map (·.name)).Nodup ∧ PosFrom (fun (e : Entity) => e.k) 0 n.ents ∧ ∀ e ∈ n.ents, e.WF

/-- well-formedness of a freshly parsed model: namespace ids are positional too -/
def NssWFp (decal : Nat) (nss : List Ns) : Prop :=
  (nss.map (·.name)).Nodup ∧ PosFrom (fun (n : Ns) => n.id) decal nss ∧ ∀ n ∈ nss, n.WF

def Model.WF (m : Model) : Prop :=
  (m.nss.map (·.name)).Nodup ∧ (m.nss.map (·.id)).Nodup ∧
    (∀ n ∈ m.nss, (n.name = sysNs ↔ n.id = 0)) ∧ ∀ n ∈ m.nss, n.WF

theorem any_name_false_iff {α : Type} (name : α → String) (l : List α) (a : String) :
    l.any (fun x => name x == a) = false ↔ a ∉ l.map name := by
  simp only [List.any_eq_false, beq_iff_eq, List.mem_map, not_exists, not_and]

theorem parseFields_wf (as : List AField) (acc r : List Field)
    (h : parseFields as acc = .ok r)
    (hn : (acc.map (·.name)).Nodup) (hp : PosFrom (fun (f : Field) => f.short) reservedShort acc) :
    (r.map (·.name)).Nodup ∧ PosFrom (fun (f : Field) => f.short) reservedShort r := by
  induction as generalizing acc with
  | nil => simp only [parseFields, Except.ok.injEq] at h; subst h; exact ⟨hn, hp⟩
  | cons a rest ih =>
    simp only [parseFields] at h
    split at h
    · cases h
    · cases h
    · split at h
      · cases h
      · split at h
        · cases h
        · split at h
          · cases h
          · rename_i hdup _
            apply ih _ h
            · rw [List.map_append, List.nodup_append]
              refine ⟨hn, by simp, ?_⟩
              intro x hx y hy
              simp only [List.map_cons, List.map_nil, List.mem_singleton] at hy
              subst hy
              have := (any_name_false_iff (fun (f : Field) => f.name) acc a.name).mp (by simpa using hdup)
              intro heq; subst heq; exact this hx
            · rw [PosFrom_append]
              exact ⟨hp, rfl, trivial⟩

theorem find?_name_none {α : Type} (name : α → String) (l : List α) (a : String)
    (h : l.find? (fun x => name x == a) = none) : a ∉ l.map name := by
  simp only [List.find?_eq_none, beq_iff_eq] at h
  simp only [List.mem_map, not_exists, not_and]
  exact h

theorem eq_of_name_eq {α κ : Type} (name : α → κ) (l : List α) (hnd : (l.map name).Nodup)
    (x y : α) (hx : x ∈ l) (hy : y ∈ l) (h : name x = name y) : x = y := by
  induction l with
  | nil => simp at hx
  | cons z zs ih =>
    simp only [List.map_cons, List.nodup_cons, List.mem_map, not_exists, not_and] at hnd
    rcases List.mem_cons.mp hx with rfl | hx' <;> rcases List.mem_cons.mp hy with rfl | hy'
    · rfl
    · exact absurd h.symm (hnd.1 y hy')
    · exact absurd h (hnd.1 x hx')
    · exact ih hnd.2 hx' hy'

theorem insertEnt_wf (decal : Nat) (nss r : List Ns) (nsName : String) (e : Entity)
    (h : insertEnt decal nss nsName e = .ok r) (hw : NssWFp decal nss) (he : e.WF) : NssWFp decal r := by
  unfold insertEnt at h
  split at h
  · rename_i hnone
    simp only [Except.ok.injEq] at h; subst h
    have hnot := find?_name_none (fun (n : Ns) => n.name) nss nsName hnone
    refine ⟨?_, ?_, ?_⟩
    · rw [List.map_append, List.nodup_append]
      refine ⟨hw.1, by simp, ?_⟩
      intro x hx y hy
      simp only [List.map_cons, List.map_nil, List.mem_singleton] at hy
      subst hy; intro heq; subst heq; exact hnot hx
    · rw [PosFrom_append]
      exact ⟨hw.2.1, by simp [Nat.add_comm], trivial⟩
    · intro n hn
      rcases List.mem_append.mp hn with hn | hn
      · exact hw.2.2 n hn
      · simp only [List.mem_singleton] at hn; subst hn
        exact ⟨by simp, by simp [PosFrom], by intro x hx; simp only [List.mem_singleton] at hx; subst hx; exact he⟩
  · split at h
    · cases h
    · rename_i n hsome hdup
      simp only [Except.ok.injEq] at h; subst h
      refine ⟨?_, ?_, ?_⟩
      · have : (nss.map fun x => if x.name == nsName then { x with ents := x.ents ++ [{ e with k := x.ents.length }] } else x).map (·.name)
            = nss.map (·.name) := by
          rw [List.map_map]; apply List.map_congr_left; intro x _; simp only [Function.comp]; split <;> rfl
        rw [this]; exact hw.1
      · rw [PosFrom_map]
        · exact hw.2.1
        · intro x; split <;> rfl
      · intro m hm
        simp only [List.mem_map] at hm
        obtain ⟨x, hx, rfl⟩ := hm
        split
        · rename_i hname
          have hxw := hw.2.2 x hx
          -- x is the namespace found
          have hxn : x = n := by
            have h1 := List.find?_some hsome
            have h2 := List.mem_of_find?_eq_some hsome
            simp only [beq_iff_eq] at h1 hname
            exact eq_of_name_eq (fun (n : Ns) => n.name) nss hw.1 x n hx h2 (hname.trans h1.symm)
          subst hxn
          refine ⟨?_, ?_, ?_⟩
          · simp only [List.map_append, List.map_cons, List.map_nil]
            rw [List.nodup_append]
            refine ⟨hxw.1, by simp, ?_⟩
            intro a ha b hb
            simp only [List.mem_singleton] at hb; subst hb
            intro heq; subst heq
            have := (any_name_false_iff (fun (y : Entity) => y.name) x.ents e.name).mp (by simpa using hdup)
            exact this ha
          · simp only
            rw [PosFrom_append]
            exact ⟨hxw.2.1, by simp, trivial⟩
          · intro y hy
            rcases List.mem_append.mp hy with hy | hy
            · exact hxw.2.2 y hy
            · simp only [List.mem_singleton] at hy; subst hy; exact he
        · exact hw.2.2 x hx

theorem setIndexes_wf (decal : Nat) (nss : List Ns) (nsName ename : String) (ixs : List (List String))
    (hw : NssWFp decal nss) :
    NssWFp decal (nss.map fun x => if x.name == nsName then
      { x with ents := x.ents.map fun y => if y.name == ename then { y with indexes := ixs } else y } else x) := by
  refine ⟨?_, ?_, ?_⟩
  · have : (nss.map fun x => if x.name == nsName then
        { x with ents := x.ents.map fun y => if y.name == ename then { y with indexes := ixs } else y } else x).map (·.name)
        = nss.map (·.name) := by
      rw [List.map_map]; apply List.map_congr_left; intro x _; simp only [Function.comp]; split <;> rfl
    rw [this]; exact hw.1
  · rw [PosFrom_map]
    · exact hw.2.1
    · intro x; split <;> rfl
  · intro m hm
    simp only [List.mem_map] at hm
    obtain ⟨x, hx, rfl⟩ := hm
    have hxw := hw.2.2 x hx
    split
    · refine ⟨?_, ?_, ?_⟩
      · have : (x.ents.map fun y => if y.name == ename then { y with indexes := ixs } else y).map (·.name) = x.ents.map (·.name) := by
          rw [List.map_map]; apply List.map_congr_left; intro y _; simp only [Function.comp]; split <;> rfl
        simp only; rw [this]; exact hxw.1
      · simp only; rw [PosFrom_map]
        · exact hxw.2.1
        · intro y; split <;> rfl
      · intro y hy
        simp only [List.mem_map] at hy
        obtain ⟨z, hz, rfl⟩ := hy
        split
        · exact hxw.2.2 z hz
        · exact hxw.2.2 z hz
    · exact hxw

theorem parseEntity_wf (decal : Nat) (nss r : List Ns) (nsName : String) (a : AEntity)
    (h : parseEntity decal nss nsName a = .ok r) (hw : NssWFp decal nss) : NssWFp decal r := by
  unfold parseEntity at h
  split at h
  · cases h
  · split at h
    · cases h
    · rename_i fields hf
      split at h
      · cases h
      · rename_i nss1 hi
        split at h
        · cases h
        · simp only [Except.ok.injEq] at h; subst h
          have hfw := parseFields_wf a.fields [] fields hf (by simp) (by simp [PosFrom])
          exact setIndexes_wf decal nss1 nsName a.name _ (insertEnt_wf decal nss nss1 nsName _ hi hw hfw)

theorem parseEnts_wf (decal : Nat) (nsName : String) (as : List AEntity) (nss r : List Ns)
    (h : parseEnts decal nsName as nss = .ok r) (hw : NssWFp decal nss) : NssWFp decal r := by
  induction as generalizing nss with
  | nil => simp only [parseEnts, Except.ok.injEq] at h; subst h; exact hw
  | cons a rest ih =>
    simp only [parseEnts] at h
    split at h
    · cases h
    · rename_i nss1 h1
      exact ih nss1 h (parseEntity_wf decal nss nss1 nsName a h1 hw)

theorem parseNss_wf (decal : Nat) (v : Version) (nss r : List Ns)
    (h : parseNss decal v nss = .ok r) (hw : NssWFp decal nss) : NssWFp decal r := by
  induction v generalizing nss with
  | nil => simp only [parseNss, Except.ok.injEq] at h; subst h; exact hw
  | cons b rest ih =>
    simp only [parseNss] at h
    split at h
    · cases h
    · rename_i nss1 h1
      exact ih nss1 h (parseEnts_wf decal b.name b.ents nss nss1 h1 hw)

theorem parse_wf (decal : Nat) (v : Version) (nv : Model) (h : parse decal v = .ok nv) : NssWFp decal nv.nss := by
  unfold parse at h
  split at h
  · cases h
  · split at h
    · cases h
    · rename_i nss h1
      split at h
      · simp only [Except.ok.injEq] at h; subst h
        exact parseNss_wf decal v [] nss h1 ⟨by simp, by simp [PosFrom], by simp⟩
      · cases h


/-! ### what an accepted update produces -/

theorem firstErr_prio_none {α : Type} (chk : α → Option Err) (pri : List Key) (key : α → Key) (l : List α) :
    firstErr chk (prio pri key l) = none ↔ ∀ x ∈ l, chk x = none := by
  rw [firstErr_none]
  constructor
  · intro h x hx; exact h x ((mem_prio pri key l x).mpr hx)
  · intro h x hx; exact h x ((mem_prio pri key l x).mp hx)

/-- when every item passes, every item is updated -/
theorem map_applied_all {α : Type} (chk : α → Option Err) (pri : List Key) (key : α → Key) (l : List α)
    (name : α → String) (upd : α → α) (h : ∀ x ∈ l, chk x = none) :
    l.map (fun x => if (okPrefix chk (prio pri key l) ++ (firstBad chk (prio pri key l)).toList).any
        (fun y => name y == name x) = true then upd x else x) = l.map upd := by
  have hf := (firstErr_prio_none chk pri key l).mpr h
  rw [okPrefix_of_firstErr_none _ _ hf, firstBad_none_of_firstErr_none _ _ hf]
  apply List.map_congr_left
  intro x hx
  have : ((prio pri key l ++ (none : Option α).toList).any fun y => name y == name x) = true := by
    simp only [Option.toList_none, List.append_nil, List.any_eq_true, beq_iff_eq]
    exact ⟨x, (mem_prio pri key l x).mpr hx, rfl⟩
  simp only [this, if_true]

theorem map_done_all {α : Type} (chk : α → Option Err) (pri : List Key) (key : α → Key) (l : List α)
    (name : α → String) (upd : α → α) (h : ∀ x ∈ l, chk x = none) :
    l.map (fun x => if (okPrefix chk (prio pri key l)).any (fun y => name y == name x) = true then upd x else x)
      = l.map upd := by
  have hf := (firstErr_prio_none chk pri key l).mpr h
  rw [okPrefix_of_firstErr_none _ _ hf]
  apply List.map_congr_left
  intro x hx
  have : ((prio pri key l).any fun y => name y == name x) = true := by
    simp only [List.any_eq_true, beq_iff_eq]
    exact ⟨x, (mem_prio pri key l x).mpr hx, rfl⟩
  simp only [this, if_true]

/-- what a successful `Entity::update` produces -/
def Entity.merged (d : Defects) (pri : List Key) (nsn : String) (old new : Entity) : Entity :=
  { old with
    deprecated := new.deprecated
    fullText := new.fullText
    fields := old.fields.map (fun f => mergeField f new.fields) ++
      renumber (reservedShort + old.fields.length)
        (if d.hashOrderIds then prio pri (fun (f : Field) => Key.fld nsn old.name f.name) (old.fresh new) else old.fresh new)
    indexes := new.indexes
    toRemove := addRemoved old.toRemove (old.indexes.filter fun ix => !new.indexes.contains ix) }

def Entity.accepts (d : Defects) (old new : Entity) : Prop :=
  (∀ f ∈ old.fields, checkField d f new.fields = none) ∧ (∀ nf ∈ old.fresh new, freshCheck nf = none)

theorem Entity.update_ok (d : Defects) (pri : List Key) (nsn : String) (old new : Entity) (h : old.accepts d new) :
    old.update d pri nsn new = (old.merged d pri nsn new, none) := by
  unfold Entity.update
  simp only
  have h1 := (firstErr_prio_none (fun f => checkField d f new.fields) pri (fun f => Key.fld nsn old.name f.name) old.fields).mpr h.1
  rw [h1]
  simp only
  have hm := map_done_all (fun f => checkField d f new.fields) pri (fun (f : Field) => Key.fld nsn old.name f.name) old.fields
    (fun f => f.name) (fun f => mergeField f new.fields) h.1
  rw [hm]
  cases hd : d.hashOrderIds
  · simp only [Bool.false_eq_true, if_false]
    have h2 : firstErr freshCheck (List.filter (fun nf => !old.fields.any fun x => x.name == nf.name) new.fields) = none :=
      (firstErr_none _ _).mpr h.2
    rw [h2, okPrefix_of_firstErr_none _ _ h2]
    simp [Entity.merged, Entity.fresh, hd]
  · simp only [if_true]
    have h2 := (firstErr_prio_none freshCheck pri (fun (f : Field) => Key.fld nsn old.name f.name)
      (List.filter (fun nf => !old.fields.any fun x => x.name == nf.name) new.fields)).mpr h.2
    rw [h2, okPrefix_of_firstErr_none _ _ h2]
    simp [Entity.merged, Entity.fresh, hd]

theorem Entity.update_none_iff (d : Defects) (pri : List Key) (nsn : String) (old new : Entity) :
    (old.update d pri nsn new).2 = none ↔ old.accepts d new := by
  constructor
  · intro h
    unfold Entity.update at h
    simp only at h
    split at h
    · cases h
    · rename_i h1
      have hc := (firstErr_prio_none _ _ _ _).mp h1
      refine ⟨hc, ?_⟩
      split at h
      · cases h
      · rename_i h2
        cases hd : d.hashOrderIds
        · simp only [hd, Bool.false_eq_true, if_false] at h2
          exact (firstErr_none _ _).mp h2
        · simp only [hd, if_true] at h2
          exact (firstErr_prio_none _ _ _ _).mp h2
  · intro h; rw [Entity.update_ok d pri nsn old new h]

/-- entity `e` of the old model is matched and accepted by namespace `nn` of the new version -/
def entAccepted (d : Defects) (nn : Ns) (e : Entity) : Prop :=
  ∃ ne, nn.ents.find? (·.name == e.name) = some ne ∧ ne.k = e.k ∧ e.accepts d ne

theorem entStep_none_iff (d : Defects) (pri : List Key) (nn : Ns) (e : Entity) :
    (entStep d pri nn e).2 = none ↔ entAccepted d nn e := by
  unfold entStep entAccepted
  split
  · rename_i h; simp [h]
  · rename_i ne h
    split
    · rename_i hk; simp only [bne_iff_ne, ne_eq] at hk
      simp only [h, Option.some.injEq, exists_eq_left']
      constructor
      · intro h'; cases h'
      · intro h'; exact absurd h'.1 hk
    · rename_i hk; simp only [bne_iff_ne, ne_eq, Decidable.not_not] at hk
      rw [Entity.update_none_iff]
      simp only [h, Option.some.injEq, exists_eq_left']
      exact ⟨fun h' => ⟨hk, h'⟩, fun h' => h'.2⟩

theorem entStep_ok (d : Defects) (pri : List Key) (nn : Ns) (e ne : Entity)
    (hf : nn.ents.find? (·.name == e.name) = some ne) (hk : ne.k = e.k) (ha : e.accepts d ne) :
    entStep d pri nn e = (e.merged d pri nn.name ne, none) := by
  unfold entStep
  simp only [hf, hk, bne_self_eq_false, Bool.false_eq_true, if_false]
  exact Entity.update_ok d pri nn.name e ne ha

/-- what a successful iteration over a namespace produces -/
def Ns.merged (d : Defects) (pri : List Key) (old nn : Ns) : Ns :=
  { old with ents := old.ents.map (fun e => (entStep d pri nn e).1) ++
      nn.ents.filter fun ne => !old.ents.any (·.name == ne.name) }

def nsAccepted (d : Defects) (system : Bool) (nv : Model) (old : Ns) : Prop :=
  match nv.nss.find? (·.name == old.name) with
  | none => system = true ∨ old.name = sysNs
  | some nn => nn.id = old.id ∧ ∀ e ∈ old.ents, entAccepted d nn e

theorem nsStep_none_iff (d : Defects) (pri : List Key) (system : Bool) (nv : Model) (old : Ns) :
    (nsStep d pri system nv old).2 = none ↔ nsAccepted d system nv old := by
  unfold nsStep nsAccepted
  cases hf : nv.nss.find? (·.name == old.name) with
  | none =>
    simp only
    cases system <;> simp [sysNs]
  | some nn =>
    simp only
    split
    · rename_i hid; simp only [bne_iff_ne, ne_eq] at hid
      constructor
      · intro h'; cases h'
      · intro h'; exact absurd h'.1 hid
    · rename_i hid; simp only [bne_iff_ne, ne_eq, Decidable.not_not] at hid
      split
      · rename_i e he
        constructor
        · intro h'; cases h'
        · intro h'
          have := (firstErr_prio_none (fun e => (entStep d pri nn e).2) pri (fun (e : Entity) => Key.ent old.name e.name) old.ents).mpr
            (fun e he => (entStep_none_iff d pri nn e).mpr (h'.2 e he))
          rw [this] at he; cases he
      · rename_i he
        have := (firstErr_prio_none _ _ _ _).mp he
        exact ⟨fun _ => ⟨hid, fun e he' => (entStep_none_iff d pri nn e).mp (this e he')⟩, fun _ => rfl⟩

theorem nsStep_ok_some (d : Defects) (pri : List Key) (system : Bool) (nv : Model) (old nn : Ns)
    (hf : nv.nss.find? (·.name == old.name) = some nn) (hid : nn.id = old.id)
    (ha : ∀ e ∈ old.ents, entAccepted d nn e) :
    nsStep d pri system nv old = (Ns.merged d pri old nn, none) := by
  unfold nsStep
  simp only [hf, hid, bne_self_eq_false, Bool.false_eq_true, if_false]
  have hall : ∀ e ∈ old.ents, (fun e => (entStep d pri nn e).2) e = none :=
    fun e he => (entStep_none_iff d pri nn e).mpr (ha e he)
  have h1 := (firstErr_prio_none (fun e => (entStep d pri nn e).2) pri (fun (e : Entity) => Key.ent old.name e.name) old.ents).mpr hall
  rw [h1]
  simp only
  have hm := map_applied_all (fun e => (entStep d pri nn e).2) pri (fun (e : Entity) => Key.ent old.name e.name) old.ents
    (fun e => e.name) (fun e => (entStep d pri nn e).1) hall
  rw [hm]
  rfl

theorem nsStep_ok_none (d : Defects) (pri : List Key) (system : Bool) (nv : Model) (old : Ns)
    (hf : nv.nss.find? (·.name == old.name) = none) (h : system = true ∨ old.name = sysNs) :
    nsStep d pri system nv old = (old, none) := by
  unfold nsStep
  simp only [hf]
  rcases h with h | h
  · simp [h]
  · simp [h]

/-- the guard at the head of `update_with` -/
def nsGuard (system : Bool) (nv : Model) : Bool :=
  nv.nss.any (fun n => if system then n.name != sysNs else n.name == sysNs)

def Model.merged (d : Defects) (pri : List Key) (system : Bool) (m nv : Model) : Model :=
  { nss := m.nss.map (fun n => (nsStep d pri system nv n).1) ++
      nv.nss.filter fun nn => !m.nss.any (·.name == nn.name) }

def updAccepted (d : Defects) (system : Bool) (m nv : Model) : Prop :=
  nsGuard system nv = false ∧ ∀ n ∈ m.nss, nsAccepted d system nv n

theorem updateWith_none_iff (d : Defects) (pri : List Key) (system : Bool) (m nv : Model) :
    (updateWith d pri system m nv).2 = none ↔ updAccepted d system m nv := by
  unfold updateWith updAccepted nsGuard
  generalize (nv.nss.any fun n => if system = true then n.name != sysNs else n.name == sysNs) = cond
  cases cond
  · simp only [Bool.false_eq_true, if_false, true_and]
    split
    · rename_i e he
      constructor
      · intro h'; cases h'
      · intro h'
        have := (firstErr_prio_none (fun n => (nsStep d pri system nv n).2) pri (fun (n : Ns) => Key.ns n.name) m.nss).mpr
          (fun n hn => (nsStep_none_iff d pri system nv n).mpr (h' n hn))
        rw [this] at he; cases he
    · rename_i he
      have := (firstErr_prio_none _ _ _ _).mp he
      exact ⟨fun _ n hn => (nsStep_none_iff d pri system nv n).mp (this n hn), fun _ => rfl⟩
  · simp

theorem updateWith_ok (d : Defects) (pri : List Key) (system : Bool) (m nv : Model)
    (h : updAccepted d system m nv) : updateWith d pri system m nv = (Model.merged d pri system m nv, none) := by
  unfold updateWith
  have hg := h.1
  unfold nsGuard at hg
  simp only [hg, Bool.false_eq_true, if_false]
  have hall : ∀ n ∈ m.nss, (fun n => (nsStep d pri system nv n).2) n = none :=
    fun n hn => (nsStep_none_iff d pri system nv n).mpr (h.2 n hn)
  have h1 := (firstErr_prio_none (fun n => (nsStep d pri system nv n).2) pri (fun (n : Ns) => Key.ns n.name) m.nss).mpr hall
  rw [h1]
  simp only
  have hm := map_applied_all (fun n => (nsStep d pri system nv n).2) pri (fun (n : Ns) => Key.ns n.name) m.nss
    (fun n => n.name) (fun n => (nsStep d pri system nv n).1) hall
  rw [hm]
  rfl


/-! ### an accepted update (text-order numbering) keeps the model well formed -/

theorem renumber_of_PosFrom (s : Nat) (l : List Field) (h : PosFrom (fun (f : Field) => f.short) s l) :
    renumber s l = l := by
  induction l generalizing s with
  | nil => rfl
  | cons f fs ih =>
    simp only [renumber]
    rw [ih _ h.2]
    have := h.1
    cases f; simp_all

theorem PosFrom_drop {α : Type} (pos : α → Nat) (s n : Nat) (l : List α) (h : PosFrom pos s l) (hn : n ≤ l.length) :
    PosFrom pos (s + n) (l.drop n) := by
  have := (PosFrom_append pos s (l.take n) (l.drop n)).mp (by rw [List.take_append_drop]; exact h)
  simpa [List.length_take, Nat.min_eq_left hn] using this.2

/-- lookup by name in two positional lists with the same names gives the same position -/
theorem find_pos_eq {α β : Type} (nameA : α → String) (posA : α → Nat) (nameB : β → String) (posB : β → Nat)
    (s : Nat) (l1 : List α) (l2 : List β) (hn : l1.map nameA = l2.map nameB)
    (h1 : PosFrom posA s l1) (h2 : PosFrom posB s l2) (a : String) :
    (l1.find? (fun x => nameA x == a)).map posA = (l2.find? (fun y => nameB y == a)).map posB := by
  induction l1 generalizing s l2 with
  | nil => cases l2 with
    | nil => rfl
    | cons y ys => simp at hn
  | cons x xs ih =>
    cases l2 with
    | nil => simp at hn
    | cons y ys =>
      simp only [List.map_cons, List.cons.injEq] at hn
      simp only [List.find?_cons, hn.1]
      cases hy : nameB y == a with
      | true => simp [h1.1, h2.1]
      | false => exact ih (s + 1) ys hn.2 h1.2 h2.2

theorem checkField_none {d : Defects} {f : Field} {nfs : List Field} (h : checkField d f nfs = none) :
    ∃ nf, nfs.find? (·.name == f.name) = some nf ∧ nf.short = f.short ∧ nf.ty = f.ty ∧
      ¬ ((f.nullable = true ∨ (d.defaultDropAccepted = false ∧ f.dflt.isSome = true)) ∧
          nf.nullable = false ∧ nf.dflt = none ∧ f.ty.isRef = false) := by
  unfold checkField at h
  split at h
  · cases h
  · rename_i nf hf
    refine ⟨nf, hf, ?_⟩
    split at h
    · cases h
    · rename_i h1
      split at h
      · cases h
      · rename_i h2
        split at h
        · cases h
        · rename_i h3
          simp only [bne_iff_ne, ne_eq, Decidable.not_not] at h1 h2
          refine ⟨h1, h2, ?_⟩
          intro ⟨a, b, c, e⟩
          apply h3
          rcases a with a | ⟨a1, a2⟩
          · simp [a, b, c, e]
          · simp [a1, a2, b, c, e]

/-- the fields of an accepted entity update, for text-order numbering -/
theorem merged_fields (pri : List Key) (nsn : String) (d : Defects) (hd : d.hashOrderIds = false) (e ne : Entity)
    (he : e.WF) (hne : ne.WF) (ha : e.accepts d ne) :
    (e.merged d pri nsn ne).fields = e.fields.map (fun f => mergeField f ne.fields) ++ ne.fields.drop e.fields.length ∧
    (e.merged d pri nsn ne).fields.map (·.name) = ne.fields.map (·.name) ∧
    PosFrom (fun (f : Field) => f.short) reservedShort (e.merged d pri nsn ne).fields ∧
    e.fresh ne = ne.fields.drop e.fields.length ∧ e.fields.length ≤ ne.fields.length := by
  have hm : ∀ x ∈ e.fields, ∃ y ∈ ne.fields, y.name = x.name ∧ y.short = x.short := by
    intro x hx
    obtain ⟨nf, hf, hs, _⟩ := checkField_none (ha.1 x hx)
    have := List.find?_some hf
    exact ⟨nf, List.mem_of_find?_eq_some hf, by simpa using this, hs⟩
  obtain ⟨hlen, htake, hfilter⟩ := prefix_of_match (fun (f : Field) => f.name) (fun f => f.short) (fun (f : Field) => f.name)
    (fun f => f.short) reservedShort e.fields ne.fields he.2 hne.2 hne.1 hm
  have hfresh : e.fresh ne = ne.fields.drop e.fields.length := by
    unfold Entity.fresh
    rw [← hfilter]
  have hdrop := PosFrom_drop (fun (f : Field) => f.short) reservedShort e.fields.length ne.fields hne.2 hlen
  have hfields : (e.merged d pri nsn ne).fields =
      e.fields.map (fun f => mergeField f ne.fields) ++ ne.fields.drop e.fields.length := by
    simp only [Entity.merged, hd, Bool.false_eq_true, if_false, hfresh]
    rw [renumber_of_PosFrom _ _ hdrop]
  refine ⟨hfields, ?_, ?_, hfresh, hlen⟩
  · rw [hfields, List.map_append, List.map_map]
    have : (e.fields.map ((fun (f : Field) => f.name) ∘ fun f => mergeField f ne.fields)) = e.fields.map (·.name) := by
      apply List.map_congr_left; intro x _; simp [mergeField_name]
    rw [this, ← htake, ← List.map_append, List.take_append_drop]
  · rw [hfields, PosFrom_append]
    refine ⟨(PosFrom_map _ _ (fun x => mergeField_short x ne.fields) _ _).mpr he.2, ?_⟩
    simpa using hdrop

theorem merged_wf (pri : List Key) (nsn : String) (d : Defects) (hd : d.hashOrderIds = false) (e ne : Entity)
    (he : e.WF) (hne : ne.WF) (ha : e.accepts d ne) : (e.merged d pri nsn ne).WF := by
  obtain ⟨_, h2, h3, _⟩ := merged_fields pri nsn d hd e ne he hne ha
  exact ⟨by rw [h2]; exact hne.1, h3⟩

theorem nsMerged_ents (pri : List Key) (d : Defects) (hd : d.hashOrderIds = false) (old nn : Ns)
    (ho : old.WF) (hn : nn.WF) (ha : ∀ e ∈ old.ents, entAccepted d nn e) :
    (Ns.merged d pri old nn).ents = old.ents.map (fun e => (entStep d pri nn e).1) ++ nn.ents.drop old.ents.length ∧
    (Ns.merged d pri old nn).ents.map (·.name) = nn.ents.map (·.name) ∧
    PosFrom (fun (e : Entity) => e.k) 0 (Ns.merged d pri old nn).ents ∧
    (∀ e ∈ (Ns.merged d pri old nn).ents, e.WF) ∧ old.ents.length ≤ nn.ents.length := by
  have hm : ∀ x ∈ old.ents, ∃ y ∈ nn.ents, y.name = x.name ∧ y.k = x.k := by
    intro x hx
    obtain ⟨ne, hf, hk, _⟩ := ha x hx
    have := List.find?_some hf
    exact ⟨ne, List.mem_of_find?_eq_some hf, by simpa using this, hk⟩
  obtain ⟨hlen, htake, hfilter⟩ := prefix_of_match (fun (e : Entity) => e.name) (fun e => e.k) (fun (e : Entity) => e.name)
    (fun e => e.k) 0 old.ents nn.ents ho.2.1 hn.2.1 hn.1 hm
  have hdrop := PosFrom_drop (fun (e : Entity) => e.k) 0 old.ents.length nn.ents hn.2.1 hlen
  have hents : (Ns.merged d pri old nn).ents =
      old.ents.map (fun e => (entStep d pri nn e).1) ++ nn.ents.drop old.ents.length := by
    simp only [Ns.merged]
    rw [← hfilter]
  refine ⟨hents, ?_, ?_, ?_, hlen⟩
  · rw [hents, List.map_append, List.map_map]
    have : (old.ents.map ((fun (e : Entity) => e.name) ∘ fun e => (entStep d pri nn e).1)) = old.ents.map (·.name) := by
      apply List.map_congr_left; intro x _; simp [(entStep_ext d pri nn x).1]
    rw [this, ← htake, ← List.map_append, List.take_append_drop]
  · rw [hents, PosFrom_append]
    refine ⟨(PosFrom_map _ _ (fun x => (entStep_ext d pri nn x).2.1) _ _).mpr ho.2.1, ?_⟩
    simpa using hdrop
  · intro e he
    rw [hents] at he
    rcases List.mem_append.mp he with he | he
    · simp only [List.mem_map] at he
      obtain ⟨x, hx, rfl⟩ := he
      obtain ⟨ne, hf, hk, hacc⟩ := ha x hx
      rw [entStep_ok d pri nn x ne hf hk hacc]
      exact merged_wf pri nn.name d hd x ne (ho.2.2 x hx) (hn.2.2 ne (List.mem_of_find?_eq_some hf)) hacc
    · exact hn.2.2 e (List.mem_of_mem_drop he)

theorem nsMerged_wf (pri : List Key) (d : Defects) (hd : d.hashOrderIds = false) (old nn : Ns)
    (ho : old.WF) (hn : nn.WF) (ha : ∀ e ∈ old.ents, entAccepted d nn e) : (Ns.merged d pri old nn).WF := by
  obtain ⟨_, h2, h3, h4, _⟩ := nsMerged_ents pri d hd old nn ho hn ha
  exact ⟨by rw [h2]; exact hn.1, h3, h4⟩

theorem PosFrom_eq_of_pos_eq {α : Type} (pos : α → Nat) (s : Nat) (l : List α) (h : PosFrom pos s l)
    (x y : α) (hx : x ∈ l) (hy : y ∈ l) (hp : pos x = pos y) : x = y := by
  induction l generalizing s with
  | nil => simp at hx
  | cons z zs ih =>
    rcases List.mem_cons.mp hx with hx' | hx' <;> rcases List.mem_cons.mp hy with hy' | hy'
    · rw [hx', hy']
    · have := PosFrom_ge pos _ zs h.2 y hy'; have := h.1; subst hx'; omega
    · have := PosFrom_ge pos _ zs h.2 x hx'; have := h.1; subst hy'; omega
    · exact ih _ h.2 hx' hy'

theorem nsStep_fst_of_accepted (pri : List Key) (d : Defects) (system : Bool) (nv : Model) (n : Ns)
    (ha : nsAccepted d system nv n) :
    (nv.nss.find? (·.name == n.name) = none ∧ (nsStep d pri system nv n).1 = n) ∨
    (∃ nn, nv.nss.find? (·.name == n.name) = some nn ∧ nn.id = n.id ∧ (∀ e ∈ n.ents, entAccepted d nn e) ∧
      (nsStep d pri system nv n).1 = Ns.merged d pri n nn) := by
  unfold nsAccepted at ha
  cases hf : nv.nss.find? (·.name == n.name) with
  | none =>
    rw [hf] at ha
    exact Or.inl ⟨rfl, by rw [nsStep_ok_none d pri system nv n hf ha]⟩
  | some nn =>
    rw [hf] at ha
    exact Or.inr ⟨nn, rfl, ha.1, ha.2, by rw [nsStep_ok_some d pri system nv n nn hf ha.1 ha.2]⟩

/-- the two ways `update_with` is called: `update_system` (namespace ids from 0) and `update` (from 1) -/
def Mode (system : Bool) (decal : Nat) : Prop := (system = true ∧ decal = 0) ∨ (system = false ∧ decal = 1)

theorem merged_model_wf (pri : List Key) (d : Defects) (hd : d.hashOrderIds = false) (system : Bool) (decal : Nat)
    (hmode : Mode system decal) (m nv : Model) (hm : m.WF) (hnv : NssWFp decal nv.nss)
    (ha : updAccepted d system m nv) : (Model.merged d pri system m nv).WF := by
  have hname : ∀ n, (nsStep d pri system nv n).1.name = n.name := fun n => (nsStep_ext d pri system nv n).1
  have hid : ∀ n, (nsStep d pri system nv n).1.id = n.id := fun n => (nsStep_ext d pri system nv n).2.1
  have hmapn : (m.nss.map fun n => (nsStep d pri system nv n).1).map (·.name) = m.nss.map (·.name) := by
    rw [List.map_map]; apply List.map_congr_left; intro x _; simp [hname]
  have hmapi : (m.nss.map fun n => (nsStep d pri system nv n).1).map (·.id) = m.nss.map (·.id) := by
    rw [List.map_map]; apply List.map_congr_left; intro x _; simp [hid]
  have hfresh_mem : ∀ x ∈ nv.nss.filter (fun nn => !m.nss.any (·.name == nn.name)), x ∈ nv.nss ∧ x.name ∉ m.nss.map (·.name) := by
    intro x hx
    simp only [List.mem_filter, Bool.not_eq_true', List.any_eq_false, beq_iff_eq] at hx
    refine ⟨hx.1, ?_⟩
    simp only [List.mem_map, not_exists, not_and]
    exact hx.2
  -- facts about a fresh namespace
  have hguard := ha.1
  unfold nsGuard at hguard
  have hfresh_sys : ∀ x ∈ nv.nss, (x.name = sysNs ↔ x.id = 0) := by
    intro x hx
    have hg := (List.any_eq_false.mp hguard) x hx
    rcases hmode with ⟨hs, hdec⟩ | ⟨hs, hdec⟩
    · subst hs; subst hdec
      simp only [if_true, bne_iff_ne, ne_eq, Decidable.not_not] at hg
      refine ⟨fun _ => ?_, fun _ => hg⟩
      -- all namespaces of nv are named sys and names are distinct: x is the first one
      cases hl : nv.nss with
      | nil => rw [hl] at hx; simp at hx
      | cons y ys =>
        rw [hl] at hx
        have hp := hnv.2.1; rw [hl] at hp
        have hnd := hnv.1; rw [hl] at hnd
        rcases List.mem_cons.mp hx with rfl | hx'
        · exact hp.1
        · exfalso
          simp only [List.map_cons, List.nodup_cons, List.mem_map, not_exists, not_and] at hnd
          have hy : y.name = sysNs := by
            have := (List.any_eq_false.mp hguard) y (by rw [hl]; simp)
            simpa using this
          exact hnd.1 x hx' (hg.trans hy.symm)
    · subst hs; subst hdec
      simp only [Bool.false_eq_true, if_false, beq_iff_eq] at hg
      have := PosFrom_ge _ _ _ hnv.2.1 x hx
      constructor
      · intro h; exact absurd h hg
      · intro h; omega
  refine ⟨?_, ?_, ?_, ?_⟩
  · -- names
    simp only [Model.merged, List.map_append]
    rw [hmapn, List.nodup_append]
    refine ⟨hm.1, (hnv.1.sublist ((List.filter_sublist).map _)), ?_⟩
    intro a ha' b hb
    simp only [List.mem_map] at hb
    obtain ⟨x, hx, rfl⟩ := hb
    intro heq; subst heq
    exact (hfresh_mem x hx).2 ha'
  · -- ids
    simp only [Model.merged, List.map_append]
    rw [hmapi, List.nodup_append]
    refine ⟨hm.2.1, ((PosFrom_nodup _ _ _ hnv.2.1).sublist ((List.filter_sublist).map _)), ?_⟩
    intro a ha' b hb
    simp only [List.mem_map] at ha' hb
    obtain ⟨y, hy, rfl⟩ := ha'
    obtain ⟨x, hx, rfl⟩ := hb
    obtain ⟨hxnv, hxm⟩ := hfresh_mem x hx
    intro heq
    by_cases hys : y.name = sysNs
    · -- y is the system namespace (id 0): then x has id 0, so x is named sys, so x.name ∈ m
      have hy0 := (hm.2.2.1 y hy).mp hys
      have hx0 : x.id = 0 := by rw [← heq]; exact hy0
      have := (hfresh_sys x hxnv).mpr hx0
      exact hxm (by simp only [List.mem_map]; exact ⟨y, hy, hys.trans this.symm⟩)
    · rcases nsStep_fst_of_accepted pri d system nv y (ha.2 y hy) with ⟨hnone, _⟩ | ⟨nn, hsome, hnid, _, _⟩
      · -- y is not in nv: only possible for a system update; then x is sys with id 0 and y.id ≠ 0
        have hacc := ha.2 y hy
        unfold nsAccepted at hacc
        rw [hnone] at hacc
        rcases hacc with hs | hs
        · subst hs
          have hg := (List.any_eq_false.mp hguard) x hxnv
          simp only [if_true, bne_iff_ne, ne_eq, Decidable.not_not] at hg
          have hx0 := (hfresh_sys x hxnv).mp hg
          have hy0 : y.id ≠ 0 := fun h => hys ((hm.2.2.1 y hy).mpr h)
          exact hy0 (by rw [heq]; exact hx0)
        · exact hys hs
      · have hnn := List.mem_of_find?_eq_some hsome
        have hnname : nn.name = y.name := by simpa using List.find?_some hsome
        have : x = nn := PosFrom_eq_of_pos_eq _ _ _ hnv.2.1 x nn hxnv hnn (by rw [hnid]; exact heq.symm)
        subst this
        exact hxm (by simp only [List.mem_map]; exact ⟨y, hy, hnname.symm⟩)
  · -- the system namespace is the one with id 0
    intro n hn
    simp only [Model.merged] at hn
    rcases List.mem_append.mp hn with hn | hn
    · simp only [List.mem_map] at hn
      obtain ⟨y, hy, rfl⟩ := hn
      rw [hname, hid]; exact hm.2.2.1 y hy
    · exact hfresh_sys n (hfresh_mem n hn).1
  · intro n hn
    simp only [Model.merged] at hn
    rcases List.mem_append.mp hn with hn | hn
    · simp only [List.mem_map] at hn
      obtain ⟨y, hy, rfl⟩ := hn
      rcases nsStep_fst_of_accepted pri d system nv y (ha.2 y hy) with ⟨_, heq⟩ | ⟨nn, hsome, _, hents, heq⟩
      · rw [heq]; exact hm.2.2.2 y hy
      · rw [heq]
        exact nsMerged_wf pri d hd y nn (hm.2.2.2 y hy) (hnv.2.2 nn (List.mem_of_find?_eq_some hsome)) hents
    · exact hnv.2.2 n (hfresh_mem n hn).1


/-! ### an accepted update gives the ids of the accepted text -/

/-- both absent, or both present and related -/
def OptRel {α β : Type} (r : α → β → Prop) : Option α → Option β → Prop
  | some a, some b => r a b
  | none, none => True
  | _, _ => False

theorem OptRel.refl {α : Type} (r : α → α → Prop) (hr : ∀ a, r a a) (o : Option α) : OptRel r o o := by
  cases o <;> simp [OptRel, hr]

theorem OptRel.symm {α β : Type} (r : α → β → Prop) (r' : β → α → Prop) (h : ∀ a b, r a b → r' b a)
    (o : Option α) (o' : Option β) (ho : OptRel r o o') : OptRel r' o' o := by
  cases o <;> cases o' <;> simp_all [OptRel]

theorem OptRel.trans {α β γ : Type} (r : α → β → Prop) (r' : β → γ → Prop) (r'' : α → γ → Prop)
    (h : ∀ a b c, r a b → r' b c → r'' a c)
    (o : Option α) (o' : Option β) (o'' : Option γ) (h1 : OptRel r o o') (h2 : OptRel r' o' o'') : OptRel r'' o o'' := by
  cases o <;> cases o' <;> cases o'' <;> simp_all [OptRel]
  exact h _ _ _ h1 h2

/-- same storage ids: the entity id and, field by field, the same short id -/
def Entity.SameIds (a b : Entity) : Prop :=
  a.k = b.k ∧ ∀ f, (a.findField f).map (·.short) = (b.findField f).map (·.short)

def Ns.SameIds (a b : Ns) : Prop :=
  a.id = b.id ∧ ∀ e, OptRel Entity.SameIds (a.findEnt e) (b.findEnt e)

/-- the user part (everything but the `sys` namespace) of two models carries the same ids -/
def Model.SameUserIds (a b : Model) : Prop :=
  ∀ n, n ≠ sysNs → OptRel Ns.SameIds (a.findNs n) (b.findNs n)

theorem Entity.SameIds.refl (a : Entity) : a.SameIds a := ⟨rfl, fun _ => rfl⟩
theorem Entity.SameIds.symm {a b : Entity} (h : a.SameIds b) : b.SameIds a := ⟨h.1.symm, fun f => (h.2 f).symm⟩
theorem Entity.SameIds.trans {a b c : Entity} (h1 : a.SameIds b) (h2 : b.SameIds c) : a.SameIds c :=
  ⟨h1.1.trans h2.1, fun f => (h1.2 f).trans (h2.2 f)⟩

theorem Ns.SameIds.refl (a : Ns) : a.SameIds a := ⟨rfl, fun _ => OptRel.refl _ Entity.SameIds.refl _⟩
theorem Ns.SameIds.symm {a b : Ns} (h : a.SameIds b) : b.SameIds a :=
  ⟨h.1.symm, fun e => OptRel.symm Entity.SameIds Entity.SameIds (fun _ _ => Entity.SameIds.symm) _ _ (h.2 e)⟩
theorem Ns.SameIds.trans {a b c : Ns} (h1 : a.SameIds b) (h2 : b.SameIds c) : a.SameIds c :=
  ⟨h1.1.trans h2.1, fun e => OptRel.trans Entity.SameIds Entity.SameIds Entity.SameIds (fun _ _ _ => Entity.SameIds.trans) _ _ _ (h1.2 e) (h2.2 e)⟩

theorem Model.SameUserIds.symm {a b : Model} (h : a.SameUserIds b) : b.SameUserIds a :=
  fun n hn => OptRel.symm Ns.SameIds Ns.SameIds (fun _ _ => Ns.SameIds.symm) _ _ (h n hn)
theorem Model.SameUserIds.trans {a b c : Model} (h1 : a.SameUserIds b) (h2 : b.SameUserIds c) : a.SameUserIds c :=
  fun n hn => OptRel.trans Ns.SameIds Ns.SameIds Ns.SameIds (fun _ _ _ => Ns.SameIds.trans) _ _ _ (h1 n hn) (h2 n hn)

/-- lookups by name in two lists with the same names are related as soon as equally named members are -/
theorem zipFind {α β : Type} (nameA : α → String) (nameB : β → String) (R : α → β → Prop) (x : String)
    (A : List α) (C : List β) (hn : A.map nameA = C.map nameB)
    (hR : ∀ a ∈ A, ∀ c ∈ C, nameA a = nameB c → R a c) :
    OptRel R (A.find? (fun a => nameA a == x)) (C.find? (fun c => nameB c == x)) := by
  induction A generalizing C with
  | nil => cases C with
    | nil => simp [OptRel]
    | cons c cs => simp at hn
  | cons a as ih =>
    cases C with
    | nil => simp at hn
    | cons c cs =>
      simp only [List.map_cons, List.cons.injEq] at hn
      simp only [List.find?_cons, hn.1]
      cases hc : nameB c == x with
      | true => simp only [OptRel]; exact hR a (by simp) c (by simp) hn.1
      | false =>
        exact ih cs hn.2 (fun a' ha' c' hc' => hR a' (List.mem_cons_of_mem _ ha') c' (List.mem_cons_of_mem _ hc'))

theorem merged_sameIds (pri : List Key) (nsn : String) (d : Defects) (hd : d.hashOrderIds = false) (e ne : Entity)
    (he : e.WF) (hne : ne.WF) (ha : e.accepts d ne) (hk : ne.k = e.k) : (e.merged d pri nsn ne).SameIds ne := by
  obtain ⟨_, h2, h3, _⟩ := merged_fields pri nsn d hd e ne he hne ha
  refine ⟨by simp [Entity.merged, hk], fun f => ?_⟩
  exact find_pos_eq (fun (x : Field) => x.name) (fun x => x.short) (fun (x : Field) => x.name) (fun x => x.short)
    reservedShort _ _ h2 h3 hne.2 f

theorem nsMerged_sameIds (pri : List Key) (d : Defects) (hd : d.hashOrderIds = false) (old nn : Ns)
    (ho : old.WF) (hn : nn.WF) (hid : nn.id = old.id) (ha : ∀ e ∈ old.ents, entAccepted d nn e) :
    (Ns.merged d pri old nn).SameIds nn := by
  obtain ⟨h1, h2, _, _, _⟩ := nsMerged_ents pri d hd old nn ho hn ha
  refine ⟨by simp [Ns.merged, hid], fun e => ?_⟩
  unfold Ns.findEnt
  apply zipFind (fun (x : Entity) => x.name) (fun (x : Entity) => x.name) Entity.SameIds e _ _ h2
  intro a ha' c hc hac
  rw [h1] at ha'
  rcases List.mem_append.mp ha' with ha' | ha'
  · simp only [List.mem_map] at ha'
    obtain ⟨x, hx, rfl⟩ := ha'
    obtain ⟨ne, hf, hk, hacc⟩ := ha x hx
    rw [entStep_ok d pri nn x ne hf hk hacc] at hac ⊢
    have hnename : ne.name = x.name := by simpa using List.find?_some hf
    have hce : c = ne := eq_of_name_eq (fun (y : Entity) => y.name) nn.ents hn.1 c ne hc (List.mem_of_find?_eq_some hf)
      (by rw [← hac, hnename]; simp [Entity.merged])
    subst hce
    exact merged_sameIds pri nn.name d hd x c (ho.2.2 x hx) (hn.2.2 c hc) hacc hk
  · have : a = c := eq_of_name_eq (fun (y : Entity) => y.name) nn.ents hn.1 a c (List.mem_of_mem_drop ha') hc hac
    subst this
    exact Entity.SameIds.refl a

theorem find?_filter_name {α : Type} (name : α → String) (p : α → Bool) (l : List α) (a : String)
    (hp : ∀ x ∈ l, name x = a → p x = true) :
    (l.filter p).find? (fun x => name x == a) = l.find? (fun x => name x == a) := by
  induction l with
  | nil => rfl
  | cons y ys ih =>
    have ih' := ih (fun x hx => hp x (List.mem_cons_of_mem _ hx))
    rw [List.filter_cons]
    by_cases hy : name y = a
    · have := hp y (by simp) hy
      simp [this, List.find?_cons, hy]
    · split
      · simp only [List.find?_cons]
        have : (name y == a) = false := by simpa using hy
        simp only [this]; exact ih'
      · simp only [List.find?_cons]
        have : (name y == a) = false := by simpa using hy
        simp only [this]; exact ih'

theorem find?_map_append_of_none {α : Type} (p : α → Bool) (g : α → α) (hg : ∀ x, p (g x) = p x)
    (l ex : List α) (h : l.find? p = none) : (l.map g ++ ex).find? p = ex.find? p := by
  induction l with
  | nil => rfl
  | cons y ys ih =>
    simp only [List.find?_cons] at h
    simp only [List.map_cons, List.cons_append, List.find?_cons, hg]
    cases hy : p y with
    | true => simp [hy] at h
    | false => simp only [hy] at h; exact ih h

/-- **ids are the positions in the accepted text**: after an accepted user update the user part of the
    model carries exactly the ids the parser gave to the new version -/
theorem merged_sameUserIds (pri : List Key) (d : Defects) (hd : d.hashOrderIds = false) (m nv : Model)
    (hm : m.WF) (hnv : NssWFp 1 nv.nss) (ha : updAccepted d false m nv) :
    (Model.merged d pri false m nv).SameUserIds nv := by
  intro n hn
  have hname : ∀ x, ((fun (y : Ns) => y.name == n) ((nsStep d pri false nv x).1)) = ((fun (y : Ns) => y.name == n) x) := by
    intro x; simp [(nsStep_ext d pri false nv x).1]
  unfold Model.findNs
  simp only [Model.merged]
  cases hf : m.nss.find? (fun y => y.name == n) with
  | some y =>
    rw [find?_map_append_of_some (fun (y : Ns) => y.name == n) _ hname _ _ y hf]
    have hy := List.mem_of_find?_eq_some hf
    have hyn : y.name = n := by simpa using List.find?_some hf
    rcases nsStep_fst_of_accepted pri d false nv y (ha.2 y hy) with ⟨hnone, _⟩ | ⟨nn, hsome, hnid, hents, heq⟩
    · have hacc := ha.2 y hy
      unfold nsAccepted at hacc
      rw [hnone] at hacc
      rcases hacc with h | h
      · cases h
      · exact absurd (hyn ▸ h) hn
    · rw [heq]
      rw [hyn] at hsome
      rw [hsome]
      simp only [OptRel]
      exact nsMerged_sameIds pri d hd y nn (hm.2.2.2 y hy) (hnv.2.2 nn (List.mem_of_find?_eq_some hsome)) hnid hents
  | none =>
    rw [find?_map_append_of_none (fun (y : Ns) => y.name == n) _ hname _ _ hf]
    rw [find?_filter_name (fun (y : Ns) => y.name)]
    · exact OptRel.refl _ Ns.SameIds.refl _
    · intro x _ hx
      simp only [Bool.not_eq_true', List.any_eq_false, beq_iff_eq]
      intro z hz hzx
      have := List.find?_eq_none.mp hf z hz
      simp only [beq_iff_eq] at this
      exact this (hzx.trans hx)


/-! ### re-applying an accepted version changes nothing -/

theorem find?_self_of_nodup {α : Type} (name : α → String) (l : List α) (hnd : (l.map name).Nodup) (x : α) (hx : x ∈ l) :
    l.find? (fun y => name y == name x) = some x := by
  cases h : l.find? (fun y => name y == name x) with
  | none =>
    have := List.find?_eq_none.mp h x hx
    simp at this
  | some y =>
    have hy := List.mem_of_find?_eq_some h
    have hn : name y = name x := by simpa using List.find?_some h
    rw [eq_of_name_eq name l hnd y x hy hx hn]

/-- field `f'` of the model already is what the new version says -/
def Field.Settled (f' : Field) (nfs : List Field) : Prop :=
  ∃ nf, nfs.find? (·.name == f'.name) = some nf ∧ nf.short = f'.short ∧ nf.ty = f'.ty ∧
    nf.nullable = f'.nullable ∧ nf.dflt = f'.dflt ∧ nf.deprecated = f'.deprecated

theorem Field.Settled.check (d : Defects) {f' : Field} {nfs : List Field} (h : f'.Settled nfs) : checkField d f' nfs = none := by
  obtain ⟨nf, hf, hs, ht, hn, hd, _⟩ := h
  unfold checkField
  simp only [hf, hs, ht, hn, hd, bne_self_eq_false, Bool.false_eq_true, if_false]
  cases f'.nullable <;> cases f'.dflt <;> simp

theorem Field.Settled.merge {f' : Field} {nfs : List Field} (h : f'.Settled nfs) : mergeField f' nfs = f' := by
  obtain ⟨nf, hf, _, _, hn, hd, hp⟩ := h
  unfold mergeField
  simp only [hf, hn, hd, hp]

theorem settled_of_merge {d : Defects} {f : Field} {nfs : List Field} (h : checkField d f nfs = none) :
    (mergeField f nfs).Settled nfs := by
  obtain ⟨nf, hf, hs, ht, _⟩ := checkField_none h
  refine ⟨nf, by rw [mergeField_name]; exact hf, by rw [mergeField_short]; exact hs, by rw [mergeField_ty]; exact ht, ?_, ?_, ?_⟩
  all_goals (unfold mergeField; simp only [hf])

theorem settled_self (nfs : List Field) (hnd : (nfs.map (·.name)).Nodup) (f : Field) (hf : f ∈ nfs) : f.Settled nfs :=
  ⟨f, find?_self_of_nodup (fun (x : Field) => x.name) nfs hnd f hf, rfl, rfl, rfl, rfl, rfl⟩

/-- entity `e'` of the model already is what entity `ne` of the new version says -/
def Entity.Settled (e' ne : Entity) : Prop :=
  e'.name = ne.name ∧ e'.k = ne.k ∧ (e'.deprecated = ne.deprecated ∧ e'.fullText = ne.fullText) ∧ e'.indexes = ne.indexes ∧
    e'.fields.map (·.name) = ne.fields.map (·.name) ∧ ∀ f' ∈ e'.fields, f'.Settled ne.fields

theorem fresh_nil_of_names {e' ne : Entity} (h : e'.fields.map (·.name) = ne.fields.map (·.name)) : e'.fresh ne = [] := by
  unfold Entity.fresh
  rw [List.filter_eq_nil_iff]
  intro nf hnf
  simp only [Bool.not_eq_true, Bool.not_eq_false', List.any_eq_true, beq_iff_eq, Bool.not_eq_eq_eq_not, Bool.not_true]
  have : nf.name ∈ ne.fields.map (·.name) := List.mem_map.mpr ⟨nf, hnf, rfl⟩
  rw [← h] at this
  obtain ⟨x, hx, hxn⟩ := List.mem_map.mp this
  simpa using ⟨x, hx, hxn⟩

theorem Entity.Settled.accepts (d : Defects) {e' ne : Entity} (h : e'.Settled ne) : e'.accepts d ne := by
  refine ⟨fun f hf => (h.2.2.2.2.2 f hf).check d, ?_⟩
  rw [fresh_nil_of_names h.2.2.2.2.1]
  simp

theorem prio_nil {α : Type} (pri : List Key) (key : α → Key) : prio pri key ([] : List α) = [] :=
  prio_short pri key [] (by simp)

theorem Entity.Settled.merged_eq (d : Defects) (pri : List Key) (nsn : String) {e' ne : Entity} (h : e'.Settled ne) :
    e'.merged d pri nsn ne = e' := by
  have hfresh := fresh_nil_of_names h.2.2.2.2.1
  have hmap : e'.fields.map (fun f => mergeField f ne.fields) = e'.fields := by
    conv => rhs; rw [← List.map_id e'.fields]
    apply List.map_congr_left
    intro f hf
    simpa using (h.2.2.2.2.2 f hf).merge
  unfold Entity.merged
  rw [hfresh, hmap, prio_nil]
  simp only [ite_self, renumber, List.append_nil, ← h.2.2.1.1, ← h.2.2.1.2, ← h.2.2.2.1]
  have : (e'.indexes.filter fun ix => !e'.indexes.contains ix) = [] := by
    rw [List.filter_eq_nil_iff]; intro ix hix; simp [hix]
  rw [this]
  simp [addRemoved]

theorem settled_of_merged (pri : List Key) (nsn : String) (d : Defects) (hd : d.hashOrderIds = false) (e ne : Entity)
    (he : e.WF) (hne : ne.WF) (ha : e.accepts d ne) (hk : ne.k = e.k) (hname : ne.name = e.name) :
    (e.merged d pri nsn ne).Settled ne := by
  obtain ⟨h1, h2, _, _, _⟩ := merged_fields pri nsn d hd e ne he hne ha
  refine ⟨by simp [Entity.merged, hname], by simp [Entity.merged, hk], by simp [Entity.merged], by simp [Entity.merged], h2, ?_⟩
  intro f' hf'
  rw [h1] at hf'
  rcases List.mem_append.mp hf' with hf' | hf'
  · simp only [List.mem_map] at hf'
    obtain ⟨f, hf, rfl⟩ := hf'
    exact settled_of_merge (ha.1 f hf)
  · exact settled_self ne.fields hne.1 f' (List.mem_of_mem_drop hf')

theorem settled_refl (ne : Entity) (hne : ne.WF) : ne.Settled ne :=
  ⟨rfl, rfl, ⟨rfl, rfl⟩, rfl, rfl, fun f hf => settled_self ne.fields hne.1 f hf⟩

/-- namespace `x'` of the model already is what namespace `nn` of the new version says -/
def Ns.Settled (x' nn : Ns) : Prop :=
  x'.name = nn.name ∧ x'.id = nn.id ∧ x'.ents.map (·.name) = nn.ents.map (·.name) ∧
    ∀ e' ∈ x'.ents, ∃ ne, nn.ents.find? (·.name == e'.name) = some ne ∧ e'.Settled ne

theorem Ns.Settled.accepted (d : Defects) {x' nn : Ns} (h : x'.Settled nn) : ∀ e ∈ x'.ents, entAccepted d nn e := by
  intro e he
  obtain ⟨ne, hf, hs⟩ := h.2.2.2 e he
  exact ⟨ne, hf, hs.2.1.symm, hs.accepts d⟩

theorem Ns.Settled.merged_eq (d : Defects) (pri : List Key) {x' nn : Ns} (h : x'.Settled nn) :
    Ns.merged d pri x' nn = x' := by
  have hmap : x'.ents.map (fun e => (entStep d pri nn e).1) = x'.ents := by
    conv => rhs; rw [← List.map_id x'.ents]
    apply List.map_congr_left
    intro e he
    obtain ⟨ne, hf, hs⟩ := h.2.2.2 e he
    rw [entStep_ok d pri nn e ne hf hs.2.1.symm (hs.accepts d)]
    simpa using hs.merged_eq d pri nn.name
  have hfil : (nn.ents.filter fun ne => !x'.ents.any (·.name == ne.name)) = [] := by
    rw [List.filter_eq_nil_iff]
    intro ne hne
    have : ne.name ∈ nn.ents.map (·.name) := List.mem_map.mpr ⟨ne, hne, rfl⟩
    rw [← h.2.2.1] at this
    obtain ⟨x, hx, hxn⟩ := List.mem_map.mp this
    simpa using ⟨x, hx, hxn⟩
  unfold Ns.merged
  rw [hmap, hfil]
  simp

theorem nsSettled_of_merged (pri : List Key) (d : Defects) (hd : d.hashOrderIds = false) (old nn : Ns)
    (ho : old.WF) (hn : nn.WF) (hname : nn.name = old.name) (hid : nn.id = old.id)
    (ha : ∀ e ∈ old.ents, entAccepted d nn e) : (Ns.merged d pri old nn).Settled nn := by
  obtain ⟨h1, h2, _, _, _⟩ := nsMerged_ents pri d hd old nn ho hn ha
  refine ⟨by simp [Ns.merged, hname], by simp [Ns.merged, hid], h2, ?_⟩
  intro e' he'
  rw [h1] at he'
  rcases List.mem_append.mp he' with he' | he'
  · simp only [List.mem_map] at he'
    obtain ⟨x, hx, rfl⟩ := he'
    obtain ⟨ne, hf, hk, hacc⟩ := ha x hx
    have hnename : ne.name = x.name := by simpa using List.find?_some hf
    rw [entStep_ok d pri nn x ne hf hk hacc]
    refine ⟨ne, by simpa [Entity.merged] using hf, ?_⟩
    exact settled_of_merged pri nn.name d hd x ne (ho.2.2 x hx) (hn.2.2 ne (List.mem_of_find?_eq_some hf)) hacc hk hnename
  · have hmem := List.mem_of_mem_drop he'
    exact ⟨e', find?_self_of_nodup (fun (y : Entity) => y.name) nn.ents hn.1 e' hmem, settled_refl e' (hn.2.2 e' hmem)⟩

theorem nsSettled_refl (nn : Ns) (hn : nn.WF) : nn.Settled nn :=
  ⟨rfl, rfl, rfl, fun e he => ⟨e, find?_self_of_nodup (fun (y : Entity) => y.name) nn.ents hn.1 e he, settled_refl e (hn.2.2 e he)⟩⟩

/-- every namespace of `m'` is either absent from the new version (allowed) or settled w.r.t. it, and
    the new version brings no namespace `m'` does not have: applying it changes nothing -/
theorem updateWith_settled (d : Defects) (pri : List Key) (system : Bool) (m' nv : Model)
    (hg : nsGuard system nv = false)
    (hs : ∀ x ∈ m'.nss, (nv.nss.find? (·.name == x.name) = none ∧ (system = true ∨ x.name = sysNs)) ∨
      ∃ nn, nv.nss.find? (·.name == x.name) = some nn ∧ x.Settled nn)
    (hall : ∀ nn ∈ nv.nss, nn.name ∈ m'.nss.map (·.name)) :
    updateWith d pri system m' nv = (m', none) := by
  have hacc : updAccepted d system m' nv := by
    refine ⟨hg, fun x hx => ?_⟩
    unfold nsAccepted
    rcases hs x hx with ⟨hnone, h⟩ | ⟨nn, hsome, hset⟩
    · rw [hnone]; exact h
    · rw [hsome]; exact ⟨hset.2.1.symm, hset.accepted d⟩
  rw [updateWith_ok d pri system m' nv hacc]
  have hmap : m'.nss.map (fun n => (nsStep d pri system nv n).1) = m'.nss := by
    conv => rhs; rw [← List.map_id m'.nss]
    apply List.map_congr_left
    intro x hx
    rcases hs x hx with ⟨hnone, h⟩ | ⟨nn, hsome, hset⟩
    · rw [nsStep_ok_none d pri system nv x hnone h]; rfl
    · rw [nsStep_ok_some d pri system nv x nn hsome hset.2.1.symm (hset.accepted d)]
      simpa using hset.merged_eq d pri
  have hfil : (nv.nss.filter fun nn => !m'.nss.any (·.name == nn.name)) = [] := by
    rw [List.filter_eq_nil_iff]
    intro nn hnn
    obtain ⟨x, hx, hxn⟩ := List.mem_map.mp (hall nn hnn)
    simpa using ⟨x, hx, hxn⟩
  unfold Model.merged
  rw [hmap, hfil]
  simp

theorem merged_settled (pri : List Key) (d : Defects) (hd : d.hashOrderIds = false) (system : Bool) (decal : Nat)
    (m nv : Model) (hm : m.WF) (hnv : NssWFp decal nv.nss) (ha : updAccepted d system m nv) :
    (∀ x ∈ (Model.merged d pri system m nv).nss,
      (nv.nss.find? (·.name == x.name) = none ∧ (system = true ∨ x.name = sysNs)) ∨
      ∃ nn, nv.nss.find? (·.name == x.name) = some nn ∧ x.Settled nn) ∧
    (∀ nn ∈ nv.nss, nn.name ∈ (Model.merged d pri system m nv).nss.map (·.name)) := by
  constructor
  · intro x hx
    simp only [Model.merged] at hx
    rcases List.mem_append.mp hx with hx | hx
    · simp only [List.mem_map] at hx
      obtain ⟨y, hy, rfl⟩ := hx
      have hacc := ha.2 y hy
      rcases nsStep_fst_of_accepted pri d system nv y hacc with ⟨hnone, heq⟩ | ⟨nn, hsome, hnid, hents, heq⟩
      · rw [heq]
        unfold nsAccepted at hacc
        rw [hnone] at hacc
        exact Or.inl ⟨hnone, hacc⟩
      · rw [heq]
        have hnname : nn.name = y.name := by simpa using List.find?_some hsome
        refine Or.inr ⟨nn, by simpa [Ns.merged] using hsome, ?_⟩
        exact nsSettled_of_merged pri d hd y nn (hm.2.2.2 y hy) (hnv.2.2 nn (List.mem_of_find?_eq_some hsome)) hnname hnid hents
    · have hmem : x ∈ nv.nss := (List.mem_filter.mp hx).1
      exact Or.inr ⟨x, find?_self_of_nodup (fun (y : Ns) => y.name) nv.nss hnv.1 x hmem, nsSettled_refl x (hnv.2.2 x hmem)⟩
  · intro nn hnn
    simp only [Model.merged, List.map_append, List.mem_append, List.mem_map]
    by_cases h : ∃ y ∈ m.nss, y.name = nn.name
    · obtain ⟨y, hy, hyn⟩ := h
      exact Or.inl ⟨(nsStep d pri system nv y).1, ⟨y, hy, rfl⟩, by rw [(nsStep_ext d pri system nv y).1]; exact hyn⟩
    · refine Or.inr ⟨nn, ?_, rfl⟩
      simp only [List.mem_filter, Bool.not_eq_true', List.any_eq_false, beq_iff_eq]
      exact ⟨hnn, fun y hy hyn => h ⟨y, hy, hyn⟩⟩

/-- **re-applying an accepted version changes nothing** (`update_with` level) -/
theorem updateWith_idem (pri pri' : List Key) (d : Defects) (hd : d.hashOrderIds = false) (system : Bool) (decal : Nat)
    (m nv : Model) (hm : m.WF) (hnv : NssWFp decal nv.nss) (ha : updAccepted d system m nv) :
    updateWith d pri' system (Model.merged d pri system m nv) nv = (Model.merged d pri system m nv, none) := by
  obtain ⟨h1, h2⟩ := merged_settled pri d hd system decal m nv hm hnv ha
  exact updateWith_settled d pri' system _ nv ha.1 h1 h2



/-! ### with text-order numbering nothing depends on the visit order -/

theorem Entity.merged_pri (d : Defects) (hd : d.hashOrderIds = false) (pri pri' : List Key) (nsn : String) (e ne : Entity) :
    e.merged d pri nsn ne = e.merged d pri' nsn ne := by
  unfold Entity.merged; simp [hd]

theorem Ns.merged_pri (d : Defects) (hd : d.hashOrderIds = false) (pri pri' : List Key) (old nn : Ns)
    (ha : ∀ e ∈ old.ents, entAccepted d nn e) : Ns.merged d pri old nn = Ns.merged d pri' old nn := by
  unfold Ns.merged
  congr 2
  apply List.map_congr_left
  intro e he
  obtain ⟨ne, hf, hk, hacc⟩ := ha e he
  rw [entStep_ok d pri nn e ne hf hk hacc, entStep_ok d pri' nn e ne hf hk hacc]
  exact Entity.merged_pri d hd pri pri' nn.name e ne

theorem Model.merged_pri (d : Defects) (hd : d.hashOrderIds = false) (pri pri' : List Key) (system : Bool) (m nv : Model)
    (ha : updAccepted d system m nv) : Model.merged d pri system m nv = Model.merged d pri' system m nv := by
  unfold Model.merged
  congr 2
  apply List.map_congr_left
  intro n hn
  rcases nsStep_fst_of_accepted pri d system nv n (ha.2 n hn) with ⟨hnone, heq⟩ | ⟨nn, hsome, hnid, hents, heq⟩
  · rcases nsStep_fst_of_accepted pri' d system nv n (ha.2 n hn) with ⟨_, heq'⟩ | ⟨nn', hsome', _, _, _⟩
    · rw [heq, heq']
    · rw [hnone] at hsome'; cases hsome'
  · rcases nsStep_fst_of_accepted pri' d system nv n (ha.2 n hn) with ⟨hnone', _⟩ | ⟨nn', hsome', _, _, heq'⟩
    · rw [hnone'] at hsome; cases hsome
    · rw [hsome] at hsome'; cases hsome'
      rw [heq, heq']
      exact Ns.merged_pri d hd pri pri' n nn hents

/-! ### the two entry points -/

theorem update_eq_applyV (d : Defects) (pri : List Key) (m : Model) (v : Version) :
    update d pri m v = applyV d pri false m v := by
  unfold update applyV; rfl

theorem updateSystem_eq_applyV (d : Defects) (pri : List Key) (m : Model) (v : Version) :
    updateSystem d pri m v = applyV d pri true m v := by
  unfold updateSystem applyV; rfl

theorem mode_of (system : Bool) : Mode system (if system then 0 else 1) := by
  cases system <;> simp [Mode]

/-- an accepted version: the parsed model, the acceptance facts and the result -/
theorem applyV_ok {d : Defects} {pri : List Key} {system : Bool} {m m' : Model} {v : Version}
    (h : applyV d pri system m v = (m', none)) :
    ∃ nv, parse (if system then 0 else 1) v = .ok nv ∧ NssWFp (if system then 0 else 1) nv.nss ∧
      updAccepted d system m nv ∧ m' = Model.merged d pri system m nv := by
  unfold applyV at h
  split at h
  · cases h
  · rename_i nv hp
    have hacc := (updateWith_none_iff d pri system m nv).mp (by rw [h])
    rw [updateWith_ok d pri system m nv hacc] at h
    exact ⟨nv, hp, parse_wf _ v nv hp, hacc, by cases h; rfl⟩

theorem applyV_of_accepted {d : Defects} {pri : List Key} {system : Bool} {m nv : Model} {v : Version}
    (hp : parse (if system then 0 else 1) v = .ok nv) (hacc : updAccepted d system m nv) :
    applyV d pri system m v = (Model.merged d pri system m nv, none) := by
  unfold applyV; rw [hp]; exact updateWith_ok d pri system m nv hacc

/-- a refused version returns the model unchanged when refusals are atomic -/
theorem applyV_refused (d : Defects) (hd : d.partialRefusal = false) (pri : List Key) (system : Bool) (m : Model) (v : Version)
    (e : Err) (h : (applyV d pri system m v).2 = some e) : (applyV d pri system m v).1 = m := by
  unfold applyV at h ⊢
  split
  · rfl
  · rename_i nv hp
    rw [hp] at h
    simp only at h
    unfold updateWith at h ⊢
    generalize (nv.nss.any fun n => if system = true then n.name != sysNs else n.name == sysNs) = cond at h ⊢
    cases cond
    · simp only [Bool.false_eq_true, if_false] at h ⊢
      split
      · simp [hd]
      · rename_i hnone; rw [hnone] at h; cases h
    · rfl

/-- well-formedness is kept by every version, accepted or not -/
theorem applyV_wf (d : Defects) (hd : d.hashOrderIds = false) (hp : d.partialRefusal = false) (pri : List Key)
    (system : Bool) (m : Model) (v : Version) (hm : m.WF) : (applyV d pri system m v).1.WF := by
  cases hr : (applyV d pri system m v).2 with
  | some e => rw [applyV_refused d hp pri system m v e hr]; exact hm
  | none =>
    have : applyV d pri system m v = ((applyV d pri system m v).1, none) := by rw [← hr]
    obtain ⟨nv, _, hnv, hacc, heq⟩ := applyV_ok this
    rw [heq]
    exact merged_model_wf pri d hd system _ (mode_of system) m nv hm hnv hacc

/-- acceptance and the resulting model do not depend on the visit order -/
theorem applyV_pri (d : Defects) (hd : d.hashOrderIds = false) (hp : d.partialRefusal = false) (pri pri' : List Key)
    (system : Bool) (m : Model) (v : Version) :
    (applyV d pri system m v).1 = (applyV d pri' system m v).1 ∧
    ((applyV d pri system m v).2 = none ↔ (applyV d pri' system m v).2 = none) := by
  have key : ∀ p p', (applyV d p system m v).2 = none →
      (applyV d p' system m v).2 = none ∧ (applyV d p system m v).1 = (applyV d p' system m v).1 := by
    intro p p' h
    have : applyV d p system m v = ((applyV d p system m v).1, none) := by rw [← h]
    obtain ⟨nv, hpv, _, hacc, heq⟩ := applyV_ok this
    rw [heq, applyV_of_accepted hpv hacc]
    exact ⟨rfl, Model.merged_pri d hd p p' system m nv hacc⟩
  cases h1 : (applyV d pri system m v).2 with
  | none =>
    obtain ⟨h2, h3⟩ := key pri pri' h1
    exact ⟨h3, by simp [h2]⟩
  | some e =>
    cases h2 : (applyV d pri' system m v).2 with
    | none =>
      obtain ⟨h3, _⟩ := key pri' pri h2
      rw [h3] at h1; cases h1
    | some e' =>
      rw [applyV_refused d hp pri system m v e h1, applyV_refused d hp pri' system m v e' h2]
      simp

/-- re-applying an accepted version (a restart on the same model) is accepted and changes nothing -/
theorem applyV_idem (d : Defects) (hd : d.hashOrderIds = false) (pri pri' : List Key) (system : Bool) (m m' : Model) (v : Version)
    (hm : m.WF) (h : applyV d pri system m v = (m', none)) : applyV d pri' system m' v = (m', none) := by
  obtain ⟨nv, hpv, hnv, hacc, heq⟩ := applyV_ok h
  subst heq
  unfold applyV
  rw [hpv]
  exact updateWith_idem pri pri' d hd system _ m nv hm hnv hacc



/-! ### reading rows through the short ids -/

theorem Model.Ext.findEntity {m m' : Model} (h : Model.Ext m m') {n e : String} {x : Entity}
    (hx : m.findEntity n e = some x) : ∃ x', m'.findEntity n e = some x' ∧ Entity.Ext x x' := by
  unfold Model.findEntity at hx ⊢
  cases hn : m.findNs n with
  | none => rw [hn] at hx; cases hx
  | some y =>
    rw [hn] at hx
    obtain ⟨y', hy', hext⟩ := h n y hn
    rw [hy']
    simp only [Option.bind_some] at hx ⊢
    exact hext.2.2 e x hx

theorem Model.Ext.findField {m m' : Model} (h : Model.Ext m m') {n e f : String} {fd : Field}
    (hf : m.findField n e f = some fd) : ∃ fd', m'.findField n e f = some fd' ∧ fd'.short = fd.short ∧ fd'.ty = fd.ty := by
  unfold Model.findField at hf ⊢
  cases he : m.findEntity n e with
  | none => rw [he] at hf; cases hf
  | some x =>
    rw [he] at hf
    obtain ⟨x', hx', hext⟩ := h.findEntity he
    rw [hx']
    simp only [Option.bind_some] at hf ⊢
    exact hext.2.2 f fd hf

theorem Model.Ext.nsId {m m' : Model} (h : Model.Ext m m') {n : String} {i : Nat} (hi : m.nsId n = some i) :
    m'.nsId n = some i := by
  unfold Model.nsId at hi ⊢
  cases hn : m.findNs n with
  | none => rw [hn] at hi; cases hi
  | some y =>
    rw [hn] at hi
    obtain ⟨y', hy', hext⟩ := h n y hn
    rw [hy']; simp only [Option.map_some, Option.some.injEq] at hi ⊢; rw [hext.2.1]; exact hi

theorem Model.Ext.entK {m m' : Model} (h : Model.Ext m m') {n e : String} {k : Nat} (hk : m.entK n e = some k) :
    m'.entK n e = some k := by
  unfold Model.entK at hk ⊢
  cases he : m.findEntity n e with
  | none => rw [he] at hk; cases hk
  | some x =>
    rw [he] at hk
    obtain ⟨x', hx', hext⟩ := h.findEntity he
    rw [hx']; simp only [Option.map_some, Option.some.injEq] at hk ⊢; rw [hext.2.1]; exact hk

theorem Model.Ext.fieldShort {m m' : Model} (h : Model.Ext m m') {n e f : String} {s : Nat}
    (hs : m.fieldShort n e f = some s) : m'.fieldShort n e f = some s := by
  unfold Model.fieldShort at hs ⊢
  cases hf : m.findField n e f with
  | none => rw [hf] at hs; cases hs
  | some fd =>
    rw [hf] at hs
    obtain ⟨fd', hfd', hsh, _⟩ := h.findField hf
    rw [hfd']; simp only [Option.map_some, Option.some.injEq] at hs ⊢; rw [hsh]; exact hs

/-- a value stored under a field's short id is read back, unchanged, through any later model -/
theorem read_preserved {m m' : Model} (h : Model.Ext m m') {n e f : String} {fd : Field}
    (hf : m.findField n e f = some fd) (row : Row) (val : String) (hv : row.lookup fd.short = some val) :
    read m n e f row = some (some val) ∧ read m' n e f row = some (some val) := by
  obtain ⟨fd', hfd', hsh, _⟩ := h.findField hf
  have hr : ∀ (mm : Model), read mm n e f row = (mm.findField n e f).map (readField · row) := by
    intro mm; rfl
  rw [hr, hr, hf, hfd']
  simp only [Option.map_some, readField, hsh, hv]
  exact ⟨trivial, trivial⟩

theorem lookup_none_of_keys {row : Row} {s : Nat} (h : ∀ p ∈ row, p.1 ≠ s) : row.lookup s = none := by
  induction row with
  | nil => rfl
  | cons p ps ih =>
    have hp := h p (by simp)
    simp only [List.lookup]
    have : (s == p.1) = false := by simpa using fun heq => hp heq.symm
    rw [this]
    exact ih (fun q hq => h q (List.mem_cons_of_mem _ hq))

theorem Model.WF.findEntity_wf {m : Model} (hm : m.WF) {n e : String} {x : Entity} (hx : m.findEntity n e = some x) : x.WF := by
  unfold Model.findEntity at hx
  cases hn : m.findNs n with
  | none => rw [hn] at hx; cases hx
  | some y =>
    rw [hn] at hx
    simp only [Option.bind_some] at hx
    have hy : y ∈ m.nss := List.mem_of_find?_eq_some hn
    exact (hm.2.2.2 y hy).2.2 x (List.mem_of_find?_eq_some hx)

/-- a field that did not exist when the row was written reads its default, or null -/
theorem read_new_field {m m' : Model} (hm : m.WF) (hm' : m'.WF) (h : Model.Ext m m') {n e f : String} {ent : Entity} {fd' : Field}
    (he : m.findEntity n e = some ent) (hnew : ent.findField f = none) (hf' : m'.findField n e f = some fd')
    (row : Row) (hrow : ∀ p ∈ row, ∃ g ∈ ent.fields, g.short = p.1) :
    read m' n e f row = some (fd'.dflt.map (·.tok)) := by
  have hr : read m' n e f row = (m'.findField n e f).map (readField · row) := rfl
  rw [hr, hf']
  simp only [Option.map_some, Option.some.injEq]
  obtain ⟨ent', hent', hext⟩ := h.findEntity he
  have hwf' := hm'.findEntity_wf hent'
  have hwf := hm.findEntity_wf he
  have hfd'mem : fd' ∈ ent'.fields ∧ fd'.name = f := by
    unfold Model.findField at hf'
    rw [hent'] at hf'
    simp only [Option.bind_some, Entity.findField] at hf'
    exact ⟨List.mem_of_find?_eq_some hf', by simpa using List.find?_some hf'⟩
  have hnone : row.lookup fd'.short = none := by
    apply lookup_none_of_keys
    intro p hp heq
    obtain ⟨g, hg, hgs⟩ := hrow p hp
    have hfind : ent.findField g.name = some g := find?_self_of_nodup (fun (x : Field) => x.name) ent.fields hwf.1 g hg
    obtain ⟨g', hg', hsh, _⟩ := hext.2.2 g.name g hfind
    have hg'mem : g' ∈ ent'.fields := List.mem_of_find?_eq_some hg'
    have hg'name : g'.name = g.name := by simpa using List.find?_some hg'
    have : g' = fd' := PosFrom_eq_of_pos_eq (fun (x : Field) => x.short) _ _ hwf'.2 g' fd' hg'mem hfd'mem.1
      (by rw [hsh, hgs, heq])
    subst this
    have hgf : g.name = f := hg'name.symm.trans hfd'mem.2
    unfold Entity.findField at hnew
    have := List.find?_eq_none.mp hnew g hg
    simp [hgf] at this
  simp [readField, hnone]



/-! ### histories -/

theorem applyV_ext (d : Defects) (pri : List Key) (system : Bool) (m : Model) (v : Version) :
    Model.Ext m (applyV d pri system m v).1 := by
  unfold applyV; split
  · exact Model.Ext.refl m
  · exact updateWith_ext _ _ _ _ _

theorem runSteps_ext (d : Defects) (m : Model) (steps : List Step) : Model.Ext m (runSteps d m steps) := by
  induction steps generalizing m with
  | nil => exact Model.Ext.refl m
  | cons s rest ih =>
    obtain ⟨sys, pri, v⟩ := s
    simp only [runSteps]
    exact (applyV_ext d pri sys m v).trans (ih _)

theorem runSteps_wf (d : Defects) (hd : d.hashOrderIds = false) (hp : d.partialRefusal = false) (m : Model)
    (steps : List Step) (hm : m.WF) : (runSteps d m steps).WF := by
  induction steps generalizing m with
  | nil => exact hm
  | cons s rest ih =>
    obtain ⟨sys, pri, v⟩ := s
    simp only [runSteps]
    exact ih _ (applyV_wf d hd hp pri sys m v hm)

theorem runSteps_accepted (d : Defects) (hp : d.partialRefusal = false) (m : Model) (steps : List Step) :
    runSteps d m steps = runSteps d m (acceptedSteps d m steps) := by
  induction steps generalizing m with
  | nil => rfl
  | cons s rest ih =>
    obtain ⟨sys, pri, v⟩ := s
    simp only [runSteps, acceptedSteps]
    cases hr : (applyV d pri sys m v).2 with
    | none => simp only [runSteps]; exact ih _
    | some e => simp only; rw [applyV_refused d hp pri sys m v e hr]; exact ih m

/-- two histories with the same versions in the same order, whatever the visit orders -/
def sameVersions (a b : List Step) : Prop := a.map (fun s => (s.1, s.2.2)) = b.map (fun s => (s.1, s.2.2))

theorem runSteps_pri (d : Defects) (hd : d.hashOrderIds = false) (hp : d.partialRefusal = false) (m : Model)
    (a b : List Step) (h : sameVersions a b) : runSteps d m a = runSteps d m b := by
  induction a generalizing m b with
  | nil => cases b with
    | nil => rfl
    | cons _ _ => simp [sameVersions] at h
  | cons s rest ih =>
    cases b with
    | nil => simp [sameVersions] at h
    | cons t rest' =>
      obtain ⟨sys, pri, v⟩ := s
      obtain ⟨sys', pri', v'⟩ := t
      simp only [sameVersions, List.map_cons, List.cons.injEq, Prod.mk.injEq] at h
      obtain ⟨⟨rfl, rfl⟩, h2⟩ := h
      simp only [runSteps]
      rw [(applyV_pri d hd hp pri pri' sys m v).1]
      exact ih _ rest' h2

/-! ### unpacking `SameUserIds` and `WF` -/

theorem Model.SameUserIds.nsId {a b : Model} (h : a.SameUserIds b) {n : String} (hn : n ≠ sysNs) : a.nsId n = b.nsId n := by
  have := h n hn
  unfold Model.nsId
  cases ha : a.findNs n <;> cases hb : b.findNs n <;> rw [ha, hb] at this <;> simp_all [OptRel]
  exact this.1

theorem Model.SameUserIds.findEntity {a b : Model} (h : a.SameUserIds b) {n : String} (hn : n ≠ sysNs) (e : String) :
    OptRel Entity.SameIds (a.findEntity n e) (b.findEntity n e) := by
  have := h n hn
  unfold Model.findEntity
  cases ha : a.findNs n <;> cases hb : b.findNs n <;> rw [ha, hb] at this <;> simp_all [OptRel]
  exact this.2 e

theorem Model.SameUserIds.entK {a b : Model} (h : a.SameUserIds b) {n : String} (hn : n ≠ sysNs) (e : String) :
    a.entK n e = b.entK n e := by
  have := h.findEntity hn e
  unfold Model.entK
  cases ha : a.findEntity n e <;> cases hb : b.findEntity n e <;> rw [ha, hb] at this <;> simp_all [OptRel]
  exact this.1

theorem Model.SameUserIds.fieldShort {a b : Model} (h : a.SameUserIds b) {n : String} (hn : n ≠ sysNs) (e f : String) :
    a.fieldShort n e f = b.fieldShort n e f := by
  have := h.findEntity hn e
  unfold Model.fieldShort Model.findField
  cases ha : a.findEntity n e <;> cases hb : b.findEntity n e <;> rw [ha, hb] at this <;> simp_all [OptRel]
  exact this.2 f

/-- distinctness, spelled out: what `WF` gives -/
theorem Model.WF.distinct {m : Model} (hm : m.WF) :
    (m.nss.map (·.id)).Nodup ∧
    (∀ n ∈ m.nss, (n.ents.map (·.k)).Nodup ∧ ∀ e ∈ n.ents, (e.fields.map (·.short)).Nodup) ∧
    (∀ n₁ ∈ m.nss, ∀ n₂ ∈ m.nss, ∀ e₁ ∈ n₁.ents, ∀ e₂ ∈ n₂.ents,
        entShort n₁ e₁ = entShort n₂ e₂ → n₁ = n₂ ∧ e₁ = e₂) := by
  refine ⟨hm.2.1, fun n hn => ⟨PosFrom_nodup _ _ _ (hm.2.2.2 n hn).2.1,
    fun e he => PosFrom_nodup _ _ _ ((hm.2.2.2 n hn).2.2 e he).2⟩, ?_⟩
  intro n₁ h₁ n₂ h₂ e₁ he₁ e₂ he₂ heq
  unfold entShort at heq
  simp only [Prod.mk.injEq] at heq
  have hns : n₁ = n₂ := by
    by_cases c1 : n₁.name = "" <;> by_cases c2 : n₂.name = ""
    · exact eq_of_name_eq (fun (n : Ns) => n.name) m.nss hm.1 n₁ n₂ h₁ h₂ (c1.trans c2.symm)
    · simp [c1, c2] at heq
    · simp [c1, c2] at heq
    · simp only [beq_iff_eq, c1, c2, if_false, Option.some.injEq] at heq
      exact eq_of_name_eq (fun (n : Ns) => n.id) m.nss hm.2.1 n₁ n₂ h₁ h₂ heq.1
  subst hns
  exact ⟨rfl, PosFrom_eq_of_pos_eq _ _ _ (hm.2.2.2 n₁ h₁).2.1 e₁ e₂ he₁ he₂ heq.2⟩

theorem wf_empty : Model.empty.WF := ⟨by simp [Model.empty], by simp [Model.empty], by simp [Model.empty], by simp [Model.empty]⟩



/-! ### the instance: restart on the same text -/

theorem guard_true_names {nv : Model} (hg : nsGuard true nv = false) : ∀ nn ∈ nv.nss, nn.name = sysNs := by
  intro nn hnn
  unfold nsGuard at hg
  have := (List.any_eq_false.mp hg) nn hnn
  simpa using this

theorem guard_false_names {nv : Model} (hg : nsGuard false nv = false) : ∀ nn ∈ nv.nss, nn.name ≠ sysNs := by
  intro nn hnn
  unfold nsGuard at hg
  have := (List.any_eq_false.mp hg) nn hnn
  simpa using this

theorem loadAndUpdate_restart (d : Defects) (hd : d.hashOrderIds = false) (pri pri' : List Key) (sysV : Version)
    (stored : Option Model) (v : Version) (m' : Model) (hs : (stored.getD Model.empty).WF)
    (h : loadAndUpdate d pri sysV stored v = (m', none)) :
    loadAndUpdate d pri' sysV (some m') v = (m', none) := by
  unfold loadAndUpdate at h
  simp only [updateSystem_eq_applyV] at h
  split at h
  · cases h
  · rename_i m1 h1
    rw [update_eq_applyV] at h
    obtain ⟨nvS, hpS, hnvS, haccS, heqS⟩ := applyV_ok h1
    obtain ⟨nvU, hpU, hnvU, haccU, heqU⟩ := applyV_ok h
    have hm1 : m1.WF := by
      rw [heqS]; exact merged_model_wf pri d hd true _ (mode_of true) _ nvS hs hnvS haccS
    obtain ⟨hset, hall⟩ := merged_settled pri d hd true _ _ nvS hs hnvS haccS
    rw [← heqS] at hset hall
    have hsysNames := guard_true_names haccS.1
    have hsys : applyV d pri' true m' sysV = (m', none) := by
      unfold applyV
      rw [hpS]
      apply updateWith_settled d pri' true m' nvS haccS.1
      · intro x hx
        rw [heqU] at hx
        simp only [Model.merged] at hx
        rcases List.mem_append.mp hx with hx | hx
        · simp only [List.mem_map] at hx
          obtain ⟨y, hy, rfl⟩ := hx
          have hxname : (nsStep d pri false nvU y).1.name = y.name := (nsStep_ext d pri false nvU y).1
          rcases hset y hy with ⟨hnone, _⟩ | ⟨nn, hsome, hsettled⟩
          · exact Or.inl ⟨by rw [hxname]; exact hnone, Or.inl rfl⟩
          · -- y is the system namespace: the user update leaves it alone
            have hnn := List.mem_of_find?_eq_some hsome
            have hyname : y.name = sysNs := by
              have : nn.name = y.name := by simpa using List.find?_some hsome
              rw [← this]; exact hsysNames nn hnn
            have hnoneU : nvU.nss.find? (·.name == y.name) = none := by
              rw [List.find?_eq_none]
              intro z hz
              have := guard_false_names haccU.1 z hz
              simp only [beq_iff_eq]
              rw [hyname]; exact this
            rw [nsStep_ok_none d pri false nvU y hnoneU (Or.inr hyname)]
            exact Or.inr ⟨nn, hsome, hsettled⟩
        · have hmem : x ∈ nvU.nss := (List.mem_filter.mp hx).1
          have hxn := guard_false_names haccU.1 x hmem
          refine Or.inl ⟨?_, Or.inl rfl⟩
          rw [List.find?_eq_none]
          intro z hz
          simp only [beq_iff_eq]
          rw [hsysNames z hz]
          exact fun h => hxn h.symm
      · intro nn hnn
        have := hall nn hnn
        rw [heqU]
        simp only [Model.merged, List.map_append, List.mem_append]
        refine Or.inl ?_
        obtain ⟨y, hy, hyn⟩ := List.mem_map.mp this
        exact List.mem_map.mpr ⟨(nsStep d pri false nvU y).1, List.mem_map.mpr ⟨y, hy, rfl⟩,
          by rw [(nsStep_ext d pri false nvU y).1]; exact hyn⟩
    unfold loadAndUpdate
    simp only [Option.getD_some, updateSystem_eq_applyV, hsys, update_eq_applyV]
    exact applyV_idem d hd pri pri' false m1 m' v hm1 h


/-! ### the code before the fixes, under the guard "at most one new field per existing entity" -/

/-- the same rules (same `defaultDropAccepted`), text-order numbering and atomic refusals -/
def Defects.fixedOrder (d : Defects) : Defects := { d with hashOrderIds := false, partialRefusal := false }

theorem Entity.merged_single (d : Defects) (pri : List Key) (nsn : String) (e ne : Entity) (h : (e.fresh ne).length ≤ 1) :
    e.merged d pri nsn ne = e.merged d.fixedOrder pri nsn ne := by
  unfold Entity.merged
  cases d.hashOrderIds
  · simp [Defects.fixedOrder]
  · simp [Defects.fixedOrder, prio_short _ _ _ h]

theorem accepts_fixedOrder (d : Defects) (e ne : Entity) : e.accepts d ne ↔ e.accepts d.fixedOrder ne := Iff.rfl

theorem updAccepted_fixedOrder (d : Defects) (system : Bool) (m nv : Model) :
    updAccepted d system m nv ↔ updAccepted d.fixedOrder system m nv := Iff.rfl

theorem Model.merged_single (d : Defects) (pri : List Key) (system : Bool) (m nv : Model)
    (ha : updAccepted d system m nv) (hg : atMostOneFresh m nv = true) :
    Model.merged d pri system m nv = Model.merged d.fixedOrder pri system m nv := by
  have ha' : updAccepted d.fixedOrder system m nv := (updAccepted_fixedOrder d system m nv).mp ha
  unfold Model.merged
  congr 2
  apply List.map_congr_left
  intro n hn
  unfold atMostOneFresh at hg
  have hgn := (List.all_eq_true.mp hg) n hn
  rcases nsStep_fst_of_accepted pri d system nv n (ha.2 n hn) with ⟨hnone, heq⟩ | ⟨nn, hsome, hnid, hents, heq⟩
  · rcases nsStep_fst_of_accepted pri d.fixedOrder system nv n (ha'.2 n hn) with ⟨_, heq'⟩ | ⟨nn', hsome', _, _, _⟩
    · rw [heq, heq']
    · rw [hnone] at hsome'; cases hsome'
  · rcases nsStep_fst_of_accepted pri d.fixedOrder system nv n (ha'.2 n hn) with ⟨hnone', _⟩ | ⟨nn', hsome', _, _, heq'⟩
    · rw [hnone'] at hsome; cases hsome
    · rw [hsome] at hsome'; cases hsome'
      rw [heq, heq']
      rw [hsome] at hgn
      simp only at hgn
      unfold Ns.merged
      congr 2
      apply List.map_congr_left
      intro e he
      obtain ⟨ne, hf, hk, hacc⟩ := hents e he
      rw [entStep_ok d pri nn e ne hf hk hacc, entStep_ok d.fixedOrder pri nn e ne hf hk ((accepts_fixedOrder d e ne).mp hacc)]
      have hge := (List.all_eq_true.mp hgn) e he
      rw [hf] at hge
      exact Entity.merged_single d pri nn.name e ne (by simpa using hge)

/-- an accepted version that brings at most one new field per existing entity gives the same model with
    hash-order numbering / partial refusals and without them -/
theorem applyV_single (d : Defects) (pri : List Key) (system : Bool) (m m' : Model) (v : Version)
    (hg : oneFreshGuard system m v = true) (h : applyV d pri system m v = (m', none)) :
    applyV d.fixedOrder pri system m v = (m', none) := by
  obtain ⟨nv, hp, _, hacc, heq⟩ := applyV_ok h
  unfold oneFreshGuard at hg
  rw [hp] at hg
  rw [applyV_of_accepted hp ((updAccepted_fixedOrder d system m nv).mp hacc), heq, Model.merged_single d pri system m nv hacc hg]


/-! ### rows written under an older version still conform -/

/-- the keys of a row are short ids of fields of its entity -/
def rowKeysIn (e : Entity) (row : Row) : Prop := ∀ p ∈ row, ∃ g ∈ e.fields, g.short = p.1

theorem merged_conforms (vok : FType → String → Bool) (pri : List Key) (nsn : String) (d : Defects)
    (hd : d.hashOrderIds = false) (hdd : d.defaultDropAccepted = false) (e ne : Entity)
    (he : e.WF) (hne : ne.WF) (ha : e.accepts d ne) (row : Row) (hrow : rowKeysIn e row)
    (hc : rowConforms vok e row = true) : rowConforms vok (e.merged d pri nsn ne) row = true := by
  obtain ⟨hfields, _, hpos, hfresh, hlen⟩ := merged_fields pri nsn d hd e ne he hne ha
  unfold rowConforms at hc ⊢
  rw [List.all_eq_true] at hc ⊢
  intro f' hf'
  rw [hfields] at hf'
  rcases List.mem_append.mp hf' with hf' | hf'
  · simp only [List.mem_map] at hf'
    obtain ⟨f, hf, rfl⟩ := hf'
    have hcf := hc f hf
    rw [mergeField_ty, mergeField_short]
    cases hr : f.ty.isRef with
    | true => simp
    | false =>
      simp only [hr, Bool.false_or] at hcf ⊢
      cases hl : row.lookup f.short with
      | some v => simpa [hl] using hcf
      | none =>
        simp only [hl] at hcf ⊢
        obtain ⟨nf, hfind, _, _, hnot⟩ := checkField_none (ha.1 f hf)
        unfold mergeField
        simp only [hfind]
        cases hn : nf.nullable with
        | true => simp
        | false =>
          cases hdf : nf.dflt with
          | some _ => simp
          | none =>
            exfalso
            apply hnot
            refine ⟨?_, hn, hdf, hr⟩
            cases hfn : f.nullable with
            | true => exact Or.inl rfl
            | false =>
              simp only [hfn, Bool.false_or] at hcf
              exact Or.inr ⟨hdd, hcf⟩
  · -- a new field: the row cannot hold a value for it, and the update required a default or nullability
    have hmem : f' ∈ e.fresh ne := by rw [hfresh]; exact hf'
    have hchk := ha.2 f' hmem
    unfold freshCheck at hchk
    have hnone : row.lookup f'.short = none := by
      apply lookup_none_of_keys
      intro p hp heq
      obtain ⟨g, hg, hgs⟩ := hrow p hp
      have h1 := PosFrom_lt (fun (x : Field) => x.short) reservedShort e.fields he.2 g hg
      have hd' := PosFrom_drop (fun (x : Field) => x.short) reservedShort e.fields.length ne.fields hne.2 hlen
      have h2 := PosFrom_ge (fun (x : Field) => x.short) _ _ hd' f' hf'
      have h1 := h1; have h2 := h2
      omega
    simp only [hnone]
    cases hr : f'.ty.isRef with
    | true => simp
    | false =>
      simp only [Bool.false_or]
      cases hn : f'.nullable with
      | true => simp
      | false =>
        cases hdf : f'.dflt with
        | some _ => simp
        | none => simp [hn, hdf, hr] at hchk

theorem merged_keysIn (pri : List Key) (nsn : String) (d : Defects) (e ne : Entity) (row : Row) (hrow : rowKeysIn e row) :
    rowKeysIn (e.merged d pri nsn ne) row := by
  intro p hp
  obtain ⟨g, hg, hgs⟩ := hrow p hp
  refine ⟨mergeField g ne.fields, ?_, by rw [mergeField_short]; exact hgs⟩
  simp only [Entity.merged, List.mem_append, List.mem_map]
  exact Or.inl ⟨g, hg, rfl⟩

/-- the entity `n.ename` of `m`, after an accepted version: unchanged (its namespace is not in the version) or merged -/
theorem findEntity_merged (pri : List Key) (d : Defects) (system : Bool) (m nv : Model) (ha : updAccepted d system m nv)
    (n ename : String) (e : Entity) (he : m.findEntity n ename = some e) :
    (Model.merged d pri system m nv).findEntity n ename = some e ∨
    ∃ nn ne, nn ∈ nv.nss ∧ ne ∈ nn.ents ∧ ne.k = e.k ∧ e.accepts d ne ∧
      (Model.merged d pri system m nv).findEntity n ename = some (e.merged d pri nn.name ne) := by
  unfold Model.findEntity at he ⊢
  cases hn : m.findNs n with
  | none => rw [hn] at he; cases he
  | some y =>
    rw [hn] at he
    simp only [Option.bind_some] at he
    have hy : y ∈ m.nss := List.mem_of_find?_eq_some hn
    have hname : ∀ x, ((fun (z : Ns) => z.name == n) ((nsStep d pri system nv x).1)) = ((fun (z : Ns) => z.name == n) x) := by
      intro x; simp [(nsStep_ext d pri system nv x).1]
    have hfind : (Model.merged d pri system m nv).findNs n = some (nsStep d pri system nv y).1 := by
      unfold Model.findNs Model.merged
      exact find?_map_append_of_some (fun (z : Ns) => z.name == n) _ hname _ _ y hn
    rw [hfind]
    simp only [Option.bind_some]
    rcases nsStep_fst_of_accepted pri d system nv y (ha.2 y hy) with ⟨_, heq⟩ | ⟨nn, hsome, _, hents, heq⟩
    · rw [heq]; exact Or.inl he
    · rw [heq]
      have hemem : e ∈ y.ents := List.mem_of_find?_eq_some he
      obtain ⟨ne, hf, hk, hacc⟩ := hents e hemem
      refine Or.inr ⟨nn, ne, List.mem_of_find?_eq_some hsome, List.mem_of_find?_eq_some hf, hk, hacc, ?_⟩
      unfold Ns.findEnt Ns.merged
      have hename : ∀ x, ((fun (z : Entity) => z.name == ename) ((entStep d pri nn x).1)) = ((fun (z : Entity) => z.name == ename) x) := by
        intro x; simp [(entStep_ext d pri nn x).1]
      have := find?_map_append_of_some (fun (z : Entity) => z.name == ename) _ hename y.ents
        (nn.ents.filter fun ne => !y.ents.any (·.name == ne.name)) e he
      rw [this, entStep_ok d pri nn e ne hf hk hacc]

/-- **rows written under an older version conform to every later accepted version** (intended behaviour:
    a field that rows may lack never becomes "not nullable without default", a new field is nullable or
    has a default) -/
theorem applyV_conforms (vok : FType → String → Bool) (d : Defects) (hd : d.hashOrderIds = false) (hp : d.partialRefusal = false)
    (hdd : d.defaultDropAccepted = false) (pri : List Key) (system : Bool) (m : Model) (v : Version) (hm : m.WF)
    (n ename : String) (e : Entity) (he : m.findEntity n ename = some e) (row : Row)
    (hrow : rowKeysIn e row) (hc : rowConforms vok e row = true) :
    ∃ e', (applyV d pri system m v).1.findEntity n ename = some e' ∧ rowKeysIn e' row ∧ rowConforms vok e' row = true := by
  cases hr : (applyV d pri system m v).2 with
  | some err => rw [applyV_refused d hp pri system m v err hr]; exact ⟨e, he, hrow, hc⟩
  | none =>
    have h : applyV d pri system m v = ((applyV d pri system m v).1, none) := by rw [← hr]
    obtain ⟨nv, _, hnv, hacc, heq⟩ := applyV_ok h
    rw [heq]
    rcases findEntity_merged pri d system m nv hacc n ename e he with h1 | ⟨nn, ne, hnn, hne, _, hacc', h1⟩
    · exact ⟨e, h1, hrow, hc⟩
    · refine ⟨_, h1, merged_keysIn pri nn.name d e ne row hrow, ?_⟩
      exact merged_conforms vok pri nn.name d hd hdd e ne (hm.findEntity_wf he) (hnv.2.2 nn hnn |>.2.2 ne hne) hacc' row hrow hc

theorem runSteps_conforms (vok : FType → String → Bool) (m : Model) (steps : List Step) (hm : m.WF)
    (n ename : String) (e : Entity) (he : m.findEntity n ename = some e) (row : Row)
    (hrow : rowKeysIn e row) (hc : rowConforms vok e row = true) :
    ∃ e', (runSteps Defects.none m steps).findEntity n ename = some e' ∧ rowConforms vok e' row = true := by
  induction steps generalizing m e with
  | nil => exact ⟨e, he, hc⟩
  | cons s rest ih =>
    obtain ⟨sys, pri, v⟩ := s
    simp only [runSteps]
    obtain ⟨e1, he1, hrow1, hc1⟩ := applyV_conforms vok Defects.none rfl rfl rfl pri sys m v hm n ename e he row hrow hc
    exact ih _ (applyV_wf Defects.none rfl rfl pri sys m v hm) e1 he1 hrow1 hc1



/-! ### the reverse table -/

abbrev RevEntry := EShort × String × String

theorem lookup_revInsert (rev : List RevEntry) (x : RevEntry) (k : EShort) :
    (revInsert rev x).lookup k = if k = x.1 then some x.2 else rev.lookup k := by
  unfold revInsert
  by_cases h : k = x.1
  · simp [List.lookup, h]
  · have hne : (k == x.1) = false := by simpa using h
    simp only [List.lookup, hne, h, if_false]
    induction rev with
    | nil => rfl
    | cons y ys ih =>
      rw [List.filter_cons]
      by_cases hy : y.1 = x.1
      · have : (y.1 != x.1) = false := by simp [hy]
        simp only [this, Bool.false_eq_true, if_false]
        have hk : (k == y.1) = false := by rw [hy]; exact hne
        simp only [List.lookup, hk]
        exact ih
      · have : (y.1 != x.1) = true := by simpa using hy
        simp only [this, if_true, List.lookup]
        cases hky : k == y.1 with
        | true => rfl
        | false => exact ih

theorem lookup_foldl_not_mem (rev : List RevEntry) (xs : List RevEntry) (k : EShort) (h : ∀ x ∈ xs, x.1 ≠ k) :
    (xs.foldl revInsert rev).lookup k = rev.lookup k := by
  induction xs generalizing rev with
  | nil => rfl
  | cons x xs ih =>
    simp only [List.foldl_cons]
    rw [ih _ (fun y hy => h y (List.mem_cons_of_mem _ hy)), lookup_revInsert]
    have := h x (by simp)
    simp [Ne.symm this]

theorem lookup_foldl_mem (rev : List RevEntry) (xs : List RevEntry) (x : RevEntry) (hx : x ∈ xs)
    (hd : ∀ y ∈ xs, y.1 = x.1 → y = x) : (xs.foldl revInsert rev).lookup x.1 = some x.2 := by
  induction xs generalizing rev with
  | nil => simp at hx
  | cons y ys ih =>
    simp only [List.foldl_cons]
    by_cases hmem : x ∈ ys
    · exact ih _ hmem (fun z hz => hd z (List.mem_cons_of_mem _ hz))
    · have hxy : x = y := by
        rcases List.mem_cons.mp hx with h | h
        · exact h
        · exact absurd h hmem
      subst hxy
      rw [lookup_foldl_not_mem]
      · rw [lookup_revInsert]; simp
      · intro z hz heq
        have := hd z (List.mem_cons_of_mem _ hz) heq
        subst this
        exact hmem hz

theorem mem_addedEntities {m m' : Model} {x : RevEntry} (h : x ∈ addedEntities m m') :
    ∃ n' ∈ m'.nss, ∃ e' ∈ n'.ents, x = (entShort n' e', n'.name, e'.name) ∧ m.findEntity n'.name e'.name = none := by
  unfold addedEntities at h
  simp only [List.mem_flatMap, List.mem_filterMap] at h
  obtain ⟨n', hn', e', he', hx⟩ := h
  refine ⟨n', hn', e', he', ?_⟩
  split at hx
  · cases hx
  · rename_i hnot
    simp only [Option.some.injEq] at hx
    refine ⟨hx.symm, ?_⟩
    cases hf : m.findEntity n'.name e'.name with
    | none => rfl
    | some _ => simp [hf] at hnot

/-- **the reverse table stays complete**: after `update` / `update_system` every entity of the model is
    found again through its short name (intended behaviour, any visit order) -/
theorem apply_revOk (pri : List Key) (system : Bool) (dm : DataModel) (v : Version) (hm : dm.core.WF) (hr : dm.RevOk) :
    (dm.apply Defects.none pri system v).1.RevOk := by
  have hext := applyV_ext Defects.none pri system dm.core v
  have hwf := applyV_wf Defects.none rfl rfl pri system dm.core v hm
  intro n' hn' e' he'
  simp only [DataModel.apply, DataModel.nameFor] at hn' he' ⊢
  obtain ⟨_, _, hinj⟩ := hwf.distinct
  cases hf : dm.core.findEntity n'.name e'.name with
  | none =>
    -- a new entity: `update_with` inserted its entry
    have hmem : (entShort n' e', n'.name, e'.name) ∈ addedEntities dm.core (applyV Defects.none pri system dm.core v).1 := by
      unfold addedEntities
      simp only [List.mem_flatMap, List.mem_filterMap]
      exact ⟨n', hn', e', he', by simp [hf]⟩
    have := lookup_foldl_mem dm.rev _ _ hmem (by
      intro y hy heq
      obtain ⟨n'', hn'', e'', he'', rfl, _⟩ := mem_addedEntities hy
      obtain ⟨rfl, rfl⟩ := hinj n'' hn'' n' hn' e'' he'' e' he' heq
      rfl)
    simpa using this
  | some e0 =>
    -- an entity that was there: same short name, its entry is untouched
    unfold Model.findEntity at hf
    cases hn0 : dm.core.findNs n'.name with
    | none => rw [hn0] at hf; cases hf
    | some n0 =>
      rw [hn0] at hf
      simp only [Option.bind_some] at hf
      have hn0mem : n0 ∈ dm.core.nss := List.mem_of_find?_eq_some hn0
      have he0mem : e0 ∈ n0.ents := List.mem_of_find?_eq_some hf
      have hn0name : n0.name = n'.name := by simpa using List.find?_some hn0
      have he0name : e0.name = e'.name := by simpa [Ns.findEnt] using List.find?_some hf
      obtain ⟨y', hy', hyext⟩ := hext n'.name n0 hn0
      have hy'eq : y' = n' := by
        have := find?_self_of_nodup (fun (z : Ns) => z.name) _ hwf.1 n' hn'
        unfold Model.findNs at hy'
        rw [this] at hy'; cases hy'; rfl
      subst hy'eq
      obtain ⟨e1, he1, he1ext⟩ := hyext.2.2 e'.name e0 hf
      have he1eq : e1 = e' := by
        have := find?_self_of_nodup (fun (z : Entity) => z.name) _ (hwf.2.2.2 y' hn').1 e' he'
        unfold Ns.findEnt at he1
        rw [this] at he1; cases he1; rfl
      subst he1eq
      have hshort : entShort n0 e0 = entShort y' e1 := by
        unfold entShort
        rw [hyext.2.1, hn0name, he1ext.2.1]
      rw [lookup_foldl_not_mem]
      · have := hr n0 hn0mem e0 he0mem
        simp only [DataModel.nameFor] at this
        rw [← hshort, this, hn0name, he0name]
      · intro x hx heq
        obtain ⟨n'', hn'', e'', he'', rfl, hnone⟩ := mem_addedEntities hx
        obtain ⟨rfl, rfl⟩ := hinj n'' hn'' y' hn' e'' he'' e1 he' heq
        unfold Model.findEntity at hnone
        rw [hn0] at hnone
        simp only [Option.bind_some] at hnone
        rw [hf] at hnone; cases hnone

theorem revOk_empty : DataModel.empty.RevOk := by
  intro n hn; simp [DataModel.empty, Model.empty] at hn


end Discret.DM
