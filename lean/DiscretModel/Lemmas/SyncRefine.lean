import DiscretModel.Lemmas.SyncTombsFixedRoom
import DiscretModel.Lemmas.SyncMarks
import DiscretModel.Lemmas.SyncOrder
/-
Refinement: what one day of a pull of the intended behaviour (`Defects.none`) does to the rows and deletion
records of the puller is the join with what the source stores for that `(room, entity, day)`.
-/
namespace Discret.Sync
open Discret.DailyLog Discret.SyncOrder

/-- the abstract view of a replica: per row id the version shown, whether the id carries a deletion record,
    and the deletion records held -/
def abs (r : Replica) : ARep :=
  { ver := fun id => (r.findId id).map fun n => (n.mdate, n.sig),
    dead := fun id => r.ntombs.any fun t => t.id = id,
    recs := fun s => r.ntombs.any fun t => t.sig = s }

/-- every member may change every row (the case in which no right is ever refused) -/
def AllRights (rights : Rights) : Prop := ∀ a own date, can rights a own date = true

theorem abs_wf {r : Replica} (h : NoZombie r) : (abs r).WF := by
  intro id hd
  simp only [abs] at hd ⊢
  cases hf : r.findId id with
  | none => rfl
  | some n =>
    exfalso
    obtain ⟨hm, hid⟩ := findId_some hf
    obtain ⟨t, ht, e⟩ := List.any_eq_true.mp hd
    have e' : t.id = id := by simpa using e
    exact h t ht n hm (hid.trans e'.symm)

/-! ### lookups after the list operations of the model -/

theorem find_filter_id (l : List Node) (i id : Nat) :
    (l.filter fun n => !(decide (n.id = i))).find? (fun n => n.id = id) =
      if id = i then none else l.find? (fun n => n.id = id) := by
  induction l with
  | nil => split <;> rfl
  | cons a t ih =>
    by_cases ha : a.id = i
    · rw [List.filter_cons_of_neg (by simp [ha]), ih]
      by_cases hid : id = i
      · simp only [hid, ↓reduceIte]
      · simp only [hid, ↓reduceIte]
        rw [List.find?_cons_of_neg]
        simp only [decide_eq_true_eq]
        intro e; exact hid (e.symm.trans ha)
    · rw [List.filter_cons_of_pos (by simp [ha])]
      by_cases hai : a.id = id
      · rw [List.find?_cons_of_pos (by simp [hai])]
        have : ¬ (id = i) := fun e => ha (hai.trans e)
        simp only [this, ↓reduceIte]
        rw [List.find?_cons_of_pos (by simp [hai])]
      · rw [List.find?_cons_of_neg (by simp [hai]), ih]
        by_cases hid : id = i
        · simp only [hid, ↓reduceIte]
        · simp only [hid, ↓reduceIte]
          rw [List.find?_cons_of_neg (by simp [hai])]

/-- lookup in a list where the elements with id `n.id` have been replaced by `n` -/
theorem find_replace (n : Node) (l : List Node) (id : Nat) :
    (replaceNode n l).find? (fun x => x.id = id) =
      if id = n.id then (if l.any (fun x => x.id = n.id) then some n else none) else l.find? (fun x => x.id = id) := by
  unfold replaceNode
  induction l with
  | nil => by_cases h : id = n.id <;> simp [h]
  | cons a t ih =>
    rw [List.map_cons]
    by_cases ha : a.id = n.id
    · simp only [ha, ↓reduceIte]
      by_cases hid : id = n.id
      · rw [List.find?_cons_of_pos (by simp [hid])]
        simp [hid, ha]
      · have h1 : ¬ (n.id = id) := fun e => hid e.symm
        have h2 : ¬ (a.id = id) := fun e => hid (e.symm.trans ha)
        rw [List.find?_cons_of_neg (by simp [h1]), ih, List.find?_cons_of_neg (by simp [h2])]
        simp only [hid, ↓reduceIte]
    · simp only [ha, ↓reduceIte]
      by_cases hai : a.id = id
      · have hid : ¬ (id = n.id) := fun e => ha (hai.trans e)
        rw [List.find?_cons_of_pos (by simp [hai])]
        simp only [hid, ↓reduceIte]
        rw [List.find?_cons_of_pos (by simp [hai])]
      · rw [List.find?_cons_of_neg (by simp [hai]), ih]
        by_cases hid : id = n.id
        · simp only [hid, ↓reduceIte, List.any_cons, ha, decide_false, Bool.false_or]
        · simp only [hid, ↓reduceIte]
          rw [List.find?_cons_of_neg (by simp [hai])]

theorem find_putNode (n : Node) (l : List Node) (id : Nat) :
    (putNode n l).find? (fun x => x.id = id) = if id = n.id then some n else l.find? (fun x => x.id = id) := by
  unfold putNode
  split
  · rename_i hany
    rw [find_replace]
    by_cases hid : id = n.id
    · simp only [hid, ↓reduceIte, hany]
    · simp only [hid, ↓reduceIte]
  · rename_i hany
    rw [List.find?_append]
    by_cases hid : id = n.id
    · have : l.find? (fun x => decide (x.id = id)) = none := by
        rw [List.find?_eq_none]
        intro x hx hxe
        apply hany
        exact List.any_eq_true.mpr ⟨x, hx, by simpa [hid] using hxe⟩
      rw [this]
      simp only [hid, ↓reduceIte, Option.none_or]
      rw [List.find?_cons_of_pos (by simp)]
    · have h1 : ¬ (n.id = id) := fun e => hid e.symm
      simp only [hid, ↓reduceIte]
      rw [List.find?_cons_of_neg (by simp [h1])]
      simp

theorem sig_putNTomb (t : NTomb) (l : List NTomb) (s : Nat) (hpk : ∀ u ∈ l, t.samePk u = true → u = t) :
    (putNTomb t l).any (fun x => x.sig = s) = (decide (t.sig = s) || l.any (fun x => x.sig = s)) := by
  unfold putNTomb
  split
  · rename_i hany
    have hmap : (l.map fun x => if t.samePk x = true then t else x) = l := by
      conv => rhs; rw [← List.map_id l]
      apply List.map_congr_left
      intro x hx
      by_cases hp : t.samePk x = true
      · simp only [hp, ↓reduceIte, id_eq]; exact (hpk x hx hp).symm
      · simp only [hp, Bool.false_eq_true, ↓reduceIte, id_eq]
    rw [hmap]
    obtain ⟨u, hu, hpu⟩ := List.any_eq_true.mp hany
    have htl : t ∈ l := by rw [← hpk u hu hpu]; exact hu
    by_cases hs : t.sig = s
    · simp only [hs, decide_true, Bool.true_or]
      exact List.any_eq_true.mpr ⟨t, htl, by simp [hs]⟩
    · simp [hs]
  · simp [List.any_append, Bool.or_comm]

theorem id_putNTomb (t : NTomb) (l : List NTomb) (i : Nat) :
    (putNTomb t l).any (fun x => x.id = i) = (decide (t.id = i) || l.any (fun x => x.id = i)) := by
  have := ids_putNTomb t l i
  rw [Bool.eq_iff_iff]
  simp only [List.any_eq_true, decide_eq_true_eq, Bool.or_eq_true]
  constructor
  · rintro ⟨x, hx, e⟩
    rcases this.mp (List.mem_map.mpr ⟨x, hx, e⟩) with h | h
    · exact Or.inl h.symm
    · obtain ⟨y, hy, ey⟩ := List.mem_map.mp h; exact Or.inr ⟨y, hy, ey⟩
  · intro h
    have : i ∈ (putNTomb t l).map (·.id) := by
      apply this.mpr
      rcases h with h | ⟨y, hy, ey⟩
      · exact Or.inl h.symm
      · exact Or.inr (List.mem_map.mpr ⟨y, hy, ey⟩)
    obtain ⟨x, hx, e⟩ := List.mem_map.mp this
    exact ⟨x, hx, e⟩


theorem any_congr_mem {α : Type} (p : α → Bool) {l1 l2 : List α} (h : ∀ x, x ∈ l1 ↔ x ∈ l2) : l1.any p = l2.any p := by
  rw [Bool.eq_iff_iff]
  simp only [List.any_eq_true]
  constructor
  · rintro ⟨x, hx, hp⟩; exact ⟨x, (h x).mp hx, hp⟩
  · rintro ⟨x, hx, hp⟩; exact ⟨x, (h x).mpr hx, hp⟩

/-- two deletion records with the same primary key `(room, deletion date, row, entity)` are the same record -/
def PkFun (S : NTomb → Prop) : Prop := ∀ t u, S t → S u → t.samePk u = true → u = t

/-! ### the deletion records of the day -/

section tombs
variable {d : Defects} {f : Nat → Nat}

/-- the room scoping of a synchronised deletion is immaterial for the record `t` on the replica `r`: the switch is
    off, or every stored row and the record name the room `f` gives to their row id -/
def ScopeOkAt (d : Defects) (f : Nat → Nat) (r : Replica) (t : NTomb) : Prop :=
  d.syncDeletionRoomScoped = false ∨ ((∀ n ∈ r.nodes, n.room = f n.id) ∧ t.room = f t.id)

theorem abs_applyNTomb (r : Replica) (t : NTomb) (hR : ScopeOkAt d f r t)
    (hpk : ∀ u ∈ r.ntombs, t.samePk u = true → u = t) :
    (∀ id, (abs (applyNTomb d r t)).ver id = if id = t.id then none else (abs r).ver id) ∧
    (∀ id, (abs (applyNTomb d r t)).dead id = (decide (t.id = id) || (abs r).dead id)) ∧
    (∀ s, (abs (applyNTomb d r t)).recs s = (decide (t.sig = s) || (abs r).recs s)) := by
  refine ⟨?_, ?_, ?_⟩
  · intro id
    have hfil : (r.nodes.filter fun n => !(decide (n.id = t.id) && (!d.syncDeletionRoomScoped || decide (n.room = t.room)))) =
        r.nodes.filter fun n => !(decide (n.id = t.id)) := by
      apply List.filter_congr
      intro n hn
      rcases hR with hR | ⟨hn', ht'⟩
      · simp [hR]
      · by_cases e : n.id = t.id
        · have : n.room = t.room := by rw [hn' n hn, ht', e]
          simp [e, this]
        · simp [e]
    simp only [abs, Replica.findId, applyNTomb]
    rw [hfil, find_filter_id]
    split <;> rfl
  · intro id
    simp only [abs, applyNTomb]
    exact id_putNTomb t r.ntombs id
  · intro s
    simp only [abs, applyNTomb]
    exact sig_putNTomb t r.ntombs s hpk

theorem applyNTomb_roomFn {r : Replica} (h : RoomFn f r) (t : NTomb) (ht : t.room = f t.id) :
    RoomFn f (applyNTomb d r t) := by
  unfold applyNTomb
  refine ⟨?_, ?_⟩
  · intro n hn
    exact h.1 n (List.mem_filter.mp hn).1
  · intro u hu
    rcases mem_putNTomb hu with e | e
    · rw [e]; exact ht
    · exact h.2 u e

/-- the room scoping is immaterial for a list of records on a replica -/
def ScopeOkFold (d : Defects) (f : Nat → Nat) (r : Replica) (ts : List NTomb) : Prop :=
  d.syncDeletionRoomScoped = false ∨ (RoomFn f r ∧ ∀ t ∈ ts, t.room = f t.id)

theorem abs_foldTombs (ts : List NTomb) :
    ∀ (r : Replica), ScopeOkFold d f r ts → PkFun (fun x => x ∈ r.ntombs ∨ x ∈ ts) →
      (∀ id, (abs (ts.foldl (applyNTomb d) r)).ver id = if ts.any (fun t => t.id = id) then none else (abs r).ver id) ∧
      (∀ id, (abs (ts.foldl (applyNTomb d) r)).dead id = ((abs r).dead id || ts.any (fun t => t.id = id))) ∧
      (∀ s, (abs (ts.foldl (applyNTomb d) r)).recs s = ((abs r).recs s || ts.any (fun t => t.sig = s))) := by
  induction ts with
  | nil => intro r _ _; simp
  | cons t rest ih =>
    intro r hR hpk
    simp only [List.foldl_cons]
    have hRt : ScopeOkAt d f r t := by
      rcases hR with hR | ⟨hr, hts⟩
      · exact Or.inl hR
      · exact Or.inr ⟨hr.1, hts t List.mem_cons_self⟩
    have hR' : ScopeOkFold d f (applyNTomb d r t) rest := by
      rcases hR with hR | ⟨hr, hts⟩
      · exact Or.inl hR
      · exact Or.inr ⟨applyNTomb_roomFn hr t (hts t List.mem_cons_self), fun u hu => hts u (List.mem_cons_of_mem _ hu)⟩
    obtain ⟨a1, a2, a3⟩ := abs_applyNTomb (d := d) r t hRt
      (fun u hu hp => hpk t u (Or.inr List.mem_cons_self) (Or.inl hu) hp)
    have hpk' : PkFun (fun x => x ∈ (applyNTomb d r t).ntombs ∨ x ∈ rest) := by
      intro x y hx hy hp
      have cx : x ∈ r.ntombs ∨ x ∈ t :: rest := by
        rcases hx with hx | hx
        · rcases mem_putNTomb hx with e | e
          · exact Or.inr (e ▸ List.mem_cons_self)
          · exact Or.inl e
        · exact Or.inr (List.mem_cons_of_mem _ hx)
      have cy : y ∈ r.ntombs ∨ y ∈ t :: rest := by
        rcases hy with hy | hy
        · rcases mem_putNTomb hy with e | e
          · exact Or.inr (e ▸ List.mem_cons_self)
          · exact Or.inl e
        · exact Or.inr (List.mem_cons_of_mem _ hy)
      exact hpk x y cx cy hp
    obtain ⟨b1, b2, b3⟩ := ih _ hR' hpk'
    refine ⟨?_, ?_, ?_⟩
    · intro id
      rw [b1, a1]
      simp only [List.any_cons]
      by_cases h1 : t.id = id
      · subst h1
        simp only [decide_true, Bool.true_or, ↓reduceIte]
        split <;> rfl
      · have h2 : ¬ (id = t.id) := fun e => h1 e.symm
        simp only [h1, decide_false, Bool.false_or, h2, ↓reduceIte]
    · intro id
      rw [b2, a2]
      simp only [List.any_cons]
      cases decide (t.id = id) <;> cases (abs r).dead id <;> cases rest.any (fun t => decide (t.id = id)) <;> rfl
    · intro s
      rw [b3, a3]
      simp only [List.any_cons]
      cases decide (t.sig = s) <;> cases (abs r).recs s <;> cases rest.any (fun t => decide (t.sig = s)) <;> rfl

end tombs

theorem validNTombs_all {rights : Rights} (h : AllRights rights) (dst : Replica) (ts : List NTomb) :
    validNTombs rights dst ts = ts := by
  unfold validNTombs
  rw [List.filter_eq_self]
  intro t _
  split <;> exact h _ _ _

/-! ### the rows of the day -/

theorem ingestNode_all {d : Defects} {rights : Rights} (h : AllRights rights) (r : Replica) (n : Node)
    (old : Option Node) :
    (ingestNode d rights r n old).nodes = putNode n r.nodes ∧ (ingestNode d rights r n old).ntombs = r.ntombs := by
  unfold ingestNode
  rw [h]
  exact ⟨rfl, rfl⟩

/-- the last of the fetched rows with that id -/
def lastFor (req : List (Node × Option Node)) (id : Nat) : Option Node :=
  ((req.filter fun x => x.1.id = id).getLast?).map (·.1)

theorem abs_foldIngest {d : Defects} {rights : Rights} (h : AllRights rights) (req : List (Node × Option Node)) :
    ∀ (r : Replica),
      (∀ id, (abs (req.foldl (fun r (x : Node × Option Node) => ingestNode d rights r x.1 x.2) r)).ver id =
        match lastFor req id with
        | some n => some (n.mdate, n.sig)
        | none => (abs r).ver id) ∧
      (req.foldl (fun r (x : Node × Option Node) => ingestNode d rights r x.1 x.2) r).ntombs = r.ntombs := by
  induction req with
  | nil => intro r; exact ⟨fun id => rfl, rfl⟩
  | cons a t ih =>
    intro r
    simp only [List.foldl_cons]
    obtain ⟨i1, i2⟩ := ih (ingestNode d rights r a.1 a.2)
    obtain ⟨e1, e2⟩ := ingestNode_all (d := d) h r a.1 a.2
    refine ⟨?_, i2.trans e2⟩
    intro id
    rw [i1]
    have hver : (abs (ingestNode d rights r a.1 a.2)).ver id =
        if id = a.1.id then some (a.1.mdate, a.1.sig) else (abs r).ver id := by
      simp only [abs, Replica.findId, e1]
      rw [find_putNode]
      split <;> rfl
    unfold lastFor
    rw [List.filter_cons]
    by_cases hid : a.1.id = id
    · simp only [hid, decide_true, ↓reduceIte]
      cases hl : (t.filter fun x => decide (x.1.id = id)).getLast? with
      | none =>
        have : (t.filter fun x => decide (x.1.id = id)) = [] := List.getLast?_eq_none_iff.mp hl
        simp only [this, List.getLast?_singleton, Option.map_some, Option.map_none]
        rw [hver]; simp [hid.symm]
      | some y =>
        have hne : (t.filter fun x => decide (x.1.id = id)) ≠ [] := by
          intro e; rw [e] at hl; cases hl
        rw [List.getLast?_cons_of_ne_nil hne, hl]
        simp only [Option.map_some]
    · simp only [hid, decide_false, Bool.false_eq_true, ↓reduceIte]
      cases hl : (t.filter fun x => decide (x.1.id = id)).getLast? with
      | none =>
        simp only [Option.map_none]
        rw [hver]
        have : ¬ (id = a.1.id) := fun e => hid e.symm
        simp [this]
      | some y => simp only [Option.map_some]


theorem abs_congr {r r' : Replica} (h1 : r'.nodes = r.nodes) (h2 : r'.ntombs = r.ntombs) : abs r' = abs r := by
  simp only [abs, Replica.findId, h1, h2]

theorem wanted_isSome {d : Defects} {f : Nat → Nat} (hI : d.ingestIgnoresTombstones = false)
    (dst : Replica) (n : Node)
    (hR : d.syncDeletionRoomScoped = false ∨ ((∀ t ∈ dst.ntombs, t.room = f t.id) ∧ n.room = f n.id)) :
    (wanted d dst n).isSome =
      (!(abs dst).dead n.id && match (abs dst).ver n.id with
        | none => true
        | some v => !decide (vle (n.mdate, n.sig) v)) := by
  have hany : (dst.ntombs.any (fun t => decide (t.id = n.id)) &&
      dst.ntombs.any (fun t => decide (t.id = n.id) && (!d.syncDeletionRoomScoped || decide (t.room = n.room)))) =
      dst.ntombs.any (fun t => decide (t.id = n.id)) := by
    have hany : dst.ntombs.any (fun t => decide (t.id = n.id) && (!d.syncDeletionRoomScoped || decide (t.room = n.room))) =
        dst.ntombs.any (fun t => decide (t.id = n.id)) := by
      rcases hR with hR | ⟨ht, hn⟩
      · simp [hR]
      · rw [Bool.eq_iff_iff]
        simp only [List.any_eq_true, Bool.and_eq_true, decide_eq_true_eq, Bool.or_eq_true, Bool.not_eq_eq_eq_not,
          Bool.not_true]
        constructor
        · rintro ⟨t, h1, h2, _⟩; exact ⟨t, h1, h2⟩
        · rintro ⟨t, h1, h2⟩; exact ⟨t, h1, h2, Or.inr (by rw [ht t h1, hn, h2])⟩
    rw [hany, Bool.and_self]
  unfold wanted
  simp only [hI, Bool.not_false, Bool.true_and, abs]
  rw [hany]
  cases hdead : dst.ntombs.any (fun t => decide (t.id = n.id)) with
  | true => simp
  | false =>
    simp only [Bool.false_eq_true, ↓reduceIte, Bool.not_false, Bool.true_and]
    cases hf : dst.findId n.id with
    | none => simp
    | some l =>
      simp only [Option.map_some, vle]
      by_cases h1 : n.mdate < l.mdate
      · simp [h1]
      · by_cases h2 : n.mdate = l.mdate ∧ n.sig ≤ l.sig
        · simp [h1, h2.1, h2.2]
        · have : ¬ (n.mdate = l.mdate && n.sig ≤ l.sig) = true := by
            simpa using h2
          simp only [h1, ↓reduceIte, this, Bool.false_eq_true, Option.isSome_some]
          have h3 : ¬ (n.mdate < l.mdate ∨ n.mdate = l.mdate ∧ n.sig ≤ l.sig) := by
            intro h; rcases h with h | h
            · exact h1 h
            · exact h2 h
          have h4 : ¬ (False ∨ n.mdate = l.mdate ∧ n.sig ≤ l.sig) := by
            intro h; rcases h with h | h
            · exact h
            · exact h2 h
          rw [decide_eq_false h4]; rfl

/-- with distinct row ids, the last fetched row with a given id is the announced row with that id, if wanted -/
theorem lastFor_filterMap {β : Type} (f : Node → Option β) (l : List Node) (hn : (l.map (·.id)).Nodup) (id : Nat) :
    (((l.filterMap fun n => (f n).map fun o => (n, o)).filter fun x => decide (x.1.id = id)).getLast?).map (·.1) =
      (l.find? fun n => n.id = id).bind fun n => if (f n).isSome then some n else none := by
  induction l with
  | nil => rfl
  | cons a t ih =>
    simp only [List.map_cons, List.nodup_cons] at hn
    have iht := ih hn.2
    by_cases ha : a.id = id
    · -- no other element carries that id
      have hrest : ((t.filterMap fun n => (f n).map fun o => (n, o)).filter fun x => decide (x.1.id = id)) = [] := by
        rw [List.filter_eq_nil_iff]
        intro x hx hxe
        obtain ⟨n, hn', e⟩ := List.mem_filterMap.mp hx
        cases hfn : f n with
        | none => rw [hfn] at e; cases e
        | some o =>
          rw [hfn] at e
          simp only [Option.map_some, Option.some.injEq] at e
          have : n.id = id := by rw [← e] at hxe; simpa using hxe
          exact hn.1 (List.mem_map.mpr ⟨n, hn', this.trans ha.symm⟩)
      rw [List.find?_cons_of_pos (by simp [ha]), List.filterMap_cons]
      cases hfa : f a with
      | none =>
        simp only [Option.map_none, hrest, List.getLast?_nil, Option.bind_some, hfa, Option.isSome_none,
          Bool.false_eq_true, ↓reduceIte]
      | some o =>
        simp only [Option.map_some, Option.bind_some, hfa, Option.isSome_some, ↓reduceIte]
        rw [List.filter_cons_of_pos (by simp [ha]), hrest]
        simp
    · rw [List.find?_cons_of_neg (by simp [ha]), List.filterMap_cons]
      cases hfa : f a with
      | none => simpa using iht
      | some o =>
        simp only [Option.map_some]
        rw [List.filter_cons_of_neg (by simp [ha])]
        exact iht

/-- what the source stores for one `(room, entity, day)`: the rows and the node deletion records -/
def slice (src : Replica) (room ent day : Nat) : Replica :=
  { nodes := src.nodes.filter fun n => n.room = room && n.ent = ent && dayOf n.mdate = day,
    edges := [],
    ntombs := src.ntombs.filter fun t => t.room = room && t.ent = ent && dayOf t.ddate = day,
    etombs := [], log := [] }


theorem filter_ids_nodup {l : List Node} (h : (l.map (·.id)).Nodup) (p : Node → Bool) :
    ((l.filter p).map (·.id)).Nodup :=
  List.Nodup.sublist (List.Sublist.map _ List.filter_sublist) h

/-! ### the two batch-level deviations as conditions on the data -/

/-- no two deletion records of one row on one `(room, entity, day)` of the source -/
def DayRecordsDistinct (src : Replica) : Prop :=
  ∀ room ent day, ((src.ntombs.filter fun t => t.room = room && t.ent = ent && dayOf t.ddate = day).map (·.id)).Nodup

theorem dedupById_of_nodup : ∀ (l : List NTomb), (l.map (·.id)).Nodup → dedupById l = l
  | [], _ => rfl
  | t :: rest, h => by
    rw [List.map_cons, List.nodup_cons] at h
    have hno : rest.any (fun x => decide (x.id = t.id)) = false := by
      rw [List.any_eq_false]
      intro x hx e
      exact h.1 (List.mem_map.mpr ⟨x, hx, by simpa using e⟩)
    simp only [dedupById, hno, Bool.false_eq_true, ↓reduceIte, dedupById_of_nodup rest h.2]

theorem insertBy_perm {α : Type} (lt : α → α → Bool) (x : α) : ∀ (l : List α), (insertBy lt x l).Perm (x :: l)
  | [] => List.Perm.refl _
  | y :: t => by
    simp only [insertBy]
    split
    · exact ((insertBy_perm lt x t).cons y).trans (List.Perm.swap x y t)
    · exact List.Perm.refl _

theorem sortBy_perm {α : Type} (lt : α → α → Bool) : ∀ (l : List α), (sortBy lt l).Perm l
  | [] => List.Perm.refl _
  | a :: t => by
    unfold sortBy
    simp only [List.foldr_cons]
    exact (insertBy_perm lt a _).trans ((sortBy_perm lt t).cons a)

theorem foldTombs_roomFn {d : Defects} {f : Nat → Nat} (ts : List NTomb) :
    ∀ (r : Replica), RoomFn f r → (∀ t ∈ ts, t.room = f t.id) → RoomFn f (ts.foldl (applyNTomb d) r) := by
  induction ts with
  | nil => intro r h _; exact h
  | cons t rest ih =>
    intro r h hts
    simp only [List.foldl_cons]
    exact ih _ (applyNTomb_roomFn h t (hts t List.mem_cons_self)) (fun u hu => hts u (List.mem_cons_of_mem _ hu))

section day
variable {d : Defects} {f : Nat → Nat} (hI : d.ingestIgnoresTombstones = false)

include hI in
/-- **refinement, one day.** What `synchronise_day` does to the rows and node deletion records of the puller is the
    join with the source's rows and records of that `(room, entity, day)` — for every model that consults the deletion
    log (#18 repaired), when members hold every right, when the room scoping of deletions is off or rows keep their
    room, and when deletion batches are not keyed by row id or the source holds no two records of a row on one day.
    Whether references are fetched for every announced row or only for the fetched ones (#30) is immaterial here. -/
theorem syncDay_refines {rights : Rights} (hA : AllRights rights) {dst src : Replica}
    (hR : d.syncDeletionRoomScoped = false ∨ (RoomFn f dst ∧ RoomFn f src))
    (hK : d.deletionBatchKeyedById = false ∨ DayRecordsDistinct src)
    (hzd : NoZombie dst) (hzs : NoZombie src) (hns : IdsNodup src)
    (hpk : PkFun (fun x => x ∈ dst.ntombs ∨ x ∈ src.ntombs)) (room ent day : Nat) :
    abs (syncDay d rights dst src room ent day).dst = join (abs dst) (abs (slice src room ent day)) := by
  -- names for the pieces
  generalize hann : (src.nodes.filter fun n => n.room = room && n.ent = ent && dayOf n.mdate = day) = announced
  generalize hnts0 : (src.ntombs.filter fun t => t.room = room && t.ent = ent && dayOf t.ddate = day) = nts0
  have hslice : slice src room ent day = { nodes := announced, edges := [], ntombs := nts0, etombs := [], log := [] } := by
    simp only [slice, hann, hnts0]
  -- 1. reference deletion records leave rows and node deletion records alone
  have h1 : ∀ ets : List ETomb, abs (if ets.isEmpty then dst else applyETombs rights dst ets) = abs dst ∧
      NoZombie (if ets.isEmpty then dst else applyETombs rights dst ets) ∧
      (if ets.isEmpty then dst else applyETombs rights dst ets).ntombs = dst.ntombs ∧
      (if ets.isEmpty then dst else applyETombs rights dst ets).nodes = dst.nodes := by
    intro ets
    split
    · exact ⟨rfl, hzd, rfl, rfl⟩
    · obtain ⟨a, b⟩ := applyETombs_same rights dst ets
      exact ⟨abs_congr a b, noZombie_congr hzd (fun x hx => ⟨x, a ▸ hx, rfl⟩) b, b, a⟩
  unfold syncDay
  simp only [hann, hnts0]
  generalize (src.etombs.filter fun t => t.room = room && ent = 0 && dayOf t.ddate = day) = ets
  obtain ⟨a1, z1, t1, n1⟩ := h1 ets
  generalize (if ets.isEmpty then dst else applyETombs rights dst ets) = dst1 at a1 z1 t1 n1
  -- 2. the node deletion records
  generalize hnts : sortBy (fun (a b : NTomb) => lexL [a.ddate, a.id, a.ent] [b.ddate, b.id, b.ent]) nts0 = ntsS
  have hmemS : ∀ x, x ∈ ntsS ↔ x ∈ nts0 := fun x => by rw [← hnts]; exact mem_sortBy _ x nts0
  -- the records applied: the whole answer — in the order of the sub-batches since the repair of the batching
  obtain ⟨nts, hmemN, hd2⟩ : ∃ nts : List NTomb, (∀ x, x ∈ nts ↔ x ∈ ntsS) ∧
      (if ntsS.isEmpty then dst1 else applyNTombs d rights dst1 ntsS) = nts.foldl (applyNTomb d) dst1 := by
    by_cases he : ntsS.isEmpty = true
    · refine ⟨[], ?_, ?_⟩
      · intro x; rw [List.isEmpty_iff.mp he]
      · simp only [he, ↓reduceIte, List.foldl_nil]
    · simp only [he, Bool.false_eq_true, ↓reduceIte]
      by_cases hk : d.deletionBatchKeyedById = false
      · exact ⟨(subBatches ntsS.length ntsS).flatten, mem_subBatches_flatten _ _ (Nat.le_refl _),
          applyNTombs_all d hk rights (fun r l => validNTombs_all hA r l) dst1 ntsS⟩
      · have hk' : d.deletionBatchKeyedById = true := by simpa using hk
        have hdist : DayRecordsDistinct src := by
          rcases hK with hK | hK
          · exact absurd hK hk
          · exact hK
        refine ⟨ntsS, fun _ => Iff.rfl, ?_⟩
        unfold applyNTombs
        simp only [hk', ↓reduceIte]
        have hp : (ntsS.map (·.id)).Perm (nts0.map (·.id)) := by rw [← hnts]; exact (sortBy_perm _ nts0).map _
        rw [dedupById_of_nodup ntsS (by rw [hp.nodup_iff, ← hnts0]; exact hdist room ent day), validNTombs_all hA]
  have hmem : ∀ x, x ∈ nts ↔ x ∈ nts0 := fun x => (hmemN x).trans (hmemS x)
  have hnts_src : ∀ x ∈ nts, x ∈ src.ntombs := by
    intro x hx
    have := (hmem x).mp hx
    rw [← hnts0] at this
    exact (List.mem_filter.mp this).1
  rw [hd2]
  have hpk2 : PkFun (fun x => x ∈ dst1.ntombs ∨ x ∈ nts) := by
    intro x y hx hy hp
    refine hpk x y ?_ ?_ hp
    · rcases hx with hx | hx
      · exact Or.inl (t1 ▸ hx)
      · exact Or.inr (hnts_src x hx)
    · rcases hy with hy | hy
      · exact Or.inl (t1 ▸ hy)
      · exact Or.inr (hnts_src y hy)
  have hR1 : d.syncDeletionRoomScoped = false ∨ (RoomFn f dst1 ∧ RoomFn f src) := by
    rcases hR with hR | ⟨hd, hs⟩
    · exact Or.inl hR
    · exact Or.inr ⟨⟨fun n hn => hd.1 n (n1 ▸ hn), fun t ht => hd.2 t (t1 ▸ ht)⟩, hs⟩
  have hR2 : ScopeOkFold d f dst1 nts := by
    rcases hR1 with hR | ⟨hd, hs⟩
    · exact Or.inl hR
    · exact Or.inr ⟨hd, fun t ht => hs.2 t (hnts_src t ht)⟩
  obtain ⟨v2, dd2, r2⟩ := abs_foldTombs (d := d) nts dst1 hR2 hpk2
  have hR3 : d.syncDeletionRoomScoped = false ∨ RoomFn f (nts.foldl (applyNTomb d) dst1) := by
    rcases hR1 with hR | ⟨hd, hs⟩
    · exact Or.inl hR
    · exact Or.inr (foldTombs_roomFn nts dst1 hd (fun t ht => hs.2 t (hnts_src t ht)))
  generalize nts.foldl (applyNTomb d) dst1 = dst2 at v2 dd2 r2 hR3
  -- 3. the rows
  obtain ⟨v3, t3⟩ := abs_foldIngest (d := d) hA
    (announced.filterMap fun n => (wanted d dst2 n).map fun o => (n, o)) dst2
  have hann_nodup : (announced.map (·.id)).Nodup := by rw [← hann]; exact filter_ids_nodup hns _
  have hlast : ∀ id, lastFor (announced.filterMap fun n => (wanted d dst2 n).map fun o => (n, o)) id =
      (announced.find? fun n => n.id = id).bind fun n => if (wanted d dst2 n).isSome then some n else none :=
    fun id => lastFor_filterMap (wanted d dst2) announced hann_nodup id
  generalize hd3 : (announced.filterMap fun n => (wanted d dst2 n).map fun o => (n, o)).foldl
    (fun r (x : Node × Option Node) => ingestNode d rights r x.1 x.2) dst2 = dst3 at v3 t3
  -- 4. the references only touch `edges`
  have h4 : ∀ (es : List Edge) (r : Replica),
      abs (es.foldl (fun r e => ({ r with edges := putEdge e r.edges } : Replica)) r) = abs r := by
    intro es
    induction es with
    | nil => intro r; rfl
    | cons e t ih => intro r; simp only [List.foldl_cons]; rw [ih]; exact abs_congr rfl rfl
  -- the rows and records after the day, whichever way the references are fetched
  have main : abs dst3 = join (abs dst) (abs (slice src room ent day)) := by
    have any_nts : ∀ (p : NTomb → Bool), nts.any p = nts0.any p := fun p => any_congr_mem p hmem
    rw [a1] at v2 dd2 r2
    apply ARep.ext'
    · intro id
      rw [v3, hlast]
      have hSd : (abs (slice src room ent day)).dead id = nts0.any (fun t => decide (t.id = id)) := by
        rw [hslice]; rfl
      have hSv : (abs (slice src room ent day)).ver id =
          (announced.find? (fun n => decide (n.id = id))).map (fun n => (n.mdate, n.sig)) := by
        rw [hslice]; rfl
      have hjoin : (join (abs dst) (abs (slice src room ent day))).ver id =
          if ((abs dst).dead id || nts0.any (fun t => decide (t.id = id))) = true then none
          else merge ((abs dst).ver id)
            ((announced.find? (fun n => decide (n.id = id))).map (fun n => (n.mdate, n.sig))) := by
        simp only [join, hSd, hSv]
      rw [hjoin]
      have hv2 := v2 id
      rw [any_nts] at hv2
      cases hfind : announced.find? (fun n => decide (n.id = id)) with
      | none =>
        simp only [Option.bind_none, Option.map_none, merge_none_right]
        rw [hv2]
        cases hn0 : nts0.any (fun t => decide (t.id = id)) with
        | true => simp
        | false =>
          cases hdd : (abs dst).dead id with
          | false => simp
          | true => simp [abs_wf hzd id hdd]
      | some n =>
        have hnid : n.id = id := by simpa using List.find?_some hfind
        have hnann : n ∈ announced := List.mem_of_find?_eq_some hfind
        have hn' : n ∈ src.nodes := by rw [← hann] at hnann; exact (List.mem_filter.mp hnann).1
        -- the source holds no deletion record of a row it stores
        have hnosrc : nts0.any (fun t => decide (t.id = id)) = false := by
          rw [List.any_eq_false]
          intro t ht hte
          have ht' : t ∈ src.ntombs := by rw [← hnts0] at ht; exact (List.mem_filter.mp ht).1
          have hte' : t.id = id := by simpa using hte
          exact hzs t ht' n hn' (hnid.trans hte'.symm)
        rw [hnosrc] at hv2
        simp only [Bool.false_eq_true, ↓reduceIte] at hv2
        have hdd2 := dd2 id
        rw [any_nts, hnosrc, Bool.or_false] at hdd2
        simp only [Option.bind_some, Option.map_some, hnosrc, Bool.or_false]
        have hRw : d.syncDeletionRoomScoped = false ∨ ((∀ t ∈ dst2.ntombs, t.room = f t.id) ∧ n.room = f n.id) := by
          rcases hR3 with h | h
          · exact Or.inl h
          · rcases hR with h' | ⟨_, hs⟩
            · exact Or.inl h'
            · exact Or.inr ⟨h.2, hs.1 n hn'⟩
        rw [wanted_isSome hI dst2 n hRw, hnid, hdd2, hv2]
        cases hdd : (abs dst).dead id with
        | true =>
          simp only [Bool.not_true, Bool.false_and, Bool.false_eq_true, ↓reduceIte]
          exact abs_wf hzd id hdd
        | false =>
          simp only [Bool.not_false, Bool.true_and, Bool.false_eq_true, ↓reduceIte]
          cases hvd : (abs dst).ver id with
          | none => simp [merge]
          | some v =>
            simp only [merge, vmax]
            by_cases hle : vle (n.mdate, n.sig) v
            · simp only [hle, decide_true, Bool.not_true, Bool.false_eq_true, ↓reduceIte]
              by_cases hle2 : vle v (n.mdate, n.sig)
              · simp only [hle2, ↓reduceIte]; rw [vle_antisymm hle hle2]
              · simp only [hle2, ↓reduceIte]
            · have hle2 : vle v (n.mdate, n.sig) := by
                rcases vle_total v (n.mdate, n.sig) with h | h
                · exact h
                · exact absurd h hle
              simp only [hle, decide_false, Bool.not_false, ↓reduceIte, hle2]
    · intro id
      have : (abs dst3).dead id = (abs dst2).dead id := by simp only [abs, t3]
      rw [this, dd2, any_nts]
      simp only [join, hslice]
      rfl
    · intro s
      have : (abs dst3).recs s = (abs dst2).recs s := by simp only [abs, t3]
      rw [this, r2, any_nts]
      simp only [join, hslice]
      rfl
  split
  · -- nothing requested and references only fetched for requested rows: the day ends here
    rename_i hc
    have hreq : (announced.filterMap fun n => (wanted d dst2 n).map fun o => (n, o)) = [] := by
      simp only [Bool.and_eq_true] at hc
      exact List.isEmpty_iff.mp hc.1
    rw [hreq] at hd3
    simp only [List.foldl_nil] at hd3
    simp only
    rw [hd3]; exact main
  · simp only
    rw [h4]; exact main

end day

end Discret.Sync
