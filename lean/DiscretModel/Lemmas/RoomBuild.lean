import DiscretModel.Lemmas.Room
import DiscretModel.Model.RoomBuild
/-
Lemmas about the construction paths of a room definition (`Model/RoomBuild.lean`), used by C10.

* `Agrees r rr`: the in-memory room `r` holds exactly the entries of the stored rows `rr`, list by list,
  in some order;
* every path establishes or preserves it: `parseRoom` (reload, import), `validate` + `storeMutation`
  (local mutation), `prepareWithHistory` (import on top of an earlier version);
* `sameAt_of_agrees`: two well-formed rooms agreeing with the same rows decide the same when ties are harmless;
* replay in ascending date order always succeeds (`parseRoom_sorted`).
-/
namespace Discret.RoomBuild
open Discret.Room

/-- pointwise relation between two lists of the same length -/
inductive Forall2 {α β : Type} (R : α → β → Prop) : List α → List β → Prop
  | nil : Forall2 R [] []
  | cons {a b l₁ l₂} : R a b → Forall2 R l₁ l₂ → Forall2 R (a :: l₁) (b :: l₂)

/-! ### replaying rows -/

theorem addUsers_ok {l l' : List User} {rows : List UserRow} (h : addUsers l rows = .ok l') :
    l' = l ++ rows.map UserRow.toUser ∧ (UserWF l → UserWF l') := by
  induction rows generalizing l with
  | nil => simp only [addUsers] at h; cases h; simp
  | cons u t ih =>
    simp only [addUsers] at h
    split at h
    · rename_i l1 h1
      obtain ⟨rfl, hw⟩ := ih h
      obtain ⟨rfl, _⟩ := addUserEntry_ok h1
      refine ⟨by simp, fun hwf => hw (addUserEntry_wf hwf h1)⟩
    · cases h

theorem addUsers_error {l : List User} {rows : List UserRow} {e : Err} (h : addUsers l rows = .error e) :
    e = .invalidUserDate := by
  induction rows generalizing l with
  | nil => simp [addUsers] at h
  | cons u t ih =>
    simp only [addUsers] at h
    split at h
    · exact ih h
    · rename_i e' h1; cases h; exact (addUserEntry_error h1).1

/-- replay succeeds whenever the resulting history is date-ordered per key -/
theorem addUsers_of_wf {l : List User} {rows : List UserRow} (h : UserWF (l ++ rows.map UserRow.toUser)) :
    addUsers l rows = .ok (l ++ rows.map UserRow.toUser) := by
  induction rows generalizing l with
  | nil => simp [addUsers]
  | cons u t ih =>
    simp only [addUsers]
    have h' : UserWF ((l ++ [u.toUser]) ++ t.map UserRow.toUser) := by simpa using h
    have hpre : UserWF (l ++ [u.toUser]) := by
      have := h'
      unfold UserWF GWF at this ⊢
      exact (List.pairwise_append.mp this).1
    rw [addUserEntry_of_ok (gaddOk_of_gwf _ _ hpre)]
    simp only []
    rw [ih h']
    simp

theorem addRights_ok {raw : Bool} {l l' : List Right} {rows : List RightRow}
    (h : addRights raw l rows = .ok l') :
    l' = l ++ rows.map (RightRow.toRight raw) ∧ (RightWF l → RightWF l') := by
  induction rows generalizing l with
  | nil => simp only [addRights] at h; cases h; simp
  | cons u t ih =>
    simp only [addRights] at h
    split at h
    · rename_i l1 h1
      obtain ⟨rfl, hw⟩ := ih h
      obtain ⟨rfl, _⟩ := addRightEntry_ok h1
      refine ⟨by simp, fun hwf => hw (addRightEntry_wf hwf h1)⟩
    · cases h

theorem addRights_error {raw : Bool} {l : List Right} {rows : List RightRow} {e : Err}
    (h : addRights raw l rows = .error e) : e = .invalidRightDate := by
  induction rows generalizing l with
  | nil => simp [addRights] at h
  | cons u t ih =>
    simp only [addRights] at h
    split at h
    · exact ih h
    · rename_i e' h1; cases h; exact (addRightEntry_error h1).1

theorem addRights_of_wf {raw : Bool} {l : List Right} {rows : List RightRow}
    (h : RightWF (l ++ rows.map (RightRow.toRight raw))) :
    addRights raw l rows = .ok (l ++ rows.map (RightRow.toRight raw)) := by
  induction rows generalizing l with
  | nil => simp [addRights]
  | cons u t ih =>
    simp only [addRights]
    have h' : RightWF ((l ++ [u.toRight raw]) ++ t.map (RightRow.toRight raw)) := by simpa using h
    have hpre : RightWF (l ++ [u.toRight raw]) := by
      have := h'
      unfold RightWF GWF at this ⊢
      exact (List.pairwise_append.mp this).1
    rw [addRightEntry_of_ok (gaddOk_of_gwf _ _ hpre)]
    simp only []
    rw [ih h']
    simp

@[simp] theorem toRight_entity (raw : Bool) (r : RightRow) : (r.toRight raw).entity = r.entity := by
  unfold RightRow.toRight; split <;> rfl

@[simp] theorem toRight_validFrom (raw : Bool) (r : RightRow) : (r.toRight raw).validFrom = r.date := by
  unfold RightRow.toRight; split <;> rfl

/-! ### parse -/

/-- what `parseGroup` builds -/
structure GroupParsed (raw : Bool) (a : Auth) (g : GroupRow) : Prop where
  id : a.id = g.gid
  users : a.users = g.users.map UserRow.toUser
  userAdmins : a.userAdmins = g.userAdmins.map UserRow.toUser
  rights : a.rights = g.rights.map (RightRow.toRight raw)
  wf : a.WF

theorem parseGroup_ok {raw : Bool} {g : GroupRow} {a : Auth} (h : parseGroup raw g = .ok a) :
    GroupParsed raw a g := by
  unfold parseGroup at h
  split at h
  · cases h
  · rename_i rights hr
    split at h
    · cases h
    · rename_i users hu
      split at h
      · cases h
      · rename_i uas ha
        cases h
        obtain ⟨e1, w1⟩ := addRights_ok hr
        obtain ⟨e2, w2⟩ := addUsers_ok hu
        obtain ⟨e3, w3⟩ := addUsers_ok ha
        simp only [List.nil_append] at e1 e2 e3
        exact ⟨rfl, e2, e3, e1, ⟨w2 userWF_nil, w3 userWF_nil, w1 rightWF_nil⟩⟩

theorem parseGroup_error {raw : Bool} {g : GroupRow} {e : Err} (h : parseGroup raw g = .error e) :
    e = .invalidUserDate ∨ e = .invalidRightDate := by
  unfold parseGroup at h
  split at h
  · rename_i e' hr; cases h; exact Or.inr (addRights_error hr)
  · split at h
    · rename_i e' hu; cases h; exact Or.inl (addUsers_error hu)
    · split at h
      · rename_i e' ha; cases h; exact Or.inl (addUsers_error ha)
      · cases h

theorem parseGroups_ok {raw : Bool} {r r' : Room} {gs : List GroupRow} (h : parseGroups raw r gs = .ok r') :
    r'.id = r.id ∧ r'.mdate = r.mdate ∧ r'.admins = r.admins ∧
    ∃ as, r'.auths = r.auths ++ as ∧ Forall2 (GroupParsed raw) as gs ∧
      ((r.auths ++ as).map (·.id)).Nodup = ((r'.auths).map (·.id)).Nodup ∧ (r.WF → r'.WF) := by
  induction gs generalizing r with
  | nil =>
    simp only [parseGroups] at h; cases h
    exact ⟨rfl, rfl, rfl, [], by simp, Forall2.nil, by simp, id⟩
  | cons g t ih =>
    simp only [parseGroups] at h
    split at h
    · cases h
    · rename_i a ha
      split at h
      · cases h
      · rename_i r1 h1
        obtain ⟨i1, i2, i3, as, e, f, _, w⟩ := ih h
        obtain ⟨_, rfl⟩ := Room.addAuth_ok h1
        have hp := parseGroup_ok ha
        refine ⟨i1, i2, i3, a :: as, by simp [e], Forall2.cons hp f, by simp [e], ?_⟩
        intro hw
        exact w (Room.addAuth_wf hw hp.wf h1)

theorem parseRoom_ok {raw : Bool} {rr : RoomRow} {r : Room} (h : parseRoom raw rr = .ok r) :
    r.id = rr.rid ∧ r.admins = rr.admins.map UserRow.toUser ∧
    Forall2 (GroupParsed raw) r.auths rr.groups ∧ r.WF := by
  unfold parseRoom at h
  split at h
  · cases h
  · rename_i admins ha
    obtain ⟨e, w⟩ := addUsers_ok ha
    simp only [List.nil_append] at e
    obtain ⟨i1, _, i3, as, e2, f, _, hw⟩ := parseGroups_ok h
    simp only [List.nil_append] at e2
    refine ⟨i1, by rw [i3]; exact e, by rw [e2]; exact f, ?_⟩
    exact hw ⟨w userWF_nil, (by intro a ha; cases ha), List.nodup_nil⟩

theorem parseGroups_error {raw : Bool} {r : Room} {gs : List GroupRow} {e : Err}
    (h : parseGroups raw r gs = .error e) (hn : ((r.auths.map (·.id)) ++ gs.map (·.gid)).Nodup) :
    e = .invalidUserDate ∨ e = .invalidRightDate := by
  induction gs generalizing r with
  | nil => simp [parseGroups] at h
  | cons g t ih =>
    simp only [parseGroups] at h
    split at h
    · rename_i e' ha; cases h; exact parseGroup_error ha
    · rename_i a ha
      have hp := parseGroup_ok ha
      split at h
      · rename_i e' h1
        exfalso
        unfold Room.addAuth at h1
        split at h1
        · rename_i hany
          obtain ⟨x, hx, hxe⟩ := List.any_eq_true.mp hany
          have hxe : x.id = g.gid := by rw [← hp.id]; simpa using hxe
          have := (List.nodup_append.mp hn).2.2 x.id (List.mem_map.mpr ⟨x, hx, rfl⟩) g.gid (by simp)
          exact this hxe
        · cases h1
      · rename_i r1 h1
        obtain ⟨_, rfl⟩ := Room.addAuth_ok h1
        apply ih h
        simp only [List.map_append, List.map_cons, List.map_nil, hp.id]
        simpa [List.append_assoc] using hn

/-- a parse can only fail on the append-only date check, when the group ids are distinct -/
theorem parseRoom_error {raw : Bool} {rr : RoomRow} {e : Err} (h : parseRoom raw rr = .error e)
    (hn : (rr.groups.map (·.gid)).Nodup) : e = .invalidUserDate ∨ e = .invalidRightDate := by
  unfold parseRoom at h
  split at h
  · rename_i e' ha; cases h; exact Or.inl (addUsers_error ha)
  · exact parseGroups_error h (by simpa using hn)

/-! ### sorting -/

theorem insertBy_perm {α : Type} (le : α → α → Bool) (x : α) (l : List α) : (insertBy le x l).Perm (x :: l) := by
  induction l with
  | nil => exact List.Perm.refl _
  | cons y t ih =>
    simp only [insertBy]
    split
    · exact List.Perm.refl _
    · exact (List.Perm.cons y ih).trans (List.Perm.swap x y t)

theorem sortBy_perm {α : Type} (le : α → α → Bool) (l : List α) : (sortBy le l).Perm l := by
  induction l with
  | nil => exact List.Perm.refl _
  | cons x t ih =>
    simp only [sortBy, List.foldr_cons]
    exact (insertBy_perm le x _).trans (List.Perm.cons x ih)

theorem insertBy_sorted {α : Type} (le : α → α → Bool) (htot : ∀ a b, le a b = true ∨ le b a = true)
    (htr : ∀ a b c, le a b = true → le b c = true → le a c = true) (x : α) {l : List α}
    (h : l.Pairwise fun a b => le a b = true) : (insertBy le x l).Pairwise fun a b => le a b = true := by
  induction l with
  | nil => simp [insertBy]
  | cons y t ih =>
    simp only [insertBy]
    rw [List.pairwise_cons] at h
    split
    · rename_i hxy
      refine List.pairwise_cons.mpr ⟨?_, List.pairwise_cons.mpr h⟩
      intro z hz
      rcases List.mem_cons.mp hz with rfl | hz
      · exact hxy
      · exact htr _ _ _ hxy (h.1 z hz)
    · rename_i hxy
      have hyx : le y x = true := by
        rcases htot x y with h1 | h1
        · exact absurd h1 hxy
        · exact h1
      refine List.pairwise_cons.mpr ⟨?_, ih h.2⟩
      intro z hz
      have := (insertBy_perm le x t).mem_iff.mp hz
      rcases List.mem_cons.mp this with rfl | hz
      · exact hyx
      · exact h.1 z hz

theorem sortBy_sorted {α : Type} (le : α → α → Bool) (htot : ∀ a b, le a b = true ∨ le b a = true)
    (htr : ∀ a b c, le a b = true → le b c = true → le a c = true) (l : List α) :
    (sortBy le l).Pairwise fun a b => le a b = true := by
  induction l with
  | nil => exact List.Pairwise.nil
  | cons x t ih =>
    simp only [sortBy, List.foldr_cons]
    exact insertBy_sorted le htot htr x ih

theorem sortUsers_perm (nf : Bool) (l : List UserRow) : (sortUsers nf l).Perm l := by
  unfold sortUsers; split <;> exact sortBy_perm _ _

theorem sortRights_perm (nf : Bool) (l : List RightRow) : (sortRights nf l).Perm l := by
  unfold sortRights; split <;> exact sortBy_perm _ _

theorem sortUsers_asc (l : List UserRow) : (sortUsers false l).Pairwise fun a b => a.date ≤ b.date := by
  unfold sortUsers
  simp only [Bool.false_eq_true, if_false]
  have := sortBy_sorted (fun a b : UserRow => decide (a.date ≤ b.date))
    (by intro a b; simp only [decide_eq_true_eq]; omega)
    (by intro a b c; simp only [decide_eq_true_eq]; omega) l
  exact this.imp (by intro a b h; simpa using h)

theorem sortRights_asc (l : List RightRow) : (sortRights false l).Pairwise fun a b => a.date ≤ b.date := by
  unfold sortRights
  simp only [Bool.false_eq_true, if_false]
  have := sortBy_sorted (fun a b : RightRow => decide (a.date ≤ b.date))
    (by intro a b; simp only [decide_eq_true_eq]; omega)
    (by intro a b c; simp only [decide_eq_true_eq]; omega) l
  exact this.imp (by intro a b h; simpa using h)

theorem byTie_perm {α : Type} (id : α → Nat) (t : TieOrder) (l : List α) : (byTie id t l).Perm l := by
  cases t with
  | uid rev => cases rev <;> exact sortBy_perm _ _
  | seq s => exact sortBy_perm _ _

theorem readUsers_perm (nf : Bool) (t : TieOrder) (l : List UserRow) : (readUsers nf t l).Perm l :=
  (sortUsers_perm nf _).trans (byTie_perm _ t l)

theorem readRights_perm (nf : Bool) (t : TieOrder) (l : List RightRow) : (readRights nf t l).Perm l :=
  (sortRights_perm nf _).trans (byTie_perm _ t l)

theorem readUsers_asc (t : TieOrder) (l : List UserRow) :
    (readUsers false t l).Pairwise fun a b => a.date ≤ b.date := sortUsers_asc _

theorem readRights_asc (t : TieOrder) (l : List RightRow) :
    (readRights false t l).Pairwise fun a b => a.date ≤ b.date := sortRights_asc _

theorem groupsByUid_perm (rev : Bool) (rr : RoomRow) : (groupsByUid rev rr).groups.Perm rr.groups :=
  byTie_perm _ _ _

theorem userWF_of_asc {l : List UserRow} (h : l.Pairwise fun a b => a.date ≤ b.date) :
    UserWF (l.map UserRow.toUser) := by
  unfold UserWF GWF
  rw [List.pairwise_map]
  exact h.imp (by intro a b hab _; exact hab)

theorem rightWF_of_asc {raw : Bool} {l : List RightRow} (h : l.Pairwise fun a b => a.date ≤ b.date) :
    RightWF (l.map (RightRow.toRight raw)) := by
  unfold RightWF GWF
  rw [List.pairwise_map]
  exact h.imp (by intro a b hab _; simpa using hab)

/-- a replay succeeds whenever every list, in the order given, is date-ordered per key -/
structure GroupOrdered (raw : Bool) (g : GroupRow) : Prop where
  rights : RightWF (g.rights.map (RightRow.toRight raw))
  users : UserWF (g.users.map UserRow.toUser)
  userAdmins : UserWF (g.userAdmins.map UserRow.toUser)

theorem parseGroup_of_wf {raw : Bool} {g : GroupRow} (h : GroupOrdered raw g) :
    ∃ a, parseGroup raw g = .ok a := by
  unfold parseGroup
  rw [addRights_of_wf (by simpa using h.rights)]
  simp only
  rw [addUsers_of_wf (by simpa using h.users)]
  simp only
  rw [addUsers_of_wf (by simpa using h.userAdmins)]
  exact ⟨_, rfl⟩

theorem parseGroups_of_wf (raw : Bool) (r : Room) (gs : List GroupRow)
    (hn : ((r.auths.map (·.id)) ++ gs.map (·.gid)).Nodup) (hg : ∀ g ∈ gs, GroupOrdered raw g) :
    ∃ r', parseGroups raw r gs = .ok r' := by
  induction gs generalizing r with
  | nil => exact ⟨r, rfl⟩
  | cons g t ih =>
    obtain ⟨a, ha⟩ := parseGroup_of_wf (hg g (List.mem_cons_self ..))
    have hp := parseGroup_ok ha
    have hid : a.id = g.gid := hp.id
    simp only [parseGroups, ha]
    have hno : r.auths.any (·.id = a.id) = false := by
      rw [Bool.eq_false_iff]
      intro hany
      obtain ⟨x, hx, hxe⟩ := List.any_eq_true.mp hany
      have hxe : x.id = g.gid := by rw [← hid]; simpa using hxe
      exact (List.nodup_append.mp hn).2.2 x.id (List.mem_map.mpr ⟨x, hx, rfl⟩) g.gid (by simp) hxe
    have hadd : r.addAuth a = .ok { r with auths := r.auths ++ [a] } := by
      unfold Room.addAuth; simp [hno]
    rw [hadd]
    apply ih
    · simp only [List.map_append, List.map_cons, List.map_nil, hid]
      simpa [List.append_assoc] using hn
    · intro x hx; exact hg x (List.mem_cons_of_mem _ hx)

theorem parseRoom_of_wf {raw : Bool} {rr : RoomRow} (hn : (rr.groups.map (·.gid)).Nodup)
    (ha : UserWF (rr.admins.map UserRow.toUser)) (hg : ∀ g ∈ rr.groups, GroupOrdered raw g) :
    ∃ r, parseRoom raw rr = .ok r := by
  unfold parseRoom
  rw [addUsers_of_wf (by simpa using ha)]
  exact parseGroups_of_wf raw _ rr.groups (by simpa using hn) hg

theorem sortGroup_asc_ordered (raw : Bool) (t : TieOrder) (g : GroupRow) :
    GroupOrdered raw (sortGroup false t g) :=
  ⟨rightWF_of_asc (readRights_asc t g.rights), userWF_of_asc (readUsers_asc t g.users),
   userWF_of_asc (readUsers_asc t g.userAdmins)⟩

theorem readRoom_gids (nf : Bool) (t : TieOrder) (rr : RoomRow) :
    (readRoom nf t rr).groups.map (·.gid) = rr.groups.map (·.gid) := by
  simp only [readRoom, List.map_map]
  apply List.map_congr_left
  intro g _; rfl

/-- **replay in ascending date order always succeeds** (whatever order the storage returns ties in) -/
theorem parseRoom_sorted (raw : Bool) (t : TieOrder) (rr : RoomRow)
    (hn : (rr.groups.map (·.gid)).Nodup) : ∃ r, parseRoom raw (readRoom false t rr) = .ok r := by
  apply parseRoom_of_wf
  · rw [readRoom_gids]; exact hn
  · exact userWF_of_asc (readUsers_asc t rr.admins)
  · intro g hg
    simp only [readRoom, List.mem_map] at hg
    obtain ⟨g0, _, rfl⟩ := hg
    exact sortGroup_asc_ordered raw t g0

/-- in a list where entries of one key all carry the same date, any order is date-ordered -/
theorem gwf_of_singleDate {α : Type} (key : α → Nat) (date : α → Int) {l : List α}
    (h : ∀ a ∈ l, ∀ b ∈ l, key a = key b → date a = date b) : GWF key date l := by
  unfold GWF
  induction l with
  | nil => exact List.Pairwise.nil
  | cons x t ih =>
    refine List.pairwise_cons.mpr ⟨?_, ih (fun a ha b hb => h a (List.mem_cons_of_mem _ ha) b (List.mem_cons_of_mem _ hb))⟩
    intro b hb hk
    have := h x (List.mem_cons_self ..) b (List.mem_cons_of_mem _ hb) hk
    omega

/-! ### agreement between an in-memory room and stored rows -/

structure GroupAgrees (a : Auth) (g : GroupRow) : Prop where
  id : a.id = g.gid
  users : a.users.Perm (g.users.map UserRow.toUser)
  userAdmins : a.userAdmins.Perm (g.userAdmins.map UserRow.toUser)
  rights : a.rights.Perm (g.rights.map (RightRow.toRight false))

/-- the in-memory room holds exactly the stored entries, list by list, in some order -/
structure Agrees (r : Room) (rr : RoomRow) : Prop where
  admins : r.admins.Perm (rr.admins.map UserRow.toUser)
  fwd : ∀ a ∈ r.auths, ∃ g ∈ rr.groups, GroupAgrees a g
  bwd : ∀ g ∈ rr.groups, ∃ a ∈ r.auths, GroupAgrees a g

/-- the same rows, list by list, in any order (of the rows and of the groups) -/
structure SameRows (x y : RoomRow) : Prop where
  admins : x.admins.Perm y.admins
  fwd : ∀ g ∈ x.groups, ∃ h ∈ y.groups, h.gid = g.gid ∧ g.users.Perm h.users ∧
    g.userAdmins.Perm h.userAdmins ∧ g.rights.Perm h.rights
  bwd : ∀ h ∈ y.groups, ∃ g ∈ x.groups, h.gid = g.gid ∧ g.users.Perm h.users ∧
    g.userAdmins.Perm h.userAdmins ∧ g.rights.Perm h.rights

/-- in every list, entries with equal key and equal date carry the same payload -/
structure TiesHarmless (rr : RoomRow) : Prop where
  admins : UserFunc (rr.admins.map UserRow.toUser)
  groups : ∀ g ∈ rr.groups, UserFunc (g.users.map UserRow.toUser) ∧
    UserFunc (g.userAdmins.map UserRow.toUser) ∧ RightFunc (g.rights.map (RightRow.toRight false))

theorem SameRows.refl (x : RoomRow) : SameRows x x :=
  ⟨List.Perm.refl _, fun g hg => ⟨g, hg, rfl, .refl _, .refl _, .refl _⟩,
   fun g hg => ⟨g, hg, rfl, .refl _, .refl _, .refl _⟩⟩

theorem SameRows.symm {x y : RoomRow} (h : SameRows x y) : SameRows y x :=
  ⟨h.admins.symm,
   fun g hg => by obtain ⟨k, hk, e, a, b, c⟩ := h.bwd g hg; exact ⟨k, hk, e.symm, a.symm, b.symm, c.symm⟩,
   fun g hg => by obtain ⟨k, hk, e, a, b, c⟩ := h.fwd g hg; exact ⟨k, hk, e.symm, a.symm, b.symm, c.symm⟩⟩

theorem readRoom_sameRows (nf : Bool) (t : TieOrder) (rr : RoomRow) : SameRows (readRoom nf t rr) rr := by
  refine ⟨readUsers_perm _ _ _, ?_, ?_⟩
  · intro g hg
    simp only [readRoom, List.mem_map] at hg
    obtain ⟨g0, hg0, rfl⟩ := hg
    exact ⟨g0, hg0, rfl, readUsers_perm _ _ _, readUsers_perm _ _ _, readRights_perm _ _ _⟩
  · intro h hh
    refine ⟨sortGroup nf t h, ?_, rfl, readUsers_perm _ _ _, readUsers_perm _ _ _, readRights_perm _ _ _⟩
    simp only [readRoom, List.mem_map]
    exact ⟨h, hh, rfl⟩


/-- reordering the groups does not change the rows -/
theorem sameRows_of_groups_perm {x y : RoomRow} (ha : x.admins = y.admins) (hg : x.groups.Perm y.groups) :
    SameRows x y :=
  ⟨by rw [ha], fun g hg' => ⟨g, hg.mem_iff.mp hg', rfl, .refl _, .refl _, .refl _⟩,
   fun h hh => ⟨h, hg.mem_iff.mpr hh, rfl, .refl _, .refl _, .refl _⟩⟩

theorem SameRows.trans {x y z : RoomRow} (h1 : SameRows x y) (h2 : SameRows y z) : SameRows x z := by
  refine ⟨h1.admins.trans h2.admins, ?_, ?_⟩
  · intro g hg
    obtain ⟨h, hh, e1, a1, b1, c1⟩ := h1.fwd g hg
    obtain ⟨k, hk, e2, a2, b2, c2⟩ := h2.fwd h hh
    exact ⟨k, hk, e2.trans e1, a1.trans a2, b1.trans b2, c1.trans c2⟩
  · intro k hk
    obtain ⟨h, hh, e2, a2, b2, c2⟩ := h2.bwd k hk
    obtain ⟨g, hg, e1, a1, b1, c1⟩ := h1.bwd h hh
    exact ⟨g, hg, e2.trans e1, a1.trans a2, b1.trans b2, c1.trans c2⟩

theorem exportRoom_sameRows (df : Defects) (rr : RoomRow) : SameRows (exportRoom df rr) rr :=
  (sameRows_of_groups_perm (x := exportRoom df rr) (y := readRoom df.newestFirstReplay (.uid df.uidOrderReversed) rr)
    rfl (groupsByUid_perm _ _)).trans (readRoom_sameRows _ _ rr)

theorem UserFunc.perm {l₁ l₂ : List User} (hp : l₁.Perm l₂) (h : UserFunc l₁) : UserFunc l₂ :=
  fun u hu v hv => h u (hp.mem_iff.mpr hu) v (hp.mem_iff.mpr hv)

theorem RightFunc.perm {l₁ l₂ : List Right} (hp : l₁.Perm l₂) (h : RightFunc l₁) : RightFunc l₂ :=
  fun u hu v hv => h u (hp.mem_iff.mpr hu) v (hp.mem_iff.mpr hv)

theorem forall₂_mem_left {α β : Type} {R : α → β → Prop} {l₁ : List α} {l₂ : List β}
    (h : Forall2 R l₁ l₂) : ∀ a ∈ l₁, ∃ b ∈ l₂, R a b := by
  induction h with
  | nil => intro a ha; cases ha
  | cons hab _ ih =>
    intro x hx
    rcases List.mem_cons.mp hx with rfl | hx
    · exact ⟨_, List.mem_cons_self .., hab⟩
    · obtain ⟨b, hb, hr⟩ := ih x hx; exact ⟨b, List.mem_cons_of_mem _ hb, hr⟩

theorem forall₂_mem_right {α β : Type} {R : α → β → Prop} {l₁ : List α} {l₂ : List β}
    (h : Forall2 R l₁ l₂) : ∀ b ∈ l₂, ∃ a ∈ l₁, R a b := by
  induction h with
  | nil => intro a ha; cases ha
  | cons hab _ ih =>
    intro x hx
    rcases List.mem_cons.mp hx with rfl | hx
    · exact ⟨_, List.mem_cons_self .., hab⟩
    · obtain ⟨b, hb, hr⟩ := ih x hx; exact ⟨b, List.mem_cons_of_mem _ hb, hr⟩

theorem GroupParsed.agrees {a : Auth} {g : GroupRow} (h : GroupParsed false a g) : GroupAgrees a g :=
  ⟨h.id, by rw [h.users], by rw [h.userAdmins], by rw [h.rights]⟩

/-- **every parse installs a room that agrees with the rows it was given** (reload with normalising
    rights, import of a new room, import on top of an earlier version) -/
theorem parseRoom_agrees {rr : RoomRow} {r : Room} (h : parseRoom false rr = .ok r) : Agrees r rr ∧ r.WF := by
  obtain ⟨_, ha, f, w⟩ := parseRoom_ok h
  refine ⟨⟨by rw [ha], ?_, ?_⟩, w⟩
  · intro a hm; obtain ⟨g, hg, hp⟩ := forall₂_mem_left f a hm; exact ⟨g, hg, hp.agrees⟩
  · intro g hm; obtain ⟨a, ha', hp⟩ := forall₂_mem_right f g hm; exact ⟨a, ha', hp.agrees⟩

/-- **the decisions are a function of the stored rows.** Two well-formed rooms that agree with the same
    rows (given in any order) decide the same at every date, when ties are harmless. -/
theorem sameAt_of_agrees {r₁ r₂ : Room} {x y : RoomRow} (a1 : Agrees r₁ x) (a2 : Agrees r₂ y)
    (hs : SameRows x y) (w1 : r₁.WF) (w2 : r₂.WF) (ht : TiesHarmless x) (d : Int) : r₁.SameAt r₂ d := by
  have func : r₁.Func := by
    refine ⟨UserFunc.perm a1.admins.symm ht.admins, ?_⟩
    intro a ha
    obtain ⟨g, hg, ga⟩ := a1.fwd a ha
    obtain ⟨f1, f2, f3⟩ := ht.groups g hg
    exact ⟨UserFunc.perm ga.users.symm f1, UserFunc.perm ga.userAdmins.symm f2, RightFunc.perm ga.rights.symm f3⟩
  refine Room.sameAt_of_perm w1 w2 func ?_ ?_ d
  · exact a1.admins.trans ((hs.admins.map _).trans a2.admins.symm)
  · constructor
    · intro a ha
      obtain ⟨g, hg, ga⟩ := a1.fwd a ha
      obtain ⟨h, hh, e, p1, p2, p3⟩ := hs.fwd g hg
      obtain ⟨b, hb, gb⟩ := a2.bwd h hh
      refine ⟨b, hb, by rw [gb.id, e, ga.id], ?_, ?_, ?_⟩
      · exact ga.users.trans ((p1.map _).trans gb.users.symm)
      · exact ga.userAdmins.trans ((p2.map _).trans gb.userAdmins.symm)
      · exact ga.rights.trans ((p3.map _).trans gb.rights.symm)
    · intro b hb
      obtain ⟨h, hh, gb⟩ := a2.fwd b hb
      obtain ⟨g, hg, e, p1, p2, p3⟩ := hs.bwd h hh
      obtain ⟨a, ha, ga⟩ := a1.bwd g hg
      refine ⟨a, ha, by rw [gb.id, e, ga.id], ?_, ?_, ?_⟩
      · exact ga.users.trans ((p1.map _).trans gb.users.symm)
      · exact ga.userAdmins.trans ((p2.map _).trans gb.userAdmins.symm)
      · exact ga.rights.trans ((p3.map _).trans gb.rights.symm)

/-! ### the local mutation keeps memory and storage in agreement -/

/-- ordered form of `Agrees`: the groups of memory and storage correspond position by position. Every
    path of the model keeps the two in the same order (creation order, or the order of the candidate) -/
structure AgreesOrd (r : Room) (rr : RoomRow) : Prop where
  admins : r.admins.Perm (rr.admins.map UserRow.toUser)
  groups : Forall2 GroupAgrees r.auths rr.groups

theorem AgreesOrd.agrees {r : Room} {rr : RoomRow} (h : AgreesOrd r rr) : Agrees r rr :=
  ⟨h.admins, forall₂_mem_left h.groups, forall₂_mem_right h.groups⟩

theorem parseRoom_agreesOrd {rr : RoomRow} {r : Room} (h : parseRoom false rr = .ok r) :
    AgreesOrd r rr ∧ r.WF ∧ r.id = rr.rid := by
  obtain ⟨hid, ha, f, w⟩ := parseRoom_ok h
  refine ⟨⟨by rw [ha], ?_⟩, w, hid⟩
  generalize r.auths = l₁ at f
  generalize rr.groups = l₂ at f
  induction f with
  | nil => exact Forall2.nil
  | cons hab _ ih => exact Forall2.cons hab.agrees ih

theorem forall2_ids {l₁ : List Auth} {l₂ : List GroupRow} (h : Forall2 GroupAgrees l₁ l₂) :
    l₁.map (·.id) = l₂.map (·.gid) := by
  induction h with
  | nil => rfl
  | cons hab _ ih => simp [hab.id, ih]

theorem forall2_append {α β : Type} {R : α → β → Prop} {l₁ l₁' : List α} {l₂ l₂' : List β}
    (h : Forall2 R l₁ l₂) (h' : Forall2 R l₁' l₂') : Forall2 R (l₁ ++ l₁') (l₂ ++ l₂') := by
  induction h with
  | nil => exact h'
  | cons hab _ ih => exact Forall2.cons hab ih

theorem forall2_map {α β : Type} {R : α → β → Prop} {l₁ : List α} {l₂ : List β} (h : Forall2 R l₁ l₂)
    (f : α → α) (g : β → β) (hfg : ∀ a ∈ l₁, ∀ b ∈ l₂, R a b → R (f a) (g b)) :
    Forall2 R (l₁.map f) (l₂.map g) := by
  induction h with
  | nil => exact Forall2.nil
  | cons hab _ ih =>
    refine Forall2.cons (hfg _ (List.mem_cons_self ..) _ (List.mem_cons_self ..) hab) (ih ?_)
    intro a ha b hb
    exact hfg a (List.mem_cons_of_mem _ ha) b (List.mem_cons_of_mem _ hb)

def mkUser (d : Int) (p : Key × Bool) : User := { key := p.1, date := d, enabled := p.2 }
def mkRight (d : Int) (p : Ent × Bool × Bool) : Right := Right.new d p.1 p.2.1 p.2.2

theorem mkUserRows_toUser (author : Key) (d : Int) (n : Nat) (l : List (Key × Bool)) :
    (mkUserRows author d n l).map UserRow.toUser = l.map (mkUser d) := by
  induction l generalizing n with
  | nil => rfl
  | cons p t ih => obtain ⟨k, e⟩ := p; simp [mkUserRows, UserRow.toUser, mkUser, ih]

theorem mkRightRows_toRight (author : Key) (d : Int) (n : Nat) (l : List (Ent × Bool × Bool)) :
    (mkRightRows author d n l).map (RightRow.toRight false) = l.map (mkRight d) := by
  induction l generalizing n with
  | nil => rfl
  | cons p t ih => obtain ⟨e, s, a⟩ := p; simp [mkRightRows, RightRow.toRight, mkRight, ih]

theorem addAdminList_ok {d : Int} {r r' : Room} {l : List (Key × Bool)} (h : addAdminList d r l = .ok r') :
    r' = { r with admins := r.admins ++ l.map (mkUser d) } ∧ (r.WF → r'.WF) := by
  induction l generalizing r with
  | nil => simp only [addAdminList] at h; cases h; simp
  | cons p t ih =>
    obtain ⟨k, e⟩ := p
    simp only [addAdminList] at h
    split at h
    · rename_i r1 h1
      obtain ⟨rfl, hw⟩ := ih h
      obtain ⟨l1, hl1, rfl⟩ := Room.addAdmin_ok h1
      obtain ⟨rfl, _⟩ := addUserEntry_ok hl1
      exact ⟨by simp [mkUser], fun w => hw (Room.addAdmin_wf w h1)⟩
    · cases h

theorem addUserList_ok {d : Int} {a a' : Auth} {l : List (Key × Bool)} (h : addUserList d a l = .ok a') :
    a' = { a with users := a.users ++ l.map (mkUser d) } ∧ (a.WF → a'.WF) := by
  induction l generalizing a with
  | nil => simp only [addUserList] at h; cases h; simp
  | cons p t ih =>
    obtain ⟨k, e⟩ := p
    simp only [addUserList] at h
    split at h
    · rename_i a1 h1
      obtain ⟨rfl, hw⟩ := ih h
      obtain ⟨l1, hl1, rfl⟩ := Auth.addUser_ok h1
      obtain ⟨rfl, _⟩ := addUserEntry_ok hl1
      exact ⟨by simp [mkUser], fun w => hw (Auth.addUser_wf w h1)⟩
    · cases h

theorem addUserAdminList_ok {d : Int} {a a' : Auth} {l : List (Key × Bool)}
    (h : addUserAdminList d a l = .ok a') :
    a' = { a with userAdmins := a.userAdmins ++ l.map (mkUser d) } ∧ (a.WF → a'.WF) := by
  induction l generalizing a with
  | nil => simp only [addUserAdminList] at h; cases h; simp
  | cons p t ih =>
    obtain ⟨k, e⟩ := p
    simp only [addUserAdminList] at h
    split at h
    · rename_i a1 h1
      obtain ⟨rfl, hw⟩ := ih h
      obtain ⟨l1, hl1, rfl⟩ := Auth.addUserAdmin_ok h1
      obtain ⟨rfl, _⟩ := addUserEntry_ok hl1
      exact ⟨by simp [mkUser], fun w => hw (Auth.addUserAdmin_wf w h1)⟩
    · cases h

theorem addRightList_ok {d : Int} {a a' : Auth} {l : List (Ent × Bool × Bool)}
    (h : addRightList d a l = .ok a') :
    a' = { a with rights := a.rights ++ l.map (mkRight d) } ∧ (a.WF → a'.WF) := by
  induction l generalizing a with
  | nil => simp only [addRightList] at h; cases h; simp
  | cons p t ih =>
    obtain ⟨e, s, al⟩ := p
    simp only [addRightList] at h
    split at h
    · rename_i a1 h1
      obtain ⟨rfl, hw⟩ := ih h
      obtain ⟨l1, hl1, rfl⟩ := Auth.addRight_ok h1
      obtain ⟨rfl, _⟩ := addRightEntry_ok hl1
      exact ⟨by simp [mkRight], fun w => hw (Auth.addRight_wf w h1)⟩
    · cases h

theorem liftErr_ok {α : Type} {x : Except Err α} {a : α} (h : liftErr x = .ok a) : x = .ok a := by
  cases x with
  | ok b => simp only [liftErr] at h; cases h; rfl
  | error e => cases e <;> simp [liftErr] at h

/-- a group extended by the entries of one group of a mutation -/
def extGroup (d : Int) (a : Auth) (g : GroupSpec) : Auth :=
  { a with rights := a.rights ++ g.rights.map (mkRight d), users := a.users ++ g.users.map (mkUser d),
           userAdmins := a.userAdmins ++ g.userAdmins.map (mkUser d) }

def emptyAuth (gid : Id) (d : Int) : Auth := { id := gid, mdate := d, users := [], rights := [], userAdmins := [] }

/-- the three list extensions of one group of a mutation -/
theorem extendGroup_ok {d : Int} {a a' : Auth} {g : GroupSpec}
    (h1 : ∃ a1 a2, addRightList d a g.rights = .ok a1 ∧ addUserList d a1 g.users = .ok a2 ∧
      addUserAdminList d a2 g.userAdmins = .ok a') :
    a' = extGroup d a g ∧ (a.WF → a'.WF) := by
  obtain ⟨a1, a2, e1, e2, e3⟩ := h1
  obtain ⟨rfl, w1⟩ := addRightList_ok e1
  obtain ⟨rfl, w2⟩ := addUserList_ok e2
  obtain ⟨rfl, w3⟩ := addUserAdminList_ok e3
  exact ⟨rfl, fun w => w3 (w2 (w1 w))⟩

theorem validateGroup_ok {df : Defects} {caller : Key} {d : Int} {room room' : Room} {g : GroupSpec} {need : Bool}
    (h : validateGroup df caller d room g = .ok (room', need)) :
    ∃ a0 a' base,
      ((room.getAuth g.gid = some a0 ∧ base = room) ∨
       (room.getAuth g.gid = none ∧ a0 = emptyAuth g.gid d ∧
        base = { room with auths := room.auths ++ [a0] })) ∧
      a' = extGroup d a0 g ∧ (a0.WF → a'.WF) ∧ room' = base.setAuth a' := by
  unfold validateGroup at h
  simp only at h
  split at h
  · cases h
  · rename_i base a0 hstart
    split at h
    · cases h
    · rename_i a1 e1
      split at h
      · cases h
      · rename_i a2 e2
        split at h
        · cases h
        · rename_i a3 e3
          simp only [Except.ok.injEq, Prod.mk.injEq] at h
          obtain ⟨rfl, _⟩ := h
          obtain ⟨ha', hw⟩ := extendGroup_ok (a := a0) (g := g) (d := d)
            ⟨a1, a2, liftErr_ok e1, liftErr_ok e2, liftErr_ok e3⟩
          refine ⟨a0, a3, base, ?_, ha', hw, rfl⟩
          split at hstart
          · rename_i a hg
            simp only [Except.ok.injEq, Prod.mk.injEq] at hstart
            obtain ⟨rfl, rfl⟩ := hstart
            exact Or.inl ⟨hg, rfl⟩
          · rename_i hg
            split at hstart
            · split at hstart
              · rename_i r1 hadd
                simp only [Except.ok.injEq, Prod.mk.injEq] at hstart
                obtain ⟨rfl, rfl⟩ := hstart
                obtain ⟨_, rfl⟩ := Room.addAuth_ok hadd
                exact Or.inr ⟨hg, rfl, rfl⟩
              · rename_i e hadd
                cases e <;> simp [liftErr] at hstart
            · cases hstart

theorem setAuth_append_new {l : List Auth} {a0 a' : Auth} (hid : a'.id = a0.id)
    (hn : ∀ y ∈ l, y.id ≠ a0.id) :
    ((l ++ [a0]).map fun x => if x.id = a'.id then a' else x) = l ++ [a'] := by
  rw [List.map_append]
  congr 1
  · conv => rhs; rw [← List.map_id l]
    apply List.map_congr_left
    intro y hy
    have := hn y hy
    simp [hid, this]
  · simp [hid]

/-- one group of a mutation: memory and storage stay in agreement -/
theorem validateGroup_agrees {df : Defects} {caller author : Key} {d : Int} {n : Nat} {room room' : Room} {g : GroupSpec}
    {need : Bool} {groups : List GroupRow} (hf : Forall2 GroupAgrees room.auths groups) (hw : room.WF)
    (h : validateGroup df caller d room g = .ok (room', need)) :
    Forall2 GroupAgrees room'.auths (storeGroup author d n groups g) ∧ room'.admins = room.admins ∧
      room'.id = room.id ∧ room'.WF := by
  obtain ⟨a0, a', base, hcase, ha', hwa, rfl⟩ := validateGroup_ok h
  have hid : a'.id = a0.id := by rw [ha']; rfl
  have hids := forall2_ids hf
  rcases hcase with ⟨hg, rfl⟩ | ⟨hg, ha0, rfl⟩
  · -- the group exists in memory, hence in storage
    obtain ⟨hm, hgid⟩ := getAuth_some hg
    have hany : groups.any (·.gid = g.gid) = true := by
      have : g.gid ∈ groups.map (·.gid) := by
        rw [← hids]; exact List.mem_map.mpr ⟨a0, hm, hgid⟩
      obtain ⟨x, hx, hxe⟩ := List.mem_map.mp this
      exact List.any_eq_true.mpr ⟨x, hx, by simpa using hxe⟩
    refine ⟨?_, rfl, rfl, Room.setAuth_wf hw (hwa (hw.auths a0 hm))⟩
    simp only [storeGroup, hany, if_true, Room.setAuth]
    apply forall2_map hf
    intro y hy x hx hyx
    have hyid : y.id = x.gid := hyx.id
    by_cases hc : x.gid = g.gid
    · have hya : y = a0 := by
        have h1 := getAuth_of_mem hw.ids hy
        rw [hyid, hc, hg] at h1
        exact (Option.some.inj h1).symm
      subst hya
      have : y.id = a'.id := by rw [hid]
      simp only [this, if_true, hc]
      rw [ha']
      simp only [extGroup]
      refine ⟨by simp [hyid, hc] , ?_, ?_, ?_⟩
      · simp only [List.map_append, mkUserRows_toUser]
        exact hyx.users.append (List.Perm.refl _)
      · simp only [List.map_append, mkUserRows_toUser]
        exact hyx.userAdmins.append (List.Perm.refl _)
      · simp only [List.map_append, mkRightRows_toRight]
        exact hyx.rights.append (List.Perm.refl _)
    · have : y.id ≠ a'.id := by rw [hid, hgid, hyid]; exact hc
      simp only [this, if_false, hc]
      exact hyx
  · -- a new group
    have hnone := getAuth_none hg
    have hany : groups.any (·.gid = g.gid) = false := by
      rw [Bool.eq_false_iff]
      intro hany
      obtain ⟨x, hx, hxe⟩ := List.any_eq_true.mp hany
      have : g.gid ∈ room.auths.map (·.id) := by
        rw [hids]; exact List.mem_map.mpr ⟨x, hx, by simpa using hxe⟩
      obtain ⟨y, hy, hye⟩ := List.mem_map.mp this
      exact hnone y hy hye
    have ha0id : a0.id = g.gid := by rw [ha0]; rfl
    have hauths : (Room.setAuth { room with auths := room.auths ++ [a0] } a').auths = room.auths ++ [a'] := by
      simp only [Room.setAuth]
      exact setAuth_append_new hid (by intro y hy; rw [ha0id]; exact hnone y hy)
    have hwa0 : a0.WF := by rw [ha0]; exact Auth.wf_empty _ _
    refine ⟨?_, rfl, rfl, ?_⟩
    · rw [hauths]
      simp only [storeGroup, hany, Bool.false_eq_true, if_false]
      apply forall2_append hf
      refine Forall2.cons ?_ Forall2.nil
      rw [ha', ha0]
      simp only [extGroup, emptyAuth]
      refine ⟨rfl, ?_, ?_, ?_⟩
      · simp [mkUserRows_toUser]
      · simp [mkUserRows_toUser]
      · simp [mkRightRows_toRight]
    · have hbase : (Room.mk room.id room.mdate room.admins (room.auths ++ [a0])).WF := by
        refine ⟨hw.admins, ?_, ?_⟩
        · intro x hx
          rcases List.mem_append.mp hx with hx | hx
          · exact hw.auths x hx
          · simp at hx; subst hx; exact hwa0
        · simp only [List.map_append, List.map_cons, List.map_nil]
          refine List.nodup_append.mpr ⟨hw.ids, by simp, ?_⟩
          intro x hx y hy
          simp at hy; subst hy
          obtain ⟨z, hz, rfl⟩ := List.mem_map.mp hx
          rw [ha0id]; exact hnone z hz
      exact Room.setAuth_wf hbase (hwa hwa0)

theorem validateGroups_agrees {df : Defects} {caller author : Key} {d : Int} {n : Nat} {room room' : Room}
    {gs : List GroupSpec} {need need' : Bool} {groups : List GroupRow}
    (hf : Forall2 GroupAgrees room.auths groups) (hw : room.WF)
    (h : validateGroups df caller d room need gs = .ok (room', need')) :
    Forall2 GroupAgrees room'.auths (storeGroups author d n groups gs) ∧ room'.admins = room.admins ∧
      room'.id = room.id ∧ room'.WF := by
  induction gs generalizing room need n groups with
  | nil =>
    simp only [validateGroups, Except.ok.injEq, Prod.mk.injEq] at h
    obtain ⟨rfl, _⟩ := h
    exact ⟨hf, rfl, rfl, hw⟩
  | cons g t ih =>
    simp only [validateGroups] at h
    split at h
    · cases h
    · rename_i r1 n1 h1
      obtain ⟨f1, e1, i1, w1⟩ := validateGroup_agrees (author := author) (n := n) hf hw h1
      obtain ⟨f2, e2, i2, w2⟩ := ih f1 w1 h
      exact ⟨f2, e2.trans e1, i2.trans i1, w2⟩

/-- **local mutation.** If memory agrees with storage before a room mutation, it does after it; the new
    in-memory room is well-formed. (`old = none`, `mem = none` for the creation of a room.) -/
theorem validate_agrees {df : Defects} {caller : Key} {n : Nat} {m : MutSpec} {mem : Option Room} {old : Option RoomRow}
    {room' : Room}
    (hinv : if m.isNew then old = none else ∃ r rr, mem = some r ∧ old = some rr ∧ AgreesOrd r rr ∧ r.WF ∧ r.id = rr.rid)
    (h : validate df mem caller m = .ok room') :
    AgreesOrd room' (storeMutation caller n old m) ∧ room'.WF ∧ room'.id = (storeMutation caller n old m).rid := by
  unfold validate at h
  simp only at h
  split at h
  · cases h
  · rename_i room hstart
    split at h
    · cases h
    · rename_i room1 hadm
      split at h
      · cases h
      · rename_i room2 need hgs
        split at h
        · cases h
        · cases h
          obtain ⟨rfl, wadm⟩ := addAdminList_ok (liftErr_ok hadm)
          -- the room before the mutation and the stored base
          have hbase : ∃ base : RoomRow, (storeMutation caller n old m).admins =
                base.admins ++ mkUserRows caller m.date n m.admins ∧
              (storeMutation caller n old m).groups =
                storeGroups caller m.date (n + m.admins.length) base.groups m.groups ∧
              (storeMutation caller n old m).rid = base.rid ∧
              AgreesOrd room base ∧ room.WF ∧ room.id = base.rid := by
            by_cases hnew : m.isNew
            · simp only [hnew, if_true] at hinv hstart
              subst hinv
              cases hstart
              exact ⟨_, rfl, rfl, rfl, ⟨List.Perm.refl _, Forall2.nil⟩,
                ⟨userWF_nil, (by intro a ha; cases ha), List.nodup_nil⟩, rfl⟩
            · simp only [hnew, Bool.false_eq_true, if_false] at hinv hstart
              obtain ⟨r, rr, rfl, rfl, ha, hw, hid⟩ := hinv
              simp only at hstart
              split at hstart
              · cases hstart; exact ⟨rr, rfl, rfl, rfl, ha, hw, hid⟩
              · cases hstart
          obtain ⟨base, e1, e2, e3, ha, hw, hid⟩ := hbase
          obtain ⟨f, ea, ei, w⟩ := validateGroups_agrees (author := caller) (n := n + m.admins.length)
            (groups := base.groups) (room := { room with admins := room.admins ++ m.admins.map (mkUser m.date) })
            ha.groups (wadm hw) hgs
          refine ⟨⟨?_, ?_⟩, w, ?_⟩
          · rw [ea, e1]
            simp only [List.map_append, mkUserRows_toUser]
            exact ha.admins.append (List.Perm.refl _)
          · rw [e2]; exact f
          · rw [ei, e3]; exact hid

/-- the `need_room_admin` flag only grows along the groups of a mutation -/
theorem validateGroups_need_true {df : Defects} {caller : Key} {d : Int} {gs : List GroupSpec} {r r' : Room} {need : Bool}
    (h : validateGroups df caller d r true gs = .ok (r', need)) : need = true := by
  induction gs generalizing r with
  | nil => simp only [validateGroups, Except.ok.injEq, Prod.mk.injEq] at h; exact h.2.symm
  | cons g t ih =>
    simp only [validateGroups] at h
    split at h
    · cases h
    · simp only [Bool.true_or] at h
      exact ih h

end Discret.RoomBuild
