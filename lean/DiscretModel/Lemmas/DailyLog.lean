import DiscretModel.Model.DailyLog
/-
Lemmas about the daily-log model: the specification rows, marks, and the recomputation of the intended
behaviour (`Defects.none`). The property theorems are in `Props/C09.lean`.
-/
namespace Discret.DailyLog

/-! ### the specification rows -/

/-- the cursor state after the given days: `(history, daily)` of the last one -/
def stateAfter (sigs : Content) (room ent : Nat) :
    Option (Hash × Option Hash) → List Nat → Option (Hash × Option Hash)
  | prev, [] => prev
  | prev, day :: t =>
    let daily := dailyOf (sigs room ent day)
    let hist := nextHist prev daily
    stateAfter sigs room ent (hist.map fun h => (h, daily)) t

theorem specRowsFrom_append (sigs : Content) (room ent : Nat) (prev : Option (Hash × Option Hash))
    (l1 l2 : List Nat) :
    specRowsFrom sigs room ent prev (l1 ++ l2) =
      specRowsFrom sigs room ent prev l1 ++ specRowsFrom sigs room ent (stateAfter sigs room ent prev l1) l2 := by
  induction l1 generalizing prev with
  | nil => simp [specRowsFrom, stateAfter]
  | cons d t ih =>
    simp only [List.cons_append, specRowsFrom, stateAfter]
    rw [ih]

theorem specRowsFrom_days (sigs : Content) (room ent : Nat) (prev : Option (Hash × Option Hash))
    (l : List Nat) : (specRowsFrom sigs room ent prev l).map (·.day) = l := by
  induction l generalizing prev with
  | nil => simp [specRowsFrom]
  | cons d t ih => simp only [specRowsFrom, List.map_cons, ih]

theorem specRowsFrom_congr {sigs sigs' : Content} {room ent : Nat} (prev : Option (Hash × Option Hash))
    (l : List Nat) (h : ∀ d ∈ l, sigs' room ent d = sigs room ent d) :
    specRowsFrom sigs' room ent prev l = specRowsFrom sigs room ent prev l := by
  induction l generalizing prev with
  | nil => simp [specRowsFrom]
  | cons d t ih =>
    have hd := h d List.mem_cons_self
    simp only [specRowsFrom, hd]
    rw [ih _ (fun x hx => h x (List.mem_cons_of_mem _ hx))]

/-- a prefix of specification rows is the specification of its own days -/
theorem specRows_prefix {sigs : Content} {room ent : Nat} {days : List Nat} {pre post : List DayRow}
    (h : specRows sigs room ent days = pre ++ post) :
    pre = specRows sigs room ent (pre.map (·.day)) := by
  have hd : days = pre.map (·.day) ++ post.map (·.day) := by
    have := congrArg (List.map (·.day)) h
    rw [specRows, specRowsFrom_days] at this
    simpa using this
  rw [hd, specRows, specRowsFrom_append] at h
  have hl : (specRowsFrom sigs room ent none (pre.map (·.day))).length = pre.length := by
    have := congrArg List.length (specRowsFrom_days sigs room ent none (pre.map (·.day)))
    simpa using this
  exact ((List.append_inj h hl).1).symm

theorem specRows_nil (sigs : Content) (room ent : Nat) : specRows sigs room ent [] = [] := rfl

/-! ### marks -/

def RowsSorted (rows : List DayRow) : Prop := rows.Pairwise fun a b => a.day < b.day

def freshRow (day : Nat) : DayRow := { day, count := 0, daily := none, hist := none, dirty := true }

/-- `markRows` rewrites one position: rows of earlier days, the marked row, rows of later days -/
theorem markRows_split (day : Nat) (rows : List DayRow) (hs : RowsSorted rows) :
    ∃ A B m, markRows day rows = A ++ m :: B ∧ m.day = day ∧ m.dirty = true ∧
      (∀ a ∈ A, a.day < day) ∧ (∀ b ∈ B, day < b.day) ∧
      (rows = A ++ B ∨ ∃ r0, rows = A ++ r0 :: B ∧ r0.day = day) := by
  induction rows with
  | nil => exact ⟨[], [], freshRow day, by simp [markRows, freshRow], rfl, rfl, by simp, by simp, Or.inl rfl⟩
  | cons r t ih =>
    have hs' : RowsSorted t := (List.pairwise_cons.mp hs).2
    have hrt : ∀ b ∈ t, r.day < b.day := (List.pairwise_cons.mp hs).1
    simp only [markRows]
    split
    · rename_i hlt
      refine ⟨[], r :: t, freshRow day, by simp [freshRow], rfl, rfl, by simp, ?_, Or.inl rfl⟩
      intro b hb
      rcases List.mem_cons.mp hb with hb | hb
      · subst hb; exact hlt
      · have := hrt b hb; omega
    · split
      · rename_i heq
        refine ⟨[], t, { r with daily := none, dirty := true }, by simp, heq.symm, rfl, by simp, ?_,
          Or.inr ⟨r, by simp, heq.symm⟩⟩
        intro b hb; have := hrt b hb; omega
      · rename_i hnlt hne
        obtain ⟨A, B, m, h1, h2, h3, h4, h5, h6⟩ := ih hs'
        refine ⟨r :: A, B, m, by simp [h1], h2, h3, ?_, h5, ?_⟩
        · intro a ha
          rcases List.mem_cons.mp ha with ha | ha
          · subst ha; omega
          · exact h4 a ha
        · rcases h6 with h6 | ⟨r0, h6, h7⟩
          · exact Or.inl (by simp [h6])
          · exact Or.inr ⟨r0, by simp [h6], h7⟩

theorem markRows_sorted {day : Nat} {rows : List DayRow} (hs : RowsSorted rows) :
    RowsSorted (markRows day rows) := by
  obtain ⟨A, B, m, h1, h2, _, h4, h5, h6⟩ := markRows_split day rows hs
  rw [h1]
  have hAB : RowsSorted A ∧ RowsSorted B ∧ ∀ a ∈ A, ∀ b ∈ B, a.day < b.day := by
    rcases h6 with h6 | ⟨r0, h6, _⟩
    · rw [h6] at hs
      exact List.pairwise_append.mp hs
    · rw [h6] at hs
      obtain ⟨a, b, c⟩ := List.pairwise_append.mp hs
      exact ⟨a, (List.pairwise_cons.mp b).2, fun x hx y hy => c x hx y (List.mem_cons_of_mem _ hy)⟩
  refine List.pairwise_append.mpr ⟨hAB.1, List.pairwise_cons.mpr ⟨?_, hAB.2.1⟩, ?_⟩
  · intro b hb; rw [h2]; exact h5 b hb
  · intro a ha b hb
    rcases List.mem_cons.mp hb with hb | hb
    · subst hb; rw [h2]; exact h4 a ha
    · exact hAB.2.2 a ha b hb


def keyLt (r1 e1 r2 e2 : Nat) : Prop := r1 < r2 ∨ (r1 = r2 ∧ e1 < e2)

def GroupsSorted (log : Log) : Prop := log.Pairwise fun a b => keyLt a.room a.ent b.room b.ent

theorem grpLt_iff (room ent : Nat) (g : Group) : grpLt room ent g = true ↔ keyLt room ent g.room g.ent := by
  simp [grpLt, keyLt]

theorem keyLt_trans {a b c d e f : Nat} (h1 : keyLt a b c d) (h2 : keyLt c d e f) : keyLt a b e f := by
  unfold keyLt at *; omega

theorem keyLt_irrefl (a b : Nat) : ¬ keyLt a b a b := by unfold keyLt; omega

theorem keyLt_total {a b c d : Nat} (h1 : ¬ keyLt a b c d) (h2 : ¬ (a = c ∧ b = d)) : keyLt c d a b := by
  unfold keyLt at *; omega

/-- `mark` rewrites one group: groups before, the marked group, groups after -/
theorem mark_split (k : Key) (log : Log) (hs : GroupsSorted log) :
    ∃ A B rows0, mark k log = A ++ { room := k.room, ent := k.ent, rows := markRows k.day rows0 } :: B ∧
      (∀ a ∈ A, keyLt a.room a.ent k.room k.ent) ∧ (∀ b ∈ B, keyLt k.room k.ent b.room b.ent) ∧
      ((log = A ++ B ∧ rows0 = []) ∨
        ∃ g0, log = A ++ g0 :: B ∧ g0.room = k.room ∧ g0.ent = k.ent ∧ rows0 = g0.rows) := by
  induction log with
  | nil => exact ⟨[], [], [], by simp [mark], by simp, by simp, Or.inl ⟨rfl, rfl⟩⟩
  | cons g t ih =>
    have hs' : GroupsSorted t := (List.pairwise_cons.mp hs).2
    have hgt : ∀ b ∈ t, keyLt g.room g.ent b.room b.ent := (List.pairwise_cons.mp hs).1
    simp only [mark]
    split
    · rename_i hlt
      have hlt' := (grpLt_iff _ _ _).mp hlt
      refine ⟨[], g :: t, [], by simp, by simp, ?_, Or.inl ⟨rfl, rfl⟩⟩
      intro b hb
      rcases List.mem_cons.mp hb with hb | hb
      · subst hb; exact hlt'
      · exact keyLt_trans hlt' (hgt b hb)
    · split
      · rename_i hnlt heq
        refine ⟨[], t, g.rows, by simp [heq.1, heq.2], by simp, ?_, Or.inr ⟨g, by simp, heq.1.symm, heq.2.symm, rfl⟩⟩
        intro b hb
        have := hgt b hb
        rw [heq.1, heq.2]; exact this
      · rename_i hnlt hne
        obtain ⟨A, B, rows0, h1, h2, h3, h4⟩ := ih hs'
        have hnlt' : ¬ keyLt k.room k.ent g.room g.ent := fun h => hnlt ((grpLt_iff _ _ _).mpr h)
        refine ⟨g :: A, B, rows0, by simp [h1], ?_, h3, ?_⟩
        · intro a ha
          rcases List.mem_cons.mp ha with ha | ha
          · subst ha; exact keyLt_total hnlt' hne
          · exact h2 a ha
        · rcases h4 with ⟨h4, h5⟩ | ⟨g0, h4, h5, h6, h7⟩
          · exact Or.inl ⟨by simp [h4], h5⟩
          · exact Or.inr ⟨g0, by simp [h4], h5, h6, h7⟩

/-! ### the invariant -/

/-- a recomputed row carries the count and the daily hash of its (non-empty) day -/
def RowRight (sigs : Content) (room ent : Nat) (r : DayRow) : Prop :=
  sigs room ent r.day ≠ [] ∧ r.count = (sigs room ent r.day).length ∧ r.daily = dailyOf (sigs room ent r.day)

/-- days written in the current writer batch whose marks are not yet in the table -/
abbrev Pending := Nat → Nat → Nat → Prop

/-- an unmarked row with nothing pending at or before its day -/
def GoodRow (P : Pending) (room ent : Nat) (r : DayRow) : Prop :=
  r.dirty = false ∧ ∀ day, day ≤ r.day → ¬ P room ent day

structure GInv (sigs : Content) (P : Pending) (g : Group) : Prop where
  sorted : RowsSorted g.rows
  right : ∀ r ∈ g.rows, r.dirty = false → ¬ P g.room g.ent r.day → RowRight sigs g.room g.ent r
  chain : ∀ pre post, g.rows = pre ++ post → (∀ r ∈ pre, GoodRow P g.room g.ent r) →
    pre = specRows sigs g.room g.ent (pre.map (·.day))

/-- the invariant of (content, table, pending marks) -/
structure WInv (sigs : Content) (P : Pending) (log : Log) : Prop where
  groups : GroupsSorted log
  ginv : ∀ g ∈ log, GInv sigs P g
  covers : ∀ room ent day, sigs room ent day ≠ [] →
    P room ent day ∨ ∃ g ∈ log, g.room = room ∧ g.ent = ent ∧ ∃ r ∈ g.rows, r.day = day

theorem WInv_empty : WInv (fun _ _ _ => []) (fun _ _ _ => False) [] :=
  ⟨List.Pairwise.nil, by simp, by simp⟩

/-- more pending days: a weaker invariant -/
theorem GInv.mono {sigs : Content} {P P' : Pending} {g : Group} (h : GInv sigs P g)
    (hp : ∀ day, P g.room g.ent day → P' g.room g.ent day) : GInv sigs P' g := by
  refine ⟨h.sorted, ?_, ?_⟩
  · intro r hr hd hnp
    exact h.right r hr hd (fun hp' => hnp (hp _ hp'))
  · intro pre post he hg
    exact h.chain pre post he (fun r hr => ⟨(hg r hr).1, fun day hd hp' => (hg r hr).2 day hd (hp _ hp')⟩)

/-- a prefix of unmarked rows of `A ++ m :: B` with `m` marked lies inside `A` -/
theorem clean_prefix_of_split {A B pre post : List DayRow} {m : DayRow} (hm : m.dirty = true)
    (he : A ++ m :: B = pre ++ post) (hc : ∀ r ∈ pre, r.dirty = false) : ∃ a', A = pre ++ a' := by
  rcases List.append_eq_append_iff.mp he with ⟨a', h1, h2⟩ | ⟨c', h1, _⟩
  · cases a' with
    | nil => exact ⟨[], by simpa using h1.symm⟩
    | cons x a'' =>
      simp only [List.cons_append, List.cons.injEq] at h2
      have : m ∈ pre := by rw [h1, h2.1]; simp
      have := hc m this
      rw [hm] at this; cases this
  · exact ⟨c', h1⟩

theorem GInv_markRows {sigs : Content} {P P' : Pending} {g : Group} {day : Nat} (h : GInv sigs P g)
    (hp : ∀ d, P g.room g.ent d → P' g.room g.ent d ∨ d = day) :
    GInv sigs P' { g with rows := markRows day g.rows } := by
  obtain ⟨A, B, m, h1, h2, h3, h4, h5, h6⟩ := markRows_split day g.rows h.sorted
  refine ⟨markRows_sorted h.sorted, ?_, ?_⟩
  · intro r hr hd hnp
    simp only at hr hnp ⊢
    rw [h1] at hr
    have hr' : r ∈ g.rows ∧ r.day ≠ day := by
      rcases List.mem_append.mp hr with hr | hr
      · refine ⟨?_, by have := h4 r hr; omega⟩
        rcases h6 with h6 | ⟨r0, h6, _⟩ <;> (rw [h6]; simp [hr])
      · rcases List.mem_cons.mp hr with hr | hr
        · subst hr; rw [h3] at hd; cases hd
        · refine ⟨?_, by have := h5 r hr; omega⟩
          rcases h6 with h6 | ⟨r0, h6, _⟩ <;> (rw [h6]; simp [hr])
    refine h.right r hr'.1 hd ?_
    intro hpp
    rcases hp _ hpp with h7 | h7
    · exact hnp h7
    · exact hr'.2 h7
  · intro pre post he hg
    simp only at he hg ⊢
    rw [h1] at he
    obtain ⟨a', ha'⟩ := clean_prefix_of_split h3 he (fun r hr => (hg r hr).1)
    have hrows : ∃ post0, g.rows = pre ++ post0 := by
      rcases h6 with h6 | ⟨r0, h6, _⟩
      · exact ⟨a' ++ B, by rw [h6, ha', List.append_assoc]⟩
      · exact ⟨a' ++ r0 :: B, by rw [h6, ha', List.append_assoc]⟩
    obtain ⟨post0, hrows⟩ := hrows
    refine h.chain pre post0 hrows ?_
    intro r hr
    refine ⟨(hg r hr).1, ?_⟩
    intro d hd hpp
    rcases hp _ hpp with h7 | h7
    · exact (hg r hr).2 d hd h7
    · have : r ∈ A := by rw [ha']; simp [hr]
      have := h4 r this
      omega

theorem mem_markRows_day {day : Nat} {rows : List DayRow} (hs : RowsSorted rows) :
    (∃ r ∈ markRows day rows, r.day = day) ∧ ∀ r ∈ rows, ∃ r' ∈ markRows day rows, r'.day = r.day := by
  obtain ⟨A, B, m, h1, h2, _, _, _, h6⟩ := markRows_split day rows hs
  rw [h1]
  refine ⟨⟨m, by simp, h2⟩, ?_⟩
  intro r hr
  rcases h6 with h6 | ⟨r0, h6, h7⟩
  · rw [h6] at hr
    rcases List.mem_append.mp hr with hr | hr
    · exact ⟨r, by simp [hr], rfl⟩
    · exact ⟨r, by simp [hr], rfl⟩
  · rw [h6] at hr
    rcases List.mem_append.mp hr with hr | hr
    · exact ⟨r, by simp [hr], rfl⟩
    · rcases List.mem_cons.mp hr with hr | hr
      · subst hr; exact ⟨m, by simp, by rw [h2, h7]⟩
      · exact ⟨r, by simp [hr], rfl⟩

/-- writing the mark of day `k`: `k` need no longer be pending -/
theorem WInv_mark {sigs : Content} {P P' : Pending} {log : Log} {k : Key} (h : WInv sigs P log)
    (hp : ∀ room ent day, P room ent day → P' room ent day ∨ (room = k.room ∧ ent = k.ent ∧ day = k.day)) :
    WInv sigs P' (mark k log) := by
  obtain ⟨A, B, rows0, h1, h2, h3, h4⟩ := mark_split k log h.groups
  have hAB : GroupsSorted A ∧ GroupsSorted B ∧ (∀ a ∈ A, ∀ b ∈ B, keyLt a.room a.ent b.room b.ent) ∧
      ∀ g, g ∈ A ∨ g ∈ B → g ∈ log := by
    rcases h4 with ⟨h4, _⟩ | ⟨g0, h4, _⟩
    · have := h.groups; rw [h4] at this
      obtain ⟨a, b, c⟩ := List.pairwise_append.mp this
      exact ⟨a, b, c, fun g hg => by rw [h4]; simpa using hg⟩
    · have := h.groups; rw [h4] at this
      obtain ⟨a, b, c⟩ := List.pairwise_append.mp this
      refine ⟨a, (List.pairwise_cons.mp b).2, fun x hx y hy => c x hx y (List.mem_cons_of_mem _ hy), ?_⟩
      intro g hg; rw [h4]
      rcases hg with hg | hg
      · simp [hg]
      · simp [hg]
  -- other groups: nothing of theirs was marked
  have hother : ∀ g, g ∈ A ∨ g ∈ B → GInv sigs P' g := by
    intro g hg
    have hne : ¬ (g.room = k.room ∧ g.ent = k.ent) := by
      intro e
      rcases hg with hg | hg
      · have := h2 g hg; rw [e.1, e.2] at this; exact keyLt_irrefl _ _ this
      · have := h3 g hg; rw [e.1, e.2] at this; exact keyLt_irrefl _ _ this
    refine (h.ginv g (hAB.2.2.2 g hg)).mono ?_
    intro day hpd
    rcases hp _ _ _ hpd with h5 | h5
    · exact h5
    · exact absurd ⟨h5.1, h5.2.1⟩ hne
  have hmarked : GInv sigs P' { room := k.room, ent := k.ent, rows := markRows k.day rows0 } := by
    rcases h4 with ⟨_, h5⟩ | ⟨g0, h4, h5, h6, h7⟩
    · subst h5
      refine ⟨by simp [markRows, RowsSorted], ?_, ?_⟩
      · intro r hr hd; simp [markRows] at hr; subst hr; cases hd
      · intro pre post he hg
        cases pre with
        | nil => rfl
        | cons x t =>
          simp only [markRows, List.cons_append] at he
          have hx : x = freshRow k.day := by
            have := (List.cons.inj he).1; exact this.symm
          have := (hg x List.mem_cons_self).1
          rw [hx] at this; cases this
    · have hg0 : g0 ∈ log := by rw [h4]; simp
      have := GInv_markRows (day := k.day) (P' := P') (h.ginv g0 hg0) (by
        intro d hpd
        rcases hp _ _ _ hpd with h8 | h8
        · exact Or.inl h8
        · exact Or.inr h8.2.2)
      rw [h7]
      have e : ({ g0 with rows := markRows k.day g0.rows } : Group) =
          { room := k.room, ent := k.ent, rows := markRows k.day g0.rows } := by
        cases g0; simp only at h5 h6; subst h5 h6; rfl
      rw [← e]; exact this
  refine ⟨?_, ?_, ?_⟩
  · rw [h1]
    refine List.pairwise_append.mpr ⟨hAB.1, List.pairwise_cons.mpr ⟨?_, hAB.2.1⟩, ?_⟩
    · intro b hb; exact h3 b hb
    · intro a ha b hb
      rcases List.mem_cons.mp hb with hb | hb
      · subst hb; exact h2 a ha
      · exact hAB.2.2.1 a ha b hb
  · intro g hg
    rw [h1] at hg
    rcases List.mem_append.mp hg with hg | hg
    · exact hother g (Or.inl hg)
    · rcases List.mem_cons.mp hg with hg | hg
      · subst hg; exact hmarked
      · exact hother g (Or.inr hg)
  · intro room ent day hne
    rcases h.covers room ent day hne with hc | ⟨g, hg, hr, he, r, hrm, hrd⟩
    · rcases hp _ _ _ hc with h5 | ⟨h5, h6, h7⟩
      · exact Or.inl h5
      · right
        subst h5 h6 h7
        refine ⟨{ room := k.room, ent := k.ent, rows := markRows k.day rows0 }, by rw [h1]; simp, rfl, rfl, ?_⟩
        have hs0 : RowsSorted rows0 := by
          rcases h4 with ⟨_, h5⟩ | ⟨g0, h4, _, _, h7⟩
          · subst h5; exact List.Pairwise.nil
          · rw [h7]; exact (h.ginv g0 (by rw [h4]; simp)).sorted
        exact (mem_markRows_day hs0).1
    · right
      rcases h4 with ⟨h4, _⟩ | ⟨g0, h4, h5, h6, h7⟩
      · refine ⟨g, ?_, hr, he, r, hrm, hrd⟩
        rw [h1]; rw [h4] at hg
        rcases List.mem_append.mp hg with hg | hg <;> simp [hg]
      · rw [h4] at hg
        rcases List.mem_append.mp hg with hg | hg
        · exact ⟨g, by rw [h1]; simp [hg], hr, he, r, hrm, hrd⟩
        · rcases List.mem_cons.mp hg with hg | hg
          · subst hg
            have hs0 : RowsSorted rows0 := by rw [h7]; exact (h.ginv g (by rw [h4]; simp)).sorted
            obtain ⟨r', hr', hd'⟩ := (mem_markRows_day (day := k.day) hs0).2 r (by rw [h7]; exact hrm)
            exact ⟨{ room := k.room, ent := k.ent, rows := markRows k.day rows0 }, by rw [h1]; simp,
              by rw [← hr, h5], by rw [← he, h6], r', hr', by rw [hd', hrd]⟩
          · exact ⟨g, by rw [h1]; simp [hg], hr, he, r, hrm, hrd⟩


theorem WInv_markAll {sigs : Content} {P' : Pending} (ks : List Key) {log : Log}
    (h : WInv sigs (fun r e d => P' r e d ∨ ({ room := r, ent := e, day := d } : Key) ∈ ks) log) :
    WInv sigs P' (markAll ks log) := by
  induction ks generalizing log with
  | nil =>
    simp only [markAll, List.foldl_nil]
    refine ⟨h.groups, fun g hg => (h.ginv g hg).mono ?_, ?_⟩
    · intro day hd; simpa using hd
    · intro room ent day hne
      rcases h.covers room ent day hne with hc | hc
      · exact Or.inl (by simpa using hc)
      · exact Or.inr hc
  | cons k t ih =>
    simp only [markAll, List.foldl_cons]
    refine ih (log := mark k log) (WInv_mark h ?_)
    intro room ent day hp
    rcases hp with hp | hp
    · exact Or.inl (Or.inl hp)
    · rcases List.mem_cons.mp hp with hp | hp
      · right
        have := congrArg Key.room hp; have := congrArg Key.ent hp; have := congrArg Key.day hp
        simp_all
      · exact Or.inl (Or.inr hp)

/-- the content changes; every day whose signatures change becomes pending -/
theorem WInv_write {sigs sigs' : Content} {P P' : Pending} {log : Log} (h : WInv sigs P log)
    (hp : ∀ r e d, P r e d → P' r e d) (hc : ∀ r e d, sigs' r e d ≠ sigs r e d → P' r e d) :
    WInv sigs' P' log := by
  have hsame : ∀ r e d, ¬ P' r e d → sigs' r e d = sigs r e d := by
    intro r e d hn
    by_cases he : sigs' r e d = sigs r e d
    · exact he
    · exact absurd (hc r e d he) hn
  refine ⟨h.groups, ?_, ?_⟩
  · intro g hg
    have hgi := h.ginv g hg
    refine ⟨hgi.sorted, ?_, ?_⟩
    · intro r hr hd hnp
      have := hgi.right r hr hd (fun x => hnp (hp _ _ _ x))
      unfold RowRight at this ⊢
      rw [hsame _ _ _ hnp]; exact this
    · intro pre post he hgood
      have h1 := hgi.chain pre post he
        (fun r hr => ⟨(hgood r hr).1, fun day hd x => (hgood r hr).2 day hd (hp _ _ _ x)⟩)
      rw [specRows, specRowsFrom_congr (sigs := sigs) (sigs' := sigs')]
      · exact h1
      · intro d hd
        obtain ⟨r, hr, hrd⟩ := List.mem_map.mp hd
        subst hrd
        exact hsame _ _ _ ((hgood r hr).2 r.day (Nat.le_refl _))
  · intro room ent day hne
    by_cases he : sigs' room ent day = sigs room ent day
    · rw [he] at hne
      rcases h.covers room ent day hne with hc' | hc'
      · exact Or.inl (hp _ _ _ hc')
      · exact Or.inr hc'
    · exact Or.inl (hc _ _ _ he)

end Discret.DailyLog
