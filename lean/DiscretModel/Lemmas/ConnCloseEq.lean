import DiscretModel.Gen.ConnClose
/-!
Obligation of translator T10 (C20, connection side): the clean-up at the end of `LocalPeerService::start` has the shape
the model `Model/LockConn.lean` gives to its `close` step — the grant inbox is closed BEFORE it is drained (so that a
grant sent afterwards fails at the lock service and is not locked), everything drained is handed to `cleanup`, and
`cleanup` unlocks each room once. Removing `lock_receiver.close()` or moving it after the drain turns this `decide` false.
-/
namespace Discret.Gen.ConnClose

theorem close_step_shape :
    order = ["loop", "close", "drain", "cleanup"] ∧ drainFeedsCleanup = true ∧ cleanupUnlocksEach = true := by decide

end Discret.Gen.ConnClose
