import DiscretModel.Model.Room
/-
General lemmas about the shared room model (`Model/Room.lean`), used by C01 C02 C07 C10 C12.

* generic part: date-ordered histories keyed by a natural number (`glast`, `GWF`, `gadd`), proved
  once and instantiated for user entries (`lastAt`, `addUserEntry`) and right entries (`rightAt`,
  `addRightEntry`);
* well-formedness (`UserWF`, `RightWF`, `Auth.WF`, `Room.WF`): per key, dates non-decreasing in
  insertion order; holds for the empty room, preserved by every successful `add*`;
* `lastAt` = the last inserted entry among those with the greatest date `≤ d` (`lastAt_spec`,
  `lastAt_is_last`);
* past stability: a successful add with date `e.date` leaves every decision at dates `d < e.date` unchanged;
* `can_iff`: existential characterisation of `Room.can`;
* `decisions_congr`: decisions depend on the per-key subsequences only;
* permutation invariance: two well-formed histories with the same entries in which equal
  (key, date) means equal payload decide the same.
-/
namespace Discret.Room

/-! ## generic date-ordered histories -/
section Generic
variable {α : Type} (key : α → Nat) (date : α → Int)

/-- per key, dates non-decreasing in insertion order -/
def GWF (l : List α) : Prop := l.Pairwise fun a b => key a = key b → date a ≤ date b

/-- the lookup of room.rs: `iter().rev().find(|u| u.date <= d)` on the vector of key `k` -/
def glast (l : List α) (k : Nat) (d : Int) : Option α :=
  (l.filter fun a => key a = k).reverse.find? fun a => date a ≤ d

/-- the append-only insertion of room.rs -/
def gaddOk (l : List α) (u : α) : Prop :=
  ∀ last, (l.filter fun a => key a = key u).getLast? = some last → date last ≤ date u

theorem gwf_nil : GWF key date ([] : List α) := List.Pairwise.nil

theorem glast_congr {l₁ l₂ : List α} {k : Nat}
    (h : (l₁.filter fun a => key a = k) = (l₂.filter fun a => key a = k)) (d : Int) :
    glast key date l₁ k d = glast key date l₂ k d := by
  simp only [glast, h]

/-- an entry dated after `d` is invisible at `d` -/
theorem glast_append_of_lt (l : List α) (u : α) (k : Nat) {d : Int} (h : d < date u) :
    glast key date (l ++ [u]) k d = glast key date l k d := by
  simp only [glast, List.filter_append, List.reverse_append]
  by_cases hk : key u = k
  · have hn : ¬ date u ≤ d := by omega
    simp [List.filter, hk, hn]
  · simp [List.filter, hk]

/-- an entry of another key is invisible -/
theorem glast_append_of_ne (l : List α) (u : α) {k : Nat} (h : key u ≠ k) (d : Int) :
    glast key date (l ++ [u]) k d = glast key date l k d := by
  simp [glast, List.filter_append, List.filter, h]

/-- the new entry is the one in force from its date on -/
theorem glast_append_of_le (l : List α) (u : α) {d : Int} (h : date u ≤ d) :
    glast key date (l ++ [u]) (key u) d = some u := by
  simp [glast, List.filter_append, List.filter, h]

theorem glast_some_mem {l : List α} {k : Nat} {d : Int} {u : α} (h : glast key date l k d = some u) :
    u ∈ l ∧ key u = k ∧ date u ≤ d := by
  have h1 := List.mem_of_find?_eq_some h
  have h2 := List.find?_some h
  rw [List.mem_reverse, List.mem_filter] at h1
  exact ⟨h1.1, by simpa using h1.2, by simpa using h2⟩

theorem glast_none_iff {l : List α} {k : Nat} {d : Int} :
    glast key date l k d = none ↔ ∀ v ∈ l, key v = k → ¬ date v ≤ d := by
  simp only [glast, List.find?_eq_none, List.mem_reverse, List.mem_filter, decide_eq_true_eq]
  constructor
  · intro h v hv hk; exact h v ⟨hv, hk⟩
  · intro h v hv; exact h v hv.1 hv.2

theorem list_rev_ind {β : Type} {P : List β → Prop} (h0 : P []) (h1 : ∀ l a, P l → P (l ++ [a])) :
    ∀ l, P l := by
  intro l
  rw [← List.reverse_reverse l]
  induction l.reverse with
  | nil => exact h0
  | cons a t ih => rw [List.reverse_cons]; exact h1 _ _ ih

/-- `glast` returns the LAST inserted entry of key `k` dated `≤ d` (no hypothesis needed) -/
theorem glast_is_last {l : List α} {k : Nat} {d : Int} {u : α} (h : glast key date l k d = some u) :
    ∃ l₁ l₂, l = l₁ ++ u :: l₂ ∧ ∀ v ∈ l₂, key v = k → ¬ date v ≤ d := by
  induction l using list_rev_ind with
  | h0 => simp [glast] at h
  | h1 l a ih =>
    by_cases hk : key a = k
    · by_cases hd : date a ≤ d
      · subst hk
        rw [glast_append_of_le key date l a hd] at h
        cases h
        exact ⟨l, [], rfl, by simp⟩
      · have hlt : d < date a := by omega
        rw [glast_append_of_lt key date l a k hlt] at h
        obtain ⟨l₁, l₂, rfl, hl⟩ := ih h
        refine ⟨l₁, l₂ ++ [a], by simp, ?_⟩
        intro v hv hkv
        rcases List.mem_append.mp hv with hv | hv
        · exact hl v hv hkv
        · simp at hv; subst hv; exact hd
    · rw [glast_append_of_ne key date l a hk] at h
      obtain ⟨l₁, l₂, rfl, hl⟩ := ih h
      refine ⟨l₁, l₂ ++ [a], by simp, ?_⟩
      intro v hv hkv
      rcases List.mem_append.mp hv with hv | hv
      · exact hl v hv hkv
      · simp at hv; subst hv; exact absurd hkv hk

/-- under well-formedness the entry found has the GREATEST date `≤ d` among the entries of `k` -/
theorem glast_spec {l : List α} (hw : GWF key date l) {k : Nat} {d : Int} {u : α}
    (h : glast key date l k d = some u) :
    u ∈ l ∧ key u = k ∧ date u ≤ d ∧ ∀ v ∈ l, key v = k → date v ≤ d → date v ≤ date u := by
  obtain ⟨hm, hk, hd⟩ := glast_some_mem key date h
  refine ⟨hm, hk, hd, ?_⟩
  obtain ⟨l₁, l₂, rfl, hl⟩ := glast_is_last key date h
  intro v hv hkv hdv
  rcases List.mem_append.mp hv with hv | hv
  · have := (List.pairwise_append.mp hw).2.2 v hv u (List.mem_cons_self ..)
    exact this (hkv.trans hk.symm)
  · rcases List.mem_cons.mp hv with hv | hv
    · subst hv; exact Int.le_refl _
    · exact absurd hdv (hl v hv hkv)

/-- the append-only check keeps histories well-formed -/
theorem gwf_append {l : List α} (hw : GWF key date l) {u : α} (ha : gaddOk key date l u) :
    GWF key date (l ++ [u]) := by
  refine List.pairwise_append.mpr ⟨hw, List.pairwise_singleton _ _, ?_⟩
  intro a ha' b hb hab
  simp at hb; subst hb
  have hmem : a ∈ l.filter fun x => key x = key b := by simp [List.mem_filter, ha', hab]
  have hwf : GWF key date (l.filter fun x => key x = key b) := hw.sublist List.filter_sublist
  cases hl : (l.filter fun x => key x = key b).getLast? with
  | none =>
    rw [List.getLast?_eq_none_iff] at hl
    rw [hl] at hmem; cases hmem
  | some last =>
    have hlast := ha last hl
    obtain ⟨ys, hys⟩ := List.getLast?_eq_some_iff.mp hl
    have hk : key last = key b := by
      have : last ∈ l.filter fun x => key x = key b := by rw [hys]; simp
      simpa using (List.mem_filter.mp this).2
    rw [hys] at hmem hwf
    rcases List.mem_append.mp hmem with hm | hm
    · have h1 := (List.pairwise_append.mp hwf).2.2 a hm _ (List.mem_singleton.mpr rfl)
      exact Int.le_trans (h1 (hab.trans hk.symm)) hlast
    · simp at hm; subst hm; exact hlast

/-- well-formedness of the extended history gives back the append-only check -/
theorem gaddOk_of_gwf {l : List α} {u : α} (hw : GWF key date (l ++ [u])) : gaddOk key date l u := by
  intro last hl
  have hm : last ∈ l.filter fun a => key a = key u := List.mem_of_getLast? hl
  have := (List.pairwise_append.mp hw).2.2 last (List.mem_filter.mp hm).1 u (List.mem_singleton.mpr rfl)
  exact this (by simpa using (List.mem_filter.mp hm).2)

/-- specification of the decision: the payload of an entry of `k` with the greatest date `≤ d` -/
def GSpec (l : List α) (k : Nat) (d : Int) (u : α) : Prop :=
  u ∈ l ∧ key u = k ∧ date u ≤ d ∧ ∀ v ∈ l, key v = k → date v ≤ d → date v ≤ date u

theorem GSpec.perm {l₁ l₂ : List α} (hp : l₁.Perm l₂) {k : Nat} {d : Int} {u : α}
    (h : GSpec key date l₁ k d u) : GSpec key date l₂ k d u :=
  ⟨hp.mem_iff.mp h.1, h.2.1, h.2.2.1, fun v hv => h.2.2.2 v (hp.mem_iff.mpr hv)⟩

/-- two well-formed orders of the same entries: the entries in force at `d` have the same date -/
theorem glast_perm {l₁ l₂ : List α} (hp : l₁.Perm l₂) (h1 : GWF key date l₁) (h2 : GWF key date l₂)
    (k : Nat) (d : Int) :
    (glast key date l₁ k d = none ∧ glast key date l₂ k d = none) ∨
    ∃ u v, glast key date l₁ k d = some u ∧ glast key date l₂ k d = some v ∧
      key u = key v ∧ date u = date v ∧ u ∈ l₁ ∧ v ∈ l₁ := by
  cases e1 : glast key date l₁ k d with
  | none =>
    left; refine ⟨rfl, ?_⟩
    rw [glast_none_iff] at e1 ⊢
    intro v hv; exact e1 v (hp.mem_iff.mpr hv)
  | some u =>
    right
    cases e2 : glast key date l₂ k d with
    | none =>
      rw [glast_none_iff] at e2
      obtain ⟨hm, hk, hd⟩ := glast_some_mem key date e1
      exact absurd hd (e2 u (hp.mem_iff.mp hm) hk)
    | some v =>
      have s1 := glast_spec key date h1 e1
      have s2 := glast_spec key date h2 e2
      have a := s1.2.2.2 v (hp.mem_iff.mpr s2.1) s2.2.1 s2.2.2.1
      have b := s2.2.2.2 u (hp.mem_iff.mp s1.1) s1.2.1 s1.2.2.1
      exact ⟨u, v, rfl, rfl, s1.2.1.trans s2.2.1.symm, by omega, s1.1, hp.mem_iff.mpr s2.1⟩

end Generic

/-! ## user entries -/

/-- per key, dates non-decreasing in insertion order -/
def UserWF (l : List User) : Prop := GWF User.key User.date l

theorem lastAt_eq_glast (l : List User) (k : Key) (d : Int) :
    lastAt l k d = glast User.key User.date l k d := rfl

theorem userWF_nil : UserWF [] := gwf_nil _ _

theorem addUserEntry_ok {l l' : List User} {u : User} (h : addUserEntry l u = .ok l') :
    l' = l ++ [u] ∧ gaddOk User.key User.date l u := by
  unfold addUserEntry at h
  split at h
  · rename_i last hl
    split at h
    · cases h
    · rename_i hgt
      cases h
      refine ⟨rfl, ?_⟩
      intro last' hl'
      rw [hl] at hl'; cases hl'
      exact Int.not_lt.mp hgt
  · rename_i hl
    cases h
    refine ⟨rfl, ?_⟩
    intro last hl'
    rw [hl] at hl'; cases hl'

theorem addUserEntry_error {l : List User} {u : User} {e : Err} (h : addUserEntry l u = .error e) :
    e = .invalidUserDate ∧ ∃ last, (l.filter (·.key = u.key)).getLast? = some last ∧ last.date > u.date := by
  unfold addUserEntry at h
  split at h
  · rename_i last hl
    split at h
    · rename_i hgt; cases h; exact ⟨rfl, last, hl, hgt⟩
    · cases h
  · cases h

/-- the append-only check succeeds exactly when the new date is not before the key's last entry -/
theorem addUserEntry_of_ok {l : List User} {u : User} (h : gaddOk User.key User.date l u) :
    addUserEntry l u = .ok (l ++ [u]) := by
  unfold addUserEntry
  split
  · rename_i last hl
    have := h last hl
    split
    · omega
    · rfl
  · rfl

theorem addUserEntry_wf {l l' : List User} {u : User} (hw : UserWF l) (h : addUserEntry l u = .ok l') :
    UserWF l' := by
  obtain ⟨rfl, ha⟩ := addUserEntry_ok h
  exact gwf_append _ _ hw ha

/-- **lastAt = last inserted among the greatest date ≤ d** (first half: greatest date) -/
theorem lastAt_spec {l : List User} (hw : UserWF l) {k : Key} {d : Int} {u : User}
    (h : lastAt l k d = some u) :
    u ∈ l ∧ u.key = k ∧ u.date ≤ d ∧ ∀ v ∈ l, v.key = k → v.date ≤ d → v.date ≤ u.date :=
  glast_spec User.key User.date hw h

/-- (second half: among the entries dated `≤ d` it is the last inserted one) -/
theorem lastAt_is_last {l : List User} {k : Key} {d : Int} {u : User} (h : lastAt l k d = some u) :
    ∃ l₁ l₂, l = l₁ ++ u :: l₂ ∧ ∀ v ∈ l₂, v.key = k → ¬ v.date ≤ d :=
  glast_is_last User.key User.date h

theorem lastAt_none_iff {l : List User} {k : Key} {d : Int} :
    lastAt l k d = none ↔ ∀ v ∈ l, v.key = k → ¬ v.date ≤ d :=
  glast_none_iff User.key User.date

theorem lastAt_congr {l₁ l₂ : List User} {k : Key}
    (h : l₁.filter (·.key = k) = l₂.filter (·.key = k)) (d : Int) : lastAt l₁ k d = lastAt l₂ k d :=
  glast_congr User.key User.date h d

theorem enabledAt_congr {l₁ l₂ : List User} {k : Key}
    (h : l₁.filter (·.key = k) = l₂.filter (·.key = k)) (d : Int) :
    enabledAt l₁ k d = enabledAt l₂ k d := by
  simp only [enabledAt, lastAt_congr h d]

/-- past stability for one list -/
theorem enabledAt_add_past {l l' : List User} {u : User} (h : addUserEntry l u = .ok l') (k : Key)
    {d : Int} (hd : d < u.date) : enabledAt l' k d = enabledAt l k d := by
  obtain ⟨rfl, _⟩ := addUserEntry_ok h
  simp only [enabledAt, lastAt_eq_glast, glast_append_of_lt User.key User.date l u k hd]

/-- an entry of another key changes nothing, at any date -/
theorem enabledAt_add_other {l l' : List User} {u : User} (h : addUserEntry l u = .ok l') {k : Key}
    (hk : u.key ≠ k) (d : Int) : enabledAt l' k d = enabledAt l k d := by
  obtain ⟨rfl, _⟩ := addUserEntry_ok h
  simp only [enabledAt, lastAt_eq_glast, glast_append_of_ne User.key User.date l u hk]

/-- from its date on, the new entry decides -/
theorem enabledAt_add_self {l l' : List User} {u : User} (h : addUserEntry l u = .ok l')
    {d : Int} (hd : u.date ≤ d) : enabledAt l' u.key d = u.enabled := by
  obtain ⟨rfl, _⟩ := addUserEntry_ok h
  simp only [enabledAt, lastAt_eq_glast, glast_append_of_le User.key User.date l u hd]

/-- equal (key, date) means equal payload -/
def UserFunc (l : List User) : Prop :=
  ∀ u ∈ l, ∀ v ∈ l, u.key = v.key → u.date = v.date → u.enabled = v.enabled

/-- **permutation invariance**: two well-formed orders of the same entries decide the same, provided
    entries with equal key and date carry the same flag -/
theorem enabledAt_perm {l₁ l₂ : List User} (hp : l₁.Perm l₂) (h1 : UserWF l₁) (h2 : UserWF l₂)
    (hf : UserFunc l₁) (k : Key) (d : Int) : enabledAt l₁ k d = enabledAt l₂ k d := by
  rcases glast_perm User.key User.date hp h1 h2 k d with ⟨a, b⟩ | ⟨u, v, a, b, hk, hd, hu, hv⟩
  · simp only [enabledAt, lastAt_eq_glast, a, b]
  · simp only [enabledAt, lastAt_eq_glast, a, b]
    exact hf u hu v hv hk hd

/-! ## right entries -/

def RightWF (l : List Right) : Prop := GWF Right.entity Right.validFrom l

theorem rightAt_eq_glast (l : List Right) (e : Ent) (d : Int) :
    rightAt l e d = glast Right.entity Right.validFrom l e d := rfl

theorem rightWF_nil : RightWF [] := gwf_nil _ _

theorem addRightEntry_ok {l l' : List Right} {r : Right} (h : addRightEntry l r = .ok l') :
    l' = l ++ [r] ∧ gaddOk Right.entity Right.validFrom l r := by
  unfold addRightEntry at h
  split at h
  · rename_i last hl
    split at h
    · cases h
    · rename_i hgt
      cases h
      refine ⟨rfl, ?_⟩
      intro last' hl'
      rw [hl] at hl'; cases hl'
      exact Int.not_lt.mp hgt
  · rename_i hl
    cases h
    refine ⟨rfl, ?_⟩
    intro last hl'
    rw [hl] at hl'; cases hl'

theorem addRightEntry_error {l : List Right} {r : Right} {e : Err} (h : addRightEntry l r = .error e) :
    e = .invalidRightDate ∧
      ∃ last, (l.filter (·.entity = r.entity)).getLast? = some last ∧ last.validFrom > r.validFrom := by
  unfold addRightEntry at h
  split at h
  · rename_i last hl
    split at h
    · rename_i hgt; cases h; exact ⟨rfl, last, hl, hgt⟩
    · cases h
  · cases h

theorem addRightEntry_of_ok {l : List Right} {r : Right} (h : gaddOk Right.entity Right.validFrom l r) :
    addRightEntry l r = .ok (l ++ [r]) := by
  unfold addRightEntry
  split
  · rename_i last hl
    have := h last hl
    split
    · omega
    · rfl
  · rfl

theorem addRightEntry_wf {l l' : List Right} {r : Right} (hw : RightWF l) (h : addRightEntry l r = .ok l') :
    RightWF l' := by
  obtain ⟨rfl, ha⟩ := addRightEntry_ok h
  exact gwf_append _ _ hw ha

theorem rightAt_spec {l : List Right} (hw : RightWF l) {e : Ent} {d : Int} {r : Right}
    (h : rightAt l e d = some r) :
    r ∈ l ∧ r.entity = e ∧ r.validFrom ≤ d ∧
      ∀ v ∈ l, v.entity = e → v.validFrom ≤ d → v.validFrom ≤ r.validFrom :=
  glast_spec Right.entity Right.validFrom hw h

theorem rightAt_none_iff {l : List Right} {e : Ent} {d : Int} :
    rightAt l e d = none ↔ ∀ v ∈ l, v.entity = e → ¬ v.validFrom ≤ d :=
  glast_none_iff Right.entity Right.validFrom

theorem rightAt_congr {l₁ l₂ : List Right} {e : Ent}
    (h : l₁.filter (·.entity = e) = l₂.filter (·.entity = e)) (d : Int) : rightAt l₁ e d = rightAt l₂ e d :=
  glast_congr Right.entity Right.validFrom h d

theorem rightAt_add_past {l l' : List Right} {r : Right} (h : addRightEntry l r = .ok l') (e : Ent)
    {d : Int} (hd : d < r.validFrom) : rightAt l' e d = rightAt l e d := by
  obtain ⟨rfl, _⟩ := addRightEntry_ok h
  simp only [rightAt_eq_glast, glast_append_of_lt Right.entity Right.validFrom l r e hd]

theorem rightAt_add_other {l l' : List Right} {r : Right} (h : addRightEntry l r = .ok l') {e : Ent}
    (he : r.entity ≠ e) (d : Int) : rightAt l' e d = rightAt l e d := by
  obtain ⟨rfl, _⟩ := addRightEntry_ok h
  simp only [rightAt_eq_glast, glast_append_of_ne Right.entity Right.validFrom l r he]

/-- equal (entity, date) means equal flags -/
def RightFunc (l : List Right) : Prop :=
  ∀ u ∈ l, ∀ v ∈ l, u.entity = v.entity → u.validFrom = v.validFrom →
    u.mutSelf = v.mutSelf ∧ u.mutAll = v.mutAll

/-- what `Auth.can` reads from a right list -/
def rightsCan (l : List Right) (e : Ent) (d : Int) (rt : RightType) : Bool :=
  match rightAt l e d with
  | some r => r.grants rt
  | none =>
    match rightAt l wildcard d with
    | some r => r.grants rt
    | none => false

theorem Auth.can_eq (a : Auth) (e : Ent) (d : Int) (rt : RightType) :
    a.can e d rt = rightsCan a.rights e d rt := rfl

theorem rightsCan_congr {l₁ l₂ : List Right}
    (h : ∀ e, l₁.filter (·.entity = e) = l₂.filter (·.entity = e)) (e : Ent) (d : Int) (rt : RightType) :
    rightsCan l₁ e d rt = rightsCan l₂ e d rt := by
  simp only [rightsCan, rightAt_congr (h e) d, rightAt_congr (h wildcard) d]

theorem rightsCan_add_past {l l' : List Right} {r : Right} (h : addRightEntry l r = .ok l') (e : Ent)
    {d : Int} (hd : d < r.validFrom) (rt : RightType) : rightsCan l' e d rt = rightsCan l e d rt := by
  simp only [rightsCan, rightAt_add_past h e hd, rightAt_add_past h wildcard hd]

theorem rightsCan_perm {l₁ l₂ : List Right} (hp : l₁.Perm l₂) (h1 : RightWF l₁) (h2 : RightWF l₂)
    (hf : RightFunc l₁) (e : Ent) (d : Int) (rt : RightType) :
    rightsCan l₁ e d rt = rightsCan l₂ e d rt := by
  have key : ∀ e', (rightAt l₁ e' d).map (·.grants rt) = (rightAt l₂ e' d).map (·.grants rt) := by
    intro e'
    rcases glast_perm Right.entity Right.validFrom hp h1 h2 e' d with ⟨a, b⟩ | ⟨u, v, a, b, hk, hd, hu, hv⟩
    · simp only [rightAt_eq_glast, a, b]
    · simp only [rightAt_eq_glast, a, b, Option.map]
      have := hf u hu v hv hk hd
      cases rt <;> simp [Right.grants, this.1, this.2]
  have k1 := key e
  have k2 := key wildcard
  have expand : ∀ l, rightsCan l e d rt =
      (((rightAt l e d).map (·.grants rt)).getD (((rightAt l wildcard d).map (·.grants rt)).getD false)) := by
    intro l
    simp only [rightsCan]
    cases rightAt l e d <;> cases rightAt l wildcard d <;> rfl
  rw [expand, expand, k1, k2]

/-! ## groups and rooms -/

structure Auth.WF (a : Auth) : Prop where
  users : UserWF a.users
  userAdmins : UserWF a.userAdmins
  rights : RightWF a.rights

/-- the well-formedness invariant of a room: every history list is date-ordered per key -/
structure Room.WF (r : Room) : Prop where
  admins : UserWF r.admins
  auths : ∀ a ∈ r.auths, a.WF
  ids : (r.auths.map (·.id)).Nodup

theorem Room.wf_empty (id : Id) (mdate : Int) : (Room.empty id mdate).WF :=
  ⟨userWF_nil, (by intro a h; cases h), List.nodup_nil⟩

theorem Auth.wf_empty (id : Id) (mdate : Int) :
    ({ id, mdate, users := [], rights := [], userAdmins := [] } : Auth).WF :=
  ⟨userWF_nil, userWF_nil, rightWF_nil⟩

theorem Auth.addUser_ok {a a' : Auth} {u : User} (h : a.addUser u = .ok a') :
    ∃ l, addUserEntry a.users u = .ok l ∧ a' = { a with users := l } := by
  unfold Auth.addUser at h
  split at h
  · cases h; exact ⟨_, ‹_›, rfl⟩
  · cases h

theorem Auth.addUserAdmin_ok {a a' : Auth} {u : User} (h : a.addUserAdmin u = .ok a') :
    ∃ l, addUserEntry a.userAdmins u = .ok l ∧ a' = { a with userAdmins := l } := by
  unfold Auth.addUserAdmin at h
  split at h
  · cases h; exact ⟨_, ‹_›, rfl⟩
  · cases h

theorem Auth.addRight_ok {a a' : Auth} {r : Right} (h : a.addRight r = .ok a') :
    ∃ l, addRightEntry a.rights r = .ok l ∧ a' = { a with rights := l } := by
  unfold Auth.addRight at h
  split at h
  · cases h; exact ⟨_, ‹_›, rfl⟩
  · cases h

theorem Room.addAdmin_ok {r r' : Room} {u : User} (h : r.addAdmin u = .ok r') :
    ∃ l, addUserEntry r.admins u = .ok l ∧ r' = { r with admins := l } := by
  unfold Room.addAdmin at h
  split at h
  · cases h; exact ⟨_, ‹_›, rfl⟩
  · cases h

theorem Room.addAuth_ok {r r' : Room} {a : Auth} (h : r.addAuth a = .ok r') :
    r.auths.any (·.id = a.id) = false ∧ r' = { r with auths := r.auths ++ [a] } := by
  unfold Room.addAuth at h
  split at h
  · cases h
  · rename_i hn; cases h; exact ⟨by simpa using hn, rfl⟩

theorem Auth.addUser_wf {a a' : Auth} {u : User} (hw : a.WF) (h : a.addUser u = .ok a') : a'.WF := by
  obtain ⟨l, hl, rfl⟩ := Auth.addUser_ok h
  exact ⟨addUserEntry_wf hw.users hl, hw.userAdmins, hw.rights⟩

theorem Auth.addUserAdmin_wf {a a' : Auth} {u : User} (hw : a.WF) (h : a.addUserAdmin u = .ok a') :
    a'.WF := by
  obtain ⟨l, hl, rfl⟩ := Auth.addUserAdmin_ok h
  exact ⟨hw.users, addUserEntry_wf hw.userAdmins hl, hw.rights⟩

theorem Auth.addRight_wf {a a' : Auth} {r : Right} (hw : a.WF) (h : a.addRight r = .ok a') : a'.WF := by
  obtain ⟨l, hl, rfl⟩ := Auth.addRight_ok h
  exact ⟨hw.users, hw.userAdmins, addRightEntry_wf hw.rights hl⟩

theorem Room.addAdmin_wf {r r' : Room} {u : User} (hw : r.WF) (h : r.addAdmin u = .ok r') : r'.WF := by
  obtain ⟨l, hl, rfl⟩ := Room.addAdmin_ok h
  exact ⟨addUserEntry_wf hw.admins hl, hw.auths, hw.ids⟩

theorem Room.addAuth_wf {r r' : Room} {a : Auth} (hw : r.WF) (ha : a.WF) (h : r.addAuth a = .ok r') :
    r'.WF := by
  obtain ⟨hn, rfl⟩ := Room.addAuth_ok h
  refine ⟨hw.admins, ?_, ?_⟩
  · intro x hx
    rcases List.mem_append.mp hx with hx | hx
    · exact hw.auths x hx
    · simp at hx; subst hx; exact ha
  · simp only [List.map_append, List.map_cons, List.map_nil]
    refine List.nodup_append.mpr ⟨hw.ids, by simp, ?_⟩
    intro x hx y hy
    simp at hy; subst hy
    obtain ⟨z, hz, rfl⟩ := List.mem_map.mp hx
    intro heq
    have : r.auths.any (·.id = a.id) = true := List.any_eq_true.mpr ⟨z, hz, by simp [heq]⟩
    rw [hn] at this; cases this

theorem Room.setAuth_ids (r : Room) (a : Auth) : (r.setAuth a).auths.map (·.id) = r.auths.map (·.id) := by
  simp only [Room.setAuth, List.map_map]
  apply List.map_congr_left
  intro x _
  simp only [Function.comp]
  split
  · rename_i h; exact h.symm
  · rfl

theorem Room.setAuth_wf {r : Room} {a : Auth} (hw : r.WF) (ha : a.WF) : (r.setAuth a).WF := by
  refine ⟨hw.admins, ?_, by rw [Room.setAuth_ids]; exact hw.ids⟩
  intro x hx
  simp only [Room.setAuth, List.mem_map] at hx
  obtain ⟨y, hy, rfl⟩ := hx
  split
  · exact ha
  · exact hw.auths y hy

/-! ### past stability of the group decisions -/

theorem Auth.canAdminUsers_addUser {a a' : Auth} {u : User} (h : a.addUser u = .ok a') (k : Key) (d : Int) :
    a'.canAdminUsers k d = a.canAdminUsers k d := by
  obtain ⟨l, _, rfl⟩ := Auth.addUser_ok h; rfl

theorem Auth.can_addUser {a a' : Auth} {u : User} (h : a.addUser u = .ok a') (e : Ent) (d : Int)
    (rt : RightType) : a'.can e d rt = a.can e d rt := by
  obtain ⟨l, _, rfl⟩ := Auth.addUser_ok h; rfl

theorem Auth.isUserValidAt_addUser_past {a a' : Auth} {u : User} (h : a.addUser u = .ok a') (k : Key)
    {d : Int} (hd : d < u.date) : a'.isUserValidAt k d = a.isUserValidAt k d := by
  obtain ⟨l, hl, rfl⟩ := Auth.addUser_ok h
  simp only [Auth.isUserValidAt, enabledAt_add_past hl k hd]

theorem Auth.can_addUserAdmin {a a' : Auth} {u : User} (h : a.addUserAdmin u = .ok a') (e : Ent) (d : Int)
    (rt : RightType) : a'.can e d rt = a.can e d rt := by
  obtain ⟨l, _, rfl⟩ := Auth.addUserAdmin_ok h; rfl

theorem Auth.canAdminUsers_addUserAdmin_past {a a' : Auth} {u : User} (h : a.addUserAdmin u = .ok a')
    (k : Key) {d : Int} (hd : d < u.date) : a'.canAdminUsers k d = a.canAdminUsers k d := by
  obtain ⟨l, hl, rfl⟩ := Auth.addUserAdmin_ok h
  simp only [Auth.canAdminUsers, enabledAt_add_past hl k hd]

theorem Auth.isUserValidAt_addUserAdmin_past {a a' : Auth} {u : User} (h : a.addUserAdmin u = .ok a')
    (k : Key) {d : Int} (hd : d < u.date) : a'.isUserValidAt k d = a.isUserValidAt k d := by
  obtain ⟨l, hl, rfl⟩ := Auth.addUserAdmin_ok h
  simp only [Auth.isUserValidAt, enabledAt_add_past hl k hd]

theorem Auth.isUserValidAt_addRight {a a' : Auth} {r : Right} (h : a.addRight r = .ok a') (k : Key)
    (d : Int) : a'.isUserValidAt k d = a.isUserValidAt k d := by
  obtain ⟨l, _, rfl⟩ := Auth.addRight_ok h; rfl

theorem Auth.canAdminUsers_addRight {a a' : Auth} {r : Right} (h : a.addRight r = .ok a') (k : Key)
    (d : Int) : a'.canAdminUsers k d = a.canAdminUsers k d := by
  obtain ⟨l, _, rfl⟩ := Auth.addRight_ok h; rfl

theorem Auth.can_addRight_past {a a' : Auth} {r : Right} (h : a.addRight r = .ok a') (e : Ent)
    {d : Int} (hd : d < r.validFrom) (rt : RightType) : a'.can e d rt = a.can e d rt := by
  obtain ⟨l, hl, rfl⟩ := Auth.addRight_ok h
  simp only [Auth.can_eq, rightsCan_add_past hl e hd]

/-! ### the decisions of a room -/

/-- all decisions of two groups agree at date `d` -/
structure Auth.SameAt (a b : Auth) (d : Int) : Prop where
  valid : ∀ k, a.isUserValidAt k d = b.isUserValidAt k d
  userAdmin : ∀ k, a.canAdminUsers k d = b.canAdminUsers k d
  can : ∀ e rt, a.can e d rt = b.can e d rt

/-- all decisions of two rooms agree at date `d`: who is admin, who is a member, who administers the
    users of which group, who has which right on which entity -/
structure Room.SameAt (r s : Room) (d : Int) : Prop where
  admin : ∀ k, r.isAdmin k d = s.isAdmin k d
  valid : ∀ k, r.isUserValidAt k d = s.isUserValidAt k d
  userAdmin : ∀ gid k, r.canAdminUsers gid k d = s.canAdminUsers gid k d
  can : ∀ k e rt, r.can k e d rt = s.can k e d rt

theorem Auth.SameAt.refl (a : Auth) (d : Int) : a.SameAt a d := ⟨fun _ => rfl, fun _ => rfl, fun _ _ => rfl⟩

theorem Auth.SameAt.symm {a b : Auth} {d : Int} (h : a.SameAt b d) : b.SameAt a d :=
  ⟨fun k => (h.valid k).symm, fun k => (h.userAdmin k).symm, fun e rt => (h.can e rt).symm⟩

theorem Room.SameAt.refl (r : Room) (d : Int) : r.SameAt r d :=
  ⟨fun _ => rfl, fun _ => rfl, fun _ _ => rfl, fun _ _ _ => rfl⟩

theorem Room.SameAt.symm {r s : Room} {d : Int} (h : r.SameAt s d) : s.SameAt r d :=
  ⟨fun k => (h.admin k).symm, fun k => (h.valid k).symm, fun g k => (h.userAdmin g k).symm,
   fun k e rt => (h.can k e rt).symm⟩

theorem Room.SameAt.trans {r s t : Room} {d : Int} (h1 : r.SameAt s d) (h2 : s.SameAt t d) : r.SameAt t d :=
  ⟨fun k => (h1.admin k).trans (h2.admin k), fun k => (h1.valid k).trans (h2.valid k),
   fun g k => (h1.userAdmin g k).trans (h2.userAdmin g k),
   fun k e rt => (h1.can k e rt).trans (h2.can k e rt)⟩

/-- **can_iff**: the existential characterisation of `Room::can` (an admin counts as a member of every
    group and nothing more) -/
theorem Room.can_iff (r : Room) (k : Key) (e : Ent) (d : Int) (rt : RightType) :
    r.can k e d rt = true ↔
      ∃ a ∈ r.auths, (r.isAdmin k d = true ∨ a.isUserValidAt k d = true) ∧ a.can e d rt = true := by
  simp only [Room.can, List.any_eq_true, Bool.and_eq_true, Bool.or_eq_true]

theorem Room.isUserValidAt_iff (r : Room) (k : Key) (d : Int) :
    r.isUserValidAt k d = true ↔ r.isAdmin k d = true ∨ ∃ a ∈ r.auths, a.isUserValidAt k d = true := by
  simp only [Room.isUserValidAt, Room.isAdmin, Bool.or_eq_true, List.any_eq_true]

/-- what a group grants at `d`, from its entries: the entity's own entry in force at `d` when there is
    one, the wildcard's otherwise -/
theorem Auth.can_iff (a : Auth) (e : Ent) (d : Int) (rt : RightType) :
    a.can e d rt = true ↔
      ∃ x, x.grants rt = true ∧
        (rightAt a.rights e d = some x ∨ (rightAt a.rights e d = none ∧ rightAt a.rights wildcard d = some x)) := by
  simp only [Auth.can]
  cases h1 : rightAt a.rights e d with
  | some x => simp
  | none =>
    cases h2 : rightAt a.rights wildcard d with
    | some y => simp
    | none => simp

theorem getAuth_some {r : Room} {gid : Id} {a : Auth} (h : r.getAuth gid = some a) :
    a ∈ r.auths ∧ a.id = gid := by
  unfold Room.getAuth at h
  exact ⟨List.mem_of_find?_eq_some h, by simpa using List.find?_some h⟩

theorem getAuth_of_mem {r : Room} (hn : (r.auths.map (·.id)).Nodup) {a : Auth} (ha : a ∈ r.auths) :
    r.getAuth a.id = some a := by
  unfold Room.getAuth
  generalize r.auths = l at hn ha
  induction l with
  | nil => cases ha
  | cons x t ih =>
    simp only [List.map_cons, List.nodup_cons] at hn
    simp only [List.find?]
    by_cases hx : x.id = a.id
    · simp only [hx, decide_true]
      rcases List.mem_cons.mp ha with h | h
      · rw [h]
      · exact absurd (List.mem_map.mpr ⟨a, h, hx.symm⟩) hn.1
    · simp only [hx, decide_false]
      rcases List.mem_cons.mp ha with h | h
      · exact absurd (h ▸ rfl) hx
      · exact ih hn.2 h

theorem getAuth_none {r : Room} {gid : Id} (h : r.getAuth gid = none) : ∀ a ∈ r.auths, a.id ≠ gid := by
  unfold Room.getAuth at h
  intro a ha
  have := List.find?_eq_none.mp h a ha
  simpa using this

/-- in a list with distinct ids, replacing the group `a` by `b` (same id) changes an `any` only through
    the value at that group -/
theorem any_replace {l : List Auth} (hn : (l.map (·.id)).Nodup) {a b : Auth} (ha : a ∈ l) (hb : b.id = a.id)
    (f : Auth → Bool) (hf : f b = f a) :
    (l.map fun x => if x.id = b.id then b else x).any f = l.any f := by
  induction l with
  | nil => rfl
  | cons x t ih =>
    simp only [List.map_cons, List.nodup_cons] at hn
    simp only [List.map_cons, List.any_cons]
    rcases List.mem_cons.mp ha with h | h
    · subst h
      have hrest : (t.map fun x => if x.id = b.id then b else x) = t := by
        conv => rhs; rw [← List.map_id t]
        apply List.map_congr_left
        intro y hy
        have : y.id ≠ b.id := by
          intro e; exact hn.1 (List.mem_map.mpr ⟨y, hy, e.trans hb⟩)
        simp [this]
      rw [hrest]
      have : a.id = b.id := hb.symm
      simp only [this, if_true, hf]
    · have hx : x.id ≠ b.id := by
        intro e; exact hn.1 (List.mem_map.mpr ⟨a, h, (e.trans hb).symm⟩)
      simp only [hx, if_false, ih hn.2 h]

theorem getAuth_setAuth (r : Room) (b : Auth) (gid : Id) :
    (r.setAuth b).getAuth gid = (r.getAuth gid).map fun x => if x.id = b.id then b else x := by
  simp only [Room.getAuth, Room.setAuth, List.find?_map]
  have hc : ((fun x : Auth => decide (x.id = gid)) ∘ fun x => if x.id = b.id then b else x)
      = fun x => decide (x.id = gid) := by
    funext x
    simp only [Function.comp]
    split
    · rename_i e; rw [e]
    · rfl
  rw [hc]

/-- replacing a group by one that decides the same at `d` changes no decision of the room at `d` -/
theorem Room.setAuth_sameAt {r : Room} (hn : (r.auths.map (·.id)).Nodup) {a b : Auth}
    (ha : r.getAuth a.id = some a) (hb : b.id = a.id) {d : Int} (h : b.SameAt a d) :
    (r.setAuth b).SameAt r d := by
  have hm := (getAuth_some ha).1
  refine ⟨fun _ => rfl, ?_, ?_, ?_⟩
  · intro k
    simp only [Room.isUserValidAt, Room.setAuth]
    rw [any_replace hn hm hb _ (h.valid k)]
  · intro gid k
    simp only [Room.canAdminUsers, getAuth_setAuth]
    cases hg : r.getAuth gid with
    | none => rfl
    | some x =>
      simp only [Option.map]
      by_cases hx : x.id = b.id
      · have hxa : x = a := by
          have h1 := getAuth_of_mem hn (getAuth_some hg).1
          rw [hx, hb, ha] at h1
          exact (Option.some.inj h1).symm
        subst hxa
        simp only [hx, if_true]
        exact h.userAdmin k
      · simp only [hx, if_false]
  · intro k e rt
    simp only [Room.can, Room.isAdmin, Room.setAuth]
    exact any_replace hn hm hb (fun x => (enabledAt r.admins k d || x.isUserValidAt k d) && x.can e d rt)
      (by simp only [h.valid k, h.can e rt])

/-- adding a group that decides nothing at `d` changes no decision of the room at `d` -/
theorem Room.addAuth_sameAt {r r' : Room} {a : Auth} (h : r.addAuth a = .ok r') {d : Int}
    (hv : ∀ k, a.isUserValidAt k d = false) (hu : ∀ k, a.canAdminUsers k d = false)
    (hc : ∀ e rt, a.can e d rt = false) : r'.SameAt r d := by
  obtain ⟨hn, rfl⟩ := Room.addAuth_ok h
  refine ⟨fun _ => rfl, ?_, ?_, ?_⟩
  · intro k; simp [Room.isUserValidAt, hv k]
  · intro gid k
    simp only [Room.canAdminUsers, Room.getAuth, List.find?_append]
    cases hf : List.find? (fun x => decide (x.id = gid)) r.auths with
    | some x => rfl
    | none =>
      simp only [Option.none_or, List.find?]
      by_cases hg : a.id = gid
      · simp [hg, hu k]
      · simp [hg]
  · intro k e rt
    simp only [Room.can, List.any_append, List.any_cons, List.any_nil, hc e rt, Bool.and_false,
      Bool.or_false]
    rfl

/-- **past stability (admins)** -/
theorem Room.addAdmin_sameAt_past {r r' : Room} {u : User} (h : r.addAdmin u = .ok r') {d : Int}
    (hd : d < u.date) : r'.SameAt r d := by
  obtain ⟨l, hl, rfl⟩ := Room.addAdmin_ok h
  have hadm : ∀ k, enabledAt l k d = enabledAt r.admins k d := fun k => enabledAt_add_past hl k hd
  refine ⟨?_, ?_, fun _ _ => rfl, ?_⟩
  · intro k; exact hadm k
  · intro k; simp only [Room.isUserValidAt, hadm k]
  · intro k e rt; simp only [Room.can, Room.isAdmin, hadm k]

theorem Auth.addUser_sameAt_past {a a' : Auth} {u : User} (h : a.addUser u = .ok a') {d : Int}
    (hd : d < u.date) : a'.SameAt a d :=
  ⟨fun k => Auth.isUserValidAt_addUser_past h k hd, fun k => Auth.canAdminUsers_addUser h k d,
   fun e rt => Auth.can_addUser h e d rt⟩

theorem Auth.addUserAdmin_sameAt_past {a a' : Auth} {u : User} (h : a.addUserAdmin u = .ok a') {d : Int}
    (hd : d < u.date) : a'.SameAt a d :=
  ⟨fun k => Auth.isUserValidAt_addUserAdmin_past h k hd,
   fun k => Auth.canAdminUsers_addUserAdmin_past h k hd, fun e rt => Auth.can_addUserAdmin h e d rt⟩

theorem Auth.addRight_sameAt_past {a a' : Auth} {x : Right} (h : a.addRight x = .ok a') {d : Int}
    (hd : d < x.validFrom) : a'.SameAt a d :=
  ⟨fun k => Auth.isUserValidAt_addRight h k d, fun k => Auth.canAdminUsers_addRight h k d,
   fun e rt => Auth.can_addRight_past h e hd rt⟩

theorem Auth.addUser_id {a a' : Auth} {u : User} (h : a.addUser u = .ok a') : a'.id = a.id := by
  obtain ⟨l, _, rfl⟩ := Auth.addUser_ok h; rfl
theorem Auth.addUserAdmin_id {a a' : Auth} {u : User} (h : a.addUserAdmin u = .ok a') : a'.id = a.id := by
  obtain ⟨l, _, rfl⟩ := Auth.addUserAdmin_ok h; rfl
theorem Auth.addRight_id {a a' : Auth} {x : Right} (h : a.addRight x = .ok a') : a'.id = a.id := by
  obtain ⟨l, _, rfl⟩ := Auth.addRight_ok h; rfl

/-- every successful `addEntry?` preserves the well-formedness invariant -/
theorem Room.addEntry?_wf {r r' : Room} {e : Entry} (hw : r.WF) (h : r.addEntry? e = some r') : r'.WF := by
  cases e with
  | admin u =>
    simp only [Room.addEntry?] at h
    split at h
    · cases h; exact Room.addAdmin_wf hw ‹_›
    · cases h
  | user gid u =>
    simp only [Room.addEntry?] at h
    split at h
    · cases h
    · rename_i a ha
      split at h
      · cases h; exact Room.setAuth_wf hw (Auth.addUser_wf (hw.auths a (getAuth_some ha).1) ‹_›)
      · cases h
  | userAdmin gid u =>
    simp only [Room.addEntry?] at h
    split at h
    · cases h
    · rename_i a ha
      split at h
      · cases h; exact Room.setAuth_wf hw (Auth.addUserAdmin_wf (hw.auths a (getAuth_some ha).1) ‹_›)
      · cases h
  | right gid x =>
    simp only [Room.addEntry?] at h
    split at h
    · cases h
    · rename_i a ha
      split at h
      · cases h; exact Room.setAuth_wf hw (Auth.addRight_wf (hw.auths a (getAuth_some ha).1) ‹_›)
      · cases h

/-- **past stability.** A successful add of an entry dated `e.date` leaves every decision of the room
    (`isAdmin`, `isUserValidAt`, `canAdminUsers`, `can`) at every earlier date unchanged. This is what
    "the right *at that time*" means, and why two peers holding different prefixes of a room history
    agree on every date both cover. -/
theorem Room.past_stability {r r' : Room} {e : Entry} (hw : r.WF) (h : r.addEntry? e = some r')
    {d : Int} (hd : d < e.date) : r'.SameAt r d := by
  cases e with
  | admin u =>
    simp only [Room.addEntry?] at h
    split at h
    · cases h; exact Room.addAdmin_sameAt_past ‹_› hd
    · cases h
  | user gid u =>
    simp only [Room.addEntry?] at h
    split at h
    · cases h
    · rename_i a ha
      split at h
      · rename_i a' ha'
        cases h
        have hid := (getAuth_some ha).2
        exact Room.setAuth_sameAt hw.ids (hid ▸ ha) (Auth.addUser_id ha') (Auth.addUser_sameAt_past ha' hd)
      · cases h
  | userAdmin gid u =>
    simp only [Room.addEntry?] at h
    split at h
    · cases h
    · rename_i a ha
      split at h
      · rename_i a' ha'
        cases h
        have hid := (getAuth_some ha).2
        exact Room.setAuth_sameAt hw.ids (hid ▸ ha) (Auth.addUserAdmin_id ha')
          (Auth.addUserAdmin_sameAt_past ha' hd)
      · cases h
  | right gid x =>
    simp only [Room.addEntry?] at h
    split at h
    · cases h
    · rename_i a ha
      split at h
      · rename_i a' ha'
        cases h
        have hid := (getAuth_some ha).2
        exact Room.setAuth_sameAt hw.ids (hid ▸ ha) (Auth.addRight_id ha') (Auth.addRight_sameAt_past ha' hd)
      · cases h

/-! ### decisions depend on the per-key subsequences only; permutation invariance -/

/-- same per-key subsequences -/
def UserEquiv (l₁ l₂ : List User) : Prop := ∀ k, l₁.filter (·.key = k) = l₂.filter (·.key = k)
def RightEquiv (l₁ l₂ : List Right) : Prop := ∀ e, l₁.filter (·.entity = e) = l₂.filter (·.entity = e)

/-- two group lists hold the same groups (by id), related pairwise by `P`, in any order -/
def AuthsRel (P : Auth → Auth → Prop) (l₁ l₂ : List Auth) : Prop :=
  (∀ a ∈ l₁, ∃ b ∈ l₂, b.id = a.id ∧ P a b) ∧ (∀ b ∈ l₂, ∃ a ∈ l₁, b.id = a.id ∧ P a b)

theorem Auth.sameAt_of_equiv {a b : Auth} (hu : UserEquiv a.users b.users)
    (ha : UserEquiv a.userAdmins b.userAdmins) (hr : RightEquiv a.rights b.rights) (d : Int) :
    a.SameAt b d :=
  ⟨fun k => by simp only [Auth.isUserValidAt, enabledAt_congr (hu k) d, enabledAt_congr (ha k) d],
   fun k => by simp only [Auth.canAdminUsers, enabledAt_congr (ha k) d],
   fun e rt => by simp only [Auth.can_eq, rightsCan_congr hr e d rt]⟩

/-- two well-formed groups holding the same entries (in any order), where equal (key, date) means
    equal payload, decide the same -/
theorem Auth.sameAt_of_perm {a b : Auth} (wa : a.WF) (wb : b.WF)
    (hu : a.users.Perm b.users) (ha : a.userAdmins.Perm b.userAdmins) (hr : a.rights.Perm b.rights)
    (fu : UserFunc a.users) (fa : UserFunc a.userAdmins) (fr : RightFunc a.rights) (d : Int) :
    a.SameAt b d :=
  ⟨fun k => by
      simp only [Auth.isUserValidAt, enabledAt_perm hu wa.users wb.users fu k d,
        enabledAt_perm ha wa.userAdmins wb.userAdmins fa k d],
   fun k => by simp only [Auth.canAdminUsers, enabledAt_perm ha wa.userAdmins wb.userAdmins fa k d],
   fun e rt => by simp only [Auth.can_eq, rightsCan_perm hr wa.rights wb.rights fr e d rt]⟩

theorem any_of_authsRel {P : Auth → Auth → Prop} {l₁ l₂ : List Auth} (h : AuthsRel P l₁ l₂)
    (f : Auth → Bool) (hf : ∀ a b, P a b → f a = f b) : l₁.any f = l₂.any f := by
  rw [Bool.eq_iff_iff, List.any_eq_true, List.any_eq_true]
  constructor
  · rintro ⟨a, ha, hfa⟩
    obtain ⟨b, hb, _, hp⟩ := h.1 a ha
    exact ⟨b, hb, by rw [← hf a b hp]; exact hfa⟩
  · rintro ⟨b, hb, hfb⟩
    obtain ⟨a, ha, _, hp⟩ := h.2 b hb
    exact ⟨a, ha, by rw [hf a b hp]; exact hfb⟩

/-- rooms whose admin decisions agree at `d` and whose groups are pairwise `SameAt d` decide the same -/
theorem Room.sameAt_of_authsRel {r s : Room} {d : Int}
    (_hn1 : (r.auths.map (·.id)).Nodup) (hn2 : (s.auths.map (·.id)).Nodup)
    (hadm : ∀ k, enabledAt r.admins k d = enabledAt s.admins k d)
    (hg : AuthsRel (fun a b => a.SameAt b d) r.auths s.auths) : r.SameAt s d := by
  refine ⟨hadm, ?_, ?_, ?_⟩
  · intro k
    simp only [Room.isUserValidAt, hadm k]
    rw [any_of_authsRel hg (fun a => a.isUserValidAt k d) (fun a b h => h.valid k)]
  · intro gid k
    simp only [Room.canAdminUsers]
    cases h1 : r.getAuth gid with
    | none =>
      cases h2 : s.getAuth gid with
      | none => rfl
      | some b =>
        obtain ⟨hb, hid⟩ := getAuth_some h2
        obtain ⟨a, ha, hab, _⟩ := hg.2 b hb
        exact absurd (hab.symm.trans hid) (getAuth_none h1 a ha)
    | some a =>
      obtain ⟨ha, hid⟩ := getAuth_some h1
      obtain ⟨b, hb, hab, hp⟩ := hg.1 a ha
      have : s.getAuth gid = some b := by rw [← hid, ← hab]; exact getAuth_of_mem hn2 hb
      simp only [this]
      exact hp.userAdmin k
  · intro k e rt
    simp only [Room.can, Room.isAdmin, hadm k]
    exact any_of_authsRel hg _ (fun a b h => by simp only [h.valid k, h.can e rt])

/-- **decisions_congr.** The decisions of a room depend only on the per-key (per-entity) subsequences
    of its history lists, and not on the order of the groups. -/
theorem Room.decisions_congr {r s : Room} (hn1 : (r.auths.map (·.id)).Nodup)
    (hn2 : (s.auths.map (·.id)).Nodup) (hadm : UserEquiv r.admins s.admins)
    (hg : AuthsRel (fun a b => UserEquiv a.users b.users ∧ UserEquiv a.userAdmins b.userAdmins ∧
      RightEquiv a.rights b.rights) r.auths s.auths) (d : Int) : r.SameAt s d := by
  refine Room.sameAt_of_authsRel hn1 hn2 (fun k => enabledAt_congr (hadm k) d) ?_
  constructor
  · intro a ha
    obtain ⟨b, hb, hid, h1, h2, h3⟩ := hg.1 a ha
    exact ⟨b, hb, hid, Auth.sameAt_of_equiv h1 h2 h3 d⟩
  · intro b hb
    obtain ⟨a, ha, hid, h1, h2, h3⟩ := hg.2 b hb
    exact ⟨a, ha, hid, Auth.sameAt_of_equiv h1 h2 h3 d⟩

/-- equal (key, date) means equal payload, in every list of the room -/
structure Room.Func (r : Room) : Prop where
  admins : UserFunc r.admins
  auths : ∀ a ∈ r.auths, UserFunc a.users ∧ UserFunc a.userAdmins ∧ RightFunc a.rights

/-- **permutation invariance.** Two well-formed rooms holding the same entries, list by list, in any
    insertion order (and any order of the groups) decide the same at every date, provided that in each
    list entries with equal key and equal date carry the same payload. -/
theorem Room.sameAt_of_perm {r s : Room} (wr : r.WF) (ws : s.WF) (fr : r.Func)
    (hadm : r.admins.Perm s.admins)
    (hg : AuthsRel (fun a b => a.users.Perm b.users ∧ a.userAdmins.Perm b.userAdmins ∧
      a.rights.Perm b.rights) r.auths s.auths) (d : Int) : r.SameAt s d := by
  refine Room.sameAt_of_authsRel wr.ids ws.ids
    (fun k => enabledAt_perm hadm wr.admins ws.admins fr.admins k d) ?_
  constructor
  · intro a ha
    obtain ⟨b, hb, hid, h1, h2, h3⟩ := hg.1 a ha
    obtain ⟨f1, f2, f3⟩ := fr.auths a ha
    exact ⟨b, hb, hid, Auth.sameAt_of_perm (wr.auths a ha) (ws.auths b hb) h1 h2 h3 f1 f2 f3 d⟩
  · intro b hb
    obtain ⟨a, ha, hid, h1, h2, h3⟩ := hg.2 b hb
    obtain ⟨f1, f2, f3⟩ := fr.auths a ha
    exact ⟨a, ha, hid, Auth.sameAt_of_perm (wr.auths a ha) (ws.auths b hb) h1 h2 h3 f1 f2 f3 d⟩

end Discret.Room
