import DiscretModel.Model.Digest
/-
Lemmas for C06 (signed digests): little-endian and JSON-string encodings are injective, a field value is
determined by its contribution to the digest within a shape class, and the length/presence/kind-binding
encoding (`Defects.none`) is self-delimiting. Core Lean only.
-/
namespace Discret.Digest

theorem leBytes_length (n v : Nat) : (leBytes n v).length = n := by
  induction n generalizing v with
  | zero => rfl
  | succ n ih => simp [leBytes, ih]

def ofLe : Bytes → Nat
  | [] => 0
  | b :: r => b + 256 * ofLe r

theorem ofLe_leBytes (n v : Nat) : ofLe (leBytes n v) = v % 256 ^ n := by
  induction n generalizing v with
  | zero => simp [leBytes, ofLe, Nat.mod_one]
  | succ n ih =>
    simp only [leBytes, ofLe, ih]
    rw [Nat.pow_succ, Nat.mul_comm (256 ^ n) 256, Nat.mod_mul]

theorem leBytes_inj {n v w : Nat} (h : leBytes n v = leBytes n w) (hv : v < 256 ^ n) (hw : w < 256 ^ n) :
    v = w := by
  have := congrArg ofLe h
  rw [ofLe_leBytes, ofLe_leBytes, Nat.mod_eq_of_lt hv, Nat.mod_eq_of_lt hw] at this
  exact this

theorem i64le_length (i : Int) : (i64le i).length = 8 := leBytes_length _ _

theorem i64le_inj {i j : Int} (h : i64le i = i64le j)
    (hi : -9223372036854775808 ≤ i ∧ i < 9223372036854775808)
    (hj : -9223372036854775808 ≤ j ∧ j < 9223372036854775808) : i = j := by
  unfold i64le at h
  have := leBytes_inj h (by omega) (by omega)
  omega

theorem hexDigit_inj {a b : Nat} (ha : a < 16) (hb : b < 16) (h : hexDigit a = hexDigit b) : a = b := by
  unfold hexDigit at h
  split at h <;> split at h <;> omega

def unhex (c : Nat) : Nat := if c < 58 then c - 48 else c - 87

theorem unhex_hexDigit {n : Nat} (h : n < 16) : unhex (hexDigit n) = n := by
  unfold unhex hexDigit; split <;> split <;> omega

/-- decodes one escaped byte at the head of a byte string -/
def unescHead : Bytes → Option (Nat × Bytes)
  | [] => none
  | b :: r =>
    if b ≠ 92 then some (b, r) else
    match r with
    | [] => none
    | c :: r' =>
      if c = 34 then some (34, r') else if c = 92 then some (92, r')
      else if c = 98 then some (8, r') else if c = 102 then some (12, r')
      else if c = 110 then some (10, r') else if c = 114 then some (13, r')
      else if c = 116 then some (9, r')
      else match r' with
        | _ :: _ :: h :: l :: r'' => some (unhex h * 16 + unhex l, r'')
        | _ => none

theorem unescHead_escByte (a : Nat) (x : Bytes) : unescHead (escByte a ++ x) = some (a, x) := by
  unfold escByte
  repeat' split
  all_goals simp_all [unescHead]
  rw [unhex_hexDigit (by omega), unhex_hexDigit (by omega)]; omega

theorem escByte_prefix {a b : Nat} {x y : Bytes} (h : escByte a ++ x = escByte b ++ y) : a = b ∧ x = y := by
  have := congrArg unescHead h
  rw [unescHead_escByte, unescHead_escByte] at this
  simpa using this

theorem escByte_head_ne_quote (a : Nat) (x : Bytes) : ∀ y, escByte a ++ x ≠ 34 :: y := by
  intro y h
  have := congrArg unescHead h
  rw [unescHead_escByte] at this
  unfold escByte at h
  repeat' split at h
  all_goals simp_all

theorem escape_inj {s t : Bytes} {x y : Bytes} (h : escape s ++ 34 :: x = escape t ++ 34 :: y) : s = t ∧ x = y := by
  induction s generalizing t with
  | nil =>
    cases t with
    | nil => simpa [escape] using h
    | cons b t =>
      simp only [escape, List.nil_append, List.append_assoc] at h
      exact absurd h.symm (escByte_head_ne_quote _ _ _)
  | cons a s ih =>
    cases t with
    | nil =>
      simp only [escape, List.nil_append, List.append_assoc] at h
      exact absurd h (escByte_head_ne_quote _ _ _)
    | cons b t =>
      simp only [escape, List.append_assoc] at h
      obtain ⟨hab, hr⟩ := escByte_prefix h
      obtain ⟨hst, hxy⟩ := ih hr
      exact ⟨by rw [hab, hst], hxy⟩

theorem jsonQuote_inj {s t : Bytes} (h : jsonQuote s = jsonQuote t) : s = t := by
  unfold jsonQuote at h
  simp only [List.cons.injEq, true_and] at h
  exact (escape_inj (x := []) (y := []) h).1

/-! ### one field -/

theorem lenPrefix_inj {d : Defects} {b b' : Bytes} (h : lenPrefix d b = lenPrefix d b') : b = b' := by
  unfold lenPrefix at h
  split at h
  · exact h
  · exact (List.append_inj h (by simp [leBytes_length])).2

theorem presence_length (d : Defects) (o o' : Option Bytes) : (presence d o).length = (presence d o').length := by
  unfold presence; split <;> simp

/-- a field value is determined by its contribution to the digest once its presence is known -/
theorem encVal_inj_of_present {d : Defects} {ty : Ty} {v v' : Val} (hv : valOk ty v = true) (hv' : valOk ty v' = true)
    (hp : v.present = v'.present) (h : encVal d ty v = encVal d ty v') : v = v' := by
  cases ty <;> cases v <;> cases v' <;> simp only [valOk, Bool.false_eq_true] at hv hv'
  case uid.bytes.bytes => simpa [encVal] using h
  case fixed32.bytes.bytes => simpa [encVal] using h
  case key.bytes.bytes => simpa [encVal] using h
  case i64.int.int i j =>
    simp only [encVal] at h
    simp only [Bool.and_eq_true, decide_eq_true_eq] at hv hv'
    rw [i64le_inj h hv hv']
  case str.bytes.bytes => simp only [encVal] at h; rw [lenPrefix_inj h]
  case optUid.opt.opt o o' =>
    cases o <;> cases o' <;> simp only [Val.present, Bool.false_eq_true, Bool.true_eq_false] at hp
    · rfl
    · simp only [encVal, Option.getD] at h
      have := (List.append_inj h (presence_length _ _ _)).2
      rw [this]
  case optJson.opt.opt o o' =>
    cases o <;> cases o' <;> simp only [Val.present, Bool.false_eq_true, Bool.true_eq_false] at hp
    · rfl
    · simp only [encVal] at h
      have := (List.append_inj h (presence_length _ _ _)).2
      rw [jsonQuote_inj (lenPrefix_inj this)]
  case optBin.opt.opt o o' =>
    cases o <;> cases o' <;> simp only [Val.present, Bool.false_eq_true, Bool.true_eq_false] at hp
    · rfl
    · simp only [encVal] at h
      have := (List.append_inj h (presence_length _ _ _)).2
      rw [lenPrefix_inj this]

/-! ### a whole row, within a shape class -/

theorem encFields_inj_of_shape (d : Defects) : ∀ (l : Layout) (r r' : Row), rowOk l r = true → rowOk l r' = true →
    shape d l r = shape d l r' → encFields d l r = encFields d l r' → r = r'
  | [], [], [], _, _, _, _ => rfl
  | [], [], _ :: _, _, h, _, _ => by simp [rowOk] at h
  | [], _ :: _, _, h, _, _, _ => by simp [rowOk] at h
  | _ :: _, [], _, h, _, _, _ => by simp [rowOk] at h
  | _ :: _, _ :: _, [], _, h, _, _ => by simp [rowOk] at h
  | f :: fs, v :: vs, v' :: vs', h1, h2, hs, he => by
    simp only [rowOk, Bool.and_eq_true] at h1 h2
    simp only [shape, List.cons.injEq, Prod.mk.injEq] at hs
    simp only [encFields] at he
    obtain ⟨hev, het⟩ := List.append_inj he hs.1.2
    rw [encVal_inj_of_present h1.1 h2.1 hs.1.1 hev, encFields_inj_of_shape d fs vs vs' h1.2 h2.2 hs.2 het]

/-! ### the length- presence- and kind-binding encoding (`Defects.none`) is self-delimiting -/

theorem lenPrefix_none_delim {b b' x y : Bytes} (hb : b.length < 18446744073709551616)
    (hb' : b'.length < 18446744073709551616)
    (h : lenPrefix Defects.none b ++ x = lenPrefix Defects.none b' ++ y) : b = b' ∧ x = y := by
  simp only [lenPrefix, Defects.none, Bool.false_eq_true, if_false, List.append_assoc] at h
  obtain ⟨hl, hr⟩ := List.append_inj h (by simp [leBytes_length])
  have hlen : b.length = b'.length := leBytes_inj hl (by simpa using hb) (by simpa using hb')
  exact List.append_inj hr hlen

theorem encVal_none_delim {ty : Ty} {v v' : Val} {x y : Bytes} (hv : valOk ty v = true) (hv' : valOk ty v' = true)
    (h : encVal Defects.none ty v ++ x = encVal Defects.none ty v' ++ y) : v = v' ∧ x = y := by
  cases ty <;> cases v <;> cases v' <;> simp only [valOk, Bool.false_eq_true] at hv hv'
  case uid.bytes.bytes b b' =>
    simp only [encVal] at h; simp only [beq_iff_eq] at hv hv'
    obtain ⟨h1, h2⟩ := List.append_inj h (by omega); exact ⟨by rw [h1], h2⟩
  case fixed32.bytes.bytes b b' =>
    simp only [encVal] at h; simp only [beq_iff_eq] at hv hv'
    obtain ⟨h1, h2⟩ := List.append_inj h (by omega); exact ⟨by rw [h1], h2⟩
  case key.bytes.bytes b b' =>
    simp only [encVal] at h; simp only [beq_iff_eq] at hv hv'
    obtain ⟨h1, h2⟩ := List.append_inj h (by omega); exact ⟨by rw [h1], h2⟩
  case i64.int.int i j =>
    simp only [encVal] at h
    simp only [Bool.and_eq_true, decide_eq_true_eq] at hv hv'
    obtain ⟨h1, h2⟩ := List.append_inj h (by simp [i64le_length])
    exact ⟨by rw [i64le_inj h1 hv hv'], h2⟩
  case str.bytes.bytes b b' =>
    simp only [encVal] at h; simp only [decide_eq_true_eq] at hv hv'
    obtain ⟨h1, h2⟩ := lenPrefix_none_delim hv hv' h; exact ⟨by rw [h1], h2⟩
  case optUid.opt.opt o o' =>
    cases o <;> cases o' <;>
      simp [encVal, presence, Defects.none] at h ⊢
    · exact h
    · rename_i b b'
      simp only [beq_iff_eq] at hv hv'
      exact List.append_inj h (by omega)
  case optJson.opt.opt o o' =>
    cases o <;> cases o' <;>
      simp only [encVal, presence, Defects.none, Bool.false_eq_true, if_false, Option.isSome, List.cons_append,
        List.nil_append, List.cons.injEq, false_and, true_and, reduceCtorEq,
        Val.opt.injEq, Option.some.injEq] at h ⊢
    · exact h
    · exact absurd h.1 (by decide)
    · exact absurd h.1 (by decide)
    · simp only [decide_eq_true_eq] at hv hv'
      obtain ⟨h1, h2⟩ := lenPrefix_none_delim hv hv' h
      exact ⟨jsonQuote_inj h1, h2⟩
  case optBin.opt.opt o o' =>
    cases o <;> cases o' <;>
      simp only [encVal, presence, Defects.none, Bool.false_eq_true, if_false, Option.isSome, List.cons_append,
        List.nil_append, List.cons.injEq, false_and, true_and, reduceCtorEq,
        Val.opt.injEq, Option.some.injEq] at h ⊢
    · exact h
    · exact absurd h.1 (by decide)
    · exact absurd h.1 (by decide)
    · simp only [decide_eq_true_eq] at hv hv'
      exact lenPrefix_none_delim hv hv' h

theorem encFields_none_inj : ∀ (l : Layout) (r r' : Row), rowOk l r = true → rowOk l r' = true →
    encFields Defects.none l r = encFields Defects.none l r' → r = r'
  | [], [], [], _, _, _ => rfl
  | [], [], _ :: _, _, h, _ => by simp [rowOk] at h
  | [], _ :: _, _, h, _, _ => by simp [rowOk] at h
  | _ :: _, [], _, h, _, _ => by simp [rowOk] at h
  | _ :: _, _ :: _, [], _, h, _ => by simp [rowOk] at h
  | f :: fs, v :: vs, v' :: vs', h1, h2, he => by
    simp only [rowOk, Bool.and_eq_true] at h1 h2
    simp only [encFields] at he
    obtain ⟨hev, het⟩ := encVal_none_delim h1.1 h2.1 he
    rw [hev, encFields_none_inj fs vs vs' h1.2 h2.2 het]

theorem Kind.tag_inj {k k' : Kind} (h : k.tag = k'.tag) : k = k' := by
  cases k <;> cases k' <;> simp [Kind.tag] at h ⊢

/-! ### lengths (used to separate the fixed-size announce digest from every row digest) -/

def minLen : Layout → Nat
  | [] => 0
  | f :: fs => (match f.ty with | .uid => 16 | .fixed32 => 32 | .key => 33 | .i64 => 8 | _ => 0) + minLen fs

theorem encFields_length_ge (d : Defects) : ∀ (l : Layout) (r : Row), rowOk l r = true →
    minLen l ≤ (encFields d l r).length
  | [], [], _ => by simp [minLen]
  | [], _ :: _, h => by simp [rowOk] at h
  | _ :: _, [], h => by simp [rowOk] at h
  | f :: fs, v :: vs, h => by
    simp only [rowOk, Bool.and_eq_true] at h
    have ih := encFields_length_ge d fs vs h.2
    simp only [minLen, encFields, List.length_append]
    have : (match f.ty with | .uid => 16 | .fixed32 => 32 | .key => 33 | .i64 => 8 | _ => 0) ≤ (encVal d f.ty v).length := by
      have h1 := h.1
      cases hty : f.ty <;> rw [hty] at h1 <;> cases v <;> simp only [valOk, Bool.false_eq_true] at h1 <;>
        simp_all [encVal, i64le_length]
    omega

/-! ### signing sets the key, verification reads it back -/

theorem rowKey_none_of_no_key : ∀ (l : Layout) (r : Row), ¬ (l.any (fun f => f.ty == .key) = true) →
    rowKey l r = none
  | [], _, _ => by simp [rowKey]
  | _ :: _, [], _ => by simp [rowKey]
  | f :: fs, v :: vs, h => by
    simp only [List.any_cons, Bool.or_eq_true, beq_iff_eq, not_or] at h
    simp only [rowKey, rowKey_none_of_no_key fs vs h.2]
    cases hty : f.ty <;> simp_all

theorem rowKey_setKey (sk : Bytes) : ∀ (l : Layout) (r : Row), rowOk l r = true →
    l.any (fun f => f.ty == .key) = true → rowKey l (setKey sk l r) = some sk
  | [], _, _, h => by simp at h
  | _ :: _, [], h, _ => by simp [rowOk] at h
  | f :: fs, v :: vs, h, ha => by
    simp only [rowOk, Bool.and_eq_true] at h
    simp only [setKey, rowKey]
    by_cases hfs : fs.any (fun f => f.ty == .key) = true
    · rw [rowKey_setKey sk fs vs h.2 hfs]
    · simp only [List.any_cons, Bool.or_eq_true, hfs, beq_iff_eq] at ha
      have hty : f.ty = .key := by simpa using ha
      simp [rowKey_none_of_no_key fs _ hfs, hty]

end Discret.Digest
