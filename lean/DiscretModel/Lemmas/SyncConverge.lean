import DiscretModel.Lemmas.SyncOrder
/-
Convergence of any number of replicas under any sequence of pairwise pulls, when a pull is the join.
-/
namespace Discret.SyncOrder

/-- the join of a family of replicas -/
def joinAll : List ARep → ARep
  | [] => ARep.empty
  | a :: t => join a (joinAll t)

theorem empty_wf : ARep.empty.WF := by intro i h; simp [ARep.empty] at h

theorem joinAll_wf (l : List ARep) : (joinAll l).WF := by
  cases l with
  | nil => exact empty_wf
  | cons a t => exact join_wf _ _

theorem le_joinAll {l : List ARep} (hw : ∀ x ∈ l, x.WF) {x : ARep} (hx : x ∈ l) : le x (joinAll l) := by
  induction l with
  | nil => cases hx
  | cons a t ih =>
    rcases List.mem_cons.mp hx with e | e
    · subst e; exact le_join_left (hw x List.mem_cons_self) _
    · exact le_trans' (ih (fun y hy => hw y (List.mem_cons_of_mem _ hy)) e) (le_join_right (joinAll_wf t) a)

theorem joinAll_le {l : List ARep} {c : ARep} (hc : c.WF) (h : ∀ x ∈ l, le x c) : le (joinAll l) c := by
  induction l with
  | nil => exact join_empty_left hc
  | cons a t ih =>
    exact join_le (h a List.mem_cons_self) (ih (fun y hy => h y (List.mem_cons_of_mem _ hy)))

/-- the join of a family does not depend on the order in which its members are taken -/
theorem joinAll_perm {l1 l2 : List ARep} (h : l1.Perm l2) : joinAll l1 = joinAll l2 := by
  induction h with
  | nil => rfl
  | cons a _ ih => simp only [joinAll, ih]
  | swap a b l => simp only [joinAll]; rw [← join_assoc, ← join_assoc, join_comm b a]
  | trans _ _ ih1 ih2 => exact ih1.trans ih2

/-! ### a network of replicas -/

abbrev Net := List ARep

def Net.at (s : Net) (i : Nat) : ARep := s.getD i ARep.empty

/-- `dst ← src` when a pull is the join -/
def Net.pull (s : Net) (dst src : Nat) : Net := s.set dst (join (s.at dst) (s.at src))

def Net.run (s : Net) : List (Nat × Nat) → Net
  | [] => s
  | (d, r) :: t => Net.run (s.pull d r) t

/-- a full round of all ordered pairs changes nothing -/
def Net.Quiet (s : Net) : Prop := ∀ i j, i < s.length → j < s.length → join (s.at i) (s.at j) = s.at i

theorem Net.pull_length (s : Net) (d r : Nat) : (s.pull d r).length = s.length := by
  simp [Net.pull]

theorem Net.run_length (s : Net) (sched : List (Nat × Nat)) : (s.run sched).length = s.length := by
  induction sched generalizing s with
  | nil => rfl
  | cons x t ih => obtain ⟨d, r⟩ := x; simp only [Net.run]; rw [ih, Net.pull_length]

theorem Net.at_pull (s : Net) (d r i : Nat) :
    (s.pull d r).at i = if i = d ∧ d < s.length then join (s.at d) (s.at r) else s.at i := by
  unfold Net.pull Net.at
  by_cases h : i = d
  · subst h
    by_cases hl : i < s.length
    · simp [hl, List.getD_eq_getElem?_getD]
    · simp [hl, List.getD_eq_getElem?_getD]
  · have h' : ¬ d = i := fun e => h e.symm
    simp [h, List.getD_eq_getElem?_getD, List.getElem?_set_ne h']

/-- **quiescence ⇒ agreement**: if a full round changes nothing, all replicas are equal -/
theorem Net.quiet_all_equal {s : Net} (h : s.Quiet) {i j : Nat} (hi : i < s.length) (hj : j < s.length) :
    s.at i = s.at j := by
  rw [← h i j hi hj, join_comm, h j i hj hi]

/-- between converged replicas a further pull transfers nothing -/
theorem Net.quiet_pull_noop {s : Net} (h : s.Quiet) {i j : Nat} (hi : i < s.length) (hj : j < s.length) :
    s.pull i j = s := by
  unfold Net.pull
  rw [h i j hi hj]
  unfold Net.at
  apply List.ext_getElem?
  intro k
  by_cases hk : k = i
  · subst hk; simp [hi, List.getD_eq_getElem?_getD]
  · have : ¬ i = k := fun e => hk e.symm
    simp [List.getElem?_set_ne this]

/-- along any schedule every replica stays between its initial state and the join of all initial states -/
theorem Net.run_bounds {s0 : Net} (sched : List (Nat × Nat)) :
    ∀ s : Net, s.length = s0.length →
      (∀ i, i < s0.length → le (s0.at i) (s.at i) ∧ le (s.at i) (joinAll s0) ∧ (s.at i).WF) →
      ∀ i, i < s0.length →
        le (s0.at i) ((s.run sched).at i) ∧ le ((s.run sched).at i) (joinAll s0) ∧ ((s.run sched).at i).WF := by
  induction sched with
  | nil => intro s _ h; exact h
  | cons x t ih =>
    obtain ⟨d, r⟩ := x
    intro s hl h i hi
    simp only [Net.run]
    refine ih (s.pull d r) (by rw [Net.pull_length, hl]) ?_ i hi
    intro k hk
    rw [Net.at_pull]
    split
    · rename_i hc
      obtain ⟨e, hd⟩ := hc
      subst e
      obtain ⟨a1, a2, a3⟩ := h k hk
      have hr : le (s.at r) (joinAll s0) ∧ (s.at r).WF := by
        by_cases hr : r < s0.length
        · exact ⟨(h r hr).2.1, (h r hr).2.2⟩
        · have : s.at r = ARep.empty := by
            unfold Net.at
            rw [List.getD_eq_getElem?_getD, List.getElem?_eq_none (by omega)]
            rfl
          rw [this]
          exact ⟨join_empty_left (joinAll_wf s0), empty_wf⟩
      exact ⟨le_trans' a1 (le_join_left a3 _), join_le a2 hr.1, join_wf _ _⟩
    · exact h k hk

theorem Net.at_mem {s : Net} {i : Nat} (hi : i < s.length) : s.at i ∈ s := by
  unfold Net.at
  rw [List.getD_eq_getElem?_getD, List.getElem?_eq_getElem hi]
  exact List.getElem_mem hi

/-- **convergence**: whatever the schedule, once a full round changes nothing every replica holds the join of
    all initial replicas — the same state for every order of the pulls -/
theorem Net.quiet_is_joinAll {s0 : Net} (hw : ∀ x ∈ s0, x.WF) (sched : List (Nat × Nat))
    (hq : (s0.run sched).Quiet) {i : Nat} (hi : i < s0.length) : (s0.run sched).at i = joinAll s0 := by
  have hb := Net.run_bounds sched s0 rfl (fun k hk =>
    ⟨le_refl' (hw _ (Net.at_mem hk)), le_joinAll hw (Net.at_mem hk), hw _ (Net.at_mem hk)⟩)
  have hlen := Net.run_length s0 sched
  apply le_antisymm (hb i hi).2.1
  refine joinAll_le (hb i hi).2.2 ?_
  intro x hx
  obtain ⟨k, hk, rfl⟩ := List.getElem_of_mem hx
  have e : s0[k] = s0.at k := by
    unfold Net.at; rw [List.getD_eq_getElem?_getD, List.getElem?_eq_getElem hk]; rfl
  rw [e]
  have := Net.quiet_all_equal hq (i := i) (j := k) (by rw [hlen]; exact hi) (by rw [hlen]; exact hk)
  rw [this]
  exact (hb k hk).1

/-! ### what the join shows for one row -/

theorem joinAll_dead (l : List ARep) (i : Nat) : (joinAll l).dead i = l.any (fun x => x.dead i) := by
  induction l with
  | nil => rfl
  | cons a t ih => simp [joinAll, join, ih]

/-- a deleted row is shown nowhere; otherwise the version shown is one of the versions held by some replica
    and is at least every version held by any replica: the maximum for `(mdate, signature)` -/
theorem joinAll_ver (l : List ARep) (hw : ∀ x ∈ l, x.WF) (i : Nat) :
    ((joinAll l).dead i = true → (joinAll l).ver i = none) ∧
    ((joinAll l).dead i = false →
      (∀ w, (joinAll l).ver i = some w → ∃ x ∈ l, x.ver i = some w) ∧
      (∀ x ∈ l, ∀ v, x.ver i = some v → ∃ w, (joinAll l).ver i = some w ∧ vle v w)) := by
  refine ⟨fun h => joinAll_wf l i h, ?_⟩
  induction l with
  | nil => intro _; simp [joinAll, ARep.empty]
  | cons a t ih =>
    intro hd
    have hd' : a.dead i = false ∧ (joinAll t).dead i = false := by
      simp only [joinAll, join, Bool.or_eq_false_iff] at hd; exact hd
    obtain ⟨i1, i2⟩ := ih (fun x hx => hw x (List.mem_cons_of_mem _ hx)) hd'.2
    have hv : (joinAll (a :: t)).ver i = merge (a.ver i) ((joinAll t).ver i) := by
      simp [joinAll, join, hd'.1, hd'.2]
    rw [hv]
    refine ⟨?_, ?_⟩
    · intro w hw'
      cases ha : a.ver i with
      | none =>
        rw [ha, merge_none_left] at hw'
        obtain ⟨x, hx, e⟩ := i1 w hw'
        exact ⟨x, List.mem_cons_of_mem _ hx, e⟩
      | some va =>
        cases ht : (joinAll t).ver i with
        | none =>
          rw [ha, ht] at hw'
          simp only [merge, Option.some.injEq] at hw'
          exact ⟨a, List.mem_cons_self, by rw [ha, hw']⟩
        | some vt =>
          rw [ha, ht] at hw'
          simp only [merge, Option.some.injEq] at hw'
          unfold vmax at hw'
          split at hw'
          · obtain ⟨x, hx, e⟩ := i1 vt ht
            exact ⟨x, List.mem_cons_of_mem _ hx, by rw [e, hw']⟩
          · exact ⟨a, List.mem_cons_self, by rw [ha, hw']⟩
    · intro x hx v hxv
      rcases List.mem_cons.mp hx with e | e
      · subst e
        rw [hxv]
        cases ht : (joinAll t).ver i with
        | none => exact ⟨v, rfl, vle_refl v⟩
        | some vt => exact ⟨vmax v vt, rfl, vle_vmax_left _ _⟩
      · obtain ⟨w, e1, e2⟩ := i2 x e v hxv
        rw [e1]
        cases ha : a.ver i with
        | none => exact ⟨w, rfl, e2⟩
        | some va => exact ⟨vmax va w, rfl, vle_trans e2 (vle_vmax_right _ _)⟩

end Discret.SyncOrder
