import DiscretModel.Lemmas.RoomSite
/-
Import on top of an earlier version (`prepare_room_with_history`): when everything the importer stores for the
room is contained in the candidate (`Covers`), the merged definition holds the candidate's rows, list by list.
-/
namespace Discret.RoomBuild
open Discret.Room

/-- every row of `old` occurs (by id) in `cand` -/
def CoversU (cand old : List UserRow) : Prop := ∀ o ∈ old, cand.any (fun c => c.id = o.id) = true
def CoversR (cand old : List RightRow) : Prop := ∀ o ∈ old, cand.any (fun c => c.id = o.id) = true

structure CoversG (c o : GroupRow) : Prop where
  users : CoversU c.users o.users
  userAdmins : CoversU c.userAdmins o.userAdmins
  rights : CoversR c.rights o.rights

/-- the importer holds an earlier version: each of its rows is in the candidate, each of its groups too -/
structure Covers (cand old : RoomRow) : Prop where
  admins : CoversU cand.admins old.admins
  groups : ∀ o ∈ old.groups, ∃ c ∈ cand.groups, c.gid = o.gid ∧ CoversG c o

/-- boolean form of `Covers`, for concrete instances -/
def coversB (cand old : RoomRow) : Bool :=
  old.admins.all (fun o => cand.admins.any fun c => c.id = o.id) &&
  old.groups.all fun o => cand.groups.any fun c =>
    c.gid = o.gid &&
    o.users.all (fun x => c.users.any fun y => y.id = x.id) &&
    o.userAdmins.all (fun x => c.userAdmins.any fun y => y.id = x.id) &&
    o.rights.all (fun x => c.rights.any fun y => y.id = x.id)

theorem covers_of_bool {cand old : RoomRow} (h : coversB cand old = true) : Covers cand old := by
  simp only [coversB, Bool.and_eq_true, List.all_eq_true, List.any_eq_true, decide_eq_true_eq] at h
  refine ⟨?_, ?_⟩
  · intro o ho
    obtain ⟨c, hc, e⟩ := h.1 o ho
    exact List.any_eq_true.mpr ⟨c, hc, by simp [e]⟩
  · intro o ho
    obtain ⟨c, hc, ⟨⟨⟨hg, hu⟩, hua⟩, hr⟩⟩ := h.2 o ho
    refine ⟨c, hc, hg, ⟨?_, ?_, ?_⟩⟩
    · intro x hx; obtain ⟨y, hy, e⟩ := hu x hx; exact List.any_eq_true.mpr ⟨y, hy, by simp [e]⟩
    · intro x hx; obtain ⟨y, hy, e⟩ := hua x hx; exact List.any_eq_true.mpr ⟨y, hy, by simp [e]⟩
    · intro x hx; obtain ⟨y, hy, e⟩ := hr x hx; exact List.any_eq_true.mpr ⟨y, hy, by simp [e]⟩

theorem mergeUsers_covered {old cand l : List UserRow} (hc : CoversU cand old) (h : mergeUsers old cand = .ok l) :
    l = cand := by
  unfold mergeUsers at h
  split at h
  · cases h
  · cases h
    have : (old.filter fun o => !cand.any fun c => c.id = o.id) = [] := by
      rw [List.filter_eq_nil_iff]
      intro o ho
      simp [hc o ho]
    rw [this, List.append_nil]

theorem mergeRights_covered {old cand l : List RightRow} (hc : CoversR cand old) (h : mergeRights old cand = .ok l) :
    l = cand := by
  unfold mergeRights at h
  split at h
  · cases h
  · cases h
    have : (old.filter fun o => !cand.any fun c => c.id = o.id) = [] := by
      rw [List.filter_eq_nil_iff]
      intro o ho
      simp [hc o ho]
    rw [this, List.append_nil]

/-- same group, same rows list by list (in any order) -/
def GroupSame (g h : GroupRow) : Prop :=
  h.gid = g.gid ∧ g.users.Perm h.users ∧ g.userAdmins.Perm h.userAdmins ∧ g.rights.Perm h.rights

theorem GroupSame.refl (g : GroupRow) : GroupSame g g := ⟨rfl, .refl _, .refl _, .refl _⟩

theorem GroupSame.trans {a b c : GroupRow} (h1 : GroupSame a b) (h2 : GroupSame b c) : GroupSame a c :=
  ⟨h2.1.trans h1.1, h1.2.1.trans h2.2.1, h1.2.2.1.trans h2.2.2.1, h1.2.2.2.trans h2.2.2.2⟩

theorem prepareAuthWithHistory_same {room : Room} {o c g : GroupRow} {n : Bool} (hc : CoversG c o)
    (h : prepareAuthWithHistory room o c = .ok (g, n)) : GroupSame g c := by
  unfold prepareAuthWithHistory at h
  split at h
  · cases h
  · split at h
    · cases h
    · rename_i uas huas
      try simp only at h
      split at h
      · cases h
      · split at h
        · cases h
        · rename_i users husers
          try simp only at h
          split at h
          · cases h
          · split at h
            · cases h
            · rename_i rights hrights
              try simp only at h
              split at h
              · cases h
              · simp only [Except.ok.injEq, Prod.mk.injEq] at h
                obtain ⟨rfl, _⟩ := h
                have e1 := mergeUsers_covered hc.userAdmins huas
                have e2 := mergeUsers_covered hc.users husers
                have e3 := mergeRights_covered hc.rights hrights
                subst e1; subst e2; subst e3
                exact ⟨rfl, sortUsers_perm false c.users, sortUsers_perm false c.userAdmins, sortRights_perm false c.rights⟩

/-- pointwise `GroupSame` -/
abbrev GroupsSame (l₁ l₂ : List GroupRow) : Prop := Forall2 GroupSame l₁ l₂

theorem groupsSame_refl (l : List GroupRow) : GroupsSame l l := by
  induction l with
  | nil => exact Forall2.nil
  | cons g t ih => exact Forall2.cons (GroupSame.refl g) ih

theorem groupsSame_gids {l₁ l₂ : List GroupRow} (h : GroupsSame l₁ l₂) : l₁.map (·.gid) = l₂.map (·.gid) := by
  induction h with
  | nil => rfl
  | cons hab _ ih => simp [hab.1, ih]

/-- replacing the elements of one gid by a group that is `GroupSame` to the element found keeps the list
    pointwise the same, when that gid occurs once -/
theorem groupsSame_replace {acc cand : List GroupRow} (hs : GroupsSame acc cand)
    (hn : (cand.map (·.gid)).Nodup) {gid : Id} {c g : GroupRow} (hf : acc.find? (·.gid = gid) = some c)
    (hg : GroupSame g c) : GroupsSame (acc.map fun x => if x.gid = gid then g else x) cand := by
  have hcg : c.gid = gid := by simpa using List.find?_some hf
  induction hs with
  | nil => exact Forall2.nil
  | @cons a b l1 l2 hab hrest ih =>
    simp only [List.map_cons, List.nodup_cons] at hn
    simp only [List.map_cons]
    simp only [List.find?] at hf
    by_cases ha : a.gid = gid
    · simp only [ha, decide_true, Option.some.injEq] at hf
      subst hf
      simp only [ha, if_true]
      refine Forall2.cons (hg.trans hab) ?_
      -- no other element carries that gid
      have hno : ∀ x ∈ l1, x.gid ≠ gid := by
        intro x hx e
        have : x.gid ∈ l1.map (·.gid) := List.mem_map.mpr ⟨x, hx, rfl⟩
        rw [groupsSame_gids hrest] at this
        have hb : b.gid = gid := by rw [hab.1]; exact ha
        rw [e, ← hb] at this
        exact hn.1 this
      have : (l1.map fun x => if x.gid = gid then g else x) = l1 := by
        conv => rhs; rw [← List.map_id l1]
        apply List.map_congr_left
        intro x hx; simp [hno x hx]
      rw [this]; exact hrest
    · simp only [ha, decide_false] at hf
      simp only [ha, if_false]
      exact Forall2.cons hab (ih hn.2 hf)

theorem find_of_groupsSame {acc cand : List GroupRow} (hs : GroupsSame acc cand) {gid : Id} {c0 : GroupRow}
    (hc0 : c0 ∈ cand) (hg : c0.gid = gid) (hn : (cand.map (·.gid)).Nodup) :
    ∃ c, acc.find? (·.gid = gid) = some c ∧ GroupSame c c0 := by
  induction hs with
  | nil => cases hc0
  | @cons a b l1 l2 hab hrest ih =>
    simp only [List.map_cons, List.nodup_cons] at hn
    simp only [List.find?]
    rcases List.mem_cons.mp hc0 with rfl | hc0
    · have : a.gid = gid := by rw [← hab.1]; exact hg
      exact ⟨a, by simp [this], hab⟩
    · have hne : ¬ a.gid = gid := by
        intro e
        have : b.gid = c0.gid := by rw [hab.1, e, hg]
        exact hn.1 (List.mem_map.mpr ⟨c0, hc0, this.symm⟩)
      simp only [hne, decide_false]
      exact ih hc0 hn.2

theorem coversG_of_same {c c0 o : GroupRow} (hs : GroupSame c c0) (hc : CoversG c0 o) : CoversG c o := by
  refine ⟨?_, ?_, ?_⟩
  · intro x hx
    obtain ⟨y, hy, hye⟩ := List.any_eq_true.mp (hc.users x hx)
    exact List.any_eq_true.mpr ⟨y, hs.2.1.mem_iff.mpr hy, hye⟩
  · intro x hx
    obtain ⟨y, hy, hye⟩ := List.any_eq_true.mp (hc.userAdmins x hx)
    exact List.any_eq_true.mpr ⟨y, hs.2.2.1.mem_iff.mpr hy, hye⟩
  · intro x hx
    obtain ⟨y, hy, hye⟩ := List.any_eq_true.mp (hc.rights x hx)
    exact List.any_eq_true.mpr ⟨y, hs.2.2.2.mem_iff.mpr hy, hye⟩

/-- the loop over the importer's groups: under coverage every group is found in the candidate and replaced by
    a group with the candidate's rows -/
theorem mergeOldGroups_same {room : Room} {cand0 : List GroupRow} {olds acc res : List GroupRow} {need need' : Bool}
    (hs : GroupsSame acc cand0) (hn : (cand0.map (·.gid)).Nodup)
    (hcov : ∀ o ∈ olds, ∃ c ∈ cand0, c.gid = o.gid ∧ CoversG c o) {candArg : List GroupRow}
    (h : mergeOldGroups room candArg olds acc need = .ok (res, need')) : GroupsSame res cand0 := by
  induction olds generalizing acc need with
  | nil => simp only [mergeOldGroups, Except.ok.injEq, Prod.mk.injEq] at h; rw [← h.1]; exact hs
  | cons o t ih =>
    obtain ⟨c0, hc0, hgid, hcg⟩ := hcov o (List.mem_cons_self ..)
    obtain ⟨c, hfind, hsame⟩ := find_of_groupsSame hs hc0 hgid hn
    have hcov' : ∀ o ∈ t, ∃ c ∈ cand0, c.gid = o.gid ∧ CoversG c o :=
      fun x hx => hcov x (List.mem_cons_of_mem _ hx)
    simp only [mergeOldGroups, hfind] at h
    split at h
    · split at h
      · cases h
      · split at h
        · cases h
        · rename_i g n1 hp
          have hgs := prepareAuthWithHistory_same (coversG_of_same hsame hcg) hp
          exact ih (groupsSame_replace hs hn hfind hgs) hcov' h
    · split at h
      · cases h
      · rename_i g n1 hp
        have hcg' : CoversG { c with mdate := o.mdate, author := o.author } o := by
          have := coversG_of_same hsame hcg
          exact ⟨this.users, this.userAdmins, this.rights⟩
        have hgs := prepareAuthWithHistory_same hcg' hp
        have hgs' : GroupSame g c := ⟨hgs.1, hgs.2.1, hgs.2.2.1, hgs.2.2.2⟩
        exact ih (groupsSame_replace hs hn hfind hgs') hcov' h

theorem sameRows_of_groupsSame {x y : RoomRow} (ha : x.admins.Perm y.admins) (hg : GroupsSame x.groups y.groups) :
    SameRows x y := by
  refine ⟨ha, ?_, ?_⟩
  · intro g hgm
    obtain ⟨h, hh, hs⟩ := forall₂_mem_left hg g hgm
    exact ⟨h, hh, hs.1, hs.2.1, hs.2.2.1, hs.2.2.2⟩
  · intro h hh
    obtain ⟨g, hgm, hs⟩ := forall₂_mem_right hg h hh
    exact ⟨g, hgm, hs.1, hs.2.1, hs.2.2.1, hs.2.2.2⟩

/-- **import on top of an earlier version.** When the candidate covers what the importer holds, the merged
    definition that is stored and parsed holds the candidate's rows, list by list. -/
theorem roomRowCheck_ok {room : Room} {old cand c' : RoomRow} (h : roomRowCheck room old cand = .ok c') :
    c'.rid = cand.rid ∧ c'.admins = cand.admins ∧ c'.groups = cand.groups := by
  unfold roomRowCheck at h
  split at h
  · cases h; exact ⟨rfl, rfl, rfl⟩
  · split at h
    · split at h
      · cases h; exact ⟨rfl, rfl, rfl⟩
      · cases h
    · cases h; exact ⟨rfl, rfl, rfl⟩

theorem prepareLists_sameRows {df : Defects} {room : Room} {old cand merged : RoomRow} {need : Bool}
    (hcov : Covers cand old) (hn : (cand.groups.map (·.gid)).Nodup)
    (h : prepareLists df room old cand = .ok (need, merged)) : SameRows merged cand := by
  unfold prepareLists at h
  split at h
  · cases h
  · rename_i admins hadm
    simp only at h
    split at h
    · cases h
    · split at h
      · cases h
      · rename_i groups need2 hmg
        split at h
        · cases h
        · split at h
          · cases h
          · simp only [Except.ok.injEq, Prod.mk.injEq] at h
            obtain ⟨_, rfl⟩ := h
            have e := mergeUsers_covered hcov.admins hadm
            subst e
            exact sameRows_of_groupsSame (x := { cand with admins := sortUsers false cand.admins, groups })
              (sortUsers_perm false cand.admins) (mergeOldGroups_same (groupsSame_refl _) hn hcov.groups hmg)

theorem prepareLists_rid {df : Defects} {room : Room} {old cand merged : RoomRow} {need : Bool}
    (h : prepareLists df room old cand = .ok (need, merged)) : merged.rid = cand.rid := by
  unfold prepareLists at h
  split at h
  · cases h
  · simp only at h
    split at h
    · cases h
    · split at h
      · cases h
      · split at h
        · cases h
        · split at h
          · cases h
          · simp only [Except.ok.injEq, Prod.mk.injEq] at h
            rw [← h.2]

/-- **import on top of an earlier version**: the merged definition holds the candidate's rows and keeps its id -/
theorem prepareWithHistory_sameRows {df : Defects} {room : Room} {old cand merged : RoomRow} {need : Bool}
    (hcov : Covers cand old) (hn : (cand.groups.map (·.gid)).Nodup)
    (h : prepareWithHistory df room old cand = .ok (need, merged)) :
    SameRows merged cand ∧ merged.rid = cand.rid := by
  unfold prepareWithHistory at h
  split at h
  · cases h
  · rename_i c' hc
    obtain ⟨e1, e2, e3⟩ := roomRowCheck_ok hc
    have hcov' : Covers c' old := ⟨by rw [e2]; exact hcov.admins, by rw [e3]; exact hcov.groups⟩
    have hs := prepareLists_sameRows hcov' (by rw [e3]; exact hn) h
    refine ⟨?_, (prepareLists_rid h).trans e1⟩
    exact ⟨by rw [← e2]; exact hs.admins, by rw [← e3]; exact hs.fwd, by rw [← e3]; exact hs.bwd⟩

theorem exportRoom_gids_nodup {df : Defects} {rr : RoomRow} (hn : (rr.groups.map (·.gid)).Nodup) :
    ((exportRoom df rr).groups.map (·.gid)).Nodup := by
  have hp : ((exportRoom df rr).groups.map (·.gid)).Perm (rr.groups.map (·.gid)) := by
    have h1 : (exportRoom df rr).groups.Perm (rr.groups.map (sortGroup df.newestFirstReplay (.uid df.uidOrderReversed))) :=
      byTie_perm _ _ _
    have h2 := h1.map (·.gid)
    have h3 : (rr.groups.map (sortGroup df.newestFirstReplay (.uid df.uidOrderReversed))).map (·.gid)
        = rr.groups.map (·.gid) := by
      rw [List.map_map]; apply List.map_congr_left; intro g _; rfl
    rw [h3] at h2; exact h2
  exact hp.nodup_iff.mpr hn

end Discret.RoomBuild
