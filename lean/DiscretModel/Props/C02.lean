import DiscretModel.Lemmas.IngestDay
/-
C02 — rows received from peers are stored only if their author had the right.

Model: `Model/Ingest.lean` (one call of `synchronise_day`: reference deletion records, node deletion
records, announced ids → `filter_existing` → bodies → `add_nodes`/`validate_node`, references →
`add_edges`), over the shared room model. The statement predicates (`NodeOk`, `EdgeOk`, `NodeDelOk`,
`EdgeDelOk`) are in `Lemmas/IngestSpec.lean`. `st1`/`st2`/`st3` are the tables after the reference
deletions / node deletions / rows of the same day: a record is judged against the tables its stage sees.
All statements hold for every instance state, every set of room definitions and every batch — no bound.
-/
namespace Discret.Ingest
open Discret.Room (Key Ent RightType)

/-! ## 1. the full statement, for the intended checks (`Defects.none`) -/

/-- **C02 (rows).** After a synchronised day, every row that is in `_node` and was not before is a
    received row with a valid signature, naming the synchronised room, of a known entity, conforming,
    within the size limit, whose author holds the needed right in that room at the row's own date
    (`MutateAll` when it overwrites another author's row), and — when it overwrites a row of
    another room — the same right in that room as well. Every row that disappeared was deleted by
    an entitled deletion record naming its room and id, or overwritten by such a row. -/
theorem C02_rows (s : Inst) (room : Nat) (b : Batch) (hn : NodupIds s.nodes) :
    (∀ x ∈ (syncDay Defects.none s room b).1.nodes, x ∉ s.nodes →
      ∃ n ∈ b.nodes, n.row = x ∧ NodeOk (st2 Defects.none s room b) room n) ∧
    (∀ x ∈ s.nodes, x ∉ (syncDay Defects.none s room b).1.nodes →
      (∃ r ∈ b.nodeDels, x.room = some r.entry.room ∧ x.id = r.entry.id ∧
        NodeDelOk (st1 Defects.none s room b) room r) ∨
      (∃ n ∈ b.nodes, n.row.id = x.id ∧ localRow (st2 Defects.none s room b).nodes n.row.id = some x ∧
        NodeOk (st2 Defects.none s room b) room n)) := by
  constructor
  · intro x hx hnew
    obtain ⟨n, hn', hrow, hok⟩ := day_new_rows hx hnew
    exact ⟨n, hn', hrow, hok.none_ok⟩
  · intro x hx hgone
    rcases day_removed_rows hn hx hgone with ⟨r, hr, h1, h2, hok⟩ | ⟨n, hn', h1, h2, hok⟩
    · exact Or.inl ⟨r, hr, h1, h2, hok.none_ok⟩
    · exact Or.inr ⟨n, hn', h1, h2, hok.none_ok⟩

/-- **C02 (references).** Every reference that appeared is a received reference with a valid
    signature whose source row is a local row of the synchronised room and of the entity it names,
    and whose author holds the right on that entity at the reference's date — `MutateAll` when it
    replaces a reference (`prev`) of another author. Every reference that disappeared was deleted
    by an entitled record of the synchronised room matching it, or replaced by such a reference. -/
theorem C02_references (s : Inst) (room : Nat) (b : Batch) :
    (∀ x ∈ (syncDay Defects.none s room b).1.edges, x ∉ s.edges →
      ∃ e ∈ b.edges, e.row = x ∧ ∃ prev, EdgeOk (st3 Defects.none s room b) room prev e ∧
        ∀ p, prev = some p → edgeKeyEq e.row p = true) ∧
    (∀ x ∈ s.edges, x ∉ (syncDay Defects.none s room b).1.edges →
      (∃ r ∈ b.edgeDels, edgeMatches r.entry x = true ∧ EdgeDelOk s room r) ∨
      (∃ e ∈ b.edges, edgeKeyEq e.row x = true ∧ ∃ p, edgeKeyEq e.row p = true ∧
        EdgeOk (st3 Defects.none s room b) room (some p) e)) := by
  constructor
  · intro x hx hnew
    obtain ⟨e, he, hrow, prev, hok, hp⟩ := day_new_refs hx hnew
    exact ⟨e, he, hrow, prev, hok.none_ok, fun p h => (hp p h).1⟩
  · intro x hx hgone
    rcases day_removed_refs hx hgone with ⟨r, hr, hm, hok⟩ | ⟨e, he, hk, p, hp, hok, _⟩
    · exact Or.inl ⟨r, hr, hm, hok.none_ok⟩
    · exact Or.inr ⟨e, he, hk, p, hp, hok.none_ok⟩

/-- **C02 (deletion logs).** The deletion logs only gain validly signed records of the synchronised
    room whose author held the needed right at the deletion date. A node deletion record is judged against the tables
    at its turn (`Turn`: the room definitions of the stage; of its rows, those that earlier records of the same answer
    have not deleted — since /repo a395f05 every record of an answer is applied, a second record for a row that the
    first one deleted needs the own-rows right only: it deletes nobody's row). -/
theorem C02_deletion_logs (s : Inst) (room : Nat) (b : Batch) :
    (∀ t ∈ (syncDay Defects.none s room b).1.nodeLog, t ∉ s.nodeLog →
      ∃ r ∈ b.nodeDels, r.entry = t ∧ ∃ si, Turn (st1 Defects.none s room b) si ∧ NodeDelOk si room r) ∧
    (∀ t ∈ (syncDay Defects.none s room b).1.edgeLog, t ∉ s.edgeLog →
      ∃ r ∈ b.edgeDels, r.entry = t ∧ EdgeDelOk s room r) := by
  constructor
  · intro t ht hnew
    obtain ⟨r, hr, he, si, hti, hok⟩ := day_new_node_log ht hnew
    exact ⟨r, hr, he, si, hti, hok.none_ok⟩
  · intro t ht hnew
    obtain ⟨r, hr, he, hok⟩ := day_new_edge_log ht hnew
    exact ⟨r, hr, he, hok.none_ok⟩

/-! ## 1b. the full statement for any setting of the switches, per kind of record

`Defects.rowsChecked d` / `Defects.refsChecked d`: the checks that bear on rows and node deletion records /
on references and reference deletion records are all in place. The statements are those of section 1, word for word.
They apply to `Defects.asImplemented` as soon as its switches of that kind are off (`by decide`), without any guard. -/

/-- **C02 (rows), for every setting of the switches in which the row checks are in place.** -/
theorem C02_rows_when (d : Defects) (c : d.rowsChecked = true) (s : Inst) (room : Nat) (b : Batch) (hn : NodupIds s.nodes) :
    (∀ x ∈ (syncDay d s room b).1.nodes, x ∉ s.nodes →
      ∃ n ∈ b.nodes, n.row = x ∧ NodeOk (st2 d s room b) room n) ∧
    (∀ x ∈ s.nodes, x ∉ (syncDay d s room b).1.nodes →
      (∃ r ∈ b.nodeDels, x.room = some r.entry.room ∧ x.id = r.entry.id ∧
        NodeDelOk (st1 d s room b) room r) ∨
      (∃ n ∈ b.nodes, n.row.id = x.id ∧ localRow (st2 d s room b).nodes n.row.id = some x ∧
        NodeOk (st2 d s room b) room n)) ∧
    (∀ t ∈ (syncDay d s room b).1.nodeLog, t ∉ s.nodeLog →
      ∃ r ∈ b.nodeDels, r.entry = t ∧ ∃ si, Turn (st1 d s room b) si ∧ NodeDelOk si room r) := by
  refine ⟨?_, ?_, ?_⟩
  · intro x hx hnew
    obtain ⟨n, hn', hrow, hok⟩ := day_new_rows hx hnew
    exact ⟨n, hn', hrow, hok.of_checked c⟩
  · intro x hx hgone
    rcases day_removed_rows hn hx hgone with ⟨r, hr, h1, h2, hok⟩ | ⟨n, hn', h1, h2, hok⟩
    · exact Or.inl ⟨r, hr, h1, h2, hok.of_checked c⟩
    · exact Or.inr ⟨n, hn', h1, h2, hok.of_checked c⟩
  · intro t ht hnew
    obtain ⟨r, hr, he, si, hti, hok⟩ := day_new_node_log ht hnew
    exact ⟨r, hr, he, si, hti, hok.of_checked c⟩

/-- **C02 (references), for every setting of the switches in which the reference checks are in place.** -/
theorem C02_references_when (d : Defects) (c : d.refsChecked = true) (s : Inst) (room : Nat) (b : Batch) :
    (∀ x ∈ (syncDay d s room b).1.edges, x ∉ s.edges →
      ∃ e ∈ b.edges, e.row = x ∧ ∃ prev, EdgeOk (st3 d s room b) room prev e ∧
        ∀ p, prev = some p → edgeKeyEq e.row p = true) ∧
    (∀ x ∈ s.edges, x ∉ (syncDay d s room b).1.edges →
      (∃ r ∈ b.edgeDels, edgeMatches r.entry x = true ∧ EdgeDelOk s room r) ∨
      (∃ e ∈ b.edges, edgeKeyEq e.row x = true ∧ ∃ p, edgeKeyEq e.row p = true ∧
        EdgeOk (st3 d s room b) room (some p) e)) ∧
    (∀ t ∈ (syncDay d s room b).1.edgeLog, t ∉ s.edgeLog →
      ∃ r ∈ b.edgeDels, r.entry = t ∧ EdgeDelOk s room r) := by
  refine ⟨?_, ?_, ?_⟩
  · intro x hx hnew
    obtain ⟨e, he, hrow, prev, hok, hp⟩ := day_new_refs hx hnew
    exact ⟨e, he, hrow, prev, hok.of_checked c, fun p h => (hp p h).1⟩
  · intro x hx hgone
    rcases day_removed_refs hx hgone with ⟨r, hr, hm, hok⟩ | ⟨e, he, hk, p, hp, hok, _⟩
    · exact Or.inl ⟨r, hr, hm, hok.of_checked c⟩
    · exact Or.inr ⟨e, he, hk, p, hp, hok.of_checked c⟩
  · intro t ht hnew
    obtain ⟨r, hr, he, hok⟩ := day_new_edge_log ht hnew
    exact ⟨r, hr, he, hok.of_checked c⟩

/-- **C02, the full statement for every setting `d` of the switches, on the batches that pass the guard of `d`.**
    `dayGuardD d` excludes, record by record, exactly the shapes that `d` leaves unchecked (a switch that is
    off contributes nothing: `dayGuardD_none`). The six conclusions are those of `C02_rows`,
    `C02_references` and `C02_deletion_logs`, at full strength. -/
theorem C02_full_of (d : Defects) (s : Inst) (room : Nat) (b : Batch) (hn : NodupIds s.nodes)
    (g : dayGuardD d s room b = true) :
    (∀ x ∈ (syncDay d s room b).1.nodes, x ∉ s.nodes →
      ∃ n ∈ b.nodes, n.row = x ∧ NodeOk (st2 d s room b) room n) ∧
    (∀ x ∈ s.nodes, x ∉ (syncDay d s room b).1.nodes →
      (∃ r ∈ b.nodeDels, x.room = some r.entry.room ∧ x.id = r.entry.id ∧
        NodeDelOk (st1 d s room b) room r) ∨
      (∃ n ∈ b.nodes, n.row.id = x.id ∧ localRow (st2 d s room b).nodes n.row.id = some x ∧
        NodeOk (st2 d s room b) room n)) ∧
    (∀ x ∈ (syncDay d s room b).1.edges, x ∉ s.edges →
      ∃ e ∈ b.edges, e.row = x ∧ ∃ prev, EdgeOk (st3 d s room b) room prev e ∧
        ∀ p, prev = some p → edgeKeyEq e.row p = true) ∧
    (∀ x ∈ s.edges, x ∉ (syncDay d s room b).1.edges →
      (∃ r ∈ b.edgeDels, edgeMatches r.entry x = true ∧ EdgeDelOk s room r) ∨
      (∃ e ∈ b.edges, edgeKeyEq e.row x = true ∧ ∃ p, edgeKeyEq e.row p = true ∧
        EdgeOk (st3 d s room b) room (some p) e)) ∧
    (∀ t ∈ (syncDay d s room b).1.nodeLog, t ∉ s.nodeLog →
      ∃ r ∈ b.nodeDels, r.entry = t ∧ ∃ si, Turn (st1 d s room b) si ∧ NodeDelOk si room r) ∧
    (∀ t ∈ (syncDay d s room b).1.edgeLog, t ∉ s.edgeLog →
      ∃ r ∈ b.edgeDels, r.entry = t ∧ EdgeDelOk s room r) := by
  unfold dayGuardD at g
  simp only [Bool.and_eq_true, List.all_eq_true] at g
  obtain ⟨⟨⟨g1, g2⟩, g3⟩, g4⟩ := g
  have others : ∀ {p : EdgeRow}, (p ∈ (st3 d s room b).edges ∨ ∃ e' ∈ b.edges, e'.row = p) →
      p ∈ (st3 d s room b).edges ++ b.edges.map (·.row) := by
    intro p hm
    rcases hm with hm | ⟨e', he', rfl⟩
    · exact List.mem_append_left _ hm
    · exact List.mem_append_right _ (List.mem_map_of_mem he')
  refine ⟨?_, ?_, ?_, ?_, ?_, ?_⟩
  · intro x hx hnew
    obtain ⟨n, hn', hrow, hok⟩ := day_new_rows hx hnew
    exact ⟨n, hn', hrow, hok.guarded (g3 n hn')⟩
  · intro x hx hgone
    rcases day_removed_rows hn hx hgone with ⟨r, hr, h1, h2, hok⟩ | ⟨n, hn', h1, h2, hok⟩
    · exact Or.inl ⟨r, hr, h1, h2, hok.guarded (g2 r hr)⟩
    · exact Or.inr ⟨n, hn', h1, h2, hok.guarded (g3 n hn')⟩
  · intro x hx hnew
    obtain ⟨e, he, hrow, prev, hok, hp⟩ := day_new_refs hx hnew
    refine ⟨e, he, hrow, prev, hok.guarded (g4 e he) ?_, fun p h => (hp p h).1⟩
    intro p hprev
    exact ⟨(hp p hprev).1, others (hp p hprev).2⟩
  · intro x hx hgone
    rcases day_removed_refs hx hgone with ⟨r, hr, hm, hok⟩ | ⟨e, he, hk, p, hp, hok, hm⟩
    · exact Or.inl ⟨r, hr, hm, hok.guarded (g1 r hr)⟩
    · refine Or.inr ⟨e, he, hk, p, hp, hok.guarded (g4 e he) ?_⟩
      intro q hq
      cases hq
      exact ⟨hp, others hm⟩
  · intro t ht hnew
    obtain ⟨r, hr, he, si, hti, hok⟩ := day_new_node_log ht hnew
    have hn1 : NodupIds (st1 d s room b).nodes := by rw [(st1_fields d s room b).2.1]; exact hn
    exact ⟨r, hr, he, si, hti, hok.guarded (nodeDelGuardD_turn hn1 hti (g2 r hr))⟩
  · intro t ht hnew
    obtain ⟨r, hr, he, hok⟩ := day_new_edge_log ht hnew
    exact ⟨r, hr, he, hok.guarded (g1 r hr)⟩

/-- **a row deleted in the room is not stored again (#18, the ingestion half of C11).** For every setting of the
    switches in which the announced ids are gated by the deletion log (`announcedDeletedRequested = false`:
    `Defects.none`, and the code since findings/C11-ingest-consults-deletion-log-v2.patch): a row that appears during a
    synchronised day carries no node deletion record of the synchronised room — in the tables as they are after the
    deletion records of that same day were applied, so a record and its row arriving together leave the row out. -/
theorem C02_deleted_not_stored (d : Defects) (hd : d.announcedDeletedRequested = false) (s : Inst) (room : Nat) (b : Batch) :
    ∀ x ∈ (syncDay d s room b).1.nodes, x ∉ s.nodes → deletedIn (st2 d s room b) room x.id = false :=
  fun _ hx hnew => day_new_rows_not_deleted hd hx hnew

/-! ## 2. statements that hold for the code as written (any setting of the switches) -/

/-- **relay independence.** The peer that relays the records is not an input of the ingestion path. -/
theorem C02_relay_independent (d : Defects) (p q : Key) (s : Inst) (room : Nat) (b : Batch) :
    syncDayFrom d p s room b = syncDayFrom d q s room b := rfl

/-- **batch independence (rows).** With pairwise distinct ids in the batch, the rows written are
    exactly those whose verdict `nodeVerdict` — a function of the row and of the tables before the
    stage — is positive; in particular a row is written in a batch iff it is written when sent alone
    (`C02_alone_rows`). By induction over the batch. -/
theorem C02_batch_independent_rows (d : Defects) (s : Inst) (room : Nat) (ns : List InNode)
    (hd : (ns.map (·.row.id)).Nodup) :
    (nodeStage d s room ns).1.nodes =
      writeNodes s.nodes ((ns.filter (nodeVerdict d s room)).map fun n => (n, localRow s.nodes n.row.id)) :=
  nodeStage_eq_verdicts hd

theorem C02_alone_rows (d : Defects) (s : Inst) (room : Nat) (x : InNode) :
    (nodeStage d s room [x]).1 =
      if nodeVerdict d s room x then { s with nodes := writeNode s.nodes x.row (localRow s.nodes x.row.id) }
      else s :=
  nodeStage_single d s room x

/-- **batch independence (references).** Same for references with pairwise distinct
    (source, label, target). -/
theorem C02_batch_independent_references (d : Defects) (s : Inst) (room : Nat) (es : List InEdge)
    (hd : es.Pairwise fun a b => edgeKeyEq a.row b.row = false) :
    (edgeStage d s room es).1.edges =
      (es.filter (edgeAccepted d s room s.edges)).foldl (fun t e => writeEdge t e.row) s.edges :=
  addEdgesLoop_eq_verdicts hd

/-- **batch independence (deletion records).** The verdict on a deletion record is taken on the
    tables before the stage; with distinct ids no record hides another. -/
theorem C02_batch_independent_deletions (d : Defects) (s : Inst) (recs : List InNodeDel)
    (hd : (recs.map (·.entry.id)).Nodup) :
    deleteNodes d s recs =
      (recs.filter fun r => nodeDelAccepted d s r.entry).foldl (fun st r => applyNodeDel st r.entry) s :=
  deleteNodes_nodup_ids d s hd

/-- **a rejected row leaves no trace**: taking it out of the batch gives the same state. -/
theorem C02_rejected_row_no_trace (d : Defects) (s : Inst) (room : Nat) (b1 b2 : List InNode) (x : InNode)
    (hd : ((b1 ++ x :: b2).map (·.row.id)).Nodup) (hv : nodeVerdict d s room x = false) :
    (nodeStage d s room (b1 ++ x :: b2)).1 = (nodeStage d s room (b1 ++ b2)).1 :=
  nodeStage_drop_rejected hd hv

theorem C02_rejected_reference_no_trace (d : Defects) (s : Inst) (room : Nat) (e : InEdge)
    (hv : edgeAccepted d s room s.edges e = false) : (edgeStage d s room [e]).1 = s := by
  rw [edgeStage_single, hv]; rfl

theorem C02_rejected_deletion_no_trace (d : Defects) (s : Inst) (r : InNodeDel) (r' : InEdgeDel)
    (hv : nodeDelAccepted d s r.entry = false) (hv' : edgeDelAccepted d s r'.entry = false) :
    deleteNodes d s [r] = s ∧ deleteEdges d s [r'] = s := by
  rw [deleteNodes_single, deleteEdges_single, hv, hv']; exact ⟨rfl, rfl⟩

/-- a record with an invalid signature stops the day where it stands: nothing of its stage or of a
    later stage is applied (once deletion records of other rooms are dropped from the answer — /repo after
    findings/C02-deletion-of-other-room.patch — their signatures are not looked at any more) -/
theorem C02_bad_signature_stops (d : Defects) (s : Inst) (room : Nat) (b : Batch)
    (h : (keepEdgeDels d room b.edgeDels).all (·.sigOk) = false) : syncDay d s room b = (s, .sigError .edgeDels) := by
  unfold syncDay; simp [h]

/-- ingestion never changes a room definition, and row ids stay unique -/
theorem C02_rooms_unchanged (d : Defects) (s : Inst) (room : Nat) (b : Batch) :
    (syncDay d s room b).1.rooms = s.rooms := syncDay_rooms d s room b

theorem C02_ids_stay_unique (d : Defects) (s : Inst) (room : Nat) (b : Batch) (hn : NodupIds s.nodes) :
    NodupIds (syncDay d s room b).1.nodes := syncDay_nodup hn

/-! ## 3. witnesses of the deviations

Every witness is stated about an explicit value of the switches — `Defects.beforeFix` (/repo at 846341e: the seven
shapes of the second series) or `Defects.beforeFixes` (/repo before the first fix) — so that it stays a theorem
whatever `Defects.asImplemented` becomes; its last clause shows that turning the one switch off refuses the record.

One world for all witnesses. Room 10: key 0 admin; one group with users 1 and 2 (from date 100),
`A` (1): own rows only, `B` (2): own and all rows. Room 40: key 3 may write `A`. -/

def grp10 : Discret.Room.Auth :=
  { id := 12, mdate := 100,
    users := [{ key := 1, date := 100, enabled := true }, { key := 2, date := 100, enabled := true }],
    rights := [{ validFrom := 100, entity := 1, mutSelf := true, mutAll := false },
               { validFrom := 100, entity := 2, mutSelf := true, mutAll := true }],
    userAdmins := [] }

def room10 : RoomT :=
  { id := 10, mdate := 100, admins := [{ key := 0, date := 100, enabled := true }], auths := [grp10] }

def room40 : RoomT :=
  { id := 40, mdate := 100, admins := [{ key := 0, date := 100, enabled := true }],
    auths := [{ id := 42, mdate := 100, users := [{ key := 3, date := 100, enabled := true }],
                rights := [{ validFrom := 100, entity := 1, mutSelf := true, mutAll := false }], userAdmins := [] }] }

/-- row 50: `A` in room 10 by key 1; row 60: `A` in room 40 by key 3; row 11: the admin entry of room 10
    (a system row: no room); a reference 50 -[34]-> 60 by key 1 -/
def world : Inst :=
  { rooms := [room10, room40],
    nodes := [{ id := 11, room := none, ent := 102, cdate := 100, mdate := 100, key := 0, sg := 0, val := 0 },
              { id := 50, room := some 10, ent := 1, cdate := 200, mdate := 200, key := 1, sg := 5, val := 1 },
              { id := 60, room := some 40, ent := 1, cdate := 200, mdate := 200, key := 3, sg := 6, val := 2 }],
    edges := [{ src := 50, srcEnt := 1, label := 34, dst := 60, cdate := 200, key := 1 }],
    nodeLog := [], edgeLog := [] }

def mkNode (id room ent : Nat) (date : Int) (key : Key) : InNode :=
  { row := { id, room := some room, ent, cdate := date, mdate := date, key, sg := 9, val := 7 },
    annDate := date, annSg := 9, sigOk := true, conforms := true, jsonAbsent := false, big := false }

def noBatch : Batch := { edgeDels := [], nodeDels := [], nodes := [], edges := [] }

/-- an honest new row by key 2, so that the day reaches the reference stage -/
def fresh : InNode := mkNode 70 10 1 300 2

/-- **#21** key 2 (own-rows right on `A` in room 10) attaches a reference to row 60, which is in
    room 40 where key 2 has no right at all; with the source check the reference is refused. -/
theorem C02_breaks_edgeSourceUnchecked :
    let e : EdgeRow := { src := 60, srcEnt := 1, label := 34, dst := 50, cdate := 300, key := 2 }
    let b := { noBatch with nodes := [fresh], edges := [{ row := e, sigOk := true }] }
    e ∈ (syncDay Defects.beforeFix world 10 b).1.edges ∧
    edgeSourceOk (st3 Defects.beforeFix world 10 b) 10 e = false ∧
    e ∉ (syncDay { Defects.beforeFix with edgeSourceUnchecked := false } world 10 b).1.edges := by
  decide

/-- key 2 replaces key 1's reference 50 -[34]-> 60 (same source, label, target) holding the
    own-rows right only: the stored reference now carries key 2 as author. -/
theorem C02_breaks_edgeReplaceUnchecked :
    let e : EdgeRow := { src := 50, srcEnt := 1, label := 34, dst := 60, cdate := 300, key := 2 }
    let b := { noBatch with nodes := [fresh], edges := [{ row := e, sigOk := true }] }
    (syncDay Defects.beforeFix world 10 b).1.edges = [e] ∧
    canIn world 10 2 1 300 .mutateAll = false ∧
    (syncDay { Defects.beforeFix with edgeReplaceUnchecked := false } world 10 b).1.edges = world.edges := by
  decide

/-- key 2 holds the all-rows right on `B` only; it overwrites key 1's `A` row 50 with a `B` row. -/
theorem C02_breaks_entityChangeUnchecked :
    let n := mkNode 50 10 2 300 2
    let b := { noBatch with nodes := [n] }
    n.row ∈ (syncDay Defects.beforeFix world 10 b).1.nodes ∧
    canIn world 10 2 1 300 .mutateAll = false ∧
    (syncDay { Defects.beforeFix with entityChangeUnchecked := false } world 10 b).1.nodes = world.nodes := by
  decide

/-- **fixed in /repo 37a7f03, kept as a regression witness about `Defects.beforeFixes`.** The admin
    entry of room 10 (row 11, no room, signed by key 0) was overwritten by a `B` row of key 2: no
    right on a room-less row was ever checked. The code as it is now refuses the row. -/
theorem C02_breaks_roomlessReplaceUnchecked :
    let n := mkNode 11 10 2 300 2
    let b := { noBatch with nodes := [n] }
    (syncDay Defects.beforeFixes world 10 b).1.nodes.find? (·.id = 11) = some n.row ∧
    (syncDay Defects.asImplemented world 10 b).1.nodes = world.nodes ∧
    (syncDay { Defects.beforeFixes with roomlessReplaceUnchecked := false,
                                        entityChangeUnchecked := false } world 10 b).1.nodes = world.nodes := by
  decide

/-- while room 10 is synchronised, a deletion record of room 40 (signed by key 3, entitled there)
    is accepted and applied. -/
theorem C02_breaks_delRoomUnchecked :
    let r : NodeDel := { room := 40, id := 60, ent := 1, mdate := 200, ddate := 300, key := 3 }
    let b := { noBatch with nodeDels := [{ entry := r, sigOk := true }] }
    (syncDay Defects.beforeFix world 10 b).1.nodes.all (·.id ≠ 60) = true ∧
    (syncDay { Defects.beforeFix with delRoomUnchecked := false } world 10 b).1 = world := by
  decide

/-- key 2 (all-rows right on `B` only) deletes key 1's `A` row 50 with a record that names entity `B`. -/
theorem C02_breaks_delEntityUnchecked :
    let r : NodeDel := { room := 10, id := 50, ent := 2, mdate := 200, ddate := 300, key := 2 }
    let b := { noBatch with nodeDels := [{ entry := r, sigOk := true }] }
    (syncDay Defects.beforeFix world 10 b).1.nodes.all (·.id ≠ 50) = true ∧
    canIn world 10 2 1 300 .mutateAll = false ∧
    (syncDay { Defects.beforeFix with delEntityUnchecked := false } world 10 b).1 = world := by
  decide

/-- `world` plus a reference 50 -[35]-> 60 authored by key 3 (itself a foreign-source reference) -/
def world2 : Inst :=
  { world with edges := world.edges ++ [{ src := 50, srcEnt := 1, label := 35, dst := 60, cdate := 200, key := 3 }] }

/-- a record that names room 40, signed by key 3 (entitled in room 40), deletes a reference whose
    source row 50 is in room 10, where key 3 has no right. -/
theorem C02_breaks_edgeDelSourceUnchecked :
    let r : EdgeDel := { room := 40, src := 50, srcEnt := 1, dst := 60, label := 35, cdate := 200, ddate := 300, key := 3 }
    let b := { noBatch with edgeDels := [{ entry := r, sigOk := true }] }
    (syncDay Defects.beforeFix world2 40 b).1.edges = world.edges ∧
    canIn world2 10 3 1 300 .mutateSelf = false ∧
    (syncDay { Defects.beforeFix with edgeDelSourceUnchecked := false } world2 40 b).1 = world2 := by
  decide

/-- **fixed in /repo e73c9e7, kept as a regression witness about `Defects.beforeFixes`.** A row without
    JSON was stored although its entity has a mandatory field. The code as it is now refuses it. -/
theorem C02_breaks_jsonAbsentUnchecked :
    let n := { mkNode 71 10 1 300 2 with conforms := false, jsonAbsent := true }
    let b := { noBatch with nodes := [n] }
    n.row ∈ (syncDay Defects.beforeFixes world 10 b).1.nodes ∧
    (syncDay Defects.asImplemented world 10 b).1 = world ∧
    (syncDay { Defects.beforeFixes with jsonAbsentUnchecked := false } world 10 b).1 = world := by
  decide

/-- a room whose only group gives its users the wildcard own-rows right `*`; key 2 is a plain user -/
def wildRoom : RoomT :=
  { id := 10, mdate := 100, admins := [{ key := 0, date := 100, enabled := true }],
    auths := [{ id := 12, mdate := 100, users := [{ key := 2, date := 100, enabled := true }],
                rights := [{ validFrom := 100, entity := 0, mutSelf := true, mutAll := false }], userAdmins := [] }] }

/-- its definition rows: the room row 10 and the admin entry 11 (system rows, no room) -/
def wildWorld : Inst :=
  { rooms := [wildRoom],
    nodes := [{ id := 10, room := none, ent := 100, cdate := 100, mdate := 100, key := 0, sg := 0, val := 0 },
              { id := 11, room := none, ent := 102, cdate := 100, mdate := 100, key := 0, sg := 0, val := 0 }],
    edges := [{ src := 10, srcEnt := 100, label := 32, dst := 11, cdate := 100, key := 0 }],
    nodeLog := [], edgeLog := [] }

/-- **rows of a room definition accepted as data.** The wildcard right covers the system entities:
    key 2 gets a `sys.UserAuth` row of its own making (row 300, entity 102) and a reference
    room-row -[32 = admin]-> 300 into the tables. The acceptance of the next room definition reads
    them back as a stored admin entry (`C07_breaks_storedDefinitionTrusted`). Refusing rows,
    references and deletion records of the four definition entities closes it. Stated about
    `Defects.beforeFixes` so that it stays true when the switch is turned off in `asImplemented`. -/
theorem C02_breaks_authEntityUnchecked :
    let n := mkNode 300 10 102 300 2
    let e : EdgeRow := { src := 10, srcEnt := 100, label := 32, dst := 300, cdate := 300, key := 2 }
    let b := { noBatch with nodes := [n], edges := [{ row := e, sigOk := true }] }
    n.row ∈ (syncDay Defects.beforeFixes wildWorld 10 b).1.nodes ∧
    e ∈ (syncDay Defects.beforeFixes wildWorld 10 b).1.edges ∧
    (syncDay { Defects.beforeFixes with authEntityUnchecked := false } wildWorld 10 b).1 = wildWorld := by
  decide

/-! ## 4. the code as written, under the guard that excludes the shapes it does not check -/

/-- **C02_partial.** For the code as written (`Defects.asImplemented`), the full conclusions of
    `C02_rows`, `C02_references`, `C02_deletion_logs` hold for every batch that passes `dayGuard` =
    `dayGuardD Defects.asImplemented`: each record is excluded only for a shape whose switch is still on in
    `Defects.asImplemented` (Model/Ingest.lean lists them one per line with the repair that closes each). What is
    missing relative to the full statement is exactly the witnesses of section 3 whose switch is still on. -/
theorem C02_partial (s : Inst) (room : Nat) (b : Batch) (hn : NodupIds s.nodes) (g : dayGuard s room b = true) :
    (∀ x ∈ (syncDay Defects.asImplemented s room b).1.nodes, x ∉ s.nodes →
      ∃ n ∈ b.nodes, n.row = x ∧ NodeOk (st2 Defects.asImplemented s room b) room n) ∧
    (∀ x ∈ s.nodes, x ∉ (syncDay Defects.asImplemented s room b).1.nodes →
      (∃ r ∈ b.nodeDels, x.room = some r.entry.room ∧ x.id = r.entry.id ∧
        NodeDelOk (st1 Defects.asImplemented s room b) room r) ∨
      (∃ n ∈ b.nodes, n.row.id = x.id ∧ localRow (st2 Defects.asImplemented s room b).nodes n.row.id = some x ∧
        NodeOk (st2 Defects.asImplemented s room b) room n)) ∧
    (∀ x ∈ (syncDay Defects.asImplemented s room b).1.edges, x ∉ s.edges →
      ∃ e ∈ b.edges, e.row = x ∧ ∃ prev, EdgeOk (st3 Defects.asImplemented s room b) room prev e ∧
        ∀ p, prev = some p → edgeKeyEq e.row p = true) ∧
    (∀ x ∈ s.edges, x ∉ (syncDay Defects.asImplemented s room b).1.edges →
      (∃ r ∈ b.edgeDels, edgeMatches r.entry x = true ∧ EdgeDelOk s room r) ∨
      (∃ e ∈ b.edges, edgeKeyEq e.row x = true ∧ ∃ p, edgeKeyEq e.row p = true ∧
        EdgeOk (st3 Defects.asImplemented s room b) room (some p) e)) ∧
    (∀ t ∈ (syncDay Defects.asImplemented s room b).1.nodeLog, t ∉ s.nodeLog →
      ∃ r ∈ b.nodeDels, r.entry = t ∧ ∃ si, Turn (st1 Defects.asImplemented s room b) si ∧ NodeDelOk si room r) ∧
    (∀ t ∈ (syncDay Defects.asImplemented s room b).1.edgeLog, t ∉ s.edgeLog →
      ∃ r ∈ b.edgeDels, r.entry = t ∧ EdgeDelOk s room r) :=
  C02_full_of Defects.asImplemented s room b hn g

/-- the same for /repo before the first fixes (37a7f03, e73c9e7, 4dd7eb7), under the guard that was needed then
    (moreover: no record of a room-definition entity, no row without JSON, no overwritten row without room) -/
theorem C02_partial_beforeFixes (s : Inst) (room : Nat) (b : Batch) (hn : NodupIds s.nodes) (g : dayGuardBeforeFixes s room b = true) :
    (∀ x ∈ (syncDay Defects.beforeFixes s room b).1.nodes, x ∉ s.nodes →
      ∃ n ∈ b.nodes, n.row = x ∧ NodeOk (st2 Defects.beforeFixes s room b) room n) ∧
    (∀ x ∈ s.nodes, x ∉ (syncDay Defects.beforeFixes s room b).1.nodes →
      (∃ r ∈ b.nodeDels, x.room = some r.entry.room ∧ x.id = r.entry.id ∧
        NodeDelOk (st1 Defects.beforeFixes s room b) room r) ∨
      (∃ n ∈ b.nodes, n.row.id = x.id ∧ NodeOk (st2 Defects.beforeFixes s room b) room n)) ∧
    (∀ x ∈ (syncDay Defects.beforeFixes s room b).1.edges, x ∉ s.edges →
      ∃ e ∈ b.edges, e.row = x ∧ ∃ prev, EdgeOk (st3 Defects.beforeFixes s room b) room prev e) ∧
    (∀ x ∈ s.edges, x ∉ (syncDay Defects.beforeFixes s room b).1.edges →
      (∃ r ∈ b.edgeDels, edgeMatches r.entry x = true ∧ EdgeDelOk s room r) ∨
      (∃ e ∈ b.edges, edgeKeyEq e.row x = true)) ∧
    (∀ t ∈ (syncDay Defects.beforeFixes s room b).1.nodeLog, t ∉ s.nodeLog →
      ∃ r ∈ b.nodeDels, r.entry = t ∧ ∃ si, Turn (st1 Defects.beforeFixes s room b) si ∧ NodeDelOk si room r) ∧
    (∀ t ∈ (syncDay Defects.beforeFixes s room b).1.edgeLog, t ∉ s.edgeLog →
      ∃ r ∈ b.edgeDels, r.entry = t ∧ EdgeDelOk s room r) := by
  obtain ⟨h1, h2, h3, h4, h5, h6⟩ := C02_full_of Defects.beforeFixes s room b hn g
  refine ⟨h1, ?_, ?_, ?_, h5, h6⟩
  · intro x hx hgone
    rcases h2 x hx hgone with h | ⟨n, hn', e1, _, hok⟩
    · exact Or.inl h
    · exact Or.inr ⟨n, hn', e1, hok⟩
  · intro x hx hnew
    obtain ⟨e, he, hrow, prev, hok, _⟩ := h3 x hx hnew
    exact ⟨e, he, hrow, prev, hok⟩
  · intro x hx hgone
    rcases h4 x hx hgone with h | ⟨e, he, hk, _⟩
    · exact Or.inl h
    · exact Or.inr ⟨e, he, hk⟩

/-- **C02 (rows, node deletion records), for the code as it is, no guard.** Apply after the three repairs
    replace-other-entity, deletion-of-other-room, deletion-entity-mismatch: every check that bears on a received row or
    node deletion record is then in place in `Defects.asImplemented` (`by decide`), and the statement of `C02_rows` and of
    the node half of `C02_deletion_logs` holds for the code as it is, for every state, every room history, every batch. -/
theorem C02_rows_asImplemented (s : Inst) (room : Nat) (b : Batch) (hn : NodupIds s.nodes) :
    (∀ x ∈ (syncDay Defects.asImplemented s room b).1.nodes, x ∉ s.nodes →
      ∃ n ∈ b.nodes, n.row = x ∧ NodeOk (st2 Defects.asImplemented s room b) room n) ∧
    (∀ x ∈ s.nodes, x ∉ (syncDay Defects.asImplemented s room b).1.nodes →
      (∃ r ∈ b.nodeDels, x.room = some r.entry.room ∧ x.id = r.entry.id ∧
        NodeDelOk (st1 Defects.asImplemented s room b) room r) ∨
      (∃ n ∈ b.nodes, n.row.id = x.id ∧ localRow (st2 Defects.asImplemented s room b).nodes n.row.id = some x ∧
        NodeOk (st2 Defects.asImplemented s room b) room n)) ∧
    (∀ t ∈ (syncDay Defects.asImplemented s room b).1.nodeLog, t ∉ s.nodeLog →
      ∃ r ∈ b.nodeDels, r.entry = t ∧ ∃ si, Turn (st1 Defects.asImplemented s room b) si ∧ NodeDelOk si room r) :=
  C02_rows_when Defects.asImplemented (by decide) s room b hn

/-! ## 5. non-vacuity -/

-- an honest day in `world`: key 2 adds an `A` row, a reference from it, deletes its own older row;
-- everything is stored, the guard holds, ids are unique
def honestBatch : Batch :=
  { noBatch with nodes := [fresh],
                 edges := [{ row := { src := 70, srcEnt := 1, label := 34, dst := 50, cdate := 300, key := 2 }, sigOk := true }],
                 nodeDels := [{ entry := { room := 10, id := 50, ent := 1, mdate := 200, ddate := 300, key := 1 }, sigOk := true }],
                 edgeDels := [{ entry := { room := 10, src := 50, srcEnt := 1, dst := 60, label := 34, cdate := 200, ddate := 300, key := 1 }, sigOk := true }] }

example : NodupIds world.nodes := by unfold NodupIds; decide
example : dayGuard world 10 honestBatch = true := by decide
example : (syncDay Defects.asImplemented world 10 honestBatch).2 = .done [] [] := by decide
example : (syncDay Defects.asImplemented world 10 honestBatch).1.nodes.map (·.id) = [11, 60, 70] ∧
    (syncDay Defects.asImplemented world 10 honestBatch).1.edges.map (·.src) = [70] ∧
    (syncDay Defects.asImplemented world 10 honestBatch).1.nodeLog.length = 1 ∧
    (syncDay Defects.asImplemented world 10 honestBatch).1.edgeLog.length = 1 := by decide
-- the intended checks accept the same honest day
example : syncDay Defects.none world 10 honestBatch = syncDay Defects.asImplemented world 10 honestBatch := by decide
-- a rejected row (key 3 has no right in room 10) with a positive and a negative verdict side by side
example : nodeVerdict Defects.asImplemented world 10 fresh = true ∧
    nodeVerdict Defects.asImplemented world 10 (mkNode 72 10 1 300 3) = false := by decide
-- the last-writer-wins filter: an older version of row 50 is not even requested
example : nodeVerdict Defects.asImplemented world 10 (mkNode 50 10 1 150 1) = false := by decide


-- two deletion records of one answer for the same row (deleted by two members on the same day): both are applied,
-- in the order of the answer — key 1 deletes its own row 50, key 2's record then finds no local row and needs the
-- own-rows right only; on its own, key 2's record would be refused (no all-rows right on `A`)
example :
    let r1 : InNodeDel := { entry := { room := 10, id := 50, ent := 1, mdate := 200, ddate := 300, key := 1 }, sigOk := true }
    let r2 : InNodeDel := { entry := { room := 10, id := 50, ent := 1, mdate := 200, ddate := 310, key := 2 }, sigOk := true }
    (deleteNodes Defects.asImplemented world [r1, r2]).nodeLog = [r1.entry, r2.entry] ∧
    (deleteNodes Defects.asImplemented world [r1, r2]).nodes.all (·.id ≠ 50) = true ∧
    deleteNodes Defects.asImplemented world [r2] = world := by decide

end Discret.Ingest
