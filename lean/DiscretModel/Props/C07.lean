import DiscretModel.Lemmas.RoomNode
/-
C07 — a room definition accepted from a peer only adds entitled entries.

Model: `Model/RoomNode.lean` (`verify_room_node`, `RoomNode::read`, `prepare_room_node` =
`check_consistency` + `prepare_new_room` | `prepare_room_with_history` / `prepare_auth_with_history` /
`prepare_new_auth`, `RoomNode::write`, `parse`, installation of the parsed room), over the shared room
model. `accept d s cand` is the whole of `add_room_node` on the tables and loaded rooms `s`.
All statements hold for every stored state and every candidate — no bound on sizes or histories.
-/
namespace Discret.RoomNode
open Discret.Room (Key Ent RightType User Right Auth Err)

/-! ## 1. statements that hold for the code as written (any setting of the switches) -/

/-- **C07 (a refused candidate changes nothing; an accepted one is well-signed and well-shaped).**
    `accept` returns a new state only in the `ok` verdict; for a known room that state is the old
    one when nothing is new, and otherwise the tables with the *merged* definition written and the
    room parsed from it installed; for an unknown room, the candidate itself. -/
theorem C07_accept_shape (d : Defects) (s s' : RStore) (cand : RoomNode) (h : accept d s cand = .ok s') :
    cand.sigsOk = true ∧ cand.consistent = true ∧
    ((∃ room old, s.rooms.find? (·.id = cand.node.id) = some room ∧ readBack d.newestFirstRead s cand.node.id = some old ∧
        ∃ merged upd, prepareWithHistory d room old cand = some (.ok (merged, upd)) ∧
          ((upd = false ∧ s' = s) ∨
           (upd = true ∧ ∃ r, merged.parse = .ok r ∧ s' = installRoom (writeRoom s merged) r))) ∨
     (s.rooms.find? (·.id = cand.node.id) = none ∧
        ∃ r, prepareNewRoom (!d.placingEdgeUnchecked) cand = .ok r ∧ s' = installRoom (writeRoom s cand) r)) :=
  accept_ok h

/-- **C07 (monotone).** In the merged definition of a known room every stored admin entry, every
    stored placing reference and every stored group with all its user, user-admin and right entries
    and their placing references is present, unchanged (`rowEq`/`edgeEq`: every signed field). -/
theorem C07_monotone (d : Defects) (room : RoomT) (old cand merged : RoomNode) (upd : Bool)
    (h : prepareWithHistory d room old cand = some (.ok (merged, upd))) :
    (∀ o ∈ old.adminNodes, ∃ y ∈ merged.adminNodes, rowEq y o = true) ∧
    (∀ o ∈ old.adminEdges, ∃ y ∈ merged.adminEdges, edgeEq y o = true) ∧
    (∀ o ∈ old.authEdges, ∃ y ∈ merged.authEdges, edgeEq y o = true) ∧
    (∀ o ∈ old.authNodes, ∃ a ∈ merged.authNodes, GroupCovers o a) :=
  let m := prepareWithHistory_sound h
  ⟨m.oldAdmins, m.oldAdminEdges, m.oldAuthEdges, m.oldGroups⟩

/-- an existing entry that the candidate carries with another content makes the whole candidate fail -/
theorem C07_altered_entry_refused (old cand : List SRow) (o c : SRow) (ho : o ∈ old)
    (hc : cand.find? (·.id = o.id) = some c) (hne : rowEq c o = false) (hd : old.head? = some o) :
    mergeRows old cand = .error .mutated := by
  cases old with
  | nil => cases ho
  | cons o' rest =>
    simp only [List.head?_cons, Option.some.injEq] at hd
    subst hd
    simp [mergeRows, hc, hne]

/-- **C07 (entitled additions, admins).** Every admin entry of the merged definition that is new
    was authored by a key that is an admin, at the entry's date, in the loaded room as extended by
    the new admin entries that precede it (in date order); nothing but candidate and stored entries
    is in the list. -/
theorem C07_entitled_admins (d : Defects) (room : RoomT) (old cand merged : RoomNode) (upd : Bool)
    (h : prepareWithHistory d room old cand = some (.ok (merged, upd))) :
    (∀ i n, merged.adminNodes[i]? = some n → isNew old.adminNodes n = true →
      (extendAdmins old.adminNodes room (merged.adminNodes.take i)).isAdmin n.author n.mdate = true) ∧
    (∀ y ∈ merged.adminNodes, (∃ c ∈ cand.adminNodes, rowEq y c = true) ∨ ∃ o ∈ old.adminNodes, rowEq y o = true) :=
  let m := prepareWithHistory_sound h
  ⟨m.entitledAdmins, m.onlyAdmins⟩

/-- **C07 (entitled additions, entries of a stored group).** New user-admin and right entries are
    authored by admins of the room; new user entries by an admin or by a user admin of that group
    (as extended by its new user-admin entries); stored entries are all kept. -/
theorem C07_entitled_group_entries (room : RoomT) (old new res : AuthNode) (upd : Bool)
    (h : prepareAuthWithHistory room old new = some (.ok (res, upd))) : AuthMerged room old new res :=
  prepareAuthWithHistory_sound h

/-- **C07 (a group that is new to a known room).** It is the candidate's, untouched; its row and its
    right entries are authored by admins of the extended room; its user entries by a user admin of
    the group itself or by an admin of the extended room (the rule of a stored group, since
    findings/C10-new-group-users-accept-room-admin.patch). (Its user-admin entries: only with the intended check — see the witness.) -/
theorem C07_new_groups (d : Defects) (room : RoomT) (old cand merged : RoomNode) (upd : Bool)
    (h : prepareWithHistory d room old cand = some (.ok (merged, upd))) :
    ∀ a ∈ merged.authNodes, old.authNodes.any (·.node.id = a.node.id) = false →
      a ∈ cand.authNodes ∧
      (extendAdmins old.adminNodes room merged.adminNodes).isAdmin a.node.author a.node.mdate = true ∧
      ∃ au, a.parse = .ok au ∧
        (∀ n ∈ a.userNodes, au.canAdminUsers n.author n.mdate = true ∨
          (extendAdmins old.adminNodes room merged.adminNodes).isAdmin n.author n.mdate = true) ∧
        (∀ n ∈ a.rightNodes, (extendAdmins old.adminNodes room merged.adminNodes).isAdmin n.author n.mdate = true) ∧
        (d.newGroupUserAdminUnchecked = false →
          ∀ n ∈ a.userAdminNodes, (extendAdmins old.adminNodes room merged.adminNodes).isAdmin n.author n.mdate = true) := by
  intro a ha hno
  obtain ⟨h1, h2, h3⟩ := (prepareWithHistory_sound h).newGroups a ha hno
  exact ⟨h1, h2, prepareNewAuth_sound h3⟩

/-- **C07 (a room not seen before).** Accepted only if the whole candidate parses (append-only
    histories) and the author of every admin, group, user, right and user-admin entry is an admin,
    at the entry's date, in the room parsed from it — and, when the references are checked (`chk`), the author of
    every reference room → group is an admin at the reference's date. -/
theorem C07_new_room (chk : Bool) (cand : RoomNode) (room : RoomT) (h : prepareNewRoom chk cand = .ok room) :
    cand.parse = .ok room ∧
    (chk = true → ∀ e ∈ cand.authEdges, room.isAdmin e.author e.cdate = true) ∧
    (∀ n ∈ cand.adminNodes, room.isAdmin n.author n.mdate = true) ∧
    ∀ a ∈ cand.authNodes, room.isAdmin a.node.author a.node.mdate = true ∧
      (∀ n ∈ a.userNodes, room.isAdmin n.author n.mdate = true) ∧
      (∀ n ∈ a.rightNodes, room.isAdmin n.author n.mdate = true) ∧
      (∀ n ∈ a.userAdminNodes, room.isAdmin n.author n.mdate = true) :=
  prepareNewRoom_sound h

/-- **C07 (decisions, before the earliest new entry).** Whatever the switches: when a candidate for a known room is
    accepted, the stored definition `old` parses to `r0`, the merged definition parses to `r` (the room that is
    installed), no list of the merged definition carries an id twice, and in `r` entries with equal key and equal date
    carry the same payload (`Room.Func` — exactly what `C07_breaks_sameDateReorder` violates), then at every date `t`
    that precedes all the entries that are new (`NewAfter`: by id, list by list; every entry of a group that is new),
    EVERY decision of `r` — who is admin, who is a member, who administers the users of which group, who holds which
    right on which entity — is the decision of `r0`. Proved from the monotonicity of the merge and the Room lemmas
    (`glast_spec`: the entry in force is one with the greatest date ≤ t). -/
theorem C07_decisions_past (d : Defects) (room : RoomT) (old cand merged : RoomNode) (upd : Bool)
    (h : prepareWithHistory d room old cand = some (.ok (merged, upd)))
    (r0 r : RoomT) (hpo : old.parse = .ok r0) (hpm : merged.parse = .ok r) (hd : merged.idsDistinct = true)
    (hf : r.Func) (t : Int) (hnew : NewAfter old merged t) : r.SameAt r0 t :=
  let m := prepareWithHistory_sound h
  merged_past_stable m.oldAdmins m.oldGroups hpo hpm hd hf hnew

/-- **C07 (decisions = those of the old entries plus the added ones).** The room parsed from the merged definition
    holds, list by list, the entries of the merged rows (`RoomNode.parse_ok`) — the stored entries, unchanged
    (`C07_monotone`), and the candidate's new ones, entitled (`C07_entitled_*`) — and its decisions are a function of
    that SET of entries: any well-formed room `s` holding the same entries, in whatever order they were inserted,
    decides the same at every date, provided equal key and date mean equal payload in `r`. -/
theorem C07_decisions_exact (merged : RoomNode) (r s : RoomT) (hpm : merged.parse = .ok r) (hf : r.Func) (ws : s.WF)
    (hadm : ∀ v, v ∈ r.admins ↔ v ∈ s.admins)
    (h1 : ∀ a ∈ r.auths, ∃ b ∈ s.auths, b.id = a.id ∧ (∀ v, v ∈ a.users ↔ v ∈ b.users) ∧
      (∀ v, v ∈ a.userAdmins ↔ v ∈ b.userAdmins) ∧ (∀ v, v ∈ a.rights ↔ v ∈ b.rights))
    (h2 : ∀ b ∈ s.auths, ∃ a ∈ r.auths, b.id = a.id ∧ (∀ v, v ∈ a.users ↔ v ∈ b.users) ∧
      (∀ v, v ∈ a.userAdmins ↔ v ∈ b.userAdmins) ∧ (∀ v, v ∈ a.rights ↔ v ∈ b.rights))
    (t : Int) : r.SameAt s t :=
  Discret.Room.Room.sameAt_of_sameEntries (RoomNode.parse_ok hpm).2.2 ws hf hadm h1 h2 t

/-- the entries of the installed room are the entries of the merged rows, each of which is a stored row (unchanged)
    or a row of the candidate that is new to its list -/
theorem C07_decisions_entries (d : Defects) (room : RoomT) (old cand merged : RoomNode) (upd : Bool)
    (h : prepareWithHistory d room old cand = some (.ok (merged, upd))) (r : RoomT) (hpm : merged.parse = .ok r) :
    r.admins = merged.adminNodes.filterMap userOf ∧
    (∀ y ∈ merged.adminNodes, (∃ c ∈ cand.adminNodes, rowEq y c = true) ∨ ∃ o ∈ old.adminNodes, rowEq y o = true) ∧
    ∀ au, au ∈ r.auths ↔ ∃ a ∈ merged.authNodes, a.parse = .ok au :=
  ⟨(RoomNode.parse_ok hpm).1, (prepareWithHistory_sound h).onlyAdmins, RoomNode.parse_auths hpm⟩

/-! ## 2. the full statement needs the intended checks (`Defects.none`) -/

/-- **C07 (authored for that room and that place).** With the intended checks a candidate is accepted
    only if every entry is attached to its list by a placing reference signed by the entry's own
    author, with the list's label and the owner's entity — a reference binds (owner row, label,
    entry), so an entry cannot be moved to another list, group or room by a third party —, every group is
    attached to the room by a reference with the groups' label signed by an admin at the reference's date (a group
    row is re-signed by whoever updates the group, so its reference is tied to the admins, not to the row's author),
    no list carries two rows with one id, and the
    room row that is written is the candidate's only when it equals the stored one or is a newer
    `sys.Room` row signed by an admin, and the stored one otherwise. -/
theorem C07_bound_to_place (s s' : RStore) (cand : RoomNode) (h : accept Defects.none s cand = .ok s') :
    cand.placingOk = true ∧ cand.idsDistinct = true ∧
    (∀ r, s.rooms.find? (·.id = cand.node.id) = none → cand.parse = .ok r →
      ∀ e ∈ cand.authEdges, r.isAdmin e.author e.cdate = true) ∧
    ∀ room old merged upd, s.rooms.find? (·.id = cand.node.id) = some room → readBack false s cand.node.id = some old →
      prepareWithHistory Defects.none room old cand = some (.ok (merged, upd)) →
      (∀ e ∈ cand.authEdges, (extendAdmins old.adminNodes room merged.adminNodes).isAdmin e.author e.cdate = true) ∧
      ((rowEq merged.node cand.node = true ∧
        (rowEq cand.node old.node = true ∨
         (old.node.mdate < cand.node.mdate ∧ cand.node.ent = 100 ∧ room.isAdmin cand.node.author cand.node.mdate = true))) ∨
      (rowEq merged.node old.node = true ∧ ¬ old.node.mdate < cand.node.mdate)) := by
  refine ⟨(accept_none_placing h).2.2.1, (accept_none_placing h).2.2.2, ?_, ?_⟩
  · intro r hnone hparse
    rcases (accept_ok h).2.2 with ⟨room, _, hsome, _⟩ | ⟨_, r', hprep, _⟩
    · rw [hnone] at hsome; cases hsome
    · obtain ⟨hp, hg, _⟩ := prepareNewRoom_sound hprep
      rw [hparse] at hp; cases hp
      exact hg rfl
  · intro room old merged upd _ _ hprep
    exact ⟨(prepareWithHistory_sound hprep).groupEdges rfl, (prepareWithHistory_sound hprep).roomRow rfl⟩

/-- **C07_partial.** On every candidate that passes `candGuard` = `candGuardD Defects.asImplemented` — while
    `placingAuthorUnchecked` is on: every entry is placed by a reference signed by the entry's own author
    (`placingOk`); while `placingEdgeUnchecked` is on: moreover every placing reference carries its list's label and its
    owner's entity and every group is attached by a reference signed by an admin (`placingGuard`) — the code as written
    decides exactly as the intended checks do, so sections 1 and 2 apply to it. What is missing relative to the full
    statement is exactly the `placingEdge` witnesses of section 3 that are still accepted under the switches of
    `Defects.asImplemented` (and, whatever the switches, the order of same-date entries: `C07_breaks_sameDateReorder`). -/
theorem C07_partial (s : RStore) (cand : RoomNode) (g : candGuard s cand = true) :
    accept Defects.asImplemented s cand = accept Defects.none s cand :=
  accept_congr g

/-- **C07, the code as it is decides as the intended checks do on every candidate whose placing references are
    signed by the entries' authors** (`placingOk`) — the only guard left since findings/C07-placing-references-v2.patch:
    labels, source entities and the references room → group are checked by the code itself. The guard cannot go: the
    repository's own test `room_node::tests::invalid` requires a placing reference re-signed by an unrelated key to be
    accepted; what it still lets through is `C07_breaks_placingEdge_crossList` / `_crossRoom` (under `afterLabelFix`). -/
theorem C07_full_asImplemented (s : RStore) (cand : RoomNode) (g : cand.placingOk = true) :
    accept Defects.asImplemented s cand = accept Defects.none s cand :=
  C07_partial s cand (by simp [candGuard, candGuardD, Defects.asImplemented, g])

/-- the same for /repo before the fix 77018f3, under the stronger guard that was needed then
    (room row unchanged or newer and signed by an admin; no new group carrying user-admin entries) -/
theorem C07_partial_beforeFixes (s : RStore) (cand : RoomNode) (g : candGuardBeforeFixes s cand = true) :
    accept Defects.beforeFixesOldestFirst s cand = accept Defects.none s cand :=
  accept_congr_beforeFixes g

/-! ## 3. the code as written: witnesses of the deviations -/

def row (id ent : Nat) (t : Int) (by_ : Key) (body : Body) : SRow :=
  { id, ent, room := none, cdate := t, mdate := t, author := by_, body, sigOk := true }

def edge (src srcEnt label dst : Nat) (t : Int) (by_ : Key) : PEdge :=
  { src, srcEnt, label, dst, cdate := t, author := by_, sigOk := true }

/-- group 102 of room 10: `A` own rows; user key 2 (row 105), user admin key 3 (row 104); all by admin key 0 -/
def g102 : AuthNode :=
  { node := row 102 101 100 0 (.other 1),
    rightEdges := [edge 102 101 33 103 100 0], rightNodes := [row 103 103 100 0 (.right 1 true false)],
    userEdges := [edge 102 101 34 105 100 0], userNodes := [row 105 102 100 0 (.user 2 true)],
    userAdminEdges := [edge 102 101 35 104 100 0], userAdminNodes := [row 104 102 100 0 (.user 3 true)],
    needUpdate := true }

/-- room 10 as its admin (key 0) created it -/
def room10 : RoomNode :=
  { node := row 10 100 100 0 (.other 0),
    adminEdges := [edge 10 100 32 101 100 0], adminNodes := [row 101 102 100 0 (.user 0 true)],
    authEdges := [edge 10 100 33 102 100 0], authNodes := [g102] }

def emptyStore : RStore := { rooms := [], nodes := [], edges := [] }

def stateOf : Verdict → RStore
  | .ok s => s
  | _ => emptyStore

/-- the instance after it received room 10 -/
def w0 : RStore := stateOf (accept Defects.none emptyStore room10)

def loaded (s : RStore) (id : Nat) : RoomT :=
  (s.rooms.find? (·.id = id)).getD (Discret.Room.Room.empty 0 0)

/-- the switches after findings/C07-placing-references-v2.patch: labels, source entities and the references
    room → group are checked, the author of an entry's placing reference is not (pinned by `room_node::tests::invalid`) -/
def afterLabelFix : Defects := { Defects.beforeFix with placingEdgeUnchecked := false }

/-- **cross-list replay (#22).** The entry "key 2 is a *user* of group 102", signed by the admin, is
    listed among the *admins* with a placing reference signed by key 6 (anybody): accepted, key 2 is
    now an admin of the room — also once labels are checked (`afterLabelFix`): the reference carries the admins' label,
    only its author is wrong. The intended check refuses the candidate. -/
theorem C07_breaks_placingEdge_crossList :
    let cand := { room10 with adminNodes := room10.adminNodes ++ [row 105 102 100 0 (.user 2 true)],
                              adminEdges := room10.adminEdges ++ [edge 10 100 32 105 100 6] }
    (loaded w0 10).isAdmin 2 200 = false ∧
    (loaded (stateOf (accept Defects.beforeFix w0 cand)) 10).isAdmin 2 200 = true ∧
    (loaded (stateOf (accept afterLabelFix w0 cand)) 10).isAdmin 2 200 = true ∧
    accept Defects.none w0 cand = .err .inconsistent := by
  decide

/-- room 40 of the same admin: key 6 was made an admin *there* (row 201, signed by key 0) -/
def room40 : RoomNode :=
  { node := row 40 100 100 0 (.other 0),
    adminEdges := [edge 40 100 32 200 100 0, edge 40 100 32 201 300 0],
    adminNodes := [row 200 102 100 0 (.user 0 true), row 201 102 300 0 (.user 6 true)],
    authEdges := [], authNodes := [] }

def w1 : RStore := stateOf (accept Defects.none w0 room40)

/-- **cross-room replay (#22).** The admin entry of room 40 is listed among the admins of room 10
    with a reference signed by key 6: key 6 becomes an admin of room 10 (also under `afterLabelFix`). -/
theorem C07_breaks_placingEdge_crossRoom :
    let cand := { room10 with adminNodes := room10.adminNodes ++ [row 201 102 300 0 (.user 6 true)],
                              adminEdges := room10.adminEdges ++ [edge 10 100 32 201 300 6] }
    (loaded w1 10).isAdmin 6 400 = false ∧
    (loaded (stateOf (accept Defects.beforeFix w1 cand)) 10).isAdmin 6 400 = true ∧
    (loaded (stateOf (accept afterLabelFix w1 cand)) 10).isAdmin 6 400 = true ∧
    accept Defects.none w1 cand = .err .inconsistent := by
  decide

/-- **label ignored (#22).** User admin key 3 may add users. It adds the entry "key 5 is a user"
    (row 110, signed by key 3) to the users list — with a placing reference that carries the
    *user-admin* label 35. Accepted as a user; stored under label 35; the next accepted update reads it
    back as a user admin: key 5 administers the users of the group although no admin ever signed that. -/
theorem C07_breaks_placingEdge_label :
    let cand1 := { room10 with authNodes := [{ g102 with userNodes := g102.userNodes ++ [row 110 102 200 3 (.user 5 true)],
                                                          userEdges := g102.userEdges ++ [edge 102 101 35 110 200 3] }] }
    let s1 := stateOf (accept Defects.beforeFix w0 cand1)
    let cand2 := { room10 with authNodes := [{ g102 with userNodes := g102.userNodes ++ [row 111 102 300 0 (.user 1 true)],
                                                          userEdges := g102.userEdges ++ [edge 102 101 34 111 300 0] }] }
    let s2 := stateOf (accept Defects.beforeFix s1 cand2)
    (loaded s1 10).auths.any (·.canAdminUsers 5 400) = false ∧
    (loaded s2 10).auths.any (·.canAdminUsers 5 400) = true ∧
    accept afterLabelFix w0 cand1 = .err .inconsistent ∧
    accept Defects.none w0 cand1 = .err .inconsistent := by
  decide

/-- group 402 of room 40 (same admin, key 0, who is also its user admin): `A` own and all rows for user key 6 -/
def g402 : AuthNode :=
  { node := row 402 101 100 0 (.other 1),
    rightEdges := [edge 402 101 33 403 100 0], rightNodes := [row 403 103 100 0 (.right 1 true true)],
    userEdges := [edge 402 101 34 405 100 0], userNodes := [row 405 102 100 0 (.user 6 true)],
    userAdminEdges := [edge 402 101 35 404 100 0], userAdminNodes := [row 404 102 100 0 (.user 0 true)], needUpdate := true }

/-- **a whole group replayed into another room (#22).** Group 402 — signed by the admin for room 40, with its
    entries properly placed in it by the admin — is attached to room 10 by a reference signed by key 6: key 6 may
    write `A` rows in room 10. The intended check refuses the candidate: the reference room → group is not signed by
    an admin of room 10. -/
theorem C07_breaks_placingEdge_groupReplay :
    let cand := { room10 with authNodes := room10.authNodes ++ [g402],
                              authEdges := room10.authEdges ++ [edge 10 100 33 402 100 6] }
    (loaded w0 10).can 6 1 400 .mutateAll = false ∧
    (loaded (stateOf (accept Defects.beforeFix w0 cand)) 10).can 6 1 400 .mutateAll = true ∧
    accept afterLabelFix w0 cand = .err .notAuthorised ∧
    accept Defects.none w0 cand = .err .notAuthorised := by
  decide

/-- **room row replaced unchecked — fixed in /repo 77018f3, kept as a regression witness about
    `Defects.beforeFixes`.** A candidate whose room row is signed by key 6 and claims entity `B` (2),
    together with one honest new user entry, was accepted; the stored room row was overwritten;
    `RoomNode::read` no longer found the room and every later definition — here the honest one — was
    refused with "the room exists should have an existing old_room_node". The code as it is now
    refuses the candidate, as the intended checks do. -/
theorem C07_breaks_roomRowUnchecked :
    let cand := { room10 with node := row 10 2 700 6 (.other 0),
                              authNodes := [{ g102 with userNodes := g102.userNodes ++ [row 111 102 300 0 (.user 1 true)],
                                                         userEdges := g102.userEdges ++ [edge 102 101 34 111 300 0] }] }
    let s1 := stateOf (accept Defects.beforeFixes w0 cand)
    (readBack false w0 10).isSome = true ∧ readBack false s1 10 = none ∧
    accept Defects.beforeFixes s1 room10 = .err .noHistory ∧
    accept Defects.asImplemented w0 cand = .err .notAuthorised ∧
    accept Defects.none w0 cand = .err .notAuthorised := by
  decide

/-- **#33: user-admin entries of a new group were not checked — fixed in /repo 77018f3, kept as a
    regression witness about `Defects.beforeFixes`.** Admin key 0 signs a new, empty group 120 with an
    `A` right. A relaying peer adds to it the entries "key 6 is a user admin" and "key 6 is a user",
    both signed by key 6 itself: it was accepted and key 6 could write `A` rows in the room. The code
    as it is now refuses the candidate. -/
theorem C07_breaks_newGroupUserAdminUnchecked :
    let g : AuthNode :=
      { node := row 120 101 300 0 (.other 1),
        rightEdges := [edge 120 101 33 121 300 0], rightNodes := [row 121 103 300 0 (.right 1 true false)],
        userEdges := [edge 120 101 34 123 300 6], userNodes := [row 123 102 300 6 (.user 6 true)],
        userAdminEdges := [edge 120 101 35 122 300 6], userAdminNodes := [row 122 102 300 6 (.user 6 true)],
        needUpdate := true }
    let cand := { room10 with authNodes := room10.authNodes ++ [g],
                              authEdges := room10.authEdges ++ [edge 10 100 33 120 300 0] }
    (loaded w0 10).can 6 1 400 .mutateSelf = false ∧
    (loaded (stateOf (accept Defects.beforeFixes w0 cand)) 10).can 6 1 400 .mutateSelf = true ∧
    accept Defects.asImplemented w0 cand = .err .notAuthorised ∧
    accept Defects.none w0 cand = .err .notAuthorised := by
  decide

/-- **same-date entries re-ordered.** The admin enabled then disabled key 2 within one millisecond
    (rows 130, 131 at date 200): key 2 is disabled. A peer relays the definition with the two entries in
    the other order plus one honest new entry: every entry is authentic and entitled, nothing is
    removed — and key 2 is enabled again, because the entry listed last wins among equal dates. -/
theorem C07_breaks_sameDateReorder :
    let en := row 130 102 200 0 (.user 2 true)
    let dis := row 131 102 200 0 (.user 2 false)
    let gg (l : List SRow) (extra : List SRow) (extraE : List PEdge) : AuthNode :=
      { g102 with userNodes := g102.userNodes ++ l ++ extra,
                  userEdges := g102.userEdges ++ [edge 102 101 34 130 200 0, edge 102 101 34 131 200 0] ++ extraE }
    let s1 := stateOf (accept Defects.asImplemented w0 { room10 with authNodes := [gg [en, dis] [] []] })
    let cand := { room10 with authNodes := [gg [dis, en] [row 132 102 300 0 (.user 1 true)] [edge 102 101 34 132 300 0]] }
    let s2 := stateOf (accept Defects.asImplemented s1 cand)
    (loaded s1 10).isUserValidAt 2 250 = false ∧ (loaded s2 10).isUserValidAt 2 250 = true ∧
    accept Defects.none s1 cand = accept Defects.asImplemented s1 cand := by
  decide

/-- **the stored definition is trusted (chain with C02 #21).** Whatever references the tables hold
    from the room row are read back as "stored" entries and merged without any check. A plain user
    (key 2) who got a forged `sys.UserAuth` row (row 300, signed by itself: "key 2, enabled") and a
    reference room-row -[32]-> 300 into the tables through data synchronisation (C02: the source row of
    a reference is not checked, a wildcard right covers system entities) is an admin of the room after
    the next honest update — with the intended checks of C07 as well: the hole is on the C02 side. -/
theorem C07_breaks_storedDefinitionTrusted :
    let polluted : RStore :=
      { w0 with nodes := w0.nodes ++ [{ row 300 102 200 2 (.user 2 true) with room := some 10 }],
                edges := w0.edges ++ [edge 10 100 32 300 200 2] }
    let upd := { room10 with authNodes := [{ g102 with userNodes := g102.userNodes ++ [row 111 102 300 0 (.user 1 true)],
                                                        userEdges := g102.userEdges ++ [edge 102 101 34 111 300 0] }] }
    (loaded polluted 10).isAdmin 2 400 = false ∧
    (loaded (stateOf (accept Defects.asImplemented polluted upd)) 10).isAdmin 2 400 = true ∧
    (loaded (stateOf (accept Defects.none polluted upd)) 10).isAdmin 2 400 = true := by
  decide

/-- **two rows with one id in a list — fixed in /repo 846341e, kept as a regression witness about
    `Defects.beforeFixes`.** The candidate's admin list carries the stored admin entry (row 101, signed
    by key 0) and, after it, a second row with the same id 101 signed by key 5: "key 5 is an admin". The
    merge compares only the first row with id 101 with the stored entry, and a row whose id is stored is
    never judged as a new entry: together with one honest new user entry (so that the definition is
    written) the candidate was accepted and key 5 — an outsider — was an admin of the loaded room.
    The code as it is now refuses the candidate, as the intended check does. -/
theorem C07_breaks_duplicateIdsUnchecked :
    let cand := { room10 with adminNodes := room10.adminNodes ++ [row 101 102 350 5 (.user 5 true)],
                              adminEdges := room10.adminEdges ++ [edge 10 100 32 101 350 5],
                              authNodes := [{ g102 with userNodes := g102.userNodes ++ [row 111 102 300 0 (.user 1 true)],
                                                         userEdges := g102.userEdges ++ [edge 102 101 34 111 300 0] }] }
    (loaded w0 10).isAdmin 5 400 = false ∧
    (loaded (stateOf (accept Defects.beforeFixes w0 cand)) 10).isAdmin 5 400 = true ∧
    accept { Defects.beforeFixes with duplicateIdsUnchecked := false } w0 cand = .err .inconsistent ∧
    accept Defects.asImplemented w0 cand = .err .inconsistent ∧
    accept Defects.none w0 cand = .err .inconsistent := by
  decide

/-- **#4 the stored definition was replayed newest first — fixed in /repo f7a29ff, kept as a regression
    witness.** After an honest update that disables user key 2 (a second entry for that key), the
    definition read back from the tables no longer parsed ("A more recent User definition exists"):
    the instance could not restart and no peer could import the room. Read oldest first, it parses and
    decides as the loaded room does. -/
theorem C07_breaks_newestFirstRead :
    let upd := { room10 with authNodes := [{ g102 with userNodes := g102.userNodes ++ [row 160 102 300 0 (.user 2 false)],
                                                        userEdges := g102.userEdges ++ [edge 102 101 34 160 300 0] }] }
    let s1 := stateOf (accept Defects.asImplemented w0 upd)
    ((readBack true s1 10).map fun rn => match rn.parse with | .ok _ => 0 | .error (.room .invalidUserDate) => 1 | .error _ => 2) = some 1 ∧
    ((readBack false s1 10).map fun rn => match rn.parse with | .ok r => some (r.isUserValidAt 2 400) | .error _ => none) = some (some false) ∧
    (loaded s1 10).isUserValidAt 2 400 = false ∧ (loaded s1 10).isUserValidAt 2 200 = true := by
  decide

/-! ## 4. non-vacuity -/

-- the initial definition is accepted and loaded; an honest update (a user added by the user admin,
-- a newer group row and a right by the admin) passes the guard, is accepted by both settings, is
-- written, and read back
def honestUpdate : RoomNode :=
  { room10 with authNodes := [{ g102 with node := { row 102 101 100 0 (.other 2) with mdate := 500 },
                                           userNodes := g102.userNodes ++ [row 140 102 300 3 (.user 1 true)],
                                           userEdges := g102.userEdges ++ [edge 102 101 34 140 300 3],
                                           rightNodes := g102.rightNodes ++ [row 141 103 400 0 (.right 2 true true)],
                                           rightEdges := g102.rightEdges ++ [edge 102 101 33 141 400 0] }] }

example : (accept Defects.asImplemented emptyStore room10) = .ok w0 ∧ w0.rooms.length = 1 ∧ w0.nodes.length = 6 := by decide
example : candGuard w0 honestUpdate = true := by decide
example : ∃ s', accept Defects.none w0 honestUpdate = .ok s' ∧ s'.nodes.length = 8 ∧
    (loaded s' 10).can 1 2 450 .mutateAll = true ∧ (loaded w0 10).can 1 2 450 .mutateAll = false :=
  ⟨stateOf (accept Defects.none w0 honestUpdate), by decide⟩
-- an older room row (a peer that lags behind) does not hurt: the stored row is kept, the new entry accepted
example : ∃ s', accept Defects.asImplemented w0 { honestUpdate with node := { row 10 100 100 0 (.other 0) with mdate := 50 } } = .ok s' ∧
    (readBack false s' 10).map (·.node.mdate) = some 100 :=
  ⟨stateOf (accept Defects.asImplemented w0 { honestUpdate with node := { row 10 100 100 0 (.other 0) with mdate := 50 } }), by decide⟩
-- a user entry signed by a plain user is refused, an altered stored entry is refused
example : accept Defects.asImplemented w0
    { room10 with authNodes := [{ g102 with userNodes := g102.userNodes ++ [row 150 102 300 2 (.user 5 true)],
                                             userEdges := g102.userEdges ++ [edge 102 101 34 150 300 2] }] }
    = .err .notAuthorised := by decide
example : accept Defects.asImplemented w0
    { room10 with adminNodes := [row 101 102 100 0 (.user 0 false)] } = .err .mutated := by decide
-- a definition that is re-sent unchanged is accepted and changes nothing
example : accept Defects.asImplemented w0 room10 = .ok w0 := by decide


-- the reference room → group is tied to the admins, not to the group row's author: room 11 has two admins (keys 0
-- and 4); key 0 created group 102, key 4 re-signed its row later (an update of the group); the intended checks
-- accept the definition as a new room and as an update of the stored one
def room11 : RoomNode :=
  { room10 with adminEdges := room10.adminEdges ++ [edge 10 100 32 106 100 0],
                adminNodes := room10.adminNodes ++ [row 106 102 100 0 (.user 4 true)] }
example : (match accept Defects.none emptyStore
      { room11 with authNodes := [{ g102 with node := { row 102 101 100 4 (.other 2) with mdate := 500 } }] } with
    | .ok s' => (loaded s' 10).isAdmin 4 300 | _ => false) = true := by decide
example : (match accept Defects.none (stateOf (accept Defects.none emptyStore room11))
      { room11 with authNodes := [{ g102 with node := { row 102 101 100 4 (.other 2) with mdate := 500 },
                                               userNodes := g102.userNodes ++ [row 140 102 300 3 (.user 1 true)],
                                               userEdges := g102.userEdges ++ [edge 102 101 34 140 300 3] }] } with
    | .ok s' => (loaded s' 10).isUserValidAt 1 350 | _ => false) = true := by decide

-- the decisions clause on the honest update of `w0`: the stored definition, the merged one, the rooms they parse to
def oldW0 : RoomNode := (readBack false w0 10).getD room10
def mergedH : RoomNode :=
  match prepareWithHistory Defects.none (loaded w0 10) oldW0 honestUpdate with
  | some (.ok (m, _)) => m
  | _ => room10
def parsed (r : RoomNode) : RoomT := match r.parse with | .ok x => x | .error _ => Discret.Room.Room.empty 0 0

-- the hypotheses of `C07_decisions_past` hold there: the new entries are dated 300, 400 (and the newer group row 500),
-- so every date up to 299 qualifies and 300 does not
example : readBack false w0 10 = some oldW0 ∧
    (match prepareWithHistory Defects.none (loaded w0 10) oldW0 honestUpdate with
     | some (.ok (m, u)) => decide (m = mergedH) && u
     | _ => false) = true ∧
    (match oldW0.parse with | .ok x => decide (x = parsed oldW0) | .error _ => false) = true ∧
    (match mergedH.parse with | .ok x => decide (x = parsed mergedH) | .error _ => false) = true ∧
    mergedH.idsDistinct = true ∧ newAfterB oldW0 mergedH 299 = true ∧ newAfterB oldW0 mergedH 300 = false := by decide
-- and its conclusion: at 299 every decision of the room installed is the stored room's; at 450 they differ
example : (parsed mergedH).SameAt (parsed oldW0) 299 :=
  C07_decisions_past Defects.none (loaded w0 10) oldW0 honestUpdate mergedH true (by rfl) (parsed oldW0) (parsed mergedH)
    (by rfl) (by rfl) (by decide)
    ⟨by unfold Discret.Room.UserFunc; decide, by unfold Discret.Room.UserFunc Discret.Room.RightFunc; decide⟩ 299
    (newAfter_of_bool (by decide))
example : (parsed mergedH).can 1 2 450 .mutateAll = true ∧ (parsed oldW0).can 1 2 450 .mutateAll = false := by decide

end Discret.RoomNode
