import DiscretModel.Lemmas.Value
import DiscretModel.Lemmas.ValueSql
import DiscretModel.Lemmas.ValueShape
/-
C04 — Values round-trip unchanged and text is never executed.

Model: `Model/Value.lean`. Strings are `List Char` (a Lean `Char` is exactly a Unicode scalar value), integers are
`Int`; no statement below has a bound on the length of a string, the size of a query or the magnitude of
a number. Floats and Json values are opaque to the model (exercised by the harness only).

What is proved about the code as it is (`Defects.asImplemented`) and what only about the intended
behaviour (`Defects.none`) is stated theorem by theorem; the `C04_breaks_*` theorems are concrete
counter-examples of the full statement for the code as it is.
-/
namespace Discret.Value

/-! ## Values round-trip unchanged -/

/-- **C04 (strings).** For every string — any Unicode scalars, any length — the text `serde_json` writes
    into the `_json` column is read back by the client as exactly that string. -/
theorem C04_string_roundtrip (s : List Char) : unescape false (escape s) = some s :=
  unescape_escape false s

/-- **C04 (integers).** The decimal text of every integer is read back as that integer; in the `i64`
    range it is also what `str::parse::<i64>` accepts. -/
theorem C04_int_roundtrip (i : Int) :
    parseInt (printInt i) = some i ∧ (inI64 i = true → parseI64 (printInt i) = some i) :=
  ⟨parseInt_printInt i, parseI64_printInt i⟩

/-- **C04 (parameters).** A parameter admitted by `validate_params` for a field (any type the model renders:
    String, Base64, Integer, Boolean, null where the field is nullable) is stored as such, and the JSON
    text written for it, re-emitted by SQLite and read by the client, is that value: `stored (param v) = v`. -/
theorem C04_param_stored_returned (ty : FieldTy) (nullable : Bool) (v s : Scalar)
    (h : admitParam ty nullable v = .ok s) (ht : v.transparent = true) :
    s = v ∧ readJson (reemit (jsonText s)) = some v := by
  have hs := admitParam_eq ty nullable v s h
  subst hs
  exact ⟨rfl, readJson_jsonText s ht⟩

/-- **C04 (no other field).** Updating a row through a mutation that assigns some fields leaves every other
    field of the row as it was — whatever the row holds (no text at all, empty strings, nulls, absent fields)
    — and a field that is assigned reads back as the assigned value. -/
theorem C04_update_keeps_other_fields (row : RowVals) (sets : List (Nat × Scalar)) (k : Nat)
    (h : ∀ p ∈ sets, p.1 ≠ k) :
    (applyUpdate row sets)[k]? = row[k]? ∧
    ∀ (j : Nat) (v : Scalar), j < row.length → (applyUpdate row [(j, v)])[j]? = some (some v) :=
  ⟨applyUpdate_other row sets k h, fun j v hj => setField_same row j v hj⟩

/-! ## Literals -/

/-- **C04 (literals, intended behaviour).** With the literal decoding as it should be, the value of a
    string literal is the JSON string it spells. -/
theorem C04_literal_full (body : List Char) : litValue Defects.none body = unescape true body := rfl

/-- The full statement is FALSE of the code (candidate #27): the literal `"\n"` is accepted by the grammar,
    spells a line feed, and is stored as the two characters backslash, `n`. -/
theorem C04_breaks_literalEscapes :
    ∃ body, litOk body = true ∧ unescape true body = some [Char.ofNat 10] ∧
      litValue Defects.asImplemented body = some ['\\', 'n'] ∧
      litValue Defects.asImplemented body ≠ unescape true body :=
  ⟨['\\', 'n'], by decide, by decide, by decide, by decide⟩

/-- **C04_partial (literals, the code as it is).** A literal in which every backslash is followed by a
    double quote — the only escape the parsers decode — means the JSON string it spells.
    Missing with respect to the full statement: every literal that uses another JSON escape. -/
theorem C04_partial (body : List Char) (h : plainLit body = true) :
    litValue Defects.asImplemented body = unescape true body := by
  simp [litValue, Defects.asImplemented, plainLit_unescape body h]

/-- Exact characterisation of the strings that survive being typed as a JSON string literal:
    decoding the JSON spelling of `s` the way the parsers do gives `s` back iff `s` contains no backslash
    and no C0 control character. -/
theorem C04_literal_json_spelling_iff (s : List Char) :
    litDecode (escape s) = s ↔ ∀ c ∈ s, c ≠ '\\' ∧ 32 ≤ c.toNat := by
  rw [litDecode_escape]; exact flatMap_litImage_eq_iff s

/-! ## Equality filters -/

/-- **C04 (filters, intended behaviour).** A row storing `v` — `null` included — is matched by the equality
    filter on `v`, given as a parameter or as a literal, whatever the field's default value. -/
theorem C04_filter_matches (dflt : Option Scalar) (v : Scalar) :
    filterMatches Defects.none dflt (some v) (.param v) = true ∧
    filterMatches Defects.none dflt (some v) (.lit v) = true := by
  cases hv : v with
  | null => exact ⟨rfl, rfl⟩
  | _ =>
    have hne : v ≠ .null := by rw [hv]; simp
    have h := sqlEq_refl v hne
    rw [hv] at h
    cases dflt <;> simp [filterMatches, h]

/-- a row created before the field existed is matched by the filter on the field's default value -/
theorem C04_filter_matches_default (d : Defects) (dv : Scalar) (h : dv ≠ .null) :
    filterMatches d (some dv) none (.param dv) = true := by
  have := sqlEq_refl dv h
  cases dv <;> simp_all [filterMatches, sqlIsNull]

/-- The full statement is FALSE of the code: a `null` parameter never matches the row that stores `null`
    (`field = ?n` with NULL bound), while the literal `null` does. -/
theorem C04_breaks_nullParamNoMatch :
    filterMatches Defects.asImplemented none (some .null) (.param .null) = false ∧
    filterMatches Defects.asImplemented none (some .null) (.lit .null) = true := ⟨rfl, rfl⟩

/-- **C04_partial (filters, the code as it is).** Every non-null value is matched. -/
theorem C04_partial_filter (dflt : Option Scalar) (v : Scalar) (h : v ≠ .null) :
    filterMatches Defects.asImplemented dflt (some v) (.param v) = true ∧
    filterMatches Defects.asImplemented dflt (some v) (.lit v) = true := by
  have hs := sqlEq_refl v h
  cases v <;> cases dflt <;> simp_all [filterMatches]

/-- the filter matches no row holding another value (no default involved; values the model renders) -/
theorem C04_filter_exact (d : Defects) (a b : Scalar) (ha : a.transparent = true) (hb : b ≠ .null)
    (h : filterMatches d none (some a) (.param b) = true) : a = b := by
  cases b <;> simp_all [filterMatches] <;> exact sqlEq_eq _ _ ha h

/-! ## Text is never executed: the structure of the statement

Since the fixes d527622 (String/Base64 defaults of a filtered field are bound) and cedb2ae (a variable never
shares the slot of a literal) the two statement-level deviations are off in `Defects.asImplemented`: the full
statements below hold for the code as it is. `Defects.beforeFixes` is the code before those commits; the
`C04_breaks_*` theorems about it are kept as regression witnesses (their replays are in `corpus/C04`). -/

/-- the `Defects` values whose statements are value independent: the intended behaviour and the code as it is -/
def Defects.structural (d : Defects) : Prop := d.varAliasesLiteral = false ∧ d.defaultSpliced = false

theorem structural_none : Defects.none.structural := ⟨rfl, rfl⟩
theorem structural_asImplemented : Defects.asImplemented.structural := ⟨rfl, rfl⟩

/-- **C04 (structure) — part 1.** In the statement of any query (the code as it is) no text is written
    between quotes, and every spliced piece — a numeral — is lexically closed. -/
theorem C04_structure_closed (q : TopQ) : ∀ t ∈ sqlTokens Defects.asImplemented q, t.closed = true := by
  intro t ht
  cases t with
  | quoted s => exact absurd (sqlTokens_quoted Defects.asImplemented q s ht).1 (by decide)
  | _ => rfl

/-- **C04 (structure) — part 2.** The statement of a query and the statement of its skeleton (every parameter
    value is outside the query anyway; every literal and default value replaced by an empty one of its kind)
    consist of the same tokens up to the digits of spliced numerals, with the same `?n` numbering and the same
    binding order: no value decides the structure. Holds for the code as it is and for the intended behaviour. -/
theorem C04_structure_invariant (d : Defects) (hd : d.structural) (q : TopQ) :
    shapes (sqlTokens d q.erase) = shapes (sqlTokens d q) ∧
    (compile d q.erase).1 = eraseParams (compile d q).1 :=
  ⟨(compile_erase d hd.1 hd.2 q).2, (compile_erase d hd.1 hd.2 q).1⟩

/-- two queries with the same skeleton have statements of the same shape (the code as it is) -/
theorem C04_structure_same_skeleton (q q' : TopQ) (h : q.erase = q'.erase) :
    shapes (sqlTokens Defects.asImplemented q) = shapes (sqlTokens Defects.asImplemented q') := by
  rw [← (C04_structure_invariant _ structural_asImplemented q).1,
    ← (C04_structure_invariant _ structural_asImplemented q').1, h]

/-- spliced numerals are digits with an optional sign: they cannot contain a quote, a space or any SQL
    metacharacter -/
theorem C04_numeral_chars (i : Int) :
    ∀ c ∈ printInt i, c = '-' ∨ (48 ≤ c.toNat ∧ c.toNat ≤ 57) := by
  intro c hc
  cases i with
  | ofNat n => exact Or.inr (natDigits_chars n c hc)
  | negSucc n =>
    simp only [printInt, List.mem_cons] at hc
    rcases hc with hc | hc
    · exact Or.inl hc
    · exact Or.inr (natDigits_chars _ c hc)

/-- `P(v = $f) { a }` where `v` has the String default `dv` and was added to the model later -/
def witnessQuery (dv : List Char) : TopQ :=
  { table := "P", eshort := "0",
    fields := [.scalar { key := "a", field := { name := "a", short := "32", dflt := none, isSystem := false } }],
    filters := [{ name := "v", op := "=", value := .var "f", selected := false,
                  field := { name := "v", short := "34", dflt := some (.str dv), isSystem := false } }] }

/-- Regression witness (candidate #9, fixed by d527622): before the fix the default value `it's` of a
    filtered field was written between quotes into the statement, where its quote ends the string. -/
theorem C04_breaks_defaultSpliced :
    ∃ t ∈ sqlTokens Defects.beforeFixes (witnessQuery "it's".toList), t.closed = false := by
  refine ⟨Tok.quoted "it's".toList, ?_, by decide⟩
  simp [sqlTokens, compile, entityQuery, qFieldsLoop, qFieldToks, selFieldToks, existsLoop, whereFilters,
    filtersLoop, filterToks, filterValue, filterDefaultTok, witnessQuery, Defects.beforeFixes]

/-- **C04_partial (structure, any behaviour).** If no String/Base64/Json default that the statement splices
    contains a quote or a NUL, every spliced piece of the statement is lexically closed — what could be said
    of the code before the fix. -/
theorem C04_partial_structure (d : Defects) (q : TopQ)
    (guard : ∀ s, q.splices s → (Tok.quoted s).closed = true) :
    ∀ t ∈ sqlTokens d q, t.closed = true := by
  intro t ht
  cases t with
  | quoted s => exact guard s (sqlTokens_quoted d q s ht).2
  | _ => rfl

/-- `P(v = "<lit>", a >= $a) { a }` -/
def aliasQuery (lit : List Char) : TopQ :=
  { table := "P", eshort := "0",
    fields := [.scalar { key := "a", field := { name := "a", short := "32", dflt := none, isSystem := false } }],
    filters := [{ name := "v", op := "=", value := .lit (.str lit), selected := false,
                  field := { name := "v", short := "33", dflt := none, isSystem := false } },
                { name := "a", op := ">=", value := .var "a", selected := false,
                  field := { name := "a", short := "32", dflt := none, isSystem := false } }] }

/-- Regression witness (fixed by cedb2ae): before the fix the slot of a variable was looked up by comparing its
    name with the text of every recorded parameter, literals included. With the literal `"a"` the variable `$a`
    received the literal's slot `?1` (and the literal's text was bound there); with `"b"` it received `?2`.
    The two queries have the same skeleton. The code as it is gives `$a` its own slot. -/
theorem C04_breaks_varAliasesLiteral :
    (aliasQuery "a".toList).erase = (aliasQuery "b".toList).erase ∧
    Tok.bind 2 ∈ sqlTokens Defects.beforeFixes (aliasQuery "b".toList) ∧
    Tok.bind 2 ∉ sqlTokens Defects.beforeFixes (aliasQuery "a".toList) ∧
    (compile Defects.beforeFixes (aliasQuery "a".toList)).1 = [(true, "a".toList)] ∧
    (compile Defects.asImplemented (aliasQuery "a".toList)).1 = [(true, "a".toList), (false, "a".toList)] := by
  refine ⟨rfl, ?_, ?_, ?_, ?_⟩ <;>
  simp [sqlTokens, compile, entityQuery, qFieldsLoop, qFieldToks, selFieldToks, existsLoop, whereFilters,
      filtersLoop, filterToks, filterValue, aliasQuery, Defects.asImplemented, Defects.beforeFixes, addParam, findSlot, tab]

/-! ## The hypotheses are satisfiable by non-trivial values -/

example : unescape false (escape "a\"b\\c\n\x00é😀'; DROP TABLE _node; --".toList)
    = some "a\"b\\c\n\x00é😀'; DROP TABLE _node; --".toList := C04_string_roundtrip _

example : plainLit "say \\\"hi\\\" it's".toList = true ∧
    litValue Defects.asImplemented "say \\\"hi\\\" it's".toList = some "say \"hi\" it's".toList := by
  constructor <;> decide

example : admitParam .string false (.str "x'y".toList) = .ok (.str "x'y".toList) ∧
    (Scalar.str "x'y".toList).transparent = true := ⟨rfl, rfl⟩

example : admitParam .integer true .null = .ok .null := rfl

example : readRow (applyUpdate [some (.int 1), some (.float 4602678819172646912 "0.5".toList), some (.bool true), none] [(0, .int 2)])
    = [.int 2, .float 4602678819172646912 "0.5".toList, .bool true, .null] := by decide

example : (witnessQuery "plain".toList).splices "plain".toList ∧ (Tok.quoted "plain".toList).closed = true :=
  ⟨Or.inl ⟨_, List.mem_singleton.mpr rfl, rfl⟩, by decide⟩

example : (aliasQuery "a".toList).erase = (aliasQuery "zzz".toList).erase := rfl

end Discret.Value
